#!/bin/sh
# Builds the framework offline from files on disk: the Coq development (full .vo build)
# and the Go harnesses against /repo's working tree with tag `verif`.
cd "$(dirname "$0")"
export GOFLAGS=-mod=mod GOPROXY=off
unset GOTOOLCHAIN GOSUMDB
mkdir -p .work evidence replays
fail=0
# no Admitted / Axiom / ... anywhere in the development (each check re-scans its own closure and fails on a hit)
if ! python3 - <<'PY'
import re, glob, sys
pat = re.compile(r"\b(Admitted|admit|Axiom|Axioms|Parameter|Parameters|Conjecture|Admit Obligations|bypass_check|Unset Guard Checking|Unset Positivity Checking|Unset Universe Checking|type-in-type)\b")
bad = []
for f in sorted(glob.glob("coq/*/*.v")):
    txt = re.sub(r"\(\*.*?\*\)", "", open(f).read(), flags=re.S)   # comments may use the English word "admit"
    bad += ["%s: %s" % (f, m.group(1)) for m in pat.finditer(txt)]
print("\n".join(bad))
sys.exit(1 if bad else 0)
PY
then
  echo "WARNING: forbidden construct in the Coq development" >&2; fail=1
fi
(cd coq && { echo "-Q . KV"; ls */*.v | LC_ALL=C sort; } > _CoqProject && coq_makefile -f _CoqProject -o Makefile >/dev/null && timeout 3000 make -k -j16 >.make.log 2>&1 || { echo "WARNING: Coq build incomplete" >&2; grep -B2 -A8 '^Error' .make.log | head -60; fail=1; })
cp /repo/go.sum harness/go.sum
for d in harness/cmd/*/; do p=$(basename $d); (cd harness && timeout 3000 go build -tags verif -o ../.work/vh-$p ./cmd/$p) || { echo "WARNING: harness $p does not build" >&2; fail=1; }; done
[ $fail = 0 ] && echo "setup ok" || echo "setup finished with warnings (the affected checks will report them)"
exit 0
