#!/bin/sh
# Builds the framework offline from files on disk: the Coq development (full .vo build)
# and the Go harness against /repo's working tree with tag `verif`.
set -e
cd "$(dirname "$0")"
export GOFLAGS=-mod=mod GOPROXY=off
unset GOTOOLCHAIN GOSUMDB
mkdir -p .work evidence replays
# no Admitted / Axiom / ... anywhere in the development
if grep -rnE '\b(Admitted|admit|Axiom|Parameter|Conjecture|bypass_check)\b|Admit Obligations|Unset Guard Checking|Unset Positivity Checking|Unset Universe Checking' --include='*.v' coq | grep -v '(\*.*\*)' ; then
  echo "forbidden construct in the Coq development" >&2; exit 1
fi
(cd coq && { echo "-Q . KV"; ls */*.v | LC_ALL=C sort; } > _CoqProject && coq_makefile -f _CoqProject -o Makefile >/dev/null && timeout 3000 make -j16 >.make.log 2>&1 || { tail -40 .make.log; exit 1; })
cp /repo/go.sum harness/go.sum
for d in harness/cmd/*/; do p=$(basename $d); (cd harness && timeout 3000 go build -tags verif -o ../.work/vh-$p ./cmd/$p) || exit 1; done
echo "setup ok"
