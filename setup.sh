#!/bin/sh
# Builds the framework offline from files on disk: the Coq development (full .vo build)
# and the Go harnesses against /repo's working tree with tag `verif`.
cd "$(dirname "$0")"
export GOFLAGS=-mod=mod GOPROXY=off
unset GOTOOLCHAIN GOSUMDB
mkdir -p .work evidence replays
fail=0
# no Admitted / Axiom / ... anywhere in the development (each check re-scans its own closure and fails on a hit)
if grep -rnE '\b(Admitted|admit|Axiom|Parameter|Conjecture|bypass_check)\b|Admit Obligations|Unset Guard Checking|Unset Positivity Checking|Unset Universe Checking' --include='*.v' coq | grep -v '(\*.*\*)' ; then
  echo "WARNING: forbidden construct in the Coq development" >&2; fail=1
fi
(cd coq && { echo "-Q . KV"; ls */*.v | LC_ALL=C sort; } > _CoqProject && coq_makefile -f _CoqProject -o Makefile >/dev/null && timeout 3000 make -k -j16 >.make.log 2>&1 || { echo "WARNING: Coq build incomplete" >&2; grep -B2 -A8 '^Error' .make.log | head -60; fail=1; })
cp /repo/go.sum harness/go.sum
for d in harness/cmd/*/; do p=$(basename $d); (cd harness && timeout 3000 go build -tags verif -o ../.work/vh-$p ./cmd/$p) || { echo "WARNING: harness $p does not build" >&2; fail=1; }; done
[ $fail = 0 ] && echo "setup ok" || echo "setup finished with warnings (the affected checks will report them)"
exit 0
