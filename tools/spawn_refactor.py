#!/usr/bin/env python3
import json, sys, subprocess, os
n = sys.argv[1]; pids = sys.argv[2:]
wt = "/tmp/ref-%s" % n
subprocess.run(["git", "-C", "/repo", "worktree", "add", "-f", wt, "HEAD"], check=True, capture_output=True)
base = json.load(open("/root/.vp/BASELINE.json"))
open(os.path.join(wt, "_stable_tests.txt"), "w").write("\n".join(base["stable_pass"]) + "\n")
files = []
for l in open("/verif/properties.jsonl"):
    p = json.loads(l)
    if p["id"] in pids:
        for f in p["anchors"]["files"]:
            if f not in files and os.path.exists(os.path.join(wt, f)):
                files.append(f)
t = open("/verif/tools/refactor_prompt.txt").read().replace("{WT}", wt).replace("{FILES}", "\n".join("  " + f for f in files))
out = "/tmp/ref-prompt-%s.txt" % n
open(out, "w").write(t); print(out, len(files))
