#!/bin/bash
# tools/integrate.sh C07 : run the check, commit the property's hook files in /repo, show a summary
PID=$1; pid=$(echo $PID | tr A-Z a-z)
cd /verif
./check $PID > .work/integrate_$PID.log 2>&1; RC=$?
tail -4 .work/integrate_$PID.log
echo "check exit=$RC"
HOOKS=$(cd /repo && git status --short | grep "verif_export_${pid}" | awk '{print $2}')
if [ -n "$HOOKS" ]; then
  (cd /repo && GOFLAGS=-mod=mod GOPROXY=off go build ./pkg/... && git add $HOOKS && git commit -q -m "verif hook: exports for the $PID harness (build tag verif)" && git log --oneline | head -1)
fi
grep -c "^Theorem" coq/Properties/$PID.v
