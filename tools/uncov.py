#!/usr/bin/env python3
"""tools/uncov.py cover.txt file-substring...: list zero-count blocks (merged) of the matching files"""
import sys,re,collections
cov=collections.defaultdict(dict)
for l in open(sys.argv[1]):
    m=re.match(r'(\S+):(\d+)\.(\d+),(\d+)\.(\d+) (\d+) (\d+)',l)
    if not m: continue
    f=m.group(1); key=(int(m.group(2)),int(m.group(4)))
    cov[f][key]=cov[f].get(key,0)+int(m.group(7))
for f in sorted(cov):
    if not any(s in f for s in sys.argv[2:]): continue
    z=sorted(k for k,v in cov[f].items() if v==0)
    print("%s: %d/%d uncovered"%(f,len(z),len(cov[f])))
    print("   "," ".join("%d-%d"%k for k in z))
