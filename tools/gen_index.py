#!/usr/bin/env python3
"""Regenerates DESIGN.md section 0.4 (theorem index) from coq/Properties/*.v, tools/claims.json and known-findings.txt."""
import re, json, glob
claims = json.load(open('/verif/tools/claims.json'))['claimed']
kf = {}
for l in open('/verif/known-findings.txt'):
    m = re.match(r'finding:\s+property=(\S+)\s+key=(\S+)', l)
    if m:
        kf.setdefault(m.group(1), []).append(m.group(2))
rows = []
for pid in sorted(claims):
    src = open('/verif/coq/Properties/%s.v' % pid).read()
    thms = re.findall(r'^Theorem\s+(\w+)', src, re.M)
    ref = [t for t in thms if t.endswith('_refuted')]
    par = [t for t in thms if '_partial' in t]
    rows.append("| %s | %d | %s | %s | %s |" % (pid, len(thms), ", ".join(t for t in thms if t not in ref and t not in par),
                ", ".join(par + ref) or "-", ", ".join(kf.get(pid, [])) or "-"))
p = '/verif/DESIGN.md'
s = open(p).read()
a = s.index("| Prop | # | full-strength theorems |")
b = s.index("\n\nEvery `Print Assumptions`", a)
hdr = "| Prop | # | full-strength theorems | partial / refuted variants | known-finding keys |\n|---|---|---|---|---|\n"
s = s[:a] + hdr + "\n".join(rows) + s[b:]
open(p, 'w').write(s)
print("index regenerated:", len(rows))
