#!/usr/bin/env python3
"""Prepares a scratch worktree + prompt for an independent mutation agent: tools/spawn_mutant.py C20 1"""
import json, sys, subprocess, os
pid, n = sys.argv[1], sys.argv[2]
wt = "/tmp/mut-%s-%s" % (pid, n)
subprocess.run(["git", "-C", "/repo", "worktree", "add", "-f", wt, "HEAD"], check=True, capture_output=True)
base = json.load(open("/root/.vp/BASELINE.json"))
open(os.path.join(wt, "_stable_tests.txt"), "w").write("\n".join(base["stable_pass"]) + "\n")
p = [json.loads(l) for l in open("/verif/properties.jsonl") if json.loads(l)["id"] == pid][0]
t = open("/verif/tools/mutant_prompt.txt").read()
t = (t.replace("{WT}", wt).replace("{PID}", pid).replace("{N}", n).replace("{TITLE}", p["title"])
      .replace("{STATEMENT}", p["statement"]).replace("{QUANT}", p["quantifier"]["text"])
      .replace("{FILES}", ", ".join(p["anchors"]["files"])))
out = "/tmp/mut-prompt-%s-%s.txt" % (pid, n)
open(out, "w").write(t)
print(out)
