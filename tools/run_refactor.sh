#!/bin/bash
# tools/run_refactor.sh N : run all 20 quick checks against refactor worktree /tmp/ref-N; expect every exit 0
N=$1; WT=/tmp/ref-$N; OUT=/verif/.work/refactor_$N.log; : > $OUT
for p in C01 C02 C03 C04 C05 C06 C07 C08 C09 C10 C11 C12 C13 C14 C15 C16 C17 C18 C19 C20; do
  VERIF_REPO=$WT /verif/check $p > /tmp/ref-$N-$p.log 2>&1; rc=$?
  echo "$p rc=$rc $(grep -c VIOLATION /tmp/ref-$N-$p.log) $(tail -n 1 /tmp/ref-$N-$p.log | cut -c1-160)" >> $OUT
done
echo DONE >> $OUT
