#!/usr/bin/env python3
"""Regenerates MANIFEST.json from tools/claims.json (one entry per claimed property)."""
import json, os, subprocess
R = os.path.dirname(os.path.dirname(os.path.abspath(__file__)))
props = [json.loads(l) for l in open(os.path.join(R, 'properties.jsonl'))]
claims = json.load(open(os.path.join(R, 'tools', 'claims.json')))
hooks = subprocess.run("git -C /repo log --format=%h --grep='^verif hook'", shell=True, capture_output=True, text=True).stdout.split()
checks = []
for pid in sorted(claims['claimed']):
    c = claims['claimed'][pid]
    checks.append({"property_id": pid, "quick_cmd": "./check %s --tier quick" % pid, "thorough_cmd": "./check %s --tier thorough" % pid,
                   "evidence_file": "/verif/evidence/%s.json" % pid, "replay_cmd_template": "./check %s --replay {path}" % pid,
                   "engine": "coq-corr",
                   "level_claimed": {"category": "proof", "text": c["text"], "design_ref": c.get("ref", "DESIGN.md section 5/" + pid)},
                   "level_note": c["note"], "technique": c["tech"]})
na = []
for p in props:
    if p["id"] not in claims['claimed']:
        na.append({"property_id": p["id"], "reason": claims.get('not_applicable', {}).get(p["id"],
                   "not claimed yet: model and check under construction (DESIGN.md section 5); no technical obstacle")})
m = {"version": 1, "setup_cmd": "./setup.sh",
     "hooks": {"guard": "verif (Go build tag)",
               "enable": "go build -tags verif (harness module /verif/harness, replace sigs.k8s.io/karpenter => /repo)",
               "baseline_off_cmd": "cd /repo && GOFLAGS=-mod=mod GOPROXY=off go test -json -vet=off -count=1 -timeout 25m ./...",
               "source_commits": hooks, "add_only": True},
     "engines": [{"name": "coq-corr", "path": "/verif/check", "serves_properties": sorted(claims['claimed']),
                  "kind_free_text": "Coq 8.16 theorems over hand-written Gallina models + differential correspondence check (Go harness, tag verif) evaluated by vm_compute"}],
     "checks": checks,
     "notes": "See DESIGN.md. known-findings.txt lists recorded and fixed defects.",
     "not_applicable": na}
json.dump(m, open(os.path.join(R, 'MANIFEST.json'), 'w'), indent=1)
print("claimed:", sorted(claims['claimed']))
