#!/bin/bash
# tools/eval_mutant.sh C20 1 : confirm a sub-agent's seeded change and run our check against it.
PID=$1; N=$2; WT=/tmp/mut-$PID-$N; ID=$PID-$N
export GOFLAGS=-mod=mod GOPROXY=off
cd $WT || exit 2
[ -f _seed/patch.diff ] || { echo "no patch"; exit 2; }
DEMO_CMD=$(python3 -c "import json;print(json.load(open('_seed/meta.json'))['demo_cmd'])")
echo "== demo cmd: $DEMO_CMD"
# state: patch applied + demo present (as delivered). Normalise: reverse-apply if applied.
git apply -R --check _seed/patch.diff 2>/dev/null && APPLIED=1 || APPLIED=0
[ $APPLIED = 1 ] || git apply _seed/patch.diff || { echo "patch does not apply"; exit 2; }
echo "== build with patch"; go build ./... 2>&1 | tail -3
echo "== demo WITH patch (must fail)"; (eval "$DEMO_CMD") > _seed/with.log 2>&1; W=$?; tail -5 _seed/with.log
git apply -R _seed/patch.diff
echo "== demo WITHOUT patch (must pass)"; (eval "$DEMO_CMD") > _seed/without.log 2>&1; WO=$?; tail -3 _seed/without.log
git apply _seed/patch.diff
echo "== confirmed: with=$W (want !=0) without=$WO (want 0)"
echo "== our check against the patched tree"
# the agent's worktree may predate later fix:/hook commits of /repo: evaluate the patch on a fresh worktree of the current HEAD
EV=/tmp/ev-$ID; git -C /repo worktree remove --force $EV 2>/dev/null; rm -rf $EV
git -C /repo worktree add -f $EV HEAD >/dev/null 2>&1
(cd $EV && (git apply $WT/_seed/patch.diff || git apply --3way $WT/_seed/patch.diff)) || { echo "patch does not apply on current HEAD"; }
(cd $EV && go build ./... 2>&1 | tail -3)
cd /verif && VERIF_REPO=$EV ./check $PID > /tmp/mut-$ID-check.log 2>&1; C=$?; tail -6 /tmp/mut-$ID-check.log
git -C /repo worktree remove --force $EV 2>/dev/null; rm -rf $EV
echo "== check exit=$C"
mkdir -p /verif/seeded/$ID && cp -r $WT/_seed/patch.diff $WT/_seed/demo $WT/_seed/meta.json /verif/seeded/$ID/ 2>/dev/null
python3 - <<PY
import json
p='/verif/seeded/$ID/meta.json'
m=json.load(open(p))
m['confirmed_by_main_session']={'demo_exit_with_patch':$W,'demo_exit_without_patch':$WO,'check_cmd':'VERIF_REPO=<worktree with patch> ./check $PID','check_exit':$C,
  'check_tail':open('/tmp/mut-$ID-check.log').read()[-600:]}
json.dump(m,open(p,'w'),indent=1)
PY
