package main

// branch names the path of the modelled code a cache operation is about to take, from the API state
// and the cache as it is before the call (input-distribution table of the evidence).
func (g *gen) branch(o Op) {
	d := g.pre
	switch o.Kind {
	case "DeliverNode":
		if !g.w.pvLate {
			for _, p := range g.w.pods {
				for _, v := range p.Vols {
					if v == "pvc-z" && p.Node == o.Name && !p.Terminal {
						g.count("br:UpdateNode:fails-pod-volume-unresolvable")
					}
				}
			}
		}
		n, ok := g.w.nodes[o.Name]
		id, known := d.NodeNameToPID[o.Name]
		switch {
		case !ok && !known:
			g.count("br:DeleteNode:unknown")
		case !ok && d.Nodes[id].ClaimName != "":
			g.count("br:DeleteNode:claim-keeps-entry")
		case !ok:
			g.count("br:DeleteNode:entry-removed")
		case n.PID == "" && n.Pool != "":
			g.count("br:UpdateNode:skip-managed-without-providerID")
		case !trackable(n):
			g.count("br:UpdateNode:skip-no-instance-type")
		case known && id != epidOf(n):
			g.count("br:UpdateNode:providerID-changed")
		case known:
			g.count("br:UpdateNode:rebuild-known")
		default:
			if _, has := d.Nodes[epidOf(n)]; has {
				g.count("br:UpdateNode:joins-claim-entry")
			} else {
				g.count("br:UpdateNode:new-entry")
			}
		}
		if ok && n.PID == "" && n.Pool == "" {
			g.count("br:UpdateNode:providerID-defaults-to-name")
		}
	case "DeliverClaim":
		cl, ok := g.w.claims[o.Name]
		id, known := d.ClaimNameToPID[o.Name]
		switch {
		case !ok && !known:
			g.count("br:DeleteNodeClaim:unknown")
		case !ok && id == "":
			g.count("br:DeleteNodeClaim:unlaunched")
		case !ok && d.Nodes[id].NodeName != "":
			g.count("br:DeleteNodeClaim:node-keeps-entry")
		case !ok:
			g.count("br:DeleteNodeClaim:entry-removed")
		case cl.PID == "":
			g.count("br:UpdateNodeClaim:unlaunched")
		case known && id != cl.PID && id != "":
			g.count("br:UpdateNodeClaim:providerID-changed")
		default:
			if sn, has := d.Nodes[cl.PID]; has && sn.NodeName != "" && len(sn.PodRequests) > 0 {
				g.count("br:UpdateNodeClaim:carries-over-pods")
			} else if has {
				g.count("br:UpdateNodeClaim:carries-over-empty")
			} else {
				g.count("br:UpdateNodeClaim:new-entry")
			}
		}
	case "DeliverPod":
		if q, ok := g.w.pods[o.Name]; ok && !g.w.pvLate && !q.Terminal && q.Node != "" {
			for _, v := range q.Vols {
				if v == "pvc-z" {
					g.count("br:UpdatePod:fails-volume-unresolvable")
				}
			}
		}
		p, ok := g.w.pods[o.Name]
		old, bound := d.Bindings[podKey(o.Name)]
		_, oldTracked := d.NodeNameToPID[old]
		switch {
		case (!ok || p.Terminal) && !bound:
			g.count("br:PodCompletion:not-bound")
		case (!ok || p.Terminal) && !oldTracked:
			g.count("br:PodCompletion:node-gone")
		case !ok:
			g.count("br:DeletePod:cleans-node")
		case p.Terminal:
			g.count("br:UpdatePod:terminal-cleans-node")
		case p.Node == "":
			if bound {
				g.count("br:UpdatePod:pending-but-binding-known")
			} else {
				g.count("br:UpdatePod:pending")
			}
		default:
			if _, tracked := d.NodeNameToPID[p.Node]; !tracked {
				if bound {
					g.count("br:UpdatePod:node-not-found-binding-known")
				} else {
					g.count("br:UpdatePod:node-not-found")
				}
			} else if !bound {
				g.count("br:UpdatePod:new-binding")
			} else if old == p.Node {
				g.count("br:UpdatePod:same-binding")
			} else if oldTracked {
				g.count("br:UpdatePod:moved-cleans-old-node")
			} else {
				g.count("br:UpdatePod:moved-old-node-gone")
			}
			if p.DS {
				g.count("br:updateForPod:daemonset")
			} else if p.Cost > 0 {
				g.count("br:updateForPod:cost-positive")
			} else {
				g.count("br:updateForPod:cost-nonpositive")
			}
		}
	case "Mark", "Unmark":
		for _, id := range o.IDs {
			if _, ok := d.Nodes[id]; ok {
				g.count("br:" + o.Kind + ":hit")
			} else {
				g.count("br:" + o.Kind + ":miss")
			}
		}
	}
}

func epidOf(n *NodeV) string {
	if n.PID == "" {
		return n.Name
	}
	return n.PID
}
