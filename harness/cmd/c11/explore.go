package main

import (
	"fmt"
	"os"

	"verifharness/kit"
)

// explore prints divergences per profile (development aid: C11_EXPLORE=1 C11_PROFILE=...).
func explore(c *kit.Ctx) {
	stats := map[string]int{}
	shown := 0
	for i := 0; i < 300; i++ {
		r := runHistory(c.Rand.U64(), os.Getenv("C11_PROFILE"), nil)
		for _, cat := range categories(r.input.GoDiff) {
			stats[cat]++
		}
		if r.input.Panic != "" {
			stats["panic"]++
		}
		if (len(r.input.GoDiff) > 0 || r.input.Panic != "") && shown < 3 {
			shown++
			fmt.Println("====", r.input.GoDiff, r.input.Panic)
			for _, o := range r.input.Ops {
				fmt.Println("   ", o)
			}
		}
	}
	fmt.Println(stats)
}
