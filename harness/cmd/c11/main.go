// Package c11 drives the real state.Cluster through the real informer controllers on generated
// API histories, and compares the cache (a) with the Coq model at observation points, (b) after a
// closing round with the recomputation from the API objects (Coq oracle fresh_eqb on the
// implementation's cache) and (c) with a fresh real Cluster fed the final API state (model-free).
package main

import (
	"crypto/sha1"
	"fmt"
	"os"
	"runtime"
	"sort"
	"strings"
	"sync"

	"github.com/go-logr/logr"
	"sigs.k8s.io/controller-runtime/pkg/log"

	"verifharness/kit"
)

func markedIDs(w *world) []string {
	d := w.cluster.VerifC11Dump()
	var out []string
	for _, id := range kit.SortedKeys(d.Nodes) {
		if d.Nodes[id].MarkedField {
			out = append(out, id)
		}
	}
	return out
}

func opString(o Op) string {
	switch o.Kind {
	case "SetNode":
		return fmt.Sprintf("SetNode%+v", *o.Node)
	case "SetClaim":
		return fmt.Sprintf("SetClaim%+v", *o.Claim)
	case "SetPod":
		p := o.Pod
		return fmt.Sprintf("SetPod{%s@%s term=%v ds=%v req=%d/%d cost=%d ports=%v vols=%v antiaffinity=%v}", p.Name, p.Node, p.Terminal, p.DS, p.ReqCPU, p.ReqMem, p.Cost, p.PortsRes, p.VolsRes, p.AntiAff)
	case "Mark", "Unmark":
		return o.Kind + fmt.Sprint(o.IDs)
	case "Obs":
		return "(observe " + o.Tag + ")"
	case "Panic":
		return "(PANIC)"
	}
	return o.Kind + " " + o.Name
}

type caseInput struct {
	Profile      string   `json:"profile"`
	Ops          []string `json:"ops"`
	Premises     bool     `json:"premises_of_the_theorem_hold"`
	PremisesWeak bool     `json:"premises_of_the_once_delivered_variant_hold"`
	KfKey        string   `json:"kf_key,omitempty"`
	GoDiff       []string `json:"fresh_cluster_diff,omitempty"`
	WeakDiff     []string `json:"diff_after_each_object_delivered_once,omitempty"`
	Panic        string   `json:"panic,omitempty"`
}

type result struct {
	gallina  string
	input    caseInput
	counts   map[string]int
	key      string
	goFail   bool
	weakFail bool
	markFail string
}

var interesting = []string{"br:UpdateNode:providerID-changed", "br:UpdateNode:joins-claim-entry", "br:DeleteNode:claim-keeps-entry",
	"br:UpdateNodeClaim:carries-over-pods", "br:UpdateNodeClaim:providerID-changed", "br:DeleteNodeClaim:node-keeps-entry",
	"br:UpdatePod:moved-cleans-old-node", "br:UpdatePod:node-not-found", "br:DeletePod:cleans-node", "br:UpdatePod:terminal-cleans-node",
	"br:Mark:hit", "br:PodCompletion:node-gone", "br:UpdatePod:pending-but-binding-known"}

func profileOf(name string) profile {
	switch name {
	case "samenode":
		return profile{SameNodeRe: true}
	case "nodeloss":
		return profile{NodeLoss: true}
	case "untracked":
		return profile{Untracked: true}
	case "volheavy":
		return profile{VolHeavy: true}
	case "dangling-pv":
		return profile{DanglingPV: true}
	case "assume:pid-reuse":
		return profile{PidReuse: true}
	case "assume:relabel":
		return profile{Relabel: true}
	case "assume:untrackable-after-tracked":
		return profile{Untracked: true, Untrackable: true}
	}
	return profile{}
}

func runHistory(seed uint64, profName string, script func(g *gen)) (res result) {
	r := kit.NewRand(seed)
	counts := map[string]int{}
	g := &gen{r: r, w: newWorld(), prof: profileOf(profName), dirty: map[string]bool{}, ever: map[string]bool{}, bound: map[string]bool{},
		nominated: map[string]bool{}, claimPool: map[string]string{},
		count: func(k string) { counts[k]++ }, nNodes: r.Range(2, 4), nClaims: r.Range(1, 3), nPods: r.Range(2, 6),
		histOK: true, roundStart: -1}
	res.counts = counts
	res.input.Profile = profName
	counts["profile:"+profName]++
	var fresh, weak []string
	premises, premW := false, false
	panicked, msg := kit.Recover(func() {
		if script != nil {
			script(g)
		} else {
			n := r.Range(6, 28)
			mid := r.Range(3, n)
			g.history(mid)
			g.observe("mid", false)
			g.history(len(g.ops) + n - mid)
		}
		if g.prof.VolHeavy {
			g.volTail()
		}
		g.observe("history", false)
		if g.prof.DanglingPV {
			g.emit(Op{Kind: "CreatePV"}) // the volume finally exists; the pods' resolved volumes changed without a pod write
		}
		g.weakClose()
		// the weaker notion: every key delivered once after its last change
		premW = g.histOK && !g.stale && g.podsSettled() && !g.prof.DanglingPV
		fcw, fdw := g.w.fresh(markedIDs(g.w))
		weak = diffDumps(g.w.cluster.VerifC11Dump(), fdw)
		weak = append(weak, poolStateDiff(g.w.cluster, fcw, []string{"pa", "pb"})...)
		if a, b := antiAffinityView(g.w.cluster), antiAffinityView(fcw); strings.Join(a, ",") != strings.Join(b, ",") {
			weak = append(weak, fmt.Sprintf("anti-affinity: cached=%v fresh=%v", a, b))
		}
		res.input.WeakDiff = weak
		g.observe("each-delivered-once", premW)
		// the premises of quiescent_equals_fresh, evaluated where the closing round starts
		premises = g.histOK && g.podsSettled()
		g.fullRound()
		fc, fd := g.w.fresh(markedIDs(g.w))
		fresh = diffDumps(g.w.cluster.VerifC11Dump(), fd)
		fresh = append(fresh, poolStateDiff(g.w.cluster, fc, []string{"pa", "pb"})...)
		if a, b := antiAffinityView(g.w.cluster), antiAffinityView(fc); strings.Join(a, ",") != strings.Join(b, ",") {
			fresh = append(fresh, fmt.Sprintf("anti-affinity: cached=%v fresh=%v", a, b))
		}
		fresh = append(fresh, accessorDiff(g.w.cluster)...)
		fresh = append(fresh, syncedDiff(g.w)...)
		g.observe("final", premises)
	})
	if panicked {
		g.ops = append(g.ops, Op{Kind: "Panic"})
		g.roundStart = -1
		res.input.Panic = msg
		counts["outcome:panic"]++
	}
	switch {
	case panicked:
	case premW && len(weak) > 0:
		res.weakFail = true
		counts["once-delivered:premises-true:differs-from-fresh"]++
	case premW:
		counts["once-delivered:premises-true:equals-fresh"]++
	default:
		why := "hist_ok-or-pods_settled-false"
		if g.histOK && g.podsSettled() {
			why = "pod-rewritten-on-same-node"
		}
		counts["once-delivered:premises-false:"+why]++
		for _, c := range categories(weak) {
			counts["once-delivered:premises-false:differs:"+c]++
		}
	}
	res.input.GoDiff = fresh
	switch {
	case panicked:
	case !premises:
		why := g.histWhy
		if g.histOK {
			why = "pod-bound-to-untracked-node"
		}
		counts["premises:false:"+why]++
		if len(fresh) > 0 {
			counts["outcome:outside-premises:differs-from-fresh"]++
		} else {
			counts["outcome:outside-premises:equals-fresh"]++
		}
	case len(fresh) > 0:
		res.goFail = true
		counts["premises:true"]++
		counts["outcome:differs-from-fresh"]++
	default:
		counts["premises:true"]++
		counts["outcome:equals-fresh"]++
	}
	res.input.Premises = premises
	res.markFail = g.markFail
	res.input.PremisesWeak = premW
	for _, o := range g.ops {
		res.input.Ops = append(res.input.Ops, opString(o))
	}
	hit := 0
	for _, b := range interesting {
		if counts[b] > 0 {
			hit++
		}
	}
	if hit >= 2 && premises {
		res.key = fmt.Sprintf("%x", sha1.Sum([]byte(strings.Join(res.input.Ops, ";"))))
	}
	res.gallina = gCase(g.ops, g.roundStart, g.roundEnd)
	if g.prof.DanglingPV {
		// the pods' volume attributes depend on an object that is not part of the model's API: these histories are
		// checked against the fresh real Cluster only
		res.gallina = "[]"
	}
	return
}

func main() {
	c := kit.Parse("C11", os.Args[1:])
	log.SetLogger(logr.Discard())
	if os.Getenv("C11_EXPLORE") != "" {
		explore(c)
		return
	}
	nGen, nAssume := 270, 24
	if c.Thorough() {
		nGen, nAssume = 3000, 300
	}
	type job struct {
		seed   uint64
		prof   string
		script func(*gen)
	}
	var jobs []job
	for _, s := range corpus() {
		jobs = append(jobs, job{1, s.prof, s.run})
	}
	for i := 0; i < nGen; i++ {
		prof := "wellformed"
		switch x := c.Rand.Intn(20); {
		case x < 3:
			prof = "samenode"
		case x < 6:
			prof = "nodeloss"
		case x < 9:
			prof = "untracked"
		case x < 11:
			prof = "volheavy"
		case x < 12:
			prof = "dangling-pv"
		}
		jobs = append(jobs, job{c.Rand.U64(), prof, nil})
	}
	for i := 0; i < nAssume; i++ {
		jobs = append(jobs, job{c.Rand.U64(), []string{"assume:pid-reuse", "assume:relabel", "assume:untrackable-after-tracked"}[i%3], nil})
	}
	results := make([]result, len(jobs))
	var wg sync.WaitGroup
	next := make(chan int)
	for w := 0; w < runtime.NumCPU(); w++ {
		wg.Add(1)
		go func() {
			defer wg.Done()
			for i := range next {
				results[i] = runHistory(jobs[i].seed, jobs[i].prof, jobs[i].script)
			}
		}()
	}
	for i := range jobs {
		next <- i
	}
	close(next)
	wg.Wait()
	for _, r := range results {
		id := c.AddCase(r.gallina, r.input, r.key)
		for k, v := range r.counts {
			for ; v > 0; v-- {
				c.Count(k)
			}
		}
		if r.markFail != "" {
			c.Fail(id, "in-memory state (marks, nomination, failed reconciles): "+r.markFail, "", r.input)
		}
		if r.weakFail {
			c.Fail(id, "every key was delivered after its last change and the premises hold, but the cache differs from a fresh real Cluster: "+strings.Join(r.input.WeakDiff, "; "), "", r.input)
		}
		if r.goFail {
			c.Fail(id, "cache differs from a fresh real Cluster fed the final API state although the premises hold: "+strings.Join(r.input.GoDiff, "; "), "", r.input)
		}
	}
	var uncovered []string
	for _, b := range allBranches {
		if c.Meta.Distribution[b] == 0 {
			uncovered = append(uncovered, b)
		}
	}
	sort.Strings(uncovered)
	c.Meta.Extra = map[string]interface{}{"uncovered_branches": uncovered,
		"assumptions": []string{
			"hist_ok: provider ids stay unique; an id the cache associates with one Node (NodeClaim) name is not handed to another; a Node the cache tracks is not rewritten untrackable; a launched NodeClaim keeps its id (profiles assume:* break these on purpose: model correspondence only)",
			"pods_settled: every bound non-terminal pod sits on a Node the cache can track (else the pod reconciler requeues forever: not quiescent); shown necessary by quiescent_equals_fresh_without_pods_settled_refuted",
			"the nodepool label of a NodeClaim does not change (NodePoolState keeps the claim in its old pool's sets; NodePoolState is compared against the fresh real Cluster only)",
			"DaemonSet informer cache (GetDaemonSetPod), nomination, consolidation timestamps, pod scheduling-time maps and NodePoolState internals are outside the model"}}
	c.Meta.Rule = fmt.Sprintf("%d generated histories (6-28 API/delivery ops over 2-4 nodes, 1-3 claims, 2-6 pods, then every changed key once, then a closing round over all keys in random order with duplicates) + %d premise-breaking ones + corpus; the oracle applies where the premises of quiescent_equals_fresh hold (evaluated independently in Go on the real cache and in Coq on the model, and compared); non-trivial = premises hold and at least two of the identity-changing / cross-object branches taken; distinct by op list", nGen, nAssume)
	c.Meta.Corr = []string{
		"state.Cluster.{UpdateNode,DeleteNode} via informer.NodeController.Reconcile = C11.Model.deliver_node",
		"state.Cluster.{UpdateNodeClaim,DeleteNodeClaim} via informer.NodeClaimController.Reconcile = C11.Model.deliver_claim",
		"state.Cluster.{UpdatePod,DeletePod} via informer.PodController.Reconcile = C11.Model.deliver_pod",
		"state.Cluster.{MarkForDeletion,UnmarkForDeletion} = C11.Model.set_mark",
		"StateNode.{PodRequests,DaemonSetRequests,DisruptionCost,MarkedForDeletion,Labels,Capacity} = C11.Check.acc_of / C11.Model.vnode_of"}
	shard := 60
	if c.Thorough() {
		shard = 140
	}
	c.Finish("From KV Require Import C11.Model C11.Check.", "case", "check_all", shard)
}

// syncedDiff: Cluster.Synced (first call) must be true exactly when no cached NodeClaim is unlaunched and the cache
// knows every managed NodeClaim and every Node of the API.
func syncedDiff(w *world) []string {
	d := w.cluster.VerifC11Dump()
	want := true
	for _, pid := range d.ClaimNameToPID {
		want = want && pid != ""
	}
	for n := range w.claims {
		_, ok := d.ClaimNameToPID[n]
		want = want && ok
	}
	for n := range w.nodes {
		_, ok := d.NodeNameToPID[n]
		want = want && ok
	}
	got := w.cluster.Synced(w.ctx)
	if again := w.cluster.Synced(w.ctx); again != got { // second call: the latched path, same verdict on an unchanged cache
		return []string{fmt.Sprintf("accessors: Synced() changed from %v to %v on an unchanged cache", got, again)}
	}
	if got != want || w.cluster.HasSynced() != got {
		return []string{fmt.Sprintf("accessors: Synced()=%v HasSynced()=%v, expected %v from the name maps %v %v", got, w.cluster.HasSynced(), want, d.ClaimNameToPID, d.NodeNameToPID)}
	}
	return nil
}
