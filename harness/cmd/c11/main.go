// Package c11 drives the real state.Cluster through the real informer controllers on generated
// API histories and compares the cache with a fresh real Cluster and with the Coq model.
package main

import (
	"fmt"
	"os"
	"strings"

	"github.com/go-logr/logr"
	"sigs.k8s.io/controller-runtime/pkg/log"

	"verifharness/kit"
)

func markedIDs(w *world) []string {
	d := w.cluster.VerifC11Dump()
	var out []string
	for _, id := range kit.SortedKeys(d.Nodes) {
		if d.Nodes[id].MarkedField {
			out = append(out, id)
		}
	}
	return out
}

func opString(o Op) string {
	switch o.Kind {
	case "SetNode":
		return fmt.Sprintf("SetNode%+v", *o.Node)
	case "SetClaim":
		return fmt.Sprintf("SetClaim%+v", *o.Claim)
	case "SetPod":
		p := o.Pod
		return fmt.Sprintf("SetPod{%s@%s term=%v ds=%v cost=%d ports=%v vols=%v aa=%v}", p.Name, p.Node, p.Terminal, p.DS, p.Cost, p.PortsRes, p.VolsRes, p.AntiAff)
	case "Mark", "Unmark":
		return o.Kind + fmt.Sprint(o.IDs)
	}
	return o.Kind + " " + o.Name
}

func explore(c *kit.Ctx) {
	n := 400
	stats := map[string]int{}
	shown := map[string]int{}
	for i := 0; i < n; i++ {
		r := c.Rand.Fork()
		g := &gen{r: r, w: newWorld(), dirty: map[string]bool{}, ever: map[string]bool{}, bound: map[string]bool{}, count: c.Count,
			nNodes: r.Range(2, 4), nClaims: r.Range(1, 3), nPods: r.Range(2, 6)}
		switch os.Getenv("C11_PROFILE") {
		case "pid":
			g.prof.PidReuse = true
		case "untracked":
			g.prof.Untracked = true
		case "nodeloss":
			g.prof.NodeLoss = true
		case "relabel":
			g.prof.Relabel = true
		case "samenode":
			g.prof.SameNodeRe = true
		}
		panicked, msg := kit.Recover(func() {
			g.history(r.Range(8, 30))
			g.weakClose()
			fc, fd := g.w.fresh(markedIDs(g.w))
			dw := diffDumps(g.w.cluster.VerifC11Dump(), fd)
			dw = append(dw, poolStateDiff(g.w.cluster, fc, []string{"pa", "pb"})...)
			for _, cat := range categories(dw) {
				stats["weak:"+cat]++
			}
			g.fullRound()
			fc, fd = g.w.fresh(markedIDs(g.w))
			df := diffDumps(g.w.cluster.VerifC11Dump(), fd)
			df = append(df, poolStateDiff(g.w.cluster, fc, []string{"pa", "pb"})...)
			if a, b := antiAffinityView(g.w.cluster), antiAffinityView(fc); strings.Join(a, ",") != strings.Join(b, ",") {
				df = append(df, fmt.Sprintf("anti-affinity: cached=%v fresh=%v", a, b))
			}
			for _, cat := range categories(df) {
				stats["full:"+cat]++
				if shown[cat] < 2 {
					shown[cat]++
					fmt.Println("==== history", i, "diverges after the full round:", df)
					for _, o := range g.ops {
						fmt.Println("   ", opString(o))
					}
				}
			}
		})
		if panicked {
			stats["panic"]++
			if shown["panic"] < 2 {
				shown["panic"]++
				fmt.Println("==== history", i, "PANIC", msg)
				for _, o := range g.ops {
					fmt.Println("   ", opString(o))
				}
			}
		}
	}
	fmt.Println(stats)
}

func main() {
	c := kit.Parse("C11", os.Args[1:])
	log.SetLogger(logr.Discard())
	if os.Getenv("C11_EXPLORE") != "" {
		explore(c)
		return
	}
}
