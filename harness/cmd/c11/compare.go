package main

import (
	"fmt"
	"reflect"
	"sort"

	corev1 "k8s.io/api/core/v1"

	"sigs.k8s.io/karpenter/pkg/controllers/state"
)

func rlTriple(r corev1.ResourceList) [4]int64 {
	nodes, pods := r["nodes"], r[corev1.ResourcePods]
	return [4]int64{milli(r[corev1.ResourceCPU]), mi(r[corev1.ResourceMemory]), nodes.Value(), pods.Value()}
}

func rlMapEq(a, b map[string]corev1.ResourceList) bool {
	if len(a) != len(b) {
		return false
	}
	for k, v := range a {
		w, ok := b[k]
		if !ok || rlTriple(v) != rlTriple(w) {
			return false
		}
	}
	return true
}

// effectiveBindings keeps the bindings whose node is tracked (the only ones an accessor can show).
func effectiveBindings(d state.VerifC11Dump) map[string]string {
	out := map[string]string{}
	for p, n := range d.Bindings {
		if id, ok := d.NodeNameToPID[n]; ok {
			if sn, ok := d.Nodes[id]; ok && sn.NodeName != "" {
				out[p] = n
			}
		}
	}
	return out
}

// diffDumps lists the differences between the cache and a fresh recomputation, by category.
func diffDumps(a, f state.VerifC11Dump) []string {
	var out []string
	add := func(cat, format string, args ...interface{}) {
		out = append(out, cat+": "+fmt.Sprintf(format, args...))
	}
	ids := map[string]bool{}
	for id := range a.Nodes {
		ids[id] = true
	}
	for id := range f.Nodes {
		ids[id] = true
	}
	for id := range ids {
		x, okx := a.Nodes[id]
		y, oky := f.Nodes[id]
		if okx != oky {
			add("node-set", "provider id %s cached=%v fresh=%v", id, okx, oky)
			continue
		}
		if x.NodeName != y.NodeName || x.ClaimName != y.ClaimName {
			add("node-identity", "%s node %q/%q claim %q/%q", id, x.NodeName, y.NodeName, x.ClaimName, y.ClaimName)
		}
		if !rlMapEq(x.PodRequests, y.PodRequests) || !rlMapEq(x.PodLimits, y.PodLimits) || rlTriple(x.SumPodRequests) != rlTriple(y.SumPodRequests) {
			add("pod-requests", "%s cached=%v fresh=%v", id, rlTriple(x.SumPodRequests), rlTriple(y.SumPodRequests))
		}
		if !rlMapEq(x.DaemonSetRequests, y.DaemonSetRequests) || !rlMapEq(x.DaemonSetLimits, y.DaemonSetLimits) || rlTriple(x.SumDaemonRequests) != rlTriple(y.SumDaemonRequests) {
			add("daemonset-requests", "%s cached=%v fresh=%v", id, rlTriple(x.SumDaemonRequests), rlTriple(y.SumDaemonRequests))
		}
		if !reflect.DeepEqual(x.DisruptionCosts, y.DisruptionCosts) || x.DisruptionCost != y.DisruptionCost {
			add("disruption-cost", "%s cached=%v fresh=%v", id, x.DisruptionCost, y.DisruptionCost)
		}
		if !hostPortsEq(x.HostPorts, y.HostPorts) {
			add("host-ports", "%s cached=%v fresh=%v", id, x.HostPorts, y.HostPorts)
		}
		if !strsEq(x.VolumeUnion, y.VolumeUnion) || !volsEq(x.PodVolumes, y.PodVolumes) {
			add("volume-usage", "%s cached=%v/%v fresh=%v/%v", id, x.VolumeUnion, x.PodVolumes, y.VolumeUnion, y.PodVolumes)
		}
		if rlTriple(x.SumPodLimits) != rlTriple(y.SumPodLimits) || rlTriple(x.SumDaemonLimits) != rlTriple(y.SumDaemonLimits) {
			add("pod-limits", "%s cached=%v/%v fresh=%v/%v", id, rlTriple(x.SumPodLimits), rlTriple(x.SumDaemonLimits), rlTriple(y.SumPodLimits), rlTriple(y.SumDaemonLimits))
		}
		if rlTriple(x.Allocatable) != rlTriple(y.Allocatable) || rlTriple(x.Available) != rlTriple(y.Available) || rlTriple(x.Capacity) != rlTriple(y.Capacity) {
			add("allocatable", "%s cached=%v/%v fresh=%v/%v", id, rlTriple(x.Allocatable), rlTriple(x.Available), rlTriple(y.Allocatable), rlTriple(y.Available))
		}
		if x.Name != y.Name || x.HostName != y.HostName || !strsEq(x.Taints, y.Taints) || x.PoolLabel != y.PoolLabel || x.DoNotDisrupt != y.DoNotDisrupt ||
			x.Initialized != y.Initialized || x.Registered != y.Registered {
			add("node-attributes", "%s cached=%s/%s/%v/%s fresh=%s/%s/%v/%s", id, x.Name, x.HostName, x.Taints, x.PoolLabel, y.Name, y.HostName, y.Taints, y.PoolLabel)
		}
		if !reflect.DeepEqual(x.VolumeLimits, y.VolumeLimits) || !reflect.DeepEqual(x.ExceedsLimits, y.ExceedsLimits) {
			add("volume-limits", "%s cached=%v/%v fresh=%v/%v", id, x.VolumeLimits, x.ExceedsLimits, y.VolumeLimits, y.ExceedsLimits)
		}
		if x.Disruptable != y.Disruptable {
			add("node-attributes", "%s ValidateNodeDisruptable cached=%q fresh=%q", id, x.Disruptable, y.Disruptable)
		}
		if !reflect.DeepEqual(x.PortConflicts, y.PortConflicts) {
			add("host-port-conflicts", "%s cached=%v fresh=%v", id, x.PortConflicts, y.PortConflicts)
		}
		if x.MarkedForDeletion != y.MarkedForDeletion || x.MarkedField != y.MarkedField {
			add("deletion-mark", "%s cached=%v fresh=%v", id, x.MarkedForDeletion, y.MarkedForDeletion)
		}
	}
	if !reflect.DeepEqual(a.NodeNameToPID, f.NodeNameToPID) {
		add("node-name-map", "cached=%v fresh=%v", a.NodeNameToPID, f.NodeNameToPID)
	}
	if !reflect.DeepEqual(a.ClaimNameToPID, f.ClaimNameToPID) {
		add("claim-name-map", "cached=%v fresh=%v", a.ClaimNameToPID, f.ClaimNameToPID)
	}
	if !rlMapEq(a.NodePoolResources, f.NodePoolResources) {
		add("nodepool-resources", "cached=%v fresh=%v", poolView(a.NodePoolResources), poolView(f.NodePoolResources))
	}
	if !reflect.DeepEqual(effectiveBindings(a), effectiveBindings(f)) {
		add("bindings", "cached=%v fresh=%v", effectiveBindings(a), effectiveBindings(f))
	}
	sort.Strings(out)
	return out
}

func poolView(m map[string]corev1.ResourceList) map[string][4]int64 {
	out := map[string][4]int64{}
	for k, v := range m {
		out[k] = rlTriple(v)
	}
	return out
}

func strsEq(a, b []string) bool {
	if len(a) != len(b) {
		return false
	}
	for i := range a {
		if a[i] != b[i] {
			return false
		}
	}
	return true
}

func hostPortsEq(a, b map[string][]string) bool {
	if len(a) != len(b) {
		return false
	}
	for k, v := range a {
		w, ok := b[k]
		if !ok || !strsEq(v, w) {
			return false
		}
	}
	return true
}

func volsEq(a, b map[string][]string) bool { return hostPortsEq(a, b) }

func categories(diffs []string) []string {
	seen := map[string]bool{}
	var out []string
	for _, d := range diffs {
		for i := 0; i < len(d); i++ {
			if d[i] == ':' {
				if !seen[d[:i]] {
					seen[d[:i]] = true
					out = append(out, d[:i])
				}
				break
			}
		}
	}
	return out
}

// poolStateDiff compares NodePoolState (Active / Deleting sets per pool, claim -> pool map) of two clusters.
func poolStateDiff(a, f *state.Cluster, pools []string) []string {
	var out []string
	as, am := a.NodePoolState.VerifC11Dump()
	fs, fm := f.NodePoolState.VerifC11Dump()
	for _, p := range pools {
		if !strsEq(as[p][0], fs[p][0]) || !strsEq(as[p][1], fs[p][1]) {
			out = append(out, fmt.Sprintf("nodepool-counts: pool %s cached active=%v deleting=%v fresh active=%v deleting=%v", p, as[p][0], as[p][1], fs[p][0], fs[p][1]))
		}
		a1, a2, a3 := a.NodePoolState.GetNodeCount(p)
		if a1 != len(as[p][0]) || a2 != len(as[p][1]) || a3 != 0 {
			out = append(out, fmt.Sprintf("nodepool-counts: GetNodeCount(%s)=%d/%d/%d disagrees with the sets", p, a1, a2, a3))
		}
	}
	if !reflect.DeepEqual(am, fm) {
		out = append(out, fmt.Sprintf("nodepool-counts: claim map cached=%v fresh=%v", am, fm))
	}
	return out
}

// accessorDiff checks the exported accessors of one cluster against its own dump (NodePoolResourcesFor, the
// Nodes iterator, DeepCopyNodes).
func accessorDiff(c *state.Cluster) []string {
	var out []string
	d := c.VerifC11Dump()
	perPool, iter, cp, nom := c.VerifC11Accessors([]string{"pa", "pb", ""})
	if nom["verif-unknown-id"] {
		out = append(out, "accessors: IsNodeNominated of an unknown provider id is true")
	}
	ids := make([]string, 0, len(d.Nodes))
	for id := range d.Nodes {
		ids = append(ids, id)
	}
	sort.Strings(ids)
	if !strsEq(ids, iter) || !strsEq(ids, cp) {
		out = append(out, fmt.Sprintf("accessors: Nodes()=%v DeepCopyNodes()=%v cached ids=%v", iter, cp, ids))
	}
	names := []string{"c0", "c1", "c2", "cf", "nope"}
	ex, un, act, del := c.VerifC11Names(names)
	marked := 0
	for _, n := range d.Nodes {
		if n.MarkedForDeletion {
			marked++
		}
	}
	if act != len(d.Nodes)-marked || del != marked {
		out = append(out, fmt.Sprintf("accessors: StateNodes.Active/Deleting=%d/%d, %d of %d nodes are marked for deletion", act, del, marked, len(d.Nodes)))
	}
	for _, n := range names {
		pid, ok := d.ClaimNameToPID[n]
		if ex[n] != ok || un[n] != (ok && pid == "") {
			out = append(out, fmt.Sprintf("accessors: NodeClaimExists(%s)=%v UnlaunchedNodeClaimExists=%v, map has %q/%v", n, ex[n], un[n], pid, ok))
		}
	}
	// volume limits come from the CSINode fixtures; ExceedsLimits follows from the union and the limits
	want := map[string]map[string]int{"n0": {"drv1": 2}, "n1": {"drv1": 1, "drv2": 0}}
	probes := [][]string{{"drv1|default/probe-1"}, {"drv1|default/probe-1", "drv1|default/probe-2"}, {"drv2|default/probe-1"}, {}}
	for id, n := range d.Nodes {
		w := want[n.NodeName]
		if w == nil {
			w = map[string]int{}
		}
		if !reflect.DeepEqual(n.VolumeLimits, w) {
			out = append(out, fmt.Sprintf("volume-limits: %s (%s) limits=%v, the CSINode says %v", id, n.NodeName, n.VolumeLimits, w))
		}
		for i, pr := range probes {
			per := map[string]map[string]bool{}
			for _, v := range append(append([]string{}, n.VolumeUnion...), pr...) {
				k := v[:4]
				if per[k] == nil {
					per[k] = map[string]bool{}
				}
				per[k][v] = true
			}
			exceeds := false
			for k, vs := range per {
				if l, ok := w[k]; ok && len(vs) > l {
					exceeds = true
				}
			}
			if i < len(n.ExceedsLimits) && n.ExceedsLimits[i] != exceeds {
				out = append(out, fmt.Sprintf("volume-limits: %s ExceedsLimits(%v)=%v with union %v and limits %v", id, pr, n.ExceedsLimits[i], n.VolumeUnion, w))
			}
		}
	}
	for p, r := range perPool {
		if rlTriple(r) != rlTriple(d.NodePoolResources[p]) {
			out = append(out, fmt.Sprintf("accessors: NodePoolResourcesFor(%s)=%v map=%v", p, rlTriple(r), rlTriple(d.NodePoolResources[p])))
		}
	}
	return out
}
