package main

import (
	"context"
	"fmt"
	"math"
	"sort"
	"strings"
	"time"

	"github.com/awslabs/operatorpkg/object"
	corev1 "k8s.io/api/core/v1"
	storagev1 "k8s.io/api/storage/v1"
	apierrors "k8s.io/apimachinery/pkg/api/errors"
	"k8s.io/apimachinery/pkg/api/resource"
	metav1 "k8s.io/apimachinery/pkg/apis/meta/v1"
	"k8s.io/apimachinery/pkg/types"
	clock "k8s.io/utils/clock/testing"
	"sigs.k8s.io/controller-runtime/pkg/client"
	"sigs.k8s.io/controller-runtime/pkg/client/interceptor"
	"sigs.k8s.io/controller-runtime/pkg/reconcile"

	v1 "sigs.k8s.io/karpenter/pkg/apis/v1"
	"sigs.k8s.io/karpenter/pkg/cloudprovider/fake"
	"sigs.k8s.io/karpenter/pkg/controllers/state"
	"sigs.k8s.io/karpenter/pkg/controllers/state/informer"
	"sigs.k8s.io/karpenter/pkg/scheduling"
	"sigs.k8s.io/karpenter/pkg/state/cost"
	"sigs.k8s.io/karpenter/pkg/test"
	disruptionutils "sigs.k8s.io/karpenter/pkg/utils/disruption"
	"sigs.k8s.io/karpenter/pkg/utils/resources"

	"verifharness/kit"
)

const ns = "default"
const holdFinalizer = "verif.c11/hold"

// ---- the API objects as the model sees them ----

type NodeV struct {
	Name, PID, Pool  string
	IType, Init, Reg bool
	CPU, Mem         int64 // milli-cpu, Mi; 0 = key absent
	Deleting         bool
	InitFalse        bool   // initialized label present with value "false" (UpdateNode reads != "", Initialized() == "true")
	RegFalse         bool   // registered label "false"
	ACPU, AMem       int64  // status.allocatable (0: same as capacity)
	Hostname         string // kubernetes.io/hostname label
	Taints           []string
	DoNotDisrupt     bool
}

type ClaimV struct {
	Name, PID, Pool string
	CPU, Mem        int64
	Deleting        bool
	Term            bool // condition InstanceTerminating=True
	Unmanaged       bool // nodeClassRef of a kind the cloud provider does not support: the informer must ignore it
	Taints, Startup []string
	AllocLess       bool // status.allocatable below status.capacity
}

type PodV struct {
	Name, Node string
	Terminal   bool
	DS         bool
	CPU, Mem   int64 // requests
	LCPU, LMem int64 // limits
	DelCost    *int64
	Prio       *int32
	Ports      []string // "ip:port:proto" specs, port 0 allowed (skipped by the code)
	Vols       []string // pvc names or "empty"
	AntiAff    bool
	Failed     bool   // terminal pods: phase Failed instead of Succeeded
	Owner      string // "" | "ReplicaSet" | "Node" (DS = DaemonSet owner)
	BadCost    bool   // unparsable pod-deletion-cost annotation
	Init       bool   // an init container with larger requests
	Overhead   bool
	Ephemeral  bool // a generic ephemeral volume (PVC <pod>-eph)
	PrefAnti   bool // only a preferred anti-affinity term (not tracked by the cache)
	// derived by the real helper functions when the pod is written to the API
	Cost                           int64    // EvictionCost * 2^27
	PortsRes                       []string // scheduling.GetHostPorts
	VolsRes                        []string // scheduling.GetVolumes
	ReqCPU, ReqMem, LimCPU, LimMem int64
}

type Op struct {
	Kind   string // SetNode DelNode SetClaim DelClaim SetPod DelPod DeliverNode DeliverClaim DeliverPod Mark Unmark Obs
	Node   *NodeV
	Claim  *ClaimV
	Pod    *PodV
	Name   string
	IDs    []string
	Obs    *state.VerifC11Dump
	NSets  map[string][3][]string // NodePoolState at the observation
	NMap   map[string]string
	Belief bool
	Tag    string // for Obs: which point of the history
}

// ---- the real system ----

type world struct {
	ctx      context.Context
	c        client.Client
	clk      *clock.FakeClock
	cp       *fake.CloudProvider
	cluster  *state.Cluster
	nodeCtl  *informer.NodeController
	claimCtl *informer.NodeClaimController
	podCtl   *informer.PodController
	nodes    map[string]*NodeV
	claims   map[string]*ClaimV
	pods     map[string]*PodV
	fault    string
	pvLate   bool
}

func newWorld() *world {
	w := &world{ctx: kit.Context(), clk: clock.NewFakeClock(time.Unix(1_700_000_000, 0)), cp: fake.NewCloudProvider(),
		nodes: map[string]*NodeV{}, claims: map[string]*ClaimV{}, pods: map[string]*PodV{}}
	// fault plan: one kind of read fails while w.fault names it
	w.c = kit.NewClient(interceptor.Funcs{
		List: func(ctx context.Context, c client.WithWatch, list client.ObjectList, opts ...client.ListOption) error {
			if _, ok := list.(*corev1.PodList); ok && w.fault == "list-pods" {
				return apierrors.NewInternalError(fmt.Errorf("injected"))
			}
			return c.List(ctx, list, opts...)
		},
		Get: func(ctx context.Context, c client.WithWatch, key client.ObjectKey, obj client.Object, opts ...client.GetOption) error {
			switch obj.(type) {
			case *corev1.PersistentVolume:
				if w.fault == "get-pv" {
					return apierrors.NewInternalError(fmt.Errorf("injected"))
				}
			case *corev1.Node:
				if w.fault == "get-node" {
					return apierrors.NewInternalError(fmt.Errorf("injected"))
				}
			case *corev1.PersistentVolumeClaim:
				if w.fault == "get-pvc" {
					return apierrors.NewInternalError(fmt.Errorf("injected"))
				}
			case *storagev1.StorageClass:
				if w.fault == "get-sc" {
					return apierrors.NewInternalError(fmt.Errorf("injected"))
				}
			case *corev1.Pod:
				if w.fault == "get-pod" {
					return apierrors.NewInternalError(fmt.Errorf("injected"))
				}
			}
			return c.Get(ctx, key, obj, opts...)
		},
	})
	// storage fixtures: two classes / drivers, three claims, one bound static volume
	sc1 := &storagev1.StorageClass{ObjectMeta: metav1.ObjectMeta{Name: "sc1"}, Provisioner: "drv1"}
	sc2 := &storagev1.StorageClass{ObjectMeta: metav1.ObjectMeta{Name: "sc2"}, Provisioner: "drv2"}
	pv := &corev1.PersistentVolume{ObjectMeta: metav1.ObjectMeta{Name: "pv-d"}, Spec: corev1.PersistentVolumeSpec{
		PersistentVolumeSource: corev1.PersistentVolumeSource{CSI: &corev1.CSIPersistentVolumeSource{Driver: "drv3", VolumeHandle: "h"}}}}
	mk := func(name, sc, vol string) *corev1.PersistentVolumeClaim {
		p := &corev1.PersistentVolumeClaim{ObjectMeta: metav1.ObjectMeta{Name: name, Namespace: ns}}
		if sc != "" {
			p.Spec.StorageClassName = &sc
		}
		p.Spec.VolumeName = vol
		return p
	}
	// more ways a volume resolves: in-tree provisioner name, missing class, bound to a non-CSI / in-tree EBS volume,
	// generic ephemeral volumes (<pod>-eph), more claims on drv1 (several pods sharing one driver)
	scIn := &storagev1.StorageClass{ObjectMeta: metav1.ObjectMeta{Name: "sc-intree"}, Provisioner: "kubernetes.io/aws-ebs"}
	pvHost := &corev1.PersistentVolume{ObjectMeta: metav1.ObjectMeta{Name: "pv-host"}, Spec: corev1.PersistentVolumeSpec{
		PersistentVolumeSource: corev1.PersistentVolumeSource{HostPath: &corev1.HostPathVolumeSource{Path: "/x"}}}}
	pvEBS := &corev1.PersistentVolume{ObjectMeta: metav1.ObjectMeta{Name: "pv-ebs"}, Spec: corev1.PersistentVolumeSpec{
		PersistentVolumeSource: corev1.PersistentVolumeSource{AWSElasticBlockStore: &corev1.AWSElasticBlockStoreVolumeSource{VolumeID: "v"}}}}
	extra := []client.Object{scIn, pvHost, pvEBS, mk("pvc-f", "sc1", ""), mk("pvc-g", "sc1", ""), mk("pvc-h", "sc-intree", ""),
		mk("pvc-i", "sc-missing", ""), mk("pvc-j", "", "pv-host"), mk("pvc-k", "", "pv-ebs"),
		mk("pvc-z", "", "pv-late")} // pv-late does not exist until a CreatePV op
	for i := 0; i < 6; i++ {
		extra = append(extra, mk(fmt.Sprintf("p%d-eph", i), "sc2", ""))
	}
	// CSINode volume limits, read by UpdateNode (populateVolumeLimits)
	two, one := int32(2), int32(1)
	extra = append(extra,
		&storagev1.CSINode{ObjectMeta: metav1.ObjectMeta{Name: "n0"}, Spec: storagev1.CSINodeSpec{Drivers: []storagev1.CSINodeDriver{
			{Name: "drv1", NodeID: "n0", Allocatable: &storagev1.VolumeNodeResources{Count: &two}}, {Name: "drv9", NodeID: "n0"}}}},
		&storagev1.CSINode{ObjectMeta: metav1.ObjectMeta{Name: "n1"}, Spec: storagev1.CSINodeSpec{Drivers: []storagev1.CSINodeDriver{
			{Name: "drv1", NodeID: "n1", Allocatable: &storagev1.VolumeNodeResources{Count: &one}}, {Name: "drv2", NodeID: "n1", Allocatable: &storagev1.VolumeNodeResources{}}}}})
	for _, o := range append([]client.Object{sc1, sc2, pv, mk("pvc-a", "sc1", ""), mk("pvc-b", "sc1", ""), mk("pvc-c", "sc2", ""), mk("pvc-d", "", "pv-d"), mk("pvc-e", "", "")}, extra...) {
		if err := w.c.Create(w.ctx, o); err != nil {
			panic(err)
		}
	}
	w.attach(state.NewCluster(w.clk, w.c, w.cp))
	return w
}

func (w *world) attach(cl *state.Cluster) {
	w.cluster = cl
	w.nodeCtl = informer.NewNodeController(w.c, cl)
	w.claimCtl = informer.NewNodeClaimController(w.c, w.cp, cl, cost.NewClusterCost(w.ctx, w.cp, w.c))
	w.podCtl = informer.NewPodController(w.c, cl)
}

func rl(cpu, mem int64) corev1.ResourceList {
	out := corev1.ResourceList{}
	if cpu != 0 {
		out[corev1.ResourceCPU] = *resource.NewMilliQuantity(cpu, resource.DecimalSI)
	}
	if mem != 0 {
		out[corev1.ResourceMemory] = *resource.NewQuantity(mem<<20, resource.BinarySI)
	}
	return out
}

func (w *world) buildNode(v *NodeV) *corev1.Node {
	n := &corev1.Node{ObjectMeta: metav1.ObjectMeta{Name: v.Name, Labels: map[string]string{}, Finalizers: []string{holdFinalizer}}}
	if v.Pool != "" {
		n.Labels[v1.NodePoolLabelKey] = v.Pool
	}
	if v.IType {
		n.Labels[corev1.LabelInstanceTypeStable] = "it-1"
	}
	if v.Init {
		n.Labels[v1.NodeInitializedLabelKey] = "true"
	} else if v.InitFalse {
		n.Labels[v1.NodeInitializedLabelKey] = "false"
	}
	if v.Reg {
		n.Labels[v1.NodeRegisteredLabelKey] = "true"
	} else if v.RegFalse {
		n.Labels[v1.NodeRegisteredLabelKey] = "false"
	}
	if v.Hostname != "" {
		n.Labels[corev1.LabelHostname] = v.Hostname
	}
	if v.DoNotDisrupt {
		n.Annotations = map[string]string{v1.DoNotDisruptAnnotationKey: "true"}
	}
	n.Spec.ProviderID = v.PID
	n.Spec.Taints = taints(v.Taints)
	n.Status.Capacity = rl(v.CPU, v.Mem)
	n.Status.Allocatable = rl(v.CPU, v.Mem)
	if v.ACPU != 0 || v.AMem != 0 {
		n.Status.Allocatable = rl(v.ACPU, v.AMem)
	}
	return n
}

func taints(ts []string) []corev1.Taint {
	var out []corev1.Taint
	for _, t := range ts {
		f := strings.Split(t, ":")
		out = append(out, corev1.Taint{Key: f[0], Effect: corev1.TaintEffect(f[1])})
	}
	return out
}

func (w *world) buildClaim(v *ClaimV) *v1.NodeClaim {
	nodeClass := test.NodeClass()
	nc := &v1.NodeClaim{ObjectMeta: metav1.ObjectMeta{Name: v.Name, Labels: map[string]string{}, Finalizers: []string{holdFinalizer}}}
	if v.Pool != "" {
		nc.Labels[v1.NodePoolLabelKey] = v.Pool
	}
	nc.Spec.NodeClassRef = &v1.NodeClassReference{Group: object.GVK(nodeClass).Group, Kind: object.GVK(nodeClass).Kind, Name: "default"}
	if v.Unmanaged {
		nc.Spec.NodeClassRef = &v1.NodeClassReference{Group: "other.example.com", Kind: "OtherNodeClass", Name: "default"}
	}
	nc.Spec.Taints, nc.Spec.StartupTaints = taints(v.Taints), taints(v.Startup)
	if v.Term {
		nc.StatusConditions().SetTrue(v1.ConditionTypeInstanceTerminating)
	}
	nc.Status.ProviderID = v.PID
	nc.Status.Capacity = rl(v.CPU, v.Mem)
	nc.Status.Allocatable = rl(v.CPU, v.Mem)
	if v.AllocLess && v.CPU > 50 {
		nc.Status.Allocatable = rl(v.CPU-50, v.Mem)
	}
	return nc
}

func parsePort(s string) corev1.ContainerPort {
	f := strings.Split(s, ":")
	var port int32
	fmt.Sscanf(f[1], "%d", &port)
	return corev1.ContainerPort{HostIP: f[0], HostPort: port, ContainerPort: 8080, Protocol: corev1.Protocol(f[2])}
}

func (w *world) buildPod(v *PodV) *corev1.Pod {
	p := &corev1.Pod{ObjectMeta: metav1.ObjectMeta{Name: v.Name, Namespace: ns, Annotations: map[string]string{}}}
	if v.DS {
		p.OwnerReferences = []metav1.OwnerReference{{APIVersion: "apps/v1", Kind: "DaemonSet", Name: "ds", UID: "ds-uid"}}
	} else if v.Owner == "ReplicaSet" {
		p.OwnerReferences = []metav1.OwnerReference{{APIVersion: "apps/v1", Kind: "ReplicaSet", Name: "rs", UID: "rs-uid"}}
	} else if v.Owner == "Node" {
		p.OwnerReferences = []metav1.OwnerReference{{APIVersion: "v1", Kind: "Node", Name: "n0", UID: "n-uid"}}
	}
	if v.DelCost != nil {
		p.Annotations[corev1.PodDeletionCost] = fmt.Sprint(*v.DelCost)
	}
	if v.BadCost {
		p.Annotations[corev1.PodDeletionCost] = "not-a-number"
	}
	p.Spec.Priority = v.Prio
	p.Spec.NodeName = v.Node
	ctr := corev1.Container{Name: "c", Image: "img", Resources: corev1.ResourceRequirements{Requests: rl(v.CPU, v.Mem), Limits: rl(v.LCPU, v.LMem)}}
	for _, ps := range v.Ports {
		ctr.Ports = append(ctr.Ports, parsePort(ps))
	}
	p.Spec.Containers = []corev1.Container{ctr}
	if v.Init {
		p.Spec.InitContainers = []corev1.Container{{Name: "i", Image: "img", Resources: corev1.ResourceRequirements{Requests: rl(v.CPU+500, v.Mem), Limits: rl(v.LCPU+500, v.LMem)}}}
	}
	if v.Overhead {
		p.Spec.Overhead = rl(10, 16)
	}
	if v.Ephemeral {
		p.Spec.Volumes = append(p.Spec.Volumes, corev1.Volume{Name: "eph", VolumeSource: corev1.VolumeSource{Ephemeral: &corev1.EphemeralVolumeSource{}}})
	}
	for i, vol := range v.Vols {
		pv := corev1.Volume{Name: fmt.Sprintf("v%d", i)}
		if vol == "empty" {
			pv.VolumeSource = corev1.VolumeSource{EmptyDir: &corev1.EmptyDirVolumeSource{}}
		} else {
			pv.VolumeSource = corev1.VolumeSource{PersistentVolumeClaim: &corev1.PersistentVolumeClaimVolumeSource{ClaimName: vol}}
		}
		p.Spec.Volumes = append(p.Spec.Volumes, pv)
	}
	if v.PrefAnti {
		p.Spec.Affinity = &corev1.Affinity{PodAntiAffinity: &corev1.PodAntiAffinity{PreferredDuringSchedulingIgnoredDuringExecution: []corev1.WeightedPodAffinityTerm{{Weight: 1,
			PodAffinityTerm: corev1.PodAffinityTerm{TopologyKey: corev1.LabelHostname, LabelSelector: &metav1.LabelSelector{MatchLabels: map[string]string{"app": "x"}}}}}}}
	}
	if v.AntiAff {
		p.Spec.Affinity = &corev1.Affinity{PodAntiAffinity: &corev1.PodAntiAffinity{RequiredDuringSchedulingIgnoredDuringExecution: []corev1.PodAffinityTerm{{
			TopologyKey: corev1.LabelHostname, LabelSelector: &metav1.LabelSelector{MatchLabels: map[string]string{"app": "x"}}}}}}
	}
	if v.Terminal && v.Failed {
		p.Status.Phase = corev1.PodFailed
	} else if v.Terminal {
		p.Status.Phase = corev1.PodSucceeded
	} else {
		p.Status.Phase = corev1.PodRunning
	}
	return p
}

func must(err error) {
	if err != nil {
		panic(err)
	}
}

// hardDelete removes the object whatever its finalizers.
func (w *world) hardDelete(obj client.Object) {
	if err := w.c.Get(w.ctx, client.ObjectKeyFromObject(obj), obj); err != nil {
		if apierrors.IsNotFound(err) {
			return
		}
		panic(err)
	}
	if len(obj.GetFinalizers()) > 0 {
		obj.SetFinalizers(nil)
		must(w.c.Update(w.ctx, obj))
	}
	if err := w.c.Delete(w.ctx, obj); err != nil && !apierrors.IsNotFound(err) {
		panic(err)
	}
}

func (w *world) setNode(v *NodeV) {
	cur := &corev1.Node{}
	err := w.c.Get(w.ctx, client.ObjectKey{Name: v.Name}, cur)
	if err == nil && !cur.DeletionTimestamp.IsZero() && !v.Deleting {
		// an object cannot be "un-deleted": this is a re-creation under the same name
		w.hardDelete(cur)
		err = apierrors.NewNotFound(corev1.Resource("nodes"), v.Name)
	}
	want := w.buildNode(v)
	if err != nil {
		must(w.c.Create(w.ctx, want))
	} else {
		cur.Labels, cur.Spec.ProviderID, cur.Spec.Taints, cur.Annotations = want.Labels, want.Spec.ProviderID, want.Spec.Taints, want.Annotations
		must(w.c.Update(w.ctx, cur))
	}
	must(w.c.Get(w.ctx, client.ObjectKey{Name: v.Name}, cur))
	cur.Status.Capacity, cur.Status.Allocatable = want.Status.Capacity, want.Status.Allocatable
	must(w.c.Status().Update(w.ctx, cur))
	if v.Deleting {
		must(w.c.Get(w.ctx, client.ObjectKey{Name: v.Name}, cur))
		if cur.DeletionTimestamp.IsZero() {
			must(w.c.Delete(w.ctx, cur))
		}
	}
	w.nodes[v.Name] = v
}

func (w *world) setClaim(v *ClaimV) {
	cur := &v1.NodeClaim{}
	err := w.c.Get(w.ctx, client.ObjectKey{Name: v.Name}, cur)
	if err == nil && !cur.DeletionTimestamp.IsZero() && !v.Deleting {
		w.hardDelete(cur)
		err = apierrors.NewNotFound(corev1.Resource("nodeclaims"), v.Name)
	}
	want := w.buildClaim(v)
	if err != nil {
		must(w.c.Create(w.ctx, want))
	} else {
		cur.Labels, cur.Spec.Taints, cur.Spec.StartupTaints = want.Labels, want.Spec.Taints, want.Spec.StartupTaints
		must(w.c.Update(w.ctx, cur))
	}
	must(w.c.Get(w.ctx, client.ObjectKey{Name: v.Name}, cur))
	cur.Status.ProviderID, cur.Status.Capacity, cur.Status.Allocatable, cur.Status.Conditions = want.Status.ProviderID, want.Status.Capacity, want.Status.Allocatable, want.Status.Conditions
	must(w.c.Status().Update(w.ctx, cur))
	if v.Deleting {
		must(w.c.Get(w.ctx, client.ObjectKey{Name: v.Name}, cur))
		if cur.DeletionTimestamp.IsZero() {
			must(w.c.Delete(w.ctx, cur))
		}
	}
	w.claims[v.Name] = v
}

func milli(q resource.Quantity) int64 { return q.MilliValue() }
func mi(q resource.Quantity) int64    { return q.Value() >> 20 }

// setPod always re-creates the pod (a pod's binding and spec are immutable in Kubernetes).
func (w *world) setPod(v *PodV) {
	w.hardDelete(&corev1.Pod{ObjectMeta: metav1.ObjectMeta{Name: v.Name, Namespace: ns}})
	p := w.buildPod(v)
	phase := p.Status.Phase
	must(w.c.Create(w.ctx, p))
	p.Status.Phase = phase
	must(w.c.Status().Update(w.ctx, p))
	must(w.c.Get(w.ctx, client.ObjectKeyFromObject(p), p))
	// the pod attributes the aggregates read, computed by the real helper functions
	v.Cost = int64(math.Round(disruptionutils.EvictionCost(w.ctx, p) * (1 << 27)))
	v.PortsRes = nil
	for _, hp := range scheduling.GetHostPorts(p) {
		v.PortsRes = append(v.PortsRes, fmt.Sprintf("%s/%d/%s", hp.IP, hp.Port, hp.Protocol))
	}
	if vols, err := scheduling.GetVolumes(w.ctx, w.c, p); err != nil {
		v.VolsRes = []string{"<unresolvable>"} // a claim bound to a volume that does not exist (profile dangling-pv only)
	} else {
		v.VolsRes = vols.VerifC11Flat()
	}
	rq, lm := resources.RequestsForPods(p), resources.LimitsForPods(p)
	v.ReqCPU, v.ReqMem = milli(rq[corev1.ResourceCPU]), mi(rq[corev1.ResourceMemory])
	v.LimCPU, v.LimMem = milli(lm[corev1.ResourceCPU]), mi(lm[corev1.ResourceMemory])
	w.pods[v.Name] = v
}

func (w *world) apply(o Op) {
	switch o.Kind {
	case "SetNode":
		w.setNode(o.Node)
	case "DelNode":
		w.hardDelete(&corev1.Node{ObjectMeta: metav1.ObjectMeta{Name: o.Name}})
		delete(w.nodes, o.Name)
	case "SetClaim":
		w.setClaim(o.Claim)
	case "DelClaim":
		w.hardDelete(&v1.NodeClaim{ObjectMeta: metav1.ObjectMeta{Name: o.Name}})
		delete(w.claims, o.Name)
	case "SetPod":
		w.setPod(o.Pod)
	case "DelPod":
		w.hardDelete(&corev1.Pod{ObjectMeta: metav1.ObjectMeta{Name: o.Name, Namespace: ns}})
		delete(w.pods, o.Name)
	case "DeliverNode":
		_, _ = w.nodeCtl.Reconcile(w.ctx, reconcile.Request{NamespacedName: types.NamespacedName{Name: o.Name}})
	case "DeliverClaim", "DeliverForeignClaim":
		_, _ = w.claimCtl.Reconcile(w.ctx, reconcile.Request{NamespacedName: types.NamespacedName{Name: o.Name}})
	case "DeliverPod":
		_, _ = w.podCtl.Reconcile(w.ctx, reconcile.Request{NamespacedName: types.NamespacedName{Name: o.Name, Namespace: ns}})
	case "FaultDeliverNode":
		// a reconcile whose read fails (pod list / node get): must leave the cache as it is
		w.fault = o.Tag
		_, _ = w.nodeCtl.Reconcile(w.ctx, reconcile.Request{NamespacedName: types.NamespacedName{Name: o.Name}})
		w.fault = ""
	case "FaultDeliverPod":
		w.fault = o.Tag
		_, _ = w.podCtl.Reconcile(w.ctx, reconcile.Request{NamespacedName: types.NamespacedName{Name: o.Name, Namespace: ns}})
		w.fault = ""
	case "CreatePV":
		pv := &corev1.PersistentVolume{ObjectMeta: metav1.ObjectMeta{Name: "pv-late"}, Spec: corev1.PersistentVolumeSpec{
			PersistentVolumeSource: corev1.PersistentVolumeSource{CSI: &corev1.CSIPersistentVolumeSource{Driver: "drv1", VolumeHandle: "late"}}}}
		if err := w.c.Create(w.ctx, pv); err != nil && !apierrors.IsAlreadyExists(err) {
			panic(err)
		}
		w.pvLate = true
	case "DeletePV":
		w.hardDelete(&corev1.PersistentVolume{ObjectMeta: metav1.ObjectMeta{Name: "pv-late"}})
		w.pvLate = false
	case "Tick":
		w.clk.Step(time.Hour) // far beyond the nomination window
	case "Nominate":
		w.cluster.NominateNodeForPod(w.ctx, o.Name)
	case "SetForeignClaim":
		w.setClaim(o.Claim)
		delete(w.claims, o.Claim.Name) // the model never hears of it
	case "DelForeignClaim":
		w.hardDelete(&v1.NodeClaim{ObjectMeta: metav1.ObjectMeta{Name: o.Name}})
	case "Mark":
		w.cluster.MarkForDeletion(o.IDs...)
	case "Unmark":
		w.cluster.UnmarkForDeletion(o.IDs...)
	default:
		panic("unknown op " + o.Kind)
	}
}

// fresh builds a new real Cluster over the same API state, delivers every object once in canonical order
// and re-applies the in-memory deletion marks the given cache carries. Model-free oracle.
func (w *world) fresh(marked []string) (*state.Cluster, state.VerifC11Dump) {
	saved := w.cluster
	defer w.attach(saved)
	cl := state.NewCluster(w.clk, w.c, w.cp)
	w.attach(cl)
	for _, n := range kit.SortedKeys(w.claims) {
		w.apply(Op{Kind: "DeliverClaim", Name: n})
	}
	for _, n := range kit.SortedKeys(w.nodes) {
		w.apply(Op{Kind: "DeliverNode", Name: n})
	}
	for _, n := range kit.SortedKeys(w.pods) {
		w.apply(Op{Kind: "DeliverPod", Name: n})
	}
	cl.MarkForDeletion(marked...)
	// nomination, like the marks, is in-memory state: taken over from the cache under comparison
	for id, sn := range saved.VerifC11Dump().Nodes {
		if sn.Nominated {
			cl.NominateNodeForPod(w.ctx, id)
		}
	}
	return cl, cl.VerifC11Dump()
}

// antiAffinityView lists "pod@node" for what ForPodsWithAntiAffinity reports.
func antiAffinityView(cl *state.Cluster) []string {
	var out []string
	cl.ForPodsWithAntiAffinity(func(p *corev1.Pod, n *corev1.Node) bool {
		out = append(out, p.Name+"@"+n.Name)
		return true
	})
	sort.Strings(out)
	return out
}
