package main

type scripted struct {
	prof string
	run  func(g *gen)
}

func nodeV(name, pid, pool string) *NodeV {
	return &NodeV{Name: name, PID: pid, Pool: pool, IType: true, Init: true, Reg: true, CPU: 4000, Mem: 8192}
}
func claimV(name, pid, pool string) *ClaimV {
	return &ClaimV{Name: name, PID: pid, Pool: pool, CPU: 2000, Mem: 4096}
}
func podV(name, node string) *PodV {
	return &PodV{Name: name, Node: node, CPU: 250, Mem: 128, AntiAff: true, Ports: []string{"0.0.0.0:80:TCP"}, Vols: []string{"pvc-a"}}
}

func (g *gen) do(ops ...Op) {
	g.nNodes, g.nClaims, g.nPods = 3, 2, 3
	for _, o := range ops {
		g.emit(o)
	}
}

// corpus: the histories of the confirmed defects and the shapes the property text names; run first.
func corpus() []scripted {
	sn := func(v *NodeV) Op { return Op{Kind: "SetNode", Node: v} }
	sc := func(v *ClaimV) Op { return Op{Kind: "SetClaim", Claim: v} }
	sp := func(v *PodV) Op { return Op{Kind: "SetPod", Pod: v} }
	d := func(kind, name string) Op { return Op{Kind: kind, Name: name} }
	return []scripted{
		// F2 (fixed by 4e75b4bc9): Node, Pod, NodeClaim -> DisruptionCost fell from 2 to 1
		{"wellformed", func(g *gen) {
			g.do(sn(nodeV("n0", "x0", "pa")), sp(podV("p0", "n0")), sc(claimV("c0", "x0", "pa")),
				d("DeliverNode", "n0"), d("DeliverPod", "p0"), d("DeliverClaim", "c0"))
		}},
		// pod re-created under the same name on another node, deletion never seen
		{"wellformed", func(g *gen) {
			g.do(sn(nodeV("n0", "x0", "pa")), sn(nodeV("n1", "x1", "pb")), d("DeliverNode", "n0"), d("DeliverNode", "n1"),
				sp(podV("p0", "n0")), d("DeliverPod", "p0"), sp(podV("p0", "n1")), d("DeliverPod", "p0"))
		}},
		// provider id arrives late: unmanaged node tracked under its name, then under the id; claim launched late
		{"wellformed", func(g *gen) {
			g.do(sn(nodeV("n2", "", "")), d("DeliverNode", "n2"), sp(podV("p1", "n2")), d("DeliverPod", "p1"),
				sn(nodeV("n2", "x2", "")), sc(claimV("c1", "", "pb")), d("DeliverClaim", "c1"), d("DeliverNode", "n2"),
				sc(claimV("c1", "x1", "pb")), d("DeliverClaim", "c1"), Op{Kind: "Mark", IDs: []string{"nope", "x1", "gone", "x2"}}, Op{Kind: "Unmark", IDs: []string{"nope", "x2", "x1"}}, Op{Kind: "Mark", IDs: []string{"x2", "nope"}})
		}},
		// deletion seen before the update: node and claim deleted while deliveries lag
		{"wellformed", func(g *gen) {
			g.do(sn(nodeV("n0", "x0", "pa")), sc(claimV("c0", "x0", "pa")), d("DeliverClaim", "c0"), d("DeliverNode", "n0"),
				d("DelClaim", "c0"), d("DelNode", "n0"), d("DeliverNode", "n0"), sn(nodeV("n0", "x0", "pa")), d("DeliverClaim", "c0"))
		}},
		// fixed by 7fed8b92b: Node deleted before the pod deletion is seen while the NodeClaim remains
		{"nodeloss", func(g *gen) {
			g.do(sn(nodeV("n0", "x0", "pa")), sc(claimV("c0", "x0", "pa")), d("DeliverNode", "n0"), d("DeliverClaim", "c0"),
				sp(podV("p0", "n0")), d("DeliverPod", "p0"), d("DelNode", "n0"), d("DeliverNode", "n0"), d("DelPod", "p0"), d("DeliverPod", "p0"))
		}},
		// fixed by eef19881a: pod with required anti-affinity re-created under the same name, still pending
		{"untracked", func(g *gen) {
			g.do(sn(nodeV("n0", "x0", "pa")), d("DeliverNode", "n0"), sp(podV("p0", "n0")), d("DeliverPod", "p0"),
				sp(podV("p0", "")), d("DeliverPod", "p0"))
		}},
		// outside the premises (pods_settled): re-created under the same name on a node the cache does not track
		{"untracked", func(g *gen) {
			g.do(sn(nodeV("n0", "x0", "pa")), d("DeliverNode", "n0"), sp(podV("p0", "n0")), d("DeliverPod", "p0"),
				sp(podV("p0", "ghost")), d("DeliverPod", "p0"))
		}},
		// ... and the same history once that node exists and is delivered: the premises hold again, the round
		// (in fact the node delivery alone) moves the binding and cleans the old node
		{"untracked", func(g *gen) {
			g.do(sn(nodeV("n0", "x0", "pa")), d("DeliverNode", "n0"), sp(podV("p0", "n0")), d("DeliverPod", "p0"),
				sp(podV("p0", "ghost")), d("DeliverPod", "p0"), sn(nodeV("ghost", "xg", "pb")), d("DeliverNode", "ghost"))
		}},
	}
}

var allBranches = []string{
	"br:DeleteNode:unknown", "br:DeleteNode:claim-keeps-entry", "br:DeleteNode:entry-removed",
	"br:UpdateNode:skip-managed-without-providerID", "br:UpdateNode:skip-no-instance-type", "br:UpdateNode:providerID-changed",
	"br:UpdateNode:rebuild-known", "br:UpdateNode:joins-claim-entry", "br:UpdateNode:new-entry", "br:UpdateNode:providerID-defaults-to-name",
	"br:DeleteNodeClaim:unknown", "br:DeleteNodeClaim:unlaunched", "br:DeleteNodeClaim:node-keeps-entry", "br:DeleteNodeClaim:entry-removed",
	"br:UpdateNodeClaim:unlaunched", "br:UpdateNodeClaim:providerID-changed", "br:UpdateNodeClaim:carries-over-pods",
	"br:UpdateNodeClaim:carries-over-empty", "br:UpdateNodeClaim:new-entry",
	"br:PodCompletion:not-bound", "br:PodCompletion:node-gone", "br:DeletePod:cleans-node", "br:UpdatePod:terminal-cleans-node",
	"br:UpdatePod:pending", "br:UpdatePod:pending-but-binding-known", "br:UpdatePod:node-not-found", "br:UpdatePod:node-not-found-binding-known",
	"br:UpdatePod:new-binding", "br:UpdatePod:same-binding", "br:UpdatePod:moved-cleans-old-node", "br:UpdatePod:moved-old-node-gone",
	"br:updateForPod:daemonset", "br:updateForPod:cost-positive", "br:updateForPod:cost-nonpositive",
	"br:Mark:hit", "br:Mark:miss", "br:Unmark:hit", "br:Unmark:miss", "br:UpdatePod:rewritten-on-same-node-leaves-stale-entry", "br:UpdateNode:fails-pod-volume-unresolvable", "br:VolumeUsage.DeletePod:twice-without-node-reconcile", "br:UpdatePod:fails-volume-unresolvable",
}
