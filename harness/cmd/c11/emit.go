package main

import (
	"fmt"
	"math"
	"strings"

	corev1 "k8s.io/api/core/v1"

	"sigs.k8s.io/karpenter/pkg/controllers/state"

	"verifharness/kit"
)

func gz2(a, b int64) string { return "(" + kit.GZ(a) + ", " + kit.GZ(b) + ")" }
func gz3(a, b, c int64) string {
	return "(" + kit.GZ(a) + ", " + kit.GZ(b) + ", " + kit.GZ(c) + ")"
}

func podKey(name string) string { return ns + "/" + name }

func gNode(v *NodeV) string {
	return fmt.Sprintf("(mkNode %s %s %s %s %s %s %s %s %s %s)", kit.GStr(v.Name), kit.GStr(v.PID), kit.GStr(v.Pool),
		kit.GBool(v.IType), kit.GBool(v.Init || v.InitFalse), kit.GBool(v.Init), kit.GBool(v.Reg), kit.GZ(v.CPU), kit.GZ(v.Mem), kit.GBool(v.Deleting))
}

func gClaim(v *ClaimV) string {
	return fmt.Sprintf("(mkClaim %s %s %s %s %s %s %s)", kit.GStr(v.Name), kit.GStr(v.PID), kit.GStr(v.Pool), kit.GZ(v.CPU), kit.GZ(v.Mem), kit.GBool(v.Deleting), kit.GBool(v.Term))
}

func gPod(v *PodV) string {
	return fmt.Sprintf("(mkPod %s %s %s %s %s %s %s %s %s)", kit.GStr(podKey(v.Name)), kit.GStr(v.Node), kit.GBool(v.Terminal), kit.GBool(v.DS),
		gz2(v.ReqCPU, v.ReqMem), gz2(v.LimCPU, v.LimMem), kit.GZ(v.Cost), kit.GStrs(v.PortsRes), kit.GStrs(v.VolsRes))
}

func rl2(r corev1.ResourceList) string {
	return gz2(milli(r[corev1.ResourceCPU]), mi(r[corev1.ResourceMemory]))
}
func rl3pods(r corev1.ResourceList) string {
	pods := r[corev1.ResourcePods]
	return gz3(milli(r[corev1.ResourceCPU]), mi(r[corev1.ResourceMemory]), pods.Value())
}

func gView(d *state.VerifC11Dump) (view, accs string) {
	var nodes, ac []string
	for _, id := range kit.SortedKeys(d.Nodes) {
		n := d.Nodes[id]
		var pods, dsr, costs []string
		for _, k := range kit.SortedKeys(n.PodRequests) {
			pods = append(pods, fmt.Sprintf("(%s, mkPent %s %s %s %s)", kit.GStr(k), rl2(n.PodRequests[k]), rl2(n.PodLimits[k]),
				kit.GStrs(n.HostPorts[k]), kit.GStrs(n.PodVolumes[k])))
		}
		// the four per-pod maps must have the same key set (they are one map in the model)
		if len(n.PodLimits) != len(n.PodRequests) || len(n.HostPorts) != len(n.PodRequests) || len(n.PodVolumes) != len(n.PodRequests) {
			pods = append(pods, "(\"!key-sets-differ\", mkPent (0,0) (0,0) [] [])")
		}
		for _, k := range kit.SortedKeys(n.DaemonSetRequests) {
			dsr = append(dsr, fmt.Sprintf("(%s, (%s, %s))", kit.GStr(k), rl2(n.DaemonSetRequests[k]), rl2(n.DaemonSetLimits[k])))
		}
		for _, k := range kit.SortedKeys(n.DisruptionCosts) {
			costs = append(costs, fmt.Sprintf("(%s, %s)", kit.GStr(k), kit.GZ(int64(math.Round(n.DisruptionCosts[k]*(1<<27))))))
		}
		nodes = append(nodes, fmt.Sprintf("(%s, mkVN %s %s %s %s %s %s %s %s %s %s)", kit.GStr(id), kit.GStr(n.NodeName), kit.GStr(n.ClaimName),
			kit.GList(pods), kit.GList(dsr), kit.GList(costs), kit.GStrs(n.VolumeUnion), kit.GBool(n.MarkedField),
			kit.GBool(n.MarkedForDeletion), kit.GStr(n.PoolLabel), rl2(n.Capacity)))
		ac = append(ac, fmt.Sprintf("(%s, mkAcc %s %s %s)", kit.GStr(id), rl3pods(n.SumPodRequests), rl3pods(n.SumDaemonRequests),
			kit.GZ(int64(math.Round(n.DisruptionCost*(1<<27))))))
	}
	smap := func(m map[string]string) string {
		var out []string
		for _, k := range kit.SortedKeys(m) {
			out = append(out, "("+kit.GStr(k)+", "+kit.GStr(m[k])+")")
		}
		return kit.GList(out)
	}
	var npr []string
	for _, k := range kit.SortedKeys(d.NodePoolResources) {
		r := d.NodePoolResources[k]
		nodesQ := r["nodes"]
		npr = append(npr, fmt.Sprintf("(%s, %s)", kit.GStr(k), gz3(milli(r[corev1.ResourceCPU]), mi(r[corev1.ResourceMemory]), nodesQ.Value())))
	}
	return fmt.Sprintf("(mkView %s %s %s %s %s)", kit.GList(nodes), smap(d.Bindings), smap(d.NodeNameToPID), smap(d.ClaimNameToPID), kit.GList(npr)),
		kit.GList(ac)
}

// operations the model never hears of: NodeClaims of a foreign node class (the informer must ignore them) and
// nomination (checked by the Go-side carry-over oracle)
var hidden = map[string]bool{"Nominate": true, "SetForeignClaim": true, "DelForeignClaim": true, "DeliverForeignClaim": true, "FaultDeliverNode": true, "FaultDeliverPod": true, "CreatePV": true, "DeletePV": true, "Tick": true}

func gItem(o Op) string {
	switch o.Kind {
	case "SetNode":
		return "IOp (SetNode " + gNode(o.Node) + ")"
	case "SetClaim":
		return "IOp (SetClaim " + gClaim(o.Claim) + ")"
	case "SetPod":
		return "IOp (SetPod " + gPod(o.Pod) + ")"
	case "DelNode", "DelClaim", "DeliverNode", "DeliverClaim":
		return "IOp (" + o.Kind + " " + kit.GStr(o.Name) + ")"
	case "DelPod", "DeliverPod":
		return "IOp (" + o.Kind + " " + kit.GStr(podKey(o.Name)) + ")"
	case "Mark", "Unmark":
		return "IOp (" + o.Kind + " " + kit.GStrs(o.IDs) + ")"
	case "Obs":
		v, a := gView(o.Obs)
		kind := map[string]string{"each-delivered-once": "1%nat", "final": "2%nat"}[o.Tag]
		if kind == "" {
			kind = "0%nat"
		}
		return "IObs " + kind + " " + kit.GBool(o.Belief) + " " + v + " " + a + " " + gNPS(o.NSets, o.NMap)
	case "Panic":
		return "IPanic"
	}
	panic("gItem " + o.Kind)
}

// gCase renders the history; ops[roundStart:roundEnd] (the closing round) become one IClose item.
func gCase(ops []Op, roundStart, roundEnd int) string {
	var items []string
	for i := 0; i < len(ops); i++ {
		if hidden[ops[i].Kind] {
			continue
		}
		if i == roundStart && roundEnd == roundStart {
			items = append(items, "IClose []") // nothing to deliver
		}
		if i == roundStart && roundEnd > roundStart {
			var r []string
			for _, o := range ops[roundStart:roundEnd] {
				if !hidden[o.Kind] {
					r = append(r, strings.TrimPrefix(gItem(o), "IOp "))
				}
			}
			items = append(items, "IClose "+kit.GList(r))
			i = roundEnd - 1
			continue
		}
		items = append(items, gItem(ops[i]))
	}
	return "[" + strings.Join(items, ";\n   ") + "]"
}

func gNPS(sets map[string][3][]string, mp map[string]string) string {
	var ss, ms []string
	for _, np := range kit.SortedKeys(sets) {
		if len(sets[np][2]) != 0 {
			panic("PendingDisruption is never written by the harness")
		}
		ss = append(ss, fmt.Sprintf("(%s, (%s, %s))", kit.GStr(np), kit.GStrs(sets[np][0]), kit.GStrs(sets[np][1])))
	}
	for _, k := range kit.SortedKeys(mp) {
		ms = append(ms, "("+kit.GStr(k)+", "+kit.GStr(mp[k])+")")
	}
	return "(mkNPS " + kit.GList(ss) + " " + kit.GList(ms) + ")"
}
