package main

import (
	"fmt"
	"reflect"
	"sort"
	"strings"

	"sigs.k8s.io/karpenter/pkg/controllers/state"

	"verifharness/kit"
)

// profile selects which (at most two) dimensions a history stresses beyond the well-formed lifecycle.
type profile struct {
	PidReuse    bool // a provider id may be handed from one node/claim to another
	Untracked   bool // pods may be (re)created pending or on nodes the cache cannot track, under a name that was bound before
	NodeLoss    bool // a Node may disappear (or change its provider id) while its NodeClaim and its pods remain
	Relabel     bool // a NodeClaim/Node may change its nodepool label
	SameNodeRe  bool // pods may be re-created under the same name on the same node with different attributes
	Untrackable bool // a node name the cache tracks may come back in an untrackable form
	DanglingPV  bool // pods may mount a claim bound to a volume that does not exist (yet): GetVolumes fails
	VolHeavy    bool // every pod mounts claims of one CSI driver and sits on one node (rebuilds of the volume union)
}

type gen struct {
	r                      *kit.Rand
	w                      *world
	prof                   profile
	ops                    []Op
	dirty                  map[string]bool // "N/n0", "C/c0", "P/p0": changed in the API since the last delivery
	ever                   map[string]bool
	bound                  map[string]bool // pod names that were ever written bound to a node
	nNodes, nClaims, nPods int
	count                  func(string)
	histOK                 bool   // the premise hist_ok of the theorem, mirrored on the real cache
	markFail               string // a Mark/Unmark call that did not reach a tracked id
	pre                    state.VerifC11Dump
	nominated              map[string]bool // provider ids nominated while their entry has existed ever since
	claimPool              map[string]string
	stale                  bool   // some pod delivery had the shape stale_rewrite
	histWhy                string // first reason it failed
	roundStart             int    // index in ops where the closing round starts (-1: none)
	roundEnd               int
}

func (g *gen) observe(tag string, belief bool) {
	d := g.w.cluster.VerifC11Dump()
	sets, mp := g.w.cluster.NodePoolState.VerifC11Dump()
	g.ops = append(g.ops, Op{Kind: "Obs", Obs: &d, Tag: tag, NSets: sets, NMap: mp, Belief: belief})
}

// staleRewrite mirrors C11.Check.stale_rewrite on the real cache (evaluated before a pod delivery).
func (g *gen) staleRewrite(o Op) bool {
	if o.Kind != "DeliverPod" {
		return false
	}
	p, ok := g.w.pods[o.Name]
	if !ok || p.Terminal || p.Node == "" {
		return false
	}
	d := g.pre
	sn, ok := d.Nodes[d.NodeNameToPID[p.Node]]
	if !ok {
		return false
	}
	key := podKey(o.Name)
	if _, has := sn.PodRequests[key]; !has {
		return false
	}
	if _, ds := sn.DaemonSetRequests[key]; ds && !p.DS {
		return true
	}
	if _, cost := sn.DisruptionCosts[key]; cost && p.DS {
		return true
	}
	for _, v := range sn.PodVolumes[key] {
		found := false
		for _, w := range p.VolsRes {
			found = found || v == w
		}
		if !found {
			return true
		}
	}
	return false
}

// opOK mirrors C11.Proofs.op_ok (C11.Check.op_ok_b) on the real cache: what the environment must respect
// when it writes a Node / NodeClaim.
func (g *gen) opOK(o Op) {
	if o.Kind != "SetNode" && o.Kind != "SetClaim" {
		return
	}
	fail := func(why string) {
		if g.histOK {
			g.histOK, g.histWhy = false, why
		}
	}
	d := g.pre
	nodes := map[string]*NodeV{}
	for k, v := range g.w.nodes {
		nodes[k] = v
	}
	claims := map[string]*ClaimV{}
	for k, v := range g.w.claims {
		claims[k] = v
	}
	if o.Kind == "SetNode" {
		nodes[o.Node.Name] = o.Node
	} else {
		claims[o.Claim.Name] = o.Claim
	}
	for n1, a := range nodes {
		if n1 == "" {
			fail("empty-node-name")
		}
		for n2, b := range nodes {
			if n1 != n2 && trackable(a) && trackable(b) && epidOf(a) == epidOf(b) {
				fail("two-nodes-share-a-provider-id")
			}
		}
	}
	for c1, a := range claims {
		for c2, b := range claims {
			if c1 != c2 && a.PID != "" && a.PID == b.PID {
				fail("two-claims-share-a-provider-id")
			}
		}
	}
	if o.Kind == "SetNode" {
		nd := o.Node
		if trackable(nd) {
			for m, x := range d.NodeNameToPID {
				if x == epidOf(nd) && m != nd.Name {
					fail("provider-id-cached-under-another-node-name")
				}
			}
		}
		if _, ok := d.NodeNameToPID[nd.Name]; ok && !trackable(nd) {
			fail("tracked-node-becomes-untrackable")
		}
	} else {
		cl := o.Claim
		if cl.PID != "" {
			for k, x := range d.ClaimNameToPID {
				if x == cl.PID && k != cl.Name {
					fail("provider-id-cached-under-another-claim-name")
				}
			}
		}
		if x, ok := d.ClaimNameToPID[cl.Name]; ok && x != "" && cl.PID == "" {
			fail("launched-claim-loses-its-provider-id")
		}
		if _, mp := g.w.cluster.NodePoolState.VerifC11Dump(); mp[cl.Name] != "" && mp[cl.Name] != cl.Pool {
			fail("claim-nodepool-label-changes")
		}
	}
}

// podsSettled mirrors C11.Proofs.pods_settled on the API state.
func (g *gen) podsSettled() bool {
	for _, p := range g.w.pods {
		if p.Terminal || p.Node == "" {
			continue
		}
		n, ok := g.w.nodes[p.Node]
		if !ok || !trackable(n) {
			return false
		}
	}
	return true
}

func (g *gen) emit(o Op) {
	g.pre = g.w.cluster.VerifC11Dump() // one dump of the cache before the operation, shared by the mirrors below
	g.branch(o)
	g.opOK(o)
	if g.staleRewrite(o) {
		g.stale = true
		g.count("br:UpdatePod:rewritten-on-same-node-leaves-stale-entry")
	}
	g.ops = append(g.ops, o)
	g.w.apply(o)
	if o.Kind == "Tick" {
		// the nomination window has passed: nobody is nominated any more
		g.nominated = map[string]bool{}
		for id, sn := range g.w.cluster.VerifC11Dump().Nodes {
			if sn.Nominated && g.markFail == "" {
				g.markFail = "provider id " + id + " is still nominated an hour after the nomination"
			}
		}
	}
	if o.Kind == "Nominate" || strings.HasPrefix(o.Kind, "Deliver") {
		// nomination is carried over by every update and lost only when the entry goes away
		d := g.w.cluster.VerifC11Dump()
		if _, ok := d.Nodes[o.Name]; ok && o.Kind == "Nominate" {
			g.nominated[o.Name] = true
		}
		for id := range g.nominated {
			sn, ok := d.Nodes[id]
			if !ok {
				delete(g.nominated, id)
			} else if !sn.Nominated && g.markFail == "" {
				g.markFail = fmt.Sprintf("after %s %s the nomination of provider id %s is lost although its entry was kept", o.Kind, o.Name, id)
			}
		}
	}
	if o.Kind == "Mark" || o.Kind == "Unmark" {
		// deletion marks are in-memory state: the recomputation cannot see them, so they get their own oracle
		// (marks_reach_every_tracked_id): every tracked id of the list carries the new mark, wherever untracked ids sit
		d := g.w.cluster.VerifC11Dump()
		for _, id := range o.IDs {
			if sn, ok := d.Nodes[id]; ok && sn.MarkedField != (o.Kind == "Mark") && g.markFail == "" {
				g.markFail = fmt.Sprintf("%s%v left provider id %s with markedForDeletion=%v", o.Kind, o.IDs, id, sn.MarkedField)
			}
		}
	}
	switch o.Kind {
	case "SetNode":
		g.touch("N/" + o.Node.Name)
	case "DelNode":
		g.touch("N/" + o.Name)
	case "SetClaim":
		g.touch("C/" + o.Claim.Name)
	case "DelClaim":
		g.touch("C/" + o.Name)
	case "SetPod":
		g.touch("P/" + o.Pod.Name)
		if o.Pod.Node != "" {
			g.bound[o.Pod.Name] = true
		}
	case "DelPod":
		g.touch("P/" + o.Name)
	case "DeliverNode":
		delete(g.dirty, "N/"+o.Name)
	case "DeliverClaim":
		delete(g.dirty, "C/"+o.Name)
	case "DeliverPod":
		delete(g.dirty, "P/"+o.Name)
	}
	if o.Kind != "Obs" {
		g.count("op:" + o.Kind)
	}
}

func (g *gen) touch(k string) { g.dirty[k] = true; g.ever[k] = true }

func deliverOp(key string) Op {
	switch key[0] {
	case 'N':
		return Op{Kind: "DeliverNode", Name: key[2:]}
	case 'C':
		return Op{Kind: "DeliverClaim", Name: key[2:]}
	}
	return Op{Kind: "DeliverPod", Name: key[2:]}
}

func sortedSet(m map[string]bool) []string {
	out := make([]string, 0, len(m))
	for k := range m {
		out = append(out, k)
	}
	sort.Strings(out)
	return out
}

func (g *gen) poolOf(i int) string {
	if i == g.nNodes-1 && g.nNodes > 2 {
		return "" // the last node is not managed by karpenter
	}
	return []string{"pa", "pb"}[i%2]
}

var caps = [][2]int64{{4000, 8192}, {2000, 4096}, {8000, 0}, {1000, 1024}}

func (g *gen) stepNode() {
	i := g.r.Intn(g.nNodes)
	name := fmt.Sprintf("n%d", i)
	cur, ok := g.w.nodes[name]
	pool := g.poolOf(i)
	truePID := fmt.Sprintf("x%d", i)
	if !ok {
		v := &NodeV{Name: name, Pool: pool, IType: !g.r.Chance(1, 6), CPU: caps[i%4][0], Mem: caps[i%4][1]}
		switch {
		case pool == "" && g.r.Chance(1, 2):
			v.PID = "" // unmanaged node without provider id: tracked under its name
		case g.r.Chance(1, 4):
			v.PID = "" // managed node before the cloud controller sets the id
		default:
			v.PID = truePID
		}
		if g.r.Chance(1, 2) {
			v.Reg = true
			v.Init = g.r.Chance(1, 2)
		}
		g.decorateNode(v)
		if g.dirty["N/"+name] && !g.prof.Untrackable && pool != "" {
			// re-created before the cache saw the deletion: keep it trackable
			v.PID, v.IType = truePID, true
		}
		if g.prof.PidReuse && g.r.Chance(1, 2) {
			v.PID = fmt.Sprintf("x%d", g.r.Intn(g.nNodes))
		}
		g.emit(Op{Kind: "SetNode", Node: v})
		return
	}
	v := *cur
	switch c := g.r.Intn(20); {
	case c < 5 && v.PID == "" && pool != "":
		v.PID = truePID
	case c < 8 && !v.Reg:
		v.Reg = true
	case c < 11 && !v.Init:
		v.Reg, v.Init, v.InitFalse, v.RegFalse = true, true, false, false
	case c < 12 && !v.IType:
		v.IType = true
	case c < 13:
		k := g.r.Intn(4)
		v.CPU, v.Mem = caps[k][0], caps[k][1]
		g.decorateNode(&v)
	case c < 15:
		v.Deleting = true
	case c < 18:
		if !g.prof.NodeLoss && !g.nodeMayGo(cur) {
			return
		}
		g.emit(Op{Kind: "DelNode", Name: name})
		return
	case c < 19 && g.prof.NodeLoss && v.PID != "":
		v.PID = "y" + name // the provider id of an existing node changes
	case c < 19 && g.prof.PidReuse:
		v.PID = fmt.Sprintf("x%d", g.r.Intn(g.nNodes))
	case c < 20 && g.prof.Relabel && pool != "":
		v.Pool = map[string]string{"pa": "pb", "pb": "pa"}[v.Pool]
	default:
		return
	}
	g.emit(Op{Kind: "SetNode", Node: &v})
}

var taintPool = []string{"node.kubernetes.io/not-ready:NoSchedule", "t1:NoSchedule", "t2:NoExecute", "karpenter.sh/disrupted:NoSchedule"}

// decorateNode varies the fields the StateNode accessors read beyond identity: allocatable, hostname label, taints,
// the do-not-disrupt annotation, and the "false" spellings of the initialized / registered labels.
func (g *gen) decorateNode(v *NodeV) {
	v.ACPU, v.AMem = 0, 0
	if g.r.Chance(1, 2) {
		v.ACPU, v.AMem = v.CPU-100, v.Mem
		if v.Mem > 256 {
			v.AMem = v.Mem - 256
		}
	}
	v.Hostname = ""
	if g.r.Chance(1, 3) {
		v.Hostname = "host-" + v.Name
	}
	v.Taints = nil
	for k := g.r.Intn(3); k > 0; k-- {
		v.Taints = append(v.Taints, kit.Pick(g.r, taintPool))
	}
	v.DoNotDisrupt = g.r.Chance(1, 8)
	v.InitFalse = !v.Init && g.r.Chance(1, 5)
	v.RegFalse = !v.Reg && g.r.Chance(1, 5)
	g.count("field:node:" + map[bool]string{true: "allocatable-differs", false: "allocatable=capacity"}[v.ACPU != 0])
	if v.InitFalse {
		g.count("field:node:initialized-label=false")
	}
	if len(v.Taints) > 0 {
		g.count("field:node:tainted")
	}
}

// nodeMayGo: in a well-formed history a Node disappears only after its pods are gone (drained and their
// deletion delivered) or when no NodeClaim with its provider id exists.
func (g *gen) nodeMayGo(n *NodeV) bool {
	hasClaim := false
	for _, c := range g.w.claims {
		if c.PID != "" && c.PID == n.PID {
			hasClaim = true
		}
	}
	if !hasClaim {
		return true
	}
	for _, p := range g.w.pods {
		if p.Node == n.Name {
			return false
		}
	}
	for k := range g.dirty {
		if k[0] == 'P' {
			return false
		}
	}
	d := g.w.cluster.VerifC11Dump()
	for _, nn := range d.Bindings {
		if nn == n.Name {
			return false
		}
	}
	return true
}

func (g *gen) stepClaim() {
	j := g.r.Intn(g.nClaims)
	name := fmt.Sprintf("c%d", j)
	cur, ok := g.w.claims[name]
	pool, known := g.claimPool[name]
	if !known {
		pool = g.poolOf(j)
		if pool == "" {
			pool = "pa"
		}
		if g.r.Chance(1, 8) {
			pool = "" // a NodeClaim without the nodepool label: NodePoolState must not track it
			g.count("field:claim:no-nodepool-label")
		}
		g.claimPool[name] = pool // the label of a name does not change
	}
	truePID := fmt.Sprintf("x%d", j)
	if !ok {
		v := &ClaimV{Name: name, Pool: pool, CPU: caps[(j+1)%4][0], Mem: caps[(j+1)%4][1]}
		if g.r.Chance(1, 3) {
			v.Taints, v.Startup = []string{kit.Pick(g.r, taintPool)}, []string{"t1:NoSchedule"}
		}
		v.AllocLess = g.r.Bool()
		if !g.r.Chance(1, 2) || (g.dirty["C/"+name] && !g.prof.PidReuse) {
			v.PID = truePID // a name whose deletion the cache has not seen yet comes back launched
		}
		if g.prof.PidReuse && g.r.Chance(1, 2) {
			v.PID = fmt.Sprintf("x%d", g.r.Intn(g.nNodes))
		}
		g.emit(Op{Kind: "SetClaim", Claim: v})
		return
	}
	v := *cur
	switch c := g.r.Intn(12); {
	case c < 5 && v.PID == "":
		v.PID = truePID
	case c < 6:
		k := g.r.Intn(4)
		v.CPU, v.Mem = caps[k][0], caps[k][1]
	case c < 8:
		v.Deleting = true
		v.Term = g.r.Chance(1, 2) // termination of the instance has started
		if v.Term {
			g.count("field:claim:InstanceTerminating")
		}
	case c < 10:
		g.emit(Op{Kind: "DelClaim", Name: name})
		return
	case c < 11 && g.prof.PidReuse:
		v.PID = fmt.Sprintf("x%d", g.r.Intn(g.nNodes))
	case c < 11 && v.PID != "" && g.r.Chance(1, 3):
		v.PID = "z" + name // the claim is re-launched under a provider id nobody else uses
	case c < 12 && g.prof.Relabel:
		v.Pool = map[string]string{"pa": "pb", "pb": "pa"}[v.Pool]
	default:
		return
	}
	g.emit(Op{Kind: "SetClaim", Claim: &v})
}

var portPool = []string{"0.0.0.0:80:TCP", "10.0.0.1:80:TCP", "0.0.0.0:80:UDP", ":443:TCP", "0.0.0.0:0:TCP", "::1:53:UDP"}
var volPool = []string{"pvc-a", "pvc-b", "pvc-c", "pvc-d", "pvc-e", "pvc-missing", "empty", "pvc-f", "pvc-g", "pvc-h", "pvc-i", "pvc-j", "pvc-k"}
var drv1Pool = []string{"pvc-a", "pvc-b", "pvc-f", "pvc-g"}
var reqPool = [][2]int64{{100, 128}, {250, 0}, {0, 512}, {1000, 1024}, {0, 0}}

func (g *gen) randomPod(name, node string) *PodV {
	v := &PodV{Name: name, Node: node, DS: g.r.Chance(1, 4), AntiAff: g.r.Chance(1, 3)}
	q := kit.Pick(g.r, reqPool)
	v.CPU, v.Mem = q[0], q[1]
	if g.r.Chance(1, 2) {
		v.LCPU, v.LMem = 2*q[0], q[1]
	}
	// eviction cost around the `> 0` threshold: 1 + deletionCost/2^27 (+ priority/2^25)
	switch g.r.Intn(8) {
	case 0:
		c := int64(-(1 << 27))
		v.DelCost = &c // cost exactly 0
	case 1:
		c := int64(-(1 << 27) + 1)
		v.DelCost = &c // smallest positive cost
	case 2:
		c := int64(-(1 << 27) - 1)
		v.DelCost = &c // just below 0
	case 3:
		c := int64(1 << 26)
		v.DelCost = &c
	case 4:
		p := int32(1 << 25)
		v.Prio = &p
	}
	for k := g.r.Intn(3); k > 0; k-- {
		v.Ports = append(v.Ports, kit.Pick(g.r, portPool))
	}
	for k := g.r.Intn(3); k > 0; k-- {
		v.Vols = append(v.Vols, kit.Pick(g.r, volPool))
	}
	if g.prof.DanglingPV && g.r.Chance(1, 2) {
		v.Vols = append(v.Vols, "pvc-z")
	}
	if g.prof.VolHeavy {
		v.Vols = []string{kit.Pick(g.r, drv1Pool)}
		if g.r.Chance(1, 3) {
			v.Vols = append(v.Vols, kit.Pick(g.r, drv1Pool))
		}
	}
	v.Failed = g.r.Chance(1, 2)
	switch g.r.Intn(6) {
	case 0:
		v.Owner = "ReplicaSet"
	case 1:
		v.Owner = "Node"
	}
	v.BadCost = v.DelCost == nil && g.r.Chance(1, 10)
	v.Init, v.Overhead, v.Ephemeral = g.r.Chance(1, 6), g.r.Chance(1, 8), g.r.Chance(1, 8)
	v.PrefAnti = !v.AntiAff && g.r.Chance(1, 6)
	for k, on := range map[string]bool{"init-container": v.Init, "overhead": v.Overhead, "ephemeral-volume": v.Ephemeral, "unparsable-deletion-cost": v.BadCost, "owner-not-daemonset": v.Owner != ""} {
		if on {
			g.count("field:pod:" + k)
		}
	}
	return v
}

func (g *gen) existingNodeNames() []string {
	return kit.SortedKeys(g.w.nodes)
}

// trackable mirrors the two early returns of Cluster.UpdateNode.
func trackable(n *NodeV) bool {
	managed := n.Pool != ""
	if n.PID == "" && managed {
		return false
	}
	if managed && !n.IType && !(n.Init || n.InitFalse) {
		return false
	}
	return true
}

func (g *gen) pickNodeFor(pod string) string {
	if g.prof.VolHeavy {
		if n := g.existingNodeNames(); len(n) > 0 && trackable(g.w.nodes[n[0]]) {
			return n[0]
		}
	}
	var names []string
	for _, n := range g.existingNodeNames() {
		if g.prof.Untracked || !g.bound[pod] || trackable(g.w.nodes[n]) {
			names = append(names, n)
		}
	}
	if g.prof.Untracked && g.r.Chance(1, 8) {
		return "ghost" // a node that does not exist
	}
	if len(names) == 0 {
		return ""
	}
	return kit.Pick(g.r, names)
}

func (g *gen) stepPod() {
	k := g.r.Intn(g.nPods)
	name := fmt.Sprintf("p%d", k)
	cur, ok := g.w.pods[name]
	if !ok {
		node := g.pickNodeFor(name)
		if g.r.Chance(1, 5) && (g.prof.Untracked || !g.bound[name]) {
			node = "" // pending
		}
		if node == "" && g.bound[name] && !g.prof.Untracked {
			// a name that was bound before comes back pending only once the cache has seen the deletion
			if g.dirty["P/"+name] {
				return
			}
		}
		g.emit(Op{Kind: "SetPod", Pod: g.randomPod(name, node)})
		return
	}
	switch c := g.r.Intn(10); {
	case c < 2:
		v := *cur
		v.Terminal = true
		g.count("field:pod:phase-" + map[bool]string{true: "Failed", false: "Succeeded"}[v.Failed])
		g.emit(Op{Kind: "SetPod", Pod: &v})
	case c < 4:
		g.emit(Op{Kind: "DelPod", Name: name})
	case c < 6 && cur.Node == "":
		// the scheduler binds a pending pod (in Kubernetes the only in-place change of spec.nodeName)
		v := *cur
		v.Node = g.pickNodeFor(name)
		g.emit(Op{Kind: "SetPod", Pod: &v})
	case c < 9:
		// deleted and re-created under the same name, on another node (or pending)
		node := g.pickNodeFor(name)
		if node == cur.Node && !g.prof.SameNodeRe {
			return
		}
		if g.prof.Untracked && g.r.Chance(1, 3) {
			node = ""
		}
		g.emit(Op{Kind: "SetPod", Pod: g.randomPod(name, node)})
	case g.prof.SameNodeRe:
		g.emit(Op{Kind: "SetPod", Pod: g.randomPod(name, cur.Node)})
	}
}

func (g *gen) stepDeliver() {
	if d := sortedSet(g.dirty); len(d) > 0 && g.r.Chance(7, 10) {
		g.emit(deliverOp(kit.Pick(g.r, d)))
		return
	}
	if e := sortedSet(g.ever); len(e) > 0 {
		g.emit(deliverOp(kit.Pick(g.r, e)))
	}
}

func (g *gen) stepMark() {
	d := g.w.cluster.VerifC11Dump()
	ids := kit.SortedKeys(d.Nodes)
	if len(ids) == 0 {
		return
	}
	// id lists with untracked ids in every position (first, middle, last, only)
	var pick []string
	switch g.r.Intn(8) {
	case 0:
		pick = []string{"nope", kit.Pick(g.r, ids)}
	case 1:
		pick = []string{kit.Pick(g.r, ids), "nope", kit.Pick(g.r, ids)}
	case 2:
		pick = []string{kit.Pick(g.r, ids), kit.Pick(g.r, ids), "nope"}
	case 3:
		pick = []string{"nope", "gone", kit.Pick(g.r, ids), "nope", kit.Pick(g.r, ids)}
	case 4:
		pick = []string{"nope"}
	default:
		pick = []string{kit.Pick(g.r, ids)}
	}
	if g.r.Chance(3, 5) {
		g.emit(Op{Kind: "Mark", IDs: pick})
	} else {
		g.emit(Op{Kind: "Unmark", IDs: pick})
	}
}

func (g *gen) stepNominate() {
	if g.r.Chance(1, 6) {
		g.emit(Op{Kind: "Tick"})
		return
	}
	d := g.w.cluster.VerifC11Dump()
	ids := append(kit.SortedKeys(d.Nodes), "nope")
	g.emit(Op{Kind: "Nominate", Name: kit.Pick(g.r, ids)})
}

// stepForeign: a NodeClaim whose nodeClassRef the cloud provider does not support; it may even carry the provider
// id of a tracked node. The NodeClaim informer must ignore it (the model never hears of it).
func (g *gen) stepForeign() {
	switch g.r.Intn(3) {
	case 0:
		pid := "xf"
		if g.r.Bool() {
			pid = "x0"
		}
		g.emit(Op{Kind: "SetForeignClaim", Claim: &ClaimV{Name: "cf", PID: pid, Pool: "pa", CPU: 1000, Mem: 1024, Unmanaged: true}})
	case 1:
		g.emit(Op{Kind: "DelForeignClaim", Name: "cf"})
	}
	g.emit(Op{Kind: "DeliverForeignClaim", Name: "cf"})
}

// stepFault: a reconcile during which one API read fails. Nothing may change in the cache.
func (g *gen) stepFault() {
	before := g.w.cluster.VerifC11Dump()
	var o Op
	switch g.r.Intn(4) {
	case 0:
		if n := g.existingNodeNames(); len(n) > 0 {
			o = Op{Kind: "FaultDeliverNode", Name: kit.Pick(g.r, n), Tag: "list-pods"}
		}
	case 1:
		if n := g.existingNodeNames(); len(n) > 0 {
			o = Op{Kind: "FaultDeliverNode", Name: kit.Pick(g.r, n), Tag: "get-node"}
		}
	case 2:
		if p := kit.SortedKeys(g.w.pods); len(p) > 0 {
			o = Op{Kind: "FaultDeliverPod", Name: kit.Pick(g.r, p), Tag: "get-pod"}
		}
	default:
		// a failing volume lookup is only reached from updateForPod: the pod must be live, bound and its node tracked
		for _, name := range kit.SortedKeys(g.w.pods) {
			p := g.w.pods[name]
			if _, tracked := before.NodeNameToPID[p.Node]; p.Terminal || p.Node == "" || !tracked {
				continue
			}
			for _, v := range p.Vols {
				switch v {
				case "pvc-d", "pvc-j", "pvc-k":
					o = Op{Kind: "FaultDeliverPod", Name: name, Tag: "get-pv"}
				case "pvc-a", "pvc-b", "pvc-c", "pvc-h":
					o = Op{Kind: "FaultDeliverPod", Name: name, Tag: kit.Pick(g.r, []string{"get-sc", "get-pvc"})}
				}
			}
		}
	}
	if o.Kind == "" {
		return
	}
	g.emit(o)
	g.count("fault:" + o.Tag)
	if after := g.w.cluster.VerifC11Dump(); !reflect.DeepEqual(before, after) && g.markFail == "" {
		g.markFail = fmt.Sprintf("%s %s with failing read %q changed the cache", o.Kind, o.Name, o.Tag)
	}
}

func (g *gen) history(n int) {
	if len(g.ops) == 0 && g.r.Chance(3, 4) {
		// warm start: one or two tracked nodes, so that pods have somewhere to be bound
		for k := g.r.Range(1, 2); k > 0; k-- {
			i := g.r.Intn(g.nNodes)
			name := fmt.Sprintf("n%d", i)
			if _, ok := g.w.nodes[name]; ok {
				continue
			}
			pid := fmt.Sprintf("x%d", i)
			if g.poolOf(i) == "" && g.r.Bool() {
				pid = ""
			}
			g.emit(Op{Kind: "SetNode", Node: &NodeV{Name: name, PID: pid, Pool: g.poolOf(i), IType: true, Reg: g.r.Bool(), Init: g.r.Bool(), CPU: caps[i%4][0], Mem: caps[i%4][1]}})
			g.emit(Op{Kind: "DeliverNode", Name: name})
		}
		n += len(g.ops)
	}
	for len(g.ops) < n {
		before := len(g.ops)
		switch c := g.r.Intn(100); {
		case c < 42:
			g.stepDeliver()
		case c < 58:
			g.stepNode()
		case c < 68:
			g.stepClaim()
		case c < 92:
			g.stepPod()
		case c < 94:
			g.stepNominate()
		case c < 95:
			g.stepForeign()
		case c < 96:
			g.stepFault()
		case c < 100 && g.prof.DanglingPV:
			if g.w.pvLate {
				g.emit(Op{Kind: "DeletePV"})
			} else {
				g.emit(Op{Kind: "CreatePV"})
			}
		default:
			g.stepMark()
		}
		if len(g.ops) == before && g.r.Chance(1, 50) {
			return
		}
	}
}

// volTail (profile volheavy): four pods with claims of one CSI driver on one tracked node, then two pod deletions
// delivered through the pod path with no Node reconcile in between (VolumeUsage.DeletePod rebuilds the union twice).
func (g *gen) volTail() {
	d := g.w.cluster.VerifC11Dump()
	node := ""
	for _, n := range g.existingNodeNames() {
		if _, ok := d.NodeNameToPID[n]; ok && trackable(g.w.nodes[n]) && !g.dirty["N/"+n] {
			node = n
			break
		}
	}
	if node == "" {
		return
	}
	for i, pvc := range drv1Pool {
		name := fmt.Sprintf("p%d", i)
		if _, ok := g.w.pods[name]; ok {
			g.emit(Op{Kind: "DelPod", Name: name})
		}
		g.emit(Op{Kind: "DeliverPod", Name: name})
		g.emit(Op{Kind: "SetPod", Pod: &PodV{Name: name, Node: node, CPU: 100, Mem: 64, Vols: []string{pvc}}})
		g.emit(Op{Kind: "DeliverPod", Name: name})
	}
	first := g.r.Intn(4)
	second := (first + 1 + g.r.Intn(3)) % 4
	for _, i := range []int{first, second} {
		name := fmt.Sprintf("p%d", i)
		if g.r.Bool() {
			g.emit(Op{Kind: "DelPod", Name: name})
		} else {
			v := *g.w.pods[name]
			v.Terminal = true
			g.emit(Op{Kind: "SetPod", Pod: &v})
		}
		g.emit(Op{Kind: "DeliverPod", Name: name})
	}
	g.count("br:VolumeUsage.DeletePod:twice-without-node-reconcile")
}

// weakClose delivers every key that changed since its last delivery once, in random order
// ("the latest version of every object has been observed").
func (g *gen) weakClose() {
	for len(g.dirty) > 0 {
		g.emit(deliverOp(kit.Pick(g.r, sortedSet(g.dirty))))
	}
}

// fullRound delivers every key ever mentioned at least once, in random order, with some duplicates.
func (g *gen) fullRound() {
	g.roundStart = len(g.ops)
	defer func() { g.roundEnd = len(g.ops) }()
	keys := sortedSet(g.ever)
	for i := len(keys) - 1; i > 0; i-- {
		j := g.r.Intn(i + 1)
		keys[i], keys[j] = keys[j], keys[i]
	}
	for _, k := range keys {
		g.emit(deliverOp(k))
		if g.r.Chance(1, 6) {
			g.emit(deliverOp(kit.Pick(g.r, keys)))
		}
	}
}
