// Package c02 drives the real TopologyGroup (part A) and the real Scheduler.Solve (part B)
// and writes what they did as Gallina cases for coq/C02/Check.v.
package main

import (
	"fmt"
	"os"
	"sort"
	"strings"

	corev1 "k8s.io/api/core/v1"
	metav1 "k8s.io/apimachinery/pkg/apis/meta/v1"
	"k8s.io/apimachinery/pkg/util/sets"

	provscheduling "sigs.k8s.io/karpenter/pkg/controllers/provisioning/scheduling"
	"sigs.k8s.io/karpenter/pkg/scheduling"

	"verifharness/kit"
)

// ---------------------------------------------------------------- Gallina emitters

func optZ(p *int) string {
	if p == nil {
		return "None"
	}
	return "(Some " + kit.GZ(int64(*p)) + ")"
}

func sorted(xs []string) []string {
	out := append([]string{}, xs...)
	sort.Strings(out)
	return out
}

// gReq emits the raw representation of a real Requirement as Base.Req.mkReq.
func gReq(r *scheduling.Requirement) string {
	compl, gte, lte, _ := r.VerifInternals()
	return fmt.Sprintf("(mkReq %s %s %s %s %s)", kit.GBool(compl), kit.GStrs(sorted(r.Values())), optZ(gte), optZ(lte), optZ(r.MinValues))
}

func gDmap(m map[string]int32) string {
	ks := kit.SortedKeys(m)
	return kit.GListOf(ks, func(k string) string { return kit.GPair(kit.GStr(k), kit.GZ(int64(m[k]))) })
}

// ---------------------------------------------------------------- part A: one TopologyGroup

var tyNames = []string{"TSpread", "TAffinity", "TAnti"}
var tyShort = []string{"spread", "affinity", "anti"}

type gStep struct {
	Op     string           `json:"op"`
	Args   []string         `json:"args,omitempty"`
	Self   bool             `json:"self,omitempty"`
	PD     string           `json:"pod_domains,omitempty"`
	ND     string           `json:"node_domains,omitempty"`
	Result []string         `json:"result,omitempty"`
	Valid  []string         `json:"valid,omitempty"`
	Dom    map[string]int32 `json:"domains"`
}

type gCase struct {
	Kind    string   `json:"kind"`
	Type    string   `json:"type"`
	Key     string   `json:"key"`
	MaxSkew int32    `json:"max_skew"`
	MinDom  *int32   `json:"min_domains,omitempty"`
	Init    []string `json:"init"`
	Steps   []gStep  `json:"steps"`
}

func subset(r *kit.Rand, xs []string, lo, hi int) []string {
	n := r.Range(lo, hi)
	perm := append([]string{}, xs...)
	for i := len(perm) - 1; i > 0; i-- {
		j := r.Intn(i + 1)
		perm[i], perm[j] = perm[j], perm[i]
	}
	if n > len(perm) {
		n = len(perm)
	}
	return sorted(perm[:n])
}

// genReq builds a requirement over the universe through the real constructors / Intersection.
func genReq(r *kit.Rand, key string, univ []string, forNode bool, host bool) *scheduling.Requirement {
	switch k := r.Intn(12); {
	case k < 3:
		return scheduling.NewRequirement(key, corev1.NodeSelectorOpExists)
	case k < 5 || (forNode && host && k < 9):
		return scheduling.NewRequirement(key, corev1.NodeSelectorOpIn, kit.Pick(r, univ))
	case k < 8:
		return scheduling.NewRequirement(key, corev1.NodeSelectorOpIn, subset(r, univ, 1, 3)...)
	case k < 10:
		return scheduling.NewRequirement(key, corev1.NodeSelectorOpNotIn, subset(r, univ, 1, 2)...)
	case k < 11:
		op := kit.Pick(r, []corev1.NodeSelectorOperator{corev1.NodeSelectorOpGt, corev1.NodeSelectorOpLt})
		a := scheduling.NewRequirement(key, op, kit.Pick(r, []string{"0", "1", "2", "3"}))
		if r.Bool() {
			return a.Intersection(scheduling.NewRequirement(key, corev1.NodeSelectorOpNotIn, kit.Pick(r, univ)))
		}
		return a
	default:
		a := scheduling.NewRequirement(key, corev1.NodeSelectorOpIn, subset(r, univ, 1, 3)...)
		return a.Intersection(scheduling.NewRequirement(key, corev1.NodeSelectorOpNotIn, subset(r, univ, 1, 2)...))
	}
}

func runGroup(c *kit.Ctx, r *kit.Rand) {
	ty := r.Intn(3)
	host := r.Chance(1, 4)
	key := corev1.LabelTopologyZone
	univ := []string{"a", "b", "c", "d", "1", "2", "3"}
	if host {
		key = corev1.LabelHostname
		univ = []string{"h1", "h2", "h3", "h4", "1", "2"}
	}
	if r.Chance(1, 8) {
		univ = append(univ, "") // a label value may be empty
	}
	maxSkew := int32(2147483647)
	var minDomains *int32
	if ty == 0 {
		maxSkew = int32(r.Range(1, 3))
		if r.Chance(1, 2) {
			v := int32(r.Range(1, 5))
			minDomains = &v
		}
	}
	init := subset(r, univ, 0, 4)
	dg := provscheduling.NewTopologyDomainGroup()
	for _, d := range init {
		dg.Insert(d)
	}
	sel := &metav1.LabelSelector{MatchLabels: map[string]string{"app": "x"}}
	mkPod := func(self bool) *corev1.Pod {
		v := "y"
		if self {
			v = "x"
		}
		return &corev1.Pod{ObjectMeta: metav1.ObjectMeta{Namespace: "ns", Name: "p", Labels: map[string]string{"app": v}}}
	}
	tg := provscheduling.NewTopologyGroup(provscheduling.TopologyType(ty), key, mkPod(true), sets.New("ns"), sel, maxSkew, minDomains, nil, nil, dg)
	obs := func(result, valid []string) (string, map[string]int32) {
		dom, empty := tg.VerifC02State()
		return fmt.Sprintf("(mkObs %s %s %s %s)", kit.GStrs(sorted(result)), kit.GStrs(sorted(valid)), gDmap(dom), kit.GStrs(empty)), dom
	}
	o0, _ := obs(nil, nil)
	jc := gCase{Kind: "group", Type: tyShort[ty], Key: key, MaxSkew: maxSkew, MinDom: minDomains, Init: init}
	var gsteps []string
	nops := r.Range(4, 14)
	branches := map[string]bool{}
	for i := 0; i < nops; i++ {
		var gop string
		js := gStep{}
		var result, valid []string
		switch k := r.Intn(100); {
		case k < 35:
			ds := subset(r, univ, 1, 2)
			if ty != 2 || r.Chance(2, 3) {
				ds = ds[:1]
			}
			tg.Record(ds...)
			gop, js.Op, js.Args = "(ORecord "+kit.GStrs(ds)+")", "Record", ds
		case k < 45:
			ds := subset(r, univ, 1, 2)
			tg.Register(ds...)
			gop, js.Op, js.Args = "(ORegister "+kit.GStrs(ds)+")", "Register", ds
		case k < 49:
			ds := subset(r, univ, 1, 1)
			tg.Unregister(ds...)
			gop, js.Op, js.Args = "(OUnregister "+kit.GStrs(ds)+")", "Unregister", ds
		default:
			self := r.Chance(2, 3)
			pd := genReq(r, key, univ, false, host)
			nd := genReq(r, key, univ, true, host)
			dom, empty := tg.VerifC02State()
			req, vd := tg.Get(mkPod(self), pd, nd)
			result, valid = req.Values(), vd.UnsortedList()
			gop = fmt.Sprintf("(OGet %s %s %s)", kit.GBool(self), gReq(pd), gReq(nd))
			js.Op, js.Self, js.PD, js.ND, js.Result, js.Valid = "Get", self, pd.String(), nd.String(), sorted(result), sorted(valid)
			// which branch of the real code ran
			b := tyShort[ty] + ":"
			switch {
			case host && len(nd.Values()) == 1:
				b += "hostname-single"
			case nd.Operator() == corev1.NodeSelectorOpIn && (ty != 2 || nd.Len() < len(empty)):
				b += "in-list"
			default:
				b += "map-scan"
			}
			if len(result) == 0 {
				b += ":none"
			} else if ty == 1 {
				matched := false
				for _, d := range result {
					if dom[d] > 0 {
						matched = true
					}
				}
				if !matched {
					b += fmt.Sprintf(":bootstrap-%d", len(result))
				} else {
					b += ":match"
				}
			} else {
				b += ":some"
			}
			if ty == 0 && minDomains != nil && !host {
				n := int32(0)
				for d := range dom {
					if pd.Has(d) {
						n++
					}
				}
				if n < *minDomains {
					b += ":min-domains-zero"
				}
			}
			c.Count("A:" + b)
			branches[b] = true
		}
		o, dom := obs(result, valid)
		js.Dom = dom
		jc.Steps = append(jc.Steps, js)
		gsteps = append(gsteps, "("+gop+", "+o+")")
	}
	mind := "None"
	if minDomains != nil {
		mind = "(Some " + kit.GZ(int64(*minDomains)) + ")"
	}
	term := fmt.Sprintf("CaseG %s %s %s %s %s %s %s", tyNames[ty], kit.GBool(host), kit.GZ(int64(maxSkew)), mind, kit.GStrs(init), o0, kit.GList(gsteps))
	keys := kit.SortedKeys(branches)
	c.AddCase(term, jc, strings.Join(keys, ","))
}

func main() {
	c := kit.Parse("C02", os.Args[1:])
	nGroup, nSolve := 700, 350
	if c.Thorough() {
		nGroup, nSolve = 6000, 2500
	}
	dbg := os.Getenv("C02_DEBUG") // case id to run alone with a dump (development aid)
	for i := 0; i < nGroup; i++ {
		f := c.Rand.Fork()
		if dbg == "" {
			runGroup(c, f)
		}
	}
	if dbg == "" {
		for _, sc := range corpus() {
			c.Count("B:corpus")
			runScenario(c, sc)
		}
	}
	for i := 0; i < nSolve; i++ {
		f := c.Rand.Fork()
		if dbg == "" || dbg == fmt.Sprint(nGroup+len(corpus())+i) {
			debugDump = dbg != ""
			runSolve(c, f, i)
		}
	}
	c.Meta.Rule = "A: random op sequences (Register/Record/Unregister/Get) on a real TopologyGroup, requirements over a 7-value universe incl. numerals, bounds, complements and the empty label value; " +
		"B: real Provisioner.NewScheduler + Scheduler.Solve on generated clusters (pools with/without zone requirements and taints, bound pods with and without constraints, batches of deployment-shaped pods with required/preferred affinity, anti-affinity, spread)"
	c.Meta.Corr = []string{
		"TopologyGroup.Register/Record/Unregister == Model.step (domains, emptyDomains exact)",
		"TopologyGroup.Get(spread) in Model.allowed_spread (domain among the minimal candidates, validDomains exact)",
		"TopologyGroup.Get(affinity) in Model.allowed_affinity (options exact, bootstrap picks any allowed pair)",
		"TopologyGroup.Get(anti-affinity) == Model.anti_opts",
		"Scheduler.Solve final placements satisfy Spec.interpod_ok_b",
	}
	c.Meta.Exhaustive = false
	c.Meta.Extra = map[string]interface{}{"assumptions": []string{
		"int32 domain counters are modelled in Z without wrap-around (2^31 pods per domain are out of reach)",
		"one method call = one step; goroutine interleavings inside parallelizeUntil cannot be exhibited by the model (Solve is run with 1 and 4 workers)",
		"proved: per-group invariants for all op sequences and Topology-level end-state theorems for all admit/update/register traces (group identity structural, selects()/nodeFilter abstract); the translation of a Kubernetes world into that abstract state is checked by the oracle on the real Solve, not proved",
		"final-state spread oracle: existential over the last carrier per domain, each candidate judged in its OWN node-eligibility view; new pods that match but do not carry the constraint are left out of the count of that domain; a carrier whose eligibility view is undecided in the end state is accepted as witness",
		"pods placed on an existing node that lacks the topology label are in no domain and are not judged (counted as observation buckets)",
		"cluster-level default topology spread constraints (defaultconstraints.go) are off (no --scheduler-config)",
	}}
	c.Finish("From KV Require Import Base.Req C02.Model C02.Spec C02.Check.", "case", "check_all", map[bool]int{false: 300, true: 800}[c.Thorough()])
}
