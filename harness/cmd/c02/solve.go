package main

import (
	"context"
	"fmt"
	"os"
	"sort"
	"strings"
	"sync/atomic"
	"time"

	"github.com/samber/lo"
	corev1 "k8s.io/api/core/v1"
	apierrors "k8s.io/apimachinery/pkg/api/errors"
	"k8s.io/apimachinery/pkg/api/resource"
	metav1 "k8s.io/apimachinery/pkg/apis/meta/v1"
	"k8s.io/apimachinery/pkg/types"
	"k8s.io/apimachinery/pkg/util/sets"
	"k8s.io/client-go/tools/record"
	clock "k8s.io/utils/clock/testing"
	"sigs.k8s.io/controller-runtime/pkg/client"
	"sigs.k8s.io/controller-runtime/pkg/client/interceptor"

	v1 "sigs.k8s.io/karpenter/pkg/apis/v1"
	"sigs.k8s.io/karpenter/pkg/cloudprovider"
	"sigs.k8s.io/karpenter/pkg/cloudprovider/fake"
	"sigs.k8s.io/karpenter/pkg/controllers/dynamicresources/deviceallocation"
	"sigs.k8s.io/karpenter/pkg/controllers/provisioning"
	provscheduling "sigs.k8s.io/karpenter/pkg/controllers/provisioning/scheduling"
	"sigs.k8s.io/karpenter/pkg/controllers/state"
	"sigs.k8s.io/karpenter/pkg/events"
	"sigs.k8s.io/karpenter/pkg/scheduling"
	"sigs.k8s.io/karpenter/pkg/state/virtualpods"
	"sigs.k8s.io/karpenter/pkg/test"

	"verifharness/kit"
)

// ------------------------------------------------------------------ scenario description (also the replay input)

const (
	zoneKey = corev1.LabelTopologyZone
	hostKey = corev1.LabelHostname
	ctKey   = v1.CapacityTypeLabelKey
	teamKey = "example.com/team"
	taintK  = "dedicated"

	kfAffinityTwoDomains = "self-affinity-bootstrap-leaves-node-undetermined"
	kfNilSelector        = "required-affinity-with-nil-selector-follows-any-pod"
	kfUpdateError        = "update-error-during-relaxation-drops-topology-ownership"
	kfRelaxGroup         = "spread-group-created-during-relaxation-misses-placed-pods"
	kfDupValues          = "selector-duplicate-values-hash-collision"
	kfFilterHash         = "spread-group-hash-ignores-node-filter-values"
	kfUnlabelledNode     = "pod-counted-in-domain-of-unlabelled-node"
)

var allZones = []string{"z1", "z2", "z3"}
var interestKeys = []string{zoneKey, ctKey, teamKey, hostKey}

type sExpr struct {
	Key  string   `json:"key"`
	Op   string   `json:"op"`
	Vals []string `json:"values,omitempty"`
}
type sSel struct {
	Nil   bool              `json:"nil,omitempty"`
	ML    map[string]string `json:"matchLabels,omitempty"`
	Exprs []sExpr           `json:"matchExpressions,omitempty"`
}
type sTerm struct {
	Key        string   `json:"topologyKey"`
	Sel        sSel     `json:"selector"`
	Namespaces []string `json:"namespaces,omitempty"`
	NsSel      *sSel    `json:"namespaceSelector,omitempty"`
	Preferred  bool     `json:"preferred,omitempty"`
}
type sSpread struct {
	Key        string   `json:"topologyKey"`
	MaxSkew    int32    `json:"maxSkew"`
	MinDomains *int32   `json:"minDomains,omitempty"`
	Sel        sSel     `json:"selector"`
	MLK        []string `json:"matchLabelKeys,omitempty"`
	TaintHonor *bool    `json:"nodeTaintsPolicyHonor,omitempty"`
	AffHonor   *bool    `json:"nodeAffinityPolicyHonor,omitempty"`
	Anyway     bool     `json:"scheduleAnyway,omitempty"`
}
type sPod struct {
	Name      string            `json:"name"`
	NS        string            `json:"ns"`
	Labels    map[string]string `json:"labels"`
	CPU       string            `json:"cpu"`
	NodeSel   map[string]string `json:"nodeSelector,omitempty"`
	ZoneIn    []string          `json:"zoneIn,omitempty"`
	ZoneNotIn []string          `json:"zoneNotIn,omitempty"`
	Tolerates bool              `json:"tolerates,omitempty"`
	Anti      []sTerm           `json:"antiAffinity,omitempty"`
	Aff       []sTerm           `json:"affinity,omitempty"`
	Spread    []sSpread         `json:"spread,omitempty"`
	Node      string            `json:"node,omitempty"` // bound pods
	// further input dimensions (coverage audit)
	ZoneTerms   [][]string `json:"zoneOrTerms,omitempty"`   // required node affinity with several OR-ed terms (zone In ..)
	PrefZone    []string   `json:"preferredZone,omitempty"` // preferred node affinity
	Phase       string     `json:"phase,omitempty"`         // bound pods: "Succeeded"
	Terminating bool       `json:"terminating,omitempty"`   // bound pods with a deletion timestamp
	Resched     bool       `json:"rescheduled,omitempty"`   // bound pod of a candidate node that is part of the batch
	// bound pods: an earlier incarnation under the same name (other UID) carried PrevAnti; cluster state saw
	// UpdatePod(old) and then UpdatePod(new) without a delete in between. Only the new object exists in the API.
	Recreated bool    `json:"recreated,omitempty"`
	PrevAnti  []sTerm `json:"previousIncarnationAntiAffinity,omitempty"`
}
type sNode struct {
	Name    string            `json:"name"`
	Labels  map[string]string `json:"labels"`
	Tainted bool              `json:"tainted,omitempty"`
	NoHost    bool `json:"noHostnameLabel,omitempty"`
	Candidate bool `json:"candidate,omitempty"` // being removed: excluded from the scheduler's nodes, its pods are rescheduled
	InFlight  bool `json:"inFlightNodeClaim,omitempty"`
}
type sPool struct {
	Name    string   `json:"name"`
	Zones   []string `json:"zones,omitempty"`
	Team    string   `json:"team,omitempty"` // "", "in", "label"
	Tainted bool     `json:"tainted,omitempty"`
	Weight  int32    `json:"weight,omitempty"`
	ZoneNotIn        []string `json:"zoneNotIn,omitempty"`
	PreferNoSchedule bool     `json:"preferNoSchedule,omitempty"` // the taint's effect
}
type sCase struct {
	Kind      string                         `json:"kind"`
	KfKey     string                         `json:"kf_key,omitempty"`
	Pools     []sPool                        `json:"pools"`
	Nodes     []sNode                        `json:"nodes"`
	Bound     []sPod                         `json:"bound_pods"`
	Batch     []sPod                         `json:"batch"`
	Workers   int                            `json:"workers"`
	IgnorePrefs  bool     `json:"ignorePreferences,omitempty"`
	Fault        string   `json:"fault,omitempty"`
	CatalogZones []string `json:"catalogZones,omitempty"`
	SchedulerErr string   `json:"scheduler_error,omitempty"`
	Placement map[string]string              `json:"placement"`
	NewNodes  map[string]map[string][]string `json:"new_nodes"`
	Failed    []string                       `json:"unschedulable,omitempty"`
}

// ------------------------------------------------------------------ k8s objects from the description

func (s sSel) k8s() *metav1.LabelSelector {
	if s.Nil {
		return nil
	}
	out := &metav1.LabelSelector{MatchLabels: s.ML}
	for _, e := range s.Exprs {
		out.MatchExpressions = append(out.MatchExpressions, metav1.LabelSelectorRequirement{Key: e.Key, Operator: metav1.LabelSelectorOperator(e.Op), Values: e.Vals})
	}
	return out
}

func (t sTerm) k8s() corev1.PodAffinityTerm {
	out := corev1.PodAffinityTerm{TopologyKey: t.Key, LabelSelector: t.Sel.k8s(), Namespaces: t.Namespaces}
	if t.NsSel != nil {
		out.NamespaceSelector = t.NsSel.k8s()
		if out.NamespaceSelector == nil {
			out.NamespaceSelector = &metav1.LabelSelector{}
		}
	}
	return out
}

func policy(b *bool) *corev1.NodeInclusionPolicy {
	if b == nil {
		return nil
	}
	p := corev1.NodeInclusionPolicyIgnore
	if *b {
		p = corev1.NodeInclusionPolicyHonor
	}
	return &p
}

func (sp sPod) k8s() *corev1.Pod {
	p := &corev1.Pod{
		ObjectMeta: metav1.ObjectMeta{Name: sp.Name, Namespace: sp.NS, UID: types.UID("uid-" + sp.NS + "-" + sp.Name), Labels: sp.Labels,
			CreationTimestamp: metav1.Time{Time: time.Unix(1_700_000_000, 0)}},
		Spec: corev1.PodSpec{
			NodeSelector: sp.NodeSel,
			Containers: []corev1.Container{{Name: "c", Image: "img", Resources: corev1.ResourceRequirements{
				Requests: corev1.ResourceList{corev1.ResourceCPU: resource.MustParse(sp.CPU)}}}},
		},
	}
	if sp.Tolerates {
		p.Spec.Tolerations = []corev1.Toleration{{Key: taintK, Operator: corev1.TolerationOpExists}}
	}
	aff := &corev1.Affinity{}
	used := false
	var exprs []corev1.NodeSelectorRequirement
	if len(sp.ZoneIn) > 0 {
		exprs = append(exprs, corev1.NodeSelectorRequirement{Key: zoneKey, Operator: corev1.NodeSelectorOpIn, Values: sp.ZoneIn})
	}
	if len(sp.ZoneNotIn) > 0 {
		exprs = append(exprs, corev1.NodeSelectorRequirement{Key: zoneKey, Operator: corev1.NodeSelectorOpNotIn, Values: sp.ZoneNotIn})
	}
	if len(sp.ZoneTerms) > 0 {
		used = true
		var terms []corev1.NodeSelectorTerm
		for _, zs := range sp.ZoneTerms {
			terms = append(terms, corev1.NodeSelectorTerm{MatchExpressions: []corev1.NodeSelectorRequirement{{Key: zoneKey, Operator: corev1.NodeSelectorOpIn, Values: zs}}})
		}
		aff.NodeAffinity = &corev1.NodeAffinity{RequiredDuringSchedulingIgnoredDuringExecution: &corev1.NodeSelector{NodeSelectorTerms: terms}}
	} else if len(exprs) > 0 {
		used = true
		aff.NodeAffinity = &corev1.NodeAffinity{RequiredDuringSchedulingIgnoredDuringExecution: &corev1.NodeSelector{
			NodeSelectorTerms: []corev1.NodeSelectorTerm{{MatchExpressions: exprs}}}}
	}
	if len(sp.PrefZone) > 0 {
		used = true
		if aff.NodeAffinity == nil {
			aff.NodeAffinity = &corev1.NodeAffinity{}
		}
		aff.NodeAffinity.PreferredDuringSchedulingIgnoredDuringExecution = []corev1.PreferredSchedulingTerm{{Weight: 10,
			Preference: corev1.NodeSelectorTerm{MatchExpressions: []corev1.NodeSelectorRequirement{{Key: zoneKey, Operator: corev1.NodeSelectorOpIn, Values: sp.PrefZone}}}}}
	}
	for _, t := range sp.Anti {
		used = true
		if aff.PodAntiAffinity == nil {
			aff.PodAntiAffinity = &corev1.PodAntiAffinity{}
		}
		if t.Preferred {
			aff.PodAntiAffinity.PreferredDuringSchedulingIgnoredDuringExecution = append(aff.PodAntiAffinity.PreferredDuringSchedulingIgnoredDuringExecution,
				corev1.WeightedPodAffinityTerm{Weight: 10, PodAffinityTerm: t.k8s()})
		} else {
			aff.PodAntiAffinity.RequiredDuringSchedulingIgnoredDuringExecution = append(aff.PodAntiAffinity.RequiredDuringSchedulingIgnoredDuringExecution, t.k8s())
		}
	}
	for _, t := range sp.Aff {
		used = true
		if aff.PodAffinity == nil {
			aff.PodAffinity = &corev1.PodAffinity{}
		}
		if t.Preferred {
			aff.PodAffinity.PreferredDuringSchedulingIgnoredDuringExecution = append(aff.PodAffinity.PreferredDuringSchedulingIgnoredDuringExecution,
				corev1.WeightedPodAffinityTerm{Weight: 10, PodAffinityTerm: t.k8s()})
		} else {
			aff.PodAffinity.RequiredDuringSchedulingIgnoredDuringExecution = append(aff.PodAffinity.RequiredDuringSchedulingIgnoredDuringExecution, t.k8s())
		}
	}
	if used {
		p.Spec.Affinity = aff
	}
	for _, s := range sp.Spread {
		wu := corev1.DoNotSchedule
		if s.Anyway {
			wu = corev1.ScheduleAnyway
		}
		p.Spec.TopologySpreadConstraints = append(p.Spec.TopologySpreadConstraints, corev1.TopologySpreadConstraint{
			TopologyKey: s.Key, MaxSkew: s.MaxSkew, MinDomains: s.MinDomains, LabelSelector: s.Sel.k8s(), MatchLabelKeys: s.MLK,
			WhenUnsatisfiable: wu, NodeTaintsPolicy: policy(s.TaintHonor), NodeAffinityPolicy: policy(s.AffHonor)})
	}
	if sp.Node != "" {
		p.Spec.NodeName = sp.Node
		p.Status.Phase = corev1.PodRunning
		if sp.Phase != "" {
			p.Status.Phase = corev1.PodPhase(sp.Phase)
		}
		p.Status.Conditions = []corev1.PodCondition{{Type: corev1.PodScheduled, Status: corev1.ConditionTrue}}
	} else {
		p.Status.Phase = corev1.PodPending
		p.Status.Conditions = []corev1.PodCondition{{Type: corev1.PodScheduled, Reason: corev1.PodReasonUnschedulable, Status: corev1.ConditionFalse}}
	}
	return p
}

// ------------------------------------------------------------------ Gallina emitters for the final state

func gLabels(m map[string]string) string {
	return kit.GListOf(kit.SortedKeys(m), func(k string) string { return kit.GPair(kit.GStr(k), kit.GStr(m[k])) })
}

func gSel(s sSel) string {
	if s.Nil {
		return "None"
	}
	var es []string
	for _, k := range kit.SortedKeys(s.ML) {
		es = append(es, fmt.Sprintf("(%s, In, [%s])", kit.GStr(k), kit.GStr(s.ML[k])))
	}
	for _, e := range s.Exprs {
		es = append(es, fmt.Sprintf("(%s, %s, %s)", kit.GStr(e.Key), e.Op, kit.GStrs(e.Vals)))
	}
	return "(Some " + kit.GList(es) + ")"
}

func gTerm(t sTerm) string {
	nssel := "None"
	if t.NsSel != nil {
		nssel = gSel(*t.NsSel)
	}
	return fmt.Sprintf("(mkTerm %s %s %s %s)", kit.GStr(t.Key), kit.GStrs(t.Namespaces), nssel, gSel(t.Sel))
}

func gSpread(s sSpread) string {
	mind := "None"
	if s.MinDomains != nil {
		mind = "(Some " + kit.GZ(int64(*s.MinDomains)) + ")"
	}
	// defaults: nodeTaintsPolicy Ignore, nodeAffinityPolicy Honor
	th, ah := false, true
	if s.TaintHonor != nil {
		th = *s.TaintHonor
	}
	if s.AffHonor != nil {
		ah = *s.AffHonor
	}
	return fmt.Sprintf("(mkSpread %s %s %s %s %s %s %s)", kit.GStr(s.Key), kit.GZ(int64(s.MaxSkew)), mind, gSel(s.Sel), kit.GStrs(s.MLK), kit.GBool(th), kit.GBool(ah))
}

func gPod(sp sPod, node string, isNew bool, reqs scheduling.Requirements) string {
	if reqs == nil {
		reqs = scheduling.NewStrictPodRequirements(sp.k8s())
	}
	var rs []string
	for _, k := range sorted(reqs.Keys().UnsortedList()) {
		rs = append(rs, kit.GPair(kit.GStr(k), gReq(reqs.Get(k))))
	}
	var tol []string
	if sp.Tolerates {
		tol = []string{taintK}
	}
	req := func(ts []sTerm) []sTerm { return lo.Filter(ts, func(t sTerm, _ int) bool { return !t.Preferred }) }
	dns := lo.Filter(sp.Spread, func(s sSpread, _ int) bool { return !s.Anyway })
	return fmt.Sprintf("(mkPod %s %s %s %s %s %s %s %s %s %s)", kit.GStr(sp.Name), kit.GStr(sp.NS), gLabels(sp.Labels), kit.GStr(node), kit.GBool(isNew),
		kit.GList(rs), kit.GStrs(tol), kit.GListOf(req(sp.Anti), gTerm), kit.GListOf(req(sp.Aff), gTerm), kit.GListOf(dns, gSpread))
}

func gNode(name string, isNew bool, lab map[string][]string, tainted bool) string {
	var taints []string
	if tainted {
		taints = []string{taintK}
	}
	ls := kit.GListOf(kit.SortedKeys(lab), func(k string) string { return kit.GPair(kit.GStr(k), kit.GStrs(sorted(lab[k]))) })
	return fmt.Sprintf("(mkNode %s %s %s %s)", kit.GStr(name), kit.GBool(isNew), ls, kit.GStrs(taints))
}

// ------------------------------------------------------------------ generator

func pickSel(r *kit.Rand, target string) sSel {
	switch k := r.Intn(20); {
	case k < 13:
		return sSel{ML: map[string]string{"app": target}}
	case k < 15:
		vals := sorted([]string{target, kit.Pick(r, []string{"a", "b", "c"})})
		if !extraShapes {
			vals = lo.Uniq(vals)
		}
		return sSel{Exprs: []sExpr{{Key: "app", Op: "In", Vals: vals}}}
	case k < 16:
		return sSel{Exprs: []sExpr{{Key: "app", Op: "NotIn", Vals: []string{kit.Pick(r, []string{"a", "b", "c"})}}}}
	case k < 17:
		return sSel{Exprs: []sExpr{{Key: "app", Op: "Exists"}}}
	case k < 18:
		if r.Bool() {
			return sSel{ML: map[string]string{"app": target}, Exprs: []sExpr{{Key: "tier", Op: "DoesNotExist"}}}
		}
		return sSel{} // empty selector: every pod
	case k < 19:
		return sSel{Nil: true}
	default:
		return sSel{ML: map[string]string{"app": target, "tier": "t"}}
	}
}

func pickNs(r *kit.Rand, t *sTerm) {
	switch k := r.Intn(12); {
	case k < 8:
	case k < 9:
		t.Namespaces = []string{"ns2"}
	case k < 10:
		t.Namespaces = []string{"ns1", "ns2"}
	case k < 11:
		t.NsSel = &sSel{ML: map[string]string{"team": "b"}}
	default:
		t.NsSel = &sSel{}
	}
}

func ptr[T any](v T) *T { return &v }

func genScenario(r *kit.Rand) sCase {
	sc := sCase{Kind: "solve"}
	// pools
	p1 := sPool{Name: "pool-a", Weight: 10}
	if r.Chance(1, 3) {
		p1.Zones = subset(r, allZones, 1, 3)
	}
	if len(p1.Zones) == 0 && r.Chance(1, 8) {
		p1.ZoneNotIn = subset(r, allZones, 1, 1)
	}
	p1.Team = kit.Pick(r, []string{"", "", "in", "label"})
	sc.Pools = []sPool{p1}
	if r.Chance(1, 6) {
		sc.CatalogZones = []string{"z1", "z2"} // z3 is then only known through existing nodes
	}
	sc.IgnorePrefs = r.Chance(1, 6)
	if r.Chance(1, 10) {
		faults := []string{"new:list-pods", "new:list-namespaces", "new:get-node"}
		if solveFaults {
			faults = append(faults, "solve:list-namespaces", "solve:list-pods")
		}
		sc.Fault = kit.Pick(r, faults)
	}
	if r.Chance(1, 3) {
		p2 := sPool{Name: "pool-b", Weight: 1, Tainted: r.Chance(1, 2), Team: kit.Pick(r, []string{"", "label"})}
		if r.Chance(1, 2) {
			p2.Zones = subset(r, allZones, 1, 2)
		}
		p2.PreferNoSchedule = p2.Tainted && r.Chance(1, 2)
		sc.Pools = append(sc.Pools, p2)
	}
	// existing nodes
	nNodes := kit.Pick(r, []int{0, 0, 1, 2, 3})
	for i := 0; i < nNodes; i++ {
		name := fmt.Sprintf("node-%d", i)
		lab := map[string]string{hostKey: name, ctKey: "on-demand"}
		if z := kit.Pick(r, allZones); !r.Chance(1, 8) || !extraShapes {
			lab[zoneKey] = z
		}
		if r.Chance(1, 3) {
			lab[teamKey] = kit.Pick(r, []string{"x", "y"})
		}
		n := sNode{Name: name, Labels: lab, Tainted: r.Chance(1, 8)}
		if r.Chance(1, 8) {
			n.NoHost = true
			delete(lab, hostKey)
		}
		sc.Nodes = append(sc.Nodes, n)
	}
	if r.Chance(1, 5) {
		lab := map[string]string{ctKey: "on-demand", zoneKey: kit.Pick(r, allZones), v1.NodePoolLabelKey: "pool-a", corev1.LabelInstanceTypeStable: "large"}
		if p1.Team == "label" {
			lab[teamKey] = "x"
		}
		sc.Nodes = append(sc.Nodes, sNode{Name: "claim-0", Labels: lab, InFlight: true})
	}
	real := lo.Filter(sc.Nodes, func(n sNode, _ int) bool { return !n.InFlight })
	candidate := ""
	if len(real) > 0 && r.Chance(1, 5) {
		candidate = kit.Pick(r, real).Name
		for i := range sc.Nodes {
			sc.Nodes[i].Candidate = sc.Nodes[i].Name == candidate
		}
	}
	apps := []string{"a", "b", "c"}
	// bound pods
	if nNodes > 0 {
		nb := r.Range(0, 4)
		for i := 0; i < nb; i++ {
			app := kit.Pick(r, apps)
			bp := sPod{Name: fmt.Sprintf("bound-%d", i), NS: kit.Pick(r, []string{"ns1", "ns1", "ns1", "ns2"}), Labels: map[string]string{"app": app}, CPU: "100m",
				Node: kit.Pick(r, real).Name, Tolerates: true}
			switch k := r.Intn(30); {
			case k < 2:
				bp.Phase = "Succeeded"
			case k < 4:
				bp.Terminating = true
			case k < 6:
				bp.Node = "gone-node" // leaked: its node no longer exists
			default:
				bp.Resched = bp.Node == candidate
			}
			if r.Chance(1, 3) {
				bp.Labels["rev"] = kit.Pick(r, []string{"1", "2"})
			}
			if r.Chance(1, 3) {
				t := sTerm{Key: kit.Pick(r, []string{zoneKey, hostKey}), Sel: pickSel(r, kit.Pick(r, apps))}
				pickNs(r, &t)
				bp.Anti = []sTerm{t}
			}
			if r.Chance(1, 4) {
				// re-created under the same name: the old incarnation had another term, the same term, or none
				bp.Recreated = true
				switch r.Intn(4) {
				case 0:
					bp.PrevAnti = bp.Anti
				case 1:
				default:
					bp.PrevAnti = []sTerm{{Key: kit.Pick(r, []string{zoneKey, hostKey}), Sel: pickSel(r, kit.Pick(r, apps))}}
				}
			}
			sc.Bound = append(sc.Bound, bp)
		}
	}
	// batch: deployments
	nDep := r.Range(1, 3)
	family := r.Intn(8) // stress one family per case, the rest mixed
	for d := 0; d < nDep; d++ {
		app := apps[d]
		replicas := r.Range(1, 4)
		tmpl := sPod{NS: kit.Pick(r, []string{"ns1", "ns1", "ns1", "ns2"}), Labels: map[string]string{"app": app}, CPU: kit.Pick(r, []string{"300m", "900m", "1700m", "2500m"})}
		if r.Chance(1, 4) {
			tmpl.Labels["tier"] = "t"
		}
		if r.Chance(1, 5) {
			tmpl.Labels["rev"] = kit.Pick(r, []string{"1", "2"})
		}
		other := apps[(d+1+r.Intn(2))%3]
		target := func() string {
			if r.Chance(2, 3) {
				return app
			}
			return other
		}
		topo := func() string { return kit.Pick(r, []string{zoneKey, zoneKey, hostKey, hostKey, ctKey}) }
		kinds := []int{}
		switch {
		case family < 2 && d == 0:
			kinds = []int{0}
		case family < 4 && d == 0:
			kinds = []int{1}
		case family < 6 && d == 0:
			kinds = []int{2}
		default:
			for k := 0; k < 3; k++ {
				if r.Chance(1, 3) {
					kinds = append(kinds, k)
				}
			}
		}
		for _, k := range kinds {
			switch k {
			case 0:
				t := sTerm{Key: topo(), Sel: pickSel(r, target()), Preferred: r.Chance(1, 6)}
				pickNs(r, &t)
				tmpl.Anti = append(tmpl.Anti, t)
				if r.Chance(1, 5) {
					tmpl.Anti = append(tmpl.Anti, sTerm{Key: topo(), Sel: pickSel(r, target())})
				}
			case 1:
				t := sTerm{Key: kit.Pick(r, []string{zoneKey, zoneKey, hostKey, ctKey}), Sel: pickSel(r, target()), Preferred: r.Chance(1, 6)}
				pickNs(r, &t)
				tmpl.Aff = append(tmpl.Aff, t)
			case 2:
				s := sSpread{Key: kit.Pick(r, []string{zoneKey, zoneKey, zoneKey, hostKey, ctKey}), MaxSkew: int32(r.Range(1, 2)), Sel: sSel{ML: map[string]string{"app": app}}, Anyway: r.Chance(1, 6)}
				if r.Chance(1, 3) {
					s.MinDomains = ptr(int32(r.Range(1, 4)))
				}
				if r.Chance(1, 4) {
					s.MLK = []string{"rev"}
					if _, ok := tmpl.Labels["rev"]; !ok && r.Chance(3, 4) {
						tmpl.Labels["rev"] = kit.Pick(r, []string{"1", "2"})
					}
				}
				if r.Chance(1, 3) {
					// Karpenter treats PreferNoSchedule taints as intolerable, Kubernetes' nodeTaintsPolicy ignores them: keep the
					// two apart by not honouring taints when such a pool exists
					s.TaintHonor = ptr(r.Bool() && !lo.SomeBy(sc.Pools, func(p sPool) bool { return p.PreferNoSchedule }))
				}
				switch k := r.Intn(16); {
				case k < 2:
					s.Sel = sSel{Exprs: []sExpr{{Key: "app", Op: "In", Vals: []string{app}}}}
				case k < 3 && len(s.MLK) == 0:
					s.Sel = sSel{Nil: true}
				}
				if r.Chance(1, 3) {
					s.AffHonor = ptr(r.Bool())
				}
				tmpl.Spread = append(tmpl.Spread, s)
				if r.Chance(1, 4) {
					tmpl.Spread = append(tmpl.Spread, sSpread{Key: hostKey, MaxSkew: int32(r.Range(1, 2)), Sel: sSel{ML: map[string]string{"app": app}}})
				}
			}
		}
		switch r.Intn(12) {
		case 4:
			first := subset(r, allZones, 1, 1)
			if r.Bool() {
				first = []string{"z9"} // cannot be satisfied: the term is relaxed away
			}
			tmpl.ZoneTerms = [][]string{first, subset(r, allZones, 1, 2)}
		case 5:
			tmpl.PrefZone = []string{kit.Pick(r, []string{"z1", "z2", "z3", "z9"})}
		case 0:
			tmpl.NodeSel = map[string]string{zoneKey: kit.Pick(r, allZones)}
		case 1:
			tmpl.ZoneIn = subset(r, allZones, 1, 2)
		case 2:
			tmpl.ZoneNotIn = subset(r, allZones, 1, 1)
		case 3:
			if sc.Pools[0].Team != "" {
				tmpl.NodeSel = map[string]string{teamKey: "x"}
			}
		}
		// a PREFERRED zone on a pod whose zone spread / required zone self-affinity must not be judged inside that zone only:
		// point it at the zone of an existing node (often the one already holding matching bound pods, i.e. at the skew limit)
		zoneTopo := lo.SomeBy(tmpl.Spread, func(s sSpread) bool { return s.Key == zoneKey && !s.Anyway }) ||
			lo.SomeBy(tmpl.Aff, func(t sTerm) bool { return t.Key == zoneKey && !t.Preferred })
		if zoneTopo && len(tmpl.ZoneTerms) == 0 && r.Chance(1, 2) {
			var zs []string
			for _, bp := range sc.Bound {
				if bp.Labels["app"] == app && bp.NS == tmpl.NS {
					for _, n := range real {
						if z, ok := n.Labels[zoneKey]; ok && n.Name == bp.Node {
							zs = append(zs, z)
						}
					}
				}
			}
			for _, n := range real {
				if z, ok := n.Labels[zoneKey]; ok {
					zs = append(zs, z)
				}
			}
			if len(zs) > 0 {
				tmpl.PrefZone = []string{kit.Pick(r, zs[:min(len(zs), 2)])}
				tmpl.CPU = kit.Pick(r, []string{"300m", "900m"}) // small enough for an existing node
			}
		}
		tmpl.Tolerates = r.Chance(1, 3)
		for i := 0; i < replicas; i++ {
			p := tmpl
			p.Name = fmt.Sprintf("%s-%d", app, i)
			p.Labels = lo.Assign(tmpl.Labels)
			// a second replica set of the same deployment shape pinned elsewhere (same constraints, other node selector)
			// with a spread constraint only when the template also carries a DoNotSchedule zone spread: then every counted
			// pod's node has a collapsed zone when it is committed, so eligibility w.r.t. a zone restriction never changes later
			zoneDNS := lo.SomeBy(tmpl.Spread, func(s sSpread) bool { return s.Key == zoneKey && !s.Anyway })
			if i >= 2 && r.Chance(1, 4) && tmpl.NodeSel == nil && len(tmpl.ZoneIn) == 0 && len(tmpl.ZoneTerms) == 0 && (len(tmpl.Spread) == 0 || (extraShapes && zoneDNS)) {
				p.ZoneIn = subset(r, allZones, 1, 2)
			}
			sc.Batch = append(sc.Batch, p)
		}
	}
	sc.Workers = kit.Pick(r, []int{1, 1, 4})
	return sc
}

// ------------------------------------------------------------------ run one scenario on the real scheduler

func buildCatalog(zones []string) []*cloudprovider.InstanceType {
	if len(zones) == 0 {
		zones = allZones
	}
	mk := func(name string, cpu, mem string, pods string) *cloudprovider.InstanceType {
		var ofs []cloudprovider.Offering
		for _, z := range zones {
			for _, ct := range []string{"on-demand", "spot"} {
				ofs = append(ofs, cloudprovider.Offering{Available: true, Price: fake.PriceFromResources(corev1.ResourceList{corev1.ResourceCPU: resource.MustParse(cpu)}),
					Requirements: scheduling.NewLabelRequirements(map[string]string{ctKey: ct, zoneKey: z})})
			}
		}
		return fake.NewInstanceType(name, fake.WithResources(corev1.ResourceList{corev1.ResourceCPU: resource.MustParse(cpu), corev1.ResourceMemory: resource.MustParse(mem), corev1.ResourcePods: resource.MustParse(pods)}),
			fake.WithOfferings(ofs...))
	}
	return []*cloudprovider.InstanceType{mk("small", "2", "8Gi", "10"), mk("large", "4", "16Gi", "20")}
}

func poolReqs(p sPool) (reqs []v1.NodeSelectorRequirementWithMinValues, labels map[string]string) {
	labels = map[string]string{}
	if len(p.Zones) > 0 {
		reqs = append(reqs, v1.NodeSelectorRequirementWithMinValues{Key: zoneKey, Operator: corev1.NodeSelectorOpIn, Values: p.Zones})
	}
	if len(p.ZoneNotIn) > 0 {
		reqs = append(reqs, v1.NodeSelectorRequirementWithMinValues{Key: zoneKey, Operator: corev1.NodeSelectorOpNotIn, Values: p.ZoneNotIn})
	}
	switch p.Team {
	case "in":
		reqs = append(reqs, v1.NodeSelectorRequirementWithMinValues{Key: teamKey, Operator: corev1.NodeSelectorOpIn, Values: []string{"x", "y"}})
	case "label":
		labels[teamKey] = "x"
	}
	return
}

// universe mirrors what the pools can provision: key -> domain -> taint sets
func universe(sc sCase) map[string]map[string][][]string {
	u := map[string]map[string][][]string{}
	add := func(k, d string, tainted bool) {
		if u[k] == nil {
			u[k] = map[string][][]string{}
		}
		ts := []string{}
		if tainted {
			ts = []string{taintK}
		}
		u[k][d] = append(u[k][d], ts)
	}
	catalog := sc.CatalogZones
	if len(catalog) == 0 {
		catalog = allZones
	}
	for _, p := range sc.Pools {
		tainted := p.Tainted && !p.PreferNoSchedule // nodeTaintsPolicy only looks at NoSchedule / NoExecute taints
		zs := p.Zones                                // an In requirement of the pool registers all its values
		if len(zs) == 0 {
			zs = lo.Without(catalog, p.ZoneNotIn...)
		}
		for _, z := range zs {
			add(zoneKey, z, tainted)
		}
		for _, ct := range []string{"on-demand", "spot"} {
			add(ctKey, ct, tainted)
		}
		switch p.Team {
		case "in":
			add(teamKey, "x", tainted)
			add(teamKey, "y", tainted)
		case "label":
			add(teamKey, "x", tainted)
		}
	}
	return u
}

var debugDump bool

// extraShapes: three input shapes that hit defects listed as known findings (label-selector values with
// duplicates, carriers of one spread constraint that differ in their own zone restriction, existing nodes without a
// zone label). They are generated by default and tagged with their kf_key; C02_EXTRA=0 switches them off.
var extraShapes = os.Getenv("C02_EXTRA") != "0"

// solveFaults: API faults that start only after the scheduler was built, i.e. they hit Topology.Update during
// relaxation. They expose the known finding kfUpdateError; such a scenario is emitted twice: once without the fault
// (unkeyed core case) and once with it (keyed). C02_SOLVE_FAULTS=0 switches them off.
var solveFaults = os.Getenv("C02_SOLVE_FAULTS") != "0"

// relaxGroups (C02_RELAX_GROUPS=0 switches it off): a pod that carries a spread constraint AND can be relaxed in a way that changes
// its node filter (several OR-ed node-affinity terms, or a PreferNoSchedule pool). Update then
// creates a new spread group in the middle of the pass, which misses the pods placed earlier (reported, key
// kfRelaxGroup, a known finding). The normalised core case (single term / NoSchedule taint) is run unkeyed next to it.
var relaxGroups = os.Getenv("C02_RELAX_GROUPS") != "0"

func relaxGroupShape(sc sCase) bool {
	pns := lo.SomeBy(sc.Pools, func(p sPool) bool { return p.PreferNoSchedule })
	// the PreferNoSchedule relaxation appends its own toleration (operator Exists, effect PreferNoSchedule, no key) unless the
	// pod already has exactly that one, so it also changes the node filter of pods that tolerate the taint by key
	return lo.SomeBy(sc.Batch, func(p sPod) bool { return len(p.Spread) > 0 && (len(p.ZoneTerms) > 0 || pns) })
}

func normaliseRelaxGroups(sc sCase) sCase {
	out := sc
	out.Pools = append([]sPool{}, sc.Pools...)
	for i := range out.Pools {
		out.Pools[i].PreferNoSchedule = false
	}
	out.Batch = append([]sPod{}, sc.Batch...)
	for i, p := range out.Batch {
		if len(p.Spread) > 0 && len(p.ZoneTerms) > 0 {
			out.Batch[i].ZoneIn = p.ZoneTerms[len(p.ZoneTerms)-1]
			out.Batch[i].ZoneTerms = nil
		}
	}
	return out
}

func runSolve(c *kit.Ctx, r *kit.Rand, idx int) {
	sc := genScenario(r)
	switch {
	case relaxGroupShape(sc):
		runScenario(c, normaliseRelaxGroups(sc)) // unkeyed core case
		if relaxGroups {
			c.Count("B:keyed-variant:" + kfRelaxGroup)
			runScenario(c, sc)
		}
	case strings.HasPrefix(sc.Fault, "solve:"):
		core := sc
		core.Fault = ""
		runScenario(c, core) // unkeyed core case
		c.Count("B:keyed-variant:" + kfUpdateError)
		runScenario(c, sc)
	default:
		runScenario(c, sc)
	}
}

func runScenario(c *kit.Ctx, sc sCase) {
	ctx := kit.Context()
	clk := clock.NewFakeClock(time.Unix(1_700_000_100, 0))
	var faultOn atomic.Bool
	fault := sc.Fault
	if i := strings.Index(fault, ":"); i >= 0 {
		fault = fault[i+1:]
	}
	cl := kit.NewClient(interceptor.Funcs{
		List: func(ctx context.Context, c client.WithWatch, list client.ObjectList, opts ...client.ListOption) error {
			if faultOn.Load() {
				lo := &client.ListOptions{}
				lo.ApplyOptions(opts)
				if _, ok := list.(*corev1.PodList); ok && fault == "list-pods" && lo.Namespace != "" && lo.LabelSelector != nil {
					return apierrors.NewInternalError(fmt.Errorf("injected"))
				}
				if _, ok := list.(*corev1.NamespaceList); ok && fault == "list-namespaces" {
					return apierrors.NewInternalError(fmt.Errorf("injected"))
				}
			}
			return c.List(ctx, list, opts...)
		},
		Get: func(ctx context.Context, c client.WithWatch, key client.ObjectKey, obj client.Object, opts ...client.GetOption) error {
			if _, ok := obj.(*corev1.Node); ok && faultOn.Load() && fault == "get-node" {
				return apierrors.NewInternalError(fmt.Errorf("injected"))
			}
			return c.Get(ctx, key, obj, opts...)
		},
	})
	cp := fake.NewCloudProvider()
	cp.InstanceTypes = buildCatalog(sc.CatalogZones)
	for _, ns := range []struct{ n, team string }{{"ns1", "a"}, {"ns2", "b"}} {
		kit.Apply(ctx, cl, &corev1.Namespace{ObjectMeta: metav1.ObjectMeta{Name: ns.n, Labels: map[string]string{"team": ns.team}}})
	}
	for _, p := range sc.Pools {
		reqs, labels := poolReqs(p)
		np := test.NodePool(v1.NodePool{ObjectMeta: metav1.ObjectMeta{Name: p.Name}, Spec: v1.NodePoolSpec{Weight: lo.ToPtr(p.Weight),
			Template: v1.NodeClaimTemplate{ObjectMeta: v1.ObjectMeta{Labels: labels}, Spec: v1.NodeClaimTemplateSpec{Requirements: reqs}}}})
		np.Namespace = ""
		if p.Tainted {
			np.Spec.Template.Spec.Taints = []corev1.Taint{{Key: taintK, Value: "true", Effect: lo.Ternary(p.PreferNoSchedule, corev1.TaintEffectPreferNoSchedule, corev1.TaintEffectNoSchedule)}}
		}
		kit.Apply(ctx, cl, np)
	}
	cluster := state.NewCluster(clk, cl, cp)
	for _, n := range sc.Nodes {
		if n.InFlight {
			alloc := corev1.ResourceList{corev1.ResourceCPU: resource.MustParse("4"), corev1.ResourceMemory: resource.MustParse("16Gi"), corev1.ResourcePods: resource.MustParse("20")}
			nc := test.NodeClaim(v1.NodeClaim{ObjectMeta: metav1.ObjectMeta{Name: n.Name, Labels: n.Labels},
				Status: v1.NodeClaimStatus{ProviderID: "fake://" + n.Name, Capacity: alloc, Allocatable: alloc}})
			nc.Namespace = ""
			cluster.UpdateNodeClaim(nc)
			continue
		}
		node := test.Node(test.NodeOptions{ObjectMeta: metav1.ObjectMeta{Name: n.Name, Labels: n.Labels}, ProviderID: "fake://" + n.Name,
			Allocatable: corev1.ResourceList{corev1.ResourceCPU: resource.MustParse("4"), corev1.ResourceMemory: resource.MustParse("16Gi"), corev1.ResourcePods: resource.MustParse("20")}})
		node.Namespace = "" // cluster-scoped; the in-memory client keys by namespace
		if n.Tainted {
			node.Spec.Taints = []corev1.Taint{{Key: taintK, Value: "true", Effect: corev1.TaintEffectNoSchedule}}
		}
		kit.Apply(ctx, cl, node)
		if err := cluster.UpdateNode(ctx, node); err != nil {
			panic(err)
		}
	}
	var pods []*corev1.Pod
	byUID := map[types.UID]sPod{}
	for _, bp := range sc.Bound {
		p := bp.k8s()
		if bp.Terminating {
			p.Finalizers = []string{"example.com/hold"}
		}
		if bp.Recreated {
			prev := bp
			prev.Anti = bp.PrevAnti
			old := prev.k8s()
			old.UID = types.UID("uid-old-" + bp.NS + "-" + bp.Name)
			if err := cluster.UpdatePod(ctx, old); err != nil && bp.Node != "gone-node" {
				panic(err)
			}
		}
		kit.Apply(ctx, cl, p)
		if bp.Terminating {
			if err := cl.Delete(ctx, p); err != nil {
				panic(err)
			}
			if err := cl.Get(ctx, client.ObjectKeyFromObject(p), p); err != nil {
				panic(err)
			}
		}
		if err := cluster.UpdatePod(ctx, p); err != nil && bp.Node != "gone-node" {
			panic(err)
		}
		if bp.Resched {
			pods = append(pods, p)
			byUID[p.UID] = bp
		}
	}
	for _, sp := range sc.Batch {
		p := sp.k8s()
		kit.Apply(ctx, cl, p)
		pods = append(pods, p)
		byUID[p.UID] = sp
	}
	prov := provisioning.NewProvisioner(cl, events.NewRecorder(&record.FakeRecorder{}), cp, cluster, clk, deviceallocation.NewController(cl), virtualpods.NewVirtualPodCache(cl))
	stateNodes := lo.Filter(cluster.DeepCopyNodes().Active(), func(n *state.StateNode, _ int) bool {
		return !lo.SomeBy(sc.Nodes, func(x sNode) bool { return x.Candidate && x.Name == n.Name() })
	})
	opts := []provscheduling.Options{provscheduling.NumConcurrentReconciles(sc.Workers)}
	if sc.IgnorePrefs {
		opts = append(opts, provscheduling.IgnorePreferences)
	}
	faultOn.Store(strings.HasPrefix(sc.Fault, "new:"))
	s, err := prov.NewScheduler(ctx, pods, stateNodes, sets.New[types.UID](), opts...)
	if err != nil {
		if sc.Fault == "" {
			panic(err)
		}
		// the topology could not be computed: nothing may be placed in this pass
		faultOn.Store(false)
		sc.SchedulerErr = "NewScheduler failed"
		c.Count("B:fault:" + sc.Fault + ":scheduler-not-built")
		emitWorld(c, sc, provscheduling.Results{}, byUID)
		return
	}
	faultOn.Store(sc.Fault != "")
	if debugDump {
		for _, g := range s.VerifC02Groups() {
			fmt.Fprintf(os.Stderr, "GROUP-BEFORE %+v\n", g)
		}
	}
	sctx, cancel := context.WithTimeout(ctx, time.Minute)
	results, err := s.Solve(sctx, pods)
	cancel()
	faultOn.Store(false)
	if err != nil {
		panic(err)
	}
	if sc.Fault != "" {
		c.Count("B:fault:" + sc.Fault + ":solve-ran")
	}

	if debugDump {
		for _, g := range s.VerifC02Groups() {
			fmt.Fprintf(os.Stderr, "GROUP-AFTER %+v\n", g)
		}
		pl := &corev1.PodList{}
		_ = cl.List(ctx, pl)
		for _, p := range pl.Items {
			fmt.Fprintf(os.Stderr, "POD %s/%s node=%q phase=%s uid=%s del=%v\n", p.Namespace, p.Name, p.Spec.NodeName, p.Status.Phase, p.UID, p.DeletionTimestamp)
		}
		for _, sp := range sc.Batch {
			for _, t := range append(append([]sTerm{}, sp.Aff...), sp.Anti...) {
				pl2 := &corev1.PodList{}
				err := cl.List(ctx, pl2, provscheduling.TopologyListOptions("ns2", t.Sel.k8s()))
				fmt.Fprintf(os.Stderr, "LIST ns2 %v -> %d err=%v\n", t.Sel, len(pl2.Items), err)
			}
		}
		nl := &corev1.NodeList{}
		_ = cl.List(ctx, nl)
		for _, n := range nl.Items {
			fmt.Fprintf(os.Stderr, "NODE %s labels=%v taints=%v\n", n.Name, n.Labels, n.Spec.Taints)
		}
		for p, e := range results.PodErrors {
			fmt.Fprintf(os.Stderr, "ERR %s/%s: %v\n", p.Namespace, p.Name, e)
		}
		for i, nc := range results.NewNodeClaims {
			fmt.Fprintf(os.Stderr, "NEW new-%d pool=%s reqs=%v pods=%v\n", i, nc.NodePoolName, nc.Requirements, lo.Map(nc.Pods, func(p *corev1.Pod, _ int) string { return p.Name }))
		}
		for _, en := range results.ExistingNodes {
			fmt.Fprintf(os.Stderr, "EXISTING %s pods=%v\n", en.Name(), lo.Map(en.Pods, func(p *corev1.Pod, _ int) string { return p.Name }))
		}
	}
	emitWorld(c, sc, results, byUID)
}

// emitWorld writes the end state of one pass (bound pods, nodes, new placements) as a CaseS and counts the buckets.
func emitWorld(c *kit.Ctx, sc sCase, results provscheduling.Results, byUID map[types.UID]sPod) {
	// ---- final state
	univ := universe(sc)
	sc.Placement = map[string]string{}
	sc.NewNodes = map[string]map[string][]string{}
	var gnodes, gpods []string
	nodeTainted := map[string]bool{}
	for _, n := range sc.Nodes {
		if n.Candidate {
			continue // on its way out: not part of the end state
		}
		lab := map[string][]string{}
		for k, v := range n.Labels {
			lab[k] = []string{v}
		}
		if n.InFlight {
			lab[hostKey] = []string{n.Name} // not registered yet: its hostname will be a fresh, unique domain
		}
		// an in-flight NodeClaim is not a Node yet: like a new node it contributes no topology domain of its own
		gnodes = append(gnodes, gNode(n.Name, n.InFlight, lab, n.Tainted))
		nodeTainted[n.Name] = n.Tainted
	}
	for _, bp := range sc.Bound {
		if bp.Resched || bp.Phase != "" || bp.Terminating {
			continue // rescheduled pods appear at their new place; terminal / terminating pods do not count
		}
		gpods = append(gpods, gPod(bp, bp.Node, false, nil))
	}
	placedOn := map[string][]sPod{} // node -> new pods
	for _, en := range results.ExistingNodes {
		for _, p := range en.Pods {
			sp := byUID[p.UID]
			sc.Placement[sp.NS+"/"+sp.Name] = en.Name()
			gpods = append(gpods, gPod(sp, en.Name(), true, scheduling.NewStrictPodRequirements(p)))
			placedOn[en.Name()] = append(placedOn[en.Name()], sp)
		}
	}
	poolByName := lo.SliceToMap(sc.Pools, func(p sPool) (string, sPool) { return p.Name, p })
	newDomains := map[string]map[string][]string{}
	for i, nc := range results.NewNodeClaims {
		name := fmt.Sprintf("new-%d", i)
		lab := map[string][]string{hostKey: {name}}
		zs, cts := sets.New[string](), sets.New[string]()
		for _, it := range nc.InstanceTypeOptions {
			for _, o := range it.Offerings {
				if o.Available && nc.Requirements.IsCompatible(o.Requirements, scheduling.AllowUndefinedWellKnownLabels) {
					zs.Insert(o.Zone())
					cts.Insert(o.CapacityType())
				}
			}
		}
		lab[zoneKey], lab[ctKey] = sets.List(zs), sets.List(cts)
		if nc.Requirements.Has(teamKey) && nc.Requirements.Get(teamKey).Operator() == corev1.NodeSelectorOpIn {
			lab[teamKey] = sorted(nc.Requirements.Get(teamKey).Values())
		}
		gnodes = append(gnodes, gNode(name, true, lab, poolByName[nc.NodePoolName].Tainted && !poolByName[nc.NodePoolName].PreferNoSchedule))
		sc.NewNodes[name] = lab
		newDomains[name] = lab
		for _, p := range nc.Pods {
			sp := byUID[p.UID]
			sc.Placement[sp.NS+"/"+sp.Name] = name
			gpods = append(gpods, gPod(sp, name, true, scheduling.NewStrictPodRequirements(p)))
			placedOn[name] = append(placedOn[name], sp)
		}
	}
	for p := range results.PodErrors {
		sc.Failed = append(sc.Failed, p.Namespace+"/"+p.Name)
	}
	sort.Strings(sc.Failed)

	var guniv []string
	for _, k := range kit.SortedKeys(univ) {
		ds := kit.GListOf(kit.SortedKeys(univ[k]), func(d string) string {
			return kit.GPair(kit.GStr(d), kit.GListOf(univ[k][d], kit.GStrs))
		})
		guniv = append(guniv, kit.GPair(kit.GStr(k), ds))
	}
	gns := `[("ns1", [("team", "a")]); ("ns2", [("team", "b")])]`
	term := fmt.Sprintf("CaseS (mkWorld %s %s %s %s)", gns, kit.GList(gnodes), kit.GList(gpods), kit.GList(guniv))

	// ---- distribution buckets and the known-finding shape
	feat := map[string]bool{}
	for _, sp := range sc.Batch {
		for _, t := range sp.Anti {
			feat["anti:"+short(t.Key)+lo.Ternary(t.Preferred, ":preferred", ":required")] = true
			if len(t.Namespaces) > 0 || t.NsSel != nil {
				feat["term:namespaces"] = true
			}
		}
		for _, t := range sp.Aff {
			feat["affinity:"+short(t.Key)+lo.Ternary(t.Preferred, ":preferred", ":required")] = true
		}
		for _, s := range sp.Spread {
			feat["spread:"+short(s.Key)+lo.Ternary(s.Anyway, ":anyway", ":dns")] = true
			if s.MinDomains != nil {
				feat["spread:minDomains"] = true
			}
			if len(s.MLK) > 0 {
				feat["spread:matchLabelKeys"] = true
			}
			if s.TaintHonor != nil || s.AffHonor != nil {
				feat["spread:policies"] = true
			}
		}
	}
	for _, bp := range sc.Bound {
		if len(bp.Anti) > 0 {
			feat["bound-pod-with-anti-affinity"] = true
		}
	}
	// input dimensions added by the coverage audit
	if sc.IgnorePrefs {
		feat["dim:preference-policy-ignore"] = true
	}
	if len(sc.CatalogZones) > 0 {
		feat["dim:catalog-without-z3"] = true
	}
	for _, p := range sc.Pools {
		if len(p.ZoneNotIn) > 0 {
			feat["dim:pool-zone-NotIn"] = true
		}
		if p.PreferNoSchedule {
			feat["dim:pool-taint-PreferNoSchedule"] = true
		}
	}
	for _, n := range sc.Nodes {
		if n.InFlight {
			feat["dim:in-flight-nodeclaim"] = true
		}
		if n.NoHost {
			feat["dim:node-without-hostname-label"] = true
		}
		if n.Candidate {
			feat["dim:candidate-node-excluded"] = true
		}
	}
	for _, bp := range sc.Bound {
		if bp.Recreated {
			feat["dim:bound-pod-recreated-under-same-name"] = true
			if len(bp.Anti) > 0 && len(bp.PrevAnti) > 0 && fmt.Sprint(bp.Anti) != fmt.Sprint(bp.PrevAnti) {
				feat["dim:bound-pod-recreated-with-other-anti-affinity-term"] = true
			}
		}
		switch {
		case bp.Resched:
			feat["dim:bound-pod-rescheduled(excludedPods)"] = true
		case bp.Phase != "":
			feat["dim:bound-pod-terminal"] = true
		case bp.Terminating:
			feat["dim:bound-pod-terminating"] = true
		case bp.Node == "gone-node":
			feat["dim:bound-pod-on-deleted-node"] = true
		}
	}
	for _, sp := range sc.Batch {
		if len(sp.ZoneTerms) > 0 {
			feat["dim:node-affinity-OR-terms"] = true
			if sp.ZoneTerms[0][0] == "z9" {
				feat["dim:node-affinity-first-term-relaxed-away"] = true
			}
		}
		if len(sp.PrefZone) > 0 {
			feat["dim:preferred-node-affinity"] = true
			if lo.SomeBy(sp.Spread, func(s sSpread) bool { return s.Key == zoneKey && !s.Anyway }) || lo.SomeBy(sp.Aff, func(t sTerm) bool { return t.Key == zoneKey && !t.Preferred }) {
				feat["dim:preferred-zone-on-zone-topology-carrier"] = true
			}
		}
		for _, sprd := range sp.Spread {
			if sprd.Sel.Nil {
				feat["dim:spread-nil-selector"] = true
			}
			if len(sprd.Sel.Exprs) > 0 {
				feat["dim:spread-selector-expression"] = true
			}
		}
	}
	for f := range feat {
		c.Count("B:" + f)
	}
	c.Count(fmt.Sprintf("B:new-claims=%d", min(len(results.NewNodeClaims), 4)))
	if len(placedOn) > 0 && lo.SomeBy(sc.Nodes, func(n sNode) bool { return len(placedOn[n.Name]) > 0 }) {
		c.Count("B:placed-on-existing-node")
	}
	undet := false
	for _, lab := range newDomains {
		if len(lab[zoneKey]) > 1 {
			undet = true
		}
	}
	if undet {
		c.Count("B:new-node-zone-undetermined")
	}
	labelOf := map[string]map[string]string{}
	for _, n := range sc.Nodes {
		labelOf[n.Name] = n.Labels
	}
	for _, sp := range sc.Batch {
		if lab, ok := labelOf[sc.Placement[sp.NS+"/"+sp.Name]]; ok {
			for _, t := range sp.Aff {
				if _, has := lab[t.Key]; !has && !t.Preferred {
					c.Count("B:observation:required-affinity-pod-on-node-without-topology-label")
				}
			}
			for _, t := range sp.Spread {
				if _, has := lab[t.Key]; !has && !t.Anyway {
					c.Count("B:observation:spread-pod-on-node-without-topology-label")
				}
			}
		}
	}
	if len(sc.Failed) > 0 {
		c.Count("B:some-pods-unschedulable")
	}
	if len(sc.Failed) == len(sc.Batch) {
		c.Count("B:nothing-placed")
	}
	sc.KfKey = findingShape(sc, newDomains)
	if sc.KfKey != "" {
		c.Count("B:shape:" + sc.KfKey)
	}
	key := ""
	if len(sc.Placement) > 0 && len(feat) > 0 {
		key = fmt.Sprintf("B:%v|%v", kit.SortedKeys(feat), sc.Placement)
	}
	c.AddCase(term, sc, key)
}

func short(k string) string {
	switch k {
	case zoneKey:
		return "zone"
	case hostKey:
		return "hostname"
	case ctKey:
		return "capacity-type"
	}
	return k
}

// findingShape recognises the exact input shapes of the known findings of this property (see the report):
//   - a REQUIRED pod-affinity term with a nil label selector on a pod that was placed (nil-selector finding);
//   - REQUIRED pod-affinity on a non-hostname key whose selector selects the pod itself, with two such pods
//     on different new nodes that do not share one determined domain (bootstrap finding).
func findingShape(sc sCase, newDomains map[string]map[string][]string) string {
	placedNode := func(p sPod) (string, bool) { n, ok := sc.Placement[p.NS+"/"+p.Name]; return n, ok }
	if strings.HasPrefix(sc.Fault, "solve:") {
		return kfUpdateError
	}

	for _, sp := range sc.Batch {
		if _, ok := placedNode(sp); !ok {
			continue
		}
		for _, t := range sp.Aff {
			if !t.Preferred && t.Sel.Nil {
				return kfNilSelector
			}
		}
	}
	if extraShapes {
		dup := func(s sSel) bool {
			for _, e := range s.Exprs {
				if len(lo.Uniq(e.Vals)) != len(e.Vals) {
					return true
				}
			}
			return false
		}
		for _, p := range append(append([]sPod{}, sc.Bound...), sc.Batch...) {
			for _, t := range append(append([]sTerm{}, p.Anti...), p.Aff...) {
				if dup(t.Sel) {
					return kfDupValues
				}
			}
		}
		for _, n := range sc.Nodes {
			if _, ok := n.Labels[zoneKey]; !ok {
				for _, sp := range sc.Batch {
					if on, placed := placedNode(sp); placed && on == n.Name && (len(sp.ZoneNotIn) > 0) {
						return kfUnlabelledNode
					}
				}
			}
		}
		for _, sp := range sc.Batch {
			for _, other := range sc.Batch {
				if len(sp.Spread) > 0 && strings.Split(sp.Name, "-")[0] == strings.Split(other.Name, "-")[0] && fmt.Sprint(sp.ZoneIn) != fmt.Sprint(other.ZoneIn) && len(sp.ZoneIn) > 0 && len(other.ZoneIn) > 0 {
					return kfFilterHash
				}
			}
		}
	}
	for _, sp := range sc.Batch {
		for _, t := range sp.Aff {
			if t.Preferred || t.Key == hostKey || !selMatches(t.Sel, sp.Labels) {
				continue
			}
			myNode, ok := placedNode(sp)
			if !ok || !strings.HasPrefix(myNode, "new-") {
				continue
			}
			mine := newDomains[myNode][t.Key]
			for _, other := range sc.Batch {
				on, ok := placedNode(other)
				if !ok || on == myNode || !strings.HasPrefix(on, "new-") || !selMatches(t.Sel, other.Labels) {
					continue
				}
				theirs := newDomains[on][t.Key]
				if !(len(mine) == 1 && len(theirs) == 1 && mine[0] == theirs[0]) {
					return kfAffinityTwoDomains
				}
			}
		}
	}
	if relaxGroupShape(sc) {
		return kfRelaxGroup
	}
	return ""
}

func selMatches(s sSel, labels map[string]string) bool {
	if s.Nil {
		return false
	}
	for k, v := range s.ML {
		if labels[k] != v {
			return false
		}
	}
	for _, e := range s.Exprs {
		v, ok := labels[e.Key]
		switch e.Op {
		case "In":
			if !ok || !lo.Contains(e.Vals, v) {
				return false
			}
		case "NotIn":
			if ok && lo.Contains(e.Vals, v) {
				return false
			}
		case "Exists":
			if !ok {
				return false
			}
		case "DoesNotExist":
			if ok {
				return false
			}
		}
	}
	return true
}

// corpus: hand-written scenarios run before the generated ones. The first two are the witnesses of the spread
// node-filter defect fixed in /repo by 63807b97c (TopologyNodeFilter.Matches dropped the compatibility options);
// they must pass now. The last two are the witnesses of the two known findings.
func corpus() []sCase {
	app := func(a string) map[string]string { return map[string]string{"app": a} }
	selfSel := func(a string) sSel { return sSel{ML: app(a)} }
	hostSpread := []sSpread{{Key: hostKey, MaxSkew: 2, Sel: selfSel("b")}}
	ctSpread := []sSpread{{Key: ctKey, MaxSkew: 2, MinDomains: ptr(int32(3)), Sel: selfSel("c")}}
	zoneAff := []sTerm{{Key: zoneKey, Sel: selfSel("c")}}
	threeZoneNodes := lo.Map([]string{"z1", "z2", "z3"}, func(z string, i int) sNode {
		n := fmt.Sprintf("node-%d", i+1)
		return sNode{Name: n, Labels: map[string]string{hostKey: n, ctKey: "on-demand", zoneKey: z}}
	})
	return []sCase{
		{Kind: "solve", Workers: 1, Pools: []sPool{{Name: "pool-a", Weight: 10}}, Batch: []sPod{
			{Name: "b-0", NS: "ns1", Labels: app("b"), CPU: "300m", Spread: hostSpread},
			{Name: "b-1", NS: "ns1", Labels: app("b"), CPU: "300m", Spread: hostSpread},
			{Name: "b-2", NS: "ns1", Labels: app("b"), CPU: "300m", Spread: hostSpread, ZoneIn: []string{"z1", "z2"}},
			{Name: "b-3", NS: "ns1", Labels: app("b"), CPU: "300m", Spread: hostSpread}}},
		{Kind: "solve", Workers: 1, Pools: []sPool{{Name: "pool-a", Weight: 10}}, Batch: []sPod{
			{Name: "c-0", NS: "ns2", Labels: app("c"), CPU: "1700m", Spread: ctSpread},
			{Name: "c-1", NS: "ns2", Labels: app("c"), CPU: "1700m", Spread: ctSpread},
			{Name: "c-2", NS: "ns2", Labels: app("c"), CPU: "1700m", Spread: ctSpread, ZoneIn: []string{"z2"}},
			{Name: "c-3", NS: "ns2", Labels: app("c"), CPU: "1700m", Spread: ctSpread, ZoneIn: []string{"z3"}}}},
		{Kind: "solve", Workers: 1, Pools: []sPool{{Name: "pool-a", Weight: 10}}, Batch: []sPod{
			{Name: "c-0", NS: "ns2", Labels: app("c"), CPU: "2500m", Aff: zoneAff},
			{Name: "c-1", NS: "ns2", Labels: app("c"), CPU: "2500m", Aff: zoneAff}}},
		// node inclusion (nodeAffinityPolicy Honor): two bound pods on a node the carriers cannot use (team=y) must not
		// count for them, so the four carriers have to use z3 as well
		{Kind: "solve", Workers: 1, Pools: []sPool{{Name: "pool-a", Team: "label", Weight: 10}},
			Nodes: []sNode{{Name: "node-0", Labels: map[string]string{hostKey: "node-0", ctKey: "on-demand", zoneKey: "z3", teamKey: "y"}}},
			Bound: []sPod{{Name: "bound-0", NS: "ns1", Labels: app("a"), CPU: "100m", Node: "node-0", Tolerates: true},
				{Name: "bound-1", NS: "ns1", Labels: app("a"), CPU: "100m", Node: "node-0", Tolerates: true}},
			Batch: lo.Map([]string{"a-0", "a-1", "a-2", "a-3"}, func(n string, _ int) sPod {
				return sPod{Name: n, NS: "ns1", Labels: app("a"), CPU: "1700m", NodeSel: map[string]string{teamKey: "x"},
					Spread: []sSpread{{Key: zoneKey, MaxSkew: 1, Sel: selfSel("a")}}}
			})},
		// consolidation-style pass: node-0 is a candidate, its pod a-old is rescheduled (excludedPods) and pinned to z2; b-0 needs
		// zone affinity to app=a and must not be attracted by a-old's former zone z1
		{Kind: "solve", Workers: 1, Pools: []sPool{{Name: "pool-a", Weight: 10}},
			Nodes: []sNode{{Name: "node-0", Candidate: true, Labels: map[string]string{hostKey: "node-0", ctKey: "on-demand", zoneKey: "z1"}}},
			Bound: []sPod{{Name: "a-old", NS: "ns1", Labels: app("a"), CPU: "1700m", Node: "node-0", Resched: true, NodeSel: map[string]string{zoneKey: "z2"}}},
			Batch: []sPod{{Name: "b-0", NS: "ns1", Labels: app("b"), CPU: "2500m", Aff: []sTerm{{Key: zoneKey, Sel: selfSel("a")}}}}}, // too big to share a-old's node
		// API fault while the topology is built: a bound pod and a batch pod carry anti-affinity terms with a namespace selector,
		// listing namespaces fails -> the scheduler must not be built (nothing may be placed on wrong counts)
		{Kind: "solve", Workers: 1, Fault: "new:list-namespaces", Pools: []sPool{{Name: "pool-a", Weight: 10}},
			Nodes: []sNode{{Name: "node-0", Labels: map[string]string{hostKey: "node-0", ctKey: "on-demand", zoneKey: "z1"}}},
			Bound: []sPod{{Name: "bound-0", NS: "ns1", Labels: app("a"), CPU: "100m", Node: "node-0", Tolerates: true,
				Anti: []sTerm{{Key: zoneKey, Sel: selfSel("b"), NsSel: &sSel{}}}}},
			Batch: []sPod{{Name: "b-0", NS: "ns2", Labels: app("b"), CPU: "300m", Anti: []sTerm{{Key: hostKey, Sel: selfSel("a"), NsSel: &sSel{}}}}}},
		// the same cluster with List Pods failing: bound-0's anti-affinity against app=b must not be lost
		{Kind: "solve", Workers: 1, Fault: "new:list-pods", Pools: []sPool{{Name: "pool-a", Weight: 10}},
			Nodes: []sNode{{Name: "node-0", Labels: map[string]string{hostKey: "node-0", ctKey: "on-demand", zoneKey: "z1"}}},
			Bound: []sPod{{Name: "bound-0", NS: "ns1", Labels: app("a"), CPU: "100m", Node: "node-0", Tolerates: true}},
			Batch: []sPod{{Name: "b-0", NS: "ns1", Labels: app("b"), CPU: "300m", NodeSel: map[string]string{zoneKey: "z1"}, Anti: []sTerm{{Key: zoneKey, Sel: selfSel("a")}}}}},
		// preferred node affinity must not narrow the domains a constraint is judged over (existing-node path, first attempt):
		// one matching pod in z1, the new pod PREFERS z1, every zone has a roomy existing node -> it must not become 2/0/0
		{Kind: "solve", Workers: 1, Pools: []sPool{{Name: "pool-a", Weight: 10}},
			Nodes: threeZoneNodes,
			Bound: []sPod{{Name: "bound-0", NS: "ns1", Labels: app("a"), CPU: "100m", Node: "node-1", Tolerates: true}},
			Batch: []sPod{{Name: "a-0", NS: "ns1", Labels: app("a"), CPU: "300m", PrefZone: []string{"z1"},
				Spread: []sSpread{{Key: zoneKey, MaxSkew: 1, Sel: selfSel("a")}}}}},
		// ... and a pod with required zone self-affinity that PREFERS z2 must still follow the matching pod in z1
		{Kind: "solve", Workers: 1, Pools: []sPool{{Name: "pool-a", Weight: 10}},
			Nodes: threeZoneNodes,
			Bound: []sPod{{Name: "bound-0", NS: "ns1", Labels: app("a"), CPU: "100m", Node: "node-1", Tolerates: true}},
			Batch: []sPod{{Name: "a-0", NS: "ns1", Labels: app("a"), CPU: "300m", PrefZone: []string{"z2"},
				Aff: []sTerm{{Key: zoneKey, Sel: selfSel("a")}}}}},
		// a running pod was deleted and re-created under the same name with another required anti-affinity term and cluster
		// state never saw the delete: the live term (against app=b) must be enforced, the stale one (against app=a) must not
		{Kind: "solve", Workers: 1, Pools: []sPool{{Name: "pool-a", Weight: 10}},
			Nodes: []sNode{{Name: "node-0", Labels: map[string]string{hostKey: "node-0", ctKey: "on-demand", zoneKey: "z1"}}},
			Bound: []sPod{{Name: "bound-0", NS: "ns1", Labels: app("x"), CPU: "100m", Node: "node-0", Tolerates: true, Recreated: true,
				PrevAnti: []sTerm{{Key: zoneKey, Sel: selfSel("a")}}, Anti: []sTerm{{Key: zoneKey, Sel: selfSel("b")}}}},
			Batch: []sPod{{Name: "b-0", NS: "ns1", Labels: app("b"), CPU: "300m", NodeSel: map[string]string{zoneKey: "z1"}},
				{Name: "a-0", NS: "ns1", Labels: app("a"), CPU: "300m", NodeSel: map[string]string{zoneKey: "z1"}}}},
		// matchLabelKeys: two bound pods of revision 1 in z1 must not count for the revision-2 carriers
		{Kind: "solve", Workers: 1, Pools: []sPool{{Name: "pool-a", Weight: 10}},
			Nodes: []sNode{{Name: "node-0", Labels: map[string]string{hostKey: "node-0", ctKey: "on-demand", zoneKey: "z1"}}},
			Bound: []sPod{{Name: "bound-0", NS: "ns1", Labels: map[string]string{"app": "a", "rev": "1"}, CPU: "100m", Node: "node-0", Tolerates: true},
				{Name: "bound-1", NS: "ns1", Labels: map[string]string{"app": "a", "rev": "1"}, CPU: "100m", Node: "node-0", Tolerates: true}},
			Batch: lo.Map([]string{"a-0", "a-1", "a-2"}, func(n string, _ int) sPod {
				return sPod{Name: n, NS: "ns1", Labels: map[string]string{"app": "a", "rev": "2"}, CPU: "1700m",
					Spread: []sSpread{{Key: zoneKey, MaxSkew: 1, Sel: selfSel("a"), MLK: []string{"rev"}}}}
			})},
		{Kind: "solve", Workers: 1, Pools: []sPool{{Name: "pool-a", Weight: 10}},
			Nodes: []sNode{{Name: "node-0", Labels: map[string]string{hostKey: "node-0", ctKey: "on-demand", zoneKey: "z1"}}},
			Bound: []sPod{{Name: "bound-0", NS: "ns1", Labels: app("a"), CPU: "100m", Node: "node-0", Tolerates: true}},
			Batch: []sPod{{Name: "a-0", NS: "ns1", Labels: app("a"), CPU: "300m", Aff: []sTerm{{Key: zoneKey, Sel: sSel{Nil: true}}}}}},
	}
}
