package main

import "verifharness/kit"

func runSolve(c *kit.Ctx, r *kit.Rand, idx int) {}
