package main

import (
	"context"
	"fmt"
	"time"

	"github.com/awslabs/operatorpkg/object"
	corev1 "k8s.io/api/core/v1"
	apierrors "k8s.io/apimachinery/pkg/api/errors"
	metav1 "k8s.io/apimachinery/pkg/apis/meta/v1"
	"k8s.io/apimachinery/pkg/runtime/schema"
	clock "k8s.io/utils/clock/testing"
	"sigs.k8s.io/controller-runtime/pkg/client"
	"sigs.k8s.io/controller-runtime/pkg/client/interceptor"

	v1 "sigs.k8s.io/karpenter/pkg/apis/v1"
	"sigs.k8s.io/karpenter/pkg/cloudprovider/fake"
	"sigs.k8s.io/karpenter/pkg/controllers/nodeclaim/lifecycle"
	"sigs.k8s.io/karpenter/pkg/state/nodepoolhealth"
	"sigs.k8s.io/karpenter/pkg/test"

	"verifharness/kit"
)

type env struct {
	c                                       client.Client
	clk                                     *clock.FakeClock
	cp                                      *fake.CloudProvider
	st                                      *nodepoolhealth.State
	np                                      *v1.NodePool
	ctrl                                    *lifecycle.Controller
	failPoolPatch, failDelete, failNCStatus bool
}

func newEnv() *env {
	ctx := kit.Context()
	e := &env{clk: clock.NewFakeClock(time.Unix(1_700_000_000, 0)), cp: fake.NewCloudProvider(), st: nodepoolhealth.NewState()}
	e.c = kit.NewClient(interceptor.Funcs{
		SubResourcePatch: func(ctx context.Context, cl client.Client, sub string, obj client.Object, patch client.Patch, opts ...client.SubResourcePatchOption) error {
			if _, ok := obj.(*v1.NodePool); ok && e.failPoolPatch {
				e.failPoolPatch = false
				return apierrors.NewConflict(schema.GroupResource{Group: "karpenter.sh", Resource: "nodepools"}, obj.GetName(), fmt.Errorf("injected"))
			}
			if _, ok := obj.(*v1.NodeClaim); ok && e.failNCStatus {
				e.failNCStatus = false
				return apierrors.NewInternalError(fmt.Errorf("injected"))
			}
			return cl.SubResource(sub).Patch(ctx, obj, patch, opts...)
		},
		Delete: func(ctx context.Context, cl client.WithWatch, obj client.Object, opts ...client.DeleteOption) error {
			if _, ok := obj.(*v1.NodeClaim); ok && e.failDelete {
				e.failDelete = false
				return apierrors.NewInternalError(fmt.Errorf("injected"))
			}
			return cl.Delete(ctx, obj, opts...)
		},
	})
	nodeClass := test.NodeClass()
	e.np = test.NodePool()
	e.np.Name = "pool"
	e.np.UID = "pool-uid"
	e.np.Spec.Template.Spec.NodeClassRef = &v1.NodeClassReference{Group: object.GVK(nodeClass).Group, Kind: object.GVK(nodeClass).Kind, Name: nodeClass.Name}
	kit.Apply(ctx, e.c, nodeClass, e.np)
	e.ctrl = lifecycle.NewController(e.clk, e.c, e.cp, test.NewEventRecorder(), e.st, nil)
	return e
}

func (e *env) claim(name string) *v1.NodeClaim {
	nc := test.NodeClaim(v1.NodeClaim{ObjectMeta: metav1.ObjectMeta{
		Name:   name,
		Labels: map[string]string{v1.NodePoolLabelKey: e.np.Name},
		OwnerReferences: []metav1.OwnerReference{{APIVersion: object.GVK(e.np).GroupVersion().String(), Kind: object.GVK(e.np).Kind,
			Name: e.np.Name, UID: e.np.UID}},
	}, Spec: v1.NodeClaimSpec{NodeClassRef: e.np.Spec.Template.Spec.NodeClassRef}})
	nc.Status = v1.NodeClaimStatus{}
	nc.CreationTimestamp = metav1.Time{Time: e.clk.Now()}
	kit.Apply(kit.Context(), e.c, nc)
	return nc
}

func (e *env) rec(name string) string {
	nc := &v1.NodeClaim{}
	if err := e.c.Get(kit.Context(), client.ObjectKey{Name: name}, nc); err != nil {
		return "get:" + err.Error()
	}
	// Sleep inside the controller would block on the fake clock: step it from a goroutine
	done := make(chan struct{})
	go func() {
		for {
			select {
			case <-done:
				return
			default:
				if e.clk.HasWaiters() {
					e.clk.Step(time.Second)
				}
				time.Sleep(time.Millisecond)
			}
		}
	}()
	res, err := e.ctrl.Reconcile(kit.Context(), nc)
	close(done)
	return fmt.Sprintf("res=%v err=%v", res, err)
}

func (e *env) join(name string) {
	nc := &v1.NodeClaim{}
	_ = e.c.Get(kit.Context(), client.ObjectKey{Name: name}, nc)
	n := test.Node(test.NodeOptions{ObjectMeta: metav1.ObjectMeta{Name: "node-" + name}, ProviderID: nc.Status.ProviderID, Taints: []corev1.Taint{v1.UnregisteredNoExecuteTaint}})
	kit.Apply(kit.Context(), e.c, n)
}

func (e *env) show(tag string) {
	np := &v1.NodePool{}
	_ = e.c.Get(kit.Context(), client.ObjectKey{Name: "pool"}, np)
	cnd := np.StatusConditions().Get(v1.ConditionTypeNodeRegistrationHealthy)
	s := "absent"
	if cnd != nil {
		s = string(cnd.Status)
	}
	fmt.Printf("%-40s status=%v cond=%s\n", tag, e.st.Status(e.np.UID), s)
}

func main() {
	{ // (a) success lost on pool patch conflict
		e := newEnv()
		a := e.claim("a")
		_ = a
		fmt.Println(e.rec("a"))
		e.join("a")
		e.failPoolPatch = true
		fmt.Println("a: register with conflict:", e.rec("a"))
		e.show("after conflict")
		fmt.Println("a: retry:", e.rec("a"))
		e.show("after retry (expect Healthy if recorded)")
	}
	{ // (b) failure double on delete fault
		e := newEnv()
		e.claim("b")
		fmt.Println(e.rec("b"))
		e.clk.Step(16 * time.Minute)
		e.failDelete = true
		fmt.Println("b: timeout with delete fault:", e.rec("b"))
		e.show("after 1st (1 failure => Healthy)")
		fmt.Println("b: retry:", e.rec("b"))
		e.show("after retry (Unhealthy => double)")
	}
	{ // (c) both timeouts elapsed in one reconcile
		e := newEnv()
		e.cp.NextCreateErr = fmt.Errorf("boom")
		e.claim("c")
		fmt.Println(e.rec("c"))
		e.cp.NextCreateErr = fmt.Errorf("boom")
		e.clk.Step(16 * time.Minute)
		fmt.Println("c: both timeouts:", e.rec("c"))
		e.show("after one reconcile (Unhealthy => double)")
	}
	{ // (d) claim status patch fails after success recorded
		e := newEnv()
		e.claim("d")
		fmt.Println(e.rec("d"))
		e.join("d")
		e.failNCStatus = true
		fmt.Println("d: register, claim status patch fails:", e.rec("d"))
		e.show("after 1st")
		fmt.Println("d: retry:", e.rec("d"))
		e.show("after retry")
		fmt.Println(e.st)
	}
}
