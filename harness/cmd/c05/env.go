package main

// The world the real disruption code runs in: controller-runtime's fake client, a FakeClock,
// the fake cloud provider, the real state.Cluster, Provisioner and orchestration Queue.

import (
	"context"
	"fmt"
	"sort"
	"time"

	"github.com/awslabs/operatorpkg/status"
	corev1 "k8s.io/api/core/v1"
	apierrors "k8s.io/apimachinery/pkg/api/errors"
	"k8s.io/apimachinery/pkg/api/resource"
	metav1 "k8s.io/apimachinery/pkg/apis/meta/v1"
	clock "k8s.io/utils/clock/testing"
	"sigs.k8s.io/controller-runtime/pkg/client"
	"sigs.k8s.io/controller-runtime/pkg/client/interceptor"

	v1 "sigs.k8s.io/karpenter/pkg/apis/v1"
	"sigs.k8s.io/karpenter/pkg/cloudprovider"
	"sigs.k8s.io/karpenter/pkg/cloudprovider/fake"
	"sigs.k8s.io/karpenter/pkg/controllers/disruption"
	"sigs.k8s.io/karpenter/pkg/controllers/dynamicresources/deviceallocation"
	"sigs.k8s.io/karpenter/pkg/controllers/provisioning"
	"sigs.k8s.io/karpenter/pkg/controllers/state"
	"sigs.k8s.io/karpenter/pkg/state/virtualpods"
	"sigs.k8s.io/karpenter/pkg/test"

	"verifharness/kit"
)

type jPool struct {
	Name     string    `json:"name"`
	ID       int       `json:"id"`
	Budgets  []jBudget `json:"budgets"`
	Static   bool      `json:"static,omitempty"`
	Replicas int       `json:"replicas,omitempty"`
	Limit    *int      `json:"node_limit,omitempty"`
	// optional fields of the NodePool the disruption code reads
	Policy          string `json:"consolidation_policy,omitempty"` // "" = WhenEmptyOrUnderutilized | WhenEmpty | Balanced
	NoConsolidation bool   `json:"consolidate_after_never,omitempty"`
	Unmanaged       bool   `json:"foreign_node_class,omitempty"` // nodeClassRef of a kind the provider does not support: not listed
	NoInstanceTypes bool   `json:"no_instance_types,omitempty"`
}

type jNode struct {
	ID                int    `json:"id"`
	Pool              int    `json:"pool"` // pool id; 0 = a pool name that is not listed
	Managed           bool   `json:"managed"`
	HasNode           bool   `json:"has_node"`
	Init              bool   `json:"initialized"`
	Term              bool   `json:"instance_terminating"`
	Ready             string `json:"ready"` // True | False | Unknown | "" (condition missing)
	Marked            bool   `json:"marked_for_deletion"`
	Deleting          bool   `json:"nodeclaim_deleting"`
	NodeDel           bool   `json:"node_deleting,omitempty"`
	Drifted           bool   `json:"drifted,omitempty"`
	Pods              int    `json:"pods,omitempty"`
	Nominated         bool   `json:"nominated,omitempty"`
	Unregistered      bool   `json:"unregistered,omitempty"`       // Node without the registered label
	NotConsolidatable bool   `json:"not_consolidatable,omitempty"` // NodeClaim condition Consolidatable is not True
	BufferPods        bool   `json:"buffer_pods,omitempty"`        // the provisioner placed virtual buffer pods here
	BigPods           bool   `json:"big_pods,omitempty"`           // pods of 9 CPU: two of them do not share a node
	Pinned            bool   `json:"pods_pinned,omitempty"`        // the pods select a label only this node has: they cannot move
	Anchor            bool   `json:"do_not_disrupt,omitempty"`     // spare capacity that is never a candidate
}

func poolName(id int) string {
	if id == 0 {
		return "unlisted"
	}
	return fmt.Sprintf("pool-%d", id)
}

type world struct {
	ctx      context.Context
	c        client.Client
	clk      *clock.FakeClock
	cp       *fake.CloudProvider
	cluster  *state.Cluster
	recorder *test.EventRecorder
	prov     *provisioning.Provisioner
	queue    *disruption.Queue
	pools    map[int]*v1.NodePool
	claims   map[int]*v1.NodeClaim
	nodes    map[int]*corev1.Node
	it       *cloudprovider.InstanceType
	faults   *faultPlan
	buffer   map[string]int
	hold     map[int]bool // nodes whose API changes the informers have not delivered to cluster state yet
}

// faultPlan: API calls the interceptor fails (each entry fires as often as its count says).
type faultPlan struct {
	listNodePools int            // the k-th List(NodePoolList) from now fails (0 = none)
	patchNode     map[string]int // Patch(Node name) fails: the disruption taint cannot be set
	createClaim   int            // Create(NodeClaim) fails: the replacement cannot be launched
	conflict      bool           // the patch fails with 409 Conflict instead of 500
	suspended     bool           // the harness itself is using the client (events it applies never fail)
}

func newWorld(now int64) *world {
	w := &world{ctx: kit.Context(), clk: clock.NewFakeClock(time.Unix(0, now)), cp: fake.NewCloudProvider(),
		recorder: test.NewEventRecorder(), pools: map[int]*v1.NodePool{}, claims: map[int]*v1.NodeClaim{}, nodes: map[int]*corev1.Node{}}
	w.faults = &faultPlan{patchNode: map[string]int{}}
	w.buffer = map[string]int{}
	w.hold = map[int]bool{}
	w.c = kit.NewClient(interceptor.Funcs{
		List: func(ctx context.Context, c client.WithWatch, list client.ObjectList, opts ...client.ListOption) error {
			if _, ok := list.(*v1.NodePoolList); ok && !w.faults.suspended && w.faults.listNodePools > 0 {
				w.faults.listNodePools--
				if w.faults.listNodePools == 0 {
					return apierrors.NewInternalError(fmt.Errorf("injected: list nodepools"))
				}
			}
			return c.List(ctx, list, opts...)
		},
		Patch: func(ctx context.Context, c client.WithWatch, obj client.Object, patch client.Patch, opts ...client.PatchOption) error {
			if n, ok := obj.(*corev1.Node); ok && !w.faults.suspended && w.faults.patchNode[n.Name] > 0 {
				w.faults.patchNode[n.Name]--
				if w.faults.conflict {
					return apierrors.NewConflict(corev1.Resource("nodes"), n.Name, fmt.Errorf("injected: patch node"))
				}
				return apierrors.NewInternalError(fmt.Errorf("injected: patch node"))
			}
			return c.Patch(ctx, obj, patch, opts...)
		},
		Create: func(ctx context.Context, c client.WithWatch, obj client.Object, opts ...client.CreateOption) error {
			if _, ok := obj.(*v1.NodeClaim); ok && !w.faults.suspended && w.faults.createClaim > 0 {
				w.faults.createClaim--
				return apierrors.NewInternalError(fmt.Errorf("injected: create nodeclaim"))
			}
			return c.Create(ctx, obj, opts...)
		},
	})
	// it-a: plenty of room, scheduling simulations succeed whenever pods have somewhere to go;
	// it-small: a cheaper type, so that replace decisions exist when there is no spare capacity
	w.it = fake.NewInstanceType("it-a", fake.WithResources(corev1.ResourceList{
		corev1.ResourceCPU: resource.MustParse("16"), corev1.ResourceMemory: resource.MustParse("64Gi"), corev1.ResourcePods: resource.MustParse("100")}))
	small := fake.NewInstanceType("it-small", fake.WithResources(corev1.ResourceList{
		corev1.ResourceCPU: resource.MustParse("2"), corev1.ResourceMemory: resource.MustParse("8Gi"), corev1.ResourcePods: resource.MustParse("20")}))
	w.cp.InstanceTypes = []*cloudprovider.InstanceType{w.it, small}
	w.cluster = state.NewCluster(w.clk, w.c, w.cp)
	w.prov = provisioning.NewProvisioner(w.c, w.recorder, w.cp, w.cluster, w.clk, deviceallocation.NewController(w.c), virtualpods.NewVirtualPodCache(w.c))
	w.queue = disruption.NewQueue(w.c, w.recorder, w.cluster, w.clk, w.prov)
	return w
}

func (w *world) addPool(p jPool) {
	np := test.NodePool(v1.NodePool{ObjectMeta: metav1.ObjectMeta{Name: p.Name}})
	np.Spec.Disruption.ConsolidateAfter = v1.MustParseNillableDuration("0s")
	np.Spec.Disruption.ConsolidationPolicy = v1.ConsolidationPolicyWhenEmptyOrUnderutilized
	if p.Policy != "" {
		np.Spec.Disruption.ConsolidationPolicy = v1.ConsolidationPolicy(p.Policy)
	}
	if p.NoConsolidation {
		np.Spec.Disruption.ConsolidateAfter = v1.MustParseNillableDuration("Never")
	}
	if p.Unmanaged {
		np.Spec.Template.Spec.NodeClassRef = &v1.NodeClassReference{Group: "example.com", Kind: "ForeignNodeClass", Name: "x"}
	}
	if p.NoInstanceTypes {
		w.cp.InstanceTypesForNodePool[p.Name] = []*cloudprovider.InstanceType{}
	}
	np.Spec.Disruption.Budgets = nil
	for _, b := range p.Budgets {
		np.Spec.Disruption.Budgets = append(np.Spec.Disruption.Budgets, b.toAPI())
	}
	if p.Static {
		r := int64(p.Replicas)
		np.Spec.Replicas = &r
		np.Spec.Limits = nil
		if p.Limit != nil {
			np.Spec.Limits = v1.Limits(corev1.ResourceList{"nodes": resource.MustParse(fmt.Sprint(*p.Limit))})
		}
	}
	kit.Apply(w.ctx, w.c, np)
	w.pools[p.ID] = np
}

// setBudgets edits the pool's budgets in the API (what a user does with kubectl).
func (w *world) setBudgets(id int, bs []jBudget) {
	np := &v1.NodePool{}
	if err := w.c.Get(w.ctx, client.ObjectKey{Name: poolName(id)}, np); err != nil {
		panic(err)
	}
	np.Spec.Disruption.Budgets = nil
	for _, b := range bs {
		np.Spec.Disruption.Budgets = append(np.Spec.Disruption.Budgets, b.toAPI())
	}
	if err := w.c.Update(w.ctx, np); err != nil {
		panic(err)
	}
}

func providerID(id int) string { return fmt.Sprintf("fake:///node-%03d", id) }

// addNode creates the NodeClaim/Node pair in the API and delivers them to the cluster state the
// way the informer controllers do (UpdateNodeClaim / UpdateNode).
func (w *world) addNode(n jNode) {
	name := fmt.Sprintf("node-%03d", n.ID)
	labels := map[string]string{
		v1.NodePoolLabelKey:            poolName(n.Pool),
		corev1.LabelInstanceTypeStable: w.it.Name,
		v1.CapacityTypeLabelKey:        v1.CapacityTypeOnDemand,
		corev1.LabelTopologyZone:       "test-zone-1",
		corev1.LabelHostname:           name,
	}
	alloc := corev1.ResourceList{corev1.ResourceCPU: resource.MustParse("16"), corev1.ResourceMemory: resource.MustParse("64Gi"), corev1.ResourcePods: resource.MustParse("100")}
	nc := test.NodeClaim(v1.NodeClaim{
		ObjectMeta: metav1.ObjectMeta{Name: name, Labels: labels, Finalizers: []string{"karpenter.sh/test-finalizer"}},
		Status:     v1.NodeClaimStatus{ProviderID: providerID(n.ID), NodeName: name, Allocatable: alloc, Capacity: alloc},
	})
	cs := nc.StatusConditions(status.WithClock(w.clk))
	cs.SetTrue(v1.ConditionTypeLaunched)
	cs.SetTrue(v1.ConditionTypeRegistered)
	if n.Init {
		cs.SetTrue(v1.ConditionTypeInitialized)
	}
	if n.NotConsolidatable {
		cs.SetFalse(v1.ConditionTypeConsolidatable, "NotYet", "NotYet")
	} else {
		cs.SetTrue(v1.ConditionTypeConsolidatable)
	}
	if n.Drifted {
		cs.SetTrue(v1.ConditionTypeDrifted)
	}
	if n.Term {
		cs.SetTrue(v1.ConditionTypeInstanceTerminating)
	}
	if n.Managed {
		kit.Apply(w.ctx, w.c, nc)
		if n.Deleting {
			if err := w.c.Delete(w.ctx, nc); err != nil {
				panic(err)
			}
			if err := w.c.Get(w.ctx, client.ObjectKeyFromObject(nc), nc); err != nil {
				panic(err)
			}
		}
		w.claims[n.ID] = nc
		w.cluster.UpdateNodeClaim(nc)
	}
	if n.HasNode {
		nl := map[string]string{}
		for k, v := range labels {
			nl[k] = v
		}
		if !n.Unregistered {
			nl[v1.NodeRegisteredLabelKey] = "true"
		}
		nl["verif/pin"] = name
		if n.Init {
			nl[v1.NodeInitializedLabelKey] = "true"
		}
		ann := map[string]string{}
		if n.Anchor {
			ann[v1.DoNotDisruptAnnotationKey] = "true"
		}
		node := test.Node(test.NodeOptions{ObjectMeta: metav1.ObjectMeta{Name: name, Labels: nl, Annotations: ann, Finalizers: []string{"karpenter.sh/test-finalizer"}},
			ProviderID: providerID(n.ID), Allocatable: alloc, Capacity: alloc})
		node.Namespace = "" // Nodes are cluster scoped (the code looks them up by name only)
		switch n.Ready {
		case "":
			node.Status.Conditions = nil
		default:
			node.Status.Conditions = []corev1.NodeCondition{{Type: corev1.NodeReady, Status: corev1.ConditionStatus(n.Ready)}}
		}
		kit.Apply(w.ctx, w.c, node)
		if n.NodeDel {
			if err := w.c.Delete(w.ctx, node); err != nil {
				panic(err)
			}
			if err := w.c.Get(w.ctx, client.ObjectKeyFromObject(node), node); err != nil {
				panic(err)
			}
		}
		w.nodes[n.ID] = node
		if err := w.cluster.UpdateNode(w.ctx, node); err != nil {
			panic(err)
		}
	}
	for i := 0; i < n.Pods; i++ {
		var sel map[string]string
		if n.Pinned {
			sel = map[string]string{"verif/pin": name}
		}
		pod := test.Pod(test.PodOptions{
			NodeSelector: sel,
			ObjectMeta: metav1.ObjectMeta{Name: fmt.Sprintf("pod-%03d-%d", n.ID, i), Namespace: "default",
				OwnerReferences: []metav1.OwnerReference{{APIVersion: "apps/v1", Kind: "ReplicaSet", Name: "rs", UID: "rs-uid", Controller: ptr(true), BlockOwnerDeletion: ptr(true)}}},
			NodeName:             name,
			ResourceRequirements: corev1.ResourceRequirements{Requests: corev1.ResourceList{corev1.ResourceCPU: resource.MustParse(map[bool]string{false: "100m", true: "9"}[n.BigPods])}},
			Phase:                corev1.PodRunning,
		})
		kit.Apply(w.ctx, w.c, pod)
		if err := w.cluster.UpdatePod(w.ctx, pod); err != nil {
			panic(err)
		}
	}
	if n.Marked {
		w.cluster.MarkForDeletion(providerID(n.ID))
	}
	if n.BufferPods {
		w.buffer[providerID(n.ID)] = 1
		w.cluster.UpdateBufferPodCounts(w.buffer)
	}
	if n.Nominated {
		w.cluster.NominateNodeForPod(w.ctx, providerID(n.ID))
	}
}

func ptr[T any](x T) *T { return &x }

// refresh re-delivers the API objects of node id to the cluster state (after the harness edited them).
func (w *world) refresh(id int) {
	if w.hold[id] {
		return
	}
	if nc, ok := w.claims[id]; ok {
		cur := &v1.NodeClaim{}
		if err := w.c.Get(w.ctx, client.ObjectKeyFromObject(nc), cur); err == nil {
			w.claims[id] = cur
			w.cluster.UpdateNodeClaim(cur)
		}
	}
	if n, ok := w.nodes[id]; ok {
		cur := &corev1.Node{}
		if err := w.c.Get(w.ctx, client.ObjectKeyFromObject(n), cur); err == nil {
			w.nodes[id] = cur
			if err := w.cluster.UpdateNode(w.ctx, cur); err != nil {
				panic(err)
			}
		}
	}
}

// gNode renders the model's view of a node. A managed node without a Node object is not
// initialized (StateNode.Initialized needs the label on the Node).
func gNode(n jNode) string {
	init := n.Init && n.HasNode
	return fmt.Sprintf("(mkNode %s %s %s %s %s %s %s %s)", kit.GZ(int64(n.ID)), kit.GZ(int64(n.Pool)), kit.GBool(n.Managed), kit.GBool(init),
		kit.GBool(n.Term && n.Managed), kit.GBool(n.Ready == "True"), kit.GBool(n.Marked), kit.GBool(n.Deleting && n.Managed))
}

func gPool(p jPool, now int64) string {
	var bs []string
	for _, b := range p.Budgets {
		t, _ := gBudget(b, now)
		bs = append(bs, t)
	}
	lim := "None"
	if p.Limit != nil {
		lim = "(Some " + kit.GZ(int64(*p.Limit)) + ")"
	}
	return fmt.Sprintf("(mkPool %s %s %s %s %s)", kit.GZ(int64(p.ID)), kit.GList(bs), kit.GBool(p.Static), kit.GZ(int64(p.Replicas)), lim)
}

func gMapping(m map[string]int, pools []jPool) string {
	var out []string
	ids := map[string]int{}
	for _, p := range pools {
		ids[p.Name] = p.ID
	}
	keys := kit.SortedKeys(m)
	sort.Slice(keys, func(i, j int) bool { return ids[keys[i]] < ids[keys[j]] })
	for _, k := range keys {
		id, ok := ids[k]
		if !ok {
			id = -1
		}
		out = append(out, kit.GPair(kit.GZ(int64(id)), kit.GZ(int64(m[k]))))
	}
	return kit.GList(out)
}
