package main

import "verifharness/kit"

func partMethods(c *kit.Ctx) {}
func partRounds(c *kit.Ctx)  {}
