package main

// Part B: the five disruption methods' ComputeCommands under generated budget mappings (B1), the
// validators' re-check after the world changed (V), and multi-round histories through the real
// Controller.Reconcile / Queue (R).

import (
	"context"
	"errors"
	"fmt"
	"sort"
	"strings"
	"time"

	corev1 "k8s.io/api/core/v1"
	metav1 "k8s.io/apimachinery/pkg/apis/meta/v1"
	clock "k8s.io/utils/clock/testing"
	"sigs.k8s.io/controller-runtime/pkg/client"

	v1 "sigs.k8s.io/karpenter/pkg/apis/v1"
	"sigs.k8s.io/karpenter/pkg/controllers/disruption"
	"sigs.k8s.io/karpenter/pkg/state/cost"
	"sigs.k8s.io/karpenter/pkg/test"

	"verifharness/kit"
)

var methodNames = []string{"MEmptiness", "MStaticDrift", "MDrift", "MMulti", "MSingle"}

const (
	mEmptiness = iota
	mStaticDrift
	mDrift
	mMulti
	mSingle
)

func methodReason(m int) v1.DisruptionReason {
	switch m {
	case mEmptiness:
		return v1.DisruptionReasonEmpty
	case mStaticDrift, mDrift:
		return v1.DisruptionReasonDrifted
	}
	return v1.DisruptionReasonUnderutilized
}

// passValidator accepts every command and remembers it (the proposal before validation).
type passValidator struct{ got []disruption.Command }

func (p *passValidator) Validate(_ context.Context, cmd disruption.Command, _ time.Duration) (disruption.Command, error) {
	p.got = append(p.got, cmd)
	return cmd, nil
}

// delayedValidator stands for the 15 s validation delay: it lets the world change (between), then
// runs the real validator without waiting.
type delayedValidator struct {
	inner   disruption.Validator
	between func()
	// with a clock, the validator really waits for its validation period on the FakeClock; between
	// runs while it is blocked and must end by moving the clock past the period
	clk     *clock.FakeClock
	noDelay bool
	out     []disruption.Command
	prop    []disruption.Command
	// the re-simulation of validateCommand disagreed with the command (not a budget matter)
	schedulingRejected bool
}

func (d *delayedValidator) Validate(ctx context.Context, cmd disruption.Command, period time.Duration) (disruption.Command, error) {
	d.prop = append(d.prop, cmd)
	var out disruption.Command
	var err error
	if d.clk != nil && d.between != nil {
		done, returned := make(chan struct{}), make(chan struct{})
		ran := false
		go func() {
			defer close(done)
			for !d.clk.HasWaiters() {
				select {
				case <-returned: // the validator came back without ever waiting on the clock
					return
				default:
					time.Sleep(200 * time.Microsecond)
				}
			}
			ran = true
			d.between()
			if d.clk.HasWaiters() {
				// a harness bug (the delay events must move the clock past the validation period): fail loudly instead of hanging
				panic("c05 harness: the validator is still waiting on the clock after the delay events")
			}
		}()
		out, err = d.inner.Validate(ctx, cmd, period)
		close(returned)
		<-done
		if !ran {
			// no validation delay was observed: the world still moves before the command starts
			d.noDelay = true
			d.between()
		}
	} else {
		if d.between != nil {
			d.between()
		}
		out, err = d.inner.Validate(ctx, cmd, 0)
	}
	if err == nil {
		d.out = append(d.out, out)
	}
	var se *disruption.SchedulingValidationError
	if err != nil && errors.As(err, &se) {
		d.schedulingRejected = true
	}
	return out, err
}

func (w *world) newMethod(m int, val disruption.Validator, real bool) disruption.Method {
	cons := disruption.MakeConsolidation(w.clk, w.cluster, w.c, w.prov, w.cp, w.recorder, w.queue)
	switch m {
	case mEmptiness:
		if real {
			val.(*delayedValidator).inner = disruption.NewEmptinessValidator(cons)
		}
		return disruption.NewEmptiness(cons, disruption.WithValidator(val))
	case mStaticDrift:
		return disruption.NewStaticDrift(w.cluster, w.prov, w.cp)
	case mDrift:
		return disruption.NewDrift(w.c, w.cluster, w.prov, w.recorder, w.clk)
	case mMulti:
		if real {
			val.(*delayedValidator).inner = disruption.NewMultiConsolidationValidator(cons)
		}
		return disruption.NewMultiNodeConsolidation(cons, disruption.WithValidator(val))
	default:
		if real {
			val.(*delayedValidator).inner = disruption.NewSingleConsolidationValidator(cons)
		}
		return disruption.NewSingleNodeConsolidation(cons, disruption.WithValidator(val))
	}
}

func indexOfReason(r v1.DisruptionReason) int {
	for i, x := range reasonNames {
		if x == r {
			return i
		}
	}
	return 0
}

func nodeID(name string) int {
	var id int
	fmt.Sscanf(name, "node-%d", &id)
	return id
}

type jCand struct {
	Node  int  `json:"node"`
	Pool  int  `json:"pool"`
	Empty bool `json:"empty"`
	Nom   bool `json:"nominated,omitempty"`
	SimOK bool `json:"sim_ok"`
}

func gCand(c jCand) string {
	return fmt.Sprintf("(mkCand %s %s %s %s %s)", kit.GZ(int64(c.Node)), kit.GZ(int64(c.Pool)), kit.GBool(c.Empty), kit.GBool(c.Nom), kit.GBool(c.SimOK))
}

func (w *world) poolID(name string) int {
	for id, np := range w.pools {
		if np.Name == name {
			return id
		}
	}
	return 0
}

func (w *world) toJCands(cs []*disruption.Candidate, pinned map[int]bool) []jCand {
	out := make([]jCand, len(cs))
	for i, c := range cs {
		id := nodeID(c.Name())
		out[i] = jCand{Node: id, Pool: w.poolID(c.NodePool.Name), Empty: c.IsEmpty(), Nom: w.cluster.IsNodeNominated(c.ProviderID()), SimOK: !pinned[id]}
	}
	return out
}

func cmdIDs(cmds []disruption.Command) []int {
	var out []int
	for _, cmd := range cmds {
		for _, c := range cmd.Candidates {
			out = append(out, nodeID(c.Name()))
		}
	}
	return out
}

func gInts(xs []int) string {
	return kit.GListOf(xs, func(x int) string { return kit.GZ(int64(x)) })
}

func gMapInt(m map[int]int) string {
	keys := make([]int, 0, len(m))
	for k := range m {
		keys = append(keys, k)
	}
	sort.Ints(keys)
	return kit.GListOf(keys, func(k int) string { return kit.GPair(kit.GZ(int64(k)), kit.GZ(int64(m[k]))) })
}

// genWorld: pools with a few nodes each; plus two do-not-disrupt anchor nodes with spare capacity
// so that every movable pod has somewhere to go.
func genWorld(r *kit.Rand, m int, nPools int) ([]jPool, []jNode, map[int]bool) {
	var pools []jPool
	for i := 1; i <= nPools; i++ {
		p := jPool{ID: i, Name: poolName(i)}
		if m == mStaticDrift {
			p.Static = true
			p.Replicas = r.Range(1, 6)
			if r.Chance(1, 2) {
				p.Limit = ptr(r.Range(1, 8))
			}
		} else if !forceTight {
			// the optional NodePool fields the methods read
			switch r.Intn(12) {
			case 0, 1:
				p.Policy = string(v1.ConsolidationPolicyBalanced)
			case 2:
				p.Policy = string(v1.ConsolidationPolicyWhenEmpty)
			case 3:
				p.NoConsolidation = true
			case 4:
				p.NoInstanceTypes = i > 1
			case 5:
				// a static pool next to dynamic ones: its nodes are no candidates for these methods
				p.Static, p.Replicas = true, 6
			}
		}
		pools = append(pools, p)
	}
	// one world in four is tight: no spare (anchor) capacity, so pods can only move to other
	// candidates or to a replacement node (replace decisions, commands with replacements)
	tight := m != mStaticDrift && m != mEmptiness && (forceTight || r.Chance(1, 4))
	if m != mStaticDrift {
		pools = append(pools, jPool{ID: 9, Name: poolName(9)})
	}
	var nodes []jNode
	pinned := map[int]bool{}
	id := 1
	for _, p := range pools {
		if p.ID == 9 {
			continue
		}
		total := r.Range(0, 6)
		if forceTight {
			total = 3
		}
		if p.Static {
			total = r.Range(1, p.Replicas+1)
		}
		for k := 0; k < total; k++ {
			n := jNode{ID: id, Pool: p.ID, Managed: true, HasNode: true, Init: true, Ready: "True"}
			switch m {
			case mEmptiness:
				if r.Chance(1, 4) {
					n.Pods = 1
				}
				n.Drifted = r.Chance(1, 3)
			case mMulti, mSingle:
				n.Drifted = r.Chance(1, 3)
				n.Pods = r.Range(1, 2)
				if r.Chance(1, 6) {
					n.Pods = 0
				}
				if m == mSingle && r.Chance(1, 4) {
					n.Pinned = true
				}
			case mDrift:
				n.Drifted = r.Chance(4, 5)
				n.Pods = r.Intn(2)
				if n.Pods > 0 && r.Chance(1, 4) {
					n.Pinned = true
				}
				if tight {
					n.Pods, n.BigPods, n.Pinned = 1, true, false
				}
			case mStaticDrift:
				n.Drifted = r.Chance(4, 5)
				n.Pods = r.Intn(2)
			}
			if forceTight {
				n.Pinned = false
				if n.Pods == 0 {
					n.Pods = 1
				}
			}
			// a few already unhealthy / disrupting nodes, and states that keep a node out of candidacy
			switch r.Intn(20) + map[bool]int{false: 0, true: 100}[forceTight] {
			case 0:
				n.Ready = "False"
			case 1:
				n.Marked = true
			case 2:
				n.Deleting = true
			case 3:
				n.NotConsolidatable = true
			case 4:
				n.BufferPods = true
			case 5:
				n.Init, n.Unregistered = false, true
			case 6:
				n.Init = false
			}
			if n.Pinned && n.Pods > 0 {
				pinned[id] = true
				// pods of a deleting node take part in every simulation; pinned ones would block them all
				n.Marked, n.Deleting = false, false
			}
			nodes = append(nodes, n)
			id++
		}
	}
	if m != mStaticDrift && !tight {
		for k := 0; k < 2; k++ {
			nodes = append(nodes, jNode{ID: 900 + k, Pool: 9, Managed: true, HasNode: true, Init: true, Ready: "True", Anchor: true})
		}
	}
	return pools, nodes, pinned
}

func (w *world) build(pools []jPool, nodes []jNode) {
	for _, p := range pools {
		w.addPool(p)
	}
	for _, n := range nodes {
		w.addNode(n)
	}
}

func (w *world) candidates(meth disruption.Method) []*disruption.Candidate {
	return w.candidatesWith(meth.ShouldDisrupt, meth.Class())
}

func (w *world) candidatesWith(filter disruption.CandidateFilter, class string) []*disruption.Candidate {
	cs, err := disruption.GetCandidates(w.ctx, w.cluster, w.c, w.recorder, w.clk, w.cp, filter, class, w.queue)
	if err != nil {
		panic(err)
	}
	// cluster state iterates a map; fix an order so that cases replay
	sort.Slice(cs, func(i, j int) bool { return cs[i].Name() < cs[j].Name() })
	return cs
}

type caseB struct {
	Kind    string      `json:"kind"`
	Method  string      `json:"method"`
	Mapping map[int]int `json:"mapping"`
	Pools   []jPool     `json:"pools"`
	Nodes   []jNode     `json:"nodes"`
	Cands   []jCand     `json:"candidates_in_method_order"`
	Choice  string      `json:"choice"`
	Obs     []int       `json:"impl_selected"`
}

// genMapping: values around the number of candidates per pool (0, 1, fewer, exactly, more).
func genMapping(r *kit.Rand, pools []jPool, perPool map[int]int) map[int]int {
	mp := map[int]int{}
	for _, p := range pools {
		n := perPool[p.ID]
		if forceTight {
			mp[p.ID] = n + 1 // room for every candidate: the decision needs a replacement node
			continue
		}
		switch r.Intn(7) {
		case 0: // absent: reads 0
		case 1:
			mp[p.ID] = 0
		case 2:
			mp[p.ID] = 1
		case 3:
			mp[p.ID] = n
		case 4:
			mp[p.ID] = n + 1
		case 5:
			if n > 1 {
				mp[p.ID] = n - 1
			} else {
				mp[p.ID] = 2
			}
		default:
			mp[p.ID] = 2147483647
		}
	}
	return mp
}

func runMethod(c *kit.Ctx, r *kit.Rand, m int) {
	pools, nodes, pinned := genWorld(r, m, r.Range(1, 3))
	w := newWorld(baseTimes[0].UnixNano())
	w.build(pools, nodes)
	val := &passValidator{}
	meth := w.newMethod(m, val, false)
	cs := w.candidates(meth)
	if m == mEmptiness && r.Chance(1, 2) {
		// hand Emptiness every disruptable node (it re-checks IsEmpty itself)
		cs = w.candidatesWith(func(context.Context, *disruption.Candidate) bool { return true }, meth.Class())
	}
	perPool := map[int]int{}
	for _, cd := range cs {
		perPool[w.poolID(cd.NodePool.Name)]++
	}
	mpID := genMapping(r, pools, perPool)
	mp := map[string]int{}
	for id, v := range mpID {
		mp[poolName(id)] = v
	}
	choice := "(ChK 0)"
	if m == mStaticDrift {
		var groups []string
		for _, p := range pools {
			limit := int64(9223372036854775807)
			if p.Limit != nil {
				limit = int64(*p.Limit)
			}
			reserved := int64(0)
			if r.Chance(1, 3) { // somebody (provisioning) already holds a reservation
				reserved = w.cluster.NodePoolState.ReserveNodeCount(p.Name, limit, int64(r.Range(1, 2)))
			}
			a, d, pd := w.cluster.NodePoolState.GetNodeCount(p.Name)
			groups = append(groups, fmt.Sprintf("(%s, mkCounts %s %s %s %s)", kit.GZ(int64(p.ID)), kit.GZ(int64(a)), kit.GZ(int64(d)), kit.GZ(int64(pd)), kit.GZ(reserved)))
		}
		choice = "(ChStatic " + kit.GList(groups) + ")"
	}
	cmds, err := meth.ComputeCommands(w.ctx, mp, cs...)
	if err != nil {
		panic(fmt.Sprintf("%s.ComputeCommands: %v", methodNames[m], err))
	}
	obs := cmdIDs(cmds)
	// ComputeCommands sorted the slice it was given in place (emptiness, multi): cs is now in the method's order
	jc := w.toJCands(cs, pinned)
	if m == mMulti {
		choice = fmt.Sprintf("(ChK %d)", len(obs))
	}
	if m == mSingle || m == mDrift {
		// which simulations succeed is a choice of the model, taken from what the implementation did
		for i := range jc {
			jc[i].SimOK = len(obs) > 0 && jc[i].Node == obs[0]
		}
	}
	// distribution: how the budget bit
	constrained, tookAll := false, true
	sel := map[int]int{}
	for _, id := range obs {
		for _, x := range jc {
			if x.Node == id {
				sel[x.Pool]++
			}
		}
	}
	for pid, n := range perPool {
		if mpID[pid] < n {
			constrained = true
		}
		if sel[pid] < n {
			tookAll = false
		}
	}
	switch {
	case len(cs) == 0:
		c.Count("B:" + methodNames[m] + ":no-candidates")
	case len(obs) == 0 && constrained:
		c.Count("B:" + methodNames[m] + ":nothing-selected,budget-constrained")
	case len(obs) == 0:
		c.Count("B:" + methodNames[m] + ":nothing-selected,unconstrained")
	case constrained && !tookAll:
		c.Count("B:" + methodNames[m] + ":selected,budget-bound")
	default:
		c.Count("B:" + methodNames[m] + ":selected,budget-slack")
	}
	key := ""
	if len(cs) > 0 {
		key = fmt.Sprintf("B:%s|%s|%v|%v", methodNames[m], gMapInt(mpID), jc, obs)
	}
	c.AddCase(fmt.Sprintf("CaseB %s %s %s %s %s %s", methodNames[m], gMapInt(mpID),
		kit.GListOf(pools, func(p jPool) string { return gPool(p, w.clk.Now().UnixNano()) }),
		kit.GListOf(jc, gCand), choice, gInts(obs)),
		caseB{"method", methodNames[m], mpID, pools, nodes, jc, choice, obs}, key)
}

// ---- V: validators ----

type jEvent struct {
	Kind    string    `json:"kind"`
	Node    int       `json:"node,omitempty"`
	Pool    int       `json:"pool,omitempty"`
	Ready   bool      `json:"ready,omitempty"`
	Time    int64     `json:"time,omitempty"`
	Budgets []jBudget `json:"budgets,omitempty"`
	NewNode *jNode    `json:"new_node,omitempty"`
}

// apply performs the event in the real world (API + cluster state, the way informers deliver it).
func (w *world) apply(e jEvent) {
	w.faults.suspended = true
	defer func() { w.faults.suspended = false }()
	switch e.Kind {
	case "ready":
		known, ok := w.nodes[e.Node]
		if !ok {
			return
		}
		n := &corev1.Node{}
		if err := w.c.Get(w.ctx, client.ObjectKeyFromObject(known), n); err != nil {
			panic(err)
		}
		st := corev1.ConditionFalse
		if e.Ready {
			st = corev1.ConditionTrue
		}
		n.Status.Conditions = []corev1.NodeCondition{{Type: corev1.NodeReady, Status: st}}
		if err := w.c.Status().Update(w.ctx, n); err != nil {
			panic(err)
		}
		w.refresh(e.Node)
	case "delete":
		if nc, ok := w.claims[e.Node]; ok {
			_ = w.c.Delete(w.ctx, nc)
			w.refresh(e.Node)
		}
	case "mark":
		w.cluster.MarkForDeletion(providerID(e.Node))
	case "nominate":
		w.cluster.NominateNodeForPod(w.ctx, providerID(e.Node))
	case "clock":
		w.clk.SetTime(time.Unix(0, e.Time))
	case "budgets":
		w.setBudgets(e.Pool, e.Budgets)
	case "add":
		w.addNode(*e.NewNode)
	case "pending-claim":
		// the provisioner created a NodeClaim that is not launched yet: cluster state is not synced
		nc := test.NodeClaim(v1.NodeClaim{ObjectMeta: metav1.ObjectMeta{Name: "pending-claim", Labels: map[string]string{v1.NodePoolLabelKey: poolName(1)}}})
		nc.Status.ProviderID = ""
		w.cluster.UpdateNodeClaim(nc)
	case "launched":
		w.cluster.DeleteNodeClaim("pending-claim")
	}
}

type caseV struct {
	Kind    string      `json:"kind"`
	Method  string      `json:"method"`
	Pools   []jPool     `json:"pools"`
	Nodes   []jNode     `json:"nodes"`
	Prop    []jCand     `json:"proposed"`
	Events  []jEvent    `json:"events_before_validation"`
	Mapping map[int]int `json:"mapping_at_validation"`
	Cur     []jCand     `json:"candidates_at_validation"`
	Obs     []int       `json:"impl_validated"`
}

func runValidator(c *kit.Ctx, r *kit.Rand, m int) {
	pools, nodes, pinned := genWorld(r, m, r.Range(1, 2))
	// budgets that leave room at first; two times in three they are reason-scoped, the method's own
	// reason being the tightest (a validator re-checking another reason's budget would be too lenient)
	own := methodReason(m)
	scoped := r.Chance(2, 3)
	for i := range pools {
		pools[i].Budgets = []jBudget{{Nodes: fmt.Sprint(r.Range(1, 4))}}
		if scoped {
			pools[i].Budgets = scopedBudgets(own, r.Range(2, 4), r.Chance(1, 2))
		}
	}
	if scoped {
		c.Count("V:" + methodNames[m] + ":reason-scoped-budgets")
	}
	// ten seconds before 11:00: a scheduled window can open during the validation delay
	w := newWorld(scheduleAt.Add(-10 * time.Second).UnixNano())
	w.build(pools, nodes)
	pv := &passValidator{}
	meth := w.newMethod(m, pv, false)
	cs := w.candidates(meth)
	mp, err := disruption.BuildDisruptionBudgetMapping(w.ctx, w.cluster, w.clk, w.c, w.cp, w.recorder, meth.Reason())
	if err != nil {
		panic(err)
	}
	if _, err := meth.ComputeCommands(w.ctx, mp, cs...); err != nil {
		panic(err)
	}
	if len(pv.got) == 0 {
		c.Count("V:" + methodNames[m] + ":no-proposal")
		return
	}
	cmd := pv.got[0]
	prop := w.toJCands(cmd.Candidates, pinned)
	// the world moves during the validation delay
	var evs []jEvent
	others := []int{}
	for _, n := range nodes {
		if !n.Anchor && !pinned[n.ID] {
			others = append(others, n.ID)
		}
	}
	for k := r.Intn(4); k > 0 && len(others) > 0; k-- {
		switch r.Intn(9) {
		case 6: // the 15 s pass: a window scheduled for 11:00 opens
			evs = append(evs, jEvent{Kind: "clock", Time: scheduleAt.Add(5 * time.Second).UnixNano()})
		case 7: // somebody tightens the budget of the method's own reason only
			p := kit.Pick(r, pools)
			evs = append(evs, jEvent{Kind: "budgets", Pool: p.ID, Budgets: scopedBudgets(own, r.Range(0, 1), false)})
		case 8: // ... or of another reason only (must not matter)
			p := kit.Pick(r, pools)
			other := reasonNames[(r.Intn(2)+1+indexOfReason(own))%3]
			bs := scopedBudgets(other, 0, false)
			evs = append(evs, jEvent{Kind: "budgets", Pool: p.ID, Budgets: bs})
		case 0:
			evs = append(evs, jEvent{Kind: "ready", Node: kit.Pick(r, others), Ready: false})
		case 1:
			evs = append(evs, jEvent{Kind: "mark", Node: kit.Pick(r, others)})
		case 2:
			evs = append(evs, jEvent{Kind: "delete", Node: kit.Pick(r, others)})
		case 3:
			evs = append(evs, jEvent{Kind: "nominate", Node: kit.Pick(r, prop).Node})
		case 4:
			p := kit.Pick(r, pools)
			evs = append(evs, jEvent{Kind: "budgets", Pool: p.ID, Budgets: []jBudget{{Nodes: fmt.Sprint(r.Range(0, 2))}}})
		case 5:
			p := kit.Pick(r, pools)
			evs = append(evs, jEvent{Kind: "budgets", Pool: p.ID, Budgets: []jBudget{{Nodes: kit.Pick(r, []string{"0%", "10%", "50%"})}, {Nodes: "3"}}})
		}
	}
	for _, e := range evs {
		w.apply(e)
	}
	dv := &delayedValidator{}
	real := w.newMethod(m, dv, true)
	cur := w.candidates(real)
	mp2, err := disruption.BuildDisruptionBudgetMapping(w.ctx, w.cluster, w.clk, w.c, w.cp, w.recorder, real.Reason())
	if err != nil {
		panic(err)
	}
	mpID := map[int]int{}
	for name, v := range mp2 {
		mpID[w.poolID(name)] = v
	}
	out, verr := dv.inner.Validate(w.ctx, cmd, 0)
	var obs []int
	if verr == nil {
		obs = cmdIDs([]disruption.Command{out})
	} else if !disruption.IsValidationError(verr) {
		panic(verr)
	}
	jcur := w.toJCands(cur, pinned)
	switch {
	case verr != nil:
		c.Count("V:" + methodNames[m] + ":rejected")
	case len(obs) < len(prop):
		c.Count("V:" + methodNames[m] + ":trimmed")
	default:
		c.Count("V:" + methodNames[m] + ":accepted")
	}
	c.AddCase(fmt.Sprintf("CaseV %s %s %s %s %s", methodNames[m], gMapInt(mpID), kit.GListOf(prop, gCand), kit.GListOf(jcur, gCand), gInts(obs)),
		caseV{"validator", methodNames[m], pools, nodes, prop, evs, mpID, jcur, obs},
		fmt.Sprintf("V:%s|%v|%v|%v|%v", methodNames[m], prop, mpID, jcur, obs))
}

// forceTight makes genWorld build worlds without spare capacity and genMapping leave room for all
// candidates, so that replace decisions (commands with replacement NodeClaims) are certain.
var forceTight bool

func partMethods(c *kit.Ctx) {
	forceTight = true
	for _, m := range []int{mMulti, mMulti, mMulti, mSingle, mSingle, mDrift, mDrift} {
		c.Count("B:" + methodNames[m] + ":world=no-spare-capacity")
		runMethod(c, c.Rand.Fork(), m)
	}
	// ... and the consolidation validators re-simulate commands that carry a replacement
	for _, m := range []int{mMulti, mMulti, mSingle, mSingle} {
		c.Count("V:" + methodNames[m] + ":world=no-spare-capacity")
		runValidator(c, c.Rand.Fork(), m)
	}
	forceTight = false
	n := 24
	if c.Thorough() {
		n = 200
	}
	for m := 0; m < 5; m++ {
		for i := 0; i < n; i++ {
			runMethod(c, c.Rand.Fork(), m)
		}
	}
	for _, m := range []int{mEmptiness, mMulti, mSingle} {
		for i := 0; i < n; i++ {
			runValidator(c, c.Rand.Fork(), m)
		}
	}
}

// ---- R: histories through Controller.Reconcile and the Queue ----

// recMethod wraps a real method and records what the controller handed to it.
type recMethod struct {
	disruption.Method
	mapping map[string]int
	cands   []*disruption.Candidate
	cmds    []disruption.Command
	called  bool
	ran     bool // the controller got as far as listing this method's candidates
	err     error
	before  func(cs []*disruption.Candidate) // runs just before the inner ComputeCommands (snapshots what the method will read)
}

// Class is asked for once per controller loop, when the method's candidates are listed.
func (m *recMethod) Class() string {
	m.ran = true
	return m.Method.Class()
}

// SetNodePoolTotals keeps the wrapped method visible as a NodePoolTotalsSetter (balanced scoring).
func (m *recMethod) SetNodePoolTotals(t map[string]disruption.NodePoolTotals) {
	if s, ok := m.Method.(disruption.NodePoolTotalsSetter); ok {
		s.SetNodePoolTotals(t)
	}
}

func (m *recMethod) ComputeCommands(ctx context.Context, mp map[string]int, cs ...*disruption.Candidate) ([]disruption.Command, error) {
	m.called = true
	m.mapping = map[string]int{}
	for k, v := range mp {
		m.mapping[k] = v
	}
	if m.before != nil {
		m.before(cs)
	}
	cmds, err := m.Method.ComputeCommands(ctx, mp, cs...)
	m.cands = cs // sorted in place by the method
	m.cmds = cmds
	m.err = err
	return cmds, err
}

// gObservedMapping renders the mapping the controller handed to the method, by pool id.
func gObservedMapping(mp map[string]int, w *world) string {
	byID := map[int]int{}
	for name, v := range mp {
		if id := w.poolID(name); id != 0 {
			byID[id] = v
		}
	}
	return gMapInt(byID)
}

// envOps renders an applied event as model ops; only after its last term (a clock move is followed
// by the re-supplied schedule descriptions) is the real mapping comparable with the model's.
func (s *roundState) envOps(e jEvent, r *kit.Rand) []string {
	terms := s.envTerms(e)
	var out []string
	for i, t := range terms {
		post := "(Empty, [])"
		if i == len(terms)-1 {
			post = s.post(r)
		}
		out = append(out, fmt.Sprintf("(OEnv %s, [], [], %s)", t, post))
	}
	return out
}

// post observes the budget mapping of the real cluster as it is now, for a reason picked at random.
func (s *roundState) post(r *kit.Rand) string {
	reason := kit.Pick(r, reasonNames)
	s.w.faults.suspended = true
	mp, err := disruption.BuildDisruptionBudgetMapping(s.w.ctx, s.w.cluster, s.w.clk, s.w.c, s.w.cp, s.w.recorder, reason)
	s.w.faults.suspended = false
	if err != nil {
		panic(err)
	}
	return kit.GPair(gReason(reason), gObservedMapping(mp, s.w))
}

// loopMethod is one method of a controller loop in a round history.
type loopMethod struct {
	m            int
	rec          *recMethod
	dv           *delayedValidator
	between      []jEvent
	betweenTerms []string
	cur          []jCand
	choice       string
	clockLast    bool
	toWindow     bool
}

type methodSlot struct {
	meth disruption.Method
	dv   *delayedValidator
}

// wouldSelect: some empty candidate's pool has budget left (Emptiness proposes unless it short-circuits).
func wouldSelect(jc []jCand, mp map[string]int, w *world) bool {
	for _, c := range jc {
		if c.Empty && mp[poolName(c.Pool)] > 0 {
			return true
		}
	}
	return false
}

type roundState struct {
	w      *world
	pools  []jPool
	nodes  map[int]*jNode // the model's view, kept in step with the events the harness applies
	order  []int
	pinned map[int]bool
	queue  map[int]bool
}

func (s *roundState) gSys() string {
	var ns []string
	for _, id := range s.order {
		ns = append(ns, gNode(*s.nodes[id]))
	}
	now := s.w.clk.Now().UnixNano()
	return fmt.Sprintf("(mkSys %s %s %s [])", kit.GZ(now), kit.GListOf(s.pools, func(p jPool) string { return gPool(p, now) }), kit.GList(ns))
}

func gEnv(e jEvent, now int64) string {
	switch e.Kind {
	case "ready":
		return fmt.Sprintf("(EReady %s %s)", kit.GZ(int64(e.Node)), kit.GBool(e.Ready))
	case "delete":
		return fmt.Sprintf("(EDelete %s)", kit.GZ(int64(e.Node)))
	case "clock":
		return fmt.Sprintf("(EClock %s)", kit.GZ(e.Time))
	case "budgets":
		var bs []string
		for _, b := range e.Budgets {
			t, _ := gBudget(b, now)
			bs = append(bs, t)
		}
		return fmt.Sprintf("(EBudgets %s %s)", kit.GZ(int64(e.Pool)), kit.GList(bs))
	case "add":
		return fmt.Sprintf("(EAdd %s)", gNode(*e.NewNode))
	}
	panic("gEnv: " + e.Kind)
}

// envTerms renders an event for the model. After a clock move the schedules' (next, last)
// descriptions are re-supplied for the new instant through EBudgets (a no-op in the real world).
func (s *roundState) envTerms(e jEvent) []string {
	if e.Kind == "pending-claim" || e.Kind == "launched" {
		return nil // not a state the budget accounting reads; the controller just waits for the sync
	}
	now := s.w.clk.Now().UnixNano()
	out := []string{gEnv(e, now)}
	if e.Kind == "clock" {
		for _, p := range s.pools {
			out = append(out, gEnv(jEvent{Kind: "budgets", Pool: p.ID, Budgets: p.Budgets}, e.Time))
		}
	}
	return out
}

func (s *roundState) applyEvent(e jEvent) {
	s.w.apply(e)
	switch e.Kind {
	case "ready":
		if n, ok := s.nodes[e.Node]; ok {
			n.Ready = map[bool]string{true: "True", false: "False"}[e.Ready]
		}
	case "delete":
		if n, ok := s.nodes[e.Node]; ok {
			n.Deleting = true
		}
	case "budgets":
		for i := range s.pools {
			if s.pools[i].ID == e.Pool {
				s.pools[i].Budgets = e.Budgets
			}
		}
	case "add":
		n := *e.NewNode
		s.nodes[n.ID] = &n
		s.order = append(s.order, n.ID)
	}
}

type jOp struct {
	Op          string         `json:"op"`
	Method      string         `json:"method,omitempty"`
	Event       *jEvent        `json:"event,omitempty"`
	Between     []jEvent       `json:"events_during_validation,omitempty"`
	Cands       []jCand        `json:"candidates,omitempty"`
	Proposed    []int          `json:"proposed,omitempty"`
	Mapping     map[string]int `json:"impl_mapping,omitempty"`
	Fault       string         `json:"injected_fault,omitempty"`
	StartFailed []int          `json:"start_failed,omitempty"`
	NewQueue    []int          `json:"impl_newly_queued"`
	IDs         []int          `json:"command,omitempty"`
	OK          bool           `json:"ok,omitempty"`
	Withheld    bool           `json:"deletion_not_yet_observed_by_cluster_state,omitempty"`
	LoopPos     string         `json:"position_in_controller_loop,omitempty"`
}

type caseR struct {
	Kind  string  `json:"kind"`
	Pools []jPool `json:"pools"`
	Nodes []jNode `json:"nodes"`
	Ops   []jOp   `json:"ops"`
}

var scheduleAt = time.Date(2026, 9, 23, 11, 0, 0, 0, time.UTC)

// scopedBudgets: one budget per disruption reason, each listing only that reason. The budget of
// reason own has value ownVal, the other two are looser by 2 and 3. With window, an own-reason-only
// blocking budget opens at 11:00 for ten minutes.
func scopedBudgets(own v1.DisruptionReason, ownVal int, window bool) []jBudget {
	var bs []jBudget
	loose := ownVal + 2
	for _, rn := range reasonNames {
		v := loose
		if rn == own {
			v = ownVal
		} else {
			loose++
		}
		bs = append(bs, jBudget{Nodes: fmt.Sprint(v), Reasons: []string{string(rn)}})
	}
	if window {
		bs = append(bs, jBudget{Nodes: "0", Reasons: []string{string(own)}, Schedule: ptr("0 11 * * *"), Duration: ptr("10m")})
	}
	return bs
}

func genRoundBudgets(r *kit.Rand) []jBudget {
	var bs []jBudget
	switch r.Intn(9) {
	case 8: // a budget that cannot be read: the pool is closed for every reason
		bs = append(bs, jBudget{Nodes: "5"}, kit.Pick(r, []jBudget{
			{Nodes: "1", Schedule: ptr("61 * * * *"), Duration: ptr("10m")},
			{Nodes: "lots"},
			{Nodes: "1", Duration: ptr("10m")},
			{Nodes: "10 %", Reasons: []string{string(kit.Pick(r, reasonNames))}}}))
		return bs
	case 5, 6: // reason-scoped: every reason has its own value
		return scopedBudgets(kit.Pick(r, reasonNames), r.Range(0, 2), false)
	case 7: // ... and a window that blocks exactly one reason opens at 11:00
		return scopedBudgets(kit.Pick(r, reasonNames), r.Range(1, 3), true)
	case 0:
		bs = append(bs, jBudget{Nodes: fmt.Sprint(r.Range(0, 3))})
	case 1:
		bs = append(bs, jBudget{Nodes: kit.Pick(r, []string{"10%", "20%", "34%", "50%", "100%"})})
	case 2: // a blocking window at 11:00 for ten minutes, generous otherwise
		bs = append(bs, jBudget{Nodes: "0", Schedule: ptr("0 11 * * *"), Duration: ptr("10m")}, jBudget{Nodes: fmt.Sprint(r.Range(1, 3))})
	case 3: // per-reason budgets
		bs = append(bs, jBudget{Nodes: fmt.Sprint(r.Range(0, 2)), Reasons: []string{string(kit.Pick(r, reasonNames))}}, jBudget{Nodes: "50%"})
	default:
		bs = append(bs, jBudget{Nodes: fmt.Sprint(r.Range(1, 2))}, jBudget{Nodes: "1", Schedule: ptr("*/30 * * * *"), Duration: ptr("5m")})
	}
	return bs
}

func runRounds(c *kit.Ctx, r *kit.Rand, nOps int) {
	m0 := kit.Pick(r, []int{mEmptiness, mDrift, mMulti, mSingle, mEmptiness, mDrift, mMulti, mSingle, mStaticDrift, mStaticDrift})
	pools, nodes, pinned := genWorld(r, m0, r.Range(1, 2))
	for i := range pools {
		if pools[i].ID != 9 {
			pools[i].Budgets = genRoundBudgets(r)
		}
	}
	if m0 != mStaticDrift && r.Chance(1, 4) {
		// reason-scoped budgets whose tightest entry is the first method's own reason
		c.Count("R:world=own-reason-tightest")
		for i := range pools {
			if pools[i].ID != 9 {
				pools[i].Budgets = scopedBudgets(methodReason(m0), r.Range(1, 3), r.Chance(1, 2))
			}
		}
	}
	if m0 != mStaticDrift && r.Chance(1, 3) {
		// a pool whose percentage budget is at a round-up boundary, plus nodes that must not be in
		// the percentage base (registered and Ready but not initialized, instance terminating)
		c.Count("R:world=percentage-boundary")
		b := kit.Pick(r, [][2]int{{50, 2}, {50, 4}, {25, 4}, {20, 5}, {10, 10}, {34, 5}, {20, 10}})
		pools = []jPool{{ID: 1, Name: poolName(1), Budgets: []jBudget{{Nodes: fmt.Sprintf("%d%%", b[0])}}}, {ID: 9, Name: poolName(9)}}
		nodes, pinned = nil, map[int]bool{}
		for i := 1; i <= b[1]; i++ {
			n := jNode{ID: i, Pool: 1, Managed: true, HasNode: true, Init: true, Ready: "True"}
			switch m0 {
			case mDrift:
				n.Drifted = true
			case mMulti, mSingle:
				n.Pods = 1
			}
			nodes = append(nodes, n)
		}
		for j := r.Range(1, 2); j > 0; j-- {
			x := jNode{ID: 100 + j, Pool: 1, Managed: true, HasNode: true, Init: false, Ready: "True"}
			if r.Chance(1, 4) {
				x.Init, x.Term = true, true
			}
			nodes = append(nodes, x)
		}
		for k := 0; k < 2; k++ {
			nodes = append(nodes, jNode{ID: 900 + k, Pool: 9, Managed: true, HasNode: true, Init: true, Ready: "True", Anchor: true})
		}
	}
	// the clock starts shortly before 11:00 so that window edges are crossed by clock events
	start := scheduleAt.Add(-time.Duration(r.Range(0, 120)) * time.Second)
	w := newWorld(start.UnixNano())
	w.build(pools, nodes)
	s := &roundState{w: w, pools: pools, nodes: map[int]*jNode{}, pinned: pinned, queue: map[int]bool{}}
	for i := range nodes {
		n := nodes[i]
		s.nodes[n.ID] = &n
		s.order = append(s.order, n.ID)
	}
	pools0 := append([]jPool(nil), pools...) // the JSON form shows the initial budgets
	sys0 := s.gSys()
	clusterCost := cost.NewClusterCost(w.ctx, w.cp, w.c)
	var gops []string
	var jops []jOp
	accepted := 0
	cmdsInFlight := [][]int{}
	methods := map[int]*methodSlot{}
	reserved := map[int]int{} // static pools: node counts reserved by StaticDrift (never released here)
	nextID := 500
	pendingClaim := false
	forceM := -1
	queued := func() map[int]bool {
		out := map[int]bool{}
		for pid := range w.queue.ProviderIDToCommand {
			var id int
			fmt.Sscanf(pid, "fake:///node-%d", &id)
			out[id] = true
		}
		return out
	}
	genEnv := func() jEvent {
		var ids []int
		for _, id := range s.order {
			if !s.nodes[id].Anchor && !pinned[id] && !w.hold[id] {
				ids = append(ids, id)
			}
		}
		if len(ids) == 0 {
			return jEvent{Kind: "clock", Time: w.clk.Now().Add(time.Second).UnixNano()}
		}
		switch r.Intn(9) {
		case 8:
			pendingClaim = !pendingClaim
			if pendingClaim {
				return jEvent{Kind: "pending-claim"}
			}
			return jEvent{Kind: "launched"}
		case 0, 1:
			return jEvent{Kind: "ready", Node: kit.Pick(r, ids), Ready: r.Chance(1, 3)}
		case 2:
			return jEvent{Kind: "delete", Node: kit.Pick(r, ids)}
		case 3, 4:
			// move the clock to a window edge or a little forward
			now := w.clk.Now()
			opts := []time.Time{now.Add(time.Duration(r.Range(1, 90)) * time.Second), scheduleAt.Add(-time.Nanosecond), scheduleAt, scheduleAt.Add(10*time.Minute - time.Nanosecond), scheduleAt.Add(10 * time.Minute), scheduleAt.Add(30 * time.Minute), scheduleAt.Add(35 * time.Minute)}
			return jEvent{Kind: "clock", Time: kit.Pick(r, opts).UnixNano()}
		case 5:
			p := kit.Pick(r, pools)
			if p.ID == 9 {
				p = pools[0]
			}
			return jEvent{Kind: "budgets", Pool: p.ID, Budgets: genRoundBudgets(r)}
		default:
			nextID++
			n := jNode{ID: nextID, Pool: pools[0].ID, Managed: true, HasNode: true, Init: r.Chance(2, 3), Ready: "True", Drifted: true}
			return jEvent{Kind: "add", NewNode: &n}
		}
	}
	var held []int // successfully completed candidates whose deletion cluster state has not seen yet
	roundsSinceHold := 0
	deliver := func(ids []int) {
		for _, id := range ids {
			delete(w.hold, id)
			e := jEvent{Kind: "delete", Node: id} // the informer delivers the deletionTimestamp
			s.applyEvent(e)
			gops = append(gops, s.envOps(e, r)...)
			jops = append(jops, jOp{Op: "env", Event: &e})
		}
	}
	for k := 0; k < nOps; k++ {
		if len(held) > 0 && roundsSinceHold > 0 {
			deliver(held)
			held = nil
		}
		before := queued()
		x := r.Intn(10)
		if forceM >= 0 {
			x = 5
		}
		switch {
		case x < 3:
			e := genEnv()
			s.applyEvent(e)
			gops = append(gops, s.envOps(e, r)...)
			jops = append(jops, jOp{Op: "env", Event: &e})
		case x < 7:
			m := m0
			if r.Chance(1, 4) {
				m = r.Intn(5) // also methods the world has no candidates for (static pools and emptiness, ...)
			}
			repeated := forceM >= 0
			if repeated {
				m, forceM = forceM, -1
			}
			// setup prepares one method of this controller loop: its recorder, its validator with the
			// events that happen while the validator waits, and the hooks that snapshot what it reads
			armPatch := false
			setup := func(m int, reuse, pre bool) *loopMethod {
				L := &loopMethod{m: m}
				if m != mDrift && m != mStaticDrift {
					for j := r.Intn(3); j > 0; j-- {
						if e := genEnv(); e.Kind != "clock" {
							L.between = append(L.between, e)
						}
					}
					if pre && r.Chance(1, 2) {
						// while an earlier method waits, somebody closes a pool for every reason: its command
						// is abandoned and the later methods of the same loop must see the closed budget
						p := s.pools[r.Intn(len(s.pools))]
						if p.ID != 9 {
							L.between = append(L.between, jEvent{Kind: "budgets", Pool: p.ID, Budgets: []jBudget{{Nodes: "0"}}})
						}
					}
					L.toWindow = pre && r.Chance(1, 3)
					// the validation delay itself: the validator waits on the clock; it moves by 15 s, or
					// further (to a window edge); within one loop time only moves forward
					L.clockLast = true
				}
				// methods are kept per world, as in the running controller (the consolidation methods cache
				// "nothing to do" until the cluster changes)
				if methods[m] == nil || (!reuse && r.Chance(1, 3)) {
					methods[m] = &methodSlot{dv: &delayedValidator{clk: w.clk}}
					methods[m].meth = w.newMethod(m, methods[m].dv, true)
				}
				slot := methods[m]
				L.dv = slot.dv
				L.dv.between, L.dv.prop, L.dv.out, L.dv.schedulingRejected, L.dv.noDelay = nil, nil, nil, false, false
				L.rec = &recMethod{Method: slot.meth}
				if L.clockLast {
					L.dv.between = func() {
						for _, e := range L.between {
							s.applyEvent(e)
							L.betweenTerms = append(L.betweenTerms, s.envTerms(e)...)
						}
						// the candidates as the validator is about to see them (nothing but the clock moves after this)
						w.faults.suspended = true
						L.cur = w.toJCands(w.candidates(L.rec), pinned)
						w.faults.suspended = false
						target := w.clk.Now().Add(15 * time.Second)
						if e := genEnv(); e.Kind == "clock" && time.Unix(0, e.Time).After(target) {
							target = time.Unix(0, e.Time)
						}
						if L.toWindow && scheduleAt.After(target) {
							target = scheduleAt // a window scheduled for 11:00 opens during the wait
						}
						e := jEvent{Kind: "clock", Time: target.UnixNano()}
						L.between = append(L.between, e)
						s.applyEvent(e)
						L.betweenTerms = append(L.betweenTerms, s.envTerms(e)...)
					}
				}
				L.rec.before = func(cs []*disruption.Candidate) {
					if armPatch && len(cs) > 0 {
						// the disruption taint cannot be set on one or two of the candidates
						for k := 0; k < 2; k++ {
							w.faults.patchNode[kit.Pick(r, cs).Name()] = 10 // more than the client-side retries
						}
					}
					if m == mStaticDrift {
						var groups []string
						for _, p := range s.pools {
							a, d, pd := w.cluster.NodePoolState.GetNodeCount(p.Name)
							groups = append(groups, fmt.Sprintf("(%s, mkCounts %s %s %s %s)", kit.GZ(int64(p.ID)), kit.GZ(int64(a)), kit.GZ(int64(d)), kit.GZ(int64(pd)), kit.GZ(int64(reserved[p.ID]))))
						}
						L.choice = "(ChStatic " + kit.GList(groups) + ")"
					}
				}
				return L
			}
			// One controller loop may run several methods: every method before the one that acts ends
			// without a command, possibly after its 15 s validation wait, and the later ones must build
			// their budget mapping from the cluster as it is THEN.
			var plan []*loopMethod
			if !repeated && r.Chance(1, 3) {
				for pm := mEmptiness; pm < m; pm++ { // the controller's order: emptiness, static drift, drift, multi, single
					if pm == mEmptiness || r.Chance(1, 3) {
						plan = append(plan, setup(pm, false, true))
					}
				}
			}
			plan = append(plan, setup(m, repeated, false))
			main := plan[len(plan)-1]
			if len(plan) > 1 {
				c.Count(fmt.Sprintf("R:loop=%d-methods", len(plan)))
			}
			// faults: an API call of this reconcile fails (single-method loops only)
			fault := ""
			fk := r.Intn(16)
			if (m == mStaticDrift || m == mDrift) && r.Chance(1, 6) {
				fk = 2 // these methods launch replacements
			}
			if len(plan) > 1 {
				fk = 15
			}
			switch fk {
			case 0:
				w.faults.listNodePools = r.Range(1, 6)
				fault = fmt.Sprintf("list-nodepools-x%d", w.faults.listNodePools)
			case 1, 3:
				armPatch = true
				fault = "patch-node"
				w.faults.conflict = r.Chance(1, 2)
			case 2:
				w.faults.createClaim = 1
				fault = "create-nodeclaim"
			}
			var ms []disruption.Method
			for _, L := range plan {
				ms = append(ms, L.rec)
			}
			ctrl := disruption.NewController(w.clk, w.c, w.prov, w.cp, w.recorder, w.cluster, w.queue, clusterCost, disruption.WithMethods(ms...))
			_, rerr := ctrl.Reconcile(w.ctx)
			fired := false
			if fault != "" {
				fired = (fault[:4] == "list" && w.faults.listNodePools == 0) || (fault == "create-nodeclaim" && w.faults.createClaim == 0) ||
					(fault[:5] == "patch" && func() bool {
						for _, v := range w.faults.patchNode {
							if v < 10 {
								return true
							}
						}
						return false
					}())
				if fault == "patch-node" && w.faults.conflict {
					fault = "patch-node-conflict"
				}
				w.faults.listNodePools, w.faults.createClaim, w.faults.patchNode, w.faults.conflict = 0, 0, map[string]int{}, false
			}
			if rerr != nil && fault == "" {
				panic(fmt.Sprintf("Reconcile(%s): %v", methodNames[m], rerr))
			}
			if fault != "" {
				c.Count(fmt.Sprintf("R:fault=%s,fired=%v,error=%v", map[bool]string{false: strings.SplitN(fault, "-x", 2)[0][:4], true: "patch-conflict"}[fault == "patch-node-conflict"], fired, rerr != nil))
			}
			// the informers deliver what the reconcile wrote (taints, conditions)
			w.faults.suspended = true
			for _, id := range s.order {
				w.refresh(id)
			}
			w.faults.suspended = false
			after := queued()
			var allNew []int
			for id := range after {
				if !before[id] {
					allNew = append(allNew, id)
				}
			}
			sort.Ints(allNew)
			// the methods that ran, in order; only the last one can have started a command
			var ran []*loopMethod
			for _, L := range plan {
				if L.rec.ran {
					ran = append(ran, L)
				}
			}
			if len(ran) == 0 {
				ran = []*loopMethod{main} // the reconcile gave up before any method (not synced, an early error)
			}
			for li, L := range ran {
				m, rec, dv := L.m, L.rec, L.dv
				last := li == len(ran)-1
				var newq []int
				if last {
					newq = allNew
				}
				jc := w.toJCands(rec.cands, pinned)
				var proposed []int
				if len(dv.prop) > 0 && m != mDrift && m != mStaticDrift {
					proposed = cmdIDs(dv.prop[:1])
				} else {
					proposed = cmdIDs(rec.cmds)
				}
				// what StartCommand was asked to start
				final := cmdIDs(rec.cmds)
				if m != mDrift && m != mStaticDrift {
					final = cmdIDs(dv.out)
				}
				var startfail []int
				if fault != "" {
					inq := map[int]bool{}
					for _, id := range newq {
						inq[id] = true
					}
					for _, id := range final {
						if !inq[id] {
							startfail = append(startfail, id)
						}
					}
				}
				if m == mStaticDrift {
					for _, cmd := range rec.cmds {
						for _, cd := range cmd.Candidates {
							reserved[w.poolID(cd.NodePool.Name)]++
						}
					}
				}
				if m == mSingle || m == mDrift {
					for i := range jc {
						jc[i].SimOK = len(proposed) > 0 && jc[i].Node == proposed[0]
					}
					// the method's internal order is not observable: put the proposed candidate first
					sort.SliceStable(jc, func(i, j int) bool {
						return len(proposed) > 0 && jc[i].Node == proposed[0] && jc[j].Node != proposed[0]
					})
				}
				choice := L.choice
				switch {
				case m == mStaticDrift && choice != "":
				case m == mEmptiness && rec.called && len(proposed) == 0 && wouldSelect(jc, rec.mapping, w):
					// Emptiness returned early although an empty candidate had budget: its "already consolidated" cache
					choice = "ChSkip"
					c.Count("R:MEmptiness:skipped-as-consolidated")
				case rerr != nil && len(final) == 0:
					// the reconcile failed before anything was handed to the queue
					choice = "ChSkip"
				default:
					choice = fmt.Sprintf("(ChK %d)", len(proposed))
				}
				if m == mStaticDrift && choice == "" {
					choice = "(ChStatic [])"
				}
				for _, id := range newq {
					s.nodes[id].Marked = true
				}
				// one queue entry per command (static drift starts several commands at once)
				byCmd := map[*disruption.Command][]int{}
				for _, id := range newq {
					cmd := w.queue.ProviderIDToCommand[providerID(id)]
					byCmd[cmd] = append(byCmd[cmd], id)
				}
				for _, id := range newq {
					if ids, ok := byCmd[w.queue.ProviderIDToCommand[providerID(id)]]; ok && ids[0] == id {
						cmdsInFlight = append(cmdsInFlight, ids)
						if len(w.queue.ProviderIDToCommand[providerID(id)].Replacements) > 0 {
							c.Count("R:command=with-replacement")
							// look at the very next budget mapping: the candidates of a command that waits for
							// its replacement must already consume budget
							if !repeated {
								forceM = m
							}
						} else {
							c.Count("R:command=delete-only")
						}
					}
				}
				if last && !repeated && len(proposed) == 0 && rec.called && (m == mMulti || m == mSingle) && r.Chance(1, 2) {
					forceM = m // ask again right away: the method remembers that there was nothing to do
				}
				if repeated {
					c.Count("R:" + methodNames[m] + ":asked-again-unchanged-cluster")
				}
				if dv.noDelay {
					c.Count("R:" + methodNames[m] + ":validated-without-waiting")
				}
				if !last && len(proposed) > 0 {
					c.Count("R:loop:earlier-method-waited-then-gave-up")
				}
				if len(newq) > 0 {
					accepted++
					c.Count("R:" + methodNames[m] + ":command-accepted")
				} else if len(startfail) > 0 {
					c.Count("R:" + methodNames[m] + ":start-failed")
				} else if len(proposed) > 0 && dv.schedulingRejected {
					c.Count("R:" + methodNames[m] + ":proposal-rejected-by-re-simulation")
				} else if len(proposed) > 0 {
					c.Count("R:" + methodNames[m] + ":proposal-rejected-by-validation")
				} else if rec.called {
					c.Count("R:" + methodNames[m] + ":no-proposal")
				} else {
					c.Count("R:" + methodNames[m] + ":no-candidates")
				}
				if len(startfail) > 0 && len(newq) > 0 {
					c.Count("R:start=partially-marked")
				}
				post := "(Empty, [])"
				if last {
					post = s.post(r)
				}
				vok := !dv.schedulingRejected || m == mDrift || m == mStaticDrift
				gops = append(gops, fmt.Sprintf("(ODisrupt %s %s %s %s %s %s [] %s %s, %s, %s, %s)", methodNames[m], kit.GListOf(jc, gCand), choice, kit.GBool(vok),
					kit.GList(L.betweenTerms), kit.GListOf(L.cur, gCand), kit.GListOf(L.cur, gCand), gInts(startfail), gInts(newq), gObservedMapping(rec.mapping, w), post))
				jops = append(jops, jOp{Op: "disrupt", Method: methodNames[m], Between: L.between, Cands: jc, Proposed: proposed, NewQueue: newq, Mapping: rec.mapping, Fault: fault, StartFailed: startfail, LoopPos: fmt.Sprintf("%d/%d", li+1, len(ran))})
			}
			roundsSinceHold++
		case x < 9 && len(cmdsInFlight) > 0:
			// the queue finishes a command (successfully if it needs no replacement, else it times out)
			i := r.Intn(len(cmdsInFlight))
			ids := cmdsInFlight[i]
			cmdsInFlight = append(cmdsInFlight[:i], cmdsInFlight[i+1:]...)
			cmd := w.queue.ProviderIDToCommand[providerID(ids[0])]
			ok := cmd != nil && r.Chance(3, 4)
			if cmd != nil {
				if ok {
					// the replacements come up: the lifecycle controller marks them Initialized
					for _, rp := range cmd.Replacements {
						nc := &v1.NodeClaim{}
						if err := w.c.Get(w.ctx, client.ObjectKey{Name: rp.Name}, nc); err != nil {
							ok = false
							continue
						}
						nc.StatusConditions().SetTrue(v1.ConditionTypeInitialized)
						if err := w.c.Status().Update(w.ctx, nc); err != nil {
							panic(err)
						}
					}
				}
				if !ok {
					// let the command time out: the queue then gives up and un-marks the candidates
					e := jEvent{Kind: "clock", Time: w.clk.Now().Add(2 * time.Hour).UnixNano()}
					s.applyEvent(e)
					gops = append(gops, s.envOps(e, r)...)
					for j := range cmd.Replacements {
						cmd.Replacements[j].Initialized = false
					}
					if len(cmd.Replacements) == 0 {
						// a delete command cannot fail by itself; emulate the failure path of Queue.Reconcile
						w.queue.CompleteCommand(cmd)
					} else if _, err := w.queue.Reconcile(w.ctx, w.claims[ids[0]]); err != nil {
						panic(err)
					}
				} else if _, err := w.queue.Reconcile(w.ctx, w.claims[ids[0]]); err != nil {
					panic(err)
				}
			}
			// The queue has issued the Delete calls; cluster state sees the deletionTimestamp only when the
			// NodeClaim informer delivers it. Half of the time that delivery is withheld until after the
			// next disruption round (the two controllers run concurrently).
			withhold := ok && r.Chance(1, 2)
			for _, id := range ids {
				if ok {
					w.hold[id] = true
				} else {
					s.nodes[id].Marked = false
				}
			}
			gops = append(gops, fmt.Sprintf("(OComplete %s %s, [], [], %s)", gInts(ids), kit.GBool(ok), s.post(r)))
			jops = append(jops, jOp{Op: "complete", IDs: ids, OK: ok, Withheld: withhold})
			c.Count(fmt.Sprintf("R:complete:ok=%v", ok))
			if withhold {
				c.Count("R:complete:deletion-not-yet-observed")
				held = append(held, ids...)
				roundsSinceHold = 0
				forceM = kit.Pick(r, []int{m0, m0, mEmptiness, mDrift, mMulti, mSingle}) // a disruption round comes first
			} else if ok {
				deliver(ids)
			}
		case x == 9 && r.Chance(1, 3):
			// restart: the queue and the in-memory marks are lost, the API objects stay
			deliver(held)
			held = nil
			w.cluster.Reset()
			w.queue = disruption.NewQueue(w.c, w.recorder, w.cluster, w.clk, w.prov)
			for _, id := range s.order {
				w.refresh(id)
				s.nodes[id].Marked = false
			}
			// replacement NodeClaims of the lost commands never launch here: the lifecycle controller
			// would time them out; remove them so that the cluster state can sync again
			known := map[string]bool{}
			for _, nc := range w.claims {
				known[nc.Name] = true
			}
			ncs := &v1.NodeClaimList{}
			if err := w.c.List(w.ctx, ncs); err != nil {
				panic(err)
			}
			for i := range ncs.Items {
				if nc := &ncs.Items[i]; !known[nc.Name] {
					nc.Finalizers = nil
					_ = w.c.Update(w.ctx, nc)
					_ = w.c.Delete(w.ctx, nc)
				}
			}
			pods := &corev1.PodList{}
			if err := w.c.List(w.ctx, pods); err != nil {
				panic(err)
			}
			for i := range pods.Items {
				if err := w.cluster.UpdatePod(w.ctx, &pods.Items[i]); err != nil {
					panic(err)
				}
			}
			w.buffer = map[string]int{}
			methods = map[int]*methodSlot{}
			reserved = map[int]int{}
			cmdsInFlight = nil
			gops = append(gops, "(ORestart, [], [], "+s.post(r)+")")
			jops = append(jops, jOp{Op: "restart"})
			c.Count("R:restart")
		}
	}
	key := ""
	if accepted > 0 {
		key = "R:" + strings.Join(gops, ";")
	}
	c.AddCase(fmt.Sprintf("CaseR %s %s", sys0, kit.GList(gops)), caseR{"rounds", pools0, nodes, jops}, key)
}

func partRounds(c *kit.Ctx) {
	n, ops := 80, 8
	if c.Thorough() {
		n, ops = 250, 12
	}
	for i := 0; i < n; i++ {
		runRounds(c, c.Rand.Fork(), ops)
	}
}
