// Command c05 drives the real disruption-budget code of /repo (budget arithmetic, budget
// mapping, the five disruption methods, their validators and the orchestration queue) on
// generated inputs and histories and writes what it did as Gallina cases for coq/C05/Check.v.
package main

import (
	"fmt"
	"os"
	"strings"
	"time"

	"verifharness/kit"
)

func main() {
	c := kit.Parse("C05", os.Args[1:])
	t0 := time.Now()
	lap := func(what string) {
		fmt.Fprintf(os.Stderr, "c05: %s done, %d cases, %.1fs\n", what, c.NextID(), time.Since(t0).Seconds())
	}
	// C05_PARTS (development only) restricts the run to some parts, e.g. C05_PARTS=R
	parts := os.Getenv("C05_PARTS")
	on := func(p string) bool { return parts == "" || strings.Contains(parts, p) }
	if on("A") {
		partBudgets(c)
		lap("budget functions")
	}
	if on("M") {
		partMapping(c)
		lap("mapping")
	}
	if on("B") {
		partMethods(c)
		lap("methods+validators")
	}
	if on("R") {
		partRounds(c)
		lap("rounds")
	}
	c.Meta.Rule = "A: budget lists x instants at window edges (hit-1ns, hit, hit+1ns, hit+d-1ns, hit+d, ...) x pool sizes at percentage rounding boundaries; " +
		"M: generated clusters (node health/deletion states) x budgets; B: each method's ComputeCommands under generated mappings; " +
		"R: multi-round histories of disrupt calls with validation-time events, command completion and restarts. " +
		"non-trivial = distinct (budget shapes, size, reason, result) / (cluster, mapping) / (method, mapping, candidates, selection) / history with at least one accepted command"
	c.Meta.Exhaustive = false
	c.Meta.Corr = []string{
		"v1.Budget.IsActive = C05.Model.is_active (next supplied by an independent cron matcher)",
		"v1.Budget.GetAllowedDisruptions = C05.Model.allowed_disruptions",
		"v1.NodePool.GetAllowedDisruptionsByReason / MustGetAllowedDisruptions = C05.Model.allowed_by_reason / must_allowed",
		"disruption.BuildDisruptionBudgetMapping = C05.Model.build_mapping",
		"disruption.{Emptiness,MultiNodeConsolidation,SingleNodeConsolidation,Drift,StaticDrift}.ComputeCommands = C05.Model.propose",
		"disruption.{EmptinessValidator,ConsolidationValidator}.Validate = C05.Model.validate",
		"disruption.Controller.Reconcile + Queue.StartCommand/CompleteCommand = C05.Model.step",
	}
	c.Meta.Extra = map[string]interface{}{"assumptions": []string{
		"robfig/cron: schedule.Next(t) is the least hit strictly after t, or the zero time if there is none within five years (Section hypothesis next_contract; sampled against an independent minute-scan matcher)",
		"Budget.Nodes parsing (strconv.Atoi, '%' suffix) is classified by the harness, not modelled character by character",
		"scheduling simulation outcomes are inputs (choices) of the method models",
	}}
	c.Finish("From KV Require Import C05.Model C05.Check.", "case", "check_all", 400)
}
