package main

// Part A2: disruption.BuildDisruptionBudgetMapping on generated clusters (real state.Cluster fed
// through UpdateNodeClaim/UpdateNode/MarkForDeletion, NodePools in the fake API).

import (
	"fmt"
	"strconv"
	"strings"

	v1 "sigs.k8s.io/karpenter/pkg/apis/v1"
	"sigs.k8s.io/karpenter/pkg/controllers/disruption"

	"verifharness/kit"
)

type caseM struct {
	Kind   string         `json:"kind"`
	Now    int64          `json:"now_unix_nano"`
	Reason string         `json:"reason"`
	Pools  []jPool        `json:"pools"`
	Nodes  []jNode        `json:"nodes"`
	Obs    map[string]int `json:"impl_mapping"`
}

// genNode: mostly a healthy initialized node; one or two attributes perturbed.
func genNode(r *kit.Rand, id int, nPools int) jNode {
	n := jNode{ID: id, Pool: r.Range(1, nPools), Managed: true, HasNode: true, Init: true, Ready: "True"}
	for k := r.Intn(3); k > 0; k-- {
		switch r.Intn(12) {
		case 0:
			n.Managed = false
		case 1:
			n.HasNode = false
		case 2:
			n.Init = false
		case 3:
			n.Term = true
		case 4:
			n.Ready = "False"
		case 5:
			n.Ready = "Unknown"
		case 6:
			n.Ready = ""
		case 7, 8:
			n.Marked = true
		case 9:
			n.Deleting = true
		case 10:
			n.NodeDel = true
		case 11:
			n.Pool = 0
		}
	}
	return n
}

func genPools(r *kit.Rand, nPools int) []jPool {
	var pools []jPool
	for i := 1; i <= nPools; i++ {
		p := jPool{ID: i, Name: poolName(i)}
		for k := r.Intn(4); k > 0; k-- {
			b := genBudget(r)
			b.Empty = false // the empty-slice shape is exercised (and tagged) in part A1 only
			p.Budgets = append(p.Budgets, b)
		}
		pools = append(pools, p)
	}
	return pools
}

func runMapping(c *kit.Ctx, now int64, reason v1.DisruptionReason, pools []jPool, nodes []jNode) {
	w := newWorld(now)
	for _, p := range pools {
		w.addPool(p)
	}
	for _, n := range nodes {
		w.addNode(n)
	}
	m, err := disruption.BuildDisruptionBudgetMapping(w.ctx, w.cluster, w.clk, w.c, w.cp, w.recorder, reason)
	if err != nil {
		panic(err)
	}
	gp := kit.GListOf(pools, func(p jPool) string { return gPool(p, now) })
	gn := kit.GListOf(nodes, gNode)
	var sig []string
	for _, p := range pools {
		v := m[p.Name]
		switch {
		case v == 0:
			c.Count("M:value=0")
		case v >= 2147483647-len(nodes):
			c.Count("M:value=unbounded")
		default:
			c.Count("M:value=bounded")
		}
		sig = append(sig, strconv.Itoa(v))
	}
	for _, n := range nodes {
		switch {
		case !n.Managed:
			c.Count("M:node=unmanaged")
		case !n.HasNode || !n.Init:
			c.Count("M:node=uninitialized")
		case n.Term:
			c.Count("M:node=instance-terminating")
		case n.Ready != "True" && (n.Marked || n.Deleting):
			c.Count("M:node=notready+deleting")
		case n.Ready != "True":
			c.Count("M:node=notready")
		case n.Marked || n.Deleting:
			c.Count("M:node=marked/deleting")
		default:
			c.Count("M:node=healthy")
		}
	}
	key := fmt.Sprintf("M:%d|%s|%s|%s", len(nodes), reason, gn, strings.Join(sig, ","))
	c.AddCase(fmt.Sprintf("CaseM %s %s %s %s %s", kit.GZ(now), gReason(reason), gp, gn, gMapping(m, pools)),
		caseM{"mapping", now, string(reason), pools, nodes, m}, key)
}

func partMapping(c *kit.Ctx) {
	n := 60
	if c.Thorough() {
		n = 300
	}
	for i := 0; i < n; i++ {
		r := c.Rand.Fork()
		nPools := r.Range(1, 3)
		pools := genPools(r, nPools)
		var nodes []jNode
		for k, total := 0, r.Range(0, 24); k < total; k++ {
			nodes = append(nodes, genNode(r, k+1, nPools))
		}
		base := kit.Pick(r, baseTimes)
		now := base.UnixNano()
		if len(pools[0].Budgets) > 0 {
			now = kit.Pick(r, instants(r, pools[0].Budgets[0], base))
		}
		runMapping(c, now, kit.Pick(r, reasonNames), pools, nodes)
	}
}
