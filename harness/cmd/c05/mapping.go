package main

// Part A2: disruption.BuildDisruptionBudgetMapping on generated clusters (real state.Cluster fed
// through UpdateNodeClaim/UpdateNode/MarkForDeletion, NodePools in the fake API).

import (
	"fmt"
	"strconv"
	"strings"

	v1 "sigs.k8s.io/karpenter/pkg/apis/v1"
	"sigs.k8s.io/karpenter/pkg/controllers/disruption"

	"verifharness/kit"
)

type caseM struct {
	Kind   string         `json:"kind"`
	Now    int64          `json:"now_unix_nano"`
	Reason string         `json:"reason"`
	Pools  []jPool        `json:"pools"`
	Nodes  []jNode        `json:"nodes"`
	Obs    map[string]int `json:"impl_mapping"`
}

// genNode: mostly a healthy initialized node; one or two attributes perturbed.
func genNode(r *kit.Rand, id int, nPools int) jNode {
	n := jNode{ID: id, Pool: r.Range(1, nPools), Managed: true, HasNode: true, Init: true, Ready: "True"}
	for k := r.Intn(3); k > 0; k-- {
		switch r.Intn(12) {
		case 0:
			n.Managed = false
		case 1:
			n.HasNode = false
		case 2:
			n.Init = false
		case 3:
			n.Term = true
		case 4:
			n.Ready = "False"
		case 5:
			n.Ready = "Unknown"
		case 6:
			n.Ready = ""
		case 7, 8:
			n.Marked = true
		case 9:
			n.Deleting = true
		case 10:
			n.NodeDel = true
		case 11:
			n.Pool = 0
		}
	}
	if !n.Init && r.Chance(1, 2) {
		n.Unregistered = true // launched but the kubelet has not joined (no registered label)
	}
	if r.Chance(1, 16) {
		n.Init, n.Unregistered = true, true // a contradictory label pair: only the initialized label is read
	}
	if r.Chance(1, 10) {
		n.NotConsolidatable = true
	}
	return n
}

func genPools(r *kit.Rand, nPools int) []jPool {
	var pools []jPool
	for i := 1; i <= nPools; i++ {
		p := jPool{ID: i, Name: poolName(i)}
		for k := r.Intn(4); k > 0; k-- {
			b := genBudget(r)
			b.Empty = false // the empty-slice shape is exercised (and tagged) in part A1 only
			p.Budgets = append(p.Budgets, b)
		}
		switch r.Intn(10) {
		case 0:
			p.Unmanaged = i > 1
		case 1:
			p.NoInstanceTypes = true
		case 2:
			p.NoConsolidation = true
		case 3:
			p.Policy = string(v1.ConsolidationPolicyBalanced)
		}
		pools = append(pools, p)
	}
	return pools
}

func runMapping(c *kit.Ctx, now int64, reason v1.DisruptionReason, pools []jPool, nodes []jNode) {
	w := newWorld(now)
	all := pools
	pools = nil
	for _, p := range all {
		w.addPool(p)
		if p.Unmanaged {
			// a NodePool whose NodeClass kind the provider does not support is not listed: no entry (reads 0)
			c.Count("M:pool=foreign-nodeclass")
			continue
		}
		pools = append(pools, p)
	}
	for _, n := range nodes {
		w.addNode(n)
	}
	m, err := disruption.BuildDisruptionBudgetMapping(w.ctx, w.cluster, w.clk, w.c, w.cp, w.recorder, reason)
	if err != nil {
		panic(err)
	}
	gp := kit.GListOf(pools, func(p jPool) string { return gPool(p, now) })
	gn := kit.GListOf(nodes, gNode)
	var sig []string
	for _, p := range pools {
		v := m[p.Name]
		switch {
		case v == 0:
			c.Count("M:value=0")
		case v >= 2147483647-len(nodes):
			c.Count("M:value=unbounded")
		default:
			c.Count("M:value=bounded")
		}
		sig = append(sig, strconv.Itoa(v))
	}
	for _, n := range nodes {
		switch {
		case !n.Managed:
			c.Count("M:node=unmanaged")
		case !n.HasNode || !n.Init:
			c.Count("M:node=uninitialized")
		case n.Term:
			c.Count("M:node=instance-terminating")
		case n.Ready != "True" && (n.Marked || n.Deleting):
			c.Count("M:node=notready+deleting")
		case n.Ready != "True":
			c.Count("M:node=notready")
		case n.Marked || n.Deleting:
			c.Count("M:node=marked/deleting")
		default:
			c.Count("M:node=healthy")
		}
	}
	key := fmt.Sprintf("M:%d|%s|%s|%s", len(nodes), reason, gn, strings.Join(sig, ","))
	c.AddCase(fmt.Sprintf("CaseM %s %s %s %s %s", kit.GZ(now), gReason(reason), gp, gn, gMapping(m, pools)),
		caseM{"mapping", now, string(reason), all, nodes, m}, key)
}

// boundaryPool builds a pool whose percentage budget sits at a round-up boundary: pct% of the n
// initialized nodes is (almost) exactly k, so that one more node in the percentage base makes the
// ceiling jump to k+1. On top of the n initialized nodes it has `extra` nodes that must NOT be
// part of the base: registered and Ready but not initialized, instance-terminating, unmanaged.
func boundaryPool(pct, k, extra, dis int, kind string) (jPool, []jNode, bool) {
	n := k * 100 / pct // largest n with pct*n <= 100k
	if n < 1 || n > 30 {
		return jPool{}, nil, false
	}
	p := jPool{ID: 1, Name: poolName(1), Budgets: []jBudget{{Nodes: fmt.Sprintf("%d%%", pct)}}}
	var nodes []jNode
	for i := 1; i <= n; i++ {
		nodes = append(nodes, jNode{ID: i, Pool: 1, Managed: true, HasNode: true, Init: true, Ready: "True", Marked: i <= dis})
	}
	for j := 0; j < extra; j++ {
		x := jNode{ID: 100 + j, Pool: 1, Managed: true, HasNode: true, Init: true, Ready: "True"}
		switch kind {
		case "ready-uninitialized":
			x.Init = false
		case "instance-terminating":
			x.Term = true
		case "unmanaged":
			x.Managed = false
		case "claim-without-node":
			x.HasNode = false
		}
		nodes = append(nodes, x)
	}
	return p, nodes, true
}

func partMappingBoundary(c *kit.Ctx) {
	pcts := []int{10, 20, 25, 50}
	kinds := []string{"ready-uninitialized", "instance-terminating", "unmanaged", "claim-without-node"}
	if c.Thorough() {
		pcts = []int{5, 10, 15, 20, 25, 33, 34, 50, 75}
	}
	for _, pct := range pcts {
		for k := 1; k <= 3; k++ {
			if !c.Thorough() && k*100/pct > 20 {
				continue
			}
			for ki, kind := range kinds {
				for extra := 1; extra <= 2; extra++ {
					for dis := 0; dis <= 1; dis++ {
						if !c.Thorough() && kind != "ready-uninitialized" && (extra != 1 || dis != (k+ki)%2) {
							continue
						}
						p, nodes, ok := boundaryPool(pct, k, extra, dis, kind)
						if !ok {
							continue
						}
						c.Count("M:boundary:" + kind)
						runMapping(c, baseTimes[0].UnixNano(), reasonNames[(k+extra+dis)%3], []jPool{p}, nodes)
					}
				}
			}
		}
	}
}

func partMapping(c *kit.Ctx) {
	partMappingBoundary(c)
	n := 40
	if c.Thorough() {
		n = 300
	}
	for i := 0; i < n; i++ {
		r := c.Rand.Fork()
		nPools := r.Range(1, 3)
		pools := genPools(r, nPools)
		var nodes []jNode
		for k, total := 0, r.Range(0, 24); k < total; k++ {
			nodes = append(nodes, genNode(r, k+1, nPools))
		}
		base := kit.Pick(r, baseTimes)
		now := base.UnixNano()
		if len(pools[0].Budgets) > 0 {
			now = kit.Pick(r, instants(r, pools[0].Budgets[0], base))
		}
		runMapping(c, now, kit.Pick(r, reasonNames), pools, nodes)
	}
}
