package main

// Part A1: Budget.IsActive, Budget.GetAllowedDisruptions, NodePool.GetAllowedDisruptionsByReason,
// NodePool.MustGetAllowedDisruptions on generated budgets x instants x pool sizes.

import (
	"fmt"
	"regexp"
	"strconv"
	"strings"
	"time"

	metav1 "k8s.io/apimachinery/pkg/apis/meta/v1"
	clock "k8s.io/utils/clock/testing"

	v1 "sigs.k8s.io/karpenter/pkg/apis/v1"

	"verifharness/kit"
)

var reasonNames = []v1.DisruptionReason{v1.DisruptionReasonUnderutilized, v1.DisruptionReasonEmpty, v1.DisruptionReasonDrifted}

func gReason(r v1.DisruptionReason) string { return string(r) }

// jBudget is the JSON/replay form of a generated budget.
type jBudget struct {
	Reasons  []string `json:"reasons"` // nil = absent
	Empty    bool     `json:"reasons_empty_nonnil,omitempty"`
	Nodes    string   `json:"nodes"`
	Schedule *string  `json:"schedule"`
	Duration *string  `json:"duration"`
}

func (b jBudget) toAPI() v1.Budget {
	out := v1.Budget{Nodes: b.Nodes, Schedule: b.Schedule}
	if b.Reasons != nil || b.Empty {
		out.Reasons = []v1.DisruptionReason{}
		for _, r := range b.Reasons {
			out.Reasons = append(out.Reasons, v1.DisruptionReason(r))
		}
	}
	if b.Duration != nil {
		d, err := time.ParseDuration(*b.Duration)
		if err != nil {
			panic(err)
		}
		out.Duration = &metav1.Duration{Duration: d}
	}
	return out
}

var intRe = regexp.MustCompile(`^[+-]?[0-9]+$`)

// classifyNodes is the harness' own reading of Budget.Nodes (independent of the code under test).
func classifyNodes(s string) string {
	if intRe.MatchString(s) {
		if v, err := strconv.ParseInt(s, 10, 64); err == nil {
			return "(NInt " + kit.GZ(v) + ")"
		}
		return "NBad"
	}
	if strings.HasSuffix(s, "%") && intRe.MatchString(strings.TrimSuffix(s, "%")) {
		if v, err := strconv.ParseInt(strings.TrimSuffix(s, "%"), 10, 64); err == nil {
			return "(NPct " + kit.GZ(v) + ")"
		}
	}
	return "NBad"
}

// gBudget renders the budget as a Gallina term; the schedule is replaced by what the independent
// matcher says about it at instant now: (least hit > now-d, greatest hit <= now within d).
func gBudget(b jBudget, now int64) (term string, shape string) {
	reasons := "None"
	if b.Reasons != nil || b.Empty {
		reasons = "(Some " + kit.GListOf(b.Reasons, func(s string) string { return s }) + ")"
	}
	dur := "None"
	var d time.Duration
	if b.Duration != nil {
		d, _ = time.ParseDuration(*b.Duration)
		dur = "(Some " + kit.GZ(int64(d)) + ")"
	}
	sched := "SNil"
	shape = "sched=nil"
	if b.Schedule != nil {
		spec := parseCron(*b.Schedule)
		if spec == nil {
			sched, shape = "SBad", "sched=bad"
		} else {
			nx, okN := spec.nextAfter(now - int64(d))
			last, okL := spec.lastAtOrBefore(now, d)
			sched = fmt.Sprintf("(SCron (%s, %s))", kit.GOpt(okN, kit.GZ(nx)), kit.GOpt(okL, kit.GZ(last)))
			switch {
			case !okN:
				shape = "sched=never-fires"
			case okL:
				shape = "sched=cron,in-window"
			default:
				shape = "sched=cron,outside"
			}
		}
	}
	if b.Duration != nil {
		shape += ",dur"
	} else {
		shape += ",nodur"
	}
	return fmt.Sprintf("(mkBudget %s %s %s %s)", reasons, classifyNodes(b.Nodes), sched, dur), shape
}

type caseA struct {
	Kind    string    `json:"kind"`
	Now     int64     `json:"now_unix_nano"`
	NowUTC  string    `json:"now"`
	N       int       `json:"num_nodes"`
	Reason  string    `json:"reason"`
	Budgets []jBudget `json:"budgets"`
	Obs     string    `json:"impl"`
}

func runBudgets(c *kit.Ctx, now int64, n int, reason v1.DisruptionReason, bs []jBudget) {
	clk := clock.NewFakeClock(time.Unix(0, now))
	np := &v1.NodePool{}
	var gb, gobs, shapes []string
	emptyReasons := false
	for _, jb := range bs {
		b := jb.toAPI()
		np.Spec.Disruption.Budgets = append(np.Spec.Disruption.Budgets, b)
		act, err := b.IsActive(clk)
		val, err2 := b.GetAllowedDisruptions(clk, n)
		ga := "None"
		if err == nil {
			ga = "(Some " + kit.GBool(act) + ")"
		}
		gobs = append(gobs, fmt.Sprintf("(%s, %s, %s)", ga, kit.GZ(int64(val)), kit.GBool(err2 != nil)))
		t, shape := gBudget(jb, now)
		gb = append(gb, t)
		shapes = append(shapes, shape)
		if jb.Empty && len(jb.Reasons) == 0 {
			emptyReasons = true
		}
		switch {
		case err != nil:
			c.Count("A:IsActive=error")
		case act:
			c.Count("A:IsActive=true")
		default:
			c.Count("A:IsActive=false")
		}
		c.Count("A:" + shape)
		c.Count("A:nodes=" + strings.SplitN(strings.Trim(classifyNodes(jb.Nodes), "("), " ", 2)[0])
	}
	rv, rerr := np.GetAllowedDisruptionsByReason(clk, n, reason)
	must := np.MustGetAllowedDisruptions(clk, n, reason)
	switch {
	case rerr != nil:
		c.Count("A:byReason=error")
	case rv == 2147483647:
		c.Count("A:byReason=unbounded")
	case rv == 0:
		c.Count("A:byReason=0")
	default:
		c.Count("A:byReason=bounded")
	}
	obs := fmt.Sprintf("per-budget %v; byReason=(%d,%v); must=%d", gobs, rv, rerr != nil, must)
	term := fmt.Sprintf("CaseA %s %s %s %s %s (%s, %s) %s", kit.GZ(now), kit.GZ(int64(n)), gReason(reason),
		kit.GList(gb), kit.GList(gobs), kit.GZ(int64(rv)), kit.GBool(rerr != nil), kit.GZ(int64(must)))
	key := fmt.Sprintf("A:%s|%d|%s|%d", strings.Join(shapes, ";"), n, reason, must)
	if emptyReasons {
		// `reasons: []` decodes to an empty non-nil slice; before 33199adef it applied to no reason
		c.Count("A:reasons=empty-nonnil")
	}
	c.AddCase(term, caseA{"budget-functions", now, time.Unix(0, now).UTC().Format(time.RFC3339Nano), n, string(reason), bs, obs}, key)
}

// ---- generators ----

var nodesPool = []string{"0", "1", "2", "3", "5", "10", "100", "0%", "1%", "5%", "10%", "20%", "25%", "33%", "50%", "99%", "100%"}
var nodesOdd = []string{"150%", "-1", "+5", "-5%", "007", "07%", "abc", "", "5 %", "%", "10%%", "1e2", "2147483647", "2147483648", "4294967297", "5.5%", " 5", "0x10"}
var schedGood = []string{"* * * * *", "0 * * * *", "*/5 * * * *", "0 9 * * 1-5", "30 2 * * *", "0 0 1 * *", "0 0 * * 0", "15,45 8-18 * * *",
	"0 0 29 2 *", "59 23 31 12 *", "0 12 1,15 * 3", "0 0 */2 * 1", "@daily", "@hourly", "@weekly", "@monthly", "@yearly", "@midnight", "@annually", "0 0 ? * *", "10/20 * * * *"}
var schedNever = []string{"0 0 30 2 *", "0 0 31 4 *"}
var schedBad = []string{"", "* * * *", "* * * * * *", "61 * * * *", "* 24 * * *", "* * 0 * *", "* * * 13 *", "* * * * 7", "bad", "a b c d e", "5-1 * * * *", "*/0 * * * *", "@sometimes"}
var durPool = []string{"1m", "5m", "10m", "30m", "1h", "1h30m", "8h", "24h", "0s", "72h"}

func genBudget(r *kit.Rand) jBudget {
	b := jBudget{}
	switch x := r.Intn(20); {
	case x < 9: // nil reasons
	case x < 10:
		b.Empty = true
	default:
		for _, rn := range reasonNames {
			if r.Chance(2, 5) {
				b.Reasons = append(b.Reasons, string(rn))
			}
		}
		if b.Reasons == nil {
			b.Reasons = []string{string(kit.Pick(r, reasonNames))}
		}
	}
	if r.Chance(1, 10) {
		b.Nodes = kit.Pick(r, nodesOdd)
	} else {
		b.Nodes = kit.Pick(r, nodesPool)
	}
	switch x := r.Intn(20); {
	case x < 6: // always active
	case x < 16:
		s, d := kit.Pick(r, schedGood), kit.Pick(r, durPool)
		b.Schedule, b.Duration = &s, &d
	case x < 17:
		s, d := kit.Pick(r, schedNever), kit.Pick(r, durPool)
		b.Schedule, b.Duration = &s, &d
	case x < 18:
		s, d := kit.Pick(r, schedBad), kit.Pick(r, durPool)
		b.Schedule, b.Duration = &s, &d
	case x < 19:
		s := kit.Pick(r, schedGood)
		b.Schedule = &s
	default:
		d := kit.Pick(r, durPool)
		b.Duration = &d
	}
	return b
}

var baseTimes = []time.Time{
	time.Date(2026, 9, 23, 10, 17, 0, 0, time.UTC), time.Date(2024, 2, 29, 0, 0, 0, 0, time.UTC),
	time.Date(2025, 12, 31, 23, 59, 0, 0, time.UTC), time.Date(2027, 3, 1, 0, 0, 0, 0, time.UTC),
	time.Date(2026, 1, 4, 0, 0, 0, 0, time.UTC) /* a Sunday */, time.Date(2026, 11, 1, 9, 0, 0, 0, time.UTC),
}

// instants places the clock around the window edges of b's schedule near base.
func instants(r *kit.Rand, b jBudget, base time.Time) []int64 {
	out := []int64{base.UnixNano() + int64(r.Intn(3600))*int64(time.Second) + int64(r.Intn(1000))*int64(time.Millisecond)}
	if b.Schedule == nil || b.Duration == nil {
		return out
	}
	spec := parseCron(*b.Schedule)
	if spec == nil {
		return out
	}
	d, _ := time.ParseDuration(*b.Duration)
	h, ok := spec.nextAfter(base.UnixNano())
	if !ok {
		return out
	}
	for _, off := range []int64{-int64(time.Second), -1, 0, 1, int64(time.Second), int64(d) / 2} {
		out = append(out, h+off)
	}
	for _, off := range []int64{-int64(time.Second), -1, 0, 1, int64(time.Second)} {
		out = append(out, h+int64(d)+off)
	}
	return out
}

// sizes returns pool sizes at the rounding boundaries of the percentages in bs.
func sizes(r *kit.Rand, bs []jBudget) []int {
	out := []int{0, 1, r.Range(2, 30)}
	for _, b := range bs {
		if strings.HasSuffix(b.Nodes, "%") {
			if v, err := strconv.Atoi(strings.TrimSuffix(b.Nodes, "%")); err == nil && v > 0 && v <= 100 {
				k := r.Range(1, 4)
				n := k * 100 / v // v*n/100 is near the integer k
				out = append(out, n, n+1)
				if n > 0 {
					out = append(out, n-1)
				}
			}
		}
	}
	return out
}

func partBudgets(c *kit.Ctx) {
	// corpus: the empty-non-nil reasons shape, a never-firing schedule, window edges of an hourly budget
	z, h, m10 := "0", "0 * * * *", "10m"
	runBudgets(c, baseTimes[0].UnixNano(), 10, v1.DisruptionReasonEmpty, []jBudget{{Empty: true, Nodes: z}})
	for _, off := range []int64{-1, 0, 1} {
		t0 := time.Date(2026, 9, 23, 11, 0, 0, 0, time.UTC).UnixNano()
		runBudgets(c, t0+off, 10, v1.DisruptionReasonDrifted, []jBudget{{Nodes: z, Schedule: &h, Duration: &m10}})
		runBudgets(c, t0+int64(10*time.Minute)+off, 10, v1.DisruptionReasonDrifted, []jBudget{{Nodes: z, Schedule: &h, Duration: &m10}})
	}
	// single budgets: every nodes spelling x a few sizes; every schedule x every duration at the window edges
	for _, ns := range append(append([]string{}, nodesPool...), nodesOdd...) {
		for _, n := range []int{0, 1, 7, 10, 19, 20, 21, 100, 101, 1000} {
			runBudgets(c, baseTimes[0].UnixNano(), n, v1.DisruptionReasonUnderutilized, []jBudget{{Nodes: ns}})
		}
	}
	all := append(append(append([]string{}, schedGood...), schedNever...), schedBad...)
	for i, s := range all {
		s := s
		durs := durPool
		if !c.Thorough() {
			durs = []string{durPool[i%len(durPool)], durPool[(i+3)%len(durPool)]}
		}
		for _, d := range durs {
			d := d
			b := jBudget{Nodes: "1", Schedule: &s, Duration: &d}
			bases := baseTimes[:2]
			if c.Thorough() {
				bases = baseTimes[:4]
			}
			for _, base := range bases {
				for _, now := range instants(c.Rand, b, base) {
					runBudgets(c, now, 10, v1.DisruptionReasonEmpty, []jBudget{b})
				}
			}
		}
	}
	// random budget lists
	nRand := 400
	if c.Thorough() {
		nRand = 2000
	}
	for i := 0; i < nRand; i++ {
		r := c.Rand.Fork()
		var bs []jBudget
		for k := r.Intn(5); k > 0; k-- {
			bs = append(bs, genBudget(r))
		}
		base := kit.Pick(r, baseTimes)
		var ts []int64
		if len(bs) > 0 {
			ts = instants(r, bs[r.Intn(len(bs))], base)
		} else {
			ts = []int64{base.UnixNano()}
		}
		ns := sizes(r, bs)
		for k := 0; k < 3; k++ {
			runBudgets(c, kit.Pick(r, ts), kit.Pick(r, ns), kit.Pick(r, reasonNames), bs)
		}
	}
}
