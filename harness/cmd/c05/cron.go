package main

// An independent matcher for the five-field cron syntax (numeric fields, lists, ranges, steps,
// '*' and '?', and the @descriptors the NodePool CRD admits). It does not share code with
// robfig/cron: it decides "is minute m a hit" field by field and finds hits by scanning minute
// by minute. The harness uses it (a) to supply the hit set the property text speaks about
// ("active during [hit, hit+duration)") and (b) to sample the cron `next` contract.

import (
	"strconv"
	"strings"
	"time"
)

type cronSpec struct {
	min, hour, dom, mon, dow []bool
	domStar, dowStar         bool
	never                    bool // a six-year scan found no hit (cached)
}

var cronCache = map[string]*cronSpec{}

var descriptors = map[string]string{
	"@yearly": "0 0 1 1 *", "@annually": "0 0 1 1 *", "@monthly": "0 0 1 * *", "@weekly": "0 0 * * 0",
	"@daily": "0 0 * * *", "@midnight": "0 0 * * *", "@hourly": "0 * * * *",
}

// parseCron returns nil if the expression is not one this matcher understands as valid.
func parseCron(s string) *cronSpec {
	if c, ok := cronCache[s]; ok {
		return c
	}
	c := parseCron0(s)
	cronCache[s] = c
	return c
}

func parseCron0(s string) *cronSpec {
	s = strings.TrimSpace(s)
	if d, ok := descriptors[s]; ok {
		s = d
	}
	f := strings.Fields(s)
	if len(f) != 5 {
		return nil
	}
	c := &cronSpec{}
	var ok bool
	if c.min, _, ok = parseField(f[0], 0, 59); !ok {
		return nil
	}
	if c.hour, _, ok = parseField(f[1], 0, 23); !ok {
		return nil
	}
	if c.dom, c.domStar, ok = parseField(f[2], 1, 31); !ok {
		return nil
	}
	if c.mon, _, ok = parseField(f[3], 1, 12); !ok {
		return nil
	}
	if c.dow, c.dowStar, ok = parseField(f[4], 0, 6); !ok {
		return nil
	}
	return c
}

func parseField(s string, lo, hi int) (bits []bool, star bool, ok bool) {
	bits = make([]bool, hi+1)
	for _, part := range strings.Split(s, ",") {
		if part == "" {
			return nil, false, false
		}
		step := 1
		rng := part
		hasStep := false
		if i := strings.IndexByte(part, '/'); i >= 0 {
			rng = part[:i]
			v, err := strconv.Atoi(part[i+1:])
			if err != nil || v <= 0 {
				return nil, false, false
			}
			step, hasStep = v, true
		}
		a, b := 0, 0
		switch {
		case rng == "*" || rng == "?":
			a, b = lo, hi
			if step == 1 { // a stepped star ("*/2") is a plain list for the day-of-month/day-of-week rule
				star = true
			}
		case strings.Contains(rng, "-"):
			p := strings.SplitN(rng, "-", 2)
			x, e1 := strconv.Atoi(p[0])
			y, e2 := strconv.Atoi(p[1])
			if e1 != nil || e2 != nil {
				return nil, false, false
			}
			a, b = x, y
		default:
			x, err := strconv.Atoi(rng)
			if err != nil {
				return nil, false, false
			}
			a, b = x, x
			if hasStep { // "N/step" means N-max/step
				b = hi
			}
		}
		if a < lo || b > hi || a > b {
			return nil, false, false
		}
		for v := a; v <= b; v += step {
			bits[v] = true
		}
	}
	return bits, star, true
}

// hit reports whether the minute starting at t (UTC, whole minute) is a hit.
func (c *cronSpec) hit(t time.Time) bool {
	if !c.min[t.Minute()] || !c.hour[t.Hour()] || !c.mon[int(t.Month())] {
		return false
	}
	return c.dayOK(t)
}

// dayOK: day-of-month and day-of-week are ANDed when either is a star, ORed when both are restricted.
func (c *cronSpec) dayOK(t time.Time) bool {
	d, w := c.dom[t.Day()], c.dow[int(t.Weekday())]
	if c.domStar || c.dowStar {
		return d && w
	}
	return d || w
}

const scanLimitMinutes = 6 * 366 * 24 * 60

// nextAfter returns the least hit strictly after t (nanoseconds since the epoch), scanning at
// most six years; ok=false if there is none.
func (c *cronSpec) nextAfter(ns int64) (int64, bool) {
	if c.never {
		return 0, false
	}
	t := time.Unix(0, ns).UTC().Truncate(time.Minute).Add(time.Minute)
	end := t.Add(scanLimitMinutes * time.Minute)
	for t.Before(end) {
		switch {
		case !c.mon[int(t.Month())]: // no hit in this month: go to the first minute of the next one
			t = time.Date(t.Year(), t.Month()+1, 1, 0, 0, 0, 0, time.UTC)
		case !c.dayOK(t): // no hit on this day
			t = time.Date(t.Year(), t.Month(), t.Day()+1, 0, 0, 0, 0, time.UTC)
		case !c.hour[t.Hour()]:
			t = t.Truncate(time.Hour).Add(time.Hour)
		case c.hit(t):
			return t.UnixNano(), true
		default:
			t = t.Add(time.Minute)
		}
	}
	c.never = true
	return 0, false
}

// lastAtOrBefore returns the greatest hit h <= ns with h > ns - window; ok=false if none.
func (c *cronSpec) lastAtOrBefore(ns int64, window time.Duration) (int64, bool) {
	t := time.Unix(0, ns).UTC().Truncate(time.Minute)
	for t.UnixNano() > ns-int64(window) {
		if c.hit(t) {
			return t.UnixNano(), true
		}
		t = t.Add(-time.Minute)
	}
	return 0, false
}
