package main

import (
	"context"
	"fmt"
	"sort"

	"github.com/samber/lo"
	corev1 "k8s.io/api/core/v1"
	"k8s.io/apimachinery/pkg/api/resource"
	metav1 "k8s.io/apimachinery/pkg/apis/meta/v1"

	v1 "sigs.k8s.io/karpenter/pkg/apis/v1"
	"sigs.k8s.io/karpenter/pkg/cloudprovider"
	"sigs.k8s.io/karpenter/pkg/cloudprovider/fake"
	"sigs.k8s.io/karpenter/pkg/scheduling"
	"sigs.k8s.io/karpenter/pkg/utils/resources"

	"verifharness/kit"
)

// advProvider is the fake cloud provider with an adversarial Create: it launches ANY instance type the NodeClaim
// lists (compatible with its requirements) in ANY available offering compatible with the requirements, chosen by the
// PRNG, and reports the allocatable that offering really yields (the allocatable group of the real InstanceType).
// Labels are resolved exactly as pkg/cloudprovider/fake does it: every single-valued `In` requirement of the instance
// type, then every requirement of the offering, with the NodeClaim's own labels on top.
type advProvider struct {
	*fake.CloudProvider
	r        *kit.Rand
	launched map[string]*launchInfo // NodeClaim name -> what was launched
	seq      int
	// IgnoreRequests makes the provider launch offerings whose allocatable is below spec.resources.requests (not used
	// by the check: such a provider breaks the NodeClaim contract)
	IgnoreRequests  bool
	Considered      int
	ITCalls         int
	SkippedTooSmall int
}

type launchInfo struct {
	Type      *cloudprovider.InstanceType
	Offering  *cloudprovider.Offering
	Alloc     corev1.ResourceList
	Eligible  int  // number of (type, offering) pairs the provider could choose from
	Dominates bool // the launched allocatable is >= the allocatable of every other compatible available offering of the type
}

// GetInstanceTypes counts the calls: Provisioner.NewScheduler asks for the instance types of every NodePool, so the
// counter moves iff a scheduling pass was set up.
func (a *advProvider) GetInstanceTypes(ctx context.Context, np *v1.NodePool) ([]*cloudprovider.InstanceType, error) {
	a.ITCalls++
	return a.CloudProvider.GetInstanceTypes(ctx, np)
}

func groupAlloc(it *cloudprovider.InstanceType, o *cloudprovider.Offering) corev1.ResourceList {
	for _, g := range it.AllocatableOfferingsList() {
		for _, x := range g.Offerings {
			if x == o {
				return g.Allocatable
			}
		}
	}
	return it.Allocatable()
}

func geq(a, b corev1.ResourceList) bool {
	for k, v := range b {
		av := a[k]
		if av.Cmp(v) < 0 {
			return false
		}
	}
	return true
}

type choice struct {
	it *cloudprovider.InstanceType
	of *cloudprovider.Offering
}

func (a *advProvider) Create(ctx context.Context, nodeClaim *v1.NodeClaim) (*v1.NodeClaim, error) {
	reqs := scheduling.NewNodeSelectorRequirementsWithMinValues(nodeClaim.Spec.Requirements...)
	np := &v1.NodePool{ObjectMeta: metav1.ObjectMeta{Name: nodeClaim.Labels[v1.NodePoolLabelKey]}}
	all := lo.Must(a.CloudProvider.GetInstanceTypes(ctx, np))
	var choices []choice
	for _, it := range all {
		if !reqs.IsCompatible(it.Requirements, scheduling.AllowUndefinedWellKnownLabels) {
			continue
		}
		for _, o := range it.Offerings.Available().Compatible(reqs) {
			a.Considered++
			// NodeClaim API contract: spec.resources.requests is the minimum the launched instance must provide
			if !a.IgnoreRequests && !resources.Fits(nodeClaim.Spec.Resources.Requests, groupAlloc(it, o)) {
				a.SkippedTooSmall++
				continue
			}
			choices = append(choices, choice{it, o})
		}
	}
	if len(choices) == 0 {
		return nil, cloudprovider.NewInsufficientCapacityError(fmt.Errorf("no instance type / offering satisfies the nodeclaim"))
	}
	sort.SliceStable(choices, func(i, j int) bool { return choices[i].it.Name < choices[j].it.Name })
	ch := choices[a.r.Intn(len(choices))]
	labels := map[string]string{}
	for key, requirement := range ch.it.Requirements {
		if requirement.Operator() == corev1.NodeSelectorOpIn {
			vs := requirement.Values()
			sort.Strings(vs)
			labels[key] = vs[0]
		}
	}
	for _, req := range ch.of.Requirements {
		vs := req.Values()
		sort.Strings(vs)
		labels[req.Key] = vs[0]
	}
	alloc := groupAlloc(ch.it, ch.of)
	dom := true
	for _, o := range ch.it.Offerings.Available().Compatible(reqs) {
		if !geq(alloc, groupAlloc(ch.it, o)) {
			dom = false
		}
	}
	a.seq++
	capacity := lo.Assign(ch.it.Capacity, ch.of.CapacityOverride)
	created := &v1.NodeClaim{
		ObjectMeta: metav1.ObjectMeta{Name: nodeClaim.Name, Labels: lo.Assign(labels, nodeClaim.Labels), Annotations: nodeClaim.Annotations},
		Spec:       *nodeClaim.Spec.DeepCopy(),
		Status: v1.NodeClaimStatus{
			ProviderID:  fmt.Sprintf("fake://adv-%04d", a.seq),
			Capacity:    lo.PickBy(capacity, func(_ corev1.ResourceName, v resource.Quantity) bool { return !resources.IsZero(v) }),
			Allocatable: lo.PickBy(alloc, func(_ corev1.ResourceName, v resource.Quantity) bool { return !resources.IsZero(v) }),
		},
	}
	a.launched[nodeClaim.Name] = &launchInfo{Type: ch.it, Offering: ch.of, Alloc: alloc, Eligible: len(choices), Dominates: dom}
	a.CreatedNodeClaims[created.Status.ProviderID] = created
	return created, nil
}
