// Command c04 — harness of property C04 (new capacity is opened only when existing capacity cannot admit the pod).
//
// Every world is a generated cluster (schedkit) driven through several REAL provisioning passes:
//
//	Provisioner.Schedule -> Provisioner.CreateNodeClaims -> [Cluster.Synced / Provisioner.Reconcile while unlaunched]
//	-> lifecycle.Controller.Reconcile with an adversarial provider (any listed instance type, any compatible offering)
//	-> node appears (kubelet played by the harness: unregistered / startup / not-ready taints, zero-valued status)
//	-> lifecycle registration -> node ready -> lifecycle initialization,
//
// with Provisioner.Schedule re-run after every round while the pods stay pending.  Per pass the raw cluster state
// (state.StateNode of every node), the scheduler's own starting point (ExistingNode views, templates) and the
// placements are emitted for coq/C04/Check.v; per in-flight NodeClaim the pods it was created for are offered jointly
// to the real ExistingNode of that claim (real CanAdd / Add as feasibility witness).
package main

import (
	"context"
	"encoding/json"
	"errors"
	"fmt"
	"os"
	"sort"
	"strings"
	"time"

	"github.com/samber/lo"
	corev1 "k8s.io/api/core/v1"
	metav1 "k8s.io/apimachinery/pkg/apis/meta/v1"
	"k8s.io/apimachinery/pkg/types"
	"sigs.k8s.io/controller-runtime/pkg/client"

	v1 "sigs.k8s.io/karpenter/pkg/apis/v1"
	"sigs.k8s.io/karpenter/pkg/cloudprovider"
	"sigs.k8s.io/karpenter/pkg/controllers/provisioning"
	psched "sigs.k8s.io/karpenter/pkg/controllers/provisioning/scheduling"
	"sigs.k8s.io/karpenter/pkg/controllers/state"
	"sigs.k8s.io/karpenter/pkg/scheduling"
	"sigs.k8s.io/karpenter/pkg/utils/resources"

	"verifharness/kit"
	sk "verifharness/schedkit"
)

// ---------------------------------------------------------------- dumps

func dumpPodK(p *corev1.Pod) sk.PodDump {
	d := sk.DumpPod(p)
	d.Requests = sk.Milli(resources.RequestsForPods(p))
	return d
}

func names(its []*cloudprovider.InstanceType) []string {
	out := []string{}
	for _, it := range its {
		out = append(out, it.Name)
	}
	sort.Strings(out)
	return out
}

func dumpUsage(u *scheduling.HostPortUsage) []usageEntry {
	out := []usageEntry{}
	for k, ports := range u.VerifC04Reserved() {
		e := usageEntry{Who: k, Ports: []sk.HostPort{}}
		for _, hp := range ports {
			e.Ports = append(e.Ports, sk.HostPort{IP: hp.IP.String(), Port: hp.Port, Proto: string(hp.Protocol)})
		}
		out = append(out, e)
	}
	sort.Slice(out, func(i, j int) bool { return out[i].Who < out[j].Who })
	return out
}

func dumpGroups(gs []psched.DaemonOverheadGroup) []groupDump {
	out := []groupDump{}
	for _, g := range gs {
		gd := groupDump{Overhead: sk.Milli(g.DaemonOverhead), Usage: dumpUsage(g.HostPortUsage), ITs: []string{}}
		for _, it := range g.InstanceTypes {
			gd.ITs = append(gd.ITs, it.Name)
		}
		out = append(out, gd)
	}
	sort.Slice(out, func(i, j int) bool { return strings.Join(out[i].ITs, ",") < strings.Join(out[j].ITs, ",") })
	return out
}

func sortedPairs(m map[string]string) [][2]string {
	out := [][2]string{}
	for k, v := range m {
		out = append(out, [2]string{k, v})
	}
	sort.Slice(out, func(i, j int) bool { return out[i][0] < out[j][0] })
	return out
}

// snDump is the raw content of a state.StateNode.
type snDump struct {
	HasNode     bool         `json:"hasNode"`
	HasClaim    bool         `json:"hasNodeClaim"`
	NodeName    string       `json:"nodeName"`
	ClaimName   string       `json:"nodeClaimName"`
	NodeLabels  [][2]string  `json:"nodeLabels"`
	ClaimLabels [][2]string  `json:"nodeClaimLabels"`
	NodeTaints  []sk.Taint   `json:"nodeTaints"`
	ClaimTaints []sk.Taint   `json:"nodeClaimTaints"`
	Startup     []sk.Taint   `json:"startupTaints"`
	NodeAlloc   sk.RL        `json:"nodeAllocatable"`
	ClaimAlloc  sk.RL        `json:"nodeClaimAllocatable"`
	Marked      bool         `json:"markedForDeletion"`
	CDeleting   bool         `json:"nodeClaimDeleting"`
	NDeleting   bool         `json:"nodeDeleting"`
	PodReq      sk.RL        `json:"podRequests"`
	DSReq       sk.RL        `json:"daemonSetRequests"`
	Ports       []usageEntry `json:"hostPortUsage"`
	Stage       string       `json:"stage"`
}

func (m *mp) dumpSN(sn *state.StateNode, markedIDs map[string]bool) snDump {
	d := snDump{NodeLabels: [][2]string{}, ClaimLabels: [][2]string{}, NodeTaints: []sk.Taint{}, ClaimTaints: []sk.Taint{}, Startup: []sk.Taint{},
		NodeAlloc: sk.RL{}, ClaimAlloc: sk.RL{}, PodReq: sk.Milli(sn.PodRequests()), DSReq: sk.Milli(sn.DaemonSetRequests()), Ports: dumpUsage(sn.HostPortUsage())}
	if sn.Node != nil {
		d.HasNode, d.NodeName, d.NodeLabels, d.NodeTaints, d.NodeAlloc = true, sn.Node.Name, sortedPairs(sn.Node.Labels), sk.DumpTaints(sn.Node.Spec.Taints), sk.Milli(sn.Node.Status.Allocatable)
		d.NDeleting = !sn.Node.DeletionTimestamp.IsZero()
	}
	if sn.NodeClaim != nil {
		d.HasClaim, d.ClaimName, d.ClaimLabels, d.ClaimTaints, d.Startup, d.ClaimAlloc = true, sn.NodeClaim.Name, sortedPairs(sn.NodeClaim.Labels), sk.DumpTaints(sn.NodeClaim.Spec.Taints),
			sk.DumpTaints(sn.NodeClaim.Spec.StartupTaints), sk.Milli(sn.NodeClaim.Status.Allocatable)
		d.CDeleting = !sn.NodeClaim.DeletionTimestamp.IsZero() || sn.NodeClaim.StatusConditions().Get(v1.ConditionTypeInstanceTerminating).IsTrue()
	}
	d.Marked = markedIDs[sn.ProviderID()]
	switch {
	case !d.HasClaim:
		d.Stage = "unmanaged"
	case !d.HasNode:
		d.Stage = "claim-only"
	case !sn.Registered():
		d.Stage = "unregistered"
	case !sn.Initialized():
		d.Stage = "registered"
	default:
		d.Stage = "initialized"
	}
	return d
}

// apiSNs rebuilds the content of every state node from the API alone, without looking at the live cluster state:
// NodeClaims with a provider id and Nodes, joined by provider id; the requests / daemonset requests / host ports of the
// pods that are bound to the node and not terminal (phase Succeeded / Failed) — a terminating pod still holds its
// resources.  Only "marked for deletion" is taken from the harness (it is an in-memory decision, not an API fact).
func (m *mp) apiSNs(count func(string)) []snDump {
	ncs := &v1.NodeClaimList{}
	nodes := &corev1.NodeList{}
	pods := &corev1.PodList{}
	for _, l := range []client.ObjectList{ncs, nodes, pods} {
		if err := m.cl.List(m.ctx, l); err != nil {
			panic(err)
		}
	}
	byID := map[string]*snDump{}
	get := func(id string) *snDump {
		if d, ok := byID[id]; ok {
			return d
		}
		d := &snDump{NodeLabels: [][2]string{}, ClaimLabels: [][2]string{}, NodeTaints: []sk.Taint{}, ClaimTaints: []sk.Taint{}, Startup: []sk.Taint{},
			NodeAlloc: sk.RL{}, ClaimAlloc: sk.RL{}, PodReq: sk.RL{}, DSReq: sk.RL{}, Ports: []usageEntry{}, Marked: m.marked[id]}
		byID[id] = d
		return d
	}
	for i := range ncs.Items {
		nc := &ncs.Items[i]
		if nc.Status.ProviderID == "" {
			continue
		}
		d := get(nc.Status.ProviderID)
		d.HasClaim, d.ClaimName, d.ClaimLabels, d.ClaimTaints, d.Startup, d.ClaimAlloc = true, nc.Name, sortedPairs(nc.Labels), sk.DumpTaints(nc.Spec.Taints),
			sk.DumpTaints(nc.Spec.StartupTaints), sk.Milli(nc.Status.Allocatable)
		d.CDeleting = !nc.DeletionTimestamp.IsZero() || nc.StatusConditions().Get(v1.ConditionTypeInstanceTerminating).IsTrue()
	}
	for i := range nodes.Items {
		n := &nodes.Items[i]
		id := n.Spec.ProviderID
		managed := n.Labels[v1.NodePoolLabelKey] != ""
		if id == "" {
			if managed {
				continue
			}
			id = n.Name
		}
		if managed && n.Labels[corev1.LabelInstanceTypeStable] == "" && n.Labels[v1.NodeInitializedLabelKey] == "" {
			continue
		}
		d := get(id)
		d.HasNode, d.NodeName, d.NodeLabels, d.NodeTaints, d.NodeAlloc = true, n.Name, sortedPairs(n.Labels), sk.DumpTaints(n.Spec.Taints), sk.Milli(n.Status.Allocatable)
		d.NDeleting = !n.DeletionTimestamp.IsZero()
		var bound, ds []*corev1.Pod
		for j := range pods.Items {
			p := &pods.Items[j]
			if p.Spec.NodeName != n.Name {
				continue
			}
			if p.Status.Phase == corev1.PodSucceeded || p.Status.Phase == corev1.PodFailed {
				count("bound-pod.terminal-not-counted")
				continue
			}
			if p.DeletionTimestamp != nil {
				count("bound-pod.terminating-counted")
			}
			bound = append(bound, p)
			for _, o := range p.OwnerReferences {
				if o.Kind == "DaemonSet" {
					ds = append(ds, p)
				}
			}
			hp := []sk.HostPort{}
			for _, x := range scheduling.GetHostPorts(p) {
				hp = append(hp, sk.HostPort{IP: x.IP.String(), Port: x.Port, Proto: string(x.Protocol)})
			}
			d.Ports = append(d.Ports, usageEntry{Who: p.Namespace + "/" + p.Name, Ports: hp})
		}
		if len(bound) > 0 {
			d.PodReq = sk.Milli(resources.RequestsForPods(bound...))
		}
		if len(ds) > 0 {
			d.DSReq = sk.Milli(resources.RequestsForPods(ds...))
		}
		sort.Slice(d.Ports, func(i, j int) bool { return d.Ports[i].Who < d.Ports[j].Who })
	}
	ids := make([]string, 0, len(byID))
	for id := range byID {
		ids = append(ids, id)
	}
	sort.Strings(ids)
	out := []snDump{}
	for _, id := range ids {
		d := byID[id]
		registered := d.HasNode && lookup(d.NodeLabels, v1.NodeRegisteredLabelKey) == "true"
		initialized := d.HasNode && lookup(d.NodeLabels, v1.NodeInitializedLabelKey) == "true"
		switch {
		case !d.HasClaim:
			d.Stage = "unmanaged"
		case !d.HasNode:
			d.Stage = "claim-only"
		case !registered:
			d.Stage = "unregistered"
		case !initialized:
			d.Stage = "registered"
		default:
			d.Stage = "initialized"
		}
		out = append(out, *d)
	}
	return out
}

func lookup(kv [][2]string, k string) string {
	for _, p := range kv {
		if p[0] == k {
			return p[1]
		}
	}
	return ""
}

func (d snDump) deleting() bool {
	return d.Marked || (d.HasClaim && d.CDeleting) || (d.HasNode && !d.HasClaim && d.NDeleting)
}

func gSN(d snDump) string {
	return fmt.Sprintf("(mkSN %s %s %s %s %s %s %s %s %s %s %s %s %s %s %s %s %s)", kit.GBool(d.HasNode), kit.GBool(d.HasClaim), gs(d.NodeName), gs(d.ClaimName),
		gPairs(d.NodeLabels), gPairs(d.ClaimLabels), kit.GListOf(d.NodeTaints, gTaint), kit.GListOf(d.ClaimTaints, gTaint), kit.GListOf(d.Startup, gTaint),
		gRL(d.NodeAlloc), gRL(d.ClaimAlloc), kit.GBool(d.Marked), kit.GBool(d.CDeleting), kit.GBool(d.NDeleting), gRL(d.PodReq), gRL(d.DSReq), gUsage(d.Ports))
}

type viewDump struct {
	Name        string     `json:"name"`
	Initialized bool       `json:"initialized"`
	Taints      []sk.Taint `json:"taints"`
	Reqs        sk.Reqs    `json:"requirements"`
	Remaining   sk.RL      `json:"remaining"`
}

func dumpView(en *psched.ExistingNode) viewDump {
	return viewDump{Name: en.Name(), Initialized: en.Initialized(), Taints: sk.DumpTaints(en.VerifC04Taints()), Reqs: sk.DumpReqs(en.VerifC04Requirements()), Remaining: sk.Milli(en.VerifC04Remaining())}
}

func gView(v viewDump) string {
	return fmt.Sprintf("(mkXO %s %s %s %s %s)", gs(v.Name), kit.GBool(v.Initialized), kit.GListOf(v.Taints, gTaint), gReqs(v.Reqs), gRL(v.Remaining))
}

type tmplDump struct {
	Pool   string      `json:"nodepool"`
	Taints []sk.Taint  `json:"taints"`
	Reqs   sk.Reqs     `json:"requirements"`
	ITs    []string    `json:"instanceTypes"`
	Groups []groupDump `json:"daemonOverheadGroups"`
}

func gTmpl(t tmplDump) string {
	return fmt.Sprintf("(mkTm %s (mkNC %s %s %s [] %s []))", gs(t.Pool), kit.GListOf(t.Taints, gTaint), gReqs(t.Reqs), gss(t.ITs), kit.GListOf(t.Groups, gGroup))
}

type obsDump struct {
	Key    string     `json:"pod"`
	Placed sk.PodDump `json:"placedAs"`
	Kind   string     `json:"target"` // existing | inflight | new
	ID     string     `json:"id"`     // node name | opener pod key | nodepool
}

func gObs(o obsDump) string {
	t := ""
	switch o.Kind {
	case "existing":
		t = "(TEx " + gs(o.ID) + ")"
	case "inflight":
		t = "(TIn " + gs(o.ID) + ")"
	case "new":
		t = "(TNew " + gs(o.ID) + ")"
	}
	return fmt.Sprintf("(%s, %s, %s)", gs(o.Key), gPod(o.Placed), t)
}

type qpodDump struct {
	Pod sk.PodDump `json:"pod"`
	TS  int64      `json:"creationTimestamp"`
	UID string     `json:"uid"`
}

func gQ(q qpodDump) string {
	return fmt.Sprintf("(mkQ %s %s %s true)", gPod(q.Pod), kit.GZ(q.TS), gs(q.UID))
}

var wkCache []string

func wellKnown() []string {
	if wkCache == nil {
		for k := range v1.WellKnownLabels {
			wkCache = append(wkCache, k)
		}
		sort.Strings(wkCache)
	}
	return wkCache
}

func gEphem() string {
	ts := sk.DumpTaints(scheduling.KnownEphemeralTaints)
	return fmt.Sprintf("(mkEph %s %s)", kit.GListOf(ts, gTaint), gss(scheduling.KnownEphemeralTaintKeyPrefixes))
}

// ---------------------------------------------------------------- one pass

type passOut struct {
	Results psched.Results
	Obs     []obsDump
	Errors  map[string]string
	Views   []viewDump
	SNs     []snDump
}

// runPass probes the scheduler's starting point, runs the real Provisioner.Schedule and emits the CPass case.
func (m *mp) runPass(c *kit.Ctx, label string, markedIDs map[string]bool, world int) (*passOut, error) {
	s, pods, nodes, err := m.probe()
	if errors.Is(err, provisioning.ErrNodePoolsNotFound) { // every NodePool is out: the pass gives up, nothing is placed, nothing is opened
		c.Count("pass.no-usable-nodepool")
		res, err := m.prov.Schedule(m.ctx)
		if err != nil {
			return nil, fmt.Errorf("Schedule: %w", err)
		}
		if len(res.NewNodeClaims) != 0 {
			c.Fail(c.NextID(), "a pass without a usable NodePool opened NodeClaims", "", map[string]interface{}{"kind": "no-nodepool", "world": world})
		}
		return &passOut{Errors: map[string]string{}}, nil
	}
	if err != nil && m.deadlinePool != "" && errors.Is(err, context.DeadlineExceeded) { // the provider timed out: the pass fails as a whole
		c.Count("pass.provider-deadline-exceeded")
		res, serr := m.prov.Schedule(m.ctx)
		if serr == nil || len(res.NewNodeClaims) != 0 {
			c.Fail(c.NextID(), "a pass whose instance-type lookup timed out returned placements", "", map[string]interface{}{"kind": "provider-deadline", "world": world})
		}
		// the provider recovers
		delete(m.cp.ErrorsForNodePool, m.deadlinePool)
		delete(m.poolOut, m.deadlinePool)
		m.deadlinePool = ""
		return &passOut{Errors: map[string]string{}}, nil
	}
	if err != nil {
		return nil, err
	}
	if s == nil { // nothing to schedule: the real pass must return at once with nothing
		c.Count("pass.empty-batch")
		res, err := m.prov.Schedule(m.ctx)
		if err != nil {
			return nil, fmt.Errorf("Schedule: %w", err)
		}
		if len(res.NewNodeClaims) != 0 || len(res.ExistingNodes) != 0 {
			c.Fail(c.NextID(), "a pass without pods produced placements", "", map[string]interface{}{"kind": "empty-batch", "world": world})
		}
		m.checkBatch(c, nil, label, world)
		return &passOut{Errors: map[string]string{}}, nil
	}
	m.checkBatch(c, pods, label, world)
	out := &passOut{Errors: map[string]string{}}
	_ = nodes
	// the state nodes handed to the model come from the API, not from the cluster state the scheduler used
	out.SNs = m.apiSNs(c.Count)
	for _, d := range out.SNs {
		if d.deleting() {
			c.Count("statenode.deleting." + d.Stage)
		} else {
			c.Count("statenode.active." + d.Stage)
		}
	}
	for _, en := range s.VerifC04ExistingNodes() {
		out.Views = append(out.Views, dumpView(en))
	}
	var tmpls []tmplDump
	for _, t := range s.VerifC04Templates() {
		tmpls = append(tmpls, tmplDump{Pool: t.NodePoolName, Taints: sk.DumpTaints(t.Spec.Taints), Reqs: sk.DumpReqs(t.Requirements), ITs: names(t.InstanceTypeOptions), Groups: dumpGroups(s.VerifC04DaemonGroups(t))})
	}
	var qpods []qpodDump
	for _, p := range pods {
		if m.podKind[p.Namespace+"/"+p.Name] == kindDRA { // never placed while DRA requests are ignored (checkDRA); not handed to the model
			continue
		}
		qpods = append(qpods, qpodDump{Pod: dumpPodK(p), TS: p.CreationTimestamp.Unix(), UID: string(p.UID)})
	}
	sort.Slice(qpods, func(i, j int) bool { return qpods[i].Pod.Key < qpods[j].Pod.Key })
	daemons := m.daemonPods(true)
	m.livePrepped = m.livePrepped || len(tmpls) > 0
	var cat []sk.ITDump
	for _, it := range m.w.Catalog {
		cat = append(cat, sk.DumpIT(it))
	}
	tolPNS := s.VerifC04ToleratePreferNoSchedule()

	res, err := m.prov.Schedule(m.ctx)
	if err != nil {
		return nil, fmt.Errorf("Schedule: %w", err)
	}
	out.Results = res
	for _, en := range res.ExistingNodes {
		for _, p := range en.Pods {
			out.Obs = append(out.Obs, obsDump{Key: p.Namespace + "/" + p.Name, Placed: dumpPodK(p), Kind: "existing", ID: en.Name()})
		}
	}
	for _, nc := range res.NewNodeClaims {
		for i, p := range nc.Pods {
			o := obsDump{Key: p.Namespace + "/" + p.Name, Placed: dumpPodK(p), Kind: "new", ID: nc.NodePoolName}
			if i > 0 {
				o.Kind, o.ID = "inflight", nc.Pods[0].Namespace+"/"+nc.Pods[0].Name
			}
			out.Obs = append(out.Obs, o)
		}
	}
	sort.Slice(out.Obs, func(i, j int) bool { return out.Obs[i].Key < out.Obs[j].Key })
	for p, e := range res.PodErrors {
		out.Errors[p.Namespace+"/"+p.Name] = e.Error()
	}
	m.witnessNewClaims(c, res, label, world)
	m.checkPools(c, tmpls, &res, label, world)
	m.checkDRA(c, res, label, world)
	// distribution
	c.Count("pass." + label)
	for _, o := range out.Obs {
		c.Count("target." + o.Kind)
		if len(o.Placed.Req) > 0 {
			c.Count("target." + o.Kind + ".with-required-terms")
		}
	}
	c.Count(fmt.Sprintf("pass.errors=%d", min(len(out.Errors), 3)))
	c.Count(fmt.Sprintf("pass.existing-nodes=%d", min(len(out.Views), 6)))
	c.Count(fmt.Sprintf("pass.templates=%d", min(len(tmpls), 3)))

	cfgT := fmt.Sprintf("(mkCfg %s %s %s %s %s)", gWK(wellKnown()), kit.GListOf(cat, gIT), kit.GBool(!m.cfg.IgnorePreferences), kit.GBool(m.cfg.BestEffortMinValues), kit.GBool(tolPNS))
	term := fmt.Sprintf("(CPass %s %s %s %s %s %s %s %s)", cfgT, gEphem(), kit.GListOf(daemons, gPod), kit.GListOf(out.SNs, gSN), kit.GListOf(tmpls, gTmpl),
		kit.GListOf(qpods, gQ), kit.GListOf(out.Views, gView), kit.GListOf(out.Obs, gObs))
	in := map[string]interface{}{"kind": "pass", "world": world, "stage": label, "config": m.cfg, "stateNodes": out.SNs, "existingNodeViews": out.Views, "templates": tmpls,
		"pods": qpods, "daemons": daemons, "placements": out.Obs, "errors": out.Errors}
	if k := kfPass(out, qpods); k != "" {
		in["kf_key"] = k
		c.Count("kf-shape." + k)
	}
	raw, _ := json.Marshal([]interface{}{out.SNs, tmpls, qpods, out.Obs})
	c.AddCase(term, in, "pass|"+string(raw))
	return out, nil
}

// ---------------------------------------------------------------- known-finding shapes

const (
	// the in-flight node of a NodeClaim is taken by OTHER pods in the next pass (existing nodes are tried in name order,
	// the claims of the first pass were filled in pod-count order), so a pod the claim was created for is displaced and
	// gets a second NodeClaim although its own claim would still admit all the pods it was created for
	kfDisplacement   = "rerun-displaces-pods-from-their-in-flight-nodeclaim"
	kfUndefinedLabel = "existing-node-undefined-label-after-notin"
	kfAnyExcluded    = "any-returns-excluded-value"
	kfDaemonLabel    = "daemon-overhead-ignores-labels-introduced-by-pods"
	kfCollapse       = "contradictory-constraints-collapse-to-doesnotexist"
)

func positive(op string) bool { return op != "NotIn" && op != "DoesNotExist" }

func kfPass(out *passOut, qpods []qpodDump) string { return "" }

// firstTermKeys lists the constraints of the pod's node selector and FIRST required term (what CanAdd looks at).
func firstTermExprs(p *corev1.Pod) []corev1.NodeSelectorRequirement {
	var out []corev1.NodeSelectorRequirement
	for k, v := range p.Spec.NodeSelector {
		out = append(out, corev1.NodeSelectorRequirement{Key: k, Operator: corev1.NodeSelectorOpIn, Values: []string{v}})
	}
	if a := p.Spec.Affinity; a != nil && a.NodeAffinity != nil && a.NodeAffinity.RequiredDuringSchedulingIgnoredDuringExecution != nil {
		if ts := a.NodeAffinity.RequiredDuringSchedulingIgnoredDuringExecution.NodeSelectorTerms; len(ts) > 0 {
			out = append(out, ts[0].MatchExpressions...)
		}
	}
	return out
}

// witnessNewClaims: the pod that opened a new NodeClaim must be rejected by the REAL CanAdd of every existing /
// in-flight node of the pass, evaluated at the end of the pass (requirements only narrow and resources only shrink
// during a pass, so a node that rejected the pod when it was tried still rejects it).  The one known exception is
// C01's finding existing-node-undefined-label-after-notin (a later `k NotIn` pod makes key k "defined" on the node).
func (m *mp) witnessNewClaims(c *kit.Ctx, res psched.Results, label string, world int) {
	if len(res.NewNodeClaims) == 0 {
		return
	}
	all := !m.cfg.IgnorePreferences
	// the existing nodes are rebuilt from a FRESH cluster state hydrated from the API, then the pass's own placements on
	// existing nodes are replayed on them
	fv, err := m.fresh()
	if err != nil {
		panic(err)
	}
	fs, _, err := fv.probe(m)
	if err != nil || fs == nil {
		c.Count("witness.no-fresh-scheduler")
		return
	}
	freshByName := map[string]*psched.ExistingNode{}
	for _, en := range fs.VerifC04ExistingNodes() {
		freshByName[en.Name()] = en
	}
	for _, en := range res.ExistingNodes {
		fe := freshByName[en.Name()]
		if fe == nil {
			if len(en.Pods) > 0 {
				c.Count("witness.placement-on-node-unknown-to-fresh-state")
			}
			continue
		}
		for _, p := range en.Pods {
			q := p.DeepCopy()
			pd := podData(q, all)
			if reqs, _, err := fe.CanAdd(m.ctx, q, pd, scheduling.Volumes{}, nil); err == nil {
				fe.Add(m.ctx, q, pd, reqs, scheduling.Volumes{}, nil)
			} else {
				c.Count("witness.fresh-node-rejects-a-placement-of-the-pass")
			}
		}
	}
	for _, nc := range res.NewNodeClaims {
		opener := nc.Pods[0]
		for _, en := range fs.VerifC04ExistingNodes() {
			q := opener.DeepCopy()
			if _, _, err := en.CanAdd(m.ctx, q, podData(q, all), scheduling.Volumes{}, nil); err != nil {
				c.Count("witness.existing-node-rejects-opener")
				continue
			}
			key := ""
			labels := en.Labels()
			for _, x := range firstTermExprs(opener) {
				if _, ok := labels[x.Key]; ok || !positive(string(x.Operator)) {
					continue
				}
				for _, other := range en.Pods {
					for _, y := range firstTermExprs(other) {
						if y.Key == x.Key && y.Operator == corev1.NodeSelectorOpNotIn {
							key = kfUndefinedLabel
						}
					}
				}
			}
			c.Count("witness.existing-node-ACCEPTS-opener")
			c.Fail(c.NextID(), fmt.Sprintf("real ExistingNode.CanAdd of %s (built from a fresh cluster state fed the current API) accepts pod %s/%s, which was placed on a new NodeClaim (pass %s)", en.Name(), opener.Namespace, opener.Name, label), key,
				map[string]interface{}{"kind": "witness", "world": world, "stage": label, "node": en.Name(), "nodeLabels": labels, "pod": dumpPodK(opener), "remainingOnFreshNode": sk.Milli(en.VerifC04Remaining()),
					"podsPlacedOnNode": lo.Map(en.Pods, func(p *corev1.Pod, _ int) sk.PodDump { return dumpPodK(p) }), "kf_key": key})
		}
	}
}

// ---------------------------------------------------------------- joint re-admission on the in-flight node

func podData(p *corev1.Pod, all bool) *psched.PodData {
	var rs scheduling.Requirements
	if all {
		rs = scheduling.NewPodRequirements(p)
	} else {
		rs = scheduling.NewStrictPodRequirements(p)
	}
	strict := rs
	if scheduling.HasPreferredNodeAffinity(p) {
		strict = scheduling.NewStrictPodRequirements(p)
	}
	return &psched.PodData{Requests: resources.RequestsForPods(p), Requirements: rs, StrictRequirements: strict}
}

// rerunClaim offers the pods the NodeClaim was created for, in their original order and with their original specs,
// to the REAL ExistingNode the scheduler builds for that claim now (trySchedule's loop restricted to this node:
// CanAdd, Relax on failure).  Emits a CRerun case.
func (m *mp) rerunClaim(c *kit.Ctx, claim string, podKeys []string, stage string, world int) (bool, string) {
	fv, err := m.fresh()
	if err != nil {
		panic(err)
	}
	s, _, err := fv.probe(m)
	if err != nil || s == nil {
		return true, ""
	}
	nc := &v1.NodeClaim{}
	if err := m.cl.Get(m.ctx, client.ObjectKey{Name: claim}, nc); err != nil {
		return true, ""
	}
	var en *psched.ExistingNode
	for _, e := range s.VerifC04ExistingNodes() {
		if e.NodeClaim != nil && e.NodeClaim.Name == claim {
			en = e
		}
	}
	var sn *snDump
	for _, x := range m.apiSNs(func(string) {}) {
		if x.HasClaim && x.ClaimName == claim && !x.deleting() {
			y := x
			sn = &y
		}
	}
	if en == nil || sn == nil {
		c.Count("rerun.claim-not-active")
		return true, ""
	}
	all := !m.cfg.IgnorePreferences
	prefs := &psched.Preferences{ToleratePreferNoSchedule: s.VerifC04ToleratePreferNoSchedule()}
	var pods []sk.PodDump
	realOK := true
	firstErr, allErrs := "", ""
	for _, k := range podKeys {
		p := &corev1.Pod{}
		parts := strings.SplitN(k, "/", 2)
		if err := m.cl.Get(m.ctx, client.ObjectKey{Namespace: parts[0], Name: parts[1]}, p); err != nil {
			continue
		}
		pods = append(pods, dumpPodK(p))
		q := p.DeepCopy()
		placed := false
		for i := 0; i < 50; i++ {
			pd := podData(q, all)
			reqs, _, err := en.CanAdd(m.ctx, q, pd, scheduling.Volumes{}, nil)
			if err == nil {
				en.Add(m.ctx, q, pd, reqs, scheduling.Volumes{}, nil)
				placed = true
				break
			}
			if firstErr == "" {
				firstErr = k + ": " + err.Error()
			}
			allErrs += err.Error() + "\n"
			if !prefs.Relax(m.ctx, q) {
				break
			}
		}
		if !placed {
			realOK = false
		}
	}
	d := *sn
	daemons := m.daemonPods(false)
	li := m.cp.launched[claim]
	c.Count("rerun." + stage + fmt.Sprintf(".ok=%v", realOK))
	term := fmt.Sprintf("(CRerun %s %s %s %s %s %s %s %s)", kit.GBool(all), kit.GBool(prefs.ToleratePreferNoSchedule), kit.GBool(len(s.VerifC04Templates()) > 0), gEphem(), kit.GListOf(daemons, gPod), gSN(d), kit.GListOf(pods, gPod), kit.GBool(realOK))
	in := map[string]interface{}{"kind": "rerun", "world": world, "stage": stage, "nodeClaim": claim, "stateNode": d, "pods": pods, "daemons": daemons, "realExistingNodeAcceptedAll": realOK, "firstError": firstErr}
	if li != nil {
		in["launched"] = map[string]interface{}{"instanceType": li.Type.Name, "offering": sk.DumpReqs(li.Offering.Requirements), "allocatable": sk.Milli(li.Alloc), "choices": li.Eligible, "allocatableDominatesOtherOfferings": li.Dominates}
	}
	kf := ""
	if !realOK {
		if kf = m.kfRerun(nc, li, pods, allErrs); kf != "" {
			in["kf_key"] = kf
			c.Count("kf-shape." + kf)
		}
	}
	raw, _ := json.Marshal([]interface{}{d, pods})
	c.AddCase(term, in, "rerun|"+string(raw))
	return realOK, kf
}

// kfRerun recognises the one known defect that makes an in-flight node reject the pods of its own claim: F10
// (any-returns-excluded-value, reported under C13) — ToNodeClaim resolved a custom label with Requirement.Any() to a
// value the NodeClaim's own requirement on that key excludes.
func (m *mp) kfRerun(nc *v1.NodeClaim, li *launchInfo, pods []sk.PodDump, firstErr string) string {
	// C01's finding daemon-overhead-ignores-labels-introduced-by-pods seen from C04: a pod put a custom label key on the
	// claim that the NodePool template does not define (e.g. `team NotIn [a]`), ToNodeClaim resolved it to a value, and
	// a daemonset that selects on that key (`team Exists`) now counts on the in-flight node although the claim's
	// daemon overhead group did not include it
	np := &v1.NodePool{}
	if err := m.cl.Get(m.ctx, client.ObjectKey{Name: nc.Labels[v1.NodePoolLabelKey]}, np); err == nil {
		defined := map[string]bool{}
		for _, r := range np.Spec.Template.Spec.Requirements {
			defined[r.Key] = true
		}
		for k := range np.Spec.Template.Labels {
			defined[k] = true
		}
		for k := range nc.Labels {
			if !strings.HasPrefix(k, "example.com/") || defined[k] {
				continue
			}
			for _, d := range m.daemonPods(false) {
				for _, kv := range d.Sel {
					if kv[0] == k {
						return kfDaemonLabel
					}
				}
				for _, t := range d.Req {
					for _, x := range t {
						if x.Key == k {
							return kfDaemonLabel
						}
					}
				}
			}
		}
	}
	reqs := scheduling.NewNodeSelectorRequirementsWithMinValues(nc.Spec.Requirements...)
	for k, val := range nc.Labels {
		if v1.WellKnownLabels.Has(k) || !reqs.Has(k) {
			continue
		}
		if !reqs.Get(k).Has(val) && strings.Contains(firstErr, k) { // and a pod was rejected because of that very key
			return kfAnyExcluded
		}
	}
	return ""
}

// ---------------------------------------------------------------- a world

type syncSeg struct {
	Ops     []string `json:"ops"`
	Synced  bool     `json:"synced"`
	Passes  int      `json:"passes"`
	gallina []string
}

func (m *mp) claimNames() []string {
	l := &v1.NodeClaimList{}
	if err := m.cl.List(m.ctx, l); err != nil {
		panic(err)
	}
	var out []string
	for _, nc := range l.Items {
		out = append(out, nc.Name)
	}
	sort.Strings(out)
	return out
}

// claimNamesCreated lists the NodeClaims of the API that the provisioner created (generateName).
func (m *mp) claimNamesCreated() []string {
	var out []string
	for _, n := range m.claimNames() {
		if !strings.HasPrefix(n, "nc-") {
			out = append(out, n)
		}
	}
	return out
}

// decisionStamp is the latest scheduling-decision time over the given pods: it moves iff GetPendingPods / Schedule ran.
func (m *mp) decisionStamp(keys []types.NamespacedName) time.Time {
	var t time.Time
	for _, k := range keys {
		if x := m.cluster.PodSchedulingDecisionTime(k); x.After(t) {
			t = x
		}
	}
	return t
}

// reconcileProvisioner runs the REAL Provisioner.Reconcile with a triggered batch; the fake clock is stepped so that the
// batcher's window closes.  Reports whether a scheduling pass ran and which NodeClaims it created.
func (m *mp) reconcileProvisioner(keys []types.NamespacedName) (ran bool, created []string) {
	before := m.claimNames()
	m.clk.Step(3 * time.Second)
	calls := m.pendingLists
	m.prov.Trigger(types.UID("trigger"))
	done := make(chan struct{})
	go func() {
		defer close(done)
		if _, err := m.prov.Reconcile(m.ctx); err != nil {
			if m.failCreate == 0 { // only the injected NodeClaim-create fault may surface here
				panic(err)
			}
			m.reconcileErrs++
		}
	}()
	for {
		select {
		case <-done:
			after := m.claimNames()
			created, _ = lo.Difference(after, before)
			return m.pendingLists != calls, created
		default:
			// the batcher first waits (1 s timer) for the trigger, which is already armed; only the two timers of the
			// batching window (max, idle) may be fired, otherwise the select could see the 1 s timer and the trigger at once
			if m.clk.Waiters() >= 2 {
				m.clk.Step(11 * time.Second)
			}
			time.Sleep(50 * time.Microsecond)
		}
	}
}

// ---------------------------------------------------------------- pods that finish or are being deleted while bound to a node

type jobPod struct {
	NS, Name, Node, NodeNS string
	Done                   bool
}

func runningPod(name, node string, cpuMilli, memMi int64) *corev1.Pod {
	return &corev1.Pod{ObjectMeta: metav1.ObjectMeta{Name: name, Namespace: "default", UID: types.UID("uid-" + name), Labels: map[string]string{"app": "job"}},
		Spec:   corev1.PodSpec{NodeName: node, Containers: []corev1.Container{{Name: "c", Image: "pause", Resources: corev1.ResourceRequirements{Requests: sk.RLOf(cpuMilli, memMi, -1)}}}},
		Status: corev1.PodStatus{Phase: corev1.PodRunning, Conditions: []corev1.PodCondition{{Type: corev1.PodScheduled, Status: corev1.ConditionTrue}}}}
}

// freeOn is what the API says is free on a node: allocatable minus the requests of the bound non-terminal pods.
func (m *mp) freeOn(node string) (cpu, memMi, pods int64, ok bool) {
	for _, d := range m.apiSNs(func(string) {}) {
		if d.HasNode && d.NodeName == node && !d.deleting() {
			return d.NodeAlloc["cpu"] - d.PodReq["cpu"], (d.NodeAlloc["memory"] - d.PodReq["memory"]) / 1000 >> 20, (d.NodeAlloc["pods"] - d.PodReq["pods"]) / 1000, true
		}
	}
	return 0, 0, 0, false
}

// startJobs binds a running pod to some of the world's nodes (those that have a Node object and are not being
// deleted), sized to a good part of what is free there.
func (m *mp) startJobs(c *kit.Ctx) []*jobPod {
	var jobs []*jobPod
	for i, n := range m.w.Nodes {
		if n.Node == nil || n.Kind == "deleting" || !m.r.Chance(2, 3) {
			continue
		}
		cpu, mem, pods, ok := m.freeOn(n.Node.Name)
		if !ok || cpu < 600 || mem < 256 || pods < 2 {
			continue
		}
		want := cpu * int64(kit.Pick(m.r, []int{2, 3})) / 4 / 50 * 50
		p := runningPod(fmt.Sprintf("job-%d", i), n.Node.Name, want, 64)
		kit.Apply(m.ctx, m.cl, p)
		m.podEvent(p.Namespace, p.Name)
		jobs = append(jobs, &jobPod{NS: p.Namespace, Name: p.Name, Node: n.Node.Name, NodeNS: n.Node.Namespace})
		c.Count("job.started-on-" + n.Kind + "-node")
	}
	return jobs
}

// finishJob lets a bound pod complete (Succeeded / Failed), or start terminating (deletionTimestamp, still running),
// or both, delivers the pod event and a plain node event in one of the possible orders, and adds a pending pod that fits
// exactly into the room the pod occupies (it must go there iff the room is really free).
func (m *mp) finishJob(c *kit.Ctx, j *jobPod, seq int) {
	p := &corev1.Pod{}
	if err := m.cl.Get(m.ctx, client.ObjectKey{Namespace: j.NS, Name: j.Name}, p); err != nil {
		return
	}
	how := kit.Pick(m.r, []string{"succeeded", "succeeded", "failed", "terminating", "terminating+succeeded"})
	if how == "terminating" || how == "terminating+succeeded" {
		p.Finalizers = append(p.Finalizers, "example.com/hold")
		if err := m.cl.Update(m.ctx, p); err != nil {
			panic(err)
		}
		if err := m.cl.Delete(m.ctx, p); err != nil {
			panic(err)
		}
		if err := m.cl.Get(m.ctx, client.ObjectKey{Namespace: j.NS, Name: j.Name}, p); err != nil {
			panic(err)
		}
	}
	if how != "terminating" {
		p.Status.Phase = corev1.PodSucceeded
		if how == "failed" {
			p.Status.Phase = corev1.PodFailed
		}
		if err := m.cl.Status().Update(m.ctx, p); err != nil {
			panic(err)
		}
		j.Done = true
	}
	order := kit.Pick(m.r, []string{"pod-event-only", "pod-event-then-node-event", "pod-event-then-node-event", "node-event-then-pod-event"})
	switch order {
	case "pod-event-only":
		m.podEvent(j.NS, j.Name)
	case "pod-event-then-node-event":
		m.podEvent(j.NS, j.Name)
		m.nodeEvent(j.Node, j.NodeNS)
	case "node-event-then-pod-event":
		m.nodeEvent(j.Node, j.NodeNS)
		m.podEvent(j.NS, j.Name)
	}
	c.Count("job." + how + "." + order)
	// the room of the job pod: free (API) if the pod is terminal, free + its own requests if it only terminates
	cpu, mem, pods, ok := m.freeOn(j.Node)
	if !ok {
		return
	}
	if how == "terminating" {
		cpu += p.Spec.Containers[0].Resources.Requests.Cpu().MilliValue()
	}
	cpu -= int64(kit.Pick(m.r, []int{0, 0, 50}))
	if cpu < 50 || mem < 64 || pods < 1 {
		return
	}
	f := &corev1.Pod{ObjectMeta: metav1.ObjectMeta{Name: fmt.Sprintf("fill-%d", seq), Namespace: "default", UID: types.UID(fmt.Sprintf("uid-fill-%d", seq)), Labels: map[string]string{"app": "fill"}},
		Spec: corev1.PodSpec{Tolerations: []corev1.Toleration{{Operator: corev1.TolerationOpExists}},
			Containers: []corev1.Container{{Name: "c", Image: "pause", Resources: corev1.ResourceRequirements{Requests: sk.RLOf(cpu, 32, -1)}}}},
		Status: corev1.PodStatus{Phase: corev1.PodPending, Conditions: []corev1.PodCondition{{Type: corev1.PodScheduled, Status: corev1.ConditionFalse, Reason: corev1.PodReasonUnschedulable}}}}
	m.addPending(f)
	c.Count("job.filler-pod-added")
}

// completedPodOnNewNode binds an already finished pod to an in-flight node that has just appeared (a short job the
// kube-scheduler placed there the moment the node showed up): pod event first, node events follow with the lifecycle.
func (m *mp) completedPodOnNewNode(c *kit.Ctx, node string) {
	p := runningPod("done-on-"+node, node, int64(kit.Pick(m.r, []int{500, 1000, 2000})), 64)
	p.Status.Phase = kit.Pick(m.r, []corev1.PodPhase{corev1.PodSucceeded, corev1.PodFailed})
	kit.Apply(m.ctx, m.cl, p)
	m.podEvent(p.Namespace, p.Name)
	if m.r.Bool() {
		m.nodeEvent(node, "")
	}
	c.Count("job.completed-pod-on-in-flight-node")
}

func runWorld(c *kit.Ctx, r *kit.Rand, idx int) {
	w := sk.Gen(r, sk.GenOpts{Thorough: c.Thorough(), NoTopology: true})
	// the property is about pods without preferences and without inter-pod constraints
	for _, p := range w.Pods {
		if a := p.Spec.Affinity; a != nil && a.NodeAffinity != nil {
			a.NodeAffinity.PreferredDuringSchedulingIgnoredDuringExecution = nil
		}
		if r.Chance(1, 4) {
			p.CreationTimestamp = metav1.NewTime(time.Unix(1_600_000_000+int64(r.Intn(3)), 0))
		}
	}
	// daemonsets keep one required term (the OR-term truncation of C01's finding daemon-affinity-terms-dropped-while-probing
	// makes the daemon overhead depend on probing order; it is reported under C01)
	for _, ds := range w.DaemonSets {
		if a := ds.Spec.Template.Spec.Affinity; a != nil && a.NodeAffinity != nil && a.NodeAffinity.RequiredDuringSchedulingIgnoredDuringExecution != nil {
			sel := a.NodeAffinity.RequiredDuringSchedulingIgnoredDuringExecution
			sel.NodeSelectorTerms = sel.NodeSelectorTerms[:1]
		}
	}
	for _, np := range w.Pools {
		if r.Chance(1, 2) {
			np.Spec.Template.Spec.StartupTaints = []corev1.Taint{{Key: "example.com/starting", Effect: corev1.TaintEffectNoSchedule}}
			// (a taint listed both as taint and as startup taint is refused by NodePool validation: not generated)
		}
	}
	sk.BindDaemonPods(r, w)
	if r.Chance(1, 15) {
		w.Pods = nil
		c.Count("world.without-pending-pods")
	}
	// pods with identical requests and different creation times (the queue's third sort key)
	for i := 1; i < len(w.Pods); i++ {
		if r.Chance(1, 4) {
			w.Pods[i].Spec.Containers[0].Resources.Requests = w.Pods[i-1].Spec.Containers[0].Resources.Requests.DeepCopy()
			w.Pods[i].Spec.InitContainers, w.Pods[i-1].Spec.InitContainers = nil, nil
			w.Pods[i].CreationTimestamp = metav1.NewTime(time.Unix(1_600_000_100+int64(r.Intn(3)), 0))
			w.Pods[i-1].CreationTimestamp = metav1.NewTime(time.Unix(1_600_000_101+int64(r.Intn(3)), 0))
			c.Count("pods.same-requests-different-creation-time")
		}
	}
	for _, n := range w.Nodes {
		if n.Node == nil {
			continue
		}
		// daemon pods the scheduler does not expect on the node (the daemonset does not match it, or is gone)
		for _, ds := range w.DaemonSets {
			if !n.DSBound[ds.Name] && r.Chance(1, 4) {
				n.DSBound[ds.Name] = true
				c.Count("daemon-pod.bound-regardless-of-selector")
			}
		}
		if n.Kind != "deleting" && r.Chance(1, 5) {
			orphan := dsPod("ds-gone", corev1.PodSpec{Containers: []corev1.Container{{Name: "d", Image: "pause", Resources: corev1.ResourceRequirements{Requests: sk.RLOf(100, 32, -1)}}}}, n.Node.Name, ownerGoneDSUID)
			n.Bound = append(n.Bound, orphan)
			c.Count("daemon-pod.of-a-deleted-daemonset")
		}
		if n.Kind == "unmanaged" && r.Chance(1, 3) { // a node without spec.providerID: cluster state keys it by name
			n.Node.Spec.ProviderID = ""
			c.Count("unmanaged-node.without-provider-id")
		}
	}
	cfg := sk.RunCfg{Workers: []int{1, 4}[idx%2], IgnorePreferences: idx%3 == 1, BestEffortMinValues: (idx/2)%2 == 1}
	m, err := newMP(r, w, cfg)
	if err != nil {
		c.Fail(c.NextID(), "harness could not build the world: "+err.Error(), "", nil)
		return
	}
	m.count = c.Count
	marked := m.marked
	for k := range pendingFix {
		delete(pendingFix, k)
	}
	m.oddPods(c)
	m.oddBoundPods(c)
	if r.Chance(1, 8) {
		m.poolOutage(c)
	}
	if r.Chance(1, 5) {
		m.failCreate = r.Range(1, 2)
	}
	jobs := m.startJobs(c)
	fillSeq := 0
	jobEvent := func() { // before a pass: maybe one of the bound pods finishes / starts terminating
		var open []*jobPod
		for _, j := range jobs {
			if !j.Done {
				open = append(open, j)
			}
		}
		if len(open) == 0 || !r.Chance(2, 3) {
			return
		}
		j := kit.Pick(r, open)
		fillSeq++
		m.finishJob(c, j, fillSeq)
		j.Done = true
	}
	if r.Chance(1, 3) {
		jobEvent()
	}
	var podKeys []types.NamespacedName
	for _, p := range w.Pods {
		podKeys = append(podKeys, types.NamespacedName{Namespace: p.Namespace, Name: p.Name})
	}
	var segs []syncSeg
	passes := 0
	observe := func(ops []string, g []string) {
		segs = append(segs, syncSeg{Ops: ops, gallina: g, Synced: m.cluster.Synced(m.ctx), Passes: passes})
	}
	observe(nil, nil)
	if !segs[0].Synced {
		c.Count("sync.initially-unsynced")
	}
	p0, err := m.runPass(c, "0-initial", marked, idx)
	if err != nil {
		c.Fail(c.NextID(), "harness could not run the first pass: "+err.Error(), "", nil)
		return
	}
	if len(p0.Results.NewNodeClaims) == 0 {
		c.Count("world.no-new-claims")
		for k := 0; k < 2; k++ { // no capacity is starting: still let bound pods finish and re-run
			jobEvent()
			if _, err := m.runPass(c, "1-no-claims-rerun", marked, idx); err != nil {
				c.Fail(c.NextID(), "harness could not run a later pass: "+err.Error(), "", nil)
				return
			}
		}
		emitSync(c, segs, idx)
		return
	}
	c.Count(fmt.Sprintf("world.new-claims=%d", min(len(p0.Results.NewNodeClaims), 4)))
	if m.failCreate == 0 && r.Chance(1, 10) { // the NodePool of the first NodeClaim is deleted between Schedule and Create
		np := &v1.NodePool{}
		if err := m.cl.Get(m.ctx, client.ObjectKey{Name: p0.Results.NewNodeClaims[0].NodePoolName}, np); err == nil && len(np.Finalizers) == 0 {
			if err := m.cl.Delete(m.ctx, np); err == nil {
				m.failCreate = -1
				m.poolOut[np.Name] = "deleted"
				c.Count("fault.nodepool-deleted-before-create")
			}
		}
	}
	allNames, err := m.prov.CreateNodeClaims(m.ctx, p0.Results.NewNodeClaims)
	if err != nil && m.failCreate == 0 {
		c.Fail(c.NextID(), "CreateNodeClaims failed: "+err.Error(), "", nil)
		return
	}
	claimPods := map[string][]string{}
	var createdNames []string
	for i, nc := range p0.Results.NewNodeClaims {
		if allNames[i] == "" { // the injected API error: this NodeClaim does not exist, its pods have no capacity coming
			c.Count("fault.nodeclaim-create-failed")
			continue
		}
		createdNames = append(createdNames, allNames[i])
		for _, p := range nc.Pods {
			claimPods[allNames[i]] = append(claimPods[allNames[i]], p.Namespace+"/"+p.Name)
		}
	}
	if got := m.claimNamesCreated(); len(got) != len(createdNames) {
		c.Fail(c.NextID(), fmt.Sprintf("CreateNodeClaims reported %v but the API holds %v", createdNames, got), "", nil)
	}
	if len(createdNames) == 0 {
		emitSync(c, segs, idx)
		return
	}
	var ops, gops []string
	for _, n := range sortedClaimNames(createdNames) {
		ops, gops = append(ops, "create "+n), append(gops, "CCreate "+gs(n))
	}
	observe(ops, gops)
	if r.Chance(1, 2) {
		m.restartSynced(c, idx)
	}
	// a triggered Provisioner.Reconcile while NodeClaims are unlaunched
	ran, made := m.reconcileProvisioner(podKeys)
	if ran {
		passes++
	}
	observe([]string{"reconcile"}, []string{"(CReconcile " + gss(made) + ")"})
	c.Count(fmt.Sprintf("sync.reconcile-while-unlaunched.ran=%v", ran))
	for _, n := range made { // only when the guard is broken: keep the world consistent
		createdNames = append(createdNames, n)
	}
	// launch one by one; Synced must stay false until the last one
	stage := map[string]int{} // 0 created, 1 launched, 2 node appeared, 3 registered, 4 initialized
	order := sortedClaimNames(createdNames)
	for i := len(order) - 1; i > 0; i-- {
		j := r.Intn(i + 1)
		order[i], order[j] = order[j], order[i]
	}
	for i, n := range order {
		nc := m.reconcileClaim(n)
		pid := ""
		if nc != nil {
			pid = nc.Status.ProviderID
			stage[n] = 1
		}
		if nc == nil {
			observe([]string{"delete " + n}, []string{"CDelete " + gs(n)})
		} else {
			observe([]string{"launch " + n + " " + pid}, []string{"CUpdate " + gs(n) + " " + gs(pid)})
		}
		if i == 0 && len(order) > 1 {
			ran, made := m.reconcileProvisioner(podKeys)
			if ran {
				passes++
			}
			observe([]string{"reconcile"}, []string{"(CReconcile " + gss(made) + ")"})
			c.Count(fmt.Sprintf("sync.reconcile-while-partly-launched.ran=%v", ran))
		}
	}
	// every NodeClaim is launched: a reconcile nobody triggered returns without a pass
	if ranIdle := m.reconcileIdle(); ranIdle {
		passes++
	}
	observe([]string{"reconcile (not triggered)"}, []string{"CReconcileIdle"})
	if r.Chance(1, 2) {
		m.restartSynced(c, idx)
	}
	live := lo.Filter(order, func(n string, _ int) bool { return stage[n] >= 1 })
	// one in-flight claim may be deleted by somebody (expiration, user) at some point: it stops being capacity
	deleteAt, lateNodeAt, outageAt := -1, -1, -1
	if r.Chance(1, 3) {
		deleteAt = r.Intn(4)
	}
	if r.Chance(1, 4) {
		lateNodeAt = r.Intn(5)
	}
	if r.Chance(1, 4) {
		outageAt = r.Intn(5)
	}
	removeSomething := func() {
		cands := lo.Filter(live, func(n string, _ int) bool { return !m.deleted[n] })
		if len(cands) == 0 {
			return
		}
		n := kit.Pick(r, cands)
		nc := &v1.NodeClaim{}
		if err := m.cl.Get(m.ctx, client.ObjectKey{Name: n}, nc); err != nil {
			return
		}
		how := kit.Pick(r, []string{"nodeclaim-deleting", "nodeclaim-gone", "node-gone"})
		if how == "node-gone" && stage[n] < 2 {
			how = "nodeclaim-gone"
		}
		switch how {
		case "nodeclaim-deleting": // the termination finalizer keeps the object, deletionTimestamp is set
			_ = m.cl.Delete(m.ctx, nc)
			m.syncClaim(n)
			if stage[n] < 2 && r.Bool() { // the lifecycle controller finalizes: instance deleted, InstanceTerminating=True
				if out := m.reconcileClaim(n); out != nil && out.StatusConditions().Get(v1.ConditionTypeInstanceTerminating).IsTrue() {
					c.Count("world.nodeclaim-instance-terminating")
				}
			}
		case "nodeclaim-gone": // deleted and finalized: the object disappears (a Node, if any, stays behind for a while)
			_ = m.cl.Delete(m.ctx, nc)
			if err := m.cl.Get(m.ctx, client.ObjectKey{Name: n}, nc); err == nil {
				nc.Finalizers = nil
				if err := m.cl.Update(m.ctx, nc); err != nil {
					panic(err)
				}
			}
			m.syncClaim(n)
		case "node-gone": // the Node object is removed (instance died), the NodeClaim is still there
			node := &corev1.Node{}
			if err := m.cl.Get(m.ctx, client.ObjectKey{Name: "node-" + n}, node); err == nil {
				node.Finalizers = nil
				_ = m.cl.Update(m.ctx, node)
				_ = m.cl.Delete(m.ctx, node)
				m.syncNode("node-" + n)
			}
		}
		m.deleted[n] = true // no longer capacity "still starting" for its pods
		c.Count(fmt.Sprintf("world.in-flight-capacity-removed.%s.stage=%d", how, stage[n]))
	}
	extraAt := -1
	if r.Chance(1, 2) {
		extraAt = r.Intn(4)
	}
	labels := []string{"1-launched", "2-round", "3-round", "4-round", "5-all-initialized"}
	for round := 0; round < 5; round++ {
		if round > 0 {
			for _, n := range live {
				if m.deleted[n] {
					continue
				}
				if round < 4 && !r.Chance(2, 3) {
					continue
				}
				steps := 1
				if round == 4 {
					steps = 4
				}
				for k := 0; k < steps && stage[n] < 4; k++ {
					m.advance(c, n, stage)
				}
			}
		}
		if round == deleteAt {
			removeSomething()
		}
		if round == lateNodeAt {
			m.lateUnmanagedNode(c, idx)
		}
		if round == lateNodeAt+1 || (lateNodeAt < 0 && round == 2 && r.Chance(1, 3)) {
			m.unmanagedNodeChanges(c)
		}
		if round == 3 && r.Chance(1, 4) {
			m.faultyPass(c, idx)
		}
		if round == outageAt {
			m.poolOutage(c)
		}
		if round == extraAt {
			for i := 0; i < r.Range(1, 3); i++ {
				p := sk.GenPod(r, fmt.Sprintf("late%d", i), w, sk.GenOpts{NoTopology: true})
				if a := p.Spec.Affinity; a != nil && a.NodeAffinity != nil {
					a.NodeAffinity.PreferredDuringSchedulingIgnoredDuringExecution = nil
				}
				if r.Chance(2, 3) {
					p.Spec.Containers[0].Resources.Requests = sk.RLOf(int64(kit.Pick(r, []int{50, 100, 250})), 32, -1)
					p.Spec.InitContainers = nil
					p.Spec.Tolerations = append(p.Spec.Tolerations, corev1.Toleration{Operator: corev1.TolerationOpExists})
				}
				m.addPending(p)
				c.Count("world.late-pod")
			}
		}
		for _, n := range live {
			c.Count(fmt.Sprintf("claim-stage.%d", stage[n]))
		}
		jobEvent()
		pk, err := m.runPass(c, labels[round], marked, idx)
		if err != nil && os.Getenv("C04_DEBUG") != "" {
			l := &v1.NodePoolList{}
			_ = m.cl.List(m.ctx, l)
			for _, np := range l.Items {
				fmt.Fprintf(os.Stderr, "world %d pool %s replicas=%v conds=%+v del=%v\n", idx, np.Name, np.Spec.Replicas, np.Status.Conditions, np.DeletionTimestamp)
			}
		}
		if err != nil {
			c.Fail(c.NextID(), "harness could not run a later pass: "+err.Error(), "", nil)
			return
		}
		// pods whose capacity is still starting must not get another NodeClaim
		hadHome := map[string]bool{} // placed in the first pass on capacity that still counts
		for _, o := range p0.Obs {
			if o.Kind == "existing" {
				hadHome[o.Key] = true
			}
		}
		served := map[string]string{}
		for n, ks := range claimPods {
			if !m.deleted[n] && stage[n] >= 1 {
				for _, k := range ks {
					served[k] = n
					hadHome[k] = true
				}
			}
		}
		again := []string{}
		for _, o := range pk.Obs {
			if _, ok := served[o.Key]; ok && o.Kind != "existing" {
				again = append(again, o.Key)
			}
		}
		for k := range pk.Errors {
			if _, ok := served[k]; ok {
				again = append(again, k)
			}
		}
		if len(again) > 0 && os.Getenv("C04_DEBUG") != "" {
			fmt.Fprintf(os.Stderr, "AGAIN world %d round %d again=%v deleted=%v extraAt=%d\n", idx, round, again, m.deleted, extraAt)
			for _, o := range pk.Obs {
				fmt.Fprintf(os.Stderr, "   %s -> %s %s (was %s)\n", o.Key, o.Kind, o.ID, served[o.Key])
			}
			for k, e := range pk.Errors {
				fmt.Fprintf(os.Stderr, "   %s -> error %.80s (was %s)\n", k, e, served[k])
			}
		}
		allJoint, jointKF := true, ""
		for _, n := range live {
			if !m.deleted[n] {
				if ok, kf := m.rerunClaim(c, n, claimPods[n], stageName(stage[n]), idx); !ok {
					allJoint = false
					if jointKF == "" || jointKF == kf {
						jointKF = kf
					} else {
						jointKF = "-"
					}
				}
			}
		}
		if len(again) == 0 {
			c.Count("rerun.pass-reused-in-flight-capacity")
			continue
		}
		c.Count("rerun.pass-opened-capacity-again")
		// who sits on the in-flight nodes now?
		onNode := map[string][]string{} // NodeClaim name -> pods placed on its node in this pass
		for _, en := range pk.Results.ExistingNodes {
			if en.NodeClaim != nil {
				for _, p := range en.Pods {
					onNode[en.NodeClaim.Name] = append(onNode[en.NodeClaim.Name], p.Namespace+"/"+p.Name)
				}
			}
		}
		// A pod that had no capacity in the first pass (it failed then, arrived later, or sat on a claim that is being
		// deleted) and now lands on an in-flight node adds to the demand: new capacity for the pod it displaces is justified.
		// Only a pure reshuffle (every intruder had a home that still exists) is capacity opened for nothing.
		displaced, justified := true, false
		for _, k := range again {
			own := claimPods[served[k]]
			_, intruders := lo.Difference(own, onNode[served[k]])
			if len(intruders) == 0 {
				displaced = false
			}
			for _, q := range intruders {
				if !hadHome[q] {
					justified = true
				}
			}
		}
		if allJoint && displaced && justified {
			c.Count("rerun.new-capacity-justified-by-newly-placed-pods")
			continue
		}
		key := ""
		if allJoint && displaced {
			key = kfDisplacement
			c.Count("kf-shape." + key)
		} else if !allJoint && jointKF != "" && jointKF != "-" {
			key = jointKF // the in-flight node rejects its own pods for a known reason (reported with the CRerun case)
		}
		c.Fail(c.NextID(), fmt.Sprintf("pass %s opens new capacity (or fails) for pods whose NodeClaim is still starting: %v", labels[round], again), key,
			map[string]interface{}{"kind": "rerun-pass", "world": idx, "stage": labels[round], "podsServedAgain": again, "createdFor": served, "podsOnInFlightNodes": onNode,
				"everyClaimReadmitsItsOwnPods": allJoint, "placements": pk.Obs, "errors": pk.Errors, "stateNodes": pk.SNs, "kf_key": key})
	}
	// every NodeClaim is launched now: a triggered reconcile runs a pass again
	if m.cluster.Synced(m.ctx) {
		ran, made := m.reconcileProvisioner(podKeys)
		if ran {
			passes++
		}
		observe([]string{"reconcile"}, []string{"(CReconcile " + gss(made) + ")"})
		c.Count(fmt.Sprintf("sync.reconcile-when-synced.ran=%v", ran))
	}
	emitSync(c, segs, idx)
	if r.Chance(1, 3) {
		m.restartSynced(c, idx)
	}
}

func stageName(s int) string {
	return []string{"created", "launched", "unregistered", "registered", "initialized"}[s]
}

// advance moves one NodeClaim one step along its lifecycle with the real controllers.
var pendingFix = map[string]string{}

func (m *mp) advance(c *kit.Ctx, n string, stage map[string]int) {
	nc := &v1.NodeClaim{}
	if err := m.cl.Get(m.ctx, client.ObjectKey{Name: n}, nc); err != nil {
		return
	}
	switch stage[n] {
	case 1:
		variant := kit.Pick(m.r, []string{"complete", "complete", "complete", "no-provider-id", "no-instance-type"})
		node := m.nodeAppears(nc, m.r.Chance(2, 3), variant)
		stage[n] = 2
		c.Count("node-appears." + variant)
		if variant != "complete" {
			pendingFix[n] = variant
		}
		if m.r.Chance(1, 2) {
			m.completedPodOnNewNode(c, node.Name)
		}
	case 2:
		if _, ok := pendingFix[n]; ok { // the provider id / the instance-type label arrives
			m.fixNode(nc)
			delete(pendingFix, n)
			return
		}
		out := m.reconcileClaim(n)
		if out != nil && out.StatusConditions().Get(v1.ConditionTypeRegistered).IsTrue() {
			stage[n] = 3
		}
	case 3:
		m.nodeReady(nc)
		out := m.reconcileClaim(n)
		if out != nil && out.StatusConditions().Get(v1.ConditionTypeInitialized).IsTrue() {
			stage[n] = 4
		}
	}
}

func emitSync(c *kit.Ctx, segs []syncSeg, world int) {
	var items []string
	for _, s := range segs {
		items = append(items, fmt.Sprintf("(%s, %s, %d%%nat)", kit.GList(s.gallina), kit.GBool(s.Synced), s.Passes))
	}
	c.Count(fmt.Sprintf("sync.segments=%d", min(len(segs), 6)))
	raw, _ := json.Marshal(segs)
	c.AddCase("(CSync "+kit.GList(items)+")", map[string]interface{}{"kind": "sync", "world": world, "segments": segs}, "sync|"+string(raw))
}

func main() {
	c := kit.Parse("C04", os.Args[1:])
	c.Meta.Rule = "generated clusters (schedkit: catalogue, 1-3 NodePools with taints / startup taints / custom labels / minValues, 0-4 ready / in-flight / deleting / unmanaged nodes with bound pods, daemonsets, 1-12 pods without preferences or inter-pod constraints) driven through up to 6 real provisioning passes with an adversarial launch (any listed instance type, any compatible offering) and independently progressing NodeClaim lifecycles (real lifecycle controller; zero-valued node status, not-ready and startup taints); non-trivial = distinct by state nodes, templates, pods and placements"
	c.Meta.Exhaustive = false
	c.Meta.Corr = []string{
		"state.StateNode Name/Labels/Taints/Allocatable/Available/MarkedForDeletion + NewExistingNode + getCompatibleDaemonPods = C04.Model.state_node_view (taints, requirements, remaining resources, per node)",
		"StateNodes.Active + sortExistingNodes = C04.Model.init_sched (order of the scheduler's existing nodes)",
		"Provisioner.Schedule / Scheduler.Solve / trySchedule / add / Queue = C04.Model.pass (per pod: existing node, in-flight claim, new claim of which NodePool, or error)",
		"ExistingNode.CanAdd/Add of a claim's pods on its own in-flight node = C01.Model.ex_can_add on C04.Model.state_node_view",
		"Cluster.Synced + Provisioner.Reconcile guard (triggered / not triggered) = C04.Model.synced / cstep",
		"Cluster.Synced of a restarted controller (first sync: list errors, untracked NodeClaims / Nodes, unlaunched NodeClaims) = C04.Model.synced_first",
		"batch of a pass (GetPendingPods + reschedulable pods of deleting nodes) vs the kinds of pods the harness created; templates vs usable NodePools; DRA pods never placed",
	}
	n := 40
	if c.Thorough() {
		n = 400
	}
	t0 := time.Now()
	for i := 0; i < n; i++ {
		runWorld(c, c.Rand.Fork(), i)
	}
	c.Meta.Extra = map[string]interface{}{
		"seconds": time.Since(t0).Seconds(),
		"assumptions": []string{
			"pods carry no preferences and no inter-pod constraints (the property's restriction); volumes, DRA, reserved offerings and NodePool limits are not generated",
			"pods that are not provisionable / rejected by Validate / not reschedulable are judged by the harness from how it built them; NodePool outages (not ready, deleting, static, provider errors) likewise",
			"the harness plays the informers (nodeclaim, node, pod, daemonset; requeues included), the kubelet (node object, taints, readiness, reported resources) and the API server's generateName",
			"the real CanAdd / Add of the in-flight ExistingNode is the feasibility witness of the joint re-admission oracle",
			"goroutine interleavings inside parallelizeUntil are exercised (1 / 4 workers) but not modelled",
		}}
	c.Finish("From KV Require Import C04.Model C04.Check.\n"+internHeader(), "case", "check_all", 60)
}

var _ = context.Background
