package main

import (
	"context"
	"fmt"
	appsv1 "k8s.io/api/apps/v1"
	apierrors "k8s.io/apimachinery/pkg/api/errors"
	"k8s.io/apimachinery/pkg/api/resource"
	"math"
	"os"
	"runtime/debug"
	"sort"
	"time"

	"github.com/samber/lo"
	corev1 "k8s.io/api/core/v1"
	metav1 "k8s.io/apimachinery/pkg/apis/meta/v1"
	"k8s.io/apimachinery/pkg/types"
	"k8s.io/apimachinery/pkg/util/sets"
	"k8s.io/client-go/tools/record"
	clock "k8s.io/utils/clock/testing"
	"sigs.k8s.io/controller-runtime/pkg/client"
	"sigs.k8s.io/controller-runtime/pkg/client/interceptor"

	v1 "sigs.k8s.io/karpenter/pkg/apis/v1"
	"sigs.k8s.io/karpenter/pkg/cloudprovider/fake"
	"sigs.k8s.io/karpenter/pkg/controllers/dynamicresources/deviceallocation"
	"sigs.k8s.io/karpenter/pkg/controllers/nodeclaim/lifecycle"
	"sigs.k8s.io/karpenter/pkg/controllers/provisioning"
	psched "sigs.k8s.io/karpenter/pkg/controllers/provisioning/scheduling"
	"sigs.k8s.io/karpenter/pkg/controllers/state"
	"sigs.k8s.io/karpenter/pkg/events"
	"sigs.k8s.io/karpenter/pkg/operator/options"
	"sigs.k8s.io/karpenter/pkg/state/nodepoolhealth"
	"sigs.k8s.io/karpenter/pkg/state/virtualpods"
	"sigs.k8s.io/karpenter/pkg/test"

	"verifharness/kit"
	sk "verifharness/schedkit"
)

// mp is one multi-pass world: the real cluster state, provisioner and NodeClaim lifecycle controller over the fake
// client, with an adversarial cloud provider.  The harness plays the informers (API object -> Cluster.UpdateX), the
// kubelet (Node objects, readiness, reported resources) and nothing else.
type mp struct {
	ctx     context.Context
	clk     *clock.FakeClock
	cl      client.Client
	cp      *advProvider
	cluster *state.Cluster
	prov    *provisioning.Provisioner
	life    *lifecycle.Controller
	w       *sk.World
	r       *kit.Rand
	cfg     sk.RunCfg
	names   int
	// bookkeeping of the first pass
	claimOf map[string]string // pod key -> NodeClaim name created for it
	deleted map[string]bool   // NodeClaim names made "deleting" by the harness
	marked  map[string]bool   // provider ids the harness passed to Cluster.MarkForDeletion
	// daemonset informer: when dsCached, Cluster.UpdateDaemonSet was delivered for every daemonset after its pods were
	// created, so getDaemonSetPods works from the newest existing pod (dsNewest) instead of the template
	dsCached    bool
	dsNewest    map[string]*corev1.Pod
	livePrepped bool // a scheduler with at least one template was built on the live cluster (cached daemon pods got the PreferNoSchedule toleration)
	// faults
	failCreate int // the n-th NodeClaim create fails once (0 = never)
	creates    int
	// expectations about the batch (pod key -> kind), see gen.go
	podKind  map[string]string
	requeued [][2]string
	// number of "list the pods without a node" calls: moves iff a scheduling pass started
	pendingLists  int
	failPodList   bool
	reconcileErrs int
	count         func(string) // distribution counter of the run
	deadlinePool  string       // GetInstanceTypes of this NodePool reports context.DeadlineExceeded
	// NodePools that must not be used for new NodeClaims right now (name -> why)
	poolOut map[string]string
}

func newMP(r *kit.Rand, w *sk.World, cfg sk.RunCfg) (*mp, error) {
	pp, mv := options.PreferencePolicyRespect, options.MinValuesPolicyStrict
	if cfg.IgnorePreferences {
		pp = options.PreferencePolicyIgnore
	}
	if cfg.BestEffortMinValues {
		mv = options.MinValuesPolicyBestEffort
	}
	cpu := int64(cfg.Workers) * 1000
	m := &mp{w: w, r: r, cfg: cfg, claimOf: map[string]string{}, deleted: map[string]bool{}, marked: map[string]bool{}, dsNewest: map[string]*corev1.Pod{}, podKind: map[string]string{}, poolOut: map[string]string{}}
	m.ctx = options.ToContext(context.Background(), test.Options(test.OptionsFields{PreferencePolicy: &pp, MinValuesPolicy: &mv, CPURequests: &cpu}))
	m.clk = clock.NewFakeClock(time.Unix(1_700_000_000, 0))
	// NodeClaims are created with generateName; the API server would pick the suffix and the UID.  The PRNG does it
	// here so that runs replay (and so that name order and creation order are unrelated).
	m.cl = kit.NewClient(interceptor.Funcs{Create: func(ctx context.Context, c client.WithWatch, obj client.Object, opts ...client.CreateOption) error {
		if nc, ok := obj.(*v1.NodeClaim); ok && nc.Name == "" && nc.GenerateName != "" {
			m.names++
			nc.Name = fmt.Sprintf("%s%c%c%03d", nc.GenerateName, 'a'+rune(r.Intn(26)), 'a'+rune(r.Intn(26)), m.names)
			nc.UID = types.UID("uid-" + nc.Name)
			nc.CreationTimestamp = metav1.NewTime(m.clk.Now())
			m.creates++
			if m.creates == m.failCreate {
				return fmt.Errorf("injected: the API server refused the NodeClaim")
			}
		}
		return c.Create(ctx, obj, opts...)
	}, List: func(ctx context.Context, c client.WithWatch, list client.ObjectList, opts ...client.ListOption) error {
		// Provisioner.GetPendingPods is the first thing a scheduling pass does: it lists the pods without a node
		if _, ok := list.(*corev1.PodList); ok {
			lo := &client.ListOptions{}
			lo.ApplyOptions(opts)
			if lo.FieldSelector != nil && lo.FieldSelector.String() == "spec.nodeName=" {
				m.pendingLists++
				if m.failPodList {
					return fmt.Errorf("injected: list of pending pods failed")
				}
			}
		}
		return c.List(ctx, list, opts...)
	}, Delete: func(ctx context.Context, c client.WithWatch, obj client.Object, opts ...client.DeleteOption) error {
		if os.Getenv("C04_DEBUG") != "" {
			fmt.Fprintf(os.Stderr, "DELETE %T %s\n%s\n", obj, obj.GetName(), debug.Stack())
		}
		return c.Delete(ctx, obj, opts...)
	}})
	m.cp = &advProvider{CloudProvider: fake.NewCloudProvider(), r: r.Fork(), launched: map[string]*launchInfo{}}
	m.cp.InstanceTypes = w.Catalog
	for _, np := range w.Pools {
		x := np.DeepCopy()
		kit.Apply(m.ctx, m.cl, x)
		// what the NodePool validation / readiness controllers do: the conditions are observed at the stored generation
		x.StatusConditions().SetTrue(v1.ConditionTypeValidationSucceeded)
		x.StatusConditions().SetTrue(v1.ConditionTypeNodeClassReady)
		if err := m.cl.Status().Update(m.ctx, x); err != nil {
			return nil, err
		}
	}
	for _, ds := range w.DaemonSets {
		kit.Apply(m.ctx, m.cl, ds.DeepCopy())
	}
	m.cluster = state.NewCluster(m.clk, m.cl, m.cp)
	rec := events.NewRecorder(&record.FakeRecorder{})
	m.prov = provisioning.NewProvisioner(m.cl, rec, m.cp, m.cluster, m.clk, deviceallocation.NewController(m.cl), virtualpods.NewVirtualPodCache(m.cl))
	m.life = lifecycle.NewController(m.clk, m.cl, m.cp, rec, nodepoolhealth.NewState(), nil)

	for _, n := range w.Nodes {
		if n.NodeClaim != nil {
			nc := n.NodeClaim.DeepCopy()
			kit.Apply(m.ctx, m.cl, nc)
			m.cluster.UpdateNodeClaim(nc)
		}
		if n.Node != nil {
			node := n.Node.DeepCopy()
			kit.Apply(m.ctx, m.cl, node)
			if err := m.cluster.UpdateNode(m.ctx, node); err != nil {
				return nil, err
			}
			var all []*corev1.Pod
			for _, b := range n.Bound {
				all = append(all, b.DeepCopy())
			}
			for _, ds := range w.DaemonSets {
				if n.DSBound[ds.Name] {
					dp := dsPod(ds.Name, ds.Spec.Template.Spec, n.Node.Name, ds.UID)
					m.names++
					dp.CreationTimestamp = metav1.NewTime(time.Unix(1_650_000_000+int64(m.names), 0))
					if r.Chance(1, 3) { // a pod of an older revision of the daemonset: other requests, no node affinity
						dp.Spec.Affinity = nil
						dp.Spec.Containers[0].Resources.Requests[corev1.ResourceCPU] = *resourceMilli(dp.Spec.Containers[0].Resources.Requests.Cpu().MilliValue() + 50)
					}
					all = append(all, dp)
					if cur := m.dsNewest[ds.Name]; cur == nil || dp.CreationTimestamp.After(cur.CreationTimestamp.Time) {
						m.dsNewest[ds.Name] = dp
					}
				}
			}
			for _, p := range all {
				kit.Apply(m.ctx, m.cl, p)
				if err := m.cluster.UpdatePod(m.ctx, p); err != nil {
					return nil, err
				}
			}
			if n.Kind == "deleting" {
				m.cluster.MarkForDeletion(node.Spec.ProviderID)
				m.marked[node.Spec.ProviderID] = true
			}
		}
	}
	for _, p := range w.Pods {
		m.addPending(p)
	}
	m.dsCached = r.Chance(1, 2)
	if m.dsCached {
		if err := m.daemonSetEvents(m.cluster); err != nil {
			return nil, err
		}
	}
	return m, nil
}

func resourceMilli(v int64) *resource.Quantity {
	return resource.NewMilliQuantity(v, resource.DecimalSI)
}

// daemonSetEvents plays the DaemonSet informer for every daemonset of the API.
func (m *mp) daemonSetEvents(cl *state.Cluster) error {
	l := &appsv1.DaemonSetList{}
	if err := m.cl.List(m.ctx, l); err != nil {
		return err
	}
	for i := range l.Items {
		if err := cl.UpdateDaemonSet(m.ctx, &l.Items[i]); err != nil {
			return err
		}
	}
	return nil
}

func dsPod(dsName string, spec corev1.PodSpec, node string, uid types.UID) *corev1.Pod {
	s := *spec.DeepCopy()
	s.NodeName = node
	tr := true
	return &corev1.Pod{ObjectMeta: metav1.ObjectMeta{Name: dsName + "-" + node, Namespace: "default", UID: types.UID("uid-" + dsName + "-" + node), Labels: map[string]string{"ds": dsName},
		OwnerReferences: []metav1.OwnerReference{{APIVersion: "apps/v1", Kind: "DaemonSet", Name: dsName, UID: uid, Controller: &tr, BlockOwnerDeletion: &tr}}},
		Spec: s, Status: corev1.PodStatus{Phase: corev1.PodRunning, Conditions: []corev1.PodCondition{{Type: corev1.PodScheduled, Status: corev1.ConditionTrue}}}}
}

func (m *mp) addPending(p *corev1.Pod) {
	c := p.DeepCopy()
	kit.Apply(m.ctx, m.cl, c)
}

// batch reproduces the pod list Provisioner.Schedule works on (same calls, same order).
func (m *mp) batch() ([]*corev1.Pod, state.StateNodes, sets.Set[types.UID], error) {
	nodes := m.cluster.DeepCopyNodes()
	pending, err := m.prov.GetPendingPods(m.ctx)
	if err != nil {
		return nil, nil, nil, err
	}
	del, err := nodes.Deleting().CurrentlyReschedulablePods(m.ctx, m.cl, m.clk, events.NewRecorder(&record.FakeRecorder{}))
	if err != nil {
		return nil, nil, nil, err
	}
	pods := append(pending, del...)
	uids := sets.New(lo.Map(del, func(p *corev1.Pod, _ int) types.UID { return p.UID })...)
	return pods, nodes, uids, nil
}

func (m *mp) schedOpts() []psched.Options {
	mv := options.FromContext(m.ctx).MinValuesPolicy
	opts := []psched.Options{psched.DisableReservedCapacityFallback,
		psched.NumConcurrentReconciles(int(math.Ceil(float64(options.FromContext(m.ctx).CPURequests) / 1000.0))), psched.MinValuesPolicy(mv)}
	if m.cfg.IgnorePreferences {
		opts = append(opts, psched.IgnorePreferences)
	}
	return opts
}

// probe builds a scheduler exactly as Provisioner.Schedule does (same inputs) without solving: its existing nodes and
// templates are what the pass starts from.
func (m *mp) probe() (*psched.Scheduler, []*corev1.Pod, state.StateNodes, error) {
	pods, nodes, uids, err := m.batch()
	if err != nil {
		return nil, nil, nil, err
	}
	if len(pods) == 0 {
		return nil, nil, nodes, nil
	}
	s, err := m.prov.NewScheduler(m.ctx, pods, nodes.Active(), uids, m.schedOpts()...)
	if err != nil {
		return nil, nil, nil, err
	}
	return s, pods, nodes, nil
}

// syncClaim plays the NodeClaim informer.
func (m *mp) syncClaim(name string) *v1.NodeClaim {
	nc := &v1.NodeClaim{}
	if err := m.cl.Get(m.ctx, client.ObjectKey{Name: name}, nc); err != nil {
		m.cluster.DeleteNodeClaim(name)
		return nil
	}
	m.cluster.UpdateNodeClaim(nc)
	return nc
}

// syncNode plays the Node informer.
func (m *mp) syncNode(name string) *corev1.Node {
	n := &corev1.Node{}
	if err := m.cl.Get(m.ctx, client.ObjectKey{Name: name}, n); err != nil {
		m.cluster.DeleteNode(name)
		return nil
	}
	if err := m.cluster.UpdateNode(m.ctx, n); err != nil {
		panic(err)
	}
	return n
}

// reconcileClaim runs the real lifecycle controller once on the NodeClaim and delivers the result to cluster state.
func (m *mp) reconcileClaim(name string) *v1.NodeClaim {
	nc := &v1.NodeClaim{}
	if err := m.cl.Get(m.ctx, client.ObjectKey{Name: name}, nc); err != nil {
		return nil
	}
	if _, err := m.life.Reconcile(m.ctx, nc); err != nil {
		panic(fmt.Sprintf("lifecycle reconcile of %s: %v", name, err))
	}
	out := m.syncClaim(name)
	if out != nil && out.Status.NodeName != "" {
		m.syncNode(out.Status.NodeName)
	}
	return out
}

// nodeAppears plays the kubelet / cloud controller: a Node object with the provider id, the labels the instance
// really has, the unregistered taint, the startup taints, maybe a not-ready taint, and a status that may still
// report zero or nothing for some resources.
func (m *mp) nodeAppears(nc *v1.NodeClaim, zeroStatus bool, variant string) *corev1.Node {
	name := "node-" + nc.Name
	labels := map[string]string{corev1.LabelHostname: name}
	for _, k := range []string{corev1.LabelInstanceTypeStable, corev1.LabelArchStable, corev1.LabelOSStable, corev1.LabelTopologyZone} {
		if v, ok := nc.Labels[k]; ok {
			labels[k] = v
		}
	}
	pid := nc.Status.ProviderID
	switch variant {
	case "no-provider-id": // the cloud controller has not set spec.providerID yet; the kubelet already set the nodepool label
		pid = ""
		labels[v1.NodePoolLabelKey] = nc.Labels[v1.NodePoolLabelKey]
	case "no-instance-type": // the nodepool label is there, the instance-type label is not yet
		delete(labels, corev1.LabelInstanceTypeStable)
		labels[v1.NodePoolLabelKey] = nc.Labels[v1.NodePoolLabelKey]
	}
	taints := []corev1.Taint{v1.UnregisteredNoExecuteTaint}
	// the kubelet registers the startup taints as ITS configuration spells them (--register-with-taints key=true:NoSchedule):
	// same key and effect as NodeClaim.Spec.StartupTaints, but possibly with a value and a timeAdded the claim does not have
	for _, st := range nc.Spec.StartupTaints {
		t := *st.DeepCopy()
		switch m.r.Intn(4) {
		case 0:
			t.Value = "true"
			m.count("startup-taint-on-node.with-value")
		case 1:
			now := metav1.NewTime(m.clk.Now())
			t.TimeAdded = &now
			m.count("startup-taint-on-node.with-time-added")
		case 2:
			now := metav1.NewTime(m.clk.Now())
			t.Value, t.TimeAdded = "true", &now
			m.count("startup-taint-on-node.with-value-and-time-added")
		default:
			m.count("startup-taint-on-node.identical")
		}
		taints = append(taints, t)
	}
	taints = append(taints, nc.Spec.Taints...)
	if m.r.Bool() {
		taints = append(taints, corev1.Taint{Key: corev1.TaintNodeNotReady, Effect: corev1.TaintEffectNoSchedule})
	}
	alloc, capa := corev1.ResourceList{}, corev1.ResourceList{}
	for k, v := range nc.Status.Allocatable {
		alloc[k] = v.DeepCopy()
	}
	for k, v := range nc.Status.Capacity {
		capa[k] = v.DeepCopy()
	}
	if zeroStatus { // the kubelet has not reported everything yet
		for _, k := range []corev1.ResourceName{corev1.ResourceCPU, corev1.ResourceMemory, corev1.ResourcePods} {
			switch m.r.Intn(3) {
			case 0:
				z := alloc[k]
				z.Set(0)
				alloc[k] = z
			case 1:
				delete(alloc, k)
			}
			switch m.r.Intn(4) {
			case 0:
				z := capa[k]
				z.Set(0)
				capa[k] = z
			case 1:
				delete(capa, k)
			}
		}
	}
	n := test.Node(test.NodeOptions{ObjectMeta: metav1.ObjectMeta{Name: name, UID: types.UID("uid-" + name), Labels: labels}, ProviderID: pid,
		Taints: taints, Allocatable: alloc, Capacity: capa, ReadyStatus: corev1.ConditionFalse})
	n.Namespace = "" // test.Node puts cluster-scoped fixtures into "default"
	n.Status.Capacity = capa
	n.Status.Allocatable = alloc // test.Node fills defaults for missing resources; keep exactly what the kubelet "reported"
	kit.Apply(m.ctx, m.cl, n)
	m.syncNode(name)
	return n
}

// nodeReady plays the kubelet finishing start-up: Ready, startup and ephemeral taints gone, resources reported.
func (m *mp) nodeReady(nc *v1.NodeClaim) {
	n := &corev1.Node{}
	if err := m.cl.Get(m.ctx, client.ObjectKey{Name: nc.Status.NodeName}, n); err != nil {
		l := &corev1.NodeList{}
		_ = m.cl.List(m.ctx, l)
		for _, x := range l.Items {
			fmt.Fprintf(os.Stderr, "node %q pid=%q\n", x.Name, x.Spec.ProviderID)
		}
		fmt.Fprintf(os.Stderr, "claim %q status=%+v\n", nc.Name, nc.Status)
		panic(err)
	}
	n.Spec.Taints = lo.Reject(n.Spec.Taints, func(t corev1.Taint, _ int) bool {
		if t.Key == corev1.TaintNodeNotReady {
			return true
		}
		_, startup := lo.Find(nc.Spec.StartupTaints, func(s corev1.Taint) bool { return s.MatchTaint(&t) })
		return startup
	})
	n.Status.Allocatable = corev1.ResourceList{}
	for k, v := range nc.Status.Allocatable {
		n.Status.Allocatable[k] = v.DeepCopy()
	}
	n.Status.Conditions = []corev1.NodeCondition{{Type: corev1.NodeReady, Status: corev1.ConditionTrue}}
	st := n.DeepCopy()
	if err := m.cl.Update(m.ctx, n); err != nil {
		panic(err)
	}
	st.ResourceVersion = n.ResourceVersion
	if err := m.cl.Status().Update(m.ctx, st); err != nil {
		panic(err)
	}
	m.syncNode(n.Name)
}

func sortedClaimNames(names []string) []string {
	out := append([]string{}, names...)
	sort.Strings(out)
	return out
}

// ---------------------------------------------------------------- a second opinion that does not go through the live cluster state

// freshView is a NEW state.Cluster hydrated from the current API content (NodeClaims, Nodes, then every pod event) and a
// provisioner over it.  The real-CanAdd witnesses are built from it, so that they do not inherit whatever the live
// cluster state has accumulated over the history of events.
type freshView struct {
	cluster *state.Cluster
	prov    *provisioning.Provisioner
}

func (m *mp) fresh() (*freshView, error) {
	cl := state.NewCluster(m.clk, m.cl, m.cp)
	ncs := &v1.NodeClaimList{}
	if err := m.cl.List(m.ctx, ncs); err != nil {
		return nil, err
	}
	for i := range ncs.Items {
		cl.UpdateNodeClaim(ncs.Items[i].DeepCopy())
	}
	nodes := &corev1.NodeList{}
	if err := m.cl.List(m.ctx, nodes); err != nil {
		return nil, err
	}
	for i := range nodes.Items {
		if err := cl.UpdateNode(m.ctx, nodes.Items[i].DeepCopy()); err != nil {
			return nil, err
		}
	}
	pods := &corev1.PodList{}
	if err := m.cl.List(m.ctx, pods); err != nil {
		return nil, err
	}
	for i := range pods.Items {
		if err := cl.UpdatePod(m.ctx, pods.Items[i].DeepCopy()); err != nil {
			return nil, err
		}
	}
	for id := range m.marked {
		cl.MarkForDeletion(id)
	}
	if m.dsCached {
		if err := m.daemonSetEvents(cl); err != nil {
			return nil, err
		}
	}
	rec := events.NewRecorder(&record.FakeRecorder{})
	return &freshView{cluster: cl, prov: provisioning.NewProvisioner(m.cl, rec, m.cp, cl, m.clk, deviceallocation.NewController(m.cl), virtualpods.NewVirtualPodCache(m.cl))}, nil
}

// probe builds a scheduler over the fresh cluster for the same batch Provisioner.Schedule would work on.
func (f *freshView) probe(m *mp) (*psched.Scheduler, state.StateNodes, error) {
	nodes := f.cluster.DeepCopyNodes()
	pending, err := f.prov.GetPendingPods(m.ctx)
	if err != nil {
		return nil, nil, err
	}
	del, err := nodes.Deleting().CurrentlyReschedulablePods(m.ctx, m.cl, m.clk, events.NewRecorder(&record.FakeRecorder{}))
	if err != nil {
		return nil, nil, err
	}
	pods := append(pending, del...)
	if len(pods) == 0 {
		return nil, nodes, nil
	}
	uids := sets.New(lo.Map(del, func(p *corev1.Pod, _ int) types.UID { return p.UID })...)
	s, err := f.prov.NewScheduler(m.ctx, pods, nodes.Active(), uids, m.schedOpts()...)
	return s, nodes, err
}

// ---------------------------------------------------------------- pod and node events (the informers, one event at a time)

// podEvent delivers the pod's current API state to the live cluster state.
func (m *mp) podEvent(ns, name string) {
	p := &corev1.Pod{}
	if err := m.cl.Get(m.ctx, client.ObjectKey{Namespace: ns, Name: name}, p); err != nil {
		m.cluster.DeletePod(client.ObjectKey{Namespace: ns, Name: name})
		return
	}
	if err := m.cluster.UpdatePod(m.ctx, p); err != nil {
		// the pod informer requeues when the node of the binding is not known yet
		if apierrors.IsNotFound(err) {
			m.requeued = append(m.requeued, [2]string{ns, name})
			return
		}
		panic(err)
	}
}

// deliverRequeued re-delivers the pod events the informer had to requeue.
func (m *mp) deliverRequeued() {
	q := m.requeued
	m.requeued = nil
	for _, k := range q {
		m.podEvent(k[0], k[1])
	}
}

// nodeEvent delivers a Node event that changes nothing relevant (heartbeat / resync): an annotation is bumped.
func (m *mp) nodeEvent(name, namespace string) {
	n := &corev1.Node{}
	if err := m.cl.Get(m.ctx, client.ObjectKey{Name: name, Namespace: namespace}, n); err != nil {
		return
	}
	stored := n.DeepCopy()
	if n.Annotations == nil {
		n.Annotations = map[string]string{}
	}
	n.Annotations["example.com/heartbeat"] = fmt.Sprint(m.clk.Now().Unix(), "-", m.r.Intn(1000))
	if err := m.cl.Patch(m.ctx, n, client.MergeFrom(stored)); err != nil {
		panic(err)
	}
	if err := m.cluster.UpdateNode(m.ctx, n); err != nil {
		panic(err)
	}
}

// fixNode completes a node that appeared without provider id / instance-type label (node event follows).
func (m *mp) fixNode(nc *v1.NodeClaim) {
	n := &corev1.Node{}
	if err := m.cl.Get(m.ctx, client.ObjectKey{Name: "node-" + nc.Name}, n); err != nil {
		panic(err)
	}
	n.Spec.ProviderID = nc.Status.ProviderID
	if v, ok := nc.Labels[corev1.LabelInstanceTypeStable]; ok {
		n.Labels[corev1.LabelInstanceTypeStable] = v
	}
	if err := m.cl.Update(m.ctx, n); err != nil {
		panic(err)
	}
	m.syncNode(n.Name)
}
