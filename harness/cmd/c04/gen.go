package main

// Generators and checks added by the coverage audit: input dimensions the anchored code reads and the first version of
// the harness never produced (object states, optional fields, error kinds, event orders).

import (
	"context"
	"fmt"
	"sort"
	"time"

	"github.com/samber/lo"
	corev1 "k8s.io/api/core/v1"
	resourcev1 "k8s.io/api/resource/v1"
	metav1 "k8s.io/apimachinery/pkg/apis/meta/v1"
	"k8s.io/apimachinery/pkg/types"
	"sigs.k8s.io/controller-runtime/pkg/client"
	"sigs.k8s.io/controller-runtime/pkg/client/interceptor"

	v1 "sigs.k8s.io/karpenter/pkg/apis/v1"
	"sigs.k8s.io/karpenter/pkg/cloudprovider"
	psched "sigs.k8s.io/karpenter/pkg/controllers/provisioning/scheduling"
	"sigs.k8s.io/karpenter/pkg/controllers/state"
	"sigs.k8s.io/karpenter/pkg/utils/daemonset"

	"verifharness/kit"
	sk "verifharness/schedkit"
)

var _ = resourcev1.ResourceClaim{}

// ---------------------------------------------------------------- daemon pods as Provisioner.getDaemonSetPods builds them

func hasDRA(p *corev1.Pod) bool {
	if len(p.Spec.ResourceClaims) > 0 {
		return true
	}
	for _, c := range append(append([]corev1.Container{}, p.Spec.Containers...), p.Spec.InitContainers...) {
		if len(c.Resources.Claims) > 0 {
			return true
		}
	}
	return false
}

// daemonPods recomputes from the API (and the harness's own record of which daemon pod is the newest) the daemon pods the
// scheduler works with: the newest existing pod of the daemonset when the daemonset informer has delivered it, else the
// template pod; the required node affinity always comes from the template; pods with DRA requests are skipped.
func (m *mp) daemonPods(live bool) []sk.PodDump {
	out := []sk.PodDump{}
	for _, ds := range m.w.DaemonSets {
		pod := daemonset.PodForDaemonSet(ds)
		cached := false
		if m.dsCached {
			if np := m.dsNewest[ds.Name]; np != nil {
				pod, cached = np.DeepCopy(), true
			}
		}
		if a := ds.Spec.Template.Spec.Affinity; a != nil && a.NodeAffinity != nil && a.NodeAffinity.RequiredDuringSchedulingIgnoredDuringExecution != nil {
			if pod.Spec.Affinity == nil {
				pod.Spec.Affinity = &corev1.Affinity{}
			}
			if pod.Spec.Affinity.NodeAffinity == nil {
				pod.Spec.Affinity.NodeAffinity = &corev1.NodeAffinity{}
			}
			pod.Spec.Affinity.NodeAffinity.RequiredDuringSchedulingIgnoredDuringExecution = a.NodeAffinity.RequiredDuringSchedulingIgnoredDuringExecution.DeepCopy()
		}
		if hasDRA(pod) {
			continue
		}
		if cached && live && m.livePrepped { // the cached object was mutated by an earlier scheduler construction
			tol := corev1.Toleration{Operator: corev1.TolerationOpExists, Effect: corev1.TaintEffectPreferNoSchedule}
			if !lo.ContainsBy(pod.Spec.Tolerations, func(t corev1.Toleration) bool { return t.MatchToleration(&tol) }) {
				pod.Spec.Tolerations = append(pod.Spec.Tolerations, tol)
			}
		}
		out = append(out, dumpPodK(pod))
	}
	return out
}

// ---------------------------------------------------------------- pods that must not (or must) be in the batch

const (
	kindNormal     = ""
	kindNoBatch    = "not-provisionable" // pending, but IsProvisionable is false
	kindRejected   = "rejected"          // Provisioner.Validate refuses it
	kindDRA        = "dra"               // in the batch, never placed while DRA requests are ignored
	kindNoResched  = "not-reschedulable" // bound to a deleting node, not rescheduled
	kindResched    = "reschedulable"     // bound to a deleting node, rescheduled
	ownerGoneDSUID = "uid-ds-gone"
)

func pendingPod(name string, cpu int64) *corev1.Pod {
	return &corev1.Pod{ObjectMeta: metav1.ObjectMeta{Name: name, Namespace: "default", UID: types.UID("uid-" + name), Labels: map[string]string{"app": "odd"}},
		Spec: corev1.PodSpec{Tolerations: []corev1.Toleration{{Operator: corev1.TolerationOpExists}},
			Containers: []corev1.Container{{Name: "c", Image: "pause", Resources: corev1.ResourceRequirements{Requests: sk.RLOf(cpu, 32, -1)}}}},
		Status: corev1.PodStatus{Phase: corev1.PodPending, Conditions: []corev1.PodCondition{{Type: corev1.PodScheduled, Status: corev1.ConditionFalse, Reason: corev1.PodReasonUnschedulable}}}}
}

func ownedBy(p *corev1.Pod, apiVersion, kind, name string, uid types.UID) {
	tr := true
	p.OwnerReferences = []metav1.OwnerReference{{APIVersion: apiVersion, Kind: kind, Name: name, UID: uid, Controller: &tr, BlockOwnerDeletion: &tr}}
}

// oddPods adds pending pods of the kinds the provisioner must leave alone, and pods it must refuse.
func (m *mp) oddPods(c *kit.Ctx) {
	mk := []func(i int) (*corev1.Pod, string, string){
		func(i int) (*corev1.Pod, string, string) { // the kube-scheduler has not marked it unschedulable (yet)
			p := pendingPod(fmt.Sprintf("odd-unmarked-%d", i), 200)
			p.Status.Conditions = nil
			return p, kindNoBatch, "not-marked-unschedulable"
		},
		func(i int) (*corev1.Pod, string, string) {
			p := pendingPod(fmt.Sprintf("odd-preempting-%d", i), 200)
			p.Status.NominatedNodeName = "some-node"
			return p, kindNoBatch, "preempting"
		},
		func(i int) (*corev1.Pod, string, string) {
			p := pendingPod(fmt.Sprintf("odd-daemon-%d", i), 200)
			ownedBy(p, "apps/v1", "DaemonSet", "ds-gone", ownerGoneDSUID)
			return p, kindNoBatch, "owned-by-daemonset"
		},
		func(i int) (*corev1.Pod, string, string) {
			p := pendingPod(fmt.Sprintf("odd-static-%d", i), 200)
			ownedBy(p, "v1", "Node", "some-node", "uid-some-node")
			return p, kindNoBatch, "owned-by-node"
		},
		func(i int) (*corev1.Pod, string, string) {
			p := pendingPod(fmt.Sprintf("odd-nokarpenter-%d", i), 200)
			p.Spec.Affinity = &corev1.Affinity{NodeAffinity: &corev1.NodeAffinity{RequiredDuringSchedulingIgnoredDuringExecution: &corev1.NodeSelector{NodeSelectorTerms: []corev1.NodeSelectorTerm{
				{MatchExpressions: []corev1.NodeSelectorRequirement{{Key: v1.NodePoolLabelKey, Operator: corev1.NodeSelectorOpDoesNotExist}}}}}}}
			return p, kindRejected, "nodepool-label-does-not-exist"
		},
		func(i int) (*corev1.Pod, string, string) {
			p := pendingPod(fmt.Sprintf("odd-hostname-%d", i), 200)
			p.Spec.NodeSelector = map[string]string{corev1.LabelHostname: "some-node"}
			return p, kindRejected, "restricted-label-in-selector"
		},
		func(i int) (*corev1.Pod, string, string) {
			p := pendingPod(fmt.Sprintf("odd-matchfields-%d", i), 200)
			p.Spec.Affinity = &corev1.Affinity{NodeAffinity: &corev1.NodeAffinity{RequiredDuringSchedulingIgnoredDuringExecution: &corev1.NodeSelector{NodeSelectorTerms: []corev1.NodeSelectorTerm{
				{MatchFields: []corev1.NodeSelectorRequirement{{Key: "metadata.name", Operator: corev1.NodeSelectorOpIn, Values: []string{"some-node"}}}}}}}}
			return p, kindRejected, "match-fields"
		},
		func(i int) (*corev1.Pod, string, string) {
			p := pendingPod(fmt.Sprintf("odd-dra-%d", i), 200)
			n := "claim"
			p.Spec.ResourceClaims = []corev1.PodResourceClaim{{Name: "gpu", ResourceClaimName: &n}}
			return p, kindDRA, "resource-claim"
		},
	}
	for i := 0; i < m.r.Range(0, 2); i++ {
		p, kind, what := kit.Pick(m.r, mk)(i)
		if _, dup := m.podKind[p.Namespace+"/"+p.Name]; dup {
			continue
		}
		m.podKind[p.Namespace+"/"+p.Name] = kind
		m.addPending(p)
		c.Count("odd-pod." + kind + "." + what)
	}
}

// oddBoundPods puts pods on the nodes that are being deleted: only active pods (and terminating StatefulSet pods) that
// are not owned by a daemonset or a node are rescheduled with the batch.
func (m *mp) oddBoundPods(c *kit.Ctx) {
	for i, n := range m.w.Nodes {
		if n.Kind != "deleting" || n.Node == nil || !m.r.Chance(2, 3) {
			continue
		}
		name := fmt.Sprintf("odd-on-deleting-%d", i)
		p := runningPod(name, n.Node.Name, 150, 32)
		p.Spec.Tolerations = []corev1.Toleration{{Operator: corev1.TolerationOpExists}}
		kind, what := kindResched, "running"
		switch m.r.Intn(6) {
		case 0:
			p.Status.Phase, kind, what = corev1.PodSucceeded, kindNoResched, "succeeded"
		case 1:
			ownedBy(p, "apps/v1", "DaemonSet", "ds-gone", ownerGoneDSUID)
			kind, what = kindNoResched, "owned-by-daemonset"
		case 2:
			ownedBy(p, "v1", "Node", n.Node.Name, n.Node.UID)
			kind, what = kindNoResched, "owned-by-node"
		case 3:
			p.Finalizers = []string{"example.com/hold"}
			kind, what = kindNoResched, "terminating"
		case 4:
			p.Finalizers = []string{"example.com/hold"}
			ownedBy(p, "apps/v1", "StatefulSet", "db", "uid-db")
			kind, what = kindResched, "terminating-statefulset-pod"
		}
		kit.Apply(m.ctx, m.cl, p)
		if len(p.Finalizers) > 0 {
			if err := m.cl.Delete(m.ctx, p); err != nil {
				panic(err)
			}
		}
		m.podEvent(p.Namespace, p.Name)
		m.podKind[p.Namespace+"/"+p.Name] = kind
		c.Count("odd-pod-on-deleting-node." + kind + "." + what)
	}
}

// checkBatch compares the batch the provisioner works on with what the harness knows about the pods it created.
func (m *mp) checkBatch(c *kit.Ctx, pods []*corev1.Pod, label string, world int) {
	in := map[string]bool{}
	for _, p := range pods {
		in[p.Namespace+"/"+p.Name] = true
	}
	for k, kind := range m.podKind {
		switch kind {
		case kindNoBatch, kindRejected, kindNoResched:
			if in[k] {
				c.Fail(c.NextID(), fmt.Sprintf("pod %s (%s) is in the provisioning batch of pass %s", k, kind, label), "", map[string]interface{}{"kind": "batch", "world": world, "pod": k, "podKind": kind})
			} else {
				c.Count("batch.excluded." + kind)
			}
		case kindDRA, kindResched:
			if !in[k] {
				c.Fail(c.NextID(), fmt.Sprintf("pod %s (%s) is missing from the provisioning batch of pass %s", k, kind, label), "", map[string]interface{}{"kind": "batch", "world": world, "pod": k, "podKind": kind})
			} else {
				c.Count("batch.included." + kind)
			}
		}
	}
	// every ordinary pending pod of the API is in the batch
	l := &corev1.PodList{}
	if err := m.cl.List(m.ctx, l); err != nil {
		panic(err)
	}
	for i := range l.Items {
		p := &l.Items[i]
		k := p.Namespace + "/" + p.Name
		if _, odd := m.podKind[k]; !odd && p.Spec.NodeName == "" && p.Status.Phase == corev1.PodPending && !in[k] {
			c.Fail(c.NextID(), fmt.Sprintf("pending pod %s is missing from the provisioning batch of pass %s", k, label), "", map[string]interface{}{"kind": "batch", "world": world, "pod": k})
		}
	}
}

// checkDRA: while DRA requests are ignored a pod with resource claims gets an error and is placed nowhere.
func (m *mp) checkDRA(c *kit.Ctx, res psched.Results, label string, world int) {
	placed := map[string]string{}
	for _, en := range res.ExistingNodes {
		for _, p := range en.Pods {
			placed[p.Namespace+"/"+p.Name] = "existing node " + en.Name()
		}
	}
	for _, nc := range res.NewNodeClaims {
		for _, p := range nc.Pods {
			placed[p.Namespace+"/"+p.Name] = "a new NodeClaim of " + nc.NodePoolName
		}
	}
	for k, kind := range m.podKind {
		if kind == kindDRA {
			if where, ok := placed[k]; ok {
				c.Fail(c.NextID(), fmt.Sprintf("pod %s has resource claims (DRA requests are ignored) but pass %s placed it on %s", k, label, where), "", map[string]interface{}{"kind": "dra", "world": world, "pod": k})
			} else {
				c.Count("dra.pod-not-placed")
			}
		}
	}
}

// ---------------------------------------------------------------- NodePools that cannot be used right now

func (m *mp) poolOutage(c *kit.Ctx) {
	var cands []*v1.NodePool
	for _, np := range m.w.Pools {
		if _, out := m.poolOut[np.Name]; !out {
			cands = append(cands, np)
		}
	}
	if len(cands) == 0 {
		return
	}
	name := kit.Pick(m.r, cands).Name
	np := &v1.NodePool{}
	if err := m.cl.Get(m.ctx, client.ObjectKey{Name: name}, np); err != nil {
		return
	}
	why := kit.Pick(m.r, []string{"not-ready", "deleting", "static", "provider-error", "provider-unevaluated", "provider-no-instance-types", "provider-deadline"})
	switch why {
	case "not-ready":
		np.StatusConditions().SetFalse(v1.ConditionTypeNodeClassReady, "NodeClassNotReady", "node class is not ready")
		if err := m.cl.Status().Update(m.ctx, np); err != nil {
			panic(err)
		}
	case "deleting":
		np.Finalizers = append(np.Finalizers, "example.com/hold")
		if err := m.cl.Update(m.ctx, np); err != nil {
			panic(err)
		}
		if err := m.cl.Delete(m.ctx, np); err != nil {
			panic(err)
		}
	case "static":
		one := int64(1)
		np.Spec.Replicas = &one
		if err := m.cl.Update(m.ctx, np); err != nil {
			panic(err)
		}
	case "provider-error":
		m.cp.ErrorsForNodePool[name] = fmt.Errorf("injected: cannot resolve instance types")
	case "provider-unevaluated":
		m.cp.ErrorsForNodePool[name] = cloudprovider.NewUnevaluatedNodePoolError(name)
	case "provider-no-instance-types":
		m.cp.InstanceTypesForNodePool[name] = []*cloudprovider.InstanceType{}
	case "provider-deadline": // NewScheduler gives up: the whole pass fails, nothing may be opened
		m.cp.ErrorsForNodePool[name] = fmt.Errorf("resolving instance types, %w", context.DeadlineExceeded)
		m.deadlinePool = name
	}
	m.poolOut[name] = why
	c.Count("nodepool-outage." + why)
}

// checkPools: no template and no new NodeClaim for a NodePool that is out.
func (m *mp) checkPools(c *kit.Ctx, tmpls []tmplDump, res *psched.Results, label string, world int) {
	for _, t := range tmpls {
		if why, out := m.poolOut[t.Pool]; out {
			c.Fail(c.NextID(), fmt.Sprintf("pass %s builds a template for NodePool %s, which is %s", label, t.Pool, why), "", map[string]interface{}{"kind": "pools", "world": world, "pool": t.Pool, "why": why})
		}
	}
	if res != nil {
		for _, nc := range res.NewNodeClaims {
			if why, out := m.poolOut[nc.NodePoolName]; out {
				c.Fail(c.NextID(), fmt.Sprintf("pass %s opens a NodeClaim in NodePool %s, which is %s", label, nc.NodePoolName, why), "", map[string]interface{}{"kind": "pools", "world": world, "pool": nc.NodePoolName, "why": why})
			}
		}
	}
	if len(m.poolOut) > 0 {
		c.Count(fmt.Sprintf("pass.with-nodepools-out=%d", min(len(m.poolOut), 3)))
	}
}

// ---------------------------------------------------------------- a restarted controller: Cluster.Synced before the first sync

func (m *mp) restartSynced(c *kit.Ctx, world int) {
	ncs := &v1.NodeClaimList{}
	nodes := &corev1.NodeList{}
	if err := m.cl.List(m.ctx, ncs); err != nil {
		panic(err)
	}
	if err := m.cl.List(m.ctx, nodes); err != nil {
		panic(err)
	}
	how := kit.Pick(m.r, []string{"all-delivered", "all-delivered", "one-nodeclaim-missing", "one-node-missing", "list-fails"})
	var cl client.Client = m.cl
	fails := false
	if how == "list-fails" {
		fails = true
		target := m.r.Intn(2)
		cl = interceptor.NewClient(m.cl.(client.WithWatch), interceptor.Funcs{List: func(ctx context.Context, w client.WithWatch, list client.ObjectList, opts ...client.ListOption) error {
			if _, ok := list.(*v1.NodeClaimList); ok && target == 0 {
				return fmt.Errorf("injected: list failed")
			}
			if _, ok := list.(*corev1.NodeList); ok && target == 1 {
				return fmt.Errorf("injected: list failed")
			}
			return w.List(ctx, list, opts...)
		}})
	}
	fresh := state.NewCluster(m.clk, cl, m.cp)
	skipClaim, skipNode := -1, -1
	if how == "one-nodeclaim-missing" && len(ncs.Items) > 0 {
		skipClaim = m.r.Intn(len(ncs.Items))
	}
	if how == "one-node-missing" && len(nodes.Items) > 0 {
		skipNode = m.r.Intn(len(nodes.Items))
	}
	var tracked []string
	var apiClaims, apiNodes, trackedNodes []string
	for i := range ncs.Items {
		apiClaims = append(apiClaims, ncs.Items[i].Name)
		if i == skipClaim {
			continue
		}
		fresh.UpdateNodeClaim(ncs.Items[i].DeepCopy())
		tracked = append(tracked, kit.GPair(gs(ncs.Items[i].Name), gs(ncs.Items[i].Status.ProviderID)))
	}
	for i := range nodes.Items {
		apiNodes = append(apiNodes, nodes.Items[i].Name)
		if i == skipNode {
			continue
		}
		n := nodes.Items[i].DeepCopy()
		managed := n.Labels[v1.NodePoolLabelKey] != ""
		if err := fresh.UpdateNode(m.ctx, n); err != nil {
			panic(err)
		}
		// UpdateNode ignores a managed node without provider id, and a managed uninitialized node without instance type label
		if (nodes.Items[i].Spec.ProviderID == "" && managed) || (managed && n.Labels[corev1.LabelInstanceTypeStable] == "" && n.Labels[v1.NodeInitializedLabelKey] == "") {
			c.Count("restart.node-event-ignored")
			continue
		}
		trackedNodes = append(trackedNodes, n.Name)
	}
	obs := fresh.Synced(m.ctx)
	c.Count(fmt.Sprintf("restart.%s.synced=%v", how, obs))
	term := fmt.Sprintf("(CSyncFirst %s %s %s %s %s %s)", kit.GList(tracked), gss(trackedNodes), gss(apiClaims), gss(apiNodes), kit.GBool(fails), kit.GBool(obs))
	c.AddCase(term, map[string]interface{}{"kind": "restart-synced", "world": world, "how": how, "apiNodeClaims": apiClaims, "apiNodes": apiNodes, "trackedNodes": trackedNodes, "synced": obs},
		fmt.Sprintf("restart|%s|%v|%v|%v", how, tracked, trackedNodes, obs))
}

// reconcileIdle runs Provisioner.Reconcile while nothing has triggered the batcher; the batcher's one-second timer is fired.
func (m *mp) reconcileIdle() (ran bool) {
	calls := m.pendingLists
	done := make(chan struct{})
	go func() {
		defer close(done)
		if _, err := m.prov.Reconcile(m.ctx); err != nil {
			panic(err)
		}
	}()
	for {
		select {
		case <-done:
			return m.pendingLists != calls
		default:
			if m.clk.Waiters() >= 1 {
				m.clk.Step(2 * time.Second)
			}
			time.Sleep(50 * time.Microsecond)
		}
	}
}

// ---------------------------------------------------------------- nodes that show up late, without provider id, or lose their objects

// lateUnmanagedNode: a node Karpenter does not manage joins with a running pod; the pod event is delivered BEFORE the
// node event (the pod is bound to a node cluster state does not know yet).
func (m *mp) lateUnmanagedNode(c *kit.Ctx, seq int) {
	it := kit.Pick(m.r, m.w.Catalog)
	name := fmt.Sprintf("late-node-%d", seq)
	n := &corev1.Node{ObjectMeta: metav1.ObjectMeta{Name: name, UID: types.UID("uid-" + name), Labels: map[string]string{corev1.LabelHostname: name, corev1.LabelArchStable: "amd64", corev1.LabelOSStable: "linux",
		corev1.LabelTopologyZone: kit.Pick(m.r, sk.Zones)}},
		Status: corev1.NodeStatus{Allocatable: it.Allocatable(), Capacity: it.Capacity, Conditions: []corev1.NodeCondition{{Type: corev1.NodeReady, Status: corev1.ConditionTrue}}}}
	if m.r.Chance(1, 3) { // no hostname label: the scheduler falls back to the node name
		delete(n.Labels, corev1.LabelHostname)
		c.Count("late-unmanaged-node.without-hostname-label")
	}
	withPID := m.r.Bool()
	if withPID {
		n.Spec.ProviderID = "other://" + name
	}
	kit.Apply(m.ctx, m.cl, n)
	p := runningPod("on-"+name, name, 300, 64)
	kit.Apply(m.ctx, m.cl, p)
	order := kit.Pick(m.r, []string{"pod-event-then-node-event", "node-event-then-pod-event"})
	if order == "pod-event-then-node-event" {
		m.podEvent(p.Namespace, p.Name) // requeued: the node is unknown
		m.syncNode(name)
		m.deliverRequeued()
	} else {
		m.syncNode(name)
		m.podEvent(p.Namespace, p.Name)
	}
	c.Count(fmt.Sprintf("late-unmanaged-node.providerID=%v.%s", withPID, order))
}

func sortedKeys(m map[string]string) []string {
	out := make([]string, 0, len(m))
	for k := range m {
		out = append(out, k)
	}
	sort.Strings(out)
	return out
}

// unmanagedNodeChanges: a node Karpenter does not manage gets its provider id late (cluster state re-keys it), or is
// being deleted (deletionTimestamp, a finalizer keeps it): a deleting node is not capacity.
func (m *mp) unmanagedNodeChanges(c *kit.Ctx) {
	l := &corev1.NodeList{}
	if err := m.cl.List(m.ctx, l); err != nil {
		panic(err)
	}
	var cands []*corev1.Node
	for i := range l.Items {
		n := &l.Items[i]
		if n.Labels[v1.NodePoolLabelKey] == "" && n.DeletionTimestamp.IsZero() && !m.marked[n.Spec.ProviderID] {
			cands = append(cands, n)
		}
	}
	if len(cands) == 0 {
		return
	}
	n := kit.Pick(m.r, cands)
	if n.Spec.ProviderID == "" && m.r.Bool() {
		n.Spec.ProviderID = "other://late-" + n.Name
		if err := m.cl.Update(m.ctx, n); err != nil {
			panic(err)
		}
		c.Count("unmanaged-node.provider-id-arrives")
	} else {
		n.Finalizers = append(n.Finalizers, "example.com/hold")
		if err := m.cl.Update(m.ctx, n); err != nil {
			panic(err)
		}
		if err := m.cl.Delete(m.ctx, n); err != nil {
			panic(err)
		}
		c.Count("unmanaged-node.deleting")
	}
	cur := &corev1.Node{}
	if err := m.cl.Get(m.ctx, client.ObjectKey{Name: n.Name, Namespace: n.Namespace}, cur); err != nil {
		panic(err)
	}
	if err := m.cluster.UpdateNode(m.ctx, cur); err != nil {
		panic(err)
	}
}

// faultyPass: the API refuses to list the pending pods once; the pass must fail without opening anything.
func (m *mp) faultyPass(c *kit.Ctx, world int) {
	m.failPodList = true
	res, err := m.prov.Schedule(m.ctx)
	m.failPodList = false
	if err == nil || len(res.NewNodeClaims) != 0 || len(res.ExistingNodes) != 0 {
		c.Fail(c.NextID(), fmt.Sprintf("Provisioner.Schedule with a failing pod list returned err=%v and %d new NodeClaims", err, len(res.NewNodeClaims)), "", map[string]interface{}{"kind": "faulty-pass", "world": world})
		return
	}
	c.Count("fault.pod-list-fails.pass-returns-error")
}
