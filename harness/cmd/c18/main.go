// Command c18 runs the real disruption.SimulateScheduling and Provisioner.Schedule on generated
// clusters, any number of times in a row, and records for every run what changed in the world
// (API objects, every field of the cluster state, the provider's catalogue, the shared candidates),
// where the scheduler's writes landed, and how DeepCopyNodes aliases at runtime.
package main

import (
	"context"
	"fmt"
	"os"
	"reflect"
	"runtime/pprof"
	"sort"
	"strings"
	"sync/atomic"
	"time"
	"unsafe"

	"github.com/go-logr/logr"
	"github.com/samber/lo"
	corev1 "k8s.io/api/core/v1"
	metav1 "k8s.io/apimachinery/pkg/apis/meta/v1"
	"k8s.io/apimachinery/pkg/types"
	"sigs.k8s.io/controller-runtime/pkg/client"
	crlog "sigs.k8s.io/controller-runtime/pkg/log"

	autoscalingv1beta1 "sigs.k8s.io/karpenter/pkg/apis/autoscaling/v1beta1"
	v1 "sigs.k8s.io/karpenter/pkg/apis/v1"
	"sigs.k8s.io/karpenter/pkg/cloudprovider"
	"sigs.k8s.io/karpenter/pkg/controllers/disruption"
	"sigs.k8s.io/karpenter/pkg/controllers/provisioning/scheduling"
	"sigs.k8s.io/karpenter/pkg/controllers/state"
	"sigs.k8s.io/karpenter/pkg/operator/options"
	pscheduling "sigs.k8s.io/karpenter/pkg/scheduling"
	podutils "sigs.k8s.io/karpenter/pkg/utils/pod"

	"verifharness/kit"
)

const (
	kfRejected = "simulation-marks-scheduling-decision-for-rejected-pending-pods"
	kfInject   = "default-topology-spread-constraints-written-into-shared-pods"
)

// sharedPods are the pod objects that outlive one simulation: the candidates' reschedulable pods and the cached
// CapacityBuffer virtual pods (virtualpods.Cache.GetAll hands them out without copying).
func (w *world) sharedPods() []*corev1.Pod {
	var out []*corev1.Pod
	for _, cd := range w.cands {
		out = append(out, field(cd, "reschedulablePods").Interface().([]*corev1.Pod)...)
	}
	m := field(w.vpc, "capacityBufferToPods")
	it := m.MapRange()
	for it.Next() {
		out = append(out, it.Value().Interface().([]*corev1.Pod)...)
	}
	return out
}

// predictShared applies to a copy of the pod as it was before the call the one in-place write the scheduler is known
// to make (Model.SInjectTSC).  Any other difference — in particular preferred node-affinity terms re-ordered in place,
// which /repo commit bad8fc38d removed — is not predicted and therefore reported as a violation without a key.
func (w *world) predictShared(pre *corev1.Pod) (pred *corev1.Pod, injected bool) {
	pred = pre.DeepCopy()
	if w.j.DefaultTSC != "" && len(pred.Spec.TopologySpreadConstraints) == 0 && pred.Labels["app"] == "c18" {
		pred.Spec.TopologySpreadConstraints = []corev1.TopologySpreadConstraint{{MaxSkew: 1, TopologyKey: corev1.LabelTopologyZone,
			WhenUnsatisfiable: corev1.UnsatisfiableConstraintAction(w.j.DefaultTSC), LabelSelector: &metav1.LabelSelector{MatchLabels: map[string]string{"app": "c18"}}}}
		injected = true
	}
	return
}

func candRest(cd *disruption.Candidate) string {
	wk := newWalker()
	wk.skip = func(_ string, f reflect.StructField) bool { return f.Name == "reschedulablePods" }
	wk.walk(reflect.ValueOf(cd), "")
	return hashStr(wk.b.String())
}

type jCase struct {
	Kind     string   `json:"kind"`
	KfKey    string   `json:"kf_key,omitempty"`
	World    jWorld   `json:"world"`
	OpIndex  int      `json:"op_index"`
	Outcome  string   `json:"outcome,omitempty"`
	Err      string   `json:"error,omitempty"`
	Changed  []change `json:"changed,omitempty"`
	Writes   int64    `json:"api_writes"`
	Placed   int      `json:"pods_placed_on_existing_nodes"`
	NewNC    int      `json:"new_nodeclaims"`
	PodErrs  int      `json:"pod_errors"`
	Rejected []string `json:"rejected_pods,omitempty"`
}

func tz(t time.Time) int64 {
	if t.IsZero() {
		return 0
	}
	return t.UnixNano()
}

type brec struct {
	ack, att, sched, healthy int64
	nc                       string
}

func (w *world) book(k types.NamespacedName) brec {
	return brec{tz(w.cluster.PodAckTime(k)), tz(w.cluster.PodSchedulingDecisionTime(k)), tz(w.cluster.PodSchedulingSuccessTime(k)),
		tz(w.cluster.PodSchedulingSuccessTimeRegistrationHealthyCheck(k)), w.cluster.PodNodeClaimMapping(k)}
}

func gB(b brec) string {
	return fmt.Sprintf("(mkB %s %s %s %s %s)", kit.GZ(b.ack), kit.GZ(b.att), kit.GZ(b.sched), kit.GZ(b.healthy), kit.GStr(b.nc))
}

func (w *world) podID(k types.NamespacedName) int64 {
	for i, x := range w.podKeys {
		if x == k {
			return int64(i)
		}
	}
	return -1
}

func (w *world) nominatedUntil(n *state.StateNode) int64 {
	f := field(n, "nominatedUntil")
	return tz(f.FieldByName("Time").Interface().(time.Time))
}

func sliceData(its []*cloudprovider.InstanceType) uintptr {
	if cap(its) == 0 {
		return 0
	}
	return uintptr(unsafe.Pointer(unsafe.SliceData(its)))
}

// runOp performs one operation on the world and emits its observation as one case.
func runOp(c *kit.Ctx, w *world, idx int) {
	op := w.j.Ops[idx]
	if op.Advance > 0 {
		w.clk.Step(time.Duration(op.Advance) * time.Second)
	}
	// pods that fail validation (read-only: Validate looks at the pod and reads PVCs), under the same fault plan as the call
	w.faultVerb.Store(op.Fault)
	var rejected []types.NamespacedName
	var allPods []types.NamespacedName // what Schedule hands to the scheduler: valid pending pods + pods of deleting nodes
	for _, p := range w.pending {
		if !podutils.IsProvisionable(p) {
			continue // e.g. a pod that is preempting: GetProvisionablePods never returns it
		}
		if err := w.prov.Validate(w.ctx, p); err != nil {
			rejected = append(rejected, client.ObjectKeyFromObject(p))
		} else {
			allPods = append(allPods, client.ObjectKeyFromObject(p))
		}
	}
	if dp, e := w.cluster.DeepCopyNodes().Deleting().CurrentlyReschedulablePods(w.ctx, w.c, w.clk, w.rec); e == nil {
		for _, p := range dp {
			allPods = append(allPods, client.ObjectKeyFromObject(p))
		}
	}
	w.faultVerb.Store("")
	noPool := true
	for _, p := range w.j.Pools {
		if !p.NotReady && !p.Static && !p.Deleting {
			noPool = false
		}
	}
	pre := w.snap()
	shared := w.sharedPods()
	sharedPre := make([]*corev1.Pod, len(shared))
	for i, p := range shared {
		sharedPre[i] = p.DeepCopy()
	}
	restPre := map[string]string{}
	for _, cd := range w.cands {
		restPre[cd.Name()] = candRest(cd)
	}
	dbg := map[string]string{}
	dbgDac := ""
	if os.Getenv("C18_DEBUG") != "" {
		dbgDac = renderOf(w.dac)
		for _, cd := range w.cands {
			dbg[cd.Name()] = renderOf(cd)
		}
	}
	preNodes := map[string]map[string]string{}
	preNom := map[string]int64{}
	for pid, n := range w.origNodes() {
		preNodes[pid] = nodeFieldHashes(n)
		preNom[pid] = w.nominatedUntil(n)
	}
	preBook := map[types.NamespacedName]brec{}
	for _, k := range w.podKeys {
		preBook[k] = w.book(k)
	}
	writes0 := atomic.LoadInt64(w.writes)

	var ctx context.Context = w.ctx
	switch op.Ctx {
	case "cancelled":
		cc, cancel := context.WithCancel(w.ctx)
		cancel()
		ctx = cc
	case "countdown":
		ctx = newCountdown(w.ctx, op.Countdown)
	}
	w.faultVerb.Store(op.Fault)
	var results scheduling.Results
	var err error
	panicked, msg := kit.Recover(func() {
		if op.Kind == "sim" {
			var cands []*disruption.Candidate
			seen := map[int]bool{}
			for _, i := range op.Cands {
				if len(w.cands) > 0 && !seen[i%len(w.cands)] {
					seen[i%len(w.cands)] = true
					cands = append(cands, w.cands[i%len(w.cands)])
				}
			}
			var opts []scheduling.Options
			if op.Consol {
				opts = append(opts, scheduling.IsConsolidationSimulation)
			}
			results, err = disruption.SimulateScheduling(ctx, w.c, w.cluster, w.prov, w.clk, w.rec, opts, cands...)
		} else {
			results, err = w.prov.Schedule(ctx)
		}
	})
	w.faultVerb.Store("")
	if panicked {
		err = fmt.Errorf("panic: %s", msg)
	}
	now := w.clk.Now()
	post := w.snap()
	classes, details := diff(pre, post)
	if os.Getenv("C18_DEBUG") != "" {
		if a, b := dbgDac, renderOf(w.dac); a != b {
			i := 0
			for i < len(a) && i < len(b) && a[i] == b[i] {
				i++
			}
			fmt.Fprintf(os.Stderr, "DEBUG dac differs at %d:\n  pre : ...%s\n  post: ...%s\n", i, a[max(0, i-300):min(len(a), i+300)], b[max(0, i-300):min(len(b), i+300)])
		}
		for _, cd := range w.cands {
			a, b := dbg[cd.Name()], renderOf(cd)
			if a != b {
				i := 0
				for i < len(a) && i < len(b) && a[i] == b[i] {
					i++
				}
				lo0 := i - 200
				if lo0 < 0 {
					lo0 = 0
				}
				fmt.Fprintf(os.Stderr, "DEBUG op %d %s cand %s differs at %d:\n  pre : ...%s\n  post: ...%s\n", idx, op.Kind, cd.Name(), i, a[lo0:min(len(a), i+200)], b[lo0:min(len(b), i+200)])
			}
		}
	}
	nWrites := atomic.LoadInt64(w.writes) - writes0

	// outcome class (what the model's control flow needs to know)
	outcome := "OOk"
	reached := len(results.ExistingNodes)+len(results.NewNodeClaims)+len(results.PodErrors) > 0
	switch {
	case err != nil && strings.Contains(err.Error(), "candidate is deleting"):
		outcome = "ORejected"
	case err != nil && op.Fault == "list-pods":
		outcome = "OErrEarly"
	case err != nil:
		outcome = "OErrLate"
	case !reached && op.Kind == "prov" && noPool && len(allPods) > 0:
		outcome = "ONoPools" // ErrNodePoolsNotFound: every pod is recorded as failed
	case !reached:
		outcome = "OEmpty"
	}
	if panicked {
		outcome = "OErrLate"
	}
	c.Count("op:" + op.Kind + ":" + outcome)
	c.Count("ctx:" + op.Ctx)
	if op.Fault != "" {
		c.Count("fault:" + op.Fault)
	}

	// where did the scheduler's writes land? fields of its StateNode copies that differ from the cluster's nodes before the op
	written := map[string]bool{}
	placed := 0
	placedOn := map[string]bool{}
	virtualPlaced := 0
	for _, en := range results.ExistingNodes {
		if len(en.Pods) > 0 {
			placed += len(en.Pods)
		}
		for _, p := range en.Pods { // only real pods nominate; CapacityBuffer virtual pods do not
			if p.Annotations[autoscalingv1beta1.FakePodAnnotationKey] != autoscalingv1beta1.FakePodAnnotationValue {
				placedOn[en.ProviderID()] = true
			} else {
				virtualPlaced++
			}
		}
		if o, ok := preNodes[en.ProviderID()]; ok {
			for f, h := range nodeFieldHashes(en.StateNode) {
				if o[f] != h {
					written[f] = true
				}
			}
		}
	}
	var writtenL []string
	for f := range written {
		writtenL = append(writtenL, f)
	}
	sort.Strings(writtenL)
	for _, f := range writtenL {
		c.Count("copy-written:" + f)
	}
	// new nodeclaims must carry their own instance-type slices
	provider := map[uintptr]bool{sliceData(w.cp.InstanceTypes): true}
	for _, s := range w.cp.InstanceTypesForNodePool {
		provider[sliceData(s)] = true
	}
	fresh := true
	for _, nc := range results.NewNodeClaims {
		if d := sliceData(nc.InstanceTypeOptions); d != 0 && provider[d] {
			fresh = false
		}
	}
	cachesFresh, cachesComputed := w.cachesFresh()
	preUnset, postSet := 0, 0
	for k, v := range pre {
		if strings.HasSuffix(k, cacheSuffix) && v == cacheUnset {
			preUnset++
			if post[k] != cacheUnset {
				postSet++
			}
		}
	}
	if postSet > 0 {
		c.Count("precompute:first-evaluated-by-" + op.Kind)
	}
	overrideTypes := 0
	for _, it := range w.j.Catalog {
		for _, ov := range it.Overrides {
			if ov.Available && (ov.CPU > 0 || ov.MemMi > 0 || ov.Ext > 0) {
				overrideTypes++
				break
			}
		}
	}
	if postSet > 0 && overrideTypes > 0 {
		c.Count("precompute:with-available-capacity-override")
	}
	_ = cachesComputed
	if len(results.NewNodeClaims) > 0 {
		c.Count("new-nodeclaims:yes")
	}
	if placed > 0 {
		c.Count("placed-on-existing:yes")
	}
	if virtualPlaced > 0 {
		c.Count("virtual-buffer-pod-placed-on-existing:yes")
	}
	if len(results.PodErrors) > 0 {
		c.Count("pod-errors:yes")
	}
	if len(rejected) > 0 {
		c.Count("rejected-pods:yes")
	}

	// nomination rows
	var pids []string
	for pid := range preNom {
		pids = append(pids, pid)
	}
	sort.Strings(pids)
	orig := w.origNodes()
	var nomRows []string
	for _, pid := range pids {
		postNom := int64(0)
		if n, ok := orig[pid]; ok {
			postNom = w.nominatedUntil(n)
		}
		nomRows = append(nomRows, fmt.Sprintf("(%s, %s, %s)", kit.GZ(preNom[pid]), kit.GBool(placedOn[pid]), kit.GZ(postNom)))
	}
	// the MarkPodSchedulingDecisions arguments the implementation derived from its results
	resultMark := "None"
	if outcome == "OOk" {
		var errs []string
		for p := range results.PodErrors {
			if id := w.podID(client.ObjectKeyFromObject(p)); id >= 0 {
				errs = append(errs, kit.GZ(id))
			}
		}
		sort.Strings(errs)
		var nps []string
		np := results.NodePoolToPodMapping()
		for _, name := range kit.SortedKeys(np) {
			healthy := false
			if name != "" {
				pool := &v1.NodePool{}
				if e := w.c.Get(w.ctx, types.NamespacedName{Name: name}, pool); e == nil {
					healthy = pool.StatusConditions().IsTrue(v1.ConditionTypeNodeRegistrationHealthy)
				}
			}
			var ps []string
			for _, p := range np[name] {
				ps = append(ps, kit.GPair(kit.GZ(w.podID(client.ObjectKeyFromObject(p))), kit.GBool(p.Spec.NodeName != "")))
			}
			nps = append(nps, kit.GPair(kit.GBool(healthy), kit.GList(ps)))
		}
		var ncs []string
		nc := results.ExistingNodeToPodMapping()
		for _, name := range kit.SortedKeys(nc) {
			var ps []string
			for _, p := range nc[name] {
				ps = append(ps, kit.GZ(w.podID(client.ObjectKeyFromObject(p))))
			}
			ncs = append(ncs, kit.GPair(kit.GStr(name), kit.GList(ps)))
		}
		resultMark = fmt.Sprintf("(Some (mkMark %s %s %s))", kit.GList(errs), kit.GList(nps), kit.GList(ncs))
	}
	if outcome == "ONoPools" {
		var errs []string
		for _, k := range allPods {
			if id := w.podID(k); id >= 0 {
				errs = append(errs, kit.GZ(id))
			}
		}
		resultMark = fmt.Sprintf("(Some (mkMark %s [] []))", kit.GList(errs))
	}
	var bookRows, rej []string
	var rejNames []string
	for _, k := range rejected {
		rej = append(rej, kit.GZ(w.podID(k)))
		rejNames = append(rejNames, k.Name)
	}
	for i, k := range w.podKeys {
		bookRows = append(bookRows, fmt.Sprintf("(%s, %s, %s)", kit.GZ(int64(i)), gB(preBook[k]), gB(w.book(k))))
	}
	window := 2 * options.FromContext(w.ctx).BatchMaxDuration
	if window < 10*time.Second {
		window = 10 * time.Second
	}
	kind := lo.Ternary(op.Kind == "sim", "KSim", "KProv")
	term := fmt.Sprintf("CaseOp (mkObs %s %s %s %s %s %s %s %s %s %s %s %s %s %s)", kind, outcome, kit.GZ(nWrites), kit.GList(classes), kit.GStrs(writtenL),
		kit.GBool(placed > 0), kit.GBool(fresh), kit.GBool(cachesFresh), kit.GZ(tz(now)), kit.GZ(int64(window)), kit.GList(nomRows), kit.GList(rej), resultMark, kit.GList(bookRows))

	jc := jCase{Kind: "op", World: w.j, OpIndex: idx, Outcome: outcome, Changed: details, Writes: nWrites, Placed: placed,
		NewNC: len(results.NewNodeClaims), PodErrs: len(results.PodErrors), Rejected: rejNames}
	if err != nil {
		jc.Err = err.Error()
		if len(jc.Err) > 200 {
			jc.Err = jc.Err[:200]
		}
	}
	// The known deviations, each recognised by its exact shape; anything not fully explained by them carries no key.
	//  (1) a simulation records a scheduling decision for pending pods that fail validation;
	//  (2) default topology-spread constraints are written into a shared pod.
	explained := nWrites == 0
	sawRejected, sawInject := false, false
	for i, p := range shared {
		if renderOf(p) == renderOf(sharedPre[i]) {
			continue
		}
		if pred, injected := w.predictShared(sharedPre[i]); injected && renderOf(pred) == renderOf(p) {
			sawInject = true
		} else {
			explained = false
			if a := sharedPre[i].Spec.Affinity; a != nil && a.NodeAffinity != nil && len(a.NodeAffinity.PreferredDuringSchedulingIgnoredDuringExecution) > 1 {
				c.Count("shared-pod-changed-unexplained:has-several-preferred-terms")
			}
		}
	}
	for _, cd := range w.cands {
		if restPre[cd.Name()] != candRest(cd) {
			explained = false
		}
	}
	for k := range post {
		if pre[k] == post[k] || (strings.HasSuffix(k, cacheSuffix) && pre[k] == cacheUnset) {
			continue
		}
		switch {
		case strings.HasPrefix(k, clCands+"|"), k == clOther+"|virtualpods.Cache":
			// accounted for pod by pod above
		case strings.HasPrefix(k, clBook+"|") && op.Kind == "sim":
			sawRejected = true
		case op.Kind == "prov" && (strings.HasPrefix(k, clBook+"|") || strings.HasPrefix(k, clNominations+"|")):
		default:
			explained = false
		}
	}
	if sawRejected {
		if len(rejected) == 0 {
			explained = false
		}
		for _, k := range w.podKeys {
			if preBook[k] != w.book(k) && !lo.Contains(rejected, k) {
				explained = false
			}
		}
	}
	if explained {
		switch {
		case sawInject:
			jc.KfKey = kfInject
		case sawRejected:
			jc.KfKey = kfRejected
		}
		if sawInject {
			c.Count("known-finding-shape:inject-default-spread")
		}
		if sawRejected {
			c.Count("known-finding-shape:rejected-pods-marked")
		}
	}
	for _, cl := range classes {
		c.Count("changed:" + op.Kind + ":" + cl)
	}
	if len(classes) == 0 {
		c.Count("changed:" + op.Kind + ":nothing")
	}
	key := ""
	if placed > 0 || len(results.NewNodeClaims) > 0 || len(classes) > 0 {
		key = fmt.Sprintf("%s/%s/%d/%d/%d/%s/%s", op.Kind, outcome, placed, len(results.NewNodeClaims), len(results.PodErrors), strings.Join(classes, ","), digestOf(w.j)[:8])
	}
	id := c.AddCase(term, jc, key)
	// Go-side oracle (the same predicate as Model.holds_b), so that a concrete failing input is reported even when
	// the Coq side cannot be evaluated
	ok := nWrites == 0
	for _, cl := range classes {
		if op.Kind == "sim" || (cl != clNominations && cl != clBook) {
			ok = false
		}
	}
	if !ok {
		what := fmt.Sprintf("%s changed the world: classes %v, api writes %d", lo.Ternary(op.Kind == "sim", "SimulateScheduling", "Provisioner.Schedule"), classes, nWrites)
		if len(details) > 0 {
			what += fmt.Sprintf(" (first: %s %s)", details[0].Class, details[0].What)
		}
		c.Fail(id, what, jc.KfKey, jc)
	}
}

// aliasCase observes, on this world's nodes, which fields of a DeepCopyNodes copy still reach memory
// that the cluster's own node reaches (pointer, map or slice sharing), per type and field.
func aliasCase(c *kit.Ctx, w *world) {
	type row struct{ nonEmpty, shared bool }
	rows := map[string]*row{}
	get := func(k string) *row {
		if rows[k] == nil {
			rows[k] = &row{}
		}
		return rows[k]
	}
	orig := w.origNodes()
	observe := func(typ string, cp, or reflect.Value, origAddrs map[uintptr]bool) {
		for i := 0; i < cp.NumField(); i++ {
			name := cp.Type().Field(i).Name
			r := get(typ + "." + name)
			a := map[uintptr]bool{}
			collect(access(cp.Field(i)), a)
			if len(a) > 0 {
				r.nonEmpty = true
				if shares(a, origAddrs) {
					r.shared = true
				}
			}
		}
	}
	for _, cp := range w.cluster.DeepCopyNodes() {
		o, ok := orig[cp.ProviderID()]
		if !ok {
			continue
		}
		oa := addrsOf(o)
		observe("StateNode", reflect.ValueOf(cp).Elem(), reflect.ValueOf(o).Elem(), oa)
		for _, sub := range []struct{ typ, fld string }{{"HostPortUsage", "hostPortUsage"}, {"VolumeUsage", "volumeUsage"}} {
			cf, of := field(cp, sub.fld), field(o, sub.fld)
			if cf.IsNil() || of.IsNil() {
				continue
			}
			observe(sub.typ, cf.Elem(), of.Elem(), oa)
		}
	}
	var keys []string
	for k := range rows {
		keys = append(keys, k)
	}
	sort.Strings(keys)
	var g []string
	j := map[string]string{}
	for _, k := range keys {
		parts := strings.SplitN(k, ".", 2)
		r := rows[k]
		g = append(g, fmt.Sprintf("(%s, %s, %s, %s)", kit.GStr(parts[0]), kit.GStr(parts[1]), kit.GBool(r.nonEmpty), kit.GBool(r.shared)))
		j[k] = fmt.Sprintf("nonempty=%v shared=%v", r.nonEmpty, r.shared)
		if r.nonEmpty {
			c.Count("alias:" + k + lo.Ternary(r.shared, ":shared", ":fresh"))
		}
	}
	c.AddCase("CaseAlias "+kit.GList(g), map[string]interface{}{"kind": "alias", "world": w.j, "fields": j}, "")
}

// countDims records which input dimensions this world exercises (one count per world).
func countDims(c *kit.Ctx, j jWorld) {
	dim := func(b bool, name string) {
		if b {
			c.Count("dim:" + name)
		}
	}
	dim(j.DRA, "dra-enabled")
	dim(j.Buffer > 0, "capacity-buffer")
	dim(j.MaxITs > 0, "max-instance-types-small")
	dim(j.MinValues == "BestEffort", "min-values-best-effort")
	dim(j.Prefs == "Ignore", "preferences-ignored")
	dim(j.DefaultTSC != "", "scheduler-config-default-spread-"+j.DefaultTSC)
	dim(j.ZoneAlias, "zone-value-aliases-registered")
	aliased := func(z string) bool { return strings.HasPrefix(z, "zone-alias-") }
	for _, n := range j.Nodes {
		for _, p := range n.Pods {
			dim(aliased(p.ReqZone) || aliased(p.PrefZone), "running-pod-affinity-uses-zone-alias")
		}
	}
	for _, p := range j.Pending {
		dim(aliased(p.ReqZone) || aliased(p.PrefZone), "pending-pod-affinity-uses-zone-alias")
	}
	for _, p := range j.Pools {
		dim(aliased(p.ZoneReq), "pool-requirement-uses-zone-alias")
	}
	dim(j.ZoneAlias && j.Buffer > 0, "virtual-pod-affinity-uses-zone-alias")
	dim(j.BatchMax > 0, "batch-max-duration-set")
	dim(j.CPUReq > 0, "parallel-scheduler-workers")
	noPool := true
	for _, p := range j.Pools {
		dim(p.Static, "pool-static")
		dim(p.NotReady, "pool-not-ready")
		dim(p.ITErr != "", "pool-instance-types-"+p.ITErr)
		dim(p.NoTypes, "pool-matches-no-type")
		dim(p.NodeLimit > 0, "pool-node-limit")
		dim(p.NoSched, "pool-noschedule-taint")
		dim(p.MinValues > 0, "pool-min-values")
		dim(p.Deleting, "pool-deleting")
		dim(p.ConsAfter != "", "pool-consolidate-after-"+p.ConsAfter)
		if !p.Static && !p.NotReady && !p.Deleting {
			noPool = false
		}
	}
	dim(noPool, "no-usable-pool")
	for _, it := range j.Catalog {
		dim(it.Huge, "type-hugepages")
		dim(it.HugeBig, "type-hugepages-exceed-memory")
		dim(len(it.Overrides) > 0, "type-override-offerings")
		dim(it.Reserved > 0, "type-reserved-offering")
		dim(it.Exhausted != "", "type-exhausted-reservation-flagged-"+it.Exhausted)
		dim(it.Exhausted == "available" && j.Reserved, "type-exhausted-reservation-available-with-gate-on")
	}
	pods := append([]jPod{}, j.Pending...)
	for _, n := range j.Nodes {
		dim(n.Unreg, "node-unregistered")
		dim(n.Startup, "node-startup-taints")
		dim(n.ZeroAlloc, "node-zero-cpu")
		dim(n.NoHost, "node-no-hostname-label")
		dim(n.Devices > 0, "node-dra-devices")
		dim(n.Spot, "node-spot")
		dim(n.NodeDel, "node-unmanaged-deleting")
		dim(n.Term, "node-instance-terminating")
		dim(n.CSINil, "node-csi-driver-without-allocatable")
		dim(!n.Managed, "node-unmanaged")
		dim(!n.HasNode, "node-claim-only")
		dim(n.Deleting, "node-claim-deleting")
		dim(n.Marked || n.LateMark, "node-marked")
		for _, p := range n.Pods {
			dim(p.PVC == "pvc-missing", "bound-pod-claim-deleted")
		}
		pods = append(pods, n.Pods...)
	}
	for _, p := range pods {
		dim(p.DRA == "claim", "pod-resource-claim")
		dim(p.DRA == "allocated-shared", "pod-holds-shared-device-capacity")
		dim(p.DRA == "allocated", "pod-holds-exclusive-device")
		dim(p.DRA == "missing-claim", "pod-resource-claim-missing")
		dim(p.TwoTerms, "pod-two-affinity-terms")
		dim(p.PrefZone != "", "pod-preferred-node-terms-in-ascending-weight-order") // [1, 8]: an in-place sort would reorder them
		dim(p.PrefAff, "pod-preferred-affinity")
		dim(p.HostIP != "", "pod-host-ip")
		dim(p.State != "", "pod-"+p.State)
		dim(p.Owner != "", "pod-owner-"+p.Owner)
		dim(p.Ephemeral, "pod-ephemeral-volume")
		dim(p.Extras, "pod-emptydir-and-plain-port")
		dim(p.UDP, "pod-host-port-udp")
		dim(p.Invalid != "", "pod-invalid-"+p.Invalid)
		dim(p.PVC == "pvc-bound" || p.PVC == "pvc-nosc" || p.PVC == "pvc-emptysc", "pod-"+p.PVC)
		dim(p.PVC == "pvc-intree", "pod-pvc-intree")
	}
	for _, p := range j.Pending {
		dim(p.Phase == "", "pending-pod-without-phase")
	}
	for _, d := range j.DaemonSets {
		dim(d.DRA != "", "daemonset-resource-claim")
	}
}

func main() {
	c := kit.Parse("C18", os.Args[1:])
	crlog.SetLogger(logr.Discard())
	if pf := os.Getenv("C18_PROF"); pf != "" {
		f, _ := os.Create(pf)
		_ = pprof.StartCPUProfile(f)
		defer pprof.StopCPUProfile()
	}
	if c.Tables != "" {
		if err := writeTables(c.Tables); err != nil {
			fmt.Fprintln(os.Stderr, "c18 translator:", err)
			os.Exit(1)
		}
		return
	}
	c.Meta.Rule = "non-trivial = the run placed a pod on an existing node (a write through a StateNode copy), produced a NodeClaim (instance-type slices filtered and sorted) or changed some class; distinct by op kind, outcome, counts, changed classes and world"
	c.Meta.Corr = []string{
		"state.Cluster.DeepCopyNodes aliasing per field vs gen/C18_deepcopy.v (translated from zz_generated.deepcopy.go)",
		"scheduling.ExistingNode.Add write set (fields of the StateNode copy that change) vs Model.en_add_writes",
		"scheduling.Results.Record / Cluster.NominateNodeForPod vs Model.nominate",
		"Cluster.MarkPodSchedulingDecisions as called by SimulateScheduling/GetPendingPods/Schedule vs Model.apply_marks",
		"new NodeClaims carry instance-type slices distinct from the provider's vs Model (filter allocates)",
		"InstanceType.precompute: computed allocatable groups own their maps (share nothing with Capacity/Overhead/override maps) vs Model.precompute (allocates)",
	}
	worlds := 420
	if c.Thorough() {
		worlds = 3000
	}
	start := time.Now()
	for i := 0; i < worlds; i++ {
		r := c.Rand.Fork()
		j := genWorld(r, c.Thorough())
		// a provider's value mapping is process-global (the cloud provider registers it at start-up): set per world
		delete(v1.NormalizedLabelValues, corev1.LabelTopologyZone)
		if j.ZoneAlias {
			v1.NormalizedLabelValues[corev1.LabelTopologyZone] = map[string]string{"zone-alias-1": "test-zone-1", "zone-alias-2": "test-zone-2"}
		}
		w := newWorld(j)
		scheduling.MaxInstanceTypes = 600
		if j.MaxITs > 0 {
			scheduling.MaxInstanceTypes = j.MaxITs
		}
		countDims(c, j)
		if i%4 == 0 {
			aliasCase(c, w)
		}
		for k := range j.Ops {
			runOp(c, w, k)
		}
		delete(v1.NormalizedLabelValues, corev1.LabelTopologyZone)
		c.Count(fmt.Sprintf("ops-per-world:%d", len(j.Ops)))
		c.Count(fmt.Sprintf("candidates:%d", lo.Ternary(len(w.cands) > 3, 3, len(w.cands))))
		if !c.Thorough() && time.Since(start) > 40*time.Second {
			break
		}
	}
	c.Meta.Extra = map[string]interface{}{
		"assumptions": []string{
			"sharing that the deep-copy fact table does not describe (an alias introduced elsewhere) is caught by the digest differential only, not by the heap theorem",
			"goroutine interleavings inside one Solve call are not modelled; SimulateScheduling/Schedule are modelled at method granularity",
		},
	}
	c.Finish("From KV Require Import C18.Model C18.Check.", "case", "check_all", 500)
	_ = pscheduling.Requirements{}
	_ = corev1.Pod{}
}
