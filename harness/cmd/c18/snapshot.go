package main

// The world digest: one hash per component, grouped into the observable classes the
// property names. Two snapshots are compared class by class.

import (
	"encoding/json"
	"fmt"
	"reflect"
	"sort"
	"strings"

	appsv1 "k8s.io/api/apps/v1"
	corev1 "k8s.io/api/core/v1"
	policyv1 "k8s.io/api/policy/v1"
	resourcev1 "k8s.io/api/resource/v1"
	storagev1 "k8s.io/api/storage/v1"
	"sigs.k8s.io/controller-runtime/pkg/client"

	autoscalingv1beta1 "sigs.k8s.io/karpenter/pkg/apis/autoscaling/v1beta1"
	v1 "sigs.k8s.io/karpenter/pkg/apis/v1"
	"sigs.k8s.io/karpenter/pkg/controllers/state"
)

// class names = constructors of C18.Model.class
const (
	clAPI         = "ClApi"
	clNodeObjs    = "ClNodeObjects"
	clUsage       = "ClNodeUsage"
	clPorts       = "ClHostPorts"
	clVolumes     = "ClVolumes"
	clMarks       = "ClDeletionMarks"
	clNominations = "ClNominations"
	clBook        = "ClPodBookkeeping"
	clOther       = "ClClusterOther"
	clOrder       = "ClProviderOrder"
	clITs         = "ClProviderTypes"
	clCands       = "ClCandidates"
)

var allClasses = []string{clAPI, clNodeObjs, clUsage, clPorts, clVolumes, clMarks, clNominations, clBook, clOther, clOrder, clITs, clCands}

// StateNode field -> class. A field this table does not know (added by a later change) is
// reported under ClClusterOther, so it is still compared.
var nodeFieldClass = map[string]string{
	"Node": clNodeObjs, "NodeClaim": clNodeObjs,
	"daemonSetRequests": clUsage, "daemonSetLimits": clUsage, "podRequests": clUsage, "podLimits": clUsage, "podDisruptionCosts": clUsage,
	"hostPortUsage": clPorts, "volumeUsage": clVolumes, "markedForDeletion": clMarks, "nominatedUntil": clNominations,
}

var clusterFieldClass = map[string]string{
	"podAcks": clBook, "podsSchedulingAttempted": clBook, "podsSchedulableTimes": clBook, "podHealthyNodePoolScheduledTime": clBook, "podToNodeClaim": clBook,
}

// fields of state.Cluster that are not state (collaborators, locks)
var clusterSkip = map[string]bool{"kubeClient": true, "cloudProvider": true, "clock": true, "mu": true, "clusterStateMu": true,
	"unsyncedTimeMu": true, "bufferPodCountsMu": true, "nodes": true /* handled per node */}

type snapshot map[string]string // "<class>|<component>" -> hash

func (w *world) origNodes() map[string]*state.StateNode {
	out := map[string]*state.StateNode{}
	m := field(w.cluster, "nodes")
	it := m.MapRange()
	for it.Next() {
		out[it.Key().String()] = it.Value().Interface().(*state.StateNode)
	}
	return out
}

func nodeFieldHashes(n *state.StateNode) map[string]string {
	out := map[string]string{}
	v := reflect.ValueOf(n).Elem()
	for i := 0; i < v.NumField(); i++ {
		f := v.Type().Field(i)
		wk := newWalker()
		wk.walk(access(v.Field(i)), "")
		out[f.Name] = hashStr(wk.b.String())
	}
	return out
}

func (w *world) apiObjects() map[string]string {
	out := map[string]string{}
	lists := []client.ObjectList{&corev1.NodeList{}, &v1.NodeClaimList{}, &v1.NodePoolList{}, &corev1.PodList{}, &corev1.PersistentVolumeClaimList{},
		&corev1.PersistentVolumeList{}, &storagev1.StorageClassList{}, &storagev1.CSINodeList{}, &appsv1.DaemonSetList{}, &policyv1.PodDisruptionBudgetList{},
		&storagev1.VolumeAttachmentList{}, &corev1.EventList{}, &resourcev1.ResourceClaimList{}, &resourcev1.ResourceSliceList{},
		&resourcev1.DeviceClassList{}, &autoscalingv1beta1.CapacityBufferList{}, &corev1.PodTemplateList{}}
	old := w.faultVerb.Load().(string)
	w.faultVerb.Store("")
	defer w.faultVerb.Store(old)
	for _, l := range lists {
		if err := w.c.List(w.ctx, l); err != nil {
			panic(err)
		}
		items := reflect.ValueOf(l).Elem().FieldByName("Items")
		for i := 0; i < items.Len(); i++ {
			o := items.Index(i).Addr().Interface().(client.Object)
			b, _ := json.Marshal(o)
			out[fmt.Sprintf("%T/%s/%s", o, o.GetNamespace(), o.GetName())] = hashStr(string(b))
		}
	}
	return out
}

func (w *world) snap() snapshot {
	s := snapshot{}
	for k, h := range w.apiObjects() {
		s[clAPI+"|"+k] = h
	}
	// cluster state: nodes field by field
	for pid, n := range w.origNodes() {
		for f, h := range nodeFieldHashes(n) {
			cl, ok := nodeFieldClass[f]
			if !ok {
				cl = clOther
			}
			s[cl+"|node "+pid+" ."+f] = h
		}
		// the exported accessors a consumer would look at
		s[clMarks+"|node "+pid+" MarkedForDeletion()"] = fmt.Sprint(n.MarkedForDeletion())
		s[clNominations+"|node "+pid+" IsNodeNominated"] = fmt.Sprint(w.cluster.IsNodeNominated(pid))
		s[clUsage+"|node "+pid+" PodRequests()"] = digestOf(n.PodRequests())
		s[clUsage+"|node "+pid+" DaemonSetRequests()"] = digestOf(n.DaemonSetRequests())
		s[clOther+"|node "+pid+" present"] = "1"
	}
	// every other field of state.Cluster
	cv := reflect.ValueOf(w.cluster).Elem()
	for i := 0; i < cv.NumField(); i++ {
		f := cv.Type().Field(i)
		if clusterSkip[f.Name] {
			continue
		}
		cl, ok := clusterFieldClass[f.Name]
		if !ok {
			cl = clOther
		}
		wk := newWalker()
		wk.walk(access(cv.Field(i)), "")
		s[cl+"|cluster."+f.Name] = hashStr(wk.b.String())
	}
	for _, k := range w.podKeys {
		s[clBook+"|pod "+k.String()] = fmt.Sprint(w.cluster.PodAckTime(k).UnixNano(), w.cluster.PodSchedulingDecisionTime(k).UnixNano(),
			w.cluster.PodSchedulingSuccessTime(k).UnixNano(), w.cluster.PodSchedulingSuccessTimeRegistrationHealthyCheck(k).UnixNano(), w.cluster.PodNodeClaimMapping(k))
	}
	for _, p := range w.j.Pools {
		s[clOther+"|NodePoolResourcesFor "+p.Name] = digestOf(w.cluster.NodePoolResourcesFor(p.Name))
	}
	// in-memory state of the provisioner's collaborators that simulations read: allocated devices, shared virtual pods
	s[clOther+"|deviceallocation.Controller"] = digestOf(w.dac)
	s[clOther+"|virtualpods.Cache"] = digestOf(w.vpc)
	// provider catalogue: order and content, per slice the provider hands out
	slices := map[string]interface{}{"InstanceTypes": w.cp.InstanceTypes}
	for name, its := range w.cp.InstanceTypesForNodePool {
		slices["InstanceTypesForNodePool["+name+"]"] = its
	}
	for name, sl := range slices {
		v := reflect.ValueOf(sl)
		var order []string
		for i := 0; i < v.Len(); i++ {
			it := v.Index(i)
			itName := it.Elem().FieldByName("Name").String()
			var ofs []string
			o := it.Elem().FieldByName("Offerings")
			for k := 0; k < o.Len(); k++ {
				ofs = append(ofs, fmt.Sprintf("%p", o.Index(k).Interface()))
			}
			order = append(order, itName+"<"+strings.Join(ofs, ",")+">")
			if name == "InstanceTypes" {
				wk := newWalker()
				wk.walk(it, "")
				s[clITs+"|"+itName] = hashStr(wk.b.String())
				// the provider-owned maps one by one, by content (a finer diagnosis than the whole-type hash)
				s[clITs+"|"+itName+" .Capacity"] = hashStr(renderValue(it.Elem().FieldByName("Capacity")))
				s[clITs+"|"+itName+" .Overhead"] = hashStr(renderValue(it.Elem().FieldByName("Overhead")))
				for k := 0; k < o.Len(); k++ {
					// every field of the offering: Requirements, Price, Available, ReservationCapacity, the override maps, flags
					s[fmt.Sprintf("%s|%s .Offerings[%d] (all fields)", clITs, itName, k)] = hashStr(renderValue(o.Index(k).Elem()))
					s[fmt.Sprintf("%s|%s .Offerings[%d] Available/ReservationCapacity/Price", clITs, itName, k)] = fmt.Sprint(
						o.Index(k).Elem().FieldByName("Available").Bool(), o.Index(k).Elem().FieldByName("ReservationCapacity").Int(), o.Index(k).Elem().FieldByName("Price").Float())
				}
				cache := access(it.Elem().FieldByName("allocatableOfferings"))
				if cache.Len() == 0 {
					s[clITs+"|"+itName+cacheSuffix] = cacheUnset
				} else {
					s[clITs+"|"+itName+cacheSuffix] = hashStr(renderValue(cache))
				}
			}
		}
		s[clOrder+"|"+name] = hashStr(strings.Join(order, ";"))
	}
	// candidates (shared by consecutive simulations)
	for _, c := range w.cands {
		s[clCands+"|"+c.Name()] = digestOf(c)
	}
	return s
}

const (
	cacheSuffix = " lazily computed allocatable groups"
	cacheUnset  = "unset"
)

func renderValue(v reflect.Value) string {
	wk := newWalker()
	wk.walk(access(v), "")
	return wk.b.String()
}

// cachesFresh reports whether every computed allocatable group of every instance type owns its Allocatable map,
// i.e. shares no memory with the maps the provider built (Capacity, Overhead, the offerings' override maps).
func (w *world) cachesFresh() (fresh bool, computed int) {
	fresh = true
	for _, it := range w.cp.InstanceTypes {
		owned := map[uintptr]bool{}
		collect(reflect.ValueOf(it.Capacity), owned)
		collect(reflect.ValueOf(it.Overhead), owned)
		for _, o := range it.Offerings {
			collect(reflect.ValueOf(o.CapacityOverride), owned)
			collect(reflect.ValueOf(o.OverheadOverride), owned)
		}
		cache := field(it, "allocatableOfferings")
		for k := 0; k < cache.Len(); k++ {
			computed++
			a := map[uintptr]bool{}
			collect(access(cache.Index(k).FieldByName("Allocatable")), a)
			if shares(a, owned) {
				fresh = false
			}
		}
	}
	return
}

type change struct {
	Class string `json:"class"`
	What  string `json:"what"`
}

func diff(a, b snapshot) (classes []string, details []change) {
	seen := map[string]bool{}
	keys := map[string]bool{}
	for k := range a {
		keys[k] = true
	}
	for k := range b {
		keys[k] = true
	}
	var ks []string
	for k := range keys {
		ks = append(ks, k)
	}
	sort.Strings(ks)
	for _, k := range ks {
		if strings.HasSuffix(k, cacheSuffix) && a[k] == cacheUnset {
			continue // first evaluation of a lazily computed cache
		}
		if a[k] != b[k] {
			cl := k[:strings.Index(k, "|")]
			if !seen[cl] {
				seen[cl] = true
			}
			if len(details) < 6 {
				details = append(details, change{cl, k[strings.Index(k, "|")+1:]})
			}
		}
	}
	for _, cl := range allClasses {
		if seen[cl] {
			classes = append(classes, cl)
		}
	}
	return
}
