package main

// Translator: reads the struct definitions and the generated DeepCopyInto functions of the types a
// StateNode copy is made of, and writes the deep-copy fact table coq/gen/C18_deepcopy.v.
// The sources are located through the compiled-in file name of state.NewCluster, i.e. the tree the
// harness was built against (/repo, or the scratch worktree named by VERIF_REPO).

import (
	"fmt"
	"go/ast"
	"go/parser"
	"go/token"
	"os"
	"path/filepath"
	"reflect"
	"runtime"
	"strings"

	"sigs.k8s.io/karpenter/pkg/controllers/state"
)

func repoRoot() string {
	f := runtime.FuncForPC(reflect.ValueOf(state.NewCluster).Pointer())
	file, _ := f.FileLine(f.Entry())
	// <root>/pkg/controllers/state/cluster.go
	return filepath.Clean(filepath.Join(filepath.Dir(file), "..", "..", ".."))
}

type tyReq struct {
	Name string // type name
	Dir  string // package directory relative to the repo root
}

var tableTypes = []tyReq{
	{"StateNode", "pkg/controllers/state"},
	{"HostPortUsage", "pkg/scheduling"},
	{"VolumeUsage", "pkg/scheduling"},
}

type pkgInfo struct {
	fset    *token.FileSet
	structs map[string]*ast.StructType
	kinds   map[string]string // named type -> "map" | "slice" | "ptr" | "struct" | "other"
	deep    map[string]*ast.FuncDecl
}

func loadPkg(dir string) (*pkgInfo, error) {
	p := &pkgInfo{fset: token.NewFileSet(), structs: map[string]*ast.StructType{}, kinds: map[string]string{}, deep: map[string]*ast.FuncDecl{}}
	pkgs, err := parser.ParseDir(p.fset, dir, func(fi os.FileInfo) bool {
		return !strings.HasSuffix(fi.Name(), "_test.go") && !strings.HasPrefix(fi.Name(), "verif_export")
	}, parser.ParseComments)
	if err != nil {
		return nil, err
	}
	for _, pk := range pkgs {
		for _, f := range pk.Files {
			for _, d := range f.Decls {
				switch d := d.(type) {
				case *ast.GenDecl:
					for _, s := range d.Specs {
						ts, ok := s.(*ast.TypeSpec)
						if !ok {
							continue
						}
						switch t := ts.Type.(type) {
						case *ast.StructType:
							p.structs[ts.Name.Name] = t
							p.kinds[ts.Name.Name] = "struct"
						case *ast.MapType:
							p.kinds[ts.Name.Name] = "map"
						case *ast.ArrayType:
							p.kinds[ts.Name.Name] = "slice"
						case *ast.StarExpr:
							p.kinds[ts.Name.Name] = "ptr"
						default:
							p.kinds[ts.Name.Name] = "other"
						}
					}
				case *ast.FuncDecl:
					if d.Name.Name == "DeepCopyInto" && d.Recv != nil && len(d.Recv.List) == 1 {
						if st, ok := d.Recv.List[0].Type.(*ast.StarExpr); ok {
							if id, ok := st.X.(*ast.Ident); ok {
								p.deep[id.Name] = d
							}
						}
					}
				}
			}
		}
	}
	return p, nil
}

func (p *pkgInfo) kindOf(e ast.Expr) (kind string, pointee string) {
	switch t := e.(type) {
	case *ast.StarExpr:
		switch x := t.X.(type) {
		case *ast.Ident:
			return "ptr", x.Name
		case *ast.SelectorExpr:
			return "ptr", x.Sel.Name
		}
		return "ptr", "?"
	case *ast.MapType:
		return "map", ""
	case *ast.ArrayType:
		if t.Len == nil {
			return "slice", ""
		}
		return "value", ""
	case *ast.Ident:
		if k, ok := p.kinds[t.Name]; ok && (k == "map" || k == "slice" || k == "ptr") {
			return k, ""
		}
		return "value", ""
	}
	return "value", ""
}

// selField recognises `in.F` and returns F.
func selField(e ast.Expr) (string, bool) {
	s, ok := e.(*ast.SelectorExpr)
	if !ok {
		return "", false
	}
	id, ok := s.X.(*ast.Ident)
	if !ok || id.Name != "in" {
		return "", false
	}
	return s.Sel.Name, true
}

// allocates reports whether the block assigns *out from new(...) or make(...) at its top level.
func allocates(b *ast.BlockStmt) bool {
	for _, st := range b.List {
		as, ok := st.(*ast.AssignStmt)
		if !ok || len(as.Lhs) != 1 || len(as.Rhs) != 1 {
			continue
		}
		if star, ok := as.Lhs[0].(*ast.StarExpr); !ok {
			continue
		} else if id, ok := star.X.(*ast.Ident); !ok || id.Name != "out" {
			continue
		}
		if call, ok := as.Rhs[0].(*ast.CallExpr); ok {
			if id, ok := call.Fun.(*ast.Ident); ok && (id.Name == "new" || id.Name == "make") {
				return true
			}
		}
	}
	return false
}

type fieldFact struct{ Name, Fact string }

func factsFor(p *pkgInfo, ty string) ([]fieldFact, error) {
	st, ok := p.structs[ty]
	if !ok {
		return nil, fmt.Errorf("struct %s not found", ty)
	}
	fn, ok := p.deep[ty]
	if !ok {
		return nil, fmt.Errorf("DeepCopyInto for %s not found", ty)
	}
	wholesale := false             // *out = *in
	deepBlock := map[string]bool{} // if in.F != nil { *out = new/make ... }
	deepCall := map[string]bool{}  // in.F.DeepCopyInto(&out.F)
	assigned := map[string]bool{}  // out.F = ...
	for _, s := range fn.Body.List {
		switch s := s.(type) {
		case *ast.AssignStmt:
			if len(s.Lhs) == 1 && len(s.Rhs) == 1 {
				if l, ok := s.Lhs[0].(*ast.StarExpr); ok {
					if r, ok := s.Rhs[0].(*ast.StarExpr); ok {
						if li, ok := l.X.(*ast.Ident); ok && li.Name == "out" {
							if ri, ok := r.X.(*ast.Ident); ok && ri.Name == "in" {
								wholesale = true
							}
						}
					}
				}
				if l, ok := s.Lhs[0].(*ast.SelectorExpr); ok {
					if li, ok := l.X.(*ast.Ident); ok && li.Name == "out" {
						assigned[l.Sel.Name] = true
					}
				}
			}
		case *ast.IfStmt:
			be, ok := s.Cond.(*ast.BinaryExpr)
			if !ok || be.Op != token.NEQ {
				continue
			}
			f, ok := selField(be.X)
			if !ok {
				continue
			}
			if allocates(s.Body) {
				deepBlock[f] = true
			}
		case *ast.ExprStmt:
			call, ok := s.X.(*ast.CallExpr)
			if !ok {
				continue
			}
			sel, ok := call.Fun.(*ast.SelectorExpr)
			if !ok || sel.Sel.Name != "DeepCopyInto" {
				continue
			}
			if f, ok := selField(sel.X); ok {
				deepCall[f] = true
			}
		}
	}
	var out []fieldFact
	for _, fl := range st.Fields.List {
		kind, pointee := p.kindOf(fl.Type)
		names := fl.Names
		if len(names) == 0 { // embedded
			names = []*ast.Ident{{Name: pointee}}
		}
		for _, n := range names {
			var fact string
			switch {
			case kind == "value" && deepCall[n.Name]:
				fact = "FValueDeep"
			case kind == "value" && (wholesale || assigned[n.Name]):
				fact = "FValue"
			case kind == "value":
				fact = "FOmitted"
			case deepBlock[n.Name] && kind == "ptr":
				fact = fmt.Sprintf("(FDeepObj %q)", pointee)
			case deepBlock[n.Name]:
				fact = "FDeepLeaf"
			case wholesale || assigned[n.Name]:
				fact = "FShallow"
			default:
				fact = "FOmitted"
			}
			out = append(out, fieldFact{n.Name, fact})
		}
	}
	return out, nil
}

func writeTables(dir string) error {
	root := repoRoot()
	pkgs := map[string]*pkgInfo{}
	var b strings.Builder
	b.WriteString("(* GENERATED by `vh-c18 --tables` from zz_generated.deepcopy.go and the struct definitions; do not edit.\n")
	b.WriteString("   One row per field of every type a StateNode copy is made of: how DeepCopyInto treats it. *)\n")
	b.WriteString("From Coq Require Import String List.\nFrom KV Require Import C18.Model.\nImport ListNotations.\nOpen Scope string_scope.\n\n")
	b.WriteString("Definition table : ttable := [\n")
	for i, t := range tableTypes {
		p, ok := pkgs[t.Dir]
		if !ok {
			var err error
			p, err = loadPkg(filepath.Join(root, t.Dir))
			if err != nil {
				return err
			}
			pkgs[t.Dir] = p
		}
		facts, err := factsFor(p, t.Name)
		if err != nil {
			return err
		}
		fmt.Fprintf(&b, "  (%q, [\n", t.Name)
		for k, f := range facts {
			sep := ";"
			if k == len(facts)-1 {
				sep = ""
			}
			fmt.Fprintf(&b, "     (%q, %s)%s\n", f.Name, f.Fact, sep)
		}
		sep := ";"
		if i == len(tableTypes)-1 {
			sep = ""
		}
		fmt.Fprintf(&b, "  ])%s\n", sep)
	}
	b.WriteString("].\n")
	path := filepath.Join(dir, "C18_deepcopy.v")
	if old, err := os.ReadFile(path); err == nil && string(old) == b.String() {
		return nil
	}
	if err := os.MkdirAll(dir, 0o755); err != nil {
		return err
	}
	return os.WriteFile(path, []byte(b.String()), 0o644)
}
