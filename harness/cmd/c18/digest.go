package main

// A structural digest of arbitrary Go values, including unexported fields, and a
// reachable-address collector used to observe pointer sharing (aliasing) at runtime.
// Nothing here needs a hook in /repo: unexported fields are read through unsafe.

import (
	"crypto/sha1"
	"encoding/hex"
	"fmt"
	"math"
	"reflect"
	"sort"
	"strings"
	"sync"
	"sync/atomic"
	"time"
	"unsafe"

	"k8s.io/apimachinery/pkg/api/resource"
	metav1 "k8s.io/apimachinery/pkg/apis/meta/v1"

	"sigs.k8s.io/karpenter/pkg/cloudprovider"
)

var (
	tQuantity = reflect.TypeOf(resource.Quantity{})
	tTime     = reflect.TypeOf(time.Time{})
	tMetaTime = reflect.TypeOf(metav1.Time{})
	tSyncMap  = reflect.TypeOf(sync.Map{})
	tLocation = reflect.TypeOf(time.Location{})
	tInstType = reflect.TypeOf(cloudprovider.InstanceType{})
	skipTypes = map[reflect.Type]bool{
		reflect.TypeOf(sync.Mutex{}):   true,
		reflect.TypeOf(sync.RWMutex{}): true,
		reflect.TypeOf(sync.Once{}):    true,
		reflect.TypeOf(atomic.Bool{}):  true, // read separately where it matters
	}
)

// access makes a value obtained through an unexported field readable.
func access(v reflect.Value) reflect.Value {
	if v.CanInterface() {
		return v
	}
	if v.CanAddr() {
		return reflect.NewAt(v.Type(), unsafe.Pointer(v.UnsafeAddr())).Elem()
	}
	// not addressable: copy into an addressable temporary
	tmp := reflect.New(v.Type()).Elem()
	// reflect.Value.Set refuses values obtained via unexported fields; go through unsafe
	// by re-reading from the parent is impossible here, so fall back to kind-wise reads.
	switch v.Kind() {
	case reflect.Bool:
		tmp.SetBool(v.Bool())
	case reflect.Int, reflect.Int8, reflect.Int16, reflect.Int32, reflect.Int64:
		tmp.SetInt(v.Int())
	case reflect.Uint, reflect.Uint8, reflect.Uint16, reflect.Uint32, reflect.Uint64, reflect.Uintptr:
		tmp.SetUint(v.Uint())
	case reflect.Float32, reflect.Float64:
		tmp.SetFloat(v.Float())
	case reflect.String:
		tmp.SetString(v.String())
	default:
		return v
	}
	return tmp
}

// addressable copies a readable but non-addressable struct (a map value, an interface
// payload) into a temporary so that its unexported fields can be reached.
func addressable(v reflect.Value) reflect.Value {
	if v.CanAddr() || !v.CanInterface() {
		return v
	}
	tmp := reflect.New(v.Type()).Elem()
	tmp.Set(v)
	return tmp
}

type walker struct {
	b       strings.Builder
	visited map[uintptr]int
	skip    func(path string, f reflect.StructField) bool
}

func newWalker() *walker { return &walker{visited: map[uintptr]int{}} }

// digestOf returns a canonical textual rendering of v (maps sorted, nil == empty for
// maps and slices, memo fields skipped) hashed to 12 hex digits.
func digestOf(x interface{}) string { return hashStr(renderOf(x)) }

func renderOf(x interface{}) string {
	w := newWalker()
	w.walk(reflect.ValueOf(x), "")
	return w.b.String()
}

func hashStr(s string) string {
	h := sha1.Sum([]byte(s))
	return hex.EncodeToString(h[:6])
}

func (w *walker) walk(v reflect.Value, path string) {
	if !v.IsValid() {
		w.b.WriteString("nil")
		return
	}
	t := v.Type()
	if skipTypes[t] {
		return
	}
	switch t {
	case tQuantity:
		q := access(v).Interface().(resource.Quantity)
		out, exp := q.AsCanonicalBytes(make([]byte, 0, 32))
		fmt.Fprintf(&w.b, "q(%se%d)", out, exp)
		return
	case tTime:
		tm := access(v).Interface().(time.Time)
		fmt.Fprintf(&w.b, "t(%d)", tm.UnixNano())
		return
	case tMetaTime:
		tm := access(v).Interface().(metav1.Time)
		fmt.Fprintf(&w.b, "t(%d)", tm.UnixNano())
		return
	case tSyncMap:
		if !v.CanAddr() {
			w.b.WriteString("syncmap?")
			return
		}
		m := (*sync.Map)(unsafe.Pointer(v.UnsafeAddr()))
		var items []string
		m.Range(func(k, val any) bool {
			items = append(items, renderOf(k)+"=>"+renderOf(val))
			return true
		})
		sort.Strings(items)
		w.b.WriteString("sm{" + strings.Join(items, ",") + "}")
		return
	}
	switch v.Kind() {
	case reflect.Bool:
		fmt.Fprintf(&w.b, "%v", v.Bool())
	case reflect.Int, reflect.Int8, reflect.Int16, reflect.Int32, reflect.Int64:
		fmt.Fprintf(&w.b, "%d", v.Int())
	case reflect.Uint, reflect.Uint8, reflect.Uint16, reflect.Uint32, reflect.Uint64, reflect.Uintptr:
		fmt.Fprintf(&w.b, "%d", v.Uint())
	case reflect.Float32, reflect.Float64:
		fmt.Fprintf(&w.b, "f%x", math.Float64bits(v.Float()))
	case reflect.Complex64, reflect.Complex128:
		fmt.Fprintf(&w.b, "%v", v.Complex())
	case reflect.String:
		fmt.Fprintf(&w.b, "%q", v.String())
	case reflect.Ptr:
		if v.IsNil() {
			w.b.WriteString("nil")
			return
		}
		if v.Type().Elem() == tLocation {
			w.b.WriteString("loc")
			return
		}
		p := v.Pointer()
		if id, ok := w.visited[p]; ok {
			fmt.Fprintf(&w.b, "^%d", id)
			return
		}
		// only ancestors are remembered (cycle detection): a pointer met twice in sibling positions is rendered twice,
		// so the rendering does not depend on map iteration order
		w.visited[p] = len(w.visited)
		w.b.WriteString("&")
		w.walk(v.Elem(), path)
		delete(w.visited, p)
	case reflect.Interface:
		if v.IsNil() {
			w.b.WriteString("nil")
			return
		}
		e := v.Elem()
		w.b.WriteString("i(" + e.Type().String() + ")")
		w.walk(e, path)
	case reflect.Struct:
		v = addressable(v)
		w.b.WriteString("{")
		for i := 0; i < t.NumField(); i++ {
			f := t.Field(i)
			if skipTypes[f.Type] {
				continue
			}
			if w.skip != nil && w.skip(path, f) {
				continue
			}
			if f.Type.Kind() == reflect.Interface && strings.HasPrefix(f.Type.String(), "client.") {
				continue // a collaborator (the API client), not state
			}
			if t == tInstType && f.Name == "allocatableOfferings" {
				continue // lazily computed cache: digested on its own (snapshot.go), "unset -> set" is not a change
			}
			w.b.WriteString(f.Name + ":")
			w.walk(access(v.Field(i)), path+"."+f.Name)
			w.b.WriteString(";")
		}
		w.b.WriteString("}")
	case reflect.Map:
		if v.Len() == 0 {
			w.b.WriteString("m{}")
			return
		}
		var items []string
		it := v.MapRange()
		for it.Next() {
			kw := &walker{visited: w.visited, skip: w.skip}
			kw.walk(access(it.Key()), path+"[k]")
			vw := &walker{visited: w.visited, skip: w.skip}
			vw.walk(access(it.Value()), path+"[v]")
			items = append(items, kw.b.String()+"=>"+vw.b.String())
		}
		sort.Strings(items)
		w.b.WriteString("m{" + strings.Join(items, ",") + "}")
	case reflect.Slice, reflect.Array:
		if v.Kind() == reflect.Slice && v.Len() == 0 {
			w.b.WriteString("[]")
			return
		}
		if t.Elem().Kind() == reflect.Uint8 {
			bs := make([]byte, v.Len())
			for i := range bs {
				bs[i] = byte(v.Index(i).Uint())
			}
			fmt.Fprintf(&w.b, "b%x", bs)
			return
		}
		w.b.WriteString("[")
		for i := 0; i < v.Len(); i++ {
			w.walk(access(v.Index(i)), path+"[]")
			w.b.WriteString(",")
		}
		w.b.WriteString("]")
	case reflect.Func, reflect.Chan, reflect.UnsafePointer:
		w.b.WriteString("-")
	default:
		w.b.WriteString("?")
	}
}

// ------------------------------------------------------------------ reachable mutable addresses

// addrsOf collects the addresses of every heap object that could be written through when
// starting from x: pointer targets, map headers and slice backing arrays. Strings and
// *time.Location are immutable and are not counted.
func addrsOf(x interface{}) map[uintptr]bool {
	out := map[uintptr]bool{}
	collect(reflect.ValueOf(x), out)
	return out
}

func collect(v reflect.Value, out map[uintptr]bool) {
	if !v.IsValid() {
		return
	}
	if skipTypes[v.Type()] || v.Type() == tSyncMap {
		return
	}
	switch v.Kind() {
	case reflect.Ptr:
		if v.IsNil() || v.Type().Elem() == tLocation {
			return
		}
		p := v.Pointer()
		if out[p] {
			return
		}
		out[p] = true
		collect(v.Elem(), out)
	case reflect.Interface:
		if !v.IsNil() {
			collect(v.Elem(), out)
		}
	case reflect.Struct:
		v = addressable(v)
		for i := 0; i < v.NumField(); i++ {
			collect(access(v.Field(i)), out)
		}
	case reflect.Map:
		if v.IsNil() {
			return
		}
		p := v.Pointer()
		if out[p] {
			return
		}
		out[p] = true
		it := v.MapRange()
		for it.Next() {
			collect(access(it.Key()), out)
			collect(access(it.Value()), out)
		}
	case reflect.Slice:
		if v.IsNil() || v.Cap() == 0 {
			return
		}
		p := v.Pointer()
		if !out[p] {
			out[p] = true
		}
		for i := 0; i < v.Len(); i++ {
			collect(access(v.Index(i)), out)
		}
	case reflect.Array:
		for i := 0; i < v.Len(); i++ {
			collect(access(v.Index(i)), out)
		}
	}
}

func shares(a, b map[uintptr]bool) bool {
	for p := range a {
		if b[p] {
			return true
		}
	}
	return false
}

// field returns the (readable) field `name` of the struct pointed to by ptr.
func field(ptr interface{}, name string) reflect.Value {
	v := reflect.ValueOf(ptr)
	for v.Kind() == reflect.Ptr || v.Kind() == reflect.Interface {
		v = v.Elem()
	}
	f := v.FieldByName(name)
	if !f.IsValid() {
		panic("c18: no field " + name + " in " + v.Type().String())
	}
	return access(f)
}
