package main

// Generated clusters for C18: the real state.Cluster, Provisioner and fake cloud provider over
// controller-runtime's fake client, filled the way the informer controllers fill them.

import (
	"context"
	"fmt"
	"sort"
	"sync/atomic"
	"time"

	"github.com/awslabs/operatorpkg/status"
	"github.com/samber/lo"
	appsv1 "k8s.io/api/apps/v1"
	corev1 "k8s.io/api/core/v1"
	resourcev1 "k8s.io/api/resource/v1"
	storagev1 "k8s.io/api/storage/v1"
	"k8s.io/apimachinery/pkg/api/resource"
	metav1 "k8s.io/apimachinery/pkg/apis/meta/v1"
	"k8s.io/apimachinery/pkg/types"
	"k8s.io/apimachinery/pkg/util/intstr"
	clock "k8s.io/utils/clock/testing"
	"sigs.k8s.io/controller-runtime/pkg/client"
	"sigs.k8s.io/controller-runtime/pkg/client/interceptor"

	v1 "sigs.k8s.io/karpenter/pkg/apis/v1"
	"sigs.k8s.io/karpenter/pkg/cloudprovider"
	"sigs.k8s.io/karpenter/pkg/cloudprovider/fake"
	"sigs.k8s.io/karpenter/pkg/controllers/disruption"
	"sigs.k8s.io/karpenter/pkg/controllers/dynamicresources/deviceallocation"
	"sigs.k8s.io/karpenter/pkg/controllers/provisioning"
	"sigs.k8s.io/karpenter/pkg/controllers/state"
	"sigs.k8s.io/karpenter/pkg/operator/options"
	"sigs.k8s.io/karpenter/pkg/scheduling"
	"sigs.k8s.io/karpenter/pkg/state/virtualpods"
	"sigs.k8s.io/karpenter/pkg/test"

	"verifharness/kit"
)

// ---------------------------------------------------------------- description (JSON, replayable)

type jPool struct {
	Name      string `json:"name"`
	Weight    int    `json:"weight,omitempty"`
	CPULimit  int    `json:"cpu_limit,omitempty"` // 0 = fixture default (2000)
	PreferNo  bool   `json:"prefer_no_schedule_taint,omitempty"`
	MinValues int    `json:"min_values_instance_type,omitempty"`
	Healthy   bool   `json:"registration_healthy,omitempty"`
	OwnSlice  bool   `json:"own_instance_type_slice,omitempty"`
	NotReady  bool   `json:"not_ready,omitempty"`
	Static    bool   `json:"static_replicas,omitempty"`
	ITErr     string `json:"instance_types_error,omitempty"` // generic | unevaluated | deadline | empty
	NoTypes   bool   `json:"requirements_match_no_type,omitempty"`
	NodeLimit int    `json:"node_limit,omitempty"` // limits.nodes = NodeLimit-1 (0 = unset)
	NoSched   bool   `json:"no_schedule_taint,omitempty"`
	Deleting  bool   `json:"deleting,omitempty"`
	ConsAfter string `json:"consolidate_after,omitempty"` // "" = 30s | 0s | Never
	ZoneReq   string `json:"zone_requirement,omitempty"`  // spec.template.spec.requirements: zone In [value]
}

type jIT struct {
	Name     string   `json:"name"`
	CPU      int      `json:"cpu"`
	Price    int      `json:"price_2e-4"` // price in units of 1/16
	Zones    []string `json:"zones"`
	Reserved int      `json:"reserved_capacity,omitempty"`
	// a second reserved offering whose reservation is used up: ReservationCapacity 0, flagged available or not
	Exhausted string `json:"exhausted_reservation,omitempty"` // "" | available | unavailable
	Unavail   bool   `json:"one_offering_unavailable,omitempty"`
	Huge      bool   `json:"hugepages,omitempty"`
	HugeBig   bool   `json:"hugepages_exceed_memory,omitempty"`
	// offerings that override the type's capacity and/or overhead (computeAllocatable groups)
	Overrides []jOverride `json:"override_offerings,omitempty"`
}

type jOverride struct {
	Zone        string `json:"zone"`
	Available   bool   `json:"available"`
	CPU         int    `json:"capacity_cpu,omitempty"`
	MemMi       int    `json:"capacity_memory_mi,omitempty"`
	Ext         int    `json:"capacity_extended_widgets,omitempty"`
	OverheadCPU int    `json:"overhead_kube_reserved_cpu_m,omitempty"`
	OverheadMem int    `json:"overhead_system_reserved_memory_mi,omitempty"`
}

type jPod struct {
	Name      string `json:"name"`
	CPUm      int    `json:"cpu_m"`
	HostPort  int    `json:"host_port,omitempty"`
	PVC       string `json:"pvc,omitempty"`
	Anti      bool   `json:"required_anti_affinity,omitempty"`
	PrefZone  string `json:"preferred_zone,omitempty"`
	ReqZone   string `json:"required_zone,omitempty"`
	Spread    string `json:"topology_spread,omitempty"` // "" | DoNotSchedule | ScheduleAnyway
	PrefAnti  bool   `json:"preferred_anti_affinity,omitempty"`
	Invalid   string `json:"invalid,omitempty"` // "" | missing-pvc | restricted-label
	Daemon    bool   `json:"daemonset_owned,omitempty"`
	NoDisrupt bool   `json:"do_not_disrupt,omitempty"`
	Tolerate  bool   `json:"tolerates_all,omitempty"`
	Acked     bool   `json:"acked,omitempty"`
	DRA       string `json:"resource_claim,omitempty"` // "" | claim | missing-claim
	TwoTerms  bool   `json:"two_required_node_affinity_terms,omitempty"`
	PrefAff   bool   `json:"preferred_pod_affinity,omitempty"`
	HostIP    string `json:"host_ip,omitempty"`
	UDP       bool   `json:"host_port_udp,omitempty"`
	Phase     string `json:"phase,omitempty"`
	State     string `json:"state,omitempty"` // bound pods: "" running | succeeded | terminating ; pending pods: "" | preempting
	Owner     string `json:"owner,omitempty"` // "" replicaset | none | node (mirror pod)
	Ephemeral bool   `json:"ephemeral_volume,omitempty"`
	Extras    bool   `json:"emptydir_and_plain_container_port,omitempty"`
}

type jNode struct {
	Name      string `json:"name"`
	Pool      int    `json:"pool"`
	IT        int    `json:"instance_type"`
	Zone      string `json:"zone"`
	Managed   bool   `json:"managed"`
	HasNode   bool   `json:"has_node"`
	Init      bool   `json:"initialized"`
	Marked    bool   `json:"marked_for_deletion,omitempty"`
	Deleting  bool   `json:"nodeclaim_deleting,omitempty"`
	Nominated bool   `json:"nominated,omitempty"`
	Tainted   bool   `json:"tainted,omitempty"`
	CSILimit  int    `json:"csi_limit,omitempty"`
	LateMark  bool   `json:"marked_after_candidates,omitempty"`
	Unreg     bool   `json:"not_registered,omitempty"`
	Startup   bool   `json:"startup_and_ephemeral_taints,omitempty"`
	ZeroAlloc bool   `json:"node_reports_zero_cpu,omitempty"`
	NoHost    bool   `json:"no_hostname_label,omitempty"`
	Devices   int    `json:"dra_devices,omitempty"`
	Spot      bool   `json:"spot,omitempty"`
	NodeDel   bool   `json:"node_deleting,omitempty"`        // unmanaged node with a deletion timestamp
	Term      bool   `json:"instance_terminating,omitempty"` // NodeClaim condition InstanceTerminating=True
	CSINil    bool   `json:"csi_driver_without_allocatable,omitempty"`
	Pods      []jPod `json:"pods,omitempty"`
}

type jOp struct {
	Kind      string `json:"kind"` // sim | prov
	Cands     []int  `json:"candidates,omitempty"`
	Consol    bool   `json:"consolidation_simulation,omitempty"`
	Ctx       string `json:"ctx"` // normal | cancelled | countdown
	Countdown int    `json:"countdown,omitempty"`
	Fault     string `json:"fault,omitempty"` // "" | list-pods | list-pdbs | list-nodepools
	Advance   int    `json:"advance_clock_s,omitempty"`
}

type jWorld struct {
	KfKey      string  `json:"kf_key,omitempty"`
	MinValues  string  `json:"min_values_policy"`
	Prefs      string  `json:"preference_policy"`
	Reserved   bool    `json:"reserved_capacity_gate"`
	Pools      []jPool `json:"pools"`
	Catalog    []jIT   `json:"catalog"`
	Nodes      []jNode `json:"nodes"`
	Pending    []jPod  `json:"pending"`
	DaemonSets []jPod  `json:"daemonsets,omitempty"`
	PDB        bool    `json:"blocking_pdb,omitempty"`
	DRA        bool    `json:"dra_enabled,omitempty"`                     // IgnoreDRARequests=false
	MaxITs     int     `json:"max_instance_types,omitempty"`              // scheduling.MaxInstanceTypes for this world (0 = default 600)
	Buffer     int     `json:"capacity_buffer_replicas,omitempty"`        // CapacityBuffer feature gate + one ready buffer
	ZoneAlias  bool    `json:"zone_value_aliases_registered,omitempty"`   // v1.NormalizedLabelValues[zone] = {zone-alias-k: test-zone-k}; pods / pools / buffer use the aliases
	BatchMax   int     `json:"batch_max_duration_s,omitempty"`            // 0 = default; sets the nomination window max(2*d, 10s)
	CPUReq     int     `json:"cpu_requests_m,omitempty"`                  // 0 = default; number of scheduler workers of a provisioning pass
	DefaultTSC string  `json:"scheduler_config_default_spread,omitempty"` // "" | ScheduleAnyway | DoNotSchedule (+ a Service selecting the pods)
	Ops        []jOp   `json:"ops"`
}

// ---------------------------------------------------------------- generator

var zones = []string{"test-zone-1", "test-zone-2", "test-zone-3"}

func genPod(r *kit.Rand, name string, bound bool) jPod {
	p := jPod{Name: name, CPUm: kit.Pick(r, []int{100, 250, 500, 900, 1000, 1900, 3900})}
	if r.Chance(1, 3) {
		p.HostPort = kit.Pick(r, []int{8080, 8080, 8081, 9090})
	}
	if r.Chance(1, 3) {
		p.PVC = kit.Pick(r, []string{"pvc-a", "pvc-a", "pvc-b", "pvc-b", "pvc-c", "pvc-bound", "pvc-nosc", "pvc-emptysc", "pvc-intree"})
	}
	p.Extras = r.Chance(1, 6)
	if p.HostPort != 0 && r.Chance(1, 3) {
		p.HostIP = kit.Pick(r, []string{"10.0.0.1", "10.0.0.2"})
	}
	if p.HostPort != 0 && r.Chance(1, 4) {
		p.UDP = true
	}
	if r.Chance(1, 10) {
		p.DRA = kit.Pick(r, []string{"claim", "claim", "missing-claim"})
	}
	if bound && r.Chance(1, 5) {
		p.DRA = kit.Pick(r, []string{"allocated-shared", "allocated-shared", "allocated"}) // devices already held by a running pod
	}
	if r.Chance(1, 5) {
		p.Anti = true
	}
	if r.Chance(1, 6) {
		p.Tolerate = true
	}
	if bound {
		if r.Chance(1, 8) {
			p.Daemon = true
		}
		if r.Chance(1, 10) {
			p.NoDisrupt = true
		}
		// preferences on running pods: a candidate's pods are re-scheduled (and relaxed) by every simulation
		if r.Chance(1, 3) {
			p.PrefZone = kit.Pick(r, append([]string{"no-such-zone"}, zones...))
		}
		if r.Chance(1, 5) {
			p.Spread = "ScheduleAnyway"
		}
		if r.Chance(1, 6) {
			p.PrefAnti = true
		}
		if r.Chance(1, 8) {
			p.PrefAff = true
		}
		if r.Chance(1, 8) {
			p.TwoTerms = true
		}
		if r.Chance(1, 12) {
			p.PVC = "pvc-missing" // a running pod whose claim was deleted
		}
		if r.Chance(1, 8) {
			p.State = kit.Pick(r, []string{"succeeded", "terminating"})
		}
		if r.Chance(1, 10) {
			p.Owner = kit.Pick(r, []string{"none", "node"})
		}
		p.Ephemeral = r.Chance(1, 12)
		return p
	}
	if r.Chance(1, 8) {
		p.PrefAff = true
	}
	if r.Chance(1, 8) {
		p.TwoTerms = true
	}
	if r.Chance(1, 12) {
		p.State = "preempting"
	}
	p.Ephemeral = r.Chance(1, 12)
	p.Phase = "Pending"
	if r.Chance(1, 8) {
		p.Phase = "" // a pod whose status.phase was not written yet
	}
	if r.Chance(1, 3) {
		p.PrefZone = kit.Pick(r, append([]string{"no-such-zone"}, zones...))
	}
	if r.Chance(1, 6) {
		p.ReqZone = kit.Pick(r, zones)
	}
	if r.Chance(1, 4) {
		p.Spread = kit.Pick(r, []string{"DoNotSchedule", "ScheduleAnyway"})
	}
	if r.Chance(1, 5) {
		p.PrefAnti = true
	}
	if r.Chance(1, 7) {
		p.Invalid = kit.Pick(r, []string{"missing-pvc", "restricted-label", "no-karpenter", "match-fields"})
	}
	p.Acked = r.Chance(2, 3)
	return p
}

func genWorld(r *kit.Rand, thorough bool) jWorld {
	w := jWorld{MinValues: "Strict", Prefs: "Respect", Reserved: r.Chance(2, 3)}
	if r.Chance(1, 4) {
		w.MinValues = "BestEffort"
	}
	if r.Chance(1, 5) {
		w.Prefs = "Ignore"
	}
	nPools := r.Range(1, 3)
	for i := 0; i < nPools; i++ {
		p := jPool{Name: fmt.Sprintf("pool-%c", 'a'+i), Weight: r.Intn(3) * 10, Healthy: r.Bool(), OwnSlice: r.Chance(1, 3)}
		if r.Chance(1, 3) {
			p.CPULimit = kit.Pick(r, []int{4, 8, 16, 33})
		}
		p.PreferNo = r.Chance(1, 6)
		if r.Chance(1, 4) {
			p.MinValues = r.Range(1, 4)
		}
		p.NotReady = (i > 0 && r.Chance(1, 10)) || r.Chance(1, 25)
		p.Static = r.Chance(1, 12)
		if r.Chance(1, 8) {
			p.ITErr = kit.Pick(r, []string{"generic", "unevaluated", "deadline", "empty"})
		}
		p.NoTypes = r.Chance(1, 12)
		if r.Chance(1, 8) {
			p.NodeLimit = 1 + r.Range(0, 3)
		}
		p.NoSched = r.Chance(1, 8)
		p.Deleting = i > 0 && r.Chance(1, 12)
		if r.Chance(1, 3) {
			p.ConsAfter = kit.Pick(r, []string{"0s", "Never"})
		}
		w.Pools = append(w.Pools, p)
	}
	nIT := r.Range(3, lo.Ternary(thorough, 9, 6))
	for i := 0; i < nIT; i++ {
		cpu := kit.Pick(r, []int{1, 2, 4, 8, 16})
		it := jIT{Name: fmt.Sprintf("it-%d-c%d", i, cpu), CPU: cpu, Price: cpu*16 + r.Range(-7, 7)}
		if r.Chance(1, 2) {
			// decreasing price with position: an in-place sort of the provider's slice would be visible
			it.Price = (nIT-i)*40 + r.Intn(5)
		}
		for _, z := range zones {
			if r.Chance(3, 4) {
				it.Zones = append(it.Zones, z)
			}
		}
		if len(it.Zones) == 0 {
			it.Zones = []string{kit.Pick(r, zones)}
		}
		if r.Chance(1, 4) {
			it.Reserved = r.Range(1, 2)
		}
		if r.Chance(1, 4) {
			it.Exhausted = kit.Pick(r, []string{"available", "available", "unavailable"})
		}
		it.Unavail = r.Chance(1, 6)
		it.Huge = r.Chance(1, 8)
		it.HugeBig = it.Huge && r.Chance(1, 3)
		if r.Chance(2, 5) {
			for k := r.Range(1, 2); k > 0; k-- {
				o := jOverride{Zone: fmt.Sprintf("test-zone-%d", 3+k), Available: r.Chance(3, 4)}
				switch r.Intn(5) {
				case 0:
					o.CPU = cpu * r.Range(1, 3) // equal to the base value at x1: an override that changes nothing
				case 1:
					o.MemMi = cpu*2048 + kit.Pick(r, []int{-512, 0, 1024})
				case 2:
					o.Ext = r.Range(1, 4)
				case 3:
					o.CPU, o.Ext = cpu+1, r.Range(1, 2)
				}
				if r.Chance(1, 2) || (o.CPU == 0 && o.MemMi == 0 && o.Ext == 0) {
					if r.Bool() {
						o.OverheadCPU = kit.Pick(r, []int{50, 100, 250})
					} else {
						o.OverheadMem = kit.Pick(r, []int{10, 64})
					}
				}
				it.Overrides = append(it.Overrides, o)
			}
		}
		w.Catalog = append(w.Catalog, it)
	}
	nNodes := r.Range(1, lo.Ternary(thorough, 7, 5))
	podN := 0
	for i := 0; i < nNodes; i++ {
		n := jNode{Name: fmt.Sprintf("node-%d", i), Pool: r.Intn(nPools), IT: r.Intn(nIT), Managed: r.Chance(5, 6), HasNode: true, Init: r.Chance(5, 6)}
		n.Zone = kit.Pick(r, w.Catalog[n.IT].Zones)
		if n.Managed && r.Chance(1, 10) {
			n.HasNode, n.Init = false, false
		}
		n.Marked = r.Chance(1, 7)
		n.Deleting = n.Managed && r.Chance(1, 10)
		n.Nominated = r.Chance(1, 8)
		n.Tainted = r.Chance(1, 8)
		if r.Chance(1, 3) {
			n.CSILimit = kit.Pick(r, []int{1, 1, 2, 3})
		}
		n.LateMark = !n.Marked && r.Chance(1, 12)
		if n.Managed && n.HasNode && r.Chance(1, 8) {
			n.Unreg, n.Init = true, false
		}
		if n.Managed && n.HasNode && !n.Init {
			n.Startup = r.Chance(1, 2)
			n.ZeroAlloc = r.Chance(1, 2)
		}
		n.NoHost = r.Chance(1, 8)
		n.Spot = r.Chance(1, 3)
		n.NodeDel = !n.Managed && r.Chance(1, 6)
		n.Term = n.Managed && r.Chance(1, 12)
		n.CSINil = n.CSILimit > 0 && r.Chance(1, 4)
		if r.Chance(1, 3) {
			n.Devices = r.Range(1, 2)
		}
		if n.HasNode {
			for k := r.Intn(4); k > 0; k-- {
				n.Pods = append(n.Pods, genPod(r, fmt.Sprintf("bound-%d", podN), true))
				podN++
			}
		}
		w.Nodes = append(w.Nodes, n)
	}
	for k := r.Intn(lo.Ternary(thorough, 6, 5)); k > 0; k-- {
		w.Pending = append(w.Pending, genPod(r, fmt.Sprintf("pending-%d", podN), false))
		podN++
	}
	for k := r.Intn(3); k > 0; k-- {
		d := jPod{Name: fmt.Sprintf("ds-%d", k), CPUm: kit.Pick(r, []int{50, 100, 500})}
		if r.Chance(1, 3) {
			d.HostPort = kit.Pick(r, []int{8080, 9100})
		}
		if r.Chance(1, 3) {
			d.ReqZone = kit.Pick(r, zones)
		}
		if r.Chance(1, 6) {
			d.DRA = "claim"
		}
		d.Tolerate = r.Chance(1, 3)
		w.DaemonSets = append(w.DaemonSets, d)
	}
	w.PDB = r.Chance(1, 6)
	// a provider-registered value mapping (e.g. zone ids -> zone names): requirement values written with the alias
	w.ZoneAlias = r.Chance(1, 3)
	if w.ZoneAlias {
		alias := func(z string) string {
			if (z == "test-zone-1" || z == "test-zone-2") && r.Chance(2, 3) {
				return "zone-alias-" + z[len(z)-1:]
			}
			return z
		}
		for i := range w.Pending {
			w.Pending[i].PrefZone, w.Pending[i].ReqZone = alias(w.Pending[i].PrefZone), alias(w.Pending[i].ReqZone)
		}
		for ni := range w.Nodes {
			for i := range w.Nodes[ni].Pods {
				p := &w.Nodes[ni].Pods[i]
				if p.PrefZone == "" && p.ReqZone == "" && r.Chance(1, 2) {
					p.ReqZone = w.Nodes[ni].Zone // a running pod pinned to the zone it runs in
				}
				p.PrefZone, p.ReqZone = alias(p.PrefZone), alias(p.ReqZone)
			}
		}
		for i := range w.DaemonSets {
			w.DaemonSets[i].ReqZone = alias(w.DaemonSets[i].ReqZone)
		}
		for i := range w.Pools {
			if r.Chance(1, 3) {
				w.Pools[i].ZoneReq = alias(kit.Pick(r, []string{"test-zone-1", "test-zone-2"}))
			}
		}
	}
	w.DRA = r.Chance(1, 3)
	if r.Chance(1, 8) {
		w.MaxITs = r.Range(1, 3)
	}
	if r.Chance(1, 6) {
		w.Buffer = r.Range(1, 2)
	}
	if r.Chance(1, 3) {
		w.BatchMax = kit.Pick(r, []int{1, 5, 30})
	}
	if r.Chance(1, 3) {
		w.CPUReq = kit.Pick(r, []int{4000, 16000})
	}
	if r.Chance(1, 4) {
		w.DefaultTSC = kit.Pick(r, []string{"ScheduleAnyway", "DoNotSchedule"})
	}
	nOps := r.Range(1, lo.Ternary(thorough, 8, 5))
	for i := 0; i < nOps; i++ {
		o := jOp{Kind: "sim", Ctx: "normal"}
		if r.Chance(1, 4) {
			o.Kind = "prov"
		}
		switch r.Intn(10) {
		case 0:
			o.Ctx = "cancelled"
		case 1, 2:
			o.Ctx, o.Countdown = "countdown", r.Range(0, 12)
		}
		if r.Chance(1, 12) {
			o.Fault = kit.Pick(r, []string{"list-pods", "list-pdbs", "list-nodepools", "list-node-pods", "list-daemonsets", "get-pvc", "list-resourceslices"})
		}
		if o.Kind == "sim" {
			o.Consol = r.Bool()
			for c := 0; c < 6; c++ { // indices into the candidate list (mod its length)
				if r.Chance(1, 3) {
					o.Cands = append(o.Cands, c)
				}
			}
			if len(o.Cands) == 0 {
				o.Cands = []int{r.Intn(6)}
			}
		}
		if r.Chance(1, 5) {
			o.Advance = kit.Pick(r, []int{1, 9, 10, 11, 301})
		}
		w.Ops = append(w.Ops, o)
	}
	return w
}

// ---------------------------------------------------------------- construction

type world struct {
	ctx       context.Context
	c         client.WithWatch
	writes    *int64
	faultVerb *atomic.Value // string: which List call fails right now
	clk       *clock.FakeClock
	cp        *fake.CloudProvider
	cluster   *state.Cluster
	rec       *test.EventRecorder
	prov      *provisioning.Provisioner
	dac       *deviceallocation.Controller
	vpc       *virtualpods.Cache
	queue     *disruption.Queue
	cands     []*disruption.Candidate
	podKeys   []types.NamespacedName
	pending   []*corev1.Pod
	j         jWorld
	objs      []client.Object
}

func rl(cpuMilli int64, memMi int64, pods int64) corev1.ResourceList {
	return corev1.ResourceList{
		corev1.ResourceCPU:    *resource.NewMilliQuantity(cpuMilli, resource.DecimalSI),
		corev1.ResourceMemory: *resource.NewQuantity(memMi<<20, resource.BinarySI),
		corev1.ResourcePods:   *resource.NewQuantity(pods, resource.DecimalSI),
	}
}

func ptr[T any](x T) *T { return &x }

func buildIT(j jIT, gate bool) *cloudprovider.InstanceType {
	var ofs []cloudprovider.Offering
	price := float64(j.Price) / 16
	for zi, z := range j.Zones {
		for ci, ct := range []string{v1.CapacityTypeSpot, v1.CapacityTypeOnDemand} {
			ofs = append(ofs, cloudprovider.Offering{
				Available: !(j.Unavail && zi == 0 && ci == 0),
				Price:     price * lo.Ternary(ct == v1.CapacityTypeSpot, 0.5, 1.0),
				Requirements: scheduling.NewLabelRequirements(map[string]string{
					v1.CapacityTypeLabelKey: ct, corev1.LabelTopologyZone: z}),
			})
		}
	}
	if j.Reserved > 0 {
		ofs = append(ofs, cloudprovider.Offering{
			Available: true, Price: price / 8, ReservationCapacity: j.Reserved,
			Requirements: scheduling.NewLabelRequirements(map[string]string{
				v1.CapacityTypeLabelKey: v1.CapacityTypeReserved, corev1.LabelTopologyZone: j.Zones[0],
				cloudprovider.ReservationIDLabel: "r-" + j.Name}),
		})
	}
	if j.Exhausted != "" {
		ofs = append(ofs, cloudprovider.Offering{
			Available: j.Exhausted == "available", Price: price / 8, ReservationCapacity: 0,
			Requirements: scheduling.NewLabelRequirements(map[string]string{
				v1.CapacityTypeLabelKey: v1.CapacityTypeReserved, corev1.LabelTopologyZone: j.Zones[len(j.Zones)-1],
				cloudprovider.ReservationIDLabel: "r0-" + j.Name}),
		})
	}
	for _, ov := range j.Overrides {
		o := cloudprovider.Offering{Available: ov.Available, Price: price / 4,
			Requirements: scheduling.NewLabelRequirements(map[string]string{
				v1.CapacityTypeLabelKey: v1.CapacityTypeOnDemand, corev1.LabelTopologyZone: ov.Zone})}
		co := corev1.ResourceList{}
		if ov.CPU > 0 {
			co[corev1.ResourceCPU] = *resource.NewQuantity(int64(ov.CPU), resource.DecimalSI)
		}
		if ov.MemMi > 0 {
			co[corev1.ResourceMemory] = *resource.NewQuantity(int64(ov.MemMi)<<20, resource.BinarySI)
		}
		if ov.Ext > 0 {
			co["c18.example/widget"] = *resource.NewQuantity(int64(ov.Ext), resource.DecimalSI)
		}
		if len(co) > 0 {
			o.CapacityOverride = co
		}
		if ov.OverheadCPU > 0 || ov.OverheadMem > 0 {
			oo := &cloudprovider.InstanceTypeOverhead{}
			if ov.OverheadCPU > 0 {
				oo.KubeReserved = corev1.ResourceList{corev1.ResourceCPU: *resource.NewMilliQuantity(int64(ov.OverheadCPU), resource.DecimalSI)}
			}
			if ov.OverheadMem > 0 {
				oo.SystemReserved = corev1.ResourceList{corev1.ResourceMemory: *resource.NewQuantity(int64(ov.OverheadMem)<<20, resource.BinarySI)}
			}
			o.OverheadOverride = oo
		}
		ofs = append(ofs, o)
	}
	res := rl(int64(j.CPU)*1000, int64(j.CPU)*2048, 20)
	if j.Huge {
		res["hugepages-2Mi"] = *resource.NewQuantity(int64(j.CPU)*lo.Ternary[int64](j.HugeBig, 4096, 512)<<20, resource.BinarySI) // allocatable memory is reduced by it (floored at 0)
	}
	return fake.NewInstanceType(j.Name, fake.WithResources(res), fake.WithOfferings(ofs...))
}

func (w *world) buildPod(p jPod, nodeName string) *corev1.Pod {
	o := test.PodOptions{
		ObjectMeta: metav1.ObjectMeta{Name: p.Name, Namespace: "default", UID: types.UID("uid-" + p.Name), Labels: map[string]string{"app": "c18"}},
		ResourceRequirements: corev1.ResourceRequirements{Requests: corev1.ResourceList{
			corev1.ResourceCPU: *resource.NewMilliQuantity(int64(p.CPUm), resource.DecimalSI)}},
	}
	if p.HostPort != 0 {
		o.HostPorts = []int32{int32(p.HostPort)}
	}
	if p.PVC != "" {
		o.PersistentVolumeClaims = []string{p.PVC}
	}
	if p.Invalid == "missing-pvc" {
		o.PersistentVolumeClaims = []string{"pvc-missing"}
	}
	if p.Invalid == "restricted-label" {
		o.NodeSelector = map[string]string{"karpenter.sh/custom-restricted": "x"}
	}
	if p.Invalid == "no-karpenter" {
		o.NodeRequirements = append(o.NodeRequirements, corev1.NodeSelectorRequirement{Key: v1.NodePoolLabelKey, Operator: corev1.NodeSelectorOpDoesNotExist})
	}
	if p.DRA != "" {
		claim := "claim-" + p.Name
		o.ResourceClaims = []corev1.PodResourceClaim{{Name: "dev", ResourceClaimName: &claim}}
		o.ContainerResourceClaims = []corev1.ResourceClaim{{Name: "dev"}}
	}
	if p.PrefAff {
		o.PodPreferences = []corev1.WeightedPodAffinityTerm{
			{Weight: 1, PodAffinityTerm: corev1.PodAffinityTerm{LabelSelector: &metav1.LabelSelector{MatchLabels: map[string]string{"app": "nobody"}}, TopologyKey: corev1.LabelHostname}},
			{Weight: 5, PodAffinityTerm: corev1.PodAffinityTerm{LabelSelector: &metav1.LabelSelector{MatchLabels: map[string]string{"app": "c18"}}, TopologyKey: corev1.LabelTopologyZone}}}
	}
	sel := &metav1.LabelSelector{MatchLabels: map[string]string{"app": "c18"}}
	if p.Anti {
		o.PodAntiRequirements = []corev1.PodAffinityTerm{{LabelSelector: sel, TopologyKey: corev1.LabelHostname}}
	}
	if p.PrefAnti {
		o.PodAntiPreferences = []corev1.WeightedPodAffinityTerm{{Weight: 10, PodAffinityTerm: corev1.PodAffinityTerm{LabelSelector: sel, TopologyKey: corev1.LabelTopologyZone}}}
	}
	if p.PrefZone != "" {
		o.NodePreferences = []corev1.NodeSelectorRequirement{{Key: corev1.LabelTopologyZone, Operator: corev1.NodeSelectorOpIn, Values: []string{p.PrefZone}}}
	}
	if p.ReqZone != "" {
		o.NodeRequirements = []corev1.NodeSelectorRequirement{{Key: corev1.LabelTopologyZone, Operator: corev1.NodeSelectorOpIn, Values: []string{p.ReqZone}}}
	}
	if p.Spread != "" {
		o.TopologySpreadConstraints = []corev1.TopologySpreadConstraint{{MaxSkew: 1, TopologyKey: corev1.LabelTopologyZone,
			WhenUnsatisfiable: corev1.UnsatisfiableConstraintAction(p.Spread), LabelSelector: sel}}
	}
	if p.Tolerate {
		o.Tolerations = []corev1.Toleration{{Operator: corev1.TolerationOpExists}}
	}
	if p.NoDisrupt {
		o.Annotations = map[string]string{v1.DoNotDisruptAnnotationKey: "true"}
	}
	if p.Ephemeral {
		o.EphemeralVolumeTemplates = []test.EphemeralVolumeTemplateOptions{{StorageClassName: ptr("sc")}}
	}
	if p.Daemon {
		dsName := "ds-bound"
		if len(w.j.DaemonSets) > 0 {
			dsName = w.j.DaemonSets[0].Name
		}
		o.OwnerReferences = []metav1.OwnerReference{{APIVersion: "apps/v1", Kind: "DaemonSet", Name: dsName, UID: types.UID("uid-" + dsName), Controller: ptr(true), BlockOwnerDeletion: ptr(true)}}
	} else {
		o.OwnerReferences = []metav1.OwnerReference{{APIVersion: "apps/v1", Kind: "ReplicaSet", Name: "rs", UID: "rs-uid", Controller: ptr(true), BlockOwnerDeletion: ptr(true)}}
	}
	var pod *corev1.Pod
	if nodeName != "" {
		o.NodeName = nodeName
		o.Phase = corev1.PodRunning
		pod = test.Pod(o)
	} else {
		o.Phase = corev1.PodPhase(p.Phase)
		pod = test.UnschedulablePod(o)
	}
	// what the fixture options cannot express
	if p.Extras {
		pod.Spec.Volumes = append(pod.Spec.Volumes, corev1.Volume{Name: "scratch", VolumeSource: corev1.VolumeSource{EmptyDir: &corev1.EmptyDirVolumeSource{}}})
		pod.Spec.Containers[0].Ports = append(pod.Spec.Containers[0].Ports, corev1.ContainerPort{ContainerPort: 8443, Protocol: corev1.ProtocolTCP})
	}
	if a := pod.Spec.Affinity; a != nil { // a second, differently weighted preference: relaxation sorts before it removes
		if a.NodeAffinity != nil && len(a.NodeAffinity.PreferredDuringSchedulingIgnoredDuringExecution) == 1 {
			t := a.NodeAffinity.PreferredDuringSchedulingIgnoredDuringExecution[0].DeepCopy()
			t.Weight, t.Preference.MatchExpressions[0].Values = t.Weight+7, []string{"test-zone-2"}
			a.NodeAffinity.PreferredDuringSchedulingIgnoredDuringExecution = append(a.NodeAffinity.PreferredDuringSchedulingIgnoredDuringExecution, *t)
		}
		if a.PodAntiAffinity != nil && len(a.PodAntiAffinity.PreferredDuringSchedulingIgnoredDuringExecution) == 1 {
			t := a.PodAntiAffinity.PreferredDuringSchedulingIgnoredDuringExecution[0].DeepCopy()
			t.Weight, t.PodAffinityTerm.TopologyKey = t.Weight+7, corev1.LabelHostname
			a.PodAntiAffinity.PreferredDuringSchedulingIgnoredDuringExecution = append(a.PodAntiAffinity.PreferredDuringSchedulingIgnoredDuringExecution, *t)
		}
	}
	switch p.Owner {
	case "none":
		pod.OwnerReferences = nil
	case "node":
		pod.OwnerReferences = []metav1.OwnerReference{{APIVersion: "v1", Kind: "Node", Name: nodeName, UID: "uid-" + types.UID(nodeName), Controller: ptr(true)}}
	}
	switch p.State {
	case "succeeded":
		pod.Status.Phase = corev1.PodSucceeded
	case "terminating":
		pod.Finalizers = []string{"c18/finalizer"}
		pod.DeletionTimestamp = &metav1.Time{Time: w.clk.Now().Add(-10 * time.Second)}
	case "preempting":
		pod.Status.NominatedNodeName = "node-0"
	}
	if p.TwoTerms {
		if pod.Spec.Affinity == nil {
			pod.Spec.Affinity = &corev1.Affinity{}
		}
		if pod.Spec.Affinity.NodeAffinity == nil {
			pod.Spec.Affinity.NodeAffinity = &corev1.NodeAffinity{}
		}
		na := pod.Spec.Affinity.NodeAffinity
		if na.RequiredDuringSchedulingIgnoredDuringExecution == nil {
			na.RequiredDuringSchedulingIgnoredDuringExecution = &corev1.NodeSelector{}
		}
		// first alternative cannot be met, the second can: the first is removed by relaxation
		na.RequiredDuringSchedulingIgnoredDuringExecution.NodeSelectorTerms = append([]corev1.NodeSelectorTerm{{MatchExpressions: []corev1.NodeSelectorRequirement{
			{Key: corev1.LabelTopologyZone, Operator: corev1.NodeSelectorOpIn, Values: []string{"no-such-zone"}}}}},
			append(na.RequiredDuringSchedulingIgnoredDuringExecution.NodeSelectorTerms, corev1.NodeSelectorTerm{MatchExpressions: []corev1.NodeSelectorRequirement{
				{Key: corev1.LabelOSStable, Operator: corev1.NodeSelectorOpIn, Values: []string{"linux"}}}})...)
	}
	if p.Invalid == "match-fields" {
		pod.Spec.Affinity = &corev1.Affinity{NodeAffinity: &corev1.NodeAffinity{RequiredDuringSchedulingIgnoredDuringExecution: &corev1.NodeSelector{
			NodeSelectorTerms: []corev1.NodeSelectorTerm{{MatchFields: []corev1.NodeSelectorRequirement{{Key: "metadata.name", Operator: corev1.NodeSelectorOpIn, Values: []string{"node-0"}}}}}}}}
	}
	for i := range pod.Spec.Containers[0].Ports {
		if p.HostIP != "" {
			pod.Spec.Containers[0].Ports[i].HostIP = p.HostIP
		}
		if p.UDP {
			pod.Spec.Containers[0].Ports[i].Protocol = corev1.ProtocolUDP
		}
	}
	return pod
}

func newWorld(j jWorld) *world {
	w := &world{j: j, writes: new(int64), faultVerb: &atomic.Value{}, clk: clock.NewFakeClock(time.Unix(1_700_000_000, 0)),
		cp: fake.NewCloudProvider(), rec: test.NewEventRecorder()}
	w.faultVerb.Store("")
	w.ctx = options.ToContext(context.Background(), test.Options(test.OptionsFields{
		MinValuesPolicy:   ptr(options.MinValuesPolicy(j.MinValues)),
		PreferencePolicy:  ptr(options.PreferencePolicy(j.Prefs)),
		FeatureGates:      test.FeatureGates{ReservedCapacity: ptr(j.Reserved), CapacityBuffer: ptr(j.Buffer > 0)},
		IgnoreDRARequests: ptr(!j.DRA),
		BatchMaxDuration:  lo.Ternary(j.BatchMax > 0, ptr(time.Duration(j.BatchMax)*time.Second), nil),
		CPURequests:       lo.Ternary(j.CPUReq > 0, ptr(int64(j.CPUReq)), nil),
		SchedulerConfig: lo.Ternary(j.DefaultTSC != "", &options.SchedulerConfiguration{PodTopologySpread: &options.PodTopologySpreadConfig{
			DefaultConstraints: []corev1.TopologySpreadConstraint{{MaxSkew: 1, TopologyKey: corev1.LabelTopologyZone, WhenUnsatisfiable: corev1.UnsatisfiableConstraintAction(j.DefaultTSC)}}}}, nil),
	}))
	// catalogue
	var its []*cloudprovider.InstanceType
	for _, ji := range j.Catalog {
		its = append(its, buildIT(ji, j.Reserved))
	}
	w.cp.InstanceTypes = its

	if j.DefaultTSC != "" {
		w.add(&corev1.Service{ObjectMeta: metav1.ObjectMeta{Name: "svc", Namespace: "default"}, Spec: corev1.ServiceSpec{Selector: map[string]string{"app": "c18"}}})
	}
	// storage
	w.add(test.StorageClass(test.StorageClassOptions{ObjectMeta: metav1.ObjectMeta{Name: "sc"}, Zones: []string{"test-zone-1", "test-zone-2"}, Provisioner: ptr("test.driver")}))
	// a claim bound to a CSI volume pinned to one zone; a claim whose class is gone; a claim with the empty class
	pv := test.PersistentVolume(test.PersistentVolumeOptions{ObjectMeta: metav1.ObjectMeta{Name: "pv-bound"}, Driver: "test.driver", Zones: []string{"test-zone-1"}, StorageClassName: "sc"})
	pv.Namespace = "" // cluster scoped
	w.add(pv)
	w.add(test.PersistentVolumeClaim(test.PersistentVolumeClaimOptions{ObjectMeta: metav1.ObjectMeta{Name: "pvc-bound", Namespace: "default"}, StorageClassName: ptr("sc"), VolumeName: "pv-bound"}))
	pvi := test.PersistentVolume(test.PersistentVolumeOptions{ObjectMeta: metav1.ObjectMeta{Name: "pv-intree"}, UseAWSInTreeDriver: true, Zones: []string{"test-zone-2"}, StorageClassName: "sc-intree"})
	pvi.Namespace = ""
	w.add(pvi)
	w.add(test.PersistentVolumeClaim(test.PersistentVolumeClaimOptions{ObjectMeta: metav1.ObjectMeta{Name: "pvc-intree", Namespace: "default"}, StorageClassName: ptr("sc-intree"), VolumeName: "pv-intree"}))
	w.add(test.PersistentVolumeClaim(test.PersistentVolumeClaimOptions{ObjectMeta: metav1.ObjectMeta{Name: "pvc-nosc", Namespace: "default"}, StorageClassName: ptr("sc-missing")}))
	w.add(test.PersistentVolumeClaim(test.PersistentVolumeClaimOptions{ObjectMeta: metav1.ObjectMeta{Name: "pvc-emptysc", Namespace: "default"}, StorageClassName: ptr("")}))
	w.add(test.StorageClass(test.StorageClassOptions{ObjectMeta: metav1.ObjectMeta{Name: "sc-intree"}, Zones: []string{"test-zone-2", "test-zone-3"}, Provisioner: ptr("kubernetes.io/aws-ebs")}))
	for _, n := range []string{"pvc-a", "pvc-b", "pvc-c"} {
		w.add(test.PersistentVolumeClaim(test.PersistentVolumeClaimOptions{ObjectMeta: metav1.ObjectMeta{Name: n, Namespace: "default"}, StorageClassName: ptr(lo.Ternary(n == "pvc-c", "sc-intree", "sc"))}))
	}
	// pools
	for _, jp := range j.Pools {
		np := test.NodePool(v1.NodePool{ObjectMeta: metav1.ObjectMeta{Name: jp.Name}})
		if jp.Weight > 0 {
			np.Spec.Weight = ptr(int32(jp.Weight))
		}
		if jp.CPULimit > 0 {
			np.Spec.Limits = v1.Limits(corev1.ResourceList{corev1.ResourceCPU: *resource.NewQuantity(int64(jp.CPULimit), resource.DecimalSI)})
		}
		if jp.PreferNo {
			np.Spec.Template.Spec.Taints = []corev1.Taint{{Key: "c18/prefer", Value: "x", Effect: corev1.TaintEffectPreferNoSchedule}}
		}
		if jp.NoSched {
			np.Spec.Template.Spec.Taints = append(np.Spec.Template.Spec.Taints, corev1.Taint{Key: "c18/dedicated", Value: "x", Effect: corev1.TaintEffectNoSchedule})
		}
		if jp.Static {
			np.Spec.Replicas = ptr(int64(1))
		}
		if jp.ZoneReq != "" {
			np.Spec.Template.Spec.Requirements = append(np.Spec.Template.Spec.Requirements, v1.NodeSelectorRequirementWithMinValues{
				Key: corev1.LabelTopologyZone, Operator: corev1.NodeSelectorOpIn, Values: []string{jp.ZoneReq, "test-zone-3"}})
		}
		if jp.NoTypes {
			np.Spec.Template.Spec.Requirements = append(np.Spec.Template.Spec.Requirements, v1.NodeSelectorRequirementWithMinValues{
				Key: corev1.LabelTopologyZone, Operator: corev1.NodeSelectorOpIn, Values: []string{"no-such-zone"}})
		}
		if jp.NodeLimit > 0 {
			if np.Spec.Limits == nil {
				np.Spec.Limits = v1.Limits{}
			}
			np.Spec.Limits["nodes"] = *resource.NewQuantity(int64(jp.NodeLimit-1), resource.DecimalSI)
		}
		switch jp.ITErr {
		case "generic":
			w.cp.ErrorsForNodePool[jp.Name] = fmt.Errorf("injected: instance types unavailable")
		case "unevaluated":
			w.cp.ErrorsForNodePool[jp.Name] = cloudprovider.NewUnevaluatedNodePoolError(jp.Name)
		case "deadline":
			w.cp.ErrorsForNodePool[jp.Name] = context.DeadlineExceeded
		case "empty":
			w.cp.InstanceTypesForNodePool[jp.Name] = []*cloudprovider.InstanceType{}
		}
		if jp.MinValues > 0 {
			np.Spec.Template.Spec.Requirements = append(np.Spec.Template.Spec.Requirements, v1.NodeSelectorRequirementWithMinValues{
				Key: corev1.LabelInstanceTypeStable, Operator: corev1.NodeSelectorOpExists, MinValues: ptr(jp.MinValues)})
		}
		np.Spec.Disruption.ConsolidateAfter = v1.MustParseNillableDuration(lo.Ternary(jp.ConsAfter == "", "30s", jp.ConsAfter))
		if jp.Deleting {
			np.Finalizers = []string{"karpenter.sh/test-finalizer"}
			np.DeletionTimestamp = &metav1.Time{Time: w.clk.Now().Add(-time.Minute)}
		}
		cs := np.StatusConditions()
		cs.SetTrue(v1.ConditionTypeValidationSucceeded) // re-stamp the fixture's conditions with the object's generation
		cs.SetTrue(v1.ConditionTypeNodeClassReady)
		if jp.Healthy {
			cs.SetTrue(v1.ConditionTypeNodeRegistrationHealthy)
		}
		if jp.NotReady {
			cs.SetFalse(v1.ConditionTypeNodeClassReady, "NotReady", "not ready")
		}
		w.add(np)
		if jp.OwnSlice && jp.ITErr != "empty" {
			own := make([]*cloudprovider.InstanceType, len(its))
			copy(own, its)
			w.cp.InstanceTypesForNodePool[jp.Name] = own
		}
	}
	if j.PDB {
		w.add(test.PodDisruptionBudget(test.PDBOptions{ObjectMeta: metav1.ObjectMeta{Name: "pdb", Namespace: "default"},
			Labels: map[string]string{"app": "c18"}, MaxUnavailable: ptr(intstr.FromInt32(0)),
		}))
	}
	// daemonsets
	for _, d := range j.DaemonSets {
		po := test.PodOptions{ResourceRequirements: corev1.ResourceRequirements{Requests: corev1.ResourceList{
			corev1.ResourceCPU: *resource.NewMilliQuantity(int64(d.CPUm), resource.DecimalSI)}}}
		if d.HostPort != 0 {
			po.HostPorts = []int32{int32(d.HostPort)}
		}
		if d.ReqZone != "" {
			po.NodeRequirements = []corev1.NodeSelectorRequirement{{Key: corev1.LabelTopologyZone, Operator: corev1.NodeSelectorOpIn, Values: []string{d.ReqZone}}}
			po.NodePreferences = []corev1.NodeSelectorRequirement{{Key: corev1.LabelArchStable, Operator: corev1.NodeSelectorOpIn, Values: []string{"amd64"}}}
		}
		if d.DRA != "" {
			claim := "claim-" + d.Name
			po.ResourceClaims = []corev1.PodResourceClaim{{Name: "dev", ResourceClaimName: &claim}}
			po.ContainerResourceClaims = []corev1.ResourceClaim{{Name: "dev"}}
		}
		if d.Tolerate {
			po.Tolerations = []corev1.Toleration{{Operator: corev1.TolerationOpExists}}
		}
		ds := test.DaemonSet(test.DaemonSetOptions{ObjectMeta: metav1.ObjectMeta{Name: d.Name, Namespace: "default", UID: types.UID("uid-" + d.Name)}, PodOptions: po})
		w.add(ds)
	}
	// nodes
	for _, jn := range j.Nodes {
		w.addNode(jn)
	}
	// dynamic resources: one class, zoned cluster-managed devices, node-local devices (addNode), one claim per DRA pod
	w.add(test.DeviceClassWithSelector("c18-class", "c18.example"))
	for i, z := range zones {
		if i < 2 {
			w.add(test.ZonedSlice("zoned-"+z, "c18.example", z, "z0", "z1"))
		}
	}
	w.add(test.SharedCapacitySlice("shared", "c18.example", "s0", "8Gi"))
	claimFor := func(p jPod) {
		consumer := resourcev1.ResourceClaimConsumerReference{Resource: "pods", Name: p.Name, UID: types.UID("uid-" + p.Name)}
		switch p.DRA {
		case "claim":
			w.add(test.ResourceClaimForRequests("claim-"+p.Name, test.ExactDeviceRequest("dev", "c18-class", 1)))
		case "allocated-shared":
			w.add(test.AllocatedSharedClaim("claim-"+p.Name, "shared", "c18.example", "s0", test.CapacityRequest("1Gi"), consumer))
		case "allocated":
			w.add(test.AllocatedClusterWideClaim("claim-"+p.Name, "zoned-test-zone-1", "c18.example", "z0", consumer))
		}
	}
	for _, jn := range j.Nodes {
		for _, jp := range jn.Pods {
			claimFor(jp)
		}
	}
	for _, jp := range j.Pending {
		claimFor(jp)
	}
	for _, d := range j.DaemonSets {
		claimFor(d)
	}
	if j.Buffer > 0 {
		w.add(test.ReadyBuffer("buffer", int32(j.Buffer)))
		w.add(test.PodTemplate(test.PodTemplateOptions{ObjectMeta: metav1.ObjectMeta{Name: "buffer-template", Namespace: "default"},
			PodOptions: test.PodOptions{
				ObjectMeta:           metav1.ObjectMeta{Labels: map[string]string{"app": "c18"}},
				ResourceRequirements: corev1.ResourceRequirements{Requests: corev1.ResourceList{corev1.ResourceCPU: resource.MustParse("300m")}},
				NodePreferences:      []corev1.NodeSelectorRequirement{{Key: corev1.LabelTopologyZone, Operator: corev1.NodeSelectorOpIn, Values: []string{lo.Ternary(j.ZoneAlias, "zone-alias-2", "no-such-zone")}}},
				NodeRequirements:     lo.Ternary(j.ZoneAlias, []corev1.NodeSelectorRequirement{{Key: corev1.LabelTopologyZone, Operator: corev1.NodeSelectorOpNotIn, Values: []string{"zone-alias-1"}}}, nil),
				TopologySpreadConstraints: lo.Ternary(j.Buffer == 1, []corev1.TopologySpreadConstraint{{MaxSkew: 1, TopologyKey: corev1.LabelTopologyZone, WhenUnsatisfiable: corev1.ScheduleAnyway,
					LabelSelector: &metav1.LabelSelector{MatchLabels: map[string]string{"app": "c18"}}}}, nil),
			}}))
	}
	// pending pods
	var acked []*corev1.Pod
	for _, jp := range j.Pending {
		pod := w.buildPod(jp, "")
		w.add(pod)
		w.podKeys = append(w.podKeys, client.ObjectKeyFromObject(pod))
		w.pending = append(w.pending, pod.DeepCopy())
		if jp.Acked {
			acked = append(acked, pod)
		}
	}
	// the API server, then the components, then the informer-style delivery into the cluster state
	wr := func() { atomic.AddInt64(w.writes, 1) }
	w.c = kit.NewClient(interceptor.Funcs{
		Create: func(ctx context.Context, c client.WithWatch, obj client.Object, opts ...client.CreateOption) error {
			wr()
			return c.Create(ctx, obj, opts...)
		},
		Update: func(ctx context.Context, c client.WithWatch, obj client.Object, opts ...client.UpdateOption) error {
			wr()
			return c.Update(ctx, obj, opts...)
		},
		Patch: func(ctx context.Context, c client.WithWatch, obj client.Object, patch client.Patch, opts ...client.PatchOption) error {
			wr()
			return c.Patch(ctx, obj, patch, opts...)
		},
		Delete: func(ctx context.Context, c client.WithWatch, obj client.Object, opts ...client.DeleteOption) error {
			wr()
			return c.Delete(ctx, obj, opts...)
		},
		DeleteAllOf: func(ctx context.Context, c client.WithWatch, obj client.Object, opts ...client.DeleteAllOfOption) error {
			wr()
			return c.DeleteAllOf(ctx, obj, opts...)
		},
		SubResourceUpdate: func(ctx context.Context, c client.Client, sub string, obj client.Object, opts ...client.SubResourceUpdateOption) error {
			wr()
			return c.SubResource(sub).Update(ctx, obj, opts...)
		},
		SubResourcePatch: func(ctx context.Context, c client.Client, sub string, obj client.Object, patch client.Patch, opts ...client.SubResourcePatchOption) error {
			wr()
			return c.SubResource(sub).Patch(ctx, obj, patch, opts...)
		},
		SubResourceCreate: func(ctx context.Context, c client.Client, sub string, obj client.Object, subObj client.Object, opts ...client.SubResourceCreateOption) error {
			wr()
			return c.SubResource(sub).Create(ctx, obj, subObj, opts...)
		},
		Get: func(ctx context.Context, c client.WithWatch, key client.ObjectKey, obj client.Object, opts ...client.GetOption) error {
			if _, ok := obj.(*corev1.PersistentVolumeClaim); ok && w.faultVerb.Load().(string) == "get-pvc" {
				return fmt.Errorf("injected: get pvc %s", key.Name)
			}
			return c.Get(ctx, key, obj, opts...)
		},
		List: func(ctx context.Context, c client.WithWatch, list client.ObjectList, opts ...client.ListOption) error {
			f := w.faultVerb.Load().(string)
			switch list.(type) {
			case *corev1.PodList:
				if f == "list-pods" {
					return fmt.Errorf("injected: list pods")
				}
				if f == "list-node-pods" {
					lopts := &client.ListOptions{}
					lopts.ApplyOptions(opts)
					if lopts.FieldSelector != nil {
						if v, ok := lopts.FieldSelector.RequiresExactMatch("spec.nodeName"); ok && v != "" {
							return fmt.Errorf("injected: list pods of node %s", v)
						}
					}
				}
			case *resourcev1.ResourceSliceList:
				if f == "list-resourceslices" {
					return fmt.Errorf("injected: list resourceslices")
				}
			case *appsv1.DaemonSetList:
				if f == "list-daemonsets" {
					return fmt.Errorf("injected: list daemonsets")
				}
			case *v1.NodePoolList:
				if f == "list-nodepools" {
					return fmt.Errorf("injected: list nodepools")
				}
			default:
				if f == "list-pdbs" && fmt.Sprintf("%T", list) == "*v1.PodDisruptionBudgetList" {
					return fmt.Errorf("injected: list pdbs")
				}
			}
			return c.List(ctx, list, opts...)
		},
	}, w.objs...)
	w.cluster = state.NewCluster(w.clk, w.c, w.cp)
	w.dac = deviceallocation.NewController(w.c)
	w.vpc = virtualpods.NewVirtualPodCache(w.c)
	w.prov = provisioning.NewProvisioner(w.c, w.rec, w.cp, w.cluster, w.clk, w.dac, w.vpc)
	w.queue = disruption.NewQueue(w.c, w.rec, w.cluster, w.clk, w.prov)
	var ncl v1.NodeClaimList
	_ = w.c.List(w.ctx, &ncl)
	for i := range ncl.Items {
		w.cluster.UpdateNodeClaim(ncl.Items[i].DeepCopy())
	}
	var nl corev1.NodeList
	_ = w.c.List(w.ctx, &nl)
	for i := range nl.Items {
		if err := w.cluster.UpdateNode(w.ctx, nl.Items[i].DeepCopy()); err != nil {
			panic(err)
		}
	}
	var pl corev1.PodList
	_ = w.c.List(w.ctx, &pl)
	for i := range pl.Items {
		if pl.Items[i].Spec.NodeName == "" {
			continue
		}
		if err := w.cluster.UpdatePod(w.ctx, pl.Items[i].DeepCopy()); err != nil {
			panic(err)
		}
	}
	var dsl appsv1.DaemonSetList
	_ = w.c.List(w.ctx, &dsl)
	for i := range dsl.Items {
		_ = w.cluster.UpdateDaemonSet(w.ctx, &dsl.Items[i])
	}
	w.cluster.AckPods(acked...)
	// what the operator's own controllers do at start-up: the device-allocation controller hydrates from the claims,
	// the CapacityBuffer controller fills the virtual-pod cache (its pods are shared, not copied, by GetAll)
	w.dac.Hydrate(w.ctx)
	if j.Buffer > 0 {
		_ = w.vpc.GetAll(w.ctx)
	}
	for _, jn := range j.Nodes {
		pid := "fake:///" + jn.Name
		if !jn.Managed {
			pid = jn.Name
		}
		if jn.Marked {
			w.cluster.MarkForDeletion(pid)
		}
		if jn.Nominated {
			w.cluster.NominateNodeForPod(w.ctx, pid)
		}
	}
	w.cluster.SetSynced(true)
	// NOTE: nothing in the harness calls Allocatable()/AllocatableOfferingsList() on the catalogue: the lazily
	// computed allocatable groups (sync.Once precompute) are first evaluated by the code under test, so that the
	// digest taken before the first run sees the provider's maps as the provider built them.
	// candidates, computed once and reused by every simulation (as the disruption methods do)
	cands, err := disruption.GetCandidates(w.ctx, w.cluster, w.c, w.rec, w.clk, w.cp, func(context.Context, *disruption.Candidate) bool { return true }, disruption.GracefulDisruptionClass, w.queue)
	if err != nil {
		panic(err)
	}
	sort.Slice(cands, func(a, b int) bool { return cands[a].Name() < cands[b].Name() })
	w.cands = cands
	for _, jn := range j.Nodes {
		if jn.LateMark {
			w.cluster.MarkForDeletion(lo.Ternary(jn.Managed, "fake:///"+jn.Name, jn.Name))
		}
	}
	sort.Slice(w.podKeys, func(a, b int) bool { return w.podKeys[a].String() < w.podKeys[b].String() })
	return w
}

func (w *world) addNode(n jNode) {
	it := w.j.Catalog[n.IT]
	pool := w.j.Pools[n.Pool].Name
	labels := map[string]string{
		corev1.LabelInstanceTypeStable: it.Name,
		v1.CapacityTypeLabelKey:        lo.Ternary(n.Spot, v1.CapacityTypeSpot, v1.CapacityTypeOnDemand),
		corev1.LabelTopologyZone:       n.Zone,
		corev1.LabelHostname:           n.Name,
		corev1.LabelArchStable:         "amd64",
		corev1.LabelOSStable:           "linux",
	}
	alloc := rl(int64(it.CPU)*1000-100, int64(it.CPU)*2048-100, 20)
	capa := rl(int64(it.CPU)*1000, int64(it.CPU)*2048, 20)
	if n.NoHost {
		delete(labels, corev1.LabelHostname)
	}
	var taints []corev1.Taint
	if n.Tainted {
		taints = []corev1.Taint{{Key: "c18/dedicated", Value: "x", Effect: corev1.TaintEffectNoSchedule}}
	}
	pid := n.Name
	if n.Managed {
		pid = "fake:///" + n.Name
		labels[v1.NodePoolLabelKey] = pool
		nc := test.NodeClaim(v1.NodeClaim{
			ObjectMeta: metav1.ObjectMeta{Name: n.Name, Labels: labels, Finalizers: []string{"karpenter.sh/test-finalizer"}},
			Spec: v1.NodeClaimSpec{Taints: taints, StartupTaints: lo.Ternary(n.Startup,
				[]corev1.Taint{{Key: "c18/startup", Value: "x", Effect: corev1.TaintEffectNoSchedule}}, nil)},
			Status: v1.NodeClaimStatus{ProviderID: pid, NodeName: n.Name, Allocatable: alloc, Capacity: capa},
		})
		cs := nc.StatusConditions(status.WithClock(w.clk))
		cs.SetTrue(v1.ConditionTypeLaunched)
		cs.SetTrue(v1.ConditionTypeRegistered)
		if n.Init {
			cs.SetTrue(v1.ConditionTypeInitialized)
		}
		cs.SetTrue(v1.ConditionTypeConsolidatable)
		if n.Term {
			cs.SetTrue(v1.ConditionTypeInstanceTerminating)
		}
		if n.Deleting {
			nc.DeletionTimestamp = &metav1.Time{Time: w.clk.Now().Add(-time.Minute)}
		}
		w.add(nc)
	}
	if !n.HasNode {
		return
	}
	nl := lo.Assign(labels)
	if n.Managed {
		if !n.Unreg {
			nl[v1.NodeRegisteredLabelKey] = "true"
		}
		if n.Init {
			nl[v1.NodeInitializedLabelKey] = "true"
		}
	}
	nodeTaints, nodeAlloc, nodeCapa := taints, alloc, capa
	if n.Startup {
		nodeTaints = append(append([]corev1.Taint{}, taints...), corev1.Taint{Key: "c18/startup", Value: "x", Effect: corev1.TaintEffectNoSchedule},
			corev1.Taint{Key: corev1.TaintNodeNotReady, Effect: corev1.TaintEffectNoSchedule})
	}
	if n.ZeroAlloc { // kubelet has not reported cpu yet: the NodeClaim's value is used while the node is not initialized
		nodeAlloc, nodeCapa = lo.Assign(alloc), lo.Assign(capa)
		nodeAlloc[corev1.ResourceCPU] = resource.MustParse("0")
		nodeCapa[corev1.ResourceCPU] = resource.MustParse("0")
	}
	node := test.Node(test.NodeOptions{ObjectMeta: metav1.ObjectMeta{Name: n.Name, UID: types.UID("uid-" + n.Name), Labels: nl, Finalizers: []string{"karpenter.sh/test-finalizer"}},
		ProviderID: pid, Allocatable: nodeAlloc, Capacity: nodeCapa, Taints: nodeTaints})
	if n.NodeDel {
		node.DeletionTimestamp = &metav1.Time{Time: w.clk.Now().Add(-time.Minute)}
	}
	if n.Devices > 0 {
		w.add(test.NodeLocalSlice(node, "c18.example", []string{"d0", "d1"}[:n.Devices]...))
	}
	w.add(node)
	if n.CSILimit > 0 {
		w.add(&storagev1.CSINode{ObjectMeta: metav1.ObjectMeta{Name: n.Name},
			Spec: storagev1.CSINodeSpec{Drivers: []storagev1.CSINodeDriver{{Name: "test.driver", NodeID: n.Name, Allocatable: lo.Ternary(n.CSINil, nil, &storagev1.VolumeNodeResources{Count: ptr(int32(n.CSILimit))})}}}})
	}
	for _, jp := range n.Pods {
		pod := w.buildPod(jp, n.Name)
		w.add(pod)
		w.podKeys = append(w.podKeys, client.ObjectKeyFromObject(pod))
	}
}

func (w *world) add(o client.Object) { w.objs = append(w.objs, o) }

// countdownCtx reports DeadlineExceeded after its Err method has been consulted n times:
// a deterministic stand-in for a simulation that times out part-way.
type countdownCtx struct {
	context.Context
	left *int64
	done chan struct{}
}

func newCountdown(parent context.Context, n int) *countdownCtx {
	l := int64(n)
	return &countdownCtx{Context: parent, left: &l, done: make(chan struct{})}
}

func (c *countdownCtx) Err() error {
	if atomic.AddInt64(c.left, -1) < 0 {
		return context.DeadlineExceeded
	}
	return nil
}

func (c *countdownCtx) Done() <-chan struct{} { return c.done }
