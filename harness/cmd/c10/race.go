package main

// The window inside one Queue.Reconcile (item read under the mutex, mutex released, action, complete): a drain pass
// is run in that window on the real code. The reconcile runs in its own goroutine and is parked at the first point
// after the read where the harness can hold it: the queue's clock (needsForceDelete / forceDelete call Now()) or
// the API call (interceptor). The main goroutine then runs Terminator.Drain, moves the clock and lets it continue.

import (
	"fmt"
	"sort"
	"sync/atomic"
	"time"

	corev1 "k8s.io/api/core/v1"
	clock "k8s.io/utils/clock/testing"
	"sigs.k8s.io/controller-runtime/pkg/reconcile"

	"sigs.k8s.io/karpenter/pkg/controllers/node/termination/terminator"

	"verifharness/kit"
)

type gate struct {
	armed   atomic.Bool
	reached chan struct{}
	release chan struct{}
}

func newGate() *gate { return &gate{reached: make(chan struct{}), release: make(chan struct{})} }

func (g *gate) hit() {
	if g.armed.CompareAndSwap(true, false) {
		g.reached <- struct{}{}
		<-g.release
	}
}

// gateClock is the queue's clock: the shared fake clock whose Now() passes the gate.
type gateClock struct {
	*clock.FakeClock
	g *gate
}

func (c gateClock) Now() time.Time {
	c.g.hit()
	return c.FakeClock.Now()
}

const kfStale = "in-flight-reconcile-uses-stale-deadline"

// race: Reconcile(p) reads its entry; a drain pass at dnow with deadline ddl runs in the window; the reconcile
// continues at anow. Falls back to a plain reconcile followed by a plain drain when the reconcile never reaches a
// point where it can be held (pod not queued, inactive, not evictable).
func (h *hist) race(p *podSpec, pl plan, dnow int64, ddl *int64, anow int64) (kf bool) {
	h.now = dnow
	h.setClock()
	h.s.plan = pl
	var pods []*podSpec
	for _, w := range h.worldPods() {
		if w.Name != p.Name {
			pods = append(pods, w)
		}
	}
	pods = append(pods, p)
	h.s.install(pods)
	obj := &corev1.Pod{}
	if err := h.s.sw.Client.Get(h.ctx, p.objKey(), obj); err != nil {
		panic(err)
	}
	before := h.s.snapshot()
	type rr struct {
		res reconcile.Result
		err error
	}
	done := make(chan rr, 1)
	h.s.gate.armed.Store(true)
	go func() {
		res, err := h.s.q.Reconcile(h.ctx, obj)
		done <- rr{res, err}
	}()
	select {
	case r := <-done:
		// never parked: everything happened before the pass; record it as the two sequential ops it was
		h.s.gate.armed.Store(false)
		h.finishReconcile(obj, p, pl, before, r.res, r.err)
		h.dl = ddl
		h.drain(false)
		h.c.Count("race:not-parked(sequential)")
		return false
	case <-h.s.gate.reached:
	}
	parkedAtAPI := len(h.s.calls) > 0
	// ---- the window: a complete drain pass on the main goroutine
	h.s.racing = true
	callsBefore := len(h.s.calls)
	h.dl = ddl
	listed := h.s.listed(h.ctx)
	err := h.s.term.Drain(h.ctx, theNode.DeepCopy(), dlTime(ddl))
	mid := h.s.snapshot()
	var evs [][2]int64
	for _, q := range h.s.q.VerifDrainSource() {
		evs = append(evs, podKey(q))
	}
	sort.Slice(evs, func(i, j int) bool { return evs[i][0] < evs[j][0] || (evs[i][0] == evs[j][0] && evs[i][1] < evs[j][1]) })
	gerr := "DOk"
	switch {
	case err == nil:
	case terminator.IsNodeDrainError(err):
		var n int64
		if _, e := fmt.Sscanf(err.Error(), "%d pods are waiting to be evicted", &n); e != nil {
			n = -1
		}
		gerr = "(DWaiting " + gZ(n) + ")"
	default:
		gerr = "DOther"
	}
	if len(h.s.calls) != callsBefore {
		h.c.Fail(h.c.NextID(), "oracle:drain-direct-call: Terminator.Drain itself issued evict/delete calls", "", map[string]any{"ops": h.sum})
	}
	// ---- let the reconcile continue at anow
	h.now = anow
	h.setClock()
	h.s.gate.release <- struct{}{}
	r := <-done
	h.s.racing = false
	after := h.s.snapshot()
	_ = h.s.q.VerifDrainSource()
	gact, gres, act := "None", "RDone", ""
	if len(h.s.calls) > 1 {
		h.c.Fail(h.c.NextID(), fmt.Sprintf("oracle:reconcile-many-calls: one reconcile issued %d evict/delete calls", len(h.s.calls)), "", map[string]any{"ops": h.sum})
	}
	if len(h.s.calls) >= 1 {
		cl := h.s.calls[0]
		if cl.key != podKey(obj) {
			h.c.Fail(h.c.NextID(), "oracle:reconcile-other-pod: the reconcile acted on a pod other than the reconciled one", "", map[string]any{"ops": h.sum})
		}
		if cl.kind == "evict" {
			gact, act = "(Some Evict)", "evict"
		} else {
			gact, act = "(Some (Delete "+gZ(cl.grace)+"))", "delete"
		}
		h.acts++
	}
	h.checkWrites("Reconcile||Drain")
	switch {
	case r.err != nil:
		gres = "RErr"
	case r.res.Requeue || r.res.RequeueAfter != 0: //nolint:staticcheck
		gres = "RRequeue"
	}
	idx := make([]string, len(listed))
	for i, q := range listed {
		idx[i] = gZ(int64(h.idx(toModel(q))))
	}
	h.ops = append(h.ops, fmt.Sprintf("IRace %s %s %s %s %s %s %s %s %s %s %s %s %s",
		gZ(int64(h.idx(toModel(obj)))), pl.api, kit.GBool(pl.nodeOK),
		gZ(dnow), gOptZ(ddl), kit.GList(idx), gerr, kit.GListOf(evs, gKey), gQueue(mid),
		gZ(anow), gact, gres, gQueue(after)))
	h.sum = append(h.sum, fmt.Sprintf("race: reconcile p%d/u%d reads; drain@%d dl=%s -> %s; acts@%d api=%s -> %s %s",
		p.Name, p.UID, dnow, gOptZ(ddl), gerr, anow, pl.api, gact, gres))
	h.drains++
	// classification
	k := podKey(obj)
	rd, _ := qLookup(before, k)
	md, inMid := qLookup(mid, k)
	where := map[bool]string{true: "parked-at-api-call", false: "parked-at-clock"}[parkedAtAPI]
	h.c.Count("race:" + where)
	changed := inMid && ((rd == nil) != (md == nil) || (rd != nil && md != nil && *rd != *md))
	switch {
	case !changed:
		h.c.Count("race:window-pass-kept-deadline:" + map[string]string{"": "no-call", "evict": "evict", "delete": "delete"}[act])
	default:
		h.c.Count("race:window-pass-tightened-deadline:" + map[string]string{"": "no-call", "evict": "evict", "delete": "delete"}[act])
		kf = true
	}
	if _, still := qLookup(after, k); inMid && !still && changed {
		h.c.Count("race:complete-dropped-tightened-entry")
	}
	return kf
}

// runRace builds one small case: a pass that queues the pods, optionally a first reconcile, then the race.
func runRace(c *kit.Ctx) {
	r := c.Rand.Fork()
	h := newHist(c, r)
	for i, n := 0, r.Range(1, 3); i < n; i++ {
		p := basePod(i + 1)
		p.UID = h.nextID
		h.nextID++
		switch r.Intn(6) {
		case 0:
			p.Dnd = str("true")
		case 1:
			p.Dnd = str("10m")
		case 2:
			p.Grace = i64(kit.Pick(r, []int64{0, 1, 10, 60, 600}))
		case 3:
			p.Owners = []string{"oDS"}
		case 4:
			p.Prio = "system-node-critical"
		}
		h.world[p.Name] = p
	}
	var old *int64
	if !r.Chance(1, 4) {
		old = i64(int64(kit.Pick(r, []int{200, 300, 300, 600})) * sec)
	}
	h.dl, h.now = old, 0
	h.drain(false)
	snap := h.s.snapshot()
	if len(snap) == 0 {
		h.emit("race")
		return
	}
	var cand []*podSpec
	for _, p := range h.worldPods() {
		if _, ok := qLookup(snap, [2]int64{int64(p.Name), int64(p.UID)}); ok {
			cand = append(cand, p)
		}
	}
	p := kit.Pick(r, cand)
	// the pass in the window: same, tightened, relaxed or no deadline
	dnow := int64(r.Range(1, 100)) * sec
	var ddl *int64
	switch r.Intn(6) {
	case 0:
		ddl = old
	case 1:
		ddl = nil
	case 2:
		ddl = i64(900 * sec)
	default:
		ddl = i64(dnow + int64(kit.Pick(r, []int{-5, 0, 1, 20, 20, 60}))*sec) // t -> about now (node repair), nil -> t
	}
	// the action instant: around the thresholds of both deadlines
	var cands []int64
	g := int64(30)
	if p.Grace != nil {
		g = *p.Grace
	}
	for _, d := range []*int64{old, ddl} {
		if d != nil {
			for _, x := range []int64{-1, 0, 1, sec, 5 * sec} {
				cands = append(cands, *d-g*sec+x, *d+x)
			}
		}
	}
	cands = append(cands, dnow, dnow+sec/2, dnow+10*sec)
	var later []int64
	for _, x := range cands {
		if x >= dnow {
			later = append(later, x)
		}
	}
	anow := kit.Pick(r, later)
	kf := h.race(p, plan{api: kit.Pick(r, apiPlans), nodeOK: true}, dnow, ddl, anow)
	// what the next pass and reconcile do (self-healing)
	h.now = anow + sec
	h.drain(false)
	term := fmt.Sprintf("Case %s %s", kit.GList(wrapAll(h.table)), kit.GList(wrapAll(h.ops)))
	in := map[string]any{"kind": "race", "pods": h.table, "ops": h.ops, "summary": h.sum}
	if kf {
		in["kf_key"] = kfStale
	}
	h.c.AddCase(term, in, "race:"+fmt.Sprint(h.sum))
	h.c.Count("case:race")
}

// runRaceWitness replays the witness of Split.split_deadline_never_later_refuted_l on the real code.
func runRaceWitness(c *kit.Ctx) {
	h := newHist(c, c.Rand.Fork())
	p := basePod(1)
	p.Dnd = str("true")
	p.Start = i64(0)
	h.world[1] = p
	h.dl, h.now = i64(300*sec), 0
	h.drain(false)
	kf := h.race(p, plan{api: "AOk", nodeOK: true}, 100*sec, i64(120*sec), 280*sec)
	if len(h.s.calls) != 1 || h.s.calls[0].kind != "delete" || h.s.calls[0].grace != 20 || !kf {
		panic(fmt.Sprintf("race witness no longer reproduces: calls=%+v kf=%v", h.s.calls, kf))
	}
	h.now = 281 * sec
	h.drain(false)
	term := fmt.Sprintf("Case %s %s", kit.GList(wrapAll(h.table)), kit.GList(wrapAll(h.ops)))
	h.c.AddCase(term, map[string]any{"kind": "race-witness", "pods": h.table, "ops": h.ops, "summary": h.sum, "kf_key": kfStale}, "race-witness")
	h.c.Count("case:race-witness")
}
