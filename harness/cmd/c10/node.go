package main

// Node level: the real node termination controller (termination.Controller.Reconcile -> finalize -> awaitDrain) is
// driven around the drain model. What is checked: the deadline that reaches the eviction queue is the NodeClaim's
// karpenter.sh/nodeclaim-termination-timestamp (none without NodeClaim / annotation; no drain at all when it does not
// parse), and the Drained condition (Unknown "Draining" at first, True once nothing waits and MinDrainTime passed).
// Environment between passes: the lifecycle controller adds the annotation (absent -> t), the node health controller
// moves it to now, somebody writes garbage, the clock advances, queued pods are reconciled.

import (
	"context"
	"errors"
	"fmt"
	"sort"
	"time"

	"github.com/awslabs/operatorpkg/object"
	corev1 "k8s.io/api/core/v1"
	apierrors "k8s.io/apimachinery/pkg/api/errors"
	metav1 "k8s.io/apimachinery/pkg/apis/meta/v1"
	"k8s.io/apimachinery/pkg/runtime/schema"
	clock "k8s.io/utils/clock/testing"
	"sigs.k8s.io/controller-runtime/pkg/client"
	"sigs.k8s.io/controller-runtime/pkg/client/interceptor"

	v1 "sigs.k8s.io/karpenter/pkg/apis/v1"
	"sigs.k8s.io/karpenter/pkg/cloudprovider"
	"sigs.k8s.io/karpenter/pkg/cloudprovider/fake"
	"sigs.k8s.io/karpenter/pkg/controllers/node/termination"
	"sigs.k8s.io/karpenter/pkg/controllers/node/termination/terminator"
	"sigs.k8s.io/karpenter/pkg/test"

	"verifharness/kit"
)

type nodeOpts struct {
	deleting, finalizer, managed, ready bool
	instance                           string // "there" | "gone" | "error" (asked only for a not-ready node)
	taints                             []corev1.Taint
	claims                             int  // NodeClaims with the node's provider id: 0, 1, 2 (duplicates = treated as none)
	reason                             bool // the NodeClaim carries a DisruptionReason condition (eviction reason metric)
}

type nodeSut struct {
	h        *hist // bookkeeping only (pod table, ops, summary)
	clk      *clock.FakeClock
	c        client.Client
	q        *terminator.Queue
	ctrl     *termination.Controller
	calls    []call
	api      string
	direct   bool // the harness itself removes a pod (kubelet finished)
	hasClaim bool
	opts     nodeOpts
	armed    bool   // faults apply only while the controller runs
	fault    string // per pass: "", claim-list-fails, claim-delete-fails, taint-conflict, taint-error, pod-list-fails, status-patch-fails
	ctx      context.Context
}

const claimName = "claim-a"

type nodeProvider struct {
	*fake.CloudProvider
	n *nodeSut
}

func (p *nodeProvider) Get(_ context.Context, id string) (*v1.NodeClaim, error) {
	switch p.n.opts.instance {
	case "gone":
		return nil, cloudprovider.NewNodeClaimNotFoundError(fmt.Errorf("instance %s not found", id))
	case "error":
		return nil, errors.New("provider unavailable")
	}
	return &v1.NodeClaim{Status: v1.NodeClaimStatus{ProviderID: id}}, nil
}

func newNodeSut(c *kit.Ctx, r *kit.Rand, pods []*podSpec, o nodeOpts, ann *string) *nodeSut {
	n := &nodeSut{h: newHist(c, r), clk: clock.NewFakeClock(base), hasClaim: o.claims == 1, opts: o, ctx: kit.Context(), api: "AOk"}
	nodeClass := test.NodeClass()
	nodeClass.Name = "default"
	node := &corev1.Node{
		ObjectMeta: metav1.ObjectMeta{Name: nodeName, Labels: map[string]string{v1.NodePoolLabelKey: "pool"}},
		Spec:       corev1.NodeSpec{ProviderID: "fake://node-a", Taints: o.taints},
		Status: corev1.NodeStatus{Conditions: []corev1.NodeCondition{{Type: corev1.NodeReady,
			Status: map[bool]corev1.ConditionStatus{true: corev1.ConditionTrue, false: corev1.ConditionFalse}[o.ready]}}},
	}
	if o.managed {
		node.Labels[v1.NodeClassLabelKey(object.GVK(nodeClass).GroupKind())] = nodeClass.Name
	}
	if o.finalizer {
		node.Finalizers = []string{v1.TerminationFinalizer}
	} else {
		node.Finalizers = []string{"example.com/other"}
	}
	if o.deleting {
		del := metav1.NewTime(base.Add(-time.Second))
		node.DeletionTimestamp = &del
	}
	objs := []client.Object{nodeClass, node}
	for i := 0; i < o.claims; i++ {
		nc := test.NodeClaim(v1.NodeClaim{ObjectMeta: metav1.ObjectMeta{Name: []string{claimName, "claim-b"}[i], Finalizers: []string{v1.TerminationFinalizer}},
			Status: v1.NodeClaimStatus{ProviderID: "fake://node-a", NodeName: nodeName}})
		if ann != nil {
			nc.Annotations = map[string]string{v1.NodeClaimTerminationTimestampAnnotationKey: *ann}
		}
		if o.reason {
			nc.StatusConditions().SetTrueWithReason(v1.ConditionTypeDisruptionReason, "Drifted", "Drifted")
		}
		objs = append(objs, nc)
	}
	for _, p := range pods {
		objs = append(objs, mkPod(p))
	}
	n.c = kit.NewClient(interceptor.Funcs{
		SubResourceCreate: func(ctx context.Context, cl client.Client, sub string, obj client.Object, subres client.Object, opts ...client.SubResourceCreateOption) error {
			pod, ok := obj.(*corev1.Pod)
			if sub != "eviction" || !ok {
				return cl.SubResource(sub).Create(ctx, obj, subres, opts...)
			}
			n.calls = append(n.calls, call{kind: "evict", key: podKey(pod)})
			return (&sut{plan: plan{api: n.api}}).apiErr(pod.Name)
		},
		Delete: func(ctx context.Context, cl client.WithWatch, obj client.Object, opts ...client.DeleteOption) error {
			if _, isClaim := obj.(*v1.NodeClaim); isClaim && n.hot() == "claim-delete-fails" {
				return apierrors.NewInternalError(errors.New("injected"))
			}
			pod, ok := obj.(*corev1.Pod)
			if !ok || n.direct {
				return cl.Delete(ctx, obj, opts...)
			}
			do := &client.DeleteOptions{}
			do.ApplyOptions(opts)
			g := int64(-1)
			if do.GracePeriodSeconds != nil {
				g = *do.GracePeriodSeconds
			}
			n.calls = append(n.calls, call{kind: "delete", key: podKey(pod), grace: g})
			return (&sut{plan: plan{api: n.api}}).apiErr(pod.Name)
		},
		List: func(ctx context.Context, cl client.WithWatch, list client.ObjectList, opts ...client.ListOption) error {
			switch list.(type) {
			case *v1.NodeClaimList:
				if n.hot() == "claim-list-fails" {
					return apierrors.NewInternalError(errors.New("injected"))
				}
			case *corev1.PodList:
				if n.hot() == "pod-list-fails" {
					return apierrors.NewInternalError(errors.New("injected"))
				}
			}
			return cl.List(ctx, list, opts...)
		},
		Patch: func(ctx context.Context, cl client.WithWatch, obj client.Object, patch client.Patch, opts ...client.PatchOption) error {
			if _, isNode := obj.(*corev1.Node); isNode {
				switch n.hot() {
				case "taint-conflict":
					return apierrors.NewConflict(schema.GroupResource{Resource: "nodes"}, nodeName, errors.New("injected"))
				case "taint-error":
					return apierrors.NewInternalError(errors.New("injected"))
				}
			}
			return cl.Patch(ctx, obj, patch, opts...)
		},
		SubResourcePatch: func(ctx context.Context, cl client.Client, sub string, obj client.Object, patch client.Patch, opts ...client.SubResourcePatchOption) error {
			if _, isClaim := obj.(*v1.NodeClaim); isClaim && sub == "status" && n.hot() == "status-patch-fails" {
				return apierrors.NewInternalError(errors.New("injected"))
			}
			return cl.SubResource(sub).Patch(ctx, obj, patch, opts...)
		},
	}, objs...)
	rec := test.NewEventRecorder()
	n.q = terminator.NewQueue(n.clk, n.c, rec)
	n.ctrl = termination.NewController(n.clk, n.c, &nodeProvider{CloudProvider: fake.NewCloudProvider(), n: n}, terminator.NewTerminator(n.clk, n.c, n.q, rec), rec)
	return n
}

func (n *nodeSut) hot() string {
	if n.armed {
		return n.fault
	}
	return ""
}

func (n *nodeSut) snapshot() []qitem { return (&sut{q: n.q}).snapshot() }

func (n *nodeSut) claim() *v1.NodeClaim {
	nc := &v1.NodeClaim{}
	if err := n.c.Get(n.ctx, client.ObjectKey{Name: claimName}, nc); err != nil {
		return nil
	}
	return nc
}

func gCond(nc *v1.NodeClaim) string {
	if nc == nil {
		return "CAbsent"
	}
	cnd := nc.StatusConditions().Get(v1.ConditionTypeDrained)
	switch {
	case cnd == nil:
		return "CAbsent"
	case cnd.IsTrue():
		return "CTrue"
	case cnd.IsUnknown():
		return "(CUnknown " + gZ(relNs(cnd.LastTransitionTime.Time)) + ")"
	}
	return "CFalse" // not a constructor of the model: a False Drained condition would not type-check
}

func gAnn(nc *v1.NodeClaim) string {
	if nc == nil {
		return "AnnNone"
	}
	val, ok := nc.Annotations[v1.NodeClaimTerminationTimestampAnnotationKey]
	if !ok {
		return "AnnNone"
	}
	t, err := time.Parse(time.RFC3339, val)
	if err != nil {
		return "AnnBad"
	}
	return "(AnnTime " + gZ(relNs(t)) + ")"
}

func (n *nodeSut) pods() []*corev1.Pod {
	var l corev1.PodList
	if err := n.c.List(n.ctx, &l, client.MatchingFields{"spec.nodeName": nodeName}); err != nil {
		panic(err)
	}
	out := make([]*corev1.Pod, len(l.Items))
	for i := range l.Items {
		out[i] = &l.Items[i]
	}
	sort.Slice(out, func(i, j int) bool { a, b := podKey(out[i]), podKey(out[j]); return a[0] < b[0] || (a[0] == b[0] && a[1] < b[1]) })
	return out
}

func hasDisruptedTaint(node *corev1.Node) bool {
	for _, t := range node.Spec.Taints {
		if t.Key == v1.DisruptedTaintKey && t.Effect == corev1.TaintEffectNoSchedule {
			return true
		}
	}
	return false
}

// gateOf says which gate of the model this pass goes through, in the order the controller checks them.
func (n *nodeSut) gateOf(node *corev1.Node, claim *v1.NodeClaim) string {
	o := n.opts
	switch {
	case !o.deleting, !o.finalizer, !o.managed:
		return "GSkip"
	case n.fault == "claim-list-fails":
		return "GEarlyError"
	case n.hasClaim && claim != nil && claim.DeletionTimestamp == nil && n.fault == "claim-delete-fails":
		return "GEarlyError"
	case !o.ready && o.instance == "gone":
		return "GInstanceGone"
	case !o.ready && o.instance == "error":
		return "GEarlyError"
	}
	tainted := hasDisruptedTaint(node) && node.Labels[corev1.LabelNodeExcludeBalancers] == "karpenter"
	switch {
	case n.fault == "taint-conflict" && !tainted:
		return "GTaintConflict"
	case n.fault == "taint-error" && !tainted:
		return "GTaintError"
	case n.fault == "pod-list-fails":
		return "GPodListFails"
	case n.fault == "status-patch-fails":
		return "GStatusPatchFails"
	}
	return "GRun"
}

// pass runs one reconcile of the node; returns false when the node is done (drained or gone).
func (n *nodeSut) pass() bool {
	h := n.h
	n.clk.SetTime(at(h.now))
	node := &corev1.Node{}
	if err := n.c.Get(n.ctx, client.ObjectKey{Name: nodeName}, node); err != nil {
		return false
	}
	before := n.claim()
	if !n.hasClaim {
		before = nil // none, or duplicates (treated as none)
	}
	if n.fault == "taint-conflict" || n.fault == "taint-error" {
		if hasDisruptedTaint(node) && node.Labels[corev1.LabelNodeExcludeBalancers] == "karpenter" {
			n.fault = "" // no taint patch will be issued; the fault would hit the finalizer patch instead
		}
	}
	gate := n.gateOf(node, before)
	if gate == "GInstanceGone" && (n.fault == "taint-conflict" || n.fault == "taint-error") {
		n.fault = "" // would hit the finalizer patch of the vanished instance's node instead of the taint patch
	}
	pods := n.pods()
	n.calls = nil
	n.armed = true
	result, err := n.ctrl.Reconcile(n.ctx, node.DeepCopy())
	n.armed = false
	after := n.claim()
	snap := n.snapshot()
	var evs [][2]int64
	for _, p := range n.q.VerifDrainSource() {
		evs = append(evs, podKey(p))
	}
	sort.Slice(evs, func(i, j int) bool { return evs[i][0] < evs[j][0] || (evs[i][0] == evs[j][0] && evs[i][1] < evs[j][1]) })
	if len(n.calls) > 0 {
		h.c.Fail(h.c.NextID(), "oracle:drain-direct-call: the node termination reconcile itself issued evict/delete calls", "", map[string]any{"ops": h.sum})
	}
	nodeAfter := &corev1.Node{}
	gone := n.c.Get(n.ctx, client.ObjectKey{Name: nodeName}, nodeAfter) != nil
	res := "NSkip"
	switch {
	case err != nil:
		res = "NError"
	case n.hasClaim && after != nil && after.StatusConditions().IsTrue(v1.ConditionTypeDrained):
		res = "NDrained"
	case gone:
		res = "NGone"
	case result.Requeue || result.RequeueAfter != 0: //nolint:staticcheck
		res = "NRequeue"
	}
	// the taint is in place whenever the drain was reached
	if !gone && (gate == "GRun" || gate == "GPodListFails" || gate == "GStatusPatchFails") && gAnn(before) != "AnnBad" {
		var others, othersAfter []string
		for _, t := range node.Spec.Taints {
			if t.Key != v1.DisruptedTaintKey {
				others = append(others, t.ToString())
			}
		}
		cnt := 0
		for _, t := range nodeAfter.Spec.Taints {
			if t.Key == v1.DisruptedTaintKey {
				cnt++
			} else {
				othersAfter = append(othersAfter, t.ToString())
			}
		}
		if cnt != 1 || !hasDisruptedTaint(nodeAfter) || fmt.Sprint(others) != fmt.Sprint(othersAfter) || nodeAfter.Labels[corev1.LabelNodeExcludeBalancers] != "karpenter" {
			h.c.Fail(h.c.NextID(), fmt.Sprintf("oracle:node-taint: pods are drained from a node that is not (exactly once) tainted %s:NoSchedule, or other taints were lost: before %v after %v",
				v1.DisruptedTaintKey, node.Spec.Taints, nodeAfter.Spec.Taints), "", map[string]any{"ops": h.sum})
		}
	}
	idx := make([]string, len(pods))
	for i, p := range pods {
		idx[i] = gZ(int64(h.idx(toModel(p))))
	}
	cafter := gCond(after)
	if !n.hasClaim {
		cafter = "CAbsent"
	}
	deleting := before != nil && before.DeletionTimestamp != nil
	if n.hasClaim && !deleting && gate == "GRun" {
		h.c.Count("node:first-pass-status-patch-conflict")
	}
	h.ops = append(h.ops, fmt.Sprintf("INode %s %s %s %s %s %s %s %s %s %s %s", gate, kit.GBool(n.hasClaim), kit.GBool(deleting), gAnn(before), gCond(before), gZ(h.now),
		kit.GList(idx), res, cafter, kit.GListOf(evs, gKey), gQueue(snap)))
	h.sum = append(h.sum, fmt.Sprintf("node-pass@%d gate=%s fault=%q claims=%d ann=%s cond=%s -> %s cond=%s queued=%d", h.now, gate, n.fault, n.opts.claims, gAnn(before), gCond(before), res, cafter, len(snap)))
	h.drains++
	if gate == "GRun" {
		h.c.Count("node:" + res + ":" + map[bool]string{true: "claim", false: "no-claim"}[n.hasClaim] + ":" + gAnn(before)[:min(8, len(gAnn(before)))])
	} else {
		h.c.Count("node:gate:" + gate + ":" + res)
	}
	if n.opts.claims == 2 {
		h.c.Count("node:duplicate-nodeclaims-treated-as-none")
	}
	if before != nil {
		if cnd := before.StatusConditions().Get(v1.ConditionTypeDrained); cnd != nil && cnd.IsUnknown() {
			switch d := h.now - relNs(cnd.LastTransitionTime.Time) - 5*sec; {
			case d == 0 || d == -1 || d == 1:
				h.c.Count(fmt.Sprintf("boundary:min-drain-time:%+dns", d))
			}
		}
	}
	return res != "NDrained" && res != "NGone" && !gone
}

func (n *nodeSut) setAnn(val *string) {
	nc := n.claim()
	if nc == nil {
		return
	}
	if val == nil {
		delete(nc.Annotations, v1.NodeClaimTerminationTimestampAnnotationKey)
	} else {
		if nc.Annotations == nil {
			nc.Annotations = map[string]string{}
		}
		nc.Annotations[v1.NodeClaimTerminationTimestampAnnotationKey] = *val
	}
	if err := n.c.Update(n.ctx, nc); err != nil {
		panic(err)
	}
}

// reconcileOne runs the eviction queue's reconcile on a queued pod and applies the kubelet's part on success.
func (n *nodeSut) reconcileOne(r *kit.Rand) {
	h := n.h
	snap := n.snapshot()
	pods := n.pods()
	var cand []*corev1.Pod
	for _, p := range pods {
		if _, ok := qLookup(snap, podKey(p)); ok {
			cand = append(cand, p)
		}
	}
	if len(cand) == 0 {
		return
	}
	obj := kit.Pick(r, cand)
	n.api = kit.Pick(r, []string{"AOk", "AOk", "AOk", "ATooMany"})
	n.clk.SetTime(at(h.now))
	n.calls = nil
	res, err := n.q.Reconcile(n.ctx, obj)
	after := n.snapshot()
	_ = n.q.VerifDrainSource()
	gact, gres := "None", "RDone"
	if len(n.calls) >= 1 {
		if n.calls[0].kind == "evict" {
			gact = "(Some Evict)"
		} else {
			gact = "(Some (Delete " + gZ(n.calls[0].grace) + "))"
		}
		h.acts++
	}
	switch {
	case err != nil:
		gres = "RErr"
	case res.Requeue || res.RequeueAfter != 0: //nolint:staticcheck
		gres = "RRequeue"
	}
	h.ops = append(h.ops, fmt.Sprintf("IRec %s %s %s true %s %s %s", gZ(h.now), gZ(int64(h.idx(toModel(obj)))), n.api, gact, gres, gQueue(after)))
	h.sum = append(h.sum, fmt.Sprintf("reconcile@%d %s api=%s -> %s %s", h.now, obj.Name, n.api, gact, gres))
	if len(n.calls) >= 1 && n.api == "AOk" && obj.DeletionTimestamp == nil {
		n.direct = true
		if err := n.c.Delete(n.ctx, obj); err != nil {
			panic(err)
		}
		n.direct = false
	}
}

func rfc(ns int64) *string { return str(at(ns).UTC().Format(time.RFC3339)) }

func runNode(c *kit.Ctx) {
	r := c.Rand.Fork()
	var pods []*podSpec
	for i, k := 0, r.Range(0, 3); i < k; i++ {
		p := basePod(i + 1)
		switch r.Intn(7) {
		case 0:
			p.Dnd = str(kit.Pick(r, []string{"true", "20s", "2m", "1h", "bogus"}))
		case 1:
			p.Grace = i64(kit.Pick(r, []int64{0, 1, 10, 60, 600}))
		case 2:
			p.Owners = []string{"oDS"}
		case 3:
			p.Prio = "system-cluster-critical"
		case 4:
			p.Owners = []string{"oNode"}
		case 5:
			p.Phase = corev1.PodSucceeded
		}
		pods = append(pods, p)
	}
	o := nodeOpts{deleting: true, finalizer: true, managed: true, ready: true, instance: "there", claims: 1, reason: r.Chance(1, 3)}
	switch r.Intn(12) {
	case 0:
		o.claims = 0
	case 1:
		o.claims = 2
	case 2:
		switch r.Intn(3) {
		case 0:
			o.deleting = false
		case 1:
			o.finalizer = false
		case 2:
			o.managed = false
		}
	case 3, 4:
		o.ready = false
		o.instance = kit.Pick(r, []string{"there", "gone", "error"})
	}
	switch r.Intn(4) {
	case 0:
		o.taints = []corev1.Taint{{Key: "example.com/other", Effect: corev1.TaintEffectNoSchedule}}
	case 1: // the karpenter key with another effect must be replaced, others kept
		o.taints = []corev1.Taint{{Key: "example.com/other", Effect: corev1.TaintEffectNoExecute}, {Key: v1.DisruptedTaintKey, Effect: corev1.TaintEffectNoExecute}}
	case 2:
		o.taints = []corev1.Taint{{Key: v1.DisruptedTaintKey, Effect: corev1.TaintEffectNoSchedule}}
	}
	hasClaim := o.claims == 1
	var ann *string
	switch r.Intn(5) {
	case 0: // annotation not there yet (the lifecycle controller adds it after the NodeClaim delete)
	case 1:
		ann = str(kit.Pick(r, []string{"not-a-time", "2023-11-14 22:13:20", ""}))
	default:
		ann = rfc(int64(r.Range(5, 120)) * sec)
	}
	n := newNodeSut(c, r, pods, o, ann)
	h := n.h
	h.now = int64(r.Range(0, 3))*sec + kit.Pick(r, []int64{0, 0, sec / 2, 1})
	passes := 14
	if !o.deleting || !o.finalizer || !o.managed {
		passes = 2
	}
	for i := 0; i < passes; i++ {
		n.fault = ""
		if r.Chance(1, 6) {
			n.fault = kit.Pick(r, []string{"claim-list-fails", "claim-delete-fails", "taint-conflict", "taint-error", "pod-list-fails", "status-patch-fails"})
		}
		if !n.pass() {
			break
		}
		// environment
		switch x := r.Intn(10); {
		case x < 2 && hasClaim:
			switch r.Intn(4) {
			case 0:
				n.setAnn(rfc(h.now + int64(r.Range(10, 90))*sec)) // lifecycle controller: deletion time + TGP
				h.sum = append(h.sum, "env:annotation-set")
			case 1:
				n.setAnn(rfc(h.now)) // node health controller: now
				h.sum = append(h.sum, "env:annotation-now")
			case 2:
				n.setAnn(str("garbage"))
				h.sum = append(h.sum, "env:annotation-garbage")
			case 3:
				n.setAnn(nil)
				h.sum = append(h.sum, "env:annotation-removed")
			}
		case x < 7:
			n.reconcileOne(r)
		}
		// clock: mostly the controller's 1s requeue; sometimes to the MinDrainTime boundary +-1ns
		switch r.Intn(5) {
		case 0:
			if nc := n.claim(); nc != nil {
				if cnd := nc.StatusConditions().Get(v1.ConditionTypeDrained); cnd != nil && cnd.IsUnknown() {
					if t := relNs(cnd.LastTransitionTime.Time) + 5*sec + kit.Pick(r, []int64{-1, 0, 1}); t >= h.now {
						h.now = t
						continue
					}
				}
			}
			h.now += sec
		case 1:
			h.now += int64(r.Range(1, 30))*sec + kit.Pick(r, []int64{0, sec / 3})
		default:
			h.now += sec
		}
	}
	h.emit("node")
}
