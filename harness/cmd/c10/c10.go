// Package c10 drives the real Terminator.Drain and eviction Queue.Reconcile over generated pod mixes, clock
// positions, API answers (PDB 429, 404, 409, 5xx) and interleavings, and writes what they did as Gallina cases.
//
// The API server is the environment: before every op the harness materialises its world (node + pods) in a fresh
// controller-runtime fake client that the long-lived Queue/Terminator reach through a swappable client; eviction
// sub-resource creations and pod Deletes are intercepted, recorded and answered according to the op's plan, and the
// harness itself applies the effect on its world (terminating pod, removed pod) as the next environment step.
package main

import (
	"context"
	"errors"
	"fmt"
	"os"
	"sort"
	"strings"
	"time"

	"github.com/go-logr/logr"
	corev1 "k8s.io/api/core/v1"
	apierrors "k8s.io/apimachinery/pkg/api/errors"
	metav1 "k8s.io/apimachinery/pkg/apis/meta/v1"
	"k8s.io/apimachinery/pkg/runtime/schema"
	"k8s.io/apimachinery/pkg/types"
	clock "k8s.io/utils/clock/testing"
	"sigs.k8s.io/controller-runtime/pkg/client"
	"sigs.k8s.io/controller-runtime/pkg/client/interceptor"
	"sigs.k8s.io/controller-runtime/pkg/log"
	"sigs.k8s.io/controller-runtime/pkg/reconcile"

	v1 "sigs.k8s.io/karpenter/pkg/apis/v1"
	"sigs.k8s.io/karpenter/pkg/controllers/node/termination/terminator"
	"sigs.k8s.io/karpenter/pkg/test"
	podutil "sigs.k8s.io/karpenter/pkg/utils/pod"

	"verifharness/kit"
)

const (
	nodeName = "node-a"
	sec      = int64(time.Second)
	// the message the API server uses when a pod is covered by more than one PDB (eviction.go compares it literally)
	multiPDBMessage = "This pod has more than one PodDisruptionBudget, which the eviction subresource does not support."
)

var base = time.Unix(1_700_000_000, 0)

func at(ns int64) time.Time { return base.Add(time.Duration(ns)) }

// ------------------------------------------------------------------ world

type podSpec struct {
	Name, UID int
	Phase     corev1.PodPhase
	Del       *int64 // deletionTimestamp, seconds after base
	Grace     *int64
	Tols      []corev1.Toleration
	Owners    []string
	Prio      string
	Dnd       *string
	Start     *int64 // status.startTime, seconds after base
	OtherAnn  map[string]string // annotations other than do-not-disrupt
	OnNode    string            // "" = the draining node; else another node
}

// pods with Name >= 1000 live in namespace "other" under the name of pod Name-1000 (same name, other namespace)
func (p *podSpec) nsName() (string, string) {
	if p.Name >= 1000 {
		return "other", fmt.Sprintf("p%d", p.Name-1000)
	}
	return "default", fmt.Sprintf("p%d", p.Name)
}

func (p *podSpec) objKey() client.ObjectKey {
	ns, nm := p.nsName()
	return client.ObjectKey{Namespace: ns, Name: nm}
}

func (p *podSpec) clone() *podSpec {
	q := *p
	q.Tols = append([]corev1.Toleration(nil), p.Tols...)
	q.Owners = append([]string(nil), p.Owners...)
	return &q
}

var ownerKinds = map[string][2]string{
	"oNode": {"v1", "Node"}, "oDS": {"apps/v1", "DaemonSet"}, "oRS": {"apps/v1", "ReplicaSet"}, "oSTS": {"apps/v1", "StatefulSet"},
	"oNodeApps": {"apps/v1", "Node"}, "oDSBeta": {"apps/v1beta1", "DaemonSet"}, "oDSCore": {"v1", "DaemonSet"},
}

func i64(x int64) *int64 { return &x }
func str(s string) *string { return &s }

func mkPod(p *podSpec) *corev1.Pod {
	ns, nm := p.nsName()
	onNode := nodeName
	if p.OnNode != "" {
		onNode = p.OnNode
	}
	pod := &corev1.Pod{
		ObjectMeta: metav1.ObjectMeta{Namespace: ns, Name: nm, UID: types.UID(fmt.Sprintf("u%d", p.UID))},
		Spec: corev1.PodSpec{NodeName: onNode, PriorityClassName: p.Prio, TerminationGracePeriodSeconds: p.Grace,
			Tolerations: p.Tols, Containers: []corev1.Container{{Name: "c", Image: "i"}}},
		Status: corev1.PodStatus{Phase: p.Phase},
	}
	if p.Del != nil {
		t := metav1.NewTime(at(*p.Del * sec))
		pod.DeletionTimestamp = &t
		pod.Finalizers = []string{"verif.test/hold"} // the fake client refuses terminating objects without finalizers
	}
	for i, o := range p.Owners {
		k := ownerKinds[o]
		pod.OwnerReferences = append(pod.OwnerReferences, metav1.OwnerReference{APIVersion: k[0], Kind: k[1], Name: fmt.Sprintf("o%d", i), UID: types.UID(fmt.Sprintf("ou%d", i))})
	}
	if p.OtherAnn != nil {
		pod.Annotations = map[string]string{}
		for k, v := range p.OtherAnn {
			pod.Annotations[k] = v
		}
	}
	if p.Dnd != nil {
		if pod.Annotations == nil {
			pod.Annotations = map[string]string{}
		}
		pod.Annotations[v1.DoNotDisruptAnnotationKey] = *p.Dnd
	}
	if p.Start != nil {
		t := metav1.NewTime(at(*p.Start * sec))
		pod.Status.StartTime = &t
	}
	return pod
}

func podKey(pod *corev1.Pod) [2]int64 {
	var n, u int64
	if _, err := fmt.Sscanf(pod.Name, "p%d", &n); err != nil {
		panic("unexpected pod name " + pod.Name)
	}
	if pod.Namespace == "other" {
		n += 1000
	}
	if _, err := fmt.Sscanf(string(pod.UID), "u%d", &u); err != nil {
		panic("unexpected pod uid " + string(pod.UID))
	}
	return [2]int64{n, u}
}

// compact literals: the case files open Z_scope and string_scope, so no scope annotations are needed
func gZ(z int64) string {
	if z < 0 {
		return fmt.Sprintf("(%d)", z)
	}
	return fmt.Sprintf("%d", z)
}

func gStr(s string) string {
	for i := 0; i < len(s); i++ {
		if s[i] < 32 || s[i] > 126 {
			panic(fmt.Sprintf("gStr: non printable byte in %q", s))
		}
	}
	return "\"" + strings.ReplaceAll(s, "\"", "\"\"") + "\""
}

func gKey(k [2]int64) string { return fmt.Sprintf("(%s, %s)", gZ(k[0]), gZ(k[1])) }

func gOptZ(p *int64) string {
	if p == nil {
		return "None"
	}
	return "(Some " + gZ(*p) + ")"
}

func relNs(t time.Time) int64 { return int64(t.Sub(base)) }

// toModel is the abstraction from the API object (as the client returns it) to the model's pod record.
func toModel(pod *corev1.Pod) string {
	k := podKey(pod)
	terminal := pod.Status.Phase == corev1.PodFailed || pod.Status.Phase == corev1.PodSucceeded
	var del, start *int64
	if pod.DeletionTimestamp != nil {
		del = i64(relNs(pod.DeletionTimestamp.Time))
	}
	if pod.Status.StartTime != nil {
		start = i64(relNs(pod.Status.StartTime.Time))
	}
	tols := kit.GListOf(pod.Spec.Tolerations, func(t corev1.Toleration) string {
		return fmt.Sprintf("T %s %s %s %s", gStr(t.Key), gStr(string(t.Operator)), gStr(t.Value), gStr(string(t.Effect)))
	})
	owners := kit.GListOf(pod.OwnerReferences, func(o metav1.OwnerReference) string {
		for _, id := range kit.SortedKeys(ownerKinds) {
			if kk := ownerKinds[id]; kk[0] == o.APIVersion && kk[1] == o.Kind {
				return id
			}
		}
		return kit.GPair(gStr(o.APIVersion), gStr(o.Kind))
	})
	dnd := "DndNone"
	if val, ok := pod.Annotations[v1.DoNotDisruptAnnotationKey]; ok {
		if val == "true" {
			dnd = "DndTrue"
		} else if d, err := time.ParseDuration(val); err != nil {
			dnd = "DndBad"
		} else {
			dnd = "(DndDur " + gZ(int64(d)) + ")"
		}
	}
	return fmt.Sprintf("P %s %s %s %s %s %s %s %s %s %s", gZ(k[0]), gZ(k[1]), kit.GBool(terminal), gOptZ(del),
		gOptZ(pod.Spec.TerminationGracePeriodSeconds), tols, owners, gStr(pod.Spec.PriorityClassName), dnd, gOptZ(start))
}

// ------------------------------------------------------------------ the system under test

type swap struct{ client.Client }

type call struct {
	kind  string // "evict" | "delete"
	key   [2]int64
	grace int64
}

type plan struct {
	api      string // AOk ANotFound AConflict ATooMany AMultiPDB AOther
	flavor   string // how the API server words that answer (same model constructor)
	nodeOK   bool
	listFail bool
}

type sut struct {
	clk    *clock.FakeClock
	sw     *swap
	q      *terminator.Queue
	term   *terminator.Terminator
	calls  []call
	writes []string
	plan   plan
	sig    string
	gate   *gate
	racing bool // a reconcile is parked at the gate: do not reset the call log
}

var podGR = schema.GroupResource{Resource: "pods"}

func (s *sut) apiErr(name string) error {
	switch s.plan.api {
	case "AOk":
		return nil
	case "ANotFound":
		return apierrors.NewNotFound(podGR, name)
	case "AConflict":
		return apierrors.NewConflict(podGR, name, errors.New("precondition failed: UID in precondition differs"))
	case "ATooMany":
		switch s.plan.flavor {
		case "429-unhealthy-pod-if-healthy-budget":
			// unhealthyPodEvictionPolicy=IfHealthyBudget and the budget is not healthy: still a 429 for the caller
			return apierrors.NewTooManyRequests("Cannot evict pod as it would violate the pod's disruption budget. The disruption budget pdb needs 3 healthy pods and has 1 currently", 5)
		case "429-with-multi-pdb-message":
			return apierrors.NewTooManyRequests(multiPDBMessage, 0)
		}
		return apierrors.NewTooManyRequests("Cannot evict pod as it would violate the pod's disruption budget.", 0)
	case "AMultiPDB":
		return &apierrors.StatusError{ErrStatus: metav1.Status{Status: metav1.StatusFailure, Code: 500, Message: multiPDBMessage}}
	}
	switch s.plan.flavor {
	case "plain-error-with-multi-pdb-text":
		return errors.New(multiPDBMessage) // not an APIStatus: the message must not be recognised
	case "500-other-message":
		return &apierrors.StatusError{ErrStatus: metav1.Status{Status: metav1.StatusFailure, Code: 500, Message: multiPDBMessage + " "}}
	}
	return apierrors.NewInternalError(errors.New("etcd unavailable"))
}

func (s *sut) funcs() interceptor.Funcs {
	return interceptor.Funcs{
		SubResourceCreate: func(ctx context.Context, _ client.Client, sub string, obj client.Object, _ client.Object, _ ...client.SubResourceCreateOption) error {
			pod, ok := obj.(*corev1.Pod)
			if sub != "eviction" || !ok {
				s.writes = append(s.writes, "subresource-create:"+sub)
				return nil
			}
			s.calls = append(s.calls, call{kind: "evict", key: podKey(pod)})
			s.gate.hit()
			return s.apiErr(pod.Name)
		},
		Delete: func(ctx context.Context, _ client.WithWatch, obj client.Object, opts ...client.DeleteOption) error {
			pod, ok := obj.(*corev1.Pod)
			if !ok {
				s.writes = append(s.writes, fmt.Sprintf("delete:%T", obj))
				return nil
			}
			do := &client.DeleteOptions{}
			do.ApplyOptions(opts)
			g := int64(-1) // no explicit grace period
			if do.GracePeriodSeconds != nil {
				g = *do.GracePeriodSeconds
			}
			s.calls = append(s.calls, call{kind: "delete", key: podKey(pod), grace: g})
			s.gate.hit()
			return s.apiErr(pod.Name)
		},
		Create: func(ctx context.Context, _ client.WithWatch, obj client.Object, _ ...client.CreateOption) error {
			s.writes = append(s.writes, fmt.Sprintf("create:%T", obj))
			return nil
		},
		Update: func(ctx context.Context, _ client.WithWatch, obj client.Object, _ ...client.UpdateOption) error {
			s.writes = append(s.writes, fmt.Sprintf("update:%T", obj))
			return nil
		},
		Patch: func(ctx context.Context, _ client.WithWatch, obj client.Object, _ client.Patch, _ ...client.PatchOption) error {
			s.writes = append(s.writes, fmt.Sprintf("patch:%T", obj))
			return nil
		},
		DeleteAllOf: func(ctx context.Context, _ client.WithWatch, obj client.Object, _ ...client.DeleteAllOfOption) error {
			s.writes = append(s.writes, fmt.Sprintf("deleteallof:%T", obj))
			return nil
		},
		SubResourceUpdate: func(ctx context.Context, _ client.Client, sub string, obj client.Object, _ ...client.SubResourceUpdateOption) error {
			s.writes = append(s.writes, "subresource-update:"+sub)
			return nil
		},
		SubResourcePatch: func(ctx context.Context, _ client.Client, sub string, obj client.Object, _ client.Patch, _ ...client.SubResourcePatchOption) error {
			s.writes = append(s.writes, "subresource-patch:"+sub)
			return nil
		},
		Get: func(ctx context.Context, c client.WithWatch, key client.ObjectKey, obj client.Object, opts ...client.GetOption) error {
			if _, ok := obj.(*corev1.Node); ok && !s.plan.nodeOK {
				return apierrors.NewNotFound(schema.GroupResource{Resource: "nodes"}, key.Name)
			}
			return c.Get(ctx, key, obj, opts...)
		},
		List: func(ctx context.Context, c client.WithWatch, list client.ObjectList, opts ...client.ListOption) error {
			if _, ok := list.(*corev1.PodList); ok && s.plan.listFail {
				return apierrors.NewInternalError(errors.New("list failed"))
			}
			return c.List(ctx, list, opts...)
		},
	}
}

func newSut() *sut {
	s := &sut{clk: clock.NewFakeClock(base), sw: &swap{}, gate: newGate()}
	s.restart()
	return s
}

// restart = process restart: a new queue and terminator (Queue.items is in-memory only).
func (s *sut) restart() {
	rec := test.NewEventRecorder()
	s.q = terminator.NewQueue(gateClock{FakeClock: s.clk, g: s.gate}, s.sw, rec)
	s.term = terminator.NewTerminator(s.clk, s.sw, s.q, rec)
}

var theNode = &corev1.Node{ObjectMeta: metav1.ObjectMeta{Name: nodeName}, Spec: corev1.NodeSpec{ProviderID: "fake://node-a"}}

// install puts the given pods (and the node) behind the client the queue and terminator use.
func (s *sut) install(pods []*podSpec) {
	if !s.racing {
		s.calls, s.writes = nil, nil
	}
	// every write is intercepted and never forwarded, so a client is immutable and can be reused while the
	// world is unchanged
	sort.Slice(pods, func(i, j int) bool { return pods[i].Name < pods[j].Name })
	var sig strings.Builder
	for _, p := range pods {
		sig.WriteString(toModel(mkPod(p)))
		sig.WriteString(string(p.Phase) + "@" + p.OnNode + fmt.Sprint(len(p.OtherAnn)))
		sig.WriteByte(';')
	}
	if s.sig == sig.String() && s.sw.Client != nil {
		return
	}
	s.sig = sig.String()
	objs := []client.Object{theNode.DeepCopy()}
	for _, p := range pods {
		objs = append(objs, mkPod(p))
	}
	s.sw.Client = kit.NewClient(s.funcs(), objs...)
}

func (s *sut) listed(ctx context.Context) []*corev1.Pod {
	var l corev1.PodList
	saved := s.plan
	s.plan.listFail = false
	if err := s.sw.List(ctx, &l, client.MatchingFields{"spec.nodeName": nodeName}); err != nil {
		panic(err)
	}
	s.plan = saved
	out := make([]*corev1.Pod, len(l.Items))
	for i := range l.Items {
		out[i] = &l.Items[i]
	}
	sort.Slice(out, func(i, j int) bool { a, b := podKey(out[i]), podKey(out[j]); return a[0] < b[0] || (a[0] == b[0] && a[1] < b[1]) })
	return out
}

type qitem struct {
	key [2]int64
	dl  *int64
}

func (s *sut) snapshot() []qitem {
	var out []qitem
	for _, it := range s.q.VerifItems() {
		var n, u int64
		if _, err := fmt.Sscanf(it.Key.Name, "p%d", &n); err != nil {
			panic(err)
		}
		if it.Key.Namespace == "other" {
			n += 1000
		}
		if _, err := fmt.Sscanf(string(it.Key.UID), "u%d", &u); err != nil {
			panic(err)
		}
		var d *int64
		if it.Deadline != nil {
			d = i64(relNs(*it.Deadline))
		}
		out = append(out, qitem{[2]int64{n, u}, d})
	}
	sort.Slice(out, func(i, j int) bool {
		return out[i].key[0] < out[j].key[0] || (out[i].key[0] == out[j].key[0] && out[i].key[1] < out[j].key[1])
	})
	return out
}

func gQueue(q []qitem) string {
	return kit.GListOf(q, func(it qitem) string { return "(" + gKey(it.key) + ", " + gOptZ(it.dl) + ")" })
}

func qLookup(q []qitem, k [2]int64) (*int64, bool) {
	for _, it := range q {
		if it.key == k {
			return it.dl, true
		}
	}
	return nil, false
}

// ------------------------------------------------------------------ one history

type hist struct {
	c      *kit.Ctx
	r      *kit.Rand
	s      *sut
	ctx    context.Context
	world  map[int]*podSpec
	nextID int
	table  []string
	tindex map[string]int
	ops    []string
	sum    []string
	now    int64
	dl     *int64
	acts   int
	drains int
}

func newHist(c *kit.Ctx, r *kit.Rand) *hist {
	return &hist{c: c, r: r, s: newSut(), ctx: kit.Context(), world: map[int]*podSpec{}, tindex: map[string]int{}, nextID: 1}
}

func (h *hist) idx(term string) int {
	if i, ok := h.tindex[term]; ok {
		return i
	}
	h.tindex[term] = len(h.table)
	h.table = append(h.table, term)
	return len(h.table) - 1
}

func (h *hist) worldPods() []*podSpec {
	names := make([]int, 0, len(h.world))
	for n := range h.world {
		names = append(names, n)
	}
	sort.Ints(names)
	out := make([]*podSpec, len(names))
	for i, n := range names {
		out[i] = h.world[n]
	}
	return out
}

func (h *hist) setClock() { h.s.clk.SetTime(at(h.now)) }

func dlTime(dl *int64) *time.Time {
	if dl == nil {
		return nil
	}
	t := at(*dl)
	return &t
}

func tierOf(p *corev1.Pod) int {
	t := 0
	if p.Spec.PriorityClassName == "system-cluster-critical" || p.Spec.PriorityClassName == "system-node-critical" {
		t += 2
	}
	for _, o := range p.OwnerReferences {
		if o.APIVersion == "apps/v1" && o.Kind == "DaemonSet" {
			t++
			break
		}
	}
	return t
}

func (h *hist) checkWrites(id string) {
	if len(h.s.writes) > 0 {
		h.c.Fail(h.c.NextID(), "oracle:direct-write: "+id+" wrote to the API outside the eviction/delete path: "+strings.Join(h.s.writes, ","), "", map[string]any{"ops": h.sum})
	}
}

// classify counts which branch of the pod predicates the real functions take for a listed pod.
func (h *hist) classify(p *corev1.Pod) {
	clk := h.s.clk
	switch {
	case podutil.IsTerminal(p):
		h.c.Count("pod:terminal")
	case podutil.ToleratesDisruptedNoScheduleTaint(p):
		h.c.Count("pod:tolerates-disrupted-taint")
	case podutil.IsOwnedByNode(p):
		h.c.Count("pod:static")
	case podutil.IsStuckTerminating(p, clk):
		h.c.Count("pod:stuck-terminating")
	case podutil.IsTerminating(p):
		h.c.Count("pod:waiting:terminating")
	case podutil.IsDoNotDisruptActive(p, clk, nil):
		if p.Annotations[v1.DoNotDisruptAnnotationKey] == "true" {
			h.c.Count("pod:waiting:do-not-disrupt-true")
		} else if p.Status.StartTime == nil {
			h.c.Count("pod:waiting:do-not-disrupt-duration-no-start")
		} else {
			h.c.Count("pod:waiting:do-not-disrupt-duration-active")
		}
	default:
		if _, ok := p.Annotations[v1.DoNotDisruptAnnotationKey]; ok {
			h.c.Count("pod:waiting:evictable:do-not-disrupt-expired-or-invalid")
		} else {
			h.c.Count("pod:waiting:evictable")
		}
	}
	if len(p.Spec.Tolerations) > 0 && !podutil.ToleratesDisruptedNoScheduleTaint(p) {
		h.c.Count("pod:toleration-near-miss")
	}
	if p.Spec.TerminationGracePeriodSeconds == nil {
		h.c.Count("pod:grace-nil")
	}
	if _, ok := p.Annotations[v1.DoNotDisruptAnnotationKey]; !ok && len(p.Annotations) > 0 {
		h.c.Count("pod:annotations-without-do-not-disrupt-key")
	}
	if p.Status.Phase != corev1.PodRunning && !podutil.IsTerminal(p) {
		h.c.Count("pod:phase-" + map[corev1.PodPhase]string{corev1.PodPending: "pending", corev1.PodUnknown: "unknown", "": "empty"}[p.Status.Phase])
	}
	// boundary hits of the time comparisons (exact instant, 1ns either side)
	near := func(name string, d int64) {
		switch d {
		case -1, 0, 1:
			h.c.Count(fmt.Sprintf("boundary:%s:%+dns", name, d))
		}
	}
	if h.dl != nil && p.Spec.TerminationGracePeriodSeconds != nil && p.DeletionTimestamp == nil {
		near("now-vs-deadline-minus-grace", h.now-(*h.dl-*p.Spec.TerminationGracePeriodSeconds*sec))
	}
	if p.DeletionTimestamp != nil {
		near("terminating-for-vs-1m", h.now-relNs(p.DeletionTimestamp.Time)-60*sec)
		if h.dl != nil {
			near("deletion-time-vs-deadline", relNs(p.DeletionTimestamp.Time)-*h.dl)
		}
	}
	if val, ok := p.Annotations[v1.DoNotDisruptAnnotationKey]; ok && p.Status.StartTime != nil {
		if d, err := time.ParseDuration(val); err == nil {
			near("pod-age-vs-do-not-disrupt", h.now-relNs(p.Status.StartTime.Time)-int64(d))
		}
	}
}

// drain runs Terminator.Drain over the current world.
func (h *hist) drain(listFail bool) {
	h.setClock()
	h.s.plan = plan{api: "AOk", nodeOK: true, listFail: listFail}
	h.s.install(h.worldPods())
	pods := h.s.listed(h.ctx)
	before := h.s.snapshot()
	err := h.s.term.Drain(h.ctx, theNode.DeepCopy(), dlTime(h.dl))
	after := h.s.snapshot()
	var evs [][2]int64
	for _, p := range h.s.q.VerifDrainSource() {
		evs = append(evs, podKey(p))
	}
	sort.Slice(evs, func(i, j int) bool { return evs[i][0] < evs[j][0] || (evs[i][0] == evs[j][0] && evs[i][1] < evs[j][1]) })
	gerr := "DOk"
	switch {
	case err == nil:
	case terminator.IsNodeDrainError(err):
		var n int64
		if _, e := fmt.Sscanf(err.Error(), "%d pods are waiting to be evicted", &n); e != nil {
			n = -1
		}
		gerr = "(DWaiting " + gZ(n) + ")"
	default:
		gerr = "DOther"
	}
	if len(h.s.calls) > 0 {
		h.c.Fail(h.c.NextID(), fmt.Sprintf("oracle:drain-direct-call: Terminator.Drain itself issued %d evict/delete call(s)", len(h.s.calls)), "", map[string]any{"ops": h.sum})
	}
	h.checkWrites("Drain")
	gevs := kit.GListOf(evs, gKey)
	if listFail {
		h.ops = append(h.ops, fmt.Sprintf("IDrainFail %s %s %s", gerr, gevs, gQueue(after)))
		h.sum = append(h.sum, "drain-list-fails")
		h.c.Count("drain:list-fails")
		return
	}
	idx := make([]string, len(pods))
	for i, p := range pods {
		idx[i] = gZ(int64(h.idx(toModel(p))))
		h.classify(p)
	}
	h.ops = append(h.ops, fmt.Sprintf("IDrain %s %s %s %s %s %s", gZ(h.now), gOptZ(h.dl), kit.GList(idx), gerr, gevs, gQueue(after)))
	h.sum = append(h.sum, fmt.Sprintf("drain@%d dl=%s pods=%d -> %s new=%d", h.now, gOptZ(h.dl), len(pods), gerr, len(evs)))
	h.drains++
	// branch accounting from what the implementation did
	switch {
	case err == nil:
		h.c.Count("drain:drained")
	default:
		forced, tiers := 0, map[int]bool{}
		for _, p := range pods {
			k := podKey(p)
			if _, was := qLookup(before, k); was {
				continue
			}
			if _, is := qLookup(after, k); !is {
				continue
			}
			if terminator.VerifNeedsForceDelete(p, dlTime(h.dl), h.s.clk) {
				forced++
			} else {
				tiers[tierOf(p)] = true
			}
		}
		if forced > 0 {
			h.c.Count("drain:queued-delete-eligible")
		}
		for t := range tiers {
			h.c.Count(fmt.Sprintf("drain:queued-graceful-tier%d", t))
		}
		if forced == 0 && len(tiers) == 0 {
			h.c.Count("drain:waiting-nothing-new")
		}
	}
	for _, it := range after {
		if old, was := qLookup(before, it.key); was {
			switch {
			case old == nil && it.dl != nil:
				h.c.Count("add:nil-deadline-tightened")
			case old != nil && it.dl != nil && *it.dl < *old:
				h.c.Count("add:deadline-tightened")
			case old != nil && h.dl != nil && *h.dl > *old:
				h.c.Count("add:later-deadline-ignored")
			case old != nil && h.dl == nil:
				h.c.Count("add:nil-deadline-ignored")
			}
		}
	}
}

// reconcile runs Queue.Reconcile on the given version of a pod.
func (h *hist) reconcile(p *podSpec, pl plan) (act string, ok bool) {
	h.setClock()
	h.s.plan = pl
	// the reconciled object is what the cache holds for that name; the rest of the world is as is
	var pods []*podSpec
	for _, w := range h.worldPods() {
		if w.Name != p.Name {
			pods = append(pods, w)
		}
	}
	pods = append(pods, p)
	h.s.install(pods)
	obj := &corev1.Pod{}
	if err := h.s.sw.Client.Get(h.ctx, p.objKey(), obj); err != nil {
		panic(err)
	}
	before := h.s.snapshot()
	res, err := h.s.q.Reconcile(h.ctx, obj)
	return h.finishReconcile(obj, p, pl, before, res, err)
}

// finishReconcile records what one (unraced) reconcile did.
func (h *hist) finishReconcile(obj *corev1.Pod, p *podSpec, pl plan, before []qitem, res reconcile.Result, err error) (act string, ok bool) {
	after := h.s.snapshot()
	_ = h.s.q.VerifDrainSource()
	gact, gres := "None", "RDone"
	if len(h.s.calls) > 1 {
		h.c.Fail(h.c.NextID(), fmt.Sprintf("oracle:reconcile-many-calls: one reconcile issued %d evict/delete calls", len(h.s.calls)), "", map[string]any{"ops": h.sum})
	}
	if len(h.s.calls) >= 1 {
		cl := h.s.calls[0]
		if cl.key != podKey(obj) {
			h.c.Fail(h.c.NextID(), "oracle:reconcile-other-pod: the reconcile acted on a pod other than the reconciled one", "", map[string]any{"ops": h.sum})
		}
		if cl.kind == "evict" {
			gact, act = "(Some Evict)", "evict"
		} else {
			gact, act = "(Some (Delete "+gZ(cl.grace)+"))", "delete"
		}
		h.acts++
	}
	h.checkWrites("Reconcile")
	switch {
	case err != nil:
		gres = "RErr"
	case res.Requeue || res.RequeueAfter != 0: //nolint:staticcheck
		gres = "RRequeue"
	}
	i := h.idx(toModel(obj))
	h.ops = append(h.ops, fmt.Sprintf("IRec %s %s %s %s %s %s %s", gZ(h.now), gZ(int64(i)), pl.api, kit.GBool(pl.nodeOK), gact, gres, gQueue(after)))
	h.sum = append(h.sum, fmt.Sprintf("reconcile@%d p%d/u%d api=%s -> %s %s", h.now, p.Name, p.UID, pl.api, gact, gres))
	// branch accounting
	if t, ok := qLookup(before, podKey(obj)); ok && t != nil {
		if d := *t - h.now; d >= -2*sec && d <= 3*sec {
			switch {
			case d%sec == 0:
				h.c.Count("boundary:remaining-time:whole-second")
			case d%sec == sec-1 || d%sec == -1:
				h.c.Count("boundary:remaining-time:1ns-below-whole-second")
			default:
				h.c.Count("boundary:remaining-time:fractional")
			}
			if d < 0 {
				h.c.Count("boundary:remaining-time:negative")
			}
		}
	}
	_, was := qLookup(before, podKey(obj))
	_, still := qLookup(after, podKey(obj))
	switch {
	case !was:
		h.c.Count("rec:not-queued")
	case act == "delete":
		h.c.Count("rec:force-delete:" + pl.api + map[bool]string{true: ":completed", false: ":kept"}[!still])
		if obj.DeletionTimestamp != nil {
			h.c.Count("rec:force-delete:terminating-beyond-deadline")
		} else {
			h.c.Count("rec:force-delete:grace-does-not-fit")
		}
		if h.s.calls[0].grace == 1 {
			h.c.Count("rec:force-delete:grace-floor-1s")
		} else {
			h.c.Count("rec:force-delete:grace>1s")
		}
	case act == "evict":
		if pl.flavor != "" {
			h.c.Count("rec:evict:answer-flavor:" + pl.flavor + ":" + gres)
		}
		h.c.Count("rec:evict:" + pl.api + map[bool]string{true: "", false: ":node-missing"}[pl.nodeOK || (pl.api != "ATooMany" && pl.api != "AMultiPDB")] + ":" + gres)
	case !still:
		h.c.Count("rec:inactive-completed")
	default:
		h.c.Count("rec:not-evictable-requeue")
	}
	return act, err == nil && pl.api == "AOk"
}

func (h *hist) restart() {
	h.s.restart()
	h.ops = append(h.ops, "IRestart "+gQueue(h.s.snapshot()))
	h.sum = append(h.sum, "restart")
	h.c.Count("restart")
}

func (h *hist) emit(kind string) {
	term := fmt.Sprintf("Case %s %s", kit.GList(wrapAll(h.table)), kit.GList(wrapAll(h.ops)))
	key := ""
	if h.acts > 0 && h.drains > 0 {
		key = strings.Join(h.sum, ";")
	}
	h.c.AddCase(term, map[string]any{"kind": kind, "pods": h.table, "ops": h.ops, "summary": h.sum}, key)
	h.c.Count("case:" + kind)
}

func wrapAll(xs []string) []string {
	out := make([]string, len(xs))
	for i, x := range xs {
		out[i] = "(" + x + ")"
	}
	return out
}

// ------------------------------------------------------------------ generators

func exists(key string, eff corev1.TaintEffect) corev1.Toleration {
	return corev1.Toleration{Key: key, Operator: corev1.TolerationOpExists, Effect: eff}
}

func basePod(name int) *podSpec {
	return &podSpec{Name: name, UID: name, Phase: corev1.PodRunning, Grace: i64(30), Owners: []string{"oRS"}, Start: i64(-100)}
}

type variant struct {
	name string
	f    func(p *podSpec)
}

var variants = []variant{
	{"base", func(p *podSpec) {}},
	{"grace-nil", func(p *podSpec) { p.Grace = nil }},
	{"grace-0", func(p *podSpec) { p.Grace = i64(0) }},
	{"grace-1", func(p *podSpec) { p.Grace = i64(1) }},
	{"grace-600", func(p *podSpec) { p.Grace = i64(600) }},
	{"owner-none", func(p *podSpec) { p.Owners = nil }},
	{"owner-ds", func(p *podSpec) { p.Owners = []string{"oDS"} }},
	{"owner-node", func(p *podSpec) { p.Owners = []string{"oNode"} }},
	{"owner-sts", func(p *podSpec) { p.Owners = []string{"oSTS"} }},
	{"owner-node-apps", func(p *podSpec) { p.Owners = []string{"oNodeApps"} }},
	{"owner-ds-beta", func(p *podSpec) { p.Owners = []string{"oDSBeta"} }},
	{"owner-ds-core", func(p *podSpec) { p.Owners = []string{"oDSCore"} }},
	{"owner-rs+ds", func(p *podSpec) { p.Owners = []string{"oRS", "oDS"} }},
	{"owner-rs+node", func(p *podSpec) { p.Owners = []string{"oRS", "oNode"} }},
	{"critical-cluster", func(p *podSpec) { p.Prio = "system-cluster-critical" }},
	{"critical-node-ds", func(p *podSpec) { p.Prio = "system-node-critical"; p.Owners = []string{"oDS"} }},
	{"prio-other", func(p *podSpec) { p.Prio = "system-cluster-critical-not" }},
	{"tol-exists-disrupted", func(p *podSpec) { p.Tols = []corev1.Toleration{exists(v1.DisruptedTaintKey, "")} }},
	{"tol-exists-all", func(p *podSpec) { p.Tols = []corev1.Toleration{exists("", "")} }},
	{"tol-exists-noschedule", func(p *podSpec) { p.Tols = []corev1.Toleration{exists(v1.DisruptedTaintKey, corev1.TaintEffectNoSchedule)} }},
	{"tol-exists-noexecute", func(p *podSpec) { p.Tols = []corev1.Toleration{exists(v1.DisruptedTaintKey, corev1.TaintEffectNoExecute)} }},
	{"tol-exists-otherkey", func(p *podSpec) { p.Tols = []corev1.Toleration{exists("example.com/other", "")} }},
	{"tol-equal-empty", func(p *podSpec) {
		p.Tols = []corev1.Toleration{{Key: v1.DisruptedTaintKey, Operator: corev1.TolerationOpEqual, Value: ""}}
	}},
	{"tol-equal-x", func(p *podSpec) {
		p.Tols = []corev1.Toleration{{Key: v1.DisruptedTaintKey, Operator: corev1.TolerationOpEqual, Value: "x"}}
	}},
	{"tol-noop-empty", func(p *podSpec) { p.Tols = []corev1.Toleration{{Key: v1.DisruptedTaintKey}} }},
	{"tol-lt", func(p *podSpec) {
		p.Tols = []corev1.Toleration{{Key: v1.DisruptedTaintKey, Operator: corev1.TolerationOpLt, Value: "5"}}
	}},
	{"tol-two", func(p *podSpec) {
		p.Tols = []corev1.Toleration{exists("example.com/other", ""), exists(v1.DisruptedTaintKey, corev1.TaintEffectNoSchedule)}
	}},
	{"dnd-true", func(p *podSpec) { p.Dnd = str("true") }},
	{"dnd-True", func(p *podSpec) { p.Dnd = str("True") }},
	{"dnd-2m", func(p *podSpec) { p.Dnd = str("2m") }}, // start -100s: protected until +20s
	{"dnd-2m-nostart", func(p *podSpec) { p.Dnd = str("2m"); p.Start = nil }},
	{"dnd-neg", func(p *podSpec) { p.Dnd = str("-5m") }},
	{"dnd-zero", func(p *podSpec) { p.Dnd = str("0s") }},
	{"dnd-1h-critical-ds", func(p *podSpec) { p.Dnd = str("1h"); p.Prio = "system-node-critical"; p.Owners = []string{"oDS"} }},
	{"annotation-other-only", func(p *podSpec) { p.OtherAnn = map[string]string{"example.com/team": "a"} }},
	{"annotation-near-miss-key", func(p *podSpec) {
		p.OtherAnn = map[string]string{"karpenter.sh/do-not-evict": "true", "karpenter.sh/do-not-disrupt ": "true"}
	}},
	{"annotation-other+dnd", func(p *podSpec) { p.OtherAnn = map[string]string{"example.com/team": "a"}; p.Dnd = str("true") }},
	{"phase-unknown", func(p *podSpec) { p.Phase = corev1.PodUnknown }},
	{"phase-empty", func(p *podSpec) { p.Phase = "" }},
	{"phase-succeeded", func(p *podSpec) { p.Phase = corev1.PodSucceeded }},
	{"phase-failed", func(p *podSpec) { p.Phase = corev1.PodFailed }},
	{"phase-pending", func(p *podSpec) { p.Phase = corev1.PodPending }},
	{"terminating-soon", func(p *podSpec) { p.Del = i64(30) }},
	{"terminating-beyond", func(p *podSpec) { p.Del = i64(200) }},
	{"terminating-at-deadline", func(p *podSpec) { p.Del = i64(120) }},
	{"terminating-stuck", func(p *podSpec) { p.Del = i64(-40) }}, // stuck from +20s on
	{"terminating-dnd", func(p *podSpec) { p.Del = i64(150); p.Dnd = str("true") }},
}

// clock positions (ns after base) around every threshold of the grid: dnd end +20s, stuck +20s,
// deadline-grace (+90s for grace 30, +119s for grace 1, +120s for grace 0), deadline +120s
var gridNow = []int64{0, 20*sec - 1, 20 * sec, 20*sec + 1, 90*sec - 1, 90 * sec, 90*sec + 1, 118*sec + 1, 119*sec + 1,
	120*sec - 1, 120 * sec, 120*sec + 1, 121*sec + sec/2, 200 * sec}

func runGrid(c *kit.Ctx, vs []variant, dl *int64, now int64, apis [2]string) {
	h := newHist(c, c.Rand.Fork())
	var names []string
	for i, v := range vs {
		p := basePod(i + 1)
		v.f(p)
		h.world[p.Name] = p
		names = append(names, v.name)
	}
	h.now, h.dl = now, dl
	h.sum = append(h.sum, "grid:"+strings.Join(names, "+"))
	h.drain(false)
	for i := range vs {
		h.reconcile(h.world[i+1], plan{api: apis[0], nodeOK: true})
	}
	h.now += sec / 2
	h.drain(false)
	for i := range vs {
		h.reconcile(h.world[i+1], plan{api: apis[1], nodeOK: true})
	}
	h.emit("grid")
}

func (h *hist) randomPod(name int) *podSpec {
	r := h.r
	p := basePod(name)
	p.UID = h.nextID
	h.nextID++
	p.Start = i64(int64(-r.Range(0, 400)))
	// one or two stressed dimensions
	n := 1
	if r.Chance(1, 3) {
		n = 2
	}
	if r.Chance(1, 4) {
		n = 0
	}
	for ; n > 0; n-- {
		kit.Pick(r, variants).f(p)
	}
	if p.Del != nil { // keep deletion timestamps near the clock
		*p.Del += h.now / sec
	}
	if r.Chance(1, 3) {
		p.Grace = i64(kit.Pick(r, []int64{0, 1, 2, 10, 30, 30, 45, 60, 120, 600}))
	}
	if r.Chance(1, 4) {
		p.Prio = kit.Pick(r, []string{"system-cluster-critical", "system-node-critical"})
	}
	if r.Chance(1, 4) {
		p.Owners = []string{"oDS"}
	}
	if r.Chance(1, 6) && p.Dnd == nil {
		p.Dnd = str(kit.Pick(r, []string{"true", "90s", "3m", "10m", "1.5s", "250ms", "1h"}))
	}
	return p
}

// thresholds returns the instants at which some comparison of the modelled code flips.
func (h *hist) thresholds() []int64 {
	var out []int64
	add := func(t int64) { out = append(out, t-1, t, t+1) }
	for _, p := range h.world {
		if h.dl != nil && p.Grace != nil && *p.Grace < 100000 {
			add(*h.dl - *p.Grace*sec)
		}
		if p.Del != nil {
			add(*p.Del*sec + 60*sec)
		}
		if p.Dnd != nil && p.Start != nil {
			if d, err := time.ParseDuration(*p.Dnd); err == nil {
				add(*p.Start*sec + int64(d))
			}
		}
	}
	if h.dl != nil {
		for _, d := range []int64{-2 * sec, -sec - 1, -sec, -sec + 1, -1, 0, 1, sec / 2, 2 * sec} {
			out = append(out, *h.dl+d)
		}
	}
	return out
}

func (h *hist) advance() {
	r := h.r
	if r.Chance(1, 3) {
		return
	}
	if r.Chance(3, 5) {
		var later []int64
		for _, t := range h.thresholds() {
			if t >= h.now {
				later = append(later, t)
			}
		}
		if len(later) > 0 {
			sort.Slice(later, func(i, j int) bool { return later[i] < later[j] })
			// prefer the nearest thresholds so that a history walks through them
			h.now = later[r.Intn(min(len(later), 6))]
			return
		}
	}
	h.now += int64(r.Range(0, 20))*sec + kit.Pick(r, []int64{0, 0, 1, sec / 2, sec - 1})
}

var apiPlans = []string{"AOk", "AOk", "AOk", "AOk", "AOk", "ATooMany", "ATooMany", "ATooMany", "ANotFound", "AConflict", "AMultiPDB", "AOther"}

func floorSec(ns int64) int64 {
	s := ns / sec
	if ns%sec < 0 {
		s--
	}
	return s
}

// applyEffect is the API server's and kubelet's part after a successful eviction or delete.
func (h *hist) applyEffect(p *podSpec, act string, grace int64) {
	cur, ok := h.world[p.Name]
	if !ok || cur.UID != p.UID {
		return
	}
	if h.r.Chance(1, 5) {
		delete(h.world, p.Name) // gone at once
		return
	}
	n := cur.clone()
	g := grace
	if act == "evict" {
		g = 30
		if n.Grace != nil {
			g = *n.Grace
		}
	}
	d := floorSec(h.now) + g
	if n.Del == nil || d < *n.Del {
		n.Del = i64(d)
	}
	h.world[p.Name] = n
}

func (h *hist) mutate() {
	r := h.r
	pods := h.worldPods()
	if len(pods) == 0 || r.Chance(1, 5) {
		name := r.Range(1, 8)
		if _, ok := h.world[name]; !ok {
			h.world[name] = h.randomPod(name) // a pod bound to the node after the taint
			h.sum = append(h.sum, fmt.Sprintf("env:new-pod p%d", name))
		}
		return
	}
	p := kit.Pick(r, pods).clone()
	switch r.Intn(8) {
	case 0:
		p.Dnd = nil
		h.sum = append(h.sum, fmt.Sprintf("env:annotation-cleared p%d", p.Name))
	case 1:
		p.Phase = kit.Pick(r, []corev1.PodPhase{corev1.PodSucceeded, corev1.PodFailed})
		h.sum = append(h.sum, fmt.Sprintf("env:terminal p%d", p.Name))
	case 2:
		if p.Del == nil { // deleted by someone else, possibly with a long explicit grace period
			p.Del = i64(floorSec(h.now) + kit.Pick(r, []int64{0, 1, 30, 30, 120, 600}))
			h.sum = append(h.sum, fmt.Sprintf("env:deleted p%d", p.Name))
		}
	case 3:
		delete(h.world, p.Name)
		h.sum = append(h.sum, fmt.Sprintf("env:gone p%d", p.Name))
		return
	case 4:
		p.UID = h.nextID // same name, new pod
		h.nextID++
		p.Del = nil
		h.sum = append(h.sum, fmt.Sprintf("env:replaced p%d", p.Name))
	case 5:
		p.Dnd = str(kit.Pick(r, []string{"true", "30s", "2m"}))
		h.sum = append(h.sum, fmt.Sprintf("env:annotated p%d", p.Name))
	case 6:
		for n, w := range h.world { // kubelet finishes terminating pods
			if w.Del != nil && *w.Del*sec <= h.now {
				delete(h.world, n)
			}
		}
		h.sum = append(h.sum, "env:kubelet-finished")
		return
	case 7:
		p.Tols = append(p.Tols, exists(v1.DisruptedTaintKey, corev1.TaintEffectNoSchedule))
		h.sum = append(h.sum, fmt.Sprintf("env:toleration-added p%d", p.Name))
	}
	h.world[p.Name] = p
}

func runHistory(c *kit.Ctx, nOps int) {
	r := c.Rand.Fork()
	h := newHist(c, r)
	for i, n := 0, r.Range(2, 6); i < n; i++ {
		name := r.Range(1, 8)
		if r.Chance(1, 8) {
			name += 1000 // same name in another namespace: a different queue key
			h.c.Count("pod:other-namespace")
		}
		h.world[name] = h.randomPod(name)
	}
	if r.Chance(1, 4) { // a pod bound to another node must never be touched
		p := h.randomPod(50)
		p.OnNode = "node-b"
		p.Del = nil
		h.world[50] = p
		h.c.Count("pod:on-another-node")
	}
	switch r.Intn(8) {
	case 0:
		h.dl = nil
	default:
		d := int64(r.Range(30, 300)) * sec
		if r.Chance(1, 8) {
			d += int64(r.Range(1, 999_999_999))
		}
		h.dl = &d
	}
	h.now = int64(r.Range(0, 30)) * sec
	history := map[int][]*podSpec{} // earlier versions by name (stale cache reads)
	for i := 0; i < nOps; i++ {
		for _, p := range h.world {
			history[p.Name] = append(history[p.Name], p)
		}
		switch x := r.Intn(100); {
		case x < 32:
			h.advance()
			h.drain(false)
		case x < 72:
			h.advance()
			// mostly a pod that is queued, sometimes any pod, sometimes a stale or replaced version
			var cand []*podSpec
			snap := h.s.snapshot()
			for _, p := range h.worldPods() {
				if _, ok := qLookup(snap, [2]int64{int64(p.Name), int64(p.UID)}); ok {
					cand = append(cand, p)
				}
			}
			var p *podSpec
			switch {
			case len(cand) > 0 && r.Chance(3, 4):
				p = kit.Pick(r, cand)
			case len(h.world) > 0 && r.Chance(1, 2):
				p = kit.Pick(r, h.worldPods())
			default:
				var all []*podSpec
				names := make([]int, 0, len(history))
				for n := range history {
					names = append(names, n)
				}
				sort.Ints(names)
				for _, n := range names {
					all = append(all, history[n]...)
				}
				if len(all) == 0 {
					continue
				}
				p = kit.Pick(r, all)
				h.c.Count("rec:stale-object")
			}
			pl := plan{api: kit.Pick(r, apiPlans), nodeOK: !r.Chance(1, 12)}
			switch pl.api {
			case "ATooMany":
				pl.flavor = kit.Pick(r, []string{"", "", "429-unhealthy-pod-if-healthy-budget", "429-with-multi-pdb-message"})
			case "AOther":
				pl.flavor = kit.Pick(r, []string{"", "plain-error-with-multi-pdb-text", "500-other-message"})
			}
			act, ok := h.reconcile(p, pl)
			if act != "" && ok {
				g := int64(0)
				if act == "delete" {
					g = h.s.calls[0].grace
				}
				h.applyEffect(p, act, g)
			} else if act != "" && pl.api == "ANotFound" {
				if cur, ok := h.world[p.Name]; ok && cur.UID == p.UID {
					delete(h.world, p.Name)
				}
			}
		case x < 88:
			h.mutate()
		case x < 92:
			h.restart()
		case x < 95:
			h.drain(true)
		default:
			// the node deadline changes (annotation edited, or set for the first time / removed)
			switch r.Intn(4) {
			case 0:
				h.dl = nil
			default:
				d := h.now + int64(r.Range(-20, 200))*sec
				if h.dl != nil && r.Chance(1, 2) {
					d = *h.dl + int64(r.Range(-60, 60))*sec
				}
				h.dl = &d
			}
			h.sum = append(h.sum, "env:deadline "+gOptZ(h.dl))
		}
	}
	h.emit("history")
}

func main() {
	log.SetLogger(logr.Discard())
	c := kit.Parse("C10", os.Args[1:])
	dl := i64(120 * sec)
	dlSub := i64(120*sec + 400_000_000)
	nHist, histLen := 900, 10
	if c.Thorough() {
		nHist, histLen = 10000, 14
	}
	// (A) grid: every pod variant alone, every clock position, with and without a node deadline
	for _, v := range variants {
		for _, now := range gridNow {
			runGrid(c, []variant{v}, dl, now, [2]string{"AOk", "ATooMany"})
			if c.Thorough() || now%sec == 0 {
				runGrid(c, []variant{v}, nil, now, [2]string{"ATooMany", "AOk"})
			}
		}
		runGrid(c, []variant{v}, dlSub, 90*sec+400_000_000, [2]string{"AOk", "AOk"})
		runGrid(c, []variant{v}, dlSub, 90*sec+400_000_001, [2]string{"ANotFound", "AOther"})
	}
	// deletion time exactly at / 1ns around the deadline
	for _, v := range variants {
		if strings.HasPrefix(v.name, "terminating") {
			for _, d := range []int64{120*sec - 1, 120*sec + 1, 150*sec - 1, 150*sec + 1, 200*sec - 1, 200 * sec, 200*sec + 1} {
				runGrid(c, []variant{v}, i64(d), 100*sec, [2]string{"AOk", "AConflict"})
			}
		}
	}
	// (A2) pairs: tier interplay and blocking by protected pods
	tierVs := []string{"base", "owner-ds", "critical-cluster", "critical-node-ds", "dnd-true", "dnd-1h-critical-ds", "grace-600", "terminating-beyond", "terminating-soon", "owner-node", "tol-exists-all", "phase-succeeded"}
	byName := map[string]variant{}
	for _, v := range variants {
		byName[v.name] = v
	}
	for _, a := range tierVs {
		for _, b := range tierVs {
			nows := []int64{0, 90*sec + 1}
			if c.Thorough() {
				nows = []int64{0, 20 * sec, 90 * sec, 90*sec + 1, 120*sec + 1}
			}
			for _, now := range nows {
				runGrid(c, []variant{byName[a], byName[b]}, dl, now, [2]string{"AOk", "ATooMany"})
			}
		}
	}
	if c.Thorough() {
		for _, a := range variants {
			for _, b := range variants {
				runGrid(c, []variant{a, b}, dl, 90*sec-1, [2]string{"ATooMany", "AOk"})
			}
		}
	}
	// (C) a drain pass inside the unlocked window of one reconcile (forced goroutine order)
	nRace := 250
	if c.Thorough() {
		nRace = 2500
	}
	runRaceWitness(c)
	for i := 0; i < nRace; i++ {
		runRace(c)
	}
	// (D) node level: the real node termination controller around the drain
	nNode := 300
	if c.Thorough() {
		nNode = 3000
	}
	for i := 0; i < nNode; i++ {
		runNode(c)
	}
	// (B) random histories
	for i := 0; i < nHist; i++ {
		runHistory(c, c.Rand.Range(4, histLen))
	}
	c.Meta.Rule = fmt.Sprintf("grid: %d pod variants x %d clock positions x {deadline, no deadline, sub-second deadline, deadline +-1ns around the deletion time}, each Drain;Reconcile;Drain;Reconcile with two API answers; %d^2 two-pod tier grids (thorough: all variant pairs); %d random histories (length 4..%d) over Drain / Reconcile / clock advance to the nearest thresholds +-1ns / environment changes / restart / list failure / deadline change. non-trivial = a history with at least one drain pass and one evict/delete call; distinct by op summary",
		len(variants), len(gridNow), len(tierVs), nHist, histLen)
	c.Meta.Exhaustive = false
	c.Meta.Corr = []string{
		"terminator.Terminator.Drain (+ pod.IsWaitingEviction/IsDrainable/IsStuckTerminating/ToleratesDisruptedNoScheduleTaint/IsOwnedBy, needsForceDelete, groupPodsByPriority, Queue.Add, earlier) = C10.Model.drain",
		"terminator.Queue.Reconcile (+ needsForceDelete, pod.IsActive/IsEvictable/IsDoNotDisruptActive, evict, forceDelete, complete) = C10.Model.reconcile",
		"process restart (NewQueue) = C10.Model.step ORestart",
		"termination.Controller.Reconcile (finalize: nodeTerminationTime, awaitDrain, Drained condition) = C10.Node.node_pass",
		"Queue.Reconcile with a Terminator.Drain pass inside its unlocked window (forced goroutine order) = C10.Split.{read, decide, complete} around C10.Model.drain",
	}
	c.Meta.Extra = map[string]interface{}{"assumptions": []string{
		"time differences stay below 2^23 s so that Duration.Seconds() is exact; grace periods below 2^33 s (no int64 overflow in Duration arithmetic)",
		"one op = one call of Terminator.Drain or Queue.Reconcile; both access Queue.items only under the queue mutex",
		"pods are abstracted to the fields read by the drain path (harness toModel)",
	}}
	c.Finish("From KV Require Import C10.Model C10.Node C10.Check.", "case", "check_all", 300)
}
