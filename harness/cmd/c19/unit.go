package main

import (
	"fmt"
	"sort"

	"github.com/samber/lo"
	corev1 "k8s.io/api/core/v1"
	"k8s.io/apimachinery/pkg/api/resource"
	metav1 "k8s.io/apimachinery/pkg/apis/meta/v1"

	v1 "sigs.k8s.io/karpenter/pkg/apis/v1"
	"sigs.k8s.io/karpenter/pkg/apis/v1alpha1"
	"sigs.k8s.io/karpenter/pkg/cloudprovider"
	sched "sigs.k8s.io/karpenter/pkg/controllers/provisioning/scheduling"
	"sigs.k8s.io/karpenter/pkg/operator/options"
	"sigs.k8s.io/karpenter/pkg/scheduling"
	"sigs.k8s.io/karpenter/pkg/test"
	testv1alpha1 "sigs.k8s.io/karpenter/pkg/test/v1alpha1"
	nodepoolutils "sigs.k8s.io/karpenter/pkg/utils/nodepool"

	"verifharness/kit"
)

const (
	familyKey = "example.com/family" // a custom (not well-known) label carried by instance types
	tierKey   = "example.com/tier"   // a custom label carried by some offerings
)

// ------------------------------------------------------------------ part W: OrderByWeight

type wPool struct {
	Name   string `json:"name"`
	Weight *int32 `json:"weight"`
}

type wCase struct {
	Kind  string   `json:"kind"`
	Pools []wPool  `json:"pools"`
	Out   []string `json:"out"`
}

func gPool(p wPool) string {
	return fmt.Sprintf("(mkPool %s %s)", kit.GStr(p.Name), kit.GZ(int64(lo.FromPtr(p.Weight))))
}

func runWeight(c *kit.Ctx, pools []wPool) {
	nps := make([]*v1.NodePool, len(pools))
	for i, p := range pools {
		nps[i] = &v1.NodePool{ObjectMeta: metav1.ObjectMeta{Name: p.Name}, Spec: v1.NodePoolSpec{Weight: p.Weight}}
	}
	nodepoolutils.OrderByWeight(nps)
	out := lo.Map(nps, func(np *v1.NodePool, _ int) string { return np.Name })
	ties, inputSorted := false, true
	for i := range pools {
		for j := i + 1; j < len(pools); j++ {
			if lo.FromPtr(pools[i].Weight) == lo.FromPtr(pools[j].Weight) {
				ties = true
			}
		}
		if pools[i].Name != out[i] {
			inputSorted = false
		}
	}
	c.Count(fmt.Sprintf("weight:n=%s,ties=%v,moved=%v", bucket(len(pools)), ties, !inputSorted))
	key := ""
	if len(pools) >= 2 && !inputSorted {
		key = "W:" + kit.GListOf(pools, gPool)
	}
	c.AddCase(fmt.Sprintf("CaseWeight %s %s", kit.GListOf(pools, gPool), kit.GStrs(out)), wCase{"order-by-weight", pools, out}, key)
}

func bucket(n int) string {
	switch {
	case n <= 1:
		return fmt.Sprint(n)
	case n <= 4:
		return "2-4"
	case n <= 12:
		return "5-12"
	}
	return ">12"
}

var poolNames = []string{"a", "ab", "b", "B", "a-1", "pool-10", "pool-9", "default", "z", "gpu", "Zeta", "b0", "spot", "od", "a.b", "m", "n", "o", "p", "q", "r", "s", "t", "u"}
var weightChoices = []*int32{nil, lo.ToPtr(int32(1)), lo.ToPtr(int32(10)), lo.ToPtr(int32(10)), lo.ToPtr(int32(50)), lo.ToPtr(int32(100)), lo.ToPtr(int32(0))}

func partWeight(c *kit.Ctx) {
	// exhaustive: every arrangement of up to 3 (quick) / 4 (thorough) distinct names out of 4, every weight in {nil,1,2}
	small := []string{"a", "ab", "b", "B"}
	ws := []*int32{nil, lo.ToPtr(int32(1)), lo.ToPtr(int32(2))}
	maxLen := 3
	if c.Thorough() {
		maxLen = 4
	}
	var rec func(cur []wPool, used int)
	rec = func(cur []wPool, used int) {
		runWeight(c, append([]wPool(nil), cur...))
		if len(cur) == maxLen {
			return
		}
		for i, n := range small {
			if used&(1<<i) != 0 {
				continue
			}
			for _, w := range ws {
				rec(append(cur, wPool{n, w}), used|1<<i)
			}
		}
	}
	rec(nil, 0)
	nRand := 150
	if c.Thorough() {
		nRand = 800
	}
	for i := 0; i < nRand; i++ {
		r := c.Rand.Fork()
		n := r.Range(2, 8)
		if r.Chance(1, 5) {
			n = r.Range(13, 24) // sort.Slice switches from insertion sort to pdqsort above 12 elements
		}
		perm := shuffled(r, len(poolNames))
		pools := make([]wPool, n)
		for j := range pools {
			pools[j] = wPool{poolNames[perm[j]], kit.Pick(r, weightChoices)}
		}
		runWeight(c, pools)
	}
}

func shuffled(r *kit.Rand, n int) []int {
	p := make([]int, n)
	for i := range p {
		p[i] = i
	}
	for i := n - 1; i > 0; i-- {
		j := r.Intn(i + 1)
		p[i], p[j] = p[j], p[i]
	}
	return p
}

// ------------------------------------------------------------------ catalogues

var zones = []string{"test-zone-1", "test-zone-2", "test-zone-3"}
var capacityTypes = []string{v1.CapacityTypeSpot, v1.CapacityTypeOnDemand, v1.CapacityTypeReserved}
var families = []string{"c", "m", "r"}

// dyadic prices with frequent ties
var prices = []float64{0.25, 0.5, 0.5, 1, 1, 1.5, 2, 2, 3.0009765625, 7.5}

func genOffering(r *kit.Rand, idx int) *cloudprovider.Offering {
	ct := capacityTypes[r.Intn(2)]
	if r.Chance(1, 8) {
		ct = v1.CapacityTypeReserved
	}
	labels := map[string]string{v1.CapacityTypeLabelKey: ct, corev1.LabelTopologyZone: kit.Pick(r, zones)}
	o := &cloudprovider.Offering{Price: kit.Pick(r, prices), Available: !r.Chance(1, 5)}
	if ct == v1.CapacityTypeReserved {
		labels[testv1alpha1.LabelReservationID] = fmt.Sprintf("r%d", idx)
		o.ReservationCapacity = r.Intn(3)
	}
	if r.Chance(1, 10) {
		labels[tierKey] = "gold" // not well-known: compatible only with requirements that define the key
	}
	o.Requirements = scheduling.NewLabelRequirements(labels)
	if r.Chance(1, 10) { // a NodeOverlay replaced the price (absolute value: stays dyadic)
		o.ApplyPriceOverlay(kit.Pick(r, []string{"0.75", "0.125", "4"}))
	}
	return o
}

// genCatalog builds n instance types directly (no fake defaults): requirements on instance-type, family, zone.
func genCatalog(r *kit.Rand, n int) []*cloudprovider.InstanceType {
	its := make([]*cloudprovider.InstanceType, n)
	for i := range its {
		fam := kit.Pick(r, families)
		name := fmt.Sprintf("%s%d", fam, i)
		// complete enough for Allocatable() / AllocatableOfferingsList() / fits(): capacity and overhead as fake.NewInstanceType sets them
		it := &cloudprovider.InstanceType{Name: name,
			Capacity: corev1.ResourceList{corev1.ResourceCPU: resource.MustParse("4"), corev1.ResourceMemory: resource.MustParse("4Gi"), corev1.ResourcePods: resource.MustParse("5")},
			Overhead: &cloudprovider.InstanceTypeOverhead{KubeReserved: corev1.ResourceList{corev1.ResourceCPU: resource.MustParse("100m"), corev1.ResourceMemory: resource.MustParse("10Mi")}}}
		nOff := r.Range(1, 4)
		if r.Chance(1, 10) {
			nOff = 0
		}
		for k := 0; k < nOff; k++ {
			it.Offerings = append(it.Offerings, genOffering(r, i*8+k))
		}
		reqs := []*scheduling.Requirement{scheduling.NewRequirement(corev1.LabelInstanceTypeStable, corev1.NodeSelectorOpIn, name)}
		switch {
		case r.Chance(1, 12): // family undefined: Get() reads it as Exists, Values() is empty
		case r.Chance(1, 12): // a complement requirement: Values() returns the excluded values
			reqs = append(reqs, scheduling.NewRequirement(familyKey, corev1.NodeSelectorOpNotIn, fam))
		case r.Chance(1, 10): // two values
			reqs = append(reqs, scheduling.NewRequirement(familyKey, corev1.NodeSelectorOpIn, fam, kit.Pick(r, families)))
		default:
			reqs = append(reqs, scheduling.NewRequirement(familyKey, corev1.NodeSelectorOpIn, fam))
		}
		it.Requirements = scheduling.NewRequirements(reqs...)
		if r.Chance(1, 10) {
			it.ApplyCapacityOverlay(corev1.ResourceList{corev1.ResourceMemory: resource.MustParse("5Gi")})
		}
		its[i] = it
	}
	return its
}

// genClaimReqs builds the requirement set the instance types are ranked against.
func genClaimReqs(r *kit.Rand, its []*cloudprovider.InstanceType) scheduling.Requirements {
	rq := scheduling.NewRequirements()
	if r.Chance(1, 2) {
		zs := lo.Filter(zones, func(string, int) bool { return r.Bool() })
		switch {
		case len(zs) == 0:
		case r.Chance(1, 5):
			rq.Add(scheduling.NewRequirement(corev1.LabelTopologyZone, corev1.NodeSelectorOpNotIn, zs[0]))
		default:
			rq.Add(scheduling.NewRequirement(corev1.LabelTopologyZone, corev1.NodeSelectorOpIn, zs...))
		}
	}
	if r.Chance(1, 2) {
		cts := lo.Filter(capacityTypes, func(string, int) bool { return r.Bool() })
		if len(cts) > 0 {
			rq.Add(scheduling.NewRequirement(v1.CapacityTypeLabelKey, corev1.NodeSelectorOpIn, cts...))
		}
	}
	if r.Chance(1, 6) {
		rq.Add(scheduling.NewRequirement(tierKey, corev1.NodeSelectorOpIn, "gold", "silver"))
	}
	if r.Chance(1, 4) {
		rq.Add(scheduling.NewRequirement("example.com/team", corev1.NodeSelectorOpIn, "x"))
	}
	if r.Chance(1, 2) { // minValues on the instance-type key
		mv := r.Range(1, len(its)+1)
		if r.Bool() {
			rq.Add(scheduling.NewRequirementWithFlexibility(corev1.LabelInstanceTypeStable, corev1.NodeSelectorOpExists, &mv))
		} else {
			rq.Add(scheduling.NewRequirementWithFlexibility(corev1.LabelInstanceTypeStable, corev1.NodeSelectorOpIn, &mv, names(its)...))
		}
	}
	if r.Chance(1, 2) { // minValues on the family key
		mv := r.Range(1, 4)
		if r.Bool() {
			rq.Add(scheduling.NewRequirementWithFlexibility(familyKey, corev1.NodeSelectorOpExists, &mv))
		} else {
			rq.Add(scheduling.NewRequirementWithFlexibility(familyKey, corev1.NodeSelectorOpIn, &mv, families...))
		}
	}
	return rq
}

func pickN(r *kit.Rand, l int) int {
	switch r.Intn(10) {
	case 0:
		return -1
	case 1:
		return 0
	case 2:
		return l + 1
	case 3:
		return 600
	case 4:
		return l
	}
	if l == 0 {
		return 1
	}
	return r.Range(1, l)
}

// priceKey recomputes OrderByPrice's key on the Go side for the distribution table only.
func priceKey(it *cloudprovider.InstanceType, rq scheduling.Requirements) (float64, bool) {
	best, ok := 0.0, false
	for _, o := range it.Offerings {
		if o.Available && rq.IsCompatible(o.Requirements, scheduling.AllowUndefinedWellKnownLabels) && (!ok || o.Price < best) {
			best, ok = o.Price, true
		}
	}
	return best, ok
}

func allowList() string { return "wk" }

// ------------------------------------------------------------------ part P: OrderByPrice / Truncate / SatisfiesMinValues

type pCase struct {
	Kind       string         `json:"kind"`
	Reqs       []jReq         `json:"requirements"`
	Types      []jIT          `json:"instance_types"`
	MaxItems   int            `json:"max_items"`
	BestEffort bool           `json:"min_values_best_effort"`
	Full       []string       `json:"order_after_call"`
	Result     []string       `json:"truncate_result"`
	Ok         bool           `json:"truncate_ok"`
	MinNeeded  int            `json:"min_needed"`
	Unsat      map[string]int `json:"unsatisfiable"`
	SmvErr     bool           `json:"min_values_err"`
}

func gSmv(n int, unsat map[string]int, err error) string {
	ks := kit.SortedKeys(unsat)
	return fmt.Sprintf("(%d%%nat, %s, %s)", n, kit.GListOf(ks, func(k string) string { return kit.GPair(gS(k), kit.GZ(int64(unsat[k]))) }), kit.GBool(err != nil))
}

func runPrice(c *kit.Ctx, r *kit.Rand, its cloudprovider.InstanceTypes, rq scheduling.Requirements, n int, bestEffort bool, kind string) {
	ctx := kit.Context()
	if bestEffort {
		ctx = options.ToContext(ctx, test.Options(test.OptionsFields{MinValuesPolicy: lo.ToPtr(options.MinValuesPolicyBestEffort)}))
	}
	keep := minKeys(rq)
	gIn, jIn, gRq, jRq := gITs(its, keep), jITs(its, keep), gReqs(rq, nil), jReqs(rq, nil)
	work := append(cloudprovider.InstanceTypes(nil), its...)
	res, err := work.Truncate(ctx, rq, n)
	full := names(work) // OrderByPrice sorted the slice in place
	minNeeded, unsat, smvErr := work.SatisfiesMinValues(rq)

	// distribution: ties at the cut, infinite keys, minValues outcome
	ties, inf := false, 0
	for i, it := range work {
		k, ok := priceKey(it, rq)
		if !ok {
			inf++
		}
		if n >= 1 && i == n-1 && i+1 < len(work) {
			k2, ok2 := priceKey(work[i+1], rq)
			ties = ok == ok2 && (!ok || k == k2)
		}
	}
	mv := "none"
	if rq.HasMinValues() {
		mv = lo.Ternary(bestEffort, "best-effort", "strict") + lo.Ternary(err != nil, ":violated", ":met")
	}
	cut := "none"
	switch {
	case n <= 0:
		cut = "n<=0"
	case n < len(its):
		cut = "truncates"
	case n == len(its):
		cut = "n=len"
	default:
		cut = "n>len"
	}
	c.Count(fmt.Sprintf("price:%s:cut=%s,tie-at-cut=%v,inf-keys=%v,minValues=%s", kind, cut, ties, inf > 0, mv))
	c.Count("price:sort=" + lo.Ternary(len(its) > 12, "pdqsort(>12)", "insertion(<=12)"))
	c.Count(fmt.Sprintf("smv:has=%v,err=%v,needed=%s", rq.HasMinValues(), smvErr != nil, lo.Ternary(minNeeded == len(work), "all", lo.Ternary(minNeeded == 0, "0", "prefix"))))
	key := ""
	if len(its) >= 2 && n >= 1 && n < len(its) {
		key = "P:" + gIn + gRq + fmt.Sprint(n, bestEffort)
	}
	c.AddCase(fmt.Sprintf("CasePrice %s %s %s %s %s %s %s %s %s", allowList(), gRq, gIn, kit.GZ(int64(n)), kit.GBool(bestEffort),
		kit.GStrs(full), kit.GStrs(names(res)), kit.GBool(err == nil), gSmv(minNeeded, unsat, smvErr)),
		pCase{kind, jRq, jIn, n, bestEffort, full, names(res), err == nil, minNeeded, unsat, smvErr != nil}, key)
}

// firstUse touches the instance types the way a scheduling pass does (fits() -> AllocatableOfferingsList(), which
// precomputes per-type data exactly once), so that later calls run on already-used objects.
func firstUse(its []*cloudprovider.InstanceType) {
	for _, it := range its {
		_ = it.Allocatable()
		_ = it.AllocatableOfferingsList()
	}
}

// flipAvailability changes Offering.Available IN PLACE on the same objects (what a provider's ICE cache or an
// exhausted reservation does between two passes): for about half of the types the cheapest available offering
// (compatible with rq when rq is given) becomes unavailable, and for some an unavailable offering comes back.
func flipAvailability(r *kit.Rand, its []*cloudprovider.InstanceType, rq scheduling.Requirements) (flips int) {
	for _, it := range its {
		if r.Bool() {
			var best *cloudprovider.Offering
			for _, o := range it.Offerings {
				if o.Available && (rq == nil || rq.IsCompatible(o.Requirements, scheduling.AllowUndefinedWellKnownLabels)) && (best == nil || o.Price < best.Price) {
					best = o
				}
			}
			if best != nil {
				best.Available = false
				flips++
			}
		}
		if r.Chance(1, 3) {
			for _, o := range it.Offerings {
				if !o.Available {
					o.Available = true
					flips++
					break
				}
			}
		}
	}
	return flips
}

func partPrice(c *kit.Ctx) {
	nRand := 350
	if c.Thorough() {
		nRand = 2400
	}
	for i := 0; i < nRand; i++ {
		r := c.Rand.Fork()
		n := r.Range(0, 8)
		if r.Chance(1, 12) {
			n = r.Range(13, 18)
		}
		its := genCatalog(r, n)
		rq := genClaimReqs(r, its)
		if r.Bool() {
			firstUse(its)
		}
		runPrice(c, r, its, rq, pickN(r, len(its)), r.Chance(1, 4), "truncate")
		// second pass on the SAME objects after availability changed: ranking must follow the current availability
		if len(its) >= 2 && r.Chance(2, 3) {
			firstUse(its)
			if flipAvailability(r, its, rq) > 0 {
				n := pickN(r, len(its))
				if r.Chance(2, 3) {
					n = r.Range(1, len(its)-1)
				}
				runPrice(c, r, its, rq, n, r.Chance(1, 4), "truncate-after-availability-change")
			}
		}
	}
}

// ------------------------------------------------------------------ part T: NodeClaimTemplate.ToNodeClaim

type tCase struct {
	Kind     string   `json:"kind"`
	Reqs     []jReq   `json:"requirements"`
	Types    []jIT    `json:"instance_types"`
	MaxTypes int      `json:"max_instance_types"`
	Full     []string `json:"order_after_call"`
	Sent     []string `json:"sent_instance_types"`
	Op       string   `json:"sent_operator"`
	MinV     *int     `json:"sent_min_values,omitempty"`
}

// emitToNodeClaim records one ToNodeClaim observation: the claim's requirements and options before the call, and the
// instance-type requirement of the emitted NodeClaim.
func emitToNodeClaim(c *kit.Ctx, kind string, gRq string, jRq []jReq, gIn string, jIn []jIT, nIn int, n int, sorted []*cloudprovider.InstanceType, nc *v1.NodeClaim) {
	full := names(sorted)
	// overlay annotations: set exactly when one of the instance types that are sent carries an overlay
	wantPrice, wantCap := false, false
	for i, it := range sorted {
		if i < n {
			wantPrice = wantPrice || it.IsPricingOverlayApplied()
			wantCap = wantCap || it.IsCapacityOverlayApplied()
		}
	}
	gotPrice := nc.Annotations[v1alpha1.PriceOverlayAppliedAnnotationKey] == "true"
	gotCap := nc.Annotations[v1alpha1.CapacityOverlayAppliedAnnotationKey] == "true"
	c.Count(fmt.Sprintf("to-nodeclaim:overlay-annotations:price=%v,capacity=%v", gotPrice, gotCap))
	if gotPrice != wantPrice || gotCap != wantCap {
		c.Fail(c.NextID(), fmt.Sprintf("ToNodeClaim overlay annotations price=%v capacity=%v, expected %v %v for the first %d of %v", gotPrice, gotCap, wantPrice, wantCap, n, full),
			"", tCase{Kind: kind, Reqs: jRq, Types: jIn, MaxTypes: n, Full: full})
	}
	var sent []string
	op := "absent"
	var mv *int
	for _, r := range nc.Spec.Requirements {
		if r.Key == corev1.LabelInstanceTypeStable {
			op = string(r.Operator)
			sent = append(sent, r.Values...)
			mv = r.MinValues
		}
	}
	sort.Strings(sent)
	if op != string(corev1.NodeSelectorOpIn) {
		sent = nil // DoesNotExist (empty intersection) or absent: no instance type is named
	}
	c.Count(fmt.Sprintf("to-nodeclaim:%s:op=%s,%s", kind, op, lo.Ternary(n < nIn, "truncates", "keeps-all")))
	key := ""
	if nIn >= 2 && n >= 1 && n < nIn {
		key = "T:" + gIn + gRq + fmt.Sprint(n)
	}
	c.AddCase(fmt.Sprintf("CaseToNC %s %s %s %s %s %s %s", allowList(), gRq, gIn, kit.GZ(int64(n)), kit.GStrs(full), kit.GStrs(sent), optInt(mv)),
		tCase{kind, jRq, jIn, n, full, sent, op, mv}, key)
}

func partToNodeClaim(c *kit.Ctx) {
	nRand := 140
	if c.Thorough() {
		nRand = 800
	}
	defer func(old int) { sched.MaxInstanceTypes = old }(sched.MaxInstanceTypes)
	for i := 0; i < nRand; i++ {
		r := c.Rand.Fork()
		its := genCatalog(r, r.Range(1, 8))
		for pass, kind := range []string{"unit", "unit-after-availability-change"} {
			if pass == 1 {
				firstUse(its)
				if len(its) < 2 || !r.Chance(2, 3) || flipAvailability(r, its, nil) == 0 {
					break
				}
			}
			np := test.NodePool(v1.NodePool{ObjectMeta: metav1.ObjectMeta{Name: "pool"}})
			if r.Chance(1, 3) {
				mv := r.Range(1, 3)
				np.Spec.Template.Spec.Requirements = append(np.Spec.Template.Spec.Requirements, v1.NodeSelectorRequirementWithMinValues{
					Key: corev1.LabelInstanceTypeStable, Operator: corev1.NodeSelectorOpExists, MinValues: &mv})
			}
			nct := sched.NewNodeClaimTemplate(np)
			nct.InstanceTypeOptions = its
			nct.Requirements.Add(genClaimReqs(r, its).Values()...)
			switch r.Intn(8) {
			case 0: // an instance-type requirement that names only some of the options (the emitted set is the intersection)
				sub := lo.Filter(names(its), func(string, int) bool { return r.Bool() })
				if len(sub) > 0 {
					nct.Requirements.Add(scheduling.NewRequirement(corev1.LabelInstanceTypeStable, corev1.NodeSelectorOpIn, sub...))
				}
			case 1:
				nct.Requirements.Add(scheduling.NewRequirement(corev1.LabelInstanceTypeStable, corev1.NodeSelectorOpNotIn, its[0].Name))
			}
			n := pickN(r, len(its))
			if n < 0 {
				n = 0
			}
			sched.MaxInstanceTypes = n
			keep := minKeys(nct.Requirements)
			gRq, jRq, gIn, jIn := gReqs(nct.Requirements, nil), jReqs(nct.Requirements, nil), gITs(its, keep), jITs(its, keep)
			nc := nct.ToNodeClaim()
			emitToNodeClaim(c, kind, gRq, jRq, gIn, jIn, len(its), n, its, nc)
		}
	}
}
