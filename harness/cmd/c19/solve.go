package main

import (
	"context"
	"errors"
	"fmt"
	"sort"
	"strings"
	"time"

	"github.com/samber/lo"
	corev1 "k8s.io/api/core/v1"
	"k8s.io/apimachinery/pkg/api/resource"
	metav1 "k8s.io/apimachinery/pkg/apis/meta/v1"
	"k8s.io/apimachinery/pkg/types"
	"k8s.io/apimachinery/pkg/util/sets"
	"k8s.io/client-go/tools/record"
	clock "k8s.io/utils/clock/testing"
	"sigs.k8s.io/controller-runtime/pkg/client"
	"sigs.k8s.io/controller-runtime/pkg/client/interceptor"

	v1 "sigs.k8s.io/karpenter/pkg/apis/v1"
	"sigs.k8s.io/karpenter/pkg/cloudprovider"
	"sigs.k8s.io/karpenter/pkg/cloudprovider/fake"
	"sigs.k8s.io/karpenter/pkg/controllers/dynamicresources/deviceallocation"
	"sigs.k8s.io/karpenter/pkg/controllers/provisioning"
	sched "sigs.k8s.io/karpenter/pkg/controllers/provisioning/scheduling"
	"sigs.k8s.io/karpenter/pkg/controllers/state"
	"sigs.k8s.io/karpenter/pkg/events"
	"sigs.k8s.io/karpenter/pkg/operator/options"
	"sigs.k8s.io/karpenter/pkg/scheduling"
	"sigs.k8s.io/karpenter/pkg/state/virtualpods"
	"sigs.k8s.io/karpenter/pkg/test"
	testv1alpha1 "sigs.k8s.io/karpenter/pkg/test/v1alpha1"

	"verifharness/kit"
)

// ------------------------------------------------------------------ part S: Provisioner.NewScheduler + Solve

const (
	teamKey = "example.com/team"
	// shape of the only inputs on which the strict reading of the property text fails (see Properties/C19.v)
	kfRelax = "lower-weight-pool-chosen-at-an-earlier-relaxation-level"
	// same mechanism, other input shape: the outranking pool carries a PreferNoSchedule taint that the pod only
	// tolerates after relaxation
	kfSoftTaint = "lower-weight-pool-chosen-before-prefer-no-schedule-toleration"
)

var workerCounts = []int{1, 4, 16}

type sPool struct {
	Name       string            `json:"name"`
	Weight     *int32            `json:"weight"`
	State      string            `json:"state"`           // ready | not-ready | unknown-nodeclass | unknown-validation | no-conditions | static | deleting
	Ready      string            `json:"ready_condition"` // status of the Ready condition as read back from the API: True|False|Unknown|absent
	Labels     map[string]string `json:"template_labels,omitempty"`
	Zones      []string          `json:"zones,omitempty"`
	CapTypes   []string          `json:"capacity_types,omitempty"`
	MinValues  *int              `json:"instance_type_min_values,omitempty"`
	Taints     []string          `json:"taints,omitempty"`
	LimitCPU   string            `json:"limit_cpu,omitempty"`
	LimitNodes string            `json:"limit_nodes,omitempty"`
	LimitMem   string            `json:"limit_memory,omitempty"`
	NoLimits   bool              `json:"no_limits,omitempty"` // spec.limits absent (the other pools get test.NodePool's default cpu: 2000)
	Startup    bool              `json:"startup_taint,omitempty"`
	Types      []jIT             `json:"instance_types"`
}

type sPod struct {
	Name         string              `json:"name"`
	CPU          string              `json:"cpu"`
	Memory       string              `json:"memory,omitempty"`
	HostPort     int32               `json:"host_port,omitempty"`
	VolumeZone   string              `json:"pvc_storage_class_zone,omitempty"`
	NodeSelector map[string]string   `json:"node_selector,omitempty"`
	Tolerations  []string            `json:"tolerations,omitempty"`
	Required     []map[string]string `json:"required_node_affinity_terms,omitempty"`
	Preferred    []string            `json:"preferred_node_affinity,omitempty"`
}

type sCase struct {
	Kind      string              `json:"kind"`
	KfKey     string              `json:"kf_key,omitempty"`
	Strict    bool                `json:"reserved_strict"`
	Options   string              `json:"options,omitempty"`
	Pools     []sPool             `json:"pools"`
	Pod       sPod                `json:"pod"`
	Batch     []sPod              `json:"batch,omitempty"`
	Levels    []map[string]string `json:"pool_alone_outcome_per_relaxation_level"`
	Observed  map[string]string   `json:"observed_per_worker_count"`
	Remain    map[string]int64    `json:"true_remaining_cpu_milli_when_placed,omitempty"`
	ResRemain map[string]int      `json:"true_remaining_reservation_capacity_when_placed,omitempty"`
}

// errBranch names the branch of addToNewNodeClaim / CanAdd that produced the error (distribution table only).
func errBranch(msg string) string {
	for _, k := range []string{"node limits have been exhausted", "all available instance types exceed limits", "did not tolerate", "incompatible volume requirements",
		"incompatible requirements", "minValues requirement is not met", "no instance type", "could not be reserved"} {
		if strings.Contains(msg, k) {
			return ":" + strings.ReplaceAll(k, " ", "-")
		}
	}
	if msg == "" {
		return ""
	}
	return ":other"
}

type world struct {
	resMode    bool // batches with reserved offerings: the witness runs under the reservation capacity that truly remains
	resRemain  []map[string]int
	limitsMode bool // batches with NodePool cpu limits: the witness of a pod runs under the limit that truly remains
	c          *kit.Ctx
	ctx        context.Context
	cl         client.Client
	cp         *fake.CloudProvider
	prov       *provisioning.Provisioner
	pools      []sPool
	strict     bool
	bestEffort bool // MinValuesPolicy=BestEffort (context option and scheduler option, as Provisioner.Schedule passes it)
	ignorePref bool // PreferencePolicy=Ignore -> scheduling.IgnorePreferences
	gateOff    bool // feature gate ReservedCapacity off
	daemon     int  // see worldOpts.daemon
	notFound   bool // NewScheduler answered ErrNodePoolsNotFound (no eligible NodePool)
	// remaining[i]: cpu limit (milli) that truly remains per limited pool when pod i was placed (limitsMode only)
	remaining []map[string]int64
}

func (w *world) opts(workers int) []sched.Options {
	o := []sched.Options{sched.NumConcurrentReconciles(workers)}
	if w.strict {
		o = append(o, sched.DisableReservedCapacityFallback)
	}
	if w.bestEffort {
		o = append(o, sched.MinValuesPolicy(options.MinValuesPolicyBestEffort))
	}
	if w.ignorePref {
		o = append(o, sched.IgnorePreferences)
	}
	return o
}

func (w *world) scheduler(pods []*corev1.Pod, workers int) *sched.Scheduler {
	cp := lo.Map(pods, func(p *corev1.Pod, _ int) *corev1.Pod { return p.DeepCopy() })
	s, err := w.prov.NewScheduler(w.ctx, cp, nil, sets.New[types.UID](), w.opts(workers)...)
	if errors.Is(err, provisioning.ErrNodePoolsNotFound) {
		w.notFound = true
		return nil
	}
	if err != nil {
		panic(fmt.Sprintf("c19: NewScheduler: %v", err))
	}
	return s
}

func qty(s string) resource.Quantity { return resource.MustParse(s) }

// genPoolTypes builds the instance types one pool offers (fresh objects per pool).
func genPoolTypes(r *kit.Rand, pool string, reservedOK bool) []*cloudprovider.InstanceType {
	n := r.Range(1, 4)
	sizes := []int64{1, 2, 4, 8}
	var its []*cloudprovider.InstanceType
	for i := 0; i < n; i++ {
		cpu := kit.Pick(r, sizes)
		var ofs []cloudprovider.Offering
		for _, z := range zones {
			if r.Chance(1, 3) {
				continue
			}
			ct := capacityTypes[r.Intn(2)]
			ofs = append(ofs, cloudprovider.Offering{Available: !r.Chance(1, 8), Price: float64(cpu) * kit.Pick(r, []float64{0.25, 0.5, 0.5, 1}),
				Requirements: scheduling.NewLabelRequirements(map[string]string{v1.CapacityTypeLabelKey: ct, corev1.LabelTopologyZone: z})})
		}
		if reservedOK && r.Chance(1, 4) {
			ofs = append(ofs, cloudprovider.Offering{Available: true, Price: float64(cpu) * 0.125, ReservationCapacity: r.Intn(2),
				Requirements: scheduling.NewLabelRequirements(map[string]string{v1.CapacityTypeLabelKey: v1.CapacityTypeReserved,
					corev1.LabelTopologyZone: kit.Pick(r, zones), testv1alpha1.LabelReservationID: fmt.Sprintf("res-%s-%d", pool, i)})})
		}
		if len(ofs) == 0 {
			ofs = append(ofs, cloudprovider.Offering{Available: true, Price: float64(cpu),
				Requirements: scheduling.NewLabelRequirements(map[string]string{v1.CapacityTypeLabelKey: v1.CapacityTypeOnDemand, corev1.LabelTopologyZone: zones[0]})})
		}
		if r.Chance(1, 10) { // one offering comes with more cpu than the base shape (CapacityOverride)
			ofs[0].CapacityOverride = corev1.ResourceList{corev1.ResourceCPU: *resource.NewQuantity(cpu*2, resource.DecimalSI)}
		}
		it := fake.NewInstanceType(fmt.Sprintf("%s-t%d-c%d", pool, i, cpu),
			fake.WithResources(corev1.ResourceList{corev1.ResourceCPU: *resource.NewQuantity(cpu, resource.DecimalSI),
				corev1.ResourceMemory: qty("64Gi"), corev1.ResourcePods: qty("20")}),
			fake.WithOfferings(ofs...))
		if r.Chance(1, 10) {
			it.Offerings[0].ApplyPriceOverlay(kit.Pick(r, []string{"0.75", "0.125", "4"}))
		}
		if r.Chance(1, 12) {
			it.ApplyCapacityOverlay(corev1.ResourceList{corev1.ResourceMemory: qty("65Gi")})
		}
		its = append(its, it)
	}
	return its
}

// usableState: the pool passes ListManaged and NewScheduler's filter (it may still end up without a template).
func usableState(st string) bool { return st == "ready" || strings.HasPrefix(st, "its-") }

// poolSpec is one NodePool of a generated world together with the instance types the provider offers for it.
type poolSpec struct {
	sPool
	its []*cloudprovider.InstanceType
}

func genPoolSpec(r *kit.Rand, name string, features bool) poolSpec {
	sp := sPool{Name: name, Weight: kit.Pick(r, weightChoices), State: "ready"}
	if r.Chance(2, 3) {
		sp.Labels = map[string]string{teamKey: kit.Pick(r, []string{"x", "y"})}
	}
	if r.Chance(1, 3) {
		sp.Zones = lo.Filter(zones, func(string, int) bool { return r.Bool() })
	}
	if r.Chance(1, 4) {
		sp.CapTypes = []string{capacityTypes[r.Intn(2)]}
	}
	if features && r.Chance(1, 6) {
		sp.MinValues = lo.ToPtr(r.Range(1, 3))
	}
	if r.Chance(1, 4) {
		sp.Taints = append(sp.Taints, "dedicated="+sp.Name+":NoSchedule")
	}
	if r.Chance(1, 8) {
		sp.Taints = append(sp.Taints, "soft=true:PreferNoSchedule")
	}
	if features {
		switch r.Intn(10) {
		case 0:
			sp.LimitCPU = kit.Pick(r, []string{"1", "2", "3"})
		case 1:
			sp.LimitNodes = kit.Pick(r, []string{"0", "1"})
		case 2:
			sp.LimitMem = kit.Pick(r, []string{"4Gi", "64Gi", "1Ti"}) // every type has 64Gi
		}
	}
	sp.NoLimits = sp.LimitCPU == "" && sp.LimitNodes == "" && sp.LimitMem == "" && r.Chance(1, 3)
	sp.Startup = r.Chance(1, 8) // startupTaints are not scheduling taints: they must not keep the pod off the pool
	switch {
	case r.Chance(1, 16):
		sp.State = "not-ready"
	case r.Chance(1, 12):
		sp.State = kit.Pick(r, []string{"unknown-nodeclass", "unknown-validation"})
	case r.Chance(1, 20):
		sp.State = "no-conditions"
	case r.Chance(1, 20):
		sp.State = "static"
	case r.Chance(1, 24):
		sp.State = "deleting"
	case r.Chance(1, 24):
		sp.State = "unmanaged" // nodeClassRef of another provider: not listed by ListManaged
	case r.Chance(1, 12):
		// Ready pool whose instance types cannot be resolved / are empty: it gets no template
		sp.State = kit.Pick(r, []string{"its-error", "its-unevaluated", "its-empty"})
	}
	return poolSpec{sp, genPoolTypes(r, name, features)}
}

func newWorld(r *kit.Rand, features bool) *world {
	nPools := r.Range(2, 5)
	perm := shuffled(r, len(poolNames))
	var specs []poolSpec
	ready := 0
	for i := 0; i < nPools; i++ {
		ps := genPoolSpec(r, poolNames[perm[i]], features)
		if i == nPools-1 && ready == 0 && !r.Chance(1, 12) { // rarely: no NodePool is eligible at all
			ps.State = "ready"
		}
		if ps.State == "ready" {
			ready++
		}
		specs = append(specs, ps)
	}
	return buildWorldOpts(specs, worldOpts{strict: !r.Chance(1, 4), bestEffort: features && r.Chance(1, 5), ignorePref: r.Chance(1, 6),
		gateOff: features && r.Chance(1, 8), daemon: r.Intn(4)})
}

type worldOpts struct {
	strict, bestEffort, ignorePref, gateOff bool
	daemon                                  int // 1: a DaemonSet for every node, 2: one selecting team=x with a host port; else none
}

func buildWorld(specs []poolSpec, strict bool) *world {
	return buildWorldOpts(specs, worldOpts{strict: strict})
}

// readCondition reads the NodePool back from the API and returns the raw status of its Ready condition.
func readCondition(ctx context.Context, cl client.Client, name string) string {
	np := &v1.NodePool{}
	if err := cl.Get(ctx, client.ObjectKey{Name: name}, np); err != nil {
		panic(err)
	}
	for _, c := range np.Status.Conditions {
		if c.Type == "Ready" {
			return string(c.Status)
		}
	}
	return "absent"
}

func buildWorldOpts(specs []poolSpec, o worldOpts) *world {
	fields := test.OptionsFields{}
	if o.bestEffort {
		fields.MinValuesPolicy = lo.ToPtr(options.MinValuesPolicyBestEffort)
	}
	if o.gateOff {
		fields.FeatureGates.ReservedCapacity = lo.ToPtr(false)
	}
	ctx := options.ToContext(context.Background(), test.Options(fields))
	w := &world{ctx: ctx, cl: kit.NewClient(interceptor.Funcs{}), cp: fake.NewCloudProvider(), strict: o.strict,
		bestEffort: o.bestEffort, ignorePref: o.ignorePref, gateOff: o.gateOff, daemon: o.daemon}
	switch o.daemon {
	case 1:
		kit.Apply(ctx, w.cl, test.DaemonSet(test.DaemonSetOptions{ObjectMeta: metav1.ObjectMeta{Name: "ds-all"}, PodOptions: test.PodOptions{
			ResourceRequirements: corev1.ResourceRequirements{Requests: corev1.ResourceList{corev1.ResourceCPU: qty("300m")}},
			Tolerations:          []corev1.Toleration{{Operator: corev1.TolerationOpExists}}}}))
	case 2:
		kit.Apply(ctx, w.cl, test.DaemonSet(test.DaemonSetOptions{ObjectMeta: metav1.ObjectMeta{Name: "ds-team-x"}, PodOptions: test.PodOptions{
			ResourceRequirements: corev1.ResourceRequirements{Requests: corev1.ResourceList{corev1.ResourceCPU: qty("1")}},
			NodeSelector:         map[string]string{teamKey: "x"}, HostPorts: []int32{8080}}}))
	}
	clk := clock.NewFakeClock(time.Unix(1_700_000_000, 0))
	for _, ps := range specs {
		sp := ps.sPool
		np := v1.NodePool{ObjectMeta: metav1.ObjectMeta{Name: sp.Name}, Spec: v1.NodePoolSpec{Weight: sp.Weight}}
		np.Spec.Template.Labels = sp.Labels
		reqs := &np.Spec.Template.Spec.Requirements
		if len(sp.Zones) > 0 {
			*reqs = append(*reqs, v1.NodeSelectorRequirementWithMinValues{Key: corev1.LabelTopologyZone, Operator: corev1.NodeSelectorOpIn, Values: sp.Zones})
		}
		if len(sp.CapTypes) > 0 {
			*reqs = append(*reqs, v1.NodeSelectorRequirementWithMinValues{Key: v1.CapacityTypeLabelKey, Operator: corev1.NodeSelectorOpIn, Values: sp.CapTypes})
		}
		if sp.MinValues != nil {
			*reqs = append(*reqs, v1.NodeSelectorRequirementWithMinValues{Key: corev1.LabelInstanceTypeStable, Operator: corev1.NodeSelectorOpExists, MinValues: sp.MinValues})
		}
		for _, t := range sp.Taints {
			kv, effect, _ := strings.Cut(t, ":")
			k, v, _ := strings.Cut(kv, "=")
			np.Spec.Template.Spec.Taints = append(np.Spec.Template.Spec.Taints, corev1.Taint{Key: k, Value: v, Effect: corev1.TaintEffect(effect)})
		}
		if sp.LimitCPU != "" {
			np.Spec.Limits = v1.Limits{corev1.ResourceCPU: qty(sp.LimitCPU)}
		}
		if sp.LimitNodes != "" {
			np.Spec.Limits = v1.Limits{"nodes": qty(sp.LimitNodes)}
		}
		if sp.LimitMem != "" {
			np.Spec.Limits = v1.Limits{corev1.ResourceMemory: qty(sp.LimitMem)}
		}
		if sp.Startup {
			np.Spec.Template.Spec.StartupTaints = []corev1.Taint{{Key: "startup", Value: "true", Effect: corev1.TaintEffectNoSchedule}}
		}
		if sp.State == "unmanaged" {
			np.Spec.Template.Spec.NodeClassRef = &v1.NodeClassReference{Group: "other.example.com", Kind: "OtherNodeClass", Name: "x"}
		}
		if sp.State == "static" {
			np.Spec.Replicas = lo.ToPtr(int64(1))
		}
		obj := test.NodePool(np)
		switch sp.State {
		case "not-ready":
			obj.StatusConditions().SetFalse(v1.ConditionTypeNodeClassReady, "NodeClassNotReady", "not ready")
		case "unknown-nodeclass":
			obj.StatusConditions().SetUnknown(v1.ConditionTypeNodeClassReady)
		case "unknown-validation":
			obj.StatusConditions().SetUnknown(v1.ConditionTypeValidationSucceeded)
		case "no-conditions":
			obj.Status.Conditions = nil
		case "deleting":
			obj.Finalizers = append(obj.Finalizers, "verif/hold")
		}
		if sp.NoLimits {
			obj.Spec.Limits = nil
		}
		kit.Apply(ctx, w.cl, obj)
		if sp.State == "deleting" {
			if err := w.cl.Delete(ctx, obj); err != nil {
				panic(err)
			}
		}
		sp.Ready = readCondition(ctx, w.cl, sp.Name)
		if (sp.Ready == "True") != (usableState(sp.State) || sp.State == "static" || sp.State == "deleting" || sp.State == "unmanaged") {
			panic(fmt.Sprintf("c19: pool %s state %s but Ready condition in the API is %s", sp.Name, sp.State, sp.Ready))
		}
		w.cp.InstanceTypesForNodePool[sp.Name] = ps.its
		switch sp.State {
		case "its-error":
			w.cp.ErrorsForNodePool[sp.Name] = fmt.Errorf("describing instance types: throttled")
		case "its-unevaluated":
			w.cp.ErrorsForNodePool[sp.Name] = cloudprovider.NewUnevaluatedNodePoolError(sp.Name)
		case "its-empty":
			w.cp.InstanceTypesForNodePool[sp.Name] = []*cloudprovider.InstanceType{}
		}
		sp.Types = jITs(ps.its, func(string) bool { return false })
		w.pools = append(w.pools, sp)
	}
	cluster := state.NewCluster(clk, w.cl, w.cp)
	w.prov = provisioning.NewProvisioner(w.cl, events.NewRecorder(&record.FakeRecorder{}), w.cp, cluster, clk, deviceallocation.NewController(w.cl), virtualpods.NewVirtualPodCache(w.cl))
	return w
}

func nsTerm(m map[string]string) corev1.NodeSelectorTerm {
	var t corev1.NodeSelectorTerm
	for _, k := range kit.SortedKeys(m) {
		t.MatchExpressions = append(t.MatchExpressions, corev1.NodeSelectorRequirement{Key: k, Operator: corev1.NodeSelectorOpIn, Values: strings.Split(m[k], ",")})
	}
	return t
}

// genSelector derives a selector from what some ready pool of the world offers (mostly), or at random.
func genSelector(r *kit.Rand, w *world) map[string]string {
	if r.Chance(3, 4) {
		var ready []sPool
		for _, p := range w.pools {
			if p.State == "ready" {
				ready = append(ready, p)
			}
		}
		if len(ready) == 0 {
			ready = w.pools
		}
		p := kit.Pick(r, ready)
		m := map[string]string{}
		if v, ok := p.Labels[teamKey]; ok {
			m[teamKey] = v
		}
		if len(p.Zones) > 0 && r.Bool() {
			m[corev1.LabelTopologyZone] = kit.Pick(r, p.Zones)
		}
		if len(p.CapTypes) > 0 && r.Bool() {
			m[v1.CapacityTypeLabelKey] = p.CapTypes[0]
		}
		if len(m) > 0 {
			return m
		}
	}
	switch r.Intn(4) {
	case 0:
		return map[string]string{teamKey: kit.Pick(r, []string{"x", "y", "x,y"})}
	case 1:
		return map[string]string{corev1.LabelTopologyZone: kit.Pick(r, zones)}
	case 2:
		return map[string]string{teamKey: kit.Pick(r, []string{"x", "y"}), corev1.LabelTopologyZone: kit.Pick(r, zones)}
	}
	return map[string]string{v1.CapacityTypeLabelKey: capacityTypes[r.Intn(2)]}
}

// genPod builds a pod from a feasible skeleton (it fits some instance type of a target pool, selects the pool's label,
// tolerates its taints) and then perturbs at most two dimensions (cpu at the allocatable boundary, a selector that
// singles out another pool / zone / capacity type, a missing toleration).
func genPod(r *kit.Rand, w *world, idx int, prefs bool) (*corev1.Pod, sPod) {
	target := w.pools[r.Intn(len(w.pools))]
	for k := 0; target.State != "ready" && k < len(w.pools); k++ {
		target = w.pools[k]
	}
	maxCPU := int64(1)
	for _, it := range w.cp.InstanceTypesForNodePool[target.Name] {
		if c := it.Capacity.Cpu().Value(); c > maxCPU {
			maxCPU = c
		}
	}
	// fake instance types reserve 100m cpu: allocatable = capacity - 100m
	cpuChoices := []string{"100m", "500m", "900m", "100m", "500m", "900m", fmt.Sprintf("%dm", maxCPU*1000-100), fmt.Sprintf("%dm", maxCPU*1000-200)}
	sp := sPod{Name: fmt.Sprintf("p%d", idx), CPU: kit.Pick(r, cpuChoices)}
	sel := map[string]string{}
	if v, ok := target.Labels[teamKey]; ok && r.Chance(2, 3) {
		sel[teamKey] = v
	}
	if len(target.Zones) > 0 && r.Chance(1, 3) {
		sel[corev1.LabelTopologyZone] = kit.Pick(r, target.Zones)
	}
	var tolerate []string
	for _, t := range target.Taints {
		if strings.HasPrefix(t, "dedicated=") {
			tolerate = append(tolerate, target.Name)
		}
	}
	for n := kit.Pick(r, []int{0, 0, 0, 0, 1, 1, 1, 2}); n > 0; n-- { // perturbations
		switch r.Intn(6) {
		case 0:
			sp.CPU = kit.Pick(r, []string{fmt.Sprintf("%dm", maxCPU*1000-99), fmt.Sprintf("%d", maxCPU), "7900m", "7901m", "16"})
		case 1:
			sel[teamKey] = kit.Pick(r, []string{"x", "y", "x", "y", "nobody"})
		case 2:
			sel[corev1.LabelTopologyZone] = kit.Pick(r, zones)
		case 3:
			sel[v1.CapacityTypeLabelKey] = capacityTypes[r.Intn(2)]
		case 4:
			tolerate = nil
		case 5:
			for _, p := range w.pools {
				if r.Bool() {
					tolerate = append(tolerate, p.Name)
				}
			}
		}
	}
	opts := test.PodOptions{ObjectMeta: metav1.ObjectMeta{Name: sp.Name, UID: types.UID("uid-" + sp.Name)},
		ResourceRequirements: corev1.ResourceRequirements{Requests: corev1.ResourceList{corev1.ResourceCPU: qty(sp.CPU)}}}
	if r.Bool() {
		sp.Memory = kit.Pick(r, []string{"64Mi", "1Gi", "1Gi", "8Gi"})
		opts.ResourceRequirements.Requests[corev1.ResourceMemory] = qty(sp.Memory)
	}
	if r.Bool() {
		opts.Phase = corev1.PodPending
	}
	if r.Chance(1, 6) {
		sp.HostPort = 8080
		opts.HostPorts = []int32{8080}
	}
	tolerateAll := r.Chance(1, 10)
	if r.Chance(1, 8) { // an unbound PVC whose StorageClass only provisions in one zone: the node must come up there
		sp.VolumeZone = kit.Pick(r, zones)
		sc := test.StorageClass(test.StorageClassOptions{ObjectMeta: metav1.ObjectMeta{Name: "sc-" + sp.Name}, Zones: []string{sp.VolumeZone}})
		pvc := test.PersistentVolumeClaim(test.PersistentVolumeClaimOptions{ObjectMeta: metav1.ObjectMeta{Name: "pvc-" + sp.Name}, StorageClassName: lo.ToPtr(sc.Name)})
		kit.Apply(w.ctx, w.cl, sc, pvc)
		opts.PersistentVolumeClaims = []string{pvc.Name}
	}
	if len(sel) > 0 {
		sp.NodeSelector, opts.NodeSelector = sel, sel
	}
	for _, name := range lo.Uniq(tolerate) {
		opts.Tolerations = append(opts.Tolerations, corev1.Toleration{Key: "dedicated", Operator: corev1.TolerationOpEqual, Value: name, Effect: corev1.TaintEffectNoSchedule})
		sp.Tolerations = append(sp.Tolerations, "dedicated="+name)
	}
	if tolerateAll {
		opts.Tolerations = append(opts.Tolerations, corev1.Toleration{Key: "dedicated", Operator: corev1.TolerationOpExists})
		sp.Tolerations = append(sp.Tolerations, "dedicated:Exists")
	}
	pod := test.UnschedulablePod(opts)
	if prefs {
		aff := &corev1.NodeAffinity{}
		if n := r.Intn(3); n > 0 {
			aff.RequiredDuringSchedulingIgnoredDuringExecution = &corev1.NodeSelector{}
			for i := 0; i < n; i++ {
				m := genSelector(r, w)
				sp.Required = append(sp.Required, m)
				aff.RequiredDuringSchedulingIgnoredDuringExecution.NodeSelectorTerms = append(aff.RequiredDuringSchedulingIgnoredDuringExecution.NodeSelectorTerms, nsTerm(m))
			}
		}
		for i, n := 0, r.Intn(3); i < n; i++ {
			m := genSelector(r, w)
			wt := int32(r.Range(1, 3) * 10)
			sp.Preferred = append(sp.Preferred, fmt.Sprintf("%d:%v", wt, m))
			aff.PreferredDuringSchedulingIgnoredDuringExecution = append(aff.PreferredDuringSchedulingIgnoredDuringExecution, corev1.PreferredSchedulingTerm{Weight: wt, Preference: nsTerm(m)})
		}
		if aff.RequiredDuringSchedulingIgnoredDuringExecution != nil || len(aff.PreferredDuringSchedulingIgnoredDuringExecution) > 0 {
			pod.Spec.Affinity = &corev1.Affinity{NodeAffinity: aff}
		}
	}
	kit.Apply(w.ctx, w.cl, pod)
	return pod, sp
}

// witness evaluates, for every relaxation level of the pod and every NodePool, the real addToNewNodeClaim restricted to
// that pool's template on a fresh scheduler.
func (w *world) witness(pod *corev1.Pod) (glevels []string, jlevels []map[string]string, anyOK bool) {
	first := w.scheduler([]*corev1.Pod{pod}, 1)
	if first == nil { // ErrNodePoolsNotFound: there is no template at all, at any level
		w.c.Count("branch:new-scheduler:no-eligible-nodepool")
		return []string{"[]"}, []map[string]string{{}}, false
	}
	levels := first.VerifC19RelaxLevels(w.ctx, pod)
	for _, lp := range levels {
		var g []string
		j := map[string]string{}
		for _, p := range w.pools {
			s := w.scheduler([]*corev1.Pod{lp}, 1)
			out, msg := s.VerifC19TemplateOutcomeErr(w.ctx, lp.DeepCopy(), p.Name)
			j[p.Name] = out
			w.c.Count("branch:template-evaluation:" + out + errBranch(msg))
			switch out {
			case "ok":
				g = append(g, kit.GPair(kit.GStr(p.Name), "OOk"))
				anyOK = true
			case "reserved":
				g = append(g, kit.GPair(kit.GStr(p.Name), "OReserved"))
			case "err":
				g = append(g, kit.GPair(kit.GStr(p.Name), "OErr"))
			}
		}
		glevels = append(glevels, kit.GList(g))
		jlevels = append(jlevels, j)
	}
	return
}

func (w *world) gPools() string {
	return kit.GListOf(w.pools, func(p sPool) string {
		ready := map[string]string{"True": "RTrue", "False": "RFalse", "Unknown": "RUnknown", "absent": "RAbsent"}[p.Ready]
		return fmt.Sprintf("(mkNP %s %s %s %s %s)", gPool(wPool{p.Name, p.Weight}), ready, kit.GBool(p.State == "static"), kit.GBool(p.State == "deleting"),
			kit.GBool(p.State != "unmanaged"))
	})
}

func podByUID(pods []*corev1.Pod, uid types.UID) int {
	for i, p := range pods {
		if p.UID == uid {
			return i
		}
	}
	return -1
}

// observe classifies what Solve did with each pod of the batch: "placed:<pool>" (first pod of a new NodeClaim),
// "joined" (added to a NodeClaim another pod opened), "deferred" (reserved-offering error) or "failed".
func observe(results sched.Results, pods []*corev1.Pod) []string {
	out := make([]string, len(pods))
	for _, nc := range results.NewNodeClaims {
		for k, p := range nc.Pods {
			if i := podByUID(pods, p.UID); i >= 0 {
				out[i] = lo.Ternary(k == 0, "placed:"+nc.NodePoolName, "joined")
			}
		}
	}
	for p, err := range results.PodErrors {
		if i := podByUID(pods, p.UID); i >= 0 && out[i] == "" {
			out[i] = lo.Ternary(sched.IsReservedOfferingError(err), "deferred", "failed")
		}
	}
	for i := range out {
		if out[i] == "" {
			panic("c19: a pod is neither placed nor failed")
		}
	}
	return out
}

func gObs(o string) string {
	switch {
	case strings.HasPrefix(o, "placed:"):
		return "(SPlaced " + kit.GStr(strings.TrimPrefix(o, "placed:")) + ")"
	case o == "deferred":
		return "SDeferred"
	}
	return "SFailed"
}

func (w *world) rankOf(name string) int {
	// position of the pool in the order the scheduler uses (only for the distribution table)
	type pw struct {
		n string
		w int32
	}
	var l []pw
	for _, p := range w.pools {
		if usableState(p.State) {
			l = append(l, pw{p.Name, lo.FromPtr(p.Weight)})
		}
	}
	sort.Slice(l, func(i, j int) bool {
		if l[i].w == l[j].w {
			return l[i].n > l[j].n
		}
		return l[i].w > l[j].w
	})
	for i, p := range l {
		if p.n == name {
			return i
		}
	}
	return -1
}

// runSolve runs one batch (one or several pods) through NewScheduler + Solve at every worker count and emits one case
// per pod whose placement is the subject of the property (it opened a NodeClaim, or it failed).
func runSolve(c *kit.Ctx, r *kit.Rand, w *world, pods []*corev1.Pod, jpods []sPod, kind string, maxTypes int) {
	w.c = c
	for _, p := range w.pools {
		c.Count("world:pool-state=" + p.State)
		c.Count(fmt.Sprintf("world:pool-fields:limit=%s,startupTaint=%v,minValues=%v", lo.Ternary(p.LimitCPU != "", "cpu", lo.Ternary(p.LimitNodes != "", "nodes", lo.Ternary(p.LimitMem != "", "memory", lo.Ternary(p.NoLimits, "absent", "default")))), p.Startup, p.MinValues != nil))
	}
	c.Count("world:options:" + w.optString() + fmt.Sprintf(" reservedStrict=%v", w.strict))
	for _, p := range jpods {
		c.Count(fmt.Sprintf("world:pod-fields:memory=%v,hostPort=%v,tolerations=%v,pvcZone=%v", p.Memory != "", p.HostPort != 0, len(p.Tolerations) > 0, p.VolumeZone != ""))
	}
	perWorker := make([][]string, len(workerCounts))
	for k, n := range workerCounts {
		s := w.scheduler(pods, n)
		if s == nil { // ErrNodePoolsNotFound: Provisioner.Schedule marks every pod unschedulable
			perWorker[k] = lo.Map(pods, func(*corev1.Pod, int) string { return "failed" })
			continue
		}
		batch := lo.Map(pods, func(p *corev1.Pod, _ int) *corev1.Pod { return p.DeepCopy() })
		sctx, cancel := context.WithTimeout(w.ctx, time.Minute)
		results, err := s.Solve(sctx, batch)
		cancel()
		if err != nil {
			panic(fmt.Sprintf("c19: Solve: %v", err))
		}
		perWorker[k] = observe(results, pods)
		if k == 0 {
			if w.limitsMode {
				w.trueRemaining(results, pods)
			}
			if w.resMode {
				w.trueReservations(results, pods)
			}
			w.pipeline(c, results, kind, maxTypes)
		}
	}
	for i, pod := range pods {
		if perWorker[0][i] == "joined" {
			c.Count("solve:" + kind + ":joined-an-open-claim(not-checked)")
			continue
		}
		restore := func() {}
		if w.limitsMode {
			restore = w.setLimits(w.remaining[i])
		}
		if w.resMode {
			restore = w.setReservations(w.resRemain[i])
		}
		glevels, jlevels, anyOK := w.witness(pod)
		restore()
		var gobs []string
		jobs := map[string]string{}
		for k, n := range workerCounts {
			o := perWorker[k][i]
			if o == "joined" { // scheduling differs between worker counts: make the comparison fail visibly
				o = "placed:<joined-at-" + fmt.Sprint(n) + "-workers>"
			}
			gobs = append(gobs, kit.GPair(kit.GZ(int64(n)), gObs(o)))
			jobs[fmt.Sprint(n)] = o
		}
		o := perWorker[0][i]
		bucketKey := "solve:" + kind + ":" + strings.SplitN(o, ":", 2)[0]
		placed := strings.HasPrefix(o, "placed:")
		if placed {
			rank := w.rankOf(strings.TrimPrefix(o, "placed:"))
			bucketKey += fmt.Sprintf(",rank=%s,levels=%s", lo.Ternary(rank == 0, "first", lo.Ternary(rank == 1, "second", "later")), lo.Ternary(len(jlevels) == 1, "1", ">1"))
		} else {
			bucketKey += fmt.Sprintf(",any-pool-ok=%v", anyOK)
		}
		key := ""
		if placed && w.rankOf(strings.TrimPrefix(o, "placed:")) > 0 || o == "deferred" {
			key = "S:" + w.gPools() + kit.GList(glevels)
		}
		sc := sCase{Kind: kind, Strict: w.strict, Options: w.optString(), Pools: w.pools, Pod: jpods[i], Levels: jlevels, Observed: jobs}
		if len(pods) > 1 {
			sc.Batch = jpods
		}
		if w.limitsMode {
			sc.Remain = w.remaining[i]
		}
		if w.resMode {
			sc.ResRemain = w.resRemain[i]
		}
		c.AddCase(fmt.Sprintf("CaseSolve %s %s %s", w.gPools(), kit.GList(glevels), kit.GList(gobs)), sc, key)
		if !placed {
			c.Count(bucketKey)
			continue
		}
		// The strict reading of the property text, as a case of its own.  It carries the known-finding key only when
		// (1) every worker count placed the pod on the same pool, (2) that pool is the one the per-level rule predicts,
		// (3) judged at the level of the placement every outranking pool is infeasible, and (4) some outranking pool
		// is feasible only at a later relaxation level of THIS pod (preferred node affinity / several required terms,
		// or the PreferNoSchedule toleration that relaxation adds).
		sc.Kind = kind + "-strict"
		sc.KfKey = w.kfFor(o, jobs, jlevels, jpods[i])
		if sc.KfKey != "" {
			bucketKey += ",outranking-pool-feasible-only-after-relaxation(" + strings.TrimPrefix(sc.KfKey, "lower-weight-pool-chosen-") + ")"
		}
		c.Count(bucketKey)
		c.AddCase(fmt.Sprintf("CaseStrict %s %s %s", w.gPools(), kit.GList(glevels), kit.GList(gobs)), sc, "")
	}
}

// trueRemaining recomputes, from the Results alone, the cpu limit that truly remains in every limited NodePool at the
// moment each pod of the batch was placed: the pool's spec.limits minus, for every NodeClaim of that pool created
// EARLIER in the pass, the largest cpu capacity among the instance types that NodeClaim can still launch. For a pod
// that stayed unschedulable the limit remaining after ALL claims is used (the least it ever saw).
func (w *world) trueRemaining(results sched.Results, pods []*corev1.Pod) {
	claims := append([]*sched.NodeClaim(nil), results.NewNodeClaims...)
	sort.Slice(claims, func(i, j int) bool { return claims[i].VerifC19Hostname() < claims[j].VerifC19Hostname() })
	rem := map[string]int64{}
	for _, p := range w.pools {
		if p.LimitCPU != "" {
			q := qty(p.LimitCPU)
			rem[p.Name] = q.MilliValue()
		}
	}
	snapshot := func() map[string]int64 {
		m := map[string]int64{}
		for k, v := range rem {
			m[k] = v
		}
		return m
	}
	w.remaining = make([]map[string]int64, len(pods))
	for _, nc := range claims {
		if len(nc.Pods) > 0 {
			if i := podByUID(pods, nc.Pods[0].UID); i >= 0 {
				w.remaining[i] = snapshot()
			}
		}
		if _, limited := rem[nc.NodePoolName]; limited {
			var maxCPU int64
			for _, it := range nc.InstanceTypeOptions {
				if c := it.Capacity.Cpu().MilliValue(); c > maxCPU {
					maxCPU = c
				}
			}
			rem[nc.NodePoolName] -= maxCPU
		}
	}
	for i := range pods {
		if w.remaining[i] == nil {
			w.remaining[i] = snapshot()
		}
	}
}

// reservedOfferings lists the provider's reserved offerings by reservation id.
func (w *world) reservedOfferings() map[string][]*cloudprovider.Offering {
	m := map[string][]*cloudprovider.Offering{}
	for _, its := range w.cp.InstanceTypesForNodePool {
		for _, it := range its {
			for _, o := range it.Offerings {
				if o.CapacityType() == v1.CapacityTypeReserved {
					m[o.ReservationID()] = append(m[o.ReservationID()], o)
				}
			}
		}
	}
	return m
}

// trueReservations recomputes from the Results alone the capacity every reservation truly has left when each pod of the
// batch was placed: the offering's ReservationCapacity minus one for every NodeClaim created EARLIER in the pass whose
// final requirements pin that reservation id. Pods that were deferred or failed are judged under what is left after
// all claims.
func (w *world) trueReservations(results sched.Results, pods []*corev1.Pod) {
	claims := append([]*sched.NodeClaim(nil), results.NewNodeClaims...)
	sort.Slice(claims, func(i, j int) bool { return claims[i].VerifC19Hostname() < claims[j].VerifC19Hostname() })
	rem := map[string]int{}
	for id, ofs := range w.reservedOfferings() {
		rem[id] = ofs[0].ReservationCapacity
	}
	snapshot := func() map[string]int {
		m := map[string]int{}
		for k, v := range rem {
			m[k] = v
		}
		return m
	}
	w.resRemain = make([]map[string]int, len(pods))
	for _, nc := range claims {
		if len(nc.Pods) > 0 {
			if i := podByUID(pods, nc.Pods[0].UID); i >= 0 {
				w.resRemain[i] = snapshot()
			}
		}
		if nc.Requirements.Has(cloudprovider.ReservationIDLabel) {
			for _, id := range nc.Requirements.Get(cloudprovider.ReservationIDLabel).Values() {
				rem[id]--
			}
		}
	}
	for i := range pods {
		if w.resRemain[i] == nil {
			w.resRemain[i] = snapshot()
		}
	}
}

// setReservations writes the remaining capacities into the provider's offering objects (NewReservationManager reads
// them when the witness schedulers are built) and returns the function restoring the original values.
func (w *world) setReservations(rem map[string]int) func() {
	ofs := w.reservedOfferings()
	old := map[*cloudprovider.Offering]int{}
	for id, l := range ofs {
		for _, o := range l {
			old[o] = o.ReservationCapacity
			o.ReservationCapacity = lo.Ternary(rem[id] < 0, 0, rem[id])
		}
	}
	return func() {
		for o, c := range old {
			o.ReservationCapacity = c
		}
	}
}

// sharedCatalogBatch: a NodePool WITHOUT limits whose catalogue is larger than MaxInstanceTypes, every type offered as
// spot and as on-demand with OPPOSITE price orders, and a batch of pods that exclude no instance type, each needs a
// NodeClaim of its own, and pin different capacity types. The claims of the pool rank the same catalogue differently;
// Results.TruncateInstanceTypes runs over ALL claims before any of them is judged, so a claim whose truncated view is
// disturbed by the sorting of a later claim is seen.
func sharedCatalogBatch(c *kit.Ctx, r *kit.Rand, fixed bool) {
	nTypes := r.Range(5, 8)
	mk := func(pool string) []*cloudprovider.InstanceType {
		var its []*cloudprovider.InstanceType
		for i := 0; i < nTypes; i++ {
			spot, od := float64(i+1)*0.25, float64(nTypes-i)*0.5 // spot cheapest first, on-demand cheapest last
			if !fixed && r.Chance(1, 5) {
				spot = kit.Pick(r, prices)
			}
			var ofs []cloudprovider.Offering
			for _, z := range zones {
				ofs = append(ofs,
					cloudprovider.Offering{Available: true, Price: spot, Requirements: scheduling.NewLabelRequirements(map[string]string{v1.CapacityTypeLabelKey: v1.CapacityTypeSpot, corev1.LabelTopologyZone: z})},
					cloudprovider.Offering{Available: true, Price: od, Requirements: scheduling.NewLabelRequirements(map[string]string{v1.CapacityTypeLabelKey: v1.CapacityTypeOnDemand, corev1.LabelTopologyZone: z})})
			}
			its = append(its, fake.NewInstanceType(fmt.Sprintf("%s-t%d-c4", pool, i), fake.WithOfferings(ofs...),
				fake.WithResources(corev1.ResourceList{corev1.ResourceCPU: qty("4"), corev1.ResourceMemory: qty("64Gi"), corev1.ResourcePods: qty("20")})))
		}
		return its
	}
	perm := shuffled(r, len(poolNames))
	specs := []poolSpec{{sPool{Name: poolNames[perm[0]], Weight: lo.ToPtr(int32(50)), State: "ready", NoLimits: fixed || r.Chance(3, 4)}, mk(poolNames[perm[0]])}}
	if !fixed && r.Bool() {
		specs = append(specs, poolSpec{sPool{Name: poolNames[perm[1]], Weight: lo.ToPtr(int32(1)), State: "ready", NoLimits: r.Bool()}, mk(poolNames[perm[1]])})
	}
	w := buildWorld(specs, true)
	var pods []*corev1.Pod
	var sps []sPod
	for k, n := 0, r.Range(2, 4); k < n; k++ {
		ct := capacityTypes[k%2]
		if !fixed && r.Chance(1, 6) {
			ct = ""
		}
		sp := sPod{Name: fmt.Sprintf("p%d", k), CPU: "3"}
		opts := test.PodOptions{ObjectMeta: metav1.ObjectMeta{Name: sp.Name, UID: types.UID("uid-" + sp.Name)},
			ResourceRequirements: corev1.ResourceRequirements{Requests: corev1.ResourceList{corev1.ResourceCPU: qty(sp.CPU)}}}
		if ct != "" {
			sp.NodeSelector = map[string]string{v1.CapacityTypeLabelKey: ct}
			opts.NodeSelector = sp.NodeSelector
		}
		pod := test.UnschedulablePod(opts)
		kit.Apply(w.ctx, w.cl, pod)
		pods, sps = append(pods, pod), append(sps, sp)
	}
	runSolve(c, r, w, pods, sps, lo.Ternary(fixed, "corpus-shared-catalog", "batch-shared-catalog"), r.Range(2, nTypes-1))
}

// reservedBatch: a heavier NodePool whose instance type has a reserved offering with capacity 1-2 next to on-demand
// offerings, a lighter on-demand pool, and a batch of identical pods each needing a NodeClaim of its own. Once the
// reservation is used up, strict mode must DEFER the next pod (no fall-through to the lighter pool), fallback mode
// continues on the heavier pool's on-demand offering.
func reservedBatch(c *kit.Ctx, r *kit.Rand) {
	cap0 := r.Range(1, 2)
	mk := func(pool string, reserved bool) []*cloudprovider.InstanceType {
		ofs := []cloudprovider.Offering{{Available: true, Price: 4, Requirements: scheduling.NewLabelRequirements(map[string]string{
			v1.CapacityTypeLabelKey: v1.CapacityTypeOnDemand, corev1.LabelTopologyZone: zones[0]})}}
		if reserved {
			ofs = append(ofs, cloudprovider.Offering{Available: true, Price: 0.5, ReservationCapacity: cap0, Requirements: scheduling.NewLabelRequirements(map[string]string{
				v1.CapacityTypeLabelKey: v1.CapacityTypeReserved, corev1.LabelTopologyZone: zones[0], testv1alpha1.LabelReservationID: "res-" + pool})})
		}
		return []*cloudprovider.InstanceType{fake.NewInstanceType(pool+"-t0-c4", fake.WithOfferings(ofs...),
			fake.WithResources(corev1.ResourceList{corev1.ResourceCPU: qty("4"), corev1.ResourceMemory: qty("64Gi"), corev1.ResourcePods: qty("20")}))}
	}
	perm := shuffled(r, len(poolNames))
	hi, lw := poolNames[perm[0]], poolNames[perm[1]]
	specs := []poolSpec{
		{sPool{Name: lw, Weight: lo.ToPtr(int32(1)), State: "ready"}, mk(lw, r.Chance(1, 4))},
		{sPool{Name: hi, Weight: lo.ToPtr(int32(50)), State: "ready"}, mk(hi, true)},
	}
	w := buildWorldOpts(specs, worldOpts{strict: !r.Chance(1, 3)})
	w.resMode = true
	var pods []*corev1.Pod
	var sps []sPod
	for k, n := 0, r.Range(2, 4); k < n; k++ {
		sp := sPod{Name: fmt.Sprintf("p%d", k), CPU: kit.Pick(r, []string{"3", "3", "3", "500m"})} // a small pod joins an open claim: re-reservation by the same host
		pod := test.UnschedulablePod(test.PodOptions{ObjectMeta: metav1.ObjectMeta{Name: sp.Name, UID: types.UID("uid-" + sp.Name),
			CreationTimestamp: metav1.NewTime(time.Unix(1_700_000_000+int64(k%2), 0))},
			ResourceRequirements: corev1.ResourceRequirements{Requests: corev1.ResourceList{corev1.ResourceCPU: qty(sp.CPU)}}})
		kit.Apply(w.ctx, w.cl, pod)
		pods, sps = append(pods, pod), append(sps, sp)
	}
	runSolve(c, r, w, pods, sps, "batch-reserved", 600)
}

// setLimits writes the given remaining cpu limits into the NodePool objects (the witness schedulers are built from the
// API like the real one) and returns the function that restores the original limits.
func (w *world) setLimits(rem map[string]int64) func() {
	old := map[string]v1.Limits{}
	for name, milli := range rem {
		np := &v1.NodePool{}
		if err := w.cl.Get(w.ctx, client.ObjectKey{Name: name}, np); err != nil {
			panic(err)
		}
		old[name] = np.Spec.Limits
		if milli < 0 {
			milli = 0
		}
		np.Spec.Limits = v1.Limits{corev1.ResourceCPU: *resource.NewMilliQuantity(milli, resource.DecimalSI)}
		if err := w.cl.Update(w.ctx, np); err != nil {
			panic(err)
		}
	}
	return func() {
		for name, l := range old {
			np := &v1.NodePool{}
			if err := w.cl.Get(w.ctx, client.ObjectKey{Name: name}, np); err != nil {
				panic(err)
			}
			np.Spec.Limits = l
			if err := w.cl.Update(w.ctx, np); err != nil {
				panic(err)
			}
		}
	}
}

// archType is one on-demand instance type of the given architecture offered in every zone.
func archType(name, arch string, cpu int64, price float64) *cloudprovider.InstanceType {
	var ofs []cloudprovider.Offering
	for _, z := range zones {
		ofs = append(ofs, cloudprovider.Offering{Available: true, Price: price, Requirements: scheduling.NewLabelRequirements(map[string]string{
			v1.CapacityTypeLabelKey: v1.CapacityTypeOnDemand, corev1.LabelTopologyZone: z})})
	}
	return fake.NewInstanceType(name, fake.WithArchitecture(arch), fake.WithOfferings(ofs...),
		fake.WithResources(corev1.ResourceList{corev1.ResourceCPU: *resource.NewQuantity(cpu, resource.DecimalSI), corev1.ResourceMemory: qty("256Gi"), corev1.ResourcePods: qty("20")}))
}

// limitsBatch: weighted NodePools WITH cpu limits, a catalogue of small arm64 and large amd64 types, and a batch of
// pods most of which need a NodeClaim of their own and whose architecture selector excludes the pool's largest types.
// Limits sit at the boundaries k*small, large, large+small-1, ... so that "debit the largest type the claim can still
// launch" and "debit the largest type of the pool" part ways.
func limitsBatch(c *kit.Ctx, r *kit.Rand, fixed bool) {
	small, large := kit.Pick(r, []int64{2, 4}), kit.Pick(r, []int64{16, 32})
	nPools := r.Range(2, 3)
	if fixed { // the shape of the seeded demo: high (weight 50, cpu limit 35), low (weight 1), 4-cpu arm64 + 32-cpu amd64
		small, large, nPools = 4, 32, 2
	}
	limitChoices := []int64{small, 2 * small, 3 * small, 3*small - 1, large, large + small - 1, large + small, large + 2*small, 2 * large, 2*large + small - 1}
	perm := shuffled(r, len(poolNames))
	weights := []int32{50, 10, 1}
	var specs []poolSpec
	for i := 0; i < nPools; i++ {
		sp := sPool{Name: poolNames[perm[i]], Weight: lo.ToPtr(weights[i]), State: "ready"}
		if !fixed && r.Chance(1, 5) {
			sp.Weight = lo.ToPtr(weights[r.Intn(len(weights))]) // ties and inversions
		}
		if i < nPools-1 && (fixed || r.Chance(4, 5)) {
			sp.LimitCPU = fmt.Sprint(kit.Pick(r, limitChoices))
			if fixed {
				sp.LimitCPU = "35"
			}
		}
		its := []*cloudprovider.InstanceType{
			archType(fmt.Sprintf("%s-arm-c%d", sp.Name, small), "arm64", small, float64(small)),
			archType(fmt.Sprintf("%s-amd-c%d", sp.Name, large), "amd64", large, float64(large)),
		}
		if !fixed && r.Chance(1, 3) {
			its = append(its, archType(fmt.Sprintf("%s-arm-c%d", sp.Name, 2*small), "arm64", 2*small, float64(2*small)))
		}
		specs = append(specs, poolSpec{sp, its})
	}
	w := buildWorld(specs, true)
	w.limitsMode = true
	var pods []*corev1.Pod
	var sps []sPod
	for k, n := 0, r.Range(2, 5); k < n; k++ {
		arch := "arm64"
		cpu := fmt.Sprintf("%dm", small*1000-1000)
		if !fixed {
			// every pod pins its architecture, so a NodeClaim's largest launchable type is fixed by its first pod and
			// the debit recomputed from the final Results equals the one due when the claim was opened
			switch r.Intn(8) {
			case 0:
				arch, cpu = "amd64", fmt.Sprintf("%dm", large*1000-1000)
			case 1:
				cpu = "500m"
			}
		}
		sp := sPod{Name: fmt.Sprintf("p%d", k), CPU: cpu}
		opts := test.PodOptions{ObjectMeta: metav1.ObjectMeta{Name: sp.Name, UID: types.UID("uid-" + sp.Name)},
			ResourceRequirements: corev1.ResourceRequirements{Requests: corev1.ResourceList{corev1.ResourceCPU: qty(cpu)}}}
		if arch != "" {
			sp.NodeSelector = map[string]string{corev1.LabelArchStable: arch}
			opts.NodeSelector = sp.NodeSelector
		}
		pod := test.UnschedulablePod(opts)
		kit.Apply(w.ctx, w.cl, pod)
		pods, sps = append(pods, pod), append(sps, sp)
	}
	runSolve(c, r, w, pods, sps, lo.Ternary(fixed, "corpus-limits", "batch-limits"), r.Range(1, 4))
}

func (w *world) optString() string {
	return fmt.Sprintf("minValuesBestEffort=%v ignorePreferences=%v reservedCapacityGateOff=%v daemonset=%d", w.bestEffort, w.ignorePref, w.gateOff, w.daemon)
}

// kfFor decides whether the strict-reading case of a placed pod is an instance of the known finding.
func (w *world) kfFor(o string, jobs map[string]string, levels []map[string]string, pod sPod) string {
	for _, x := range jobs {
		if x != o {
			return ""
		}
	}
	chosen := strings.TrimPrefix(o, "placed:")
	rank := w.rankOf(chosen)
	if rank < 0 || len(levels) < 2 {
		return ""
	}
	outranking := func(lv map[string]string, want string) bool { // some pool that outranks the chosen one answers [want]
		for name, out := range lv {
			if r := w.rankOf(name); r >= 0 && r < rank && out == want {
				return true
			}
		}
		return false
	}
	// the level at which the per-level rule places the pod: the first level at which any eligible pool is not "err"
	at := -1
	for k, lv := range levels {
		for name, out := range lv {
			if w.rankOf(name) >= 0 && (out == "ok" || out == "reserved") && at < 0 {
				at = k
			}
		}
		if at >= 0 {
			break
		}
	}
	if at < 0 || levels[at][chosen] != "ok" || outranking(levels[at], "ok") || outranking(levels[at], "reserved") {
		return "" // not explained by the per-level rule: must stay a violation
	}
	later := false
	for _, lv := range levels[at+1:] {
		later = later || outranking(lv, "ok")
	}
	if !later {
		return ""
	}
	if len(pod.Preferred) > 0 || len(pod.Required) > 1 {
		return kfRelax
	}
	return kfSoftTaint
}

// pipeline follows every new NodeClaim of a Solve result through TruncateInstanceTypes and ToNodeClaim, the way
// Provisioner.Schedule / CreateNodeClaims do, and emits the Truncate step and the end-to-end observation.
func (w *world) pipeline(c *kit.Ctx, results sched.Results, kind string, maxTypes int) {
	type pre struct {
		nc       *sched.NodeClaim
		orig     cloudprovider.InstanceTypes
		gRq, gIn string
		jRq      []jReq
		jIn      []jIT
	}
	var pres []pre
	for _, nc := range results.NewNodeClaims {
		keep := minKeys(nc.Requirements)
		pres = append(pres, pre{nc, nc.InstanceTypeOptions, gReqs(nc.Requirements, nil), gITs(nc.InstanceTypeOptions, keep),
			jReqs(nc.Requirements, nil), jITs(nc.InstanceTypeOptions, keep)})
	}
	defer func(old int) { sched.MaxInstanceTypes = old }(sched.MaxInstanceTypes)
	sched.MaxInstanceTypes = maxTypes
	perPool := map[string]int{}
	for _, nc := range results.NewNodeClaims {
		perPool[nc.NodePoolName]++
	}
	for _, n := range perPool {
		c.Count(fmt.Sprintf("pipeline:%s:claims-of-one-pool=%s", kind, lo.Ternary(n >= 2, ">=2", "1")))
	}
	// as Provisioner.Schedule does: truncate ALL NodeClaims of the pass first; every claim is judged only afterwards
	results = results.TruncateInstanceTypes(w.ctx, sched.MaxInstanceTypes)
	kept := sets.New(results.NewNodeClaims...)
	for _, p := range pres {
		full := names(p.orig) // sorted in place by Truncate
		ok := kept.Has(p.nc)
		res := names(p.nc.InstanceTypeOptions)
		minNeeded, unsat, smvErr := p.orig.SatisfiesMinValues(p.nc.Requirements)
		c.Count(fmt.Sprintf("pipeline:%s:truncate:%s,ok=%v", kind, lo.Ternary(maxTypes < len(p.orig), "truncates", "keeps-all"), ok))
		c.AddCase(fmt.Sprintf("CasePrice %s %s %s %s %s %s %s %s %s", allowList(), p.gRq, p.gIn, kit.GZ(int64(maxTypes)), kit.GBool(w.bestEffort),
			kit.GStrs(full), kit.GStrs(res), kit.GBool(ok), gSmv(minNeeded, unsat, smvErr)),
			pCase{"pipeline-truncate", p.jRq, p.jIn, maxTypes, w.bestEffort, full, res, ok, minNeeded, unsat, smvErr != nil},
			lo.Ternary(maxTypes < len(p.orig), "PP:"+p.gIn+p.gRq+fmt.Sprint(maxTypes), ""))
		if !ok {
			continue
		}
		claim := p.nc.ToNodeClaim()
		emitToNodeClaim(c, "pipeline", p.gRq, p.jRq, p.gIn, p.jIn, len(p.orig), maxTypes, p.orig, claim)
	}
}

func partSolve(c *kit.Ctx) {
	nSingle, nBatch := 200, 48
	if c.Thorough() {
		nSingle, nBatch = 1100, 300
	}
	// corpus: the smallest input on which the strict reading fails (kept first, see Properties/C19.v)
	corpusRelax(c)
	corpusReady(c)
	corpusNoPool(c)
	limitsBatch(c, c.Rand.Fork(), true)
	sharedCatalogBatch(c, c.Rand.Fork(), true)
	for i := 0; i < nBatch/3; i++ {
		sharedCatalogBatch(c, c.Rand.Fork(), false)
	}
	for i := 0; i < nSingle; i++ {
		r := c.Rand.Fork()
		w := newWorld(r, true)
		pod, sp := genPod(r, w, 0, r.Chance(1, 2))
		runSolve(c, r, w, []*corev1.Pod{pod}, []sPod{sp}, "single", r.Range(1, 4))
		// second pass over the SAME provider objects after offering availability changed (the first pass has used
		// them: fits()/Allocatable precompute per-type data once)
		if r.Chance(1, 3) {
			flips := 0
			for k := range w.pools {
				its := w.cp.InstanceTypesForNodePool[w.pools[k].Name]
				flips += flipAvailability(r, its, nil)
				w.pools[k].Types = jITs(its, func(string) bool { return false })
			}
			if flips > 0 {
				runSolve(c, r, w, []*corev1.Pod{pod}, []sPod{sp}, "second-pass", r.Range(1, 3))
			}
		}
	}
	for i := 0; i < nBatch*2/3; i++ {
		limitsBatch(c, c.Rand.Fork(), false)
	}
	for i := 0; i < nBatch/3; i++ {
		reservedBatch(c, c.Rand.Fork())
	}
	for i := 0; i < nBatch; i++ {
		r := c.Rand.Fork()
		w := newWorld(r, false) // no limits, no reservations, no minValues: a fresh claim's feasibility is state-independent
		var pods []*corev1.Pod
		var sps []sPod
		for k, n := 0, r.Range(2, 5); k < n; k++ {
			pod, sp := genPod(r, w, k, r.Chance(1, 3))
			pods, sps = append(pods, pod), append(sps, sp)
		}
		runSolve(c, r, w, pods, sps, "batch", r.Range(1, 4))
	}
}

// simpleType is one 4-cpu on-demand instance type in zone 1.
func simpleType(name string) *cloudprovider.InstanceType {
	return fake.NewInstanceType(name,
		fake.WithResources(corev1.ResourceList{corev1.ResourceCPU: qty("4"), corev1.ResourceMemory: qty("64Gi"), corev1.ResourcePods: qty("20")}),
		fake.WithOfferings(cloudprovider.Offering{Available: true, Price: 1, Requirements: scheduling.NewLabelRequirements(map[string]string{
			v1.CapacityTypeLabelKey: v1.CapacityTypeOnDemand, corev1.LabelTopologyZone: zones[0]})}))
}

// corpusReady: a heavier NodePool whose Ready condition is not True (Unknown because the NodeClass / validation is still
// undecided, or no conditions written yet) must not receive the pod; the lighter Ready=True pool does.
func corpusReady(c *kit.Ctx) {
	for _, state := range []string{"unknown-nodeclass", "unknown-validation", "no-conditions", "not-ready"} {
		w := buildWorld([]poolSpec{
			{sPool{Name: "pending", Weight: lo.ToPtr(int32(100)), State: state}, []*cloudprovider.InstanceType{simpleType("pending-t0-c4")}},
			{sPool{Name: "ok", Weight: lo.ToPtr(int32(1)), State: "ready"}, []*cloudprovider.InstanceType{simpleType("ok-t0-c4")}},
		}, true)
		sp := sPod{Name: "p0", CPU: "1"}
		pod := test.UnschedulablePod(test.PodOptions{ObjectMeta: metav1.ObjectMeta{Name: sp.Name, UID: "uid-p0"},
			ResourceRequirements: corev1.ResourceRequirements{Requests: corev1.ResourceList{corev1.ResourceCPU: qty(sp.CPU)}}})
		kit.Apply(w.ctx, w.cl, pod)
		runSolve(c, c.Rand.Fork(), w, []*corev1.Pod{pod}, []sPod{sp}, "corpus-ready", 600)
	}
}

// corpusNoPool: no NodePool is eligible (one not ready, one of another provider, one static): NewScheduler answers
// ErrNodePoolsNotFound and no pod gets a node.
func corpusNoPool(c *kit.Ctx) {
	w := buildWorld([]poolSpec{
		{sPool{Name: "a", Weight: lo.ToPtr(int32(10)), State: "not-ready"}, []*cloudprovider.InstanceType{simpleType("a-t0-c4")}},
		{sPool{Name: "b", Weight: lo.ToPtr(int32(5)), State: "unmanaged"}, []*cloudprovider.InstanceType{simpleType("b-t0-c4")}},
		{sPool{Name: "c", Weight: lo.ToPtr(int32(1)), State: "static"}, []*cloudprovider.InstanceType{simpleType("c-t0-c4")}},
	}, true)
	sp := sPod{Name: "p0", CPU: "1"}
	pod := test.UnschedulablePod(test.PodOptions{ObjectMeta: metav1.ObjectMeta{Name: sp.Name, UID: "uid-p0"},
		ResourceRequirements: corev1.ResourceRequirements{Requests: corev1.ResourceList{corev1.ResourceCPU: qty(sp.CPU)}}})
	kit.Apply(w.ctx, w.cl, pod)
	runSolve(c, c.Rand.Fork(), w, []*corev1.Pod{pod}, []sPod{sp}, "corpus-no-pool", 600)
}

// corpusRelax: NodePool "high" (weight 100, team=x) and "low" (weight 1, team=y).
//
//	(a) a pod that merely PREFERS team=y gets a node from "low" although "high" can host it;
//	(b) a pod that requires (team=y OR team=x) gets a node from "low" as well: only the first term is tried first.
func corpusRelax(c *kit.Ctx) {
	for variant := 0; variant < 2; variant++ {
		w := buildWorld([]poolSpec{
			{sPool{Name: "high", Weight: lo.ToPtr(int32(100)), State: "ready", Labels: map[string]string{teamKey: "x"}}, []*cloudprovider.InstanceType{simpleType("high-t0-c4")}},
			{sPool{Name: "low", Weight: lo.ToPtr(int32(1)), State: "ready", Labels: map[string]string{teamKey: "y"}}, []*cloudprovider.InstanceType{simpleType("low-t0-c4")}},
		}, true)
		sp := sPod{Name: "p0", CPU: "1"}
		pod := test.UnschedulablePod(test.PodOptions{ObjectMeta: metav1.ObjectMeta{Name: sp.Name, UID: "uid-p0"},
			ResourceRequirements: corev1.ResourceRequirements{Requests: corev1.ResourceList{corev1.ResourceCPU: qty(sp.CPU)}}})
		aff := &corev1.NodeAffinity{}
		if variant == 0 {
			sp.Preferred = []string{"10:team=y"}
			aff.PreferredDuringSchedulingIgnoredDuringExecution = []corev1.PreferredSchedulingTerm{{Weight: 10, Preference: nsTerm(map[string]string{teamKey: "y"})}}
		} else {
			sp.Required = []map[string]string{{teamKey: "y"}, {teamKey: "x"}}
			aff.RequiredDuringSchedulingIgnoredDuringExecution = &corev1.NodeSelector{NodeSelectorTerms: []corev1.NodeSelectorTerm{
				nsTerm(map[string]string{teamKey: "y"}), nsTerm(map[string]string{teamKey: "x"})}}
		}
		pod.Spec.Affinity = &corev1.Affinity{NodeAffinity: aff}
		kit.Apply(w.ctx, w.cl, pod)
		runSolve(c, c.Rand.Fork(), w, []*corev1.Pod{pod}, []sPod{sp}, "corpus", 600)
	}
}
