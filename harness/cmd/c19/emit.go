package main

import (
	"fmt"
	"math"
	"sort"
	"strings"

	corev1 "k8s.io/api/core/v1"
	"k8s.io/apimachinery/pkg/runtime/schema"
	"k8s.io/apimachinery/pkg/util/sets"

	v1 "sigs.k8s.io/karpenter/pkg/apis/v1"
	"sigs.k8s.io/karpenter/pkg/cloudprovider/fake"
	testv1alpha1 "sigs.k8s.io/karpenter/pkg/test/v1alpha1"

	"sigs.k8s.io/karpenter/pkg/cloudprovider"
	"sigs.k8s.io/karpenter/pkg/scheduling"

	"verifharness/kit"
)

// ------------------------------------------------------------------ Gallina emitters

// Frequent strings are emitted as references to definitions placed in the header of every case file (the literal is
// parsed once instead of once per occurrence; vm_compute unfolds the constants).
var dict = []string{corev1.LabelTopologyZone, v1.CapacityTypeLabelKey, corev1.LabelInstanceTypeStable, testv1alpha1.LabelReservationID,
	familyKey, tierKey, teamKey, "test-zone-1", "test-zone-2", "test-zone-3", v1.CapacityTypeSpot, v1.CapacityTypeOnDemand, v1.CapacityTypeReserved,
	corev1.LabelArchStable, corev1.LabelOSStable, v1.NodePoolLabelKey, v1.NodeRegisteredLabelKey, v1.NodeInitializedLabelKey,
	corev1.LabelHostname, "true", "amd64", "linux", "windows", "darwin", "gold", "silver", "c", "m", "r", "x", "y",
	fake.LabelInstanceSize, fake.ExoticInstanceLabelKey, fake.IntegerInstanceLabelKey, "small", "large", "optional", "default",
	v1.NodeClassLabelKey(schema.GroupKind{Group: "karpenter.test.sh", Kind: "TestNodeClass"})}

var dictIdx = func() map[string]int {
	m := map[string]int{}
	for i, s := range dict {
		m[s] = i
	}
	return m
}()

// gS renders a string, through the dictionary when it is listed there.
func gS(s string) string {
	if i, ok := dictIdx[s]; ok {
		return fmt.Sprintf("s%d", i)
	}
	return kit.GStr(s)
}

func gSs(xs []string) string { return kit.GListOf(xs, gS) }

// caseHeader is the Require line plus the dictionary and the well-known label list (AllowUndefinedWellKnownLabels).
func caseHeader() string {
	var b strings.Builder
	b.WriteString("From KV Require Import C19.Model C19.Check.\n")
	for i, s := range dict {
		fmt.Fprintf(&b, "Definition s%d : string := %s.\n", i, kit.GStr(s))
	}
	fmt.Fprintf(&b, "Definition wk : list string := %s.", gSs(sets.List(v1.WellKnownLabels)))
	return b.String()
}

func optInt(p *int) string {
	if p == nil {
		return "None"
	}
	return "(Some " + kit.GZ(int64(*p)) + ")"
}

// gReq renders a real Requirement raw (complement, values, bounds, minValues) as Base/Req.v's record.
func gReq(r *scheduling.Requirement) string {
	compl, gte, lte, _ := r.VerifInternals()
	vals := sets.List(sets.New(r.Values()...))
	return fmt.Sprintf("(mkReq %s %s %s %s %s)", kit.GBool(compl), gSs(vals), optInt(gte), optInt(lte), optInt(r.MinValues))
}

// gReqs renders a Requirements map as an association list sorted by key. keep == nil keeps every key.
func gReqs(rs scheduling.Requirements, keep func(string) bool) string {
	keys := make([]string, 0, len(rs))
	for k := range rs {
		if keep == nil || keep(k) {
			keys = append(keys, k)
		}
	}
	sort.Strings(keys)
	return kit.GListOf(keys, func(k string) string { return kit.GPair(gS(k), gReq(rs[k])) })
}

// priceUnits converts a dyadic float price into units of 2^-10; it panics when the value is not exactly representable
// (the generators only produce such prices, so that float comparison and the model's integer comparison agree).
func priceUnits(p float64) int64 {
	u := p * 1024
	if u != math.Trunc(u) || math.Abs(u) >= 1<<40 {
		panic(fmt.Sprintf("c19: price %v is not a multiple of 2^-10", p))
	}
	return int64(u)
}

func gOffering(o *cloudprovider.Offering) string {
	return fmt.Sprintf("(mkOff %s %s %s)", gReqs(o.Requirements, nil), kit.GZ(priceUnits(o.Price)), kit.GBool(o.Available))
}

// gIT renders an instance type: name, its requirements restricted to [keep] (the model reads them only through
// Requirements.Get(key) for keys that carry minValues), and all offerings.
func gIT(it *cloudprovider.InstanceType, keep func(string) bool) string {
	return fmt.Sprintf("(mkIT %s %s %s)", kit.GStr(it.Name), gReqs(it.Requirements, keep),
		kit.GListOf([]*cloudprovider.Offering(it.Offerings), gOffering))
}

func gITs(its []*cloudprovider.InstanceType, keep func(string) bool) string {
	return kit.GListOf(its, func(it *cloudprovider.InstanceType) string { return gIT(it, keep) })
}

func names(its []*cloudprovider.InstanceType) []string {
	out := make([]string, len(its))
	for i, it := range its {
		out[i] = it.Name
	}
	return out
}

// minKeys is the key filter "carries minValues in rq".
func minKeys(rq scheduling.Requirements) func(string) bool {
	return func(k string) bool {
		r, ok := rq[k]
		return ok && r.MinValues != nil
	}
}

// ------------------------------------------------------------------ JSON mirrors (replay files)

type jReq struct {
	Key   string   `json:"key"`
	Compl bool     `json:"complement"`
	Vals  []string `json:"values"`
	Gte   *int     `json:"gte,omitempty"`
	Lte   *int     `json:"lte,omitempty"`
	MinV  *int     `json:"minValues,omitempty"`
}

func jReqs(rs scheduling.Requirements, keep func(string) bool) []jReq {
	var out []jReq
	for _, k := range kit.SortedKeys(rs) {
		if keep != nil && !keep(k) {
			continue
		}
		compl, gte, lte, _ := rs[k].VerifInternals()
		out = append(out, jReq{k, compl, sets.List(sets.New(rs[k].Values()...)), gte, lte, rs[k].MinValues})
	}
	return out
}

type jOff struct {
	Reqs  []jReq  `json:"requirements"`
	Price float64 `json:"price"`
	Avail bool    `json:"available"`
	Cap   int     `json:"reservation_capacity,omitempty"`
}

type jIT struct {
	Name string `json:"name"`
	Reqs []jReq `json:"requirements,omitempty"`
	Offs []jOff `json:"offerings"`
	CPU  string `json:"cpu,omitempty"`
}

func jITs(its []*cloudprovider.InstanceType, keep func(string) bool) []jIT {
	out := make([]jIT, len(its))
	for i, it := range its {
		j := jIT{Name: it.Name, Reqs: jReqs(it.Requirements, keep), CPU: it.Capacity.Cpu().String()}
		for _, o := range it.Offerings {
			j.Offs = append(j.Offs, jOff{jReqs(o.Requirements, nil), o.Price, o.Available, o.ReservationCapacity})
		}
		out[i] = j
	}
	return out
}
