// Command c19 drives the real NodePool weight ordering, the price ranking / truncation of instance types and the
// scheduler's choice of NodePool for a pod, and writes what they did as Gallina cases (see coq/C19/Check.v).
package main

import (
	"os"

	"github.com/go-logr/logr"
	"sigs.k8s.io/controller-runtime/pkg/log"

	"verifharness/kit"
)

func main() {
	log.SetLogger(logr.Discard())
	c := kit.Parse("C19", os.Args[1:])
	partWeight(c)
	partPrice(c)
	partToNodeClaim(c)
	partSolve(c)
	c.Meta.Exhaustive = false
	c.Meta.Rule = "W: every arrangement of up to 3 (thorough: 4) distinct NodePool names out of {a,ab,b,B} with weights in {nil,1,2}, plus random lists of 2-24 pools " +
		"(weights nil/0/1/10/10/50/100; >12 pools reaches pdqsort). P: random catalogues of 0-18 instance types with 0-4 offerings (3 zones, 3 capacity types, " +
		"10 dyadic prices with ties, 20% unavailable, custom-key offerings), requirement sets with zone/capacity-type/custom keys and minValues on instance-type " +
		"and family, maxItems in {-1,0,1..len,len+1,600}, strict and BestEffort policy. T: ToNodeClaim on real NodeClaimTemplates with MaxInstanceTypes lowered. " +
		"S: worlds of 2-5 NodePools (weights with ties, template labels/zones/capacity types/taints incl. PreferNoSchedule/limits/minValues; every readiness state: Ready=True / False / Unknown (NodeClassReady or ValidationSucceeded undecided) / no conditions, plus static and deleting pools; " +
		"1-4 instance types per pool incl. reserved offerings with capacity 0/1), one pod (feasible skeleton, at most two perturbations; half with preferred / several required " +
		"node-affinity terms) or a batch of 2-5 pods, Solve at 1, 4 and 16 workers, then TruncateInstanceTypes + ToNodeClaim. " +
		"S also runs batches against weighted NodePools WITH cpu limits (small arm64 + large amd64 types, pods pinned to an architecture, most needing a NodeClaim of their own, limits at k*small / large / large+small-1 ...): " +
		"the feasibility of each pool for a pod is judged under the limit that truly remains (spec.limits minus the largest type each EARLIER NodeClaim of the pass can still launch, recomputed from the Results). " +
		"Coverage-guided additions: NodePools of another provider (unmanaged), Ready pools whose instance types fail to resolve (generic error, UnevaluatedNodePoolError, empty list), worlds without any eligible pool (ErrNodePoolsNotFound), " +
		"memory limits, startupTaints, price/capacity overlays (with the ToNodeClaim annotation oracle), offerings with CapacityOverride, DaemonSets (overhead, selector, host port), pods with memory requests, Pending phase, host ports, Exists tolerations, " +
		"unbound PVCs with zonal StorageClasses, options MinValuesPolicy=BestEffort / PreferencePolicy=Ignore / ReservedCapacity gate off, and batches against a reservation of capacity 1-2 judged under the capacity that truly remains. " +
		"P, T and S additionally re-run on the SAME *InstanceType objects after a first use (Allocatable/AllocatableOfferingsList/fits precompute) and an in-place change of " +
		"Offering.Available (cheapest compatible offering of about half of the types becomes unavailable, some unavailable offerings come back): ranking and truncation are judged by the CURRENT availability. " +
		"non-trivial = the sort moved an element / the cut drops a type / the pod got a pool that is not first in the order or was deferred; distinct by full input"
	c.Meta.Extra = map[string]interface{}{"assumptions": []string{
		"within one addToNewNodeClaim call the evaluation outcome of a template for the pod (NewNodeClaim + CanAdd) is a function of the template only: it reads, and does not write, scheduler state, so it does not depend on the interleaving of the workers (writes to idx/newNodeClaim happen under the mutex and are modelled)",
		"prices are multiples of 2^-10 below 2^30, so float64 comparison is exact (NaN and MaxFloat64 prices are not generated)",
		"NodePool names are unique (cluster-scoped API objects), so OrderByWeight's comparator is a strict total order",
	}}
	c.Meta.Corr = []string{
		"nodepoolutils.OrderByWeight = C19.Model.order_by_weight (exact, names unique)",
		"cloudprovider.InstanceTypes.OrderByPrice: permutation with the price-key sequence of C19.Model.order_by_price (ties free)",
		"cloudprovider.InstanceTypes.Truncate = C19.Model.truncate_from on the order the sort left",
		"cloudprovider.InstanceTypes.SatisfiesMinValues = C19.Model.satisfies_min_values",
		"NodeClaimTemplate.ToNodeClaim instance-type requirement = C19.Model.to_nodeclaim_req on lo_slice of the sorted options",
		"Provisioner.NewScheduler + Scheduler.Solve at 1/4/16 workers: pool of the pod's new NodeClaim = C19.Model.try_schedule over order_by_weight, fed with the real addToNewNodeClaim outcome of every pool alone at every relaxation level",
	}
	shard := 500
	if c.Thorough() {
		shard = 1000
	}
	c.Finish(caseHeader(), "case", "check_all", shard)
}
