// Command c19 drives the real NodePool weight ordering, the price ranking / truncation of instance types and the
// scheduler's choice of NodePool for a pod, and writes what they did as Gallina cases (see coq/C19/Check.v).
package main

import (
	"os"

	"github.com/go-logr/logr"
	"sigs.k8s.io/controller-runtime/pkg/log"

	"verifharness/kit"
)

func main() {
	log.SetLogger(logr.Discard())
	c := kit.Parse("C19", os.Args[1:])
	partWeight(c)
	partPrice(c)
	partToNodeClaim(c)
	partSolve(c)
	c.Meta.Exhaustive = false
	c.Meta.Corr = []string{
		"nodepoolutils.OrderByWeight = C19.Model.order_by_weight (exact, names unique)",
		"cloudprovider.InstanceTypes.OrderByPrice: permutation with the price-key sequence of C19.Model.order_by_price (ties free)",
		"cloudprovider.InstanceTypes.Truncate = C19.Model.truncate_from on the order the sort left",
		"cloudprovider.InstanceTypes.SatisfiesMinValues = C19.Model.satisfies_min_values",
		"NodeClaimTemplate.ToNodeClaim instance-type requirement = C19.Model.to_nodeclaim_req on lo_slice of the sorted options",
		"Provisioner.NewScheduler + Scheduler.Solve at 1/4/16 workers: pool of the pod's new NodeClaim = C19.Model.try_schedule over order_by_weight, fed with the real addToNewNodeClaim outcome of every pool alone at every relaxation level",
	}
	c.Finish(caseHeader(), "case", "check_all", 500)
}
