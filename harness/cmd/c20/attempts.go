package main

// Attempt level: the real lifecycle.Controller (Launch, Registration, Initialization, Liveness and the status write-back)
// reconciles NodeClaims of one NodePool against the fake client, the fake cloud provider and a FakeClock; the
// registrationhealth controller and process restarts are interleaved. After every op the NodePool condition, three
// probes of the in-memory tracker and (Registered, deleted) of every NodeClaim are recorded and handed to
// C20.Check.CaseA, which compares them with C20.Attempts.astep (correspondence) and with the property's own machine
// driven by the API-visible conclusions only (oracle:window-tracks-attempts).

import (
	"context"
	"fmt"
	"strings"
	"time"

	"github.com/awslabs/operatorpkg/object"
	corev1 "k8s.io/api/core/v1"
	apierrors "k8s.io/apimachinery/pkg/api/errors"
	metav1 "k8s.io/apimachinery/pkg/apis/meta/v1"
	"k8s.io/apimachinery/pkg/runtime/schema"
	"k8s.io/apimachinery/pkg/types"
	clock "k8s.io/utils/clock/testing"
	"sigs.k8s.io/controller-runtime/pkg/client"
	"sigs.k8s.io/controller-runtime/pkg/client/interceptor"

	v1 "sigs.k8s.io/karpenter/pkg/apis/v1"
	"sigs.k8s.io/karpenter/pkg/cloudprovider/fake"
	"sigs.k8s.io/karpenter/pkg/controllers/nodeclaim/lifecycle"
	"sigs.k8s.io/karpenter/pkg/controllers/nodepool/registrationhealth"
	"sigs.k8s.io/karpenter/pkg/state/nodepoolhealth"
	"sigs.k8s.io/karpenter/pkg/test"
	testv1alpha1 "sigs.k8s.io/karpenter/pkg/test/v1alpha1"

	"verifharness/kit"
)

type aop struct {
	Kind  string `json:"kind"` // new join rec tick env
	I     int    `json:"i,omitempty"`
	OK    bool   `json:"ok,omitempty"`
	Fault string `json:"fault,omitempty"` // FNone FPoolConflict FDeleteErr FStatusLost
	D     int64  `json:"d,omitempty"`
	Env   string `json:"env,omitempty"` // EPool EClass ECrash EHealth
}

func (o aop) gallina() string {
	switch o.Kind {
	case "new":
		return "ANew " + kit.GBool(o.OK)
	case "join":
		return fmt.Sprintf("AJoin %d", o.I)
	case "rec":
		return fmt.Sprintf("ARec %d %s", o.I, o.Fault)
	case "tick":
		return "ATick " + kit.GZ(o.D)
	}
	return "AEnv " + o.Env
}

type acase struct {
	Kind  string   `json:"kind"`
	Ops   []aop    `json:"ops"`
	Obs   []string `json:"obs"`
	KfKey string   `json:"kf_key,omitempty"`
}

type aenv struct {
	c                                       client.Client
	clk                                     *clock.FakeClock
	cp                                      *fake.CloudProvider
	st                                      *nodepoolhealth.State
	np                                      *v1.NodePool
	ctrl                                    *lifecycle.Controller
	failPoolPatch, failDelete, failNCStatus bool
	failNodePatch                           bool
	names                                   []string
	ok                                      []bool
	joined                                  []bool
}

func newAEnv() *aenv {
	ctx := kit.Context()
	e := &aenv{clk: clock.NewFakeClock(time.Unix(1_700_000_000, 0)), cp: fake.NewCloudProvider(), st: nodepoolhealth.NewState()}
	e.c = kit.NewClient(interceptor.Funcs{
		SubResourcePatch: func(ctx context.Context, cl client.Client, sub string, obj client.Object, patch client.Patch, opts ...client.SubResourcePatchOption) error {
			if _, ok := obj.(*v1.NodePool); ok && e.failPoolPatch {
				e.failPoolPatch = false
				return apierrors.NewConflict(schema.GroupResource{Group: "karpenter.sh", Resource: "nodepools"}, obj.GetName(), fmt.Errorf("injected conflict"))
			}
			if _, ok := obj.(*v1.NodeClaim); ok && e.failNCStatus {
				e.failNCStatus = false
				return apierrors.NewInternalError(fmt.Errorf("injected"))
			}
			return cl.SubResource(sub).Patch(ctx, obj, patch, opts...)
		},
		Patch: func(ctx context.Context, cl client.WithWatch, obj client.Object, patch client.Patch, opts ...client.PatchOption) error {
			if _, ok := obj.(*corev1.Node); ok && e.failNodePatch {
				e.failNodePatch = false
				return apierrors.NewConflict(schema.GroupResource{Resource: "nodes"}, obj.GetName(), fmt.Errorf("injected conflict"))
			}
			return cl.Patch(ctx, obj, patch, opts...)
		},
		Delete: func(ctx context.Context, cl client.WithWatch, obj client.Object, opts ...client.DeleteOption) error {
			if _, ok := obj.(*v1.NodeClaim); ok && e.failDelete {
				e.failDelete = false
				return apierrors.NewInternalError(fmt.Errorf("injected"))
			}
			return cl.Delete(ctx, obj, opts...)
		},
	})
	nodeClass := test.NodeClass()
	nodeClass.Name = "nodeclass"
	nodeClass.Generation = 1
	e.np = test.NodePool()
	e.np.Name = "pool"
	e.np.UID = "pool-uid"
	e.np.Generation = 1
	e.np.Spec.Template.Spec.NodeClassRef = &v1.NodeClassReference{Group: object.GVK(nodeClass).Group, Kind: object.GVK(nodeClass).Kind, Name: nodeClass.Name}
	kit.Apply(ctx, e.c, nodeClass, e.np)
	e.newController()
	e.health()
	return e
}

func (e *aenv) newController() {
	e.ctrl = lifecycle.NewController(e.clk, e.c, e.cp, test.NewEventRecorder(), e.st, nil)
}

func (e *aenv) pool() *v1.NodePool {
	np := &v1.NodePool{}
	if err := e.c.Get(kit.Context(), client.ObjectKey{Name: "pool"}, np); err != nil {
		panic(err)
	}
	return np
}

func (e *aenv) health() {
	if _, err := registrationhealth.NewController(e.clk, e.c, e.cp, e.st).Reconcile(kit.Context(), e.pool()); err != nil {
		panic(err)
	}
}

// reconcile runs the real lifecycle controller on claim i. The controller sleeps one second on the (fake) clock after it
// patched the claim; a helper goroutine moves the clock while the controller waits, and the drift is returned.
func (e *aenv) reconcile(i int) int64 {
	nc := &v1.NodeClaim{}
	if err := e.c.Get(kit.Context(), client.ObjectKey{Name: e.names[i]}, nc); err != nil {
		if apierrors.IsNotFound(err) {
			return 0
		}
		panic(err)
	}
	if !e.ok[i] {
		e.cp.NextCreateErr = fmt.Errorf("injected: the provider cannot launch this claim")
	}
	before := e.clk.Now()
	done := make(chan struct{})
	stopped := make(chan struct{})
	go func() {
		defer close(stopped)
		for {
			select {
			case <-done:
				return
			default:
				if e.clk.HasWaiters() {
					e.clk.Step(time.Second)
				}
				time.Sleep(200 * time.Microsecond)
			}
		}
	}()
	_, _ = e.ctrl.Reconcile(kit.Context(), nc)
	close(done)
	<-stopped
	e.cp.NextCreateErr = nil
	return int64(e.clk.Now().Sub(before) / time.Second)
}

func (e *aenv) observe() string {
	cnd := e.pool().StatusConditions().Get(v1.ConditionTypeNodeRegistrationHealthy)
	cs := "CFalse"
	switch {
	case cnd == nil, cnd.IsUnknown():
		cs = "CUnknown"
	case cnd.IsTrue():
		cs = "CTrue"
	}
	uid := e.np.UID
	trk := fmt.Sprintf("(%s, %s, %s)", statusName(e.st.Status(uid)), statusName(e.st.DryRun(uid, true).Status()), statusName(e.st.DryRun(uid, false).Status()))
	cl := make([]string, len(e.names))
	for i, n := range e.names {
		nc := &v1.NodeClaim{}
		err := e.c.Get(kit.Context(), client.ObjectKey{Name: n}, nc)
		switch {
		case apierrors.IsNotFound(err):
			cl[i] = "(false, true)"
		case err != nil:
			panic(err)
		default:
			cl[i] = kit.GPair(kit.GBool(nc.StatusConditions().Get(v1.ConditionTypeRegistered).IsTrue()), kit.GBool(!nc.DeletionTimestamp.IsZero()))
		}
	}
	return fmt.Sprintf("AObs %s %s %s", cs, trk, kit.GList(cl))
}

// runAttempts executes the ops on the real controllers and returns the ops actually performed (clock drift made
// explicit, faults that did not fire reported as FNone where the model cannot know) with one observation each.
func runAttempts(ops []aop) (done []aop, obs []string, fired map[string]int) {
	ctx := kit.Context()
	e := newAEnv()
	fired = map[string]int{}
	emit := func(o aop) {
		done = append(done, o)
		obs = append(obs, e.observe())
	}
	for _, o := range ops {
		switch o.Kind {
		case "new":
			name := fmt.Sprintf("claim-%d", len(e.names))
			nc := test.NodeClaim(v1.NodeClaim{ObjectMeta: metav1.ObjectMeta{
				Name:   name,
				UID:    types.UID(name), // the launch cache is keyed by UID
				Labels: map[string]string{v1.NodePoolLabelKey: e.np.Name},
				OwnerReferences: []metav1.OwnerReference{{APIVersion: object.GVK(e.np).GroupVersion().String(), Kind: object.GVK(e.np).Kind,
					Name: e.np.Name, UID: e.np.UID}},
			}, Spec: v1.NodeClaimSpec{NodeClassRef: e.np.Spec.Template.Spec.NodeClassRef}})
			nc.Status = v1.NodeClaimStatus{}
			nc.CreationTimestamp = metav1.Time{Time: e.clk.Now()} // the conditions' initial transition time
			kit.Apply(ctx, e.c, nc)
			e.names, e.ok, e.joined = append(e.names, name), append(e.ok, o.OK), append(e.joined, false)
			drift := e.reconcile(len(e.names) - 1)
			emit(o)
			if drift > 0 {
				emit(aop{Kind: "tick", D: drift})
			}
		case "join":
			if o.I < len(e.names) && e.ok[o.I] && !e.joined[o.I] {
				nc := &v1.NodeClaim{}
				if err := e.c.Get(ctx, client.ObjectKey{Name: e.names[o.I]}, nc); err == nil && nc.DeletionTimestamp.IsZero() && nc.Status.ProviderID != "" {
					n := test.Node(test.NodeOptions{ObjectMeta: metav1.ObjectMeta{Name: "node-" + e.names[o.I]}, ProviderID: nc.Status.ProviderID,
						// NotReady: the initialization step then never patches the Node, so an injected Node-patch conflict can
						// only hit the registration step
						ReadyStatus: corev1.ConditionFalse, Taints: []corev1.Taint{v1.UnregisteredNoExecuteTaint}})
					kit.Apply(ctx, e.c, n)
					e.joined[o.I] = true
				}
			}
			emit(o)
		case "rec":
			if o.I >= len(e.names) {
				emit(o)
				continue
			}
			switch o.Fault {
			case "FPoolConflict":
				e.failPoolPatch = true
			case "FDeleteErr":
				e.failDelete = true
			case "FStatusLost":
				e.failNCStatus = true
			case "FNodePatch":
				e.failNodePatch = true
			}
			drift := e.reconcile(o.I)
			eo := o
			switch o.Fault {
			case "FPoolConflict":
				if !e.failPoolPatch {
					fired["FPoolConflict"]++
				}
			case "FDeleteErr":
				if !e.failDelete {
					fired["FDeleteErr"]++
				}
			case "FStatusLost":
				if e.failNCStatus {
					eo.Fault = "FNone" // no status patch was issued: nothing was lost
				} else {
					fired["FStatusLost"]++
				}
			case "FNodePatch":
				if e.failNodePatch {
					eo.Fault = "FNone" // no Node patch was issued
				} else {
					fired["FNodePatch"]++
				}
			}
			e.failPoolPatch, e.failDelete, e.failNCStatus, e.failNodePatch = false, false, false, false
			emit(eo)
			if drift > 0 {
				emit(aop{Kind: "tick", D: drift})
			}
		case "tick":
			e.clk.Step(time.Duration(o.D) * time.Second)
			emit(o)
		case "env":
			switch o.Env {
			case "EPool":
				np := e.pool()
				np.Generation++
				if err := e.c.Update(ctx, np); err != nil {
					panic(err)
				}
				e.health()
			case "EClass":
				nodeClass := &testv1alpha1.TestNodeClass{}
				if err := e.c.Get(ctx, client.ObjectKey{Name: "nodeclass"}, nodeClass); err != nil {
					panic(err)
				}
				nodeClass.Generation++
				if err := e.c.Update(ctx, nodeClass); err != nil {
					panic(err)
				}
				e.health()
			case "ECrash":
				e.st = nodepoolhealth.NewState()
				e.newController()
			case "EHealth":
				e.health()
			}
			emit(o)
		}
	}
	return done, obs, fired
}

func stripFaults(ops []aop, which string) []aop {
	out := make([]aop, len(ops))
	for i, o := range ops {
		if o.Kind == "rec" && o.Fault == which {
			o.Fault = "FNone"
		}
		out[i] = o
	}
	return out
}

// addAttempts runs one history; when a Delete error or a lost NodeClaim status write fired, the history is a known
// finding's shape: it is emitted with the key, and again with that fault removed as an unkeyed core case.
func addAttempts(c *kit.Ctx, ops []aop) {
	done, obs, fired := runAttempts(ops)
	key := ""
	switch {
	case fired["FDeleteErr"] > 0 && fired["FStatusLost"] == 0:
		key = "failure-recorded-again-after-delete-error"
	case fired["FStatusLost"] > 0 && fired["FDeleteErr"] == 0:
		key = "success-recorded-again-after-claim-status-patch-error"
	}
	emitAttempts(c, done, obs, fired, key)
	if key != "" {
		core := stripFaults(stripFaults(ops, "FDeleteErr"), "FStatusLost")
		d2, o2, f2 := runAttempts(core)
		emitAttempts(c, d2, o2, f2, "")
	}
}

func emitAttempts(c *kit.Ctx, done []aop, obs []string, fired map[string]int, key string) {
	g := make([]string, len(done))
	concluded, recs := 0, 0
	for i, o := range done {
		g[i] = o.gallina()
		if o.Kind == "rec" {
			recs++
		}
	}
	if len(obs) > 0 {
		last := obs[len(obs)-1]
		concluded = strings.Count(last, "(true, false)") + strings.Count(last, "(false, true)")
	}
	for f, n := range fired {
		if n > 0 {
			c.Count("attempts:fault-fired:" + f)
		}
	}
	c.Count(fmt.Sprintf("attempts:concluded=%d", min(concluded, 5)))
	if key != "" {
		c.Count("attempts:keyed:" + key)
	}
	nt := ""
	if concluded >= 2 {
		nt = "A:" + strings.Join(g, ",")
	}
	c.AddCase(fmt.Sprintf("CaseA %s %s", kit.GList(g), kit.GList(obs)), acase{"attempts", done, obs, key}, nt)
}

func rec(i int, f string) aop { return aop{Kind: "rec", I: i, Fault: f} }
func tick(d int64) aop        { return aop{Kind: "tick", D: d} }
func anew(ok bool) aop        { return aop{Kind: "new", OK: ok} }
func join(i int) aop          { return aop{Kind: "join", I: i} }
func env(e string) aop        { return aop{Kind: "env", Env: e} }

func attemptCases(c *kit.Ctx) {
	// corpus: the histories of the two repaired defects and of the two known findings
	addAttempts(c, []aop{anew(true), join(0), rec(0, "FPoolConflict"), rec(0, "FNone")})                                  // 40852abfb
	addAttempts(c, []aop{anew(false), tick(960), rec(0, "FNone")})                                                         // 3cbc43e89
	addAttempts(c, []aop{anew(false), tick(300), rec(0, "FDeleteErr"), rec(0, "FNone")})                                   // known finding
	addAttempts(c, []aop{anew(true), join(0), rec(0, "FStatusLost"), rec(0, "FNone")})                                     // known finding
	addAttempts(c, []aop{anew(false), anew(false), tick(300), rec(0, "FNone"), rec(1, "FNone"), anew(true), join(2), rec(2, "FNodePatch"), rec(2, "FNone"), anew(true), join(3), rec(3, "FNodePatch"), rec(3, "FNodePatch"), rec(3, "FNone")}) // seeded C20-5
	addAttempts(c, []aop{anew(true), anew(false), join(0), rec(0, "FNone"), tick(300), rec(1, "FNone"), env("ECrash"), env("EHealth"), anew(true), join(2), rec(2, "FNone")})
	addAttempts(c, []aop{anew(false), anew(false), tick(299), rec(0, "FNone"), tick(1), rec(0, "FNone"), rec(1, "FPoolConflict"), rec(1, "FNone"), anew(true), tick(899), rec(2, "FNone"), tick(1), join(2), rec(2, "FNone")})
	addAttempts(c, []aop{anew(true), tick(900), rec(0, "FNone"), anew(true), tick(900), rec(1, "FPoolConflict"), rec(1, "FNone"), anew(true), join(2), rec(2, "FPoolConflict"), tick(900), rec(2, "FNone")})
	n := 150
	if c.Thorough() {
		n = 1500
	}
	faults := []string{"FPoolConflict", "FDeleteErr", "FStatusLost"}
	for k := 0; k < n; k++ {
		r := c.Rand.Fork()
		// at most one kind of not-yet-repaired fault per history so that a keyed case is confined to one finding
		extra := []string{"FPoolConflict", "FNodePatch"}
		switch r.Intn(4) {
		case 0:
			extra = append(extra, "FDeleteErr")
		case 1:
			extra = append(extra, "FStatusLost")
		}
		faulty := r.Chance(1, 2)
		var ops []aop
		claims := 0
		length := r.Range(8, 22)
		for len(ops) < length {
			switch x := r.Intn(20); {
			case x < 4 || claims == 0:
				ops = append(ops, anew(r.Chance(2, 3)))
				claims++
			case x < 7:
				ops = append(ops, join(r.Intn(claims)))
			case x < 14:
				f := "FNone"
				if faulty && r.Chance(1, 3) {
					f = kit.Pick(r, extra)
				}
				ops = append(ops, rec(r.Intn(claims), f))
			case x < 17:
				ops = append(ops, tick(kit.Pick(r, []int64{1, 60, 299, 300, 301, 599, 600, 899, 900, 960})))
			default:
				ops = append(ops, env(kit.Pick(r, []string{"EPool", "EClass", "ECrash", "EHealth", "EHealth"})))
			}
		}
		addAttempts(c, ops)
	}
	_ = faults
}
