// Package c20 drives the real nodepoolhealth.State and the two lifecycle paths that
// maintain NodeRegistrationHealthy, and writes what they did as Gallina cases.
package main

import (
	"context"
	"fmt"
	"os"
	"strings"

	"github.com/awslabs/operatorpkg/object"
	apierrors "k8s.io/apimachinery/pkg/api/errors"
	metav1 "k8s.io/apimachinery/pkg/apis/meta/v1"
	"k8s.io/apimachinery/pkg/runtime/schema"
	"k8s.io/apimachinery/pkg/types"
	clock "k8s.io/utils/clock/testing"
	"sigs.k8s.io/controller-runtime/pkg/client"
	"sigs.k8s.io/controller-runtime/pkg/client/interceptor"

	"time"

	v1 "sigs.k8s.io/karpenter/pkg/apis/v1"
	"sigs.k8s.io/karpenter/pkg/cloudprovider/fake"
	"sigs.k8s.io/karpenter/pkg/controllers/nodeclaim/lifecycle"
	"sigs.k8s.io/karpenter/pkg/controllers/nodepool/registrationhealth"
	"sigs.k8s.io/karpenter/pkg/state/nodepoolhealth"
	"sigs.k8s.io/karpenter/pkg/test"
	testv1alpha1 "sigs.k8s.io/karpenter/pkg/test/v1alpha1"

	"verifharness/kit"
)

// tracker-level ops: 0=Update(true) 1=Update(false) 2=Reset(via SetStatus Unknown is 3) ...
var topNames = []string{"TUpdate true", "TUpdate false", "TReset", "TSet Unknown", "TSet Healthy", "TSet Unhealthy"}
var topShort = []string{"T", "F", "R", "sU", "sH", "sX"}

func statusName(s nodepoolhealth.Status) string {
	switch s {
	case nodepoolhealth.StatusHealthy:
		return "Healthy"
	case nodepoolhealth.StatusUnhealthy:
		return "Unhealthy"
	}
	return "Unknown"
}

type tcase struct {
	Kind string   `json:"kind"`
	Ops  []string `json:"ops"`
	Obs  []string `json:"obs"`
}

func runTracker(c *kit.Ctx, ops []int) {
	st := nodepoolhealth.NewState()
	uid := types.UID("np")
	var gops, gobs, jops, jobs []string
	wrapped := 0
	for _, o := range ops {
		switch o {
		case 0:
			st.Update(uid, true)
		case 1:
			st.Update(uid, false)
		case 2:
			// Tracker.Reset is reachable through State only via SetStatus(Unknown); the tracker is exercised directly.
			st.SetStatus(uid, nodepoolhealth.StatusUnknown)
		case 3:
			st.SetStatus(uid, nodepoolhealth.StatusUnknown)
		case 4:
			st.SetStatus(uid, nodepoolhealth.StatusHealthy)
		case 5:
			st.SetStatus(uid, nodepoolhealth.StatusUnhealthy)
		}
		if o <= 1 {
			wrapped++
		} else {
			wrapped = 0
		}
		a, b, d := statusName(st.Status(uid)), statusName(st.DryRun(uid, true).Status()), statusName(st.DryRun(uid, false).Status())
		gops = append(gops, "("+topNames[o]+")")
		gobs = append(gobs, fmt.Sprintf("(%s, %s, %s)", a, b, d))
		jops = append(jops, topShort[o])
		jobs = append(jobs, a[:2]+"/"+b[:2]+"/"+d[:2])
	}
	key := ""
	if wrapped > nodepoolhealth.BufferSize {
		key = "T:" + strings.Join(jops, "")
		c.Count("tracker:wrapped")
	} else {
		c.Count("tracker:not-wrapped")
	}
	c.AddCase(fmt.Sprintf("CaseT %s %s", kit.GList(gops), kit.GList(gobs)), tcase{"tracker", jops, jobs}, key)
}

var sopNames = []string{"RecordSuccess", "RecordFailure", "PoolChanged", "Crash", "Reconcile", "ClassChanged", "RecordSuccessConflict", "RecordFailureConflict"}

type sysEnv struct {
	failPatch bool // reject the next NodePool status patch with a Conflict
	c     client.Client
	clk   *clock.FakeClock
	cp    *fake.CloudProvider
	state *nodepoolhealth.State
	np    *v1.NodePool
	nc    *v1.NodeClaim
}

func newSys() *sysEnv {
	ctx := kit.Context()
	e := &sysEnv{clk: clock.NewFakeClock(time.Unix(1_700_000_000, 0)), cp: fake.NewCloudProvider(), state: nodepoolhealth.NewState()}
	e.c = kit.NewClient(interceptor.Funcs{SubResourcePatch: func(ctx context.Context, cl client.Client, sub string, obj client.Object, patch client.Patch, opts ...client.SubResourcePatchOption) error {
		if _, ok := obj.(*v1.NodePool); ok && e.failPatch {
			e.failPatch = false
			return apierrors.NewConflict(schema.GroupResource{Group: "karpenter.sh", Resource: "nodepools"}, obj.GetName(), fmt.Errorf("injected conflict"))
		}
		return cl.SubResource(sub).Patch(ctx, obj, patch, opts...)
	}})
	nodeClass := test.NodeClass()
	nodeClass.Name = "nodeclass"
	nodeClass.Generation = 1
	e.np = test.NodePool()
	e.np.Name = "pool"
	e.np.UID = "pool-uid"
	e.np.Generation = 1
	e.np.Spec.Template.Spec.NodeClassRef = &v1.NodeClassReference{Group: object.GVK(nodeClass).Group, Kind: object.GVK(nodeClass).Kind, Name: nodeClass.Name}
	kit.Apply(ctx, e.c, nodeClass, e.np)
	e.nc = test.NodeClaim(v1.NodeClaim{ObjectMeta: metav1.ObjectMeta{
		Name:   "claim",
		Labels: map[string]string{v1.NodePoolLabelKey: e.np.Name},
		OwnerReferences: []metav1.OwnerReference{{APIVersion: object.GVK(e.np).GroupVersion().String(), Kind: object.GVK(e.np).Kind,
			Name: e.np.Name, UID: e.np.UID}},
	}})
	e.reconcile()
	return e
}

func (e *sysEnv) pool() *v1.NodePool {
	np := &v1.NodePool{}
	if err := e.c.Get(kit.Context(), client.ObjectKey{Name: "pool"}, np); err != nil {
		panic(err)
	}
	return np
}

func (e *sysEnv) reconcile() {
	if _, err := registrationhealth.NewController(e.clk, e.c, e.cp, e.state).Reconcile(kit.Context(), e.pool()); err != nil {
		panic(err)
	}
}

func (e *sysEnv) cond() string {
	cnd := e.pool().StatusConditions().Get(v1.ConditionTypeNodeRegistrationHealthy)
	switch {
	case cnd == nil, cnd.IsUnknown():
		return "CUnknown"
	case cnd.IsTrue():
		return "CTrue"
	}
	return "CFalse"
}

func runSys(c *kit.Ctx, ops []int) {
	ctx := kit.Context()
	e := newSys()
	var gobs []string
	records := 0
	for _, o := range ops {
		e.clk.Step(time.Second)
		switch o {
		case 0:
			if err := lifecycle.VerifRecordRegistrationSuccess(ctx, e.c, e.clk, e.state, e.nc); err != nil {
				panic(err)
			}
			records++
		case 1:
			if err := lifecycle.VerifRecordRegistrationFailure(ctx, e.c, e.clk, e.state, e.nc); err != nil {
				panic(err)
			}
			records++
		case 2:
			np := e.pool()
			np.Generation++
			if err := e.c.Update(ctx, np); err != nil {
				panic(err)
			}
			e.reconcile()
		case 3:
			e.state = nodepoolhealth.NewState()
		case 4:
			e.reconcile()
		case 6, 7:
			// the status patch, if one is issued, is rejected once: the path must return the error without recording
			e.failPatch = true
			var err error
			if o == 6 {
				err = lifecycle.VerifRecordRegistrationSuccess(ctx, e.c, e.clk, e.state, e.nc)
			} else {
				err = lifecycle.VerifRecordRegistrationFailure(ctx, e.c, e.clk, e.state, e.nc)
			}
			if e.failPatch { // no patch was issued: the outcome was recorded normally
				e.failPatch = false
				if err != nil {
					panic(err)
				}
				records++
				c.Count("system:conflict-op:no-patch-issued")
			} else {
				if err == nil {
					panic("injected conflict was swallowed")
				}
				c.Count("system:conflict-op:patch-rejected")
			}
		case 5:
			nodeClass := &testv1alpha1.TestNodeClass{}
			if err := e.c.Get(ctx, client.ObjectKey{Name: "nodeclass"}, nodeClass); err != nil {
				panic(err)
			}
			nodeClass.Generation++
			if err := e.c.Update(ctx, nodeClass); err != nil {
				panic(err)
			}
			e.reconcile()
		}
		gobs = append(gobs, e.cond())
	}
	names := make([]string, len(ops))
	for i, o := range ops {
		names[i] = sopNames[o]
	}
	key := ""
	if records >= 3 {
		key = "S:" + strings.Join(names, ",")
		c.Count("system:>=3-records")
	} else {
		c.Count("system:<3-records")
	}
	c.AddCase(fmt.Sprintf("CaseS %s %s", kit.GList(names), kit.GList(gobs)), tcase{"system", names, gobs}, key)
}

func enumerate(alphabet, length int, f func([]int)) {
	seq := make([]int, length)
	var rec func(int)
	rec = func(i int) {
		if i == length {
			f(append([]int(nil), seq...))
			return
		}
		for a := 0; a < alphabet; a++ {
			seq[i] = a
			rec(i + 1)
		}
	}
	rec(0)
}

func main() {
	args := os.Args[1:]
	c := kit.Parse("C20", args)
	tfLen, mixLen, sysLen, nRand := 9, 4, 4, 300
	if c.Thorough() {
		tfLen, mixLen, sysLen, nRand = 12, 5, 5, 3000
	}
	// corpus first: the history of F1
	runTracker(c, []int{0, 0, 0, 0, 1, 1, 0})
	runSys(c, []int{0, 0, 0, 0, 1, 1, 0, 1})
	runSys(c, []int{1, 0, 0, 7, 1, 0}) // seeded C20-3: failure whose False patch is rejected once, then retried
	runSys(c, []int{1, 5, 1, 1}) // seeded C20-1: NodeClass change while the condition is already Unknown
	attemptCases(c)
	enumerate(2, tfLen, func(s []int) { runTracker(c, s) })
	enumerate(6, mixLen, func(s []int) { runTracker(c, s) })
	enumerate(6, sysLen, func(s []int) { runSys(c, s) })
	enumerate(8, sysLen-1, func(s []int) { runSys(c, s) })
	for i := 0; i < nRand; i++ {
		r := c.Rand.Fork()
		n := r.Range(6, 16)
		s := make([]int, n)
		for j := range s {
			if r.Chance(3, 4) {
				s[j] = r.Intn(2)
			} else {
				s[j] = r.Intn(6)
			}
		}
		runTracker(c, s)
		t := make([]int, n)
		for j := range t {
			if r.Chance(3, 4) {
				t[j] = r.Intn(2)
			} else {
				t[j] = r.Intn(8)
			}
		}
		runSys(c, t)
	}
	c.Meta.Rule = fmt.Sprintf("exhaustive: all {T,F} sequences of length %d, all sequences of length %d over 6 tracker ops, all sequences of length %d over the 6 fault-free system ops and of length one less over all 8 (incl. a rejected status patch on either record path); plus %d random longer ones; attempt level: a corpus plus random histories of 8-22 ops (new claim / node joins / lifecycle reconcile with one of three API faults / clock / pool, class, restart, re-hydration). non-trivial = the ring buffer wrapped (more than 4 consecutive updates) / at least 3 outcomes recorded; distinct by op sequence", tfLen, mixLen, sysLen, nRand)
	c.Meta.Exhaustive = true
	c.Meta.Corr = []string{"nodepoolhealth.State.{Update,SetStatus,Status,DryRun} = C20.Model.{tstep,tstatus,dry_run}",
		"lifecycle.{Registration,Liveness}.updateNodePoolRegistrationHealth + registrationhealth.Reconcile = C20.Model.step",
		"lifecycle.Controller.Reconcile (Launch, Registration, Liveness, status write-back) on NodeClaims of the pool, with API faults = C20.Attempts.astep fixed"}
	c.Finish("From KV Require Import C20.Model C20.Attempts C20.Check.", "case", "check_all", 1500)
}
