package main

import (
	corev1 "k8s.io/api/core/v1"
	metav1 "k8s.io/apimachinery/pkg/apis/meta/v1"

	v1 "sigs.k8s.io/karpenter/pkg/apis/v1"
	"sigs.k8s.io/karpenter/pkg/cloudprovider"
	"sigs.k8s.io/karpenter/pkg/scheduling"
	"sigs.k8s.io/karpenter/pkg/test"

	"verifharness/kit"
	sk "verifharness/schedkit"
)

// Fixed worlds that reproduce the known findings on the real code on every run (regression corpus).

func plainPod(name string, cpu int64) *corev1.Pod {
	w := &sk.World{}
	p := sk.GenPod(kit.NewRand(7), name, w, sk.GenOpts{NoTopology: true})
	p.Spec = corev1.PodSpec{Containers: []corev1.Container{{Name: "c", Image: "pause", Resources: corev1.ResourceRequirements{Requests: sk.RLOf(cpu, 64, -1)}}}}
	return p
}

func required(p *corev1.Pod, terms ...[]corev1.NodeSelectorRequirement) {
	sel := &corev1.NodeSelector{}
	for _, t := range terms {
		sel.NodeSelectorTerms = append(sel.NodeSelectorTerms, corev1.NodeSelectorTerm{MatchExpressions: t})
	}
	if p.Spec.Affinity == nil {
		p.Spec.Affinity = &corev1.Affinity{}
	}
	if p.Spec.Affinity.NodeAffinity == nil {
		p.Spec.Affinity.NodeAffinity = &corev1.NodeAffinity{}
	}
	p.Spec.Affinity.NodeAffinity.RequiredDuringSchedulingIgnoredDuringExecution = sel
}

func expr(k string, op corev1.NodeSelectorOperator, vals ...string) corev1.NodeSelectorRequirement {
	return corev1.NodeSelectorRequirement{Key: k, Operator: op, Values: vals}
}

func witnesses(c *kit.Ctx) {
	r := kit.NewRand(4242)
	catalog := sk.GenCatalog(r, 4)
	pool := test.NodePool(v1.NodePool{ObjectMeta: metav1.ObjectMeta{Name: "pool-w", UID: "uid-pool-w"}})
	// F11: required `team In [a]` together with the preference `team In [c]` on a pool that does not define the key
	p1 := plainPod("w1", 500)
	required(p1, []corev1.NodeSelectorRequirement{expr(sk.TeamKey, corev1.NodeSelectorOpIn, "a")})
	p1.Spec.Affinity.NodeAffinity.PreferredDuringSchedulingIgnoredDuringExecution = []corev1.PreferredSchedulingTerm{{Weight: 1,
		Preference: corev1.NodeSelectorTerm{MatchExpressions: []corev1.NodeSelectorRequirement{expr(sk.TeamKey, corev1.NodeSelectorOpIn, "c")}}}}
	judgeWorld(c, &sk.World{Catalog: catalog, Pools: []*v1.NodePool{pool}, Pods: []*corev1.Pod{p1}}, sk.RunCfg{Workers: 1}, -1, false)
	// F11 without any preference: nodeSelector team=b, required (team In [a]) OR (team DoesNotExist)
	p2 := plainPod("w2", 500)
	p2.Spec.NodeSelector = map[string]string{sk.TeamKey: "b"}
	required(p2, []corev1.NodeSelectorRequirement{expr(sk.TeamKey, corev1.NodeSelectorOpIn, "a")}, []corev1.NodeSelectorRequirement{expr(sk.TeamKey, corev1.NodeSelectorOpDoesNotExist)})
	judgeWorld(c, &sk.World{Catalog: catalog, Pools: []*v1.NodePool{pool}, Pods: []*corev1.Pod{p2}}, sk.RunCfg{Workers: 1, IgnorePreferences: true}, -1, false)

	// an in-flight node without the team label, for F12 and F13
	var nodes []*sk.NodeSpec
	for seed := uint64(1); len(nodes) == 0; seed++ {
		ns := sk.GenNodes(kit.NewRand(seed), 1, &sk.World{Catalog: catalog, Pools: []*v1.NodePool{pool}})
		if len(ns) == 1 && ns[0].Kind == "inflight" && ns[0].NodeClaim.Labels[sk.TeamKey] == "" && len(ns[0].NodeClaim.Spec.Taints) == 0 {
			nodes = ns
		}
	}
	// F12: the larger pod excludes team=a, the smaller one then demands team=b; the node carries no team label
	p3 := plainPod("w3", 300)
	required(p3, []corev1.NodeSelectorRequirement{expr(sk.TeamKey, corev1.NodeSelectorOpNotIn, "a")})
	p4 := plainPod("w4", 200)
	required(p4, []corev1.NodeSelectorRequirement{expr(sk.TeamKey, corev1.NodeSelectorOpIn, "b")})
	judgeWorld(c, &sk.World{Catalog: catalog, Pools: []*v1.NodePool{pool}, Nodes: nodes, Pods: []*corev1.Pod{p3, p4}}, sk.RunCfg{Workers: 1}, -1, false)
	// F13: a daemonset with host port 8080 has no pod on the in-flight node yet; a pending pod with the same port lands there
	p5 := plainPod("w5", 200)
	p5.Spec.Containers[0].Ports = []corev1.ContainerPort{{HostPort: 8080, Protocol: corev1.ProtocolTCP}}
	dss := sk.GenDaemonSets(kit.NewRand(1), 1, &sk.World{Catalog: catalog})
	dss[0].Spec.Template.Spec = corev1.PodSpec{Tolerations: []corev1.Toleration{{Operator: corev1.TolerationOpExists}}, Containers: []corev1.Container{{Name: "d", Image: "pause",
		Ports: []corev1.ContainerPort{{HostPort: 8080, Protocol: corev1.ProtocolTCP}}, Resources: corev1.ResourceRequirements{Requests: sk.RLOf(100, 32, -1)}}}}
	judgeWorld(c, &sk.World{Catalog: catalog, Pools: []*v1.NodePool{pool}, Nodes: nodes, DaemonSets: dss, Pods: []*corev1.Pod{p5}}, sk.RunCfg{Workers: 1}, -1, false)

	// F14: daemonset with two OR-ed terms, (instance-type In [last]) OR (instance-type In [first]). Probing the first type
	// drops the first term from the shared daemon pod, so the last type is judged daemon-free although the daemon runs there.
	var cat2 []*cloudprovider.InstanceType
	for seed := uint64(1); cat2 == nil; seed++ {
		c2 := sk.GenCatalog(kit.NewRand(seed), 3)
		ok := true
		for _, it := range c2 {
			ok = ok && len(it.Offerings.Available()) > 0 && len(it.Offerings.Available()) == len(it.Offerings)
			for _, o := range it.Offerings {
				ok = ok && o.CapacityOverride == nil && o.OverheadOverride == nil
			}
		}
		if ok && allocCPU(c2[0]) < allocCPU(c2[2]) {
			cat2 = c2
		}
	}
	first, last := cat2[0], cat2[2]
	ds14 := sk.GenDaemonSets(kit.NewRand(1), 1, &sk.World{Catalog: cat2})
	ds14[0].Spec.Template.Spec = corev1.PodSpec{Tolerations: []corev1.Toleration{{Operator: corev1.TolerationOpExists}}, Containers: []corev1.Container{{Name: "d", Image: "pause",
		Resources: corev1.ResourceRequirements{Requests: sk.RLOf(1000, 32, -1)}}},
		Affinity: &corev1.Affinity{NodeAffinity: &corev1.NodeAffinity{RequiredDuringSchedulingIgnoredDuringExecution: &corev1.NodeSelector{NodeSelectorTerms: []corev1.NodeSelectorTerm{
			{MatchExpressions: []corev1.NodeSelectorRequirement{expr(corev1.LabelInstanceTypeStable, corev1.NodeSelectorOpIn, last.Name)}},
			{MatchExpressions: []corev1.NodeSelectorRequirement{expr(corev1.LabelInstanceTypeStable, corev1.NodeSelectorOpIn, first.Name)}}}}}}}
	p6 := plainPod("w6", allocCPU(last))
	judgeWorld(c, &sk.World{Catalog: cat2, Pools: []*v1.NodePool{pool}, DaemonSets: ds14, Pods: []*corev1.Pod{p6}}, sk.RunCfg{Workers: 1}, -1, false)
	// F15: the pod introduces the custom key `ghost` on the claim (NotIn is allowed on an undefined key); the node will be
	// labelled ghost=<number>, so the daemonset selecting `ghost Exists` runs there, but its overhead was judged against the pool
	ds15 := sk.GenDaemonSets(kit.NewRand(1), 1, &sk.World{Catalog: cat2})
	ds15[0].Spec.Template.Spec = corev1.PodSpec{Tolerations: []corev1.Toleration{{Operator: corev1.TolerationOpExists}}, Containers: []corev1.Container{{Name: "d", Image: "pause",
		Resources: corev1.ResourceRequirements{Requests: sk.RLOf(1000, 32, -1)}}},
		Affinity: &corev1.Affinity{NodeAffinity: &corev1.NodeAffinity{RequiredDuringSchedulingIgnoredDuringExecution: &corev1.NodeSelector{NodeSelectorTerms: []corev1.NodeSelectorTerm{
			{MatchExpressions: []corev1.NodeSelectorRequirement{expr(sk.GhostKey, corev1.NodeSelectorOpExists)}}}}}}}
	p7 := plainPod("w7", allocCPU(last))
	required(p7, []corev1.NodeSelectorRequirement{expr(sk.GhostKey, corev1.NodeSelectorOpNotIn, "x")})
	judgeWorld(c, &sk.World{Catalog: cat2, Pools: []*v1.NodePool{pool}, DaemonSets: ds15, Pods: []*corev1.Pod{p7}}, sk.RunCfg{Workers: 1}, -1, false)

	// coverage: reserved capacity of 1 and two pods that each need a whole node: the second claim finds a compatible
	// reserved offering it cannot reserve (strict mode => ReservedOfferingError, no relaxation, pod deferred)
	rit := reservedType()
	pa, pb := plainPod("w8", allocCPU(rit)), plainPod("w9", allocCPU(rit))
	judgeWorld(c, &sk.World{Catalog: []*cloudprovider.InstanceType{rit}, Pools: []*v1.NodePool{pool}, Pods: []*corev1.Pod{pa, pb}}, sk.RunCfg{Workers: 1}, -1, false)
	// coverage: the launch request is truncated to MaxInstanceTypes; under the strict policy a claim whose minValues no longer
	// hold after truncation is dropped and its pods reported
	two := 2
	mvPool := test.NodePool(v1.NodePool{ObjectMeta: metav1.ObjectMeta{Name: "pool-mv", UID: "uid-pool-mv"}, Spec: v1.NodePoolSpec{Template: v1.NodeClaimTemplate{Spec: v1.NodeClaimTemplateSpec{
		Requirements: []v1.NodeSelectorRequirementWithMinValues{{Key: corev1.LabelInstanceTypeStable, Operator: corev1.NodeSelectorOpExists, MinValues: &two}}}}}})
	judgeWorld(c, &sk.World{Catalog: cat2, Pools: []*v1.NodePool{mvPool}, Pods: []*corev1.Pod{plainPod("w11", 200)}}, sk.RunCfg{Workers: 1, MaxInstanceTypes: 1}, -1, false)
	// coverage: in-tree EBS volumes count against the ebs.csi.aws.com attach limit of the node: limit 1, one EBS volume
	// already attached by a bound pod, the pending pod brings another one
	ebsWorld(c, catalog, pool)
	// ... and with the ReservedCapacity feature gate off nothing is reserved
	judgeWorld(c, &sk.World{Catalog: []*cloudprovider.InstanceType{reservedType()}, Pools: []*v1.NodePool{pool}, Pods: []*corev1.Pod{plainPod("w10", 500)}}, sk.RunCfg{Workers: 1, NoReservedCapacity: true}, -1, false)
}

func allocCPU(it *cloudprovider.InstanceType) int64 {
	a := it.Allocatable()
	return a.Cpu().MilliValue()
}

// reservedType: one instance type with a single reserved offering of capacity 1 (no other offering), as the provider
// contract describes it.
func reservedType() *cloudprovider.InstanceType {
	for seed := uint64(1); ; seed++ {
		for _, it := range sk.GenCatalogOpts(kit.NewRand(seed), 4, true) {
			var keep cloudprovider.Offerings
			for _, o := range it.Offerings {
				if o.CapacityType() == v1.CapacityTypeReserved && len(keep) == 0 {
					o.ReservationCapacity = 1
					keep = append(keep, o)
				}
			}
			if len(keep) == 1 {
				it.Offerings = keep
				it.Requirements.Add(scheduling.NewRequirement(cloudprovider.ReservationIDLabel, corev1.NodeSelectorOpIn, keep[0].ReservationID()))
				return it
			}
		}
	}
}

func ebsWorld(c *kit.Ctx, catalog []*cloudprovider.InstanceType, pool *v1.NodePool) {
	for seed := uint64(1); seed < 2000; seed++ {
		r := kit.NewRand(seed)
		w := &sk.World{Catalog: catalog, Pools: []*v1.NodePool{pool}}
		w.Nodes = sk.GenNodes(r, 1, w)
		if len(w.Nodes) != 1 || w.Nodes[0].Kind != "ready" || len(w.Nodes[0].Bound) == 0 || len(w.Nodes[0].Node.Spec.Taints) != 0 {
			continue
		}
		sk.GenVolumesOpts(r, w, 8, true)
		var ebs []string
		for _, name := range w.VolOrder {
			if vs := w.Vols[name]; vs.PV != nil && vs.Driver == sk.DriverEBS && vs.Terms[0][0].Vals[0] == w.Nodes[0].Node.Labels[corev1.LabelTopologyZone] {
				ebs = append(ebs, name)
			}
		}
		if len(ebs) < 2 {
			continue
		}
		w.CSILimits = map[string]map[string]int32{w.Nodes[0].Node.Name: {sk.DriverEBS: 1}}
		vol := func(name string) corev1.Volume {
			return corev1.Volume{Name: "data", VolumeSource: corev1.VolumeSource{PersistentVolumeClaim: &corev1.PersistentVolumeClaimVolumeSource{ClaimName: name}}}
		}
		w.Nodes[0].Bound[0].Spec.Volumes = []corev1.Volume{vol(ebs[0])}
		p := plainPod("w12", 100)
		p.Spec.Volumes = []corev1.Volume{vol(ebs[1])}
		w.Pods = []*corev1.Pod{p}
		c.Count("B.extra.witness-ebs-attach-limit")
		judgeWorld(c, w, sk.RunCfg{Workers: 1}, -1, false)
		return
	}
}
