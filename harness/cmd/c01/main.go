// Command c01 — harness of property C01 (simulated placements are feasible on every launch option).
//
// Part A (unit level, exact differential against coq/C01/Model.v): Taints.ToleratesPod, HostPortUsage.Conflicts,
// resources.Fits, NewPodRequirements / NewStrictPodRequirements, Preferences.Relax, NewExistingNode,
// filterInstanceTypesByRequirements, NodeClaim.CanAdd/Add and ExistingNode.CanAdd/Add step sequences (empty Topology).
// Part B (system level): the real Scheduler.Solve (through Provisioner.NewScheduler) on generated clusters under both
// preference policies, both minValues policies and 1 / 4 / 16 workers; every placement is judged by the Kubernetes
// admissibility oracle of coq/C01/Model.v (claim_admissible_b / existing_admissible_b).
package main

import (
	"encoding/json"
	"fmt"
	"os"
	"reflect"
	"strings"
	"time"

	"k8s.io/apimachinery/pkg/api/resource"

	v1 "sigs.k8s.io/karpenter/pkg/apis/v1"

	"verifharness/kit"
	sk "verifharness/schedkit"
)

func resourceMilli(v int64) *resource.Quantity {
	return resource.NewMilliQuantity(v, resource.DecimalSI)
}

func runWorld(c *kit.Ctx, r *kit.Rand, idx int) {
	// every third world carries no pod (anti-)affinity / topology spread: Solve is then deterministic up to map order
	// and is used for the comparison across degrees of parallelism
	noTopo := idx%3 == 0
	w := sk.Gen(r, sk.GenOpts{Thorough: c.Thorough(), NoTopology: noTopo, Volumes: idx%2 == 0, Normalised: idx%3 == 1, Reserved: idx%5 == 0, Extra: true})
	sk.BindDaemonPods(r, w)
	cfg := sk.RunCfg{Workers: 1, IgnorePreferences: idx%2 == 1, BestEffortMinValues: (idx/2)%2 == 1, NoReservedCapacity: idx%10 == 0}
	if idx%6 == 2 {
		cfg.MaxInstanceTypes = r.Range(1, 3) // the launch-request truncation (600 in production) on a small scale
	}
	countWorld(c, w, cfg)
	judgeWorld(c, w, cfg, idx, noTopo)
}

// judgeWorld runs the real scheduler on the world and emits one oracle case per node that received pods.
func judgeWorld(c *kit.Ctx, w *sk.World, cfg sk.RunCfg, idx int, noTopo bool) {
	out, err := sk.Run(w, cfg)
	if err != nil {
		c.Fail(c.NextID(), "harness could not run the scheduler: "+err.Error(), "", nil)
		return
	}
	d := out.Dump
	c.Count(fmt.Sprintf("B.cfg.ignorePrefs=%v.bestEffort=%v", cfg.IgnorePreferences, cfg.BestEffortMinValues))
	c.Count(fmt.Sprintf("B.newclaims=%d", min(len(d.Claims), 4)))
	c.Count(fmt.Sprintf("B.poderrors=%d", min(len(d.Errors), 3)))
	for _, e := range d.Errors {
		switch {
		case strings.Contains(e, "reserved"):
			c.Count("B.poderror.reserved-offering")
		case strings.Contains(e, "limits"):
			c.Count("B.poderror.nodepool-limits")
		case strings.Contains(e, "minValues"):
			c.Count("B.poderror.minValues")
		case strings.Contains(e, "topology") || strings.Contains(e, "anti-affinity") || strings.Contains(e, "unsatisfiable"):
			c.Count("B.poderror.topology")
		}
	}
	if cfg.MaxInstanceTypes > 0 {
		for _, cd := range d.Claims {
			if len(cd.Options) == cfg.MaxInstanceTypes {
				c.Count("B.extra.claim-truncated-to-MaxInstanceTypes")
			}
		}
	}
	for _, cd := range d.Claims {
		c.Count(fmt.Sprintf("B.claim.pods=%d", min(len(cd.Pods), 4)))
		c.Count(fmt.Sprintf("B.claim.options=%d", min(len(cd.Options), 6)))
		emitClaim(c, d, cd, cfg)
	}
	for _, ed := range d.Existing {
		if len(ed.Placed) == 0 {
			continue
		}
		c.Count("B.existing." + ed.Kind + ".placed")
		emitExisting(c, ed, cfg)
	}
	// every degree of candidate-evaluation parallelism must give the same projected result
	base := d.Assignment()
	if !noTopo {
		return
	}
	for _, workers := range []int{4, 16} {
		cfg2 := cfg
		cfg2.Workers = workers
		out2, err := sk.Run(w, cfg2)
		if err != nil {
			c.Fail(c.NextID(), "harness could not run the scheduler: "+err.Error(), "", nil)
			return
		}
		if a2 := out2.Dump.Assignment(); !reflect.DeepEqual(base, a2) {
			// rule out run-to-run non-determinism (map order, random domain choice) before blaming parallelism
			stable := true
			for k := 0; k < 3 && stable; k++ {
				again, _ := sk.Run(w, cfg)
				stable = again != nil && reflect.DeepEqual(base, again.Dump.Assignment())
			}
			if stable {
				c.Fail(c.NextID(), fmt.Sprintf("Solve with %d workers differs from 1 worker", workers), "", map[string]interface{}{"kind": "Solve/parallelism", "workers": workers, "one": base, "many": a2, "world_index": idx})
			} else {
				c.Count("B.nondeterministic-world")
			}
		} else {
			c.Count(fmt.Sprintf("B.workers=%d-agrees-with-1", workers))
		}
	}
}

func main() {
	c := kit.Parse("C01", os.Args[1:])
	c.Meta.Rule = "structured random: mostly-valid pods stressed in one or two dimensions over generated catalogues / NodePools / nodes / daemonsets; unit streams per function"
	c.Meta.Exhaustive = false
	c.Meta.Corr = []string{"Taints.ToleratesPod", "HostPortUsage.Conflicts", "resources.Fits", "NewPodRequirements/NewStrictPodRequirements",
		"Preferences.Relax", "VolumeUsage.ExceedsLimits", "VolumeTopology.GetRequirements", "NewExistingNode.remainingResources", "filterInstanceTypesByRequirements", "NodeClaim.CanAdd/Add", "ExistingNode.CanAdd/Add",
		"Scheduler.Solve placements vs admissibility oracle (1/4/16 workers agree)"}
	nUnit, nNC, nEX, nWorlds := 150, 100, 60, 100
	if c.Thorough() {
		nUnit, nNC, nEX, nWorlds = 600, 600, 300, 400
	}
	t0 := time.Now()
	r := c.Rand
	checkNormTable(c)
	if dw := os.Getenv("C01_WORLD"); dw != "" { // development aid: replay one world of part B under several worker counts
		var target int
		fmt.Sscan(dw, &target)
		forks := nUnit*6 + (nUnit+1)/2 + (nUnit+24)/25 + 1 + nNC + nEX
		for i := 0; i < forks+target; i++ {
			r.Fork()
		}
		debugWorld(r.Fork())
		return
	}
	w0 := sk.Gen(r.Fork(), sk.GenOpts{})
	for i := 0; i < nUnit; i++ {
		caseTol(c, r.Fork())
		casePorts(c, r.Fork())
		caseFits(c, r.Fork())
		if i%25 == 0 {
			w0 = sk.Gen(r.Fork(), sk.GenOpts{})
		}
		casePodReqs(c, r.Fork(), w0)
		caseRelax(c, r.Fork(), w0)
		caseVolLimits(c, r.Fork())
		if i%2 == 0 {
			caseVolAlts(c, r.Fork())
		}
	}
	tA := time.Since(t0)
	for i := 0; i < nNC; i++ {
		caseNC(c, r.Fork())
	}
	for i := 0; i < nEX; i++ {
		caseEX(c, r.Fork())
	}
	tS := time.Since(t0)
	witnesses(c)
	for i := 0; i < nWorlds; i++ {
		runWorld(c, r.Fork(), i)
		if i%4 == 0 { // existing nodes that every daemonset fits, daemon pods running on some of them, tight pending pods
			wr := r.Fork()
			w := sk.GenDaemonTight(wr)
			c.Count(fmt.Sprintf("B.daemon-tight.nodes=%d.pods=%d", len(w.Nodes), min(len(w.Pods), 4)))
			judgeWorld(c, w, sk.RunCfg{Workers: 1, IgnorePreferences: wr.Bool()}, -1, false)
		}
	}
	c.Meta.Extra = map[string]interface{}{
		"seconds": map[string]float64{"unit": tA.Seconds(), "steps": (tS - tA).Seconds(), "solve": (time.Since(t0) - tS).Seconds()},
		"assumptions": []string{
			"DRA is not generated (C17); hostname affinity of Local / HostPath volumes is ignored by the oracle as it is by design in Karpenter",
			"goroutine interleavings inside parallelizeUntil are exercised (1/4/16 workers) but not modelled",
			"expected daemons of the oracle: every daemonset that may run for some labelling the node can get (per-key over-approximation)",
		}}
	c.Finish("From KV Require Import C01.Model C01.Check.\n"+internHeader(), "case", "check_all", 100)
}

func debugWorld(r *kit.Rand) {
	w := sk.Gen(r, sk.GenOpts{})
	sk.BindDaemonPods(r, w)
	for _, cfgw := range []int{1, 1, 4, 4, 16, 16, 1} {
		for _, ip := range []bool{false} {
			out, err := sk.Run(w, sk.RunCfg{Workers: cfgw, IgnorePreferences: ip})
			if err != nil {
				fmt.Println("ERR", err)
				continue
			}
			a, _ := json.Marshal(out.Dump.Assignment())
			fmt.Println(cfgw, ip, string(a))
			e, _ := json.Marshal(out.Dump.Errors)
			fmt.Println("   errors", string(e))
			for _, cd := range out.Dump.Claims {
				rq, _ := json.Marshal(cd.Reqs)
				fmt.Println("   claim", string(rq))
			}
		}
	}
	raw, _ := json.MarshalIndent(map[string]interface{}{"pods": dumpPods(w), "pools": w.Pools}, "", " ")
	os.WriteFile("/verif/.work/c01-scratch/world.json", raw, 0o644)
}

func dumpPods(w *sk.World) []sk.PodDump {
	var out []sk.PodDump
	for _, p := range w.Pods {
		out = append(out, sk.DumpPod(p))
	}
	return out
}

// checkNormTable ties coq/C01/Model.v's norm_table to v1.NormalizedLabels / v1.NormalizedLabelValues.
func checkNormTable(c *kit.Ctx) {
	model := map[string]string{
		"failure-domain.beta.kubernetes.io/zone":   "topology.kubernetes.io/zone",
		"beta.kubernetes.io/arch":                  "kubernetes.io/arch",
		"beta.kubernetes.io/os":                    "kubernetes.io/os",
		"beta.kubernetes.io/instance-type":         "node.kubernetes.io/instance-type",
		"failure-domain.beta.kubernetes.io/region": "topology.kubernetes.io/region",
	}
	if !reflect.DeepEqual(model, v1.NormalizedLabels) || len(v1.NormalizedLabelValues) != 0 {
		c.Fail(c.NextID(), fmt.Sprintf("v1.NormalizedLabels / NormalizedLabelValues differ from the model's norm_table: %v %v", v1.NormalizedLabels, v1.NormalizedLabelValues), "", nil)
	}
}

// countWorld: distribution of the input dimensions added by the coverage audit.
func countWorld(c *kit.Ctx, w *sk.World, cfg sk.RunCfg) {
	for _, np := range w.Pools {
		if len(np.Spec.Limits) > 0 {
			c.Count("B.extra.pool-with-limits")
		}
		if np.Spec.Replicas != nil || !np.StatusConditions().Root().IsTrue() {
			c.Count("B.extra.pool-static-or-not-ready")
		}
		if len(np.Spec.Template.Spec.StartupTaints) > 0 {
			c.Count("B.extra.pool-startup-taints")
		}
	}
	for _, n := range w.Nodes {
		if n.Kind == "registering" {
			c.Count("B.extra.node-registered-uninitialized")
		}
	}
	for _, it := range w.Catalog {
		for k := range it.Capacity {
			if strings.HasPrefix(string(k), "hugepages-") {
				c.Count("B.extra.instance-type-with-hugepages")
			}
		}
	}
	for _, p := range w.Pods {
		if p.Spec.Overhead != nil {
			c.Count("B.extra.pod-overhead")
		}
		if !p.CreationTimestamp.IsZero() {
			c.Count("B.extra.pod-creation-timestamp")
		}
		for _, t := range p.Spec.TopologySpreadConstraints {
			if t.WhenUnsatisfiable == "DoNotSchedule" {
				c.Count("B.extra.pod-hard-spread")
			}
		}
		if a := p.Spec.Affinity; a != nil && a.PodAntiAffinity != nil && len(a.PodAntiAffinity.RequiredDuringSchedulingIgnoredDuringExecution) > 0 {
			c.Count("B.extra.pod-required-anti-affinity")
		}
		for _, v := range p.Spec.Volumes {
			switch {
			case v.EmptyDir != nil:
				c.Count("B.extra.volume-emptydir")
			case v.Ephemeral != nil:
				c.Count("B.extra.volume-ephemeral")
			}
		}
	}
	for _, name := range w.VolOrder {
		switch vs := w.Vols[name]; {
		case vs.Driver == sk.DriverEBS:
			c.Count("B.extra.volume-in-tree-driver")
		case vs.PV != nil && vs.PV.Spec.NodeAffinity == nil:
			c.Count("B.extra.pv-without-node-affinity")
		}
	}
	if cfg.NoReservedCapacity {
		c.Count("B.extra.feature-gate-ReservedCapacity-off")
	}
	if cfg.MaxInstanceTypes > 0 {
		c.Count("B.extra.MaxInstanceTypes-small")
	}
}
