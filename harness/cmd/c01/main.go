// Command c01 — harness of property C01 (simulated placements are feasible on every launch option).
//
// Part A (unit level, exact differential against coq/C01/Model.v): Taints.ToleratesPod, HostPortUsage.Conflicts,
// resources.Fits, NewPodRequirements / NewStrictPodRequirements, Preferences.Relax, NewExistingNode,
// filterInstanceTypesByRequirements, NodeClaim.CanAdd/Add and ExistingNode.CanAdd/Add step sequences (empty Topology).
// Part B (system level): the real Scheduler.Solve (through Provisioner.NewScheduler) on generated clusters under both
// preference policies, both minValues policies and 1 / 4 / 16 workers; every placement is judged by the Kubernetes
// admissibility oracle of coq/C01/Model.v (claim_admissible_b / existing_admissible_b).
package main

import (
	"encoding/json"
	"fmt"
	"os"
	"reflect"
	"strings"
	"time"

	"k8s.io/apimachinery/pkg/api/resource"

	"verifharness/kit"
	sk "verifharness/schedkit"
)

func resourceMilli(v int64) *resource.Quantity {
	return resource.NewMilliQuantity(v, resource.DecimalSI)
}

// ---- known-finding shapes (known-findings.txt): one defect is reported once, anything else still fails ----
const (
	// F11: the conjunction of a pod's own constraints on one key is empty; the algebra stores the empty set as
	// DoesNotExist, which "is satisfied when undefined", so the pod is accepted on a node / pool that does not define the key
	kfCollapse = "contradictory-constraints-collapse-to-doesnotexist"
	// F12: ExistingNode keeps pod requirements for label keys the node does not carry; after a pod with `k NotIn [..]`
	// a later pod demanding `k In [..]` / `k Exists` is accepted although the node has no label k
	kfUndefinedLabel = "existing-node-undefined-label-after-notin"
	// F13: ExistingNode.CanAdd checks host ports against bound pods only, not against daemonset pods still to arrive
	kfDaemonPort = "existing-node-daemon-hostport-not-reserved"
	// F14: isDaemonPodCompatible drops required OR-terms from the SHARED daemon pod while probing one instance type; later
	// instance types and the existing nodes are judged against the truncated affinity and the daemon's overhead is missed
	kfDaemonTerms = "daemon-affinity-terms-dropped-while-probing"
	// F15: daemon overhead is computed against the NodePool template; a custom label key that only a pod introduces on the
	// claim (allowed for NotIn / DoesNotExist, later narrowed) ends up as a node label and lets further daemonsets match
	kfDaemonLabel = "daemon-overhead-ignores-labels-introduced-by-pods"
)

func multiTermDaemon(ds []sk.PodDump) bool {
	for _, d := range ds {
		if len(d.Req) >= 2 {
			return true
		}
	}
	return false
}

func mentions(d sk.PodDump, k string) bool {
	n, _ := constraintsOn(d, k)
	return n > 0
}

func positive(op string) bool { return op != "NotIn" && op != "DoesNotExist" }

// constraintsOn lists the operators a pod puts on key k anywhere in its spec (selector, required, preferred).
func constraintsOn(p sk.PodDump, k string) (n int, pos bool) {
	for _, kv := range p.Sel {
		if kv[0] == k {
			n++
			pos = true
		}
	}
	for _, t := range p.Req {
		for _, x := range t {
			if x.Key == k {
				n++
				pos = pos || positive(x.Op)
			}
		}
	}
	for _, w := range p.Pref {
		for _, x := range w.Term {
			if x.Key == k {
				n++
			}
		}
	}
	return
}

func podKeys(p sk.PodDump) []string {
	seen := map[string]bool{}
	var out []string
	add := func(k string) {
		if !seen[k] {
			seen[k] = true
			out = append(out, k)
		}
	}
	for _, kv := range p.Sel {
		add(kv[0])
	}
	for _, t := range p.Req {
		for _, x := range t {
			add(x.Key)
		}
	}
	return out
}

func clash(a, b sk.HostPort) bool {
	return a.Proto == b.Proto && a.Port == b.Port && (a.IP == b.IP || a.IP == "0.0.0.0" || b.IP == "0.0.0.0")
}

func kfKeyClaim(cd sk.ClaimDump, daemons []sk.PodDump) string {
	if k := kfKeyClaimPods(cd); k != "" {
		return k
	}
	if multiTermDaemon(daemons) {
		return kfDaemonTerms
	}
	defined := map[string]bool{}
	for _, k := range cd.PoolKeys {
		defined[k] = true
	}
	for _, r := range cd.Reqs {
		if strings.HasPrefix(r.Key, "example.com/") && !defined[r.Key] {
			for _, d := range daemons {
				if mentions(d, r.Key) {
					return kfDaemonLabel
				}
			}
		}
	}
	return ""
}

func kfKeyClaimPods(cd sk.ClaimDump) string {
	empty := map[string]bool{}
	for _, r := range cd.Reqs {
		if !r.Compl && len(r.Vals) == 0 {
			empty[r.Key] = true
		}
	}
	for _, p := range cd.Pods {
		for _, k := range podKeys(p) {
			if n, pos := constraintsOn(p, k); empty[k] && n >= 2 && pos {
				return kfCollapse
			}
		}
	}
	return ""
}

func kfKeyExisting(e sk.ExistingDump) string {
	labels := map[string]bool{}
	for _, kv := range e.Labels {
		labels[kv[0]] = true
	}
	for _, p := range e.Placed {
		for _, k := range podKeys(p) {
			if n, pos := constraintsOn(p, k); !labels[k] && n >= 2 && pos {
				return kfCollapse
			}
		}
	}
	// a placed pod demands a label the node does not carry, while another placed pod excludes values of that key
	excluded := map[string]bool{}
	for _, p := range e.Placed {
		for _, t := range p.Req {
			for _, x := range t {
				if !labels[x.Key] && x.Op == "NotIn" {
					excluded[x.Key] = true
				}
			}
		}
	}
	for _, p := range e.Placed {
		for _, k := range podKeys(p) {
			if _, pos := constraintsOn(p, k); !labels[k] && excluded[k] && pos {
				return kfUndefinedLabel
			}
		}
	}
	for _, p := range e.Placed {
		for _, d := range e.Daemons {
			for _, a := range p.Ports {
				for _, b := range d.Ports {
					if clash(a, b) {
						return kfDaemonPort
					}
				}
			}
		}
	}
	if multiTermDaemon(e.Daemons) {
		return kfDaemonTerms
	}
	return ""
}

func runWorld(c *kit.Ctx, r *kit.Rand, idx int) {
	// every third world carries no pod (anti-)affinity / topology spread: Solve is then deterministic up to map order
	// and is used for the comparison across degrees of parallelism
	noTopo := idx%3 == 0
	w := sk.Gen(r, sk.GenOpts{Thorough: c.Thorough(), NoTopology: noTopo})
	sk.BindDaemonPods(r, w)
	cfg := sk.RunCfg{Workers: 1, IgnorePreferences: idx%2 == 1, BestEffortMinValues: (idx/2)%2 == 1}
	judgeWorld(c, w, cfg, idx, noTopo)
}

// judgeWorld runs the real scheduler on the world and emits one oracle case per node that received pods.
func judgeWorld(c *kit.Ctx, w *sk.World, cfg sk.RunCfg, idx int, noTopo bool) {
	out, err := sk.Run(w, cfg)
	if err != nil {
		c.Fail(c.NextID(), "harness could not run the scheduler: "+err.Error(), "", nil)
		return
	}
	d := out.Dump
	c.Count(fmt.Sprintf("B.cfg.ignorePrefs=%v.bestEffort=%v", cfg.IgnorePreferences, cfg.BestEffortMinValues))
	c.Count(fmt.Sprintf("B.newclaims=%d", min(len(d.Claims), 4)))
	c.Count(fmt.Sprintf("B.poderrors=%d", min(len(d.Errors), 3)))
	for _, cd := range d.Claims {
		c.Count(fmt.Sprintf("B.claim.pods=%d", min(len(cd.Pods), 4)))
		c.Count(fmt.Sprintf("B.claim.options=%d", min(len(cd.Options), 6)))
		term := fmt.Sprintf("(BNew %s %s %s %s %s %s)", gWK(d.WellKnown), gReqs(cd.Reqs), kit.GListOf(cd.Taints, gTaint), kit.GListOf(cd.Options, gOpt),
			kit.GListOf(cd.Pods, gPod), kit.GListOf(d.Daemons, gPod))
		in := map[string]interface{}{"kind": "Solve/new-nodeclaim", "config": cfg, "claim": cd, "daemons": d.Daemons}
		if k := kfKeyClaim(cd, d.Daemons); k != "" {
			in["kf_key"] = k
			c.Count("B.kf-shape." + k)
		}
		raw, _ := json.Marshal(cd)
		c.AddCase(term, in, "bnew|"+string(raw))
	}
	for _, ed := range d.Existing {
		if len(ed.Placed) == 0 {
			continue
		}
		c.Count("B.existing." + ed.Kind + ".placed")
		term := fmt.Sprintf("(BEx %s %s %s %s %s %s)", gPairs(ed.Labels), kit.GListOf(ed.Taints, gTaint), gRL(ed.Alloc), kit.GListOf(ed.Bound, gPod), kit.GListOf(ed.Placed, gPod), kit.GListOf(ed.Daemons, gPod))
		in := map[string]interface{}{"kind": "Solve/existing-node", "config": cfg, "node": ed}
		if k := kfKeyExisting(ed); k != "" {
			in["kf_key"] = k
			c.Count("B.kf-shape." + k)
		}
		raw, _ := json.Marshal(ed)
		c.AddCase(term, in, "bex|"+string(raw))
	}
	// every degree of candidate-evaluation parallelism must give the same projected result
	base := d.Assignment()
	if !noTopo {
		return
	}
	for _, workers := range []int{4, 16} {
		cfg2 := cfg
		cfg2.Workers = workers
		out2, err := sk.Run(w, cfg2)
		if err != nil {
			c.Fail(c.NextID(), "harness could not run the scheduler: "+err.Error(), "", nil)
			return
		}
		if a2 := out2.Dump.Assignment(); !reflect.DeepEqual(base, a2) {
			// rule out run-to-run non-determinism (map order, random domain choice) before blaming parallelism
			stable := true
			for k := 0; k < 3 && stable; k++ {
				again, _ := sk.Run(w, cfg)
				stable = again != nil && reflect.DeepEqual(base, again.Dump.Assignment())
			}
			if stable {
				c.Fail(c.NextID(), fmt.Sprintf("Solve with %d workers differs from 1 worker", workers), "", map[string]interface{}{"kind": "Solve/parallelism", "workers": workers, "one": base, "many": a2, "world_index": idx})
			} else {
				c.Count("B.nondeterministic-world")
			}
		} else {
			c.Count(fmt.Sprintf("B.workers=%d-agrees-with-1", workers))
		}
	}
}

func main() {
	c := kit.Parse("C01", os.Args[1:])
	c.Meta.Rule = "structured random: mostly-valid pods stressed in one or two dimensions over generated catalogues / NodePools / nodes / daemonsets; unit streams per function"
	c.Meta.Exhaustive = false
	c.Meta.Corr = []string{"Taints.ToleratesPod", "HostPortUsage.Conflicts", "resources.Fits", "NewPodRequirements/NewStrictPodRequirements",
		"Preferences.Relax", "NewExistingNode.remainingResources", "filterInstanceTypesByRequirements", "NodeClaim.CanAdd/Add", "ExistingNode.CanAdd/Add",
		"Scheduler.Solve placements vs admissibility oracle (1/4/16 workers agree)"}
	nUnit, nNC, nEX, nWorlds := 150, 120, 80, 100
	if c.Thorough() {
		nUnit, nNC, nEX, nWorlds = 1000, 1000, 500, 700
	}
	t0 := time.Now()
	r := c.Rand
	if dw := os.Getenv("C01_WORLD"); dw != "" { // development aid: replay one world of part B under several worker counts
		var target int
		fmt.Sscan(dw, &target)
		forks := nUnit*5 + (nUnit+24)/25 + 1 + nNC + nEX
		for i := 0; i < forks+target; i++ {
			r.Fork()
		}
		debugWorld(r.Fork())
		return
	}
	w0 := sk.Gen(r.Fork(), sk.GenOpts{})
	for i := 0; i < nUnit; i++ {
		caseTol(c, r.Fork())
		casePorts(c, r.Fork())
		caseFits(c, r.Fork())
		if i%25 == 0 {
			w0 = sk.Gen(r.Fork(), sk.GenOpts{})
		}
		casePodReqs(c, r.Fork(), w0)
		caseRelax(c, r.Fork(), w0)
	}
	tA := time.Since(t0)
	for i := 0; i < nNC; i++ {
		caseNC(c, r.Fork())
	}
	for i := 0; i < nEX; i++ {
		caseEX(c, r.Fork())
	}
	tS := time.Since(t0)
	witnesses(c)
	for i := 0; i < nWorlds; i++ {
		runWorld(c, r.Fork(), i)
	}
	c.Meta.Extra = map[string]interface{}{
		"seconds": map[string]float64{"unit": tA.Seconds(), "steps": (tS - tA).Seconds(), "solve": (time.Since(t0) - tS).Seconds()},
		"assumptions": []string{
			"volume limits / volume zones, DRA and reserved-capacity offerings are not generated (not covered by this check)",
			"label keys that Karpenter normalises (beta.kubernetes.io/*) are not generated",
			"goroutine interleavings inside parallelizeUntil are exercised (1/4/16 workers) but not modelled",
			"expected daemons of the oracle: every daemonset that may run for some labelling the node can get (per-key over-approximation)",
		}}
	c.Finish("From KV Require Import C01.Model C01.Check.\n"+internHeader(), "case", "check_all", 100)
}

func debugWorld(r *kit.Rand) {
	w := sk.Gen(r, sk.GenOpts{})
	sk.BindDaemonPods(r, w)
	for _, cfgw := range []int{1, 1, 4, 4, 16, 16, 1} {
		for _, ip := range []bool{false} {
			out, err := sk.Run(w, sk.RunCfg{Workers: cfgw, IgnorePreferences: ip})
			if err != nil {
				fmt.Println("ERR", err)
				continue
			}
			a, _ := json.Marshal(out.Dump.Assignment())
			fmt.Println(cfgw, ip, string(a))
			e, _ := json.Marshal(out.Dump.Errors)
			fmt.Println("   errors", string(e))
			for _, cd := range out.Dump.Claims {
				rq, _ := json.Marshal(cd.Reqs)
				fmt.Println("   claim", string(rq))
			}
		}
	}
	raw, _ := json.MarshalIndent(map[string]interface{}{"pods": dumpPods(w), "pools": w.Pools}, "", " ")
	os.WriteFile("/verif/.work/c01-scratch/world.json", raw, 0o644)
}

func dumpPods(w *sk.World) []sk.PodDump {
	var out []sk.PodDump
	for _, p := range w.Pods {
		out = append(out, sk.DumpPod(p))
	}
	return out
}
