package main

import (
	"fmt"
	"sort"
	"strings"

	"verifharness/kit"
	sk "verifharness/schedkit"
)

// Gallina emitters for the constructors of coq/C01/Model.v and Check.v.

func gOptZ(p *int64) string {
	if p == nil {
		return "None"
	}
	return "(Some " + kit.GZ(*p) + ")"
}

func gReq(r sk.Req) string {
	return fmt.Sprintf("(mkReq %s %s %s %s %s)", kit.GBool(r.Compl), kit.GStrs(r.Vals), gOptZ(r.Gte), gOptZ(r.Lte), gOptZ(r.MinV))
}

func gReqs(rs sk.Reqs) string {
	return kit.GListOf(rs, func(r sk.Req) string { return kit.GPair(kit.GStr(r.Key), gReq(r)) })
}

func gRL(l sk.RL) string {
	ks := make([]string, 0, len(l))
	for k := range l {
		ks = append(ks, k)
	}
	sort.Strings(ks)
	return kit.GListOf(ks, func(k string) string { return kit.GPair(kit.GStr(k), kit.GZ(l[k])) })
}

var opName = map[string]string{"In": "In", "NotIn": "NotIn", "Exists": "Exists", "DoesNotExist": "DoesNotExist", "Gt": "Gt", "Lt": "Lt", "Gte": "Gte", "Lte": "Lte"}

func gExpr(e sk.Expr) string {
	op, ok := opName[e.Op]
	if !ok {
		panic("unknown operator " + e.Op)
	}
	return fmt.Sprintf("(%s, %s, %s)", kit.GStr(e.Key), op, kit.GStrs(e.Vals))
}
func gTerm(t sk.Term) string { return kit.GListOf(t, gExpr) }

func gTol(t sk.Tol) string {
	return fmt.Sprintf("(mkTol %s %s %s %s)", kit.GStr(t.Key), kit.GStr(t.Op), kit.GStr(t.Value), kit.GStr(t.Effect))
}
func gTaint(t sk.Taint) string {
	return fmt.Sprintf("(mkTaint %s %s %s)", kit.GStr(t.Key), kit.GStr(t.Value), kit.GStr(t.Effect))
}
func gHP(h sk.HostPort) string {
	return fmt.Sprintf("(mkHP %s %s %s)", kit.GStr(h.IP), kit.GZ(int64(h.Port)), kit.GStr(h.Proto))
}

func gPod(p sk.PodDump) string {
	return fmt.Sprintf("(mkPod %s %s %s %s %s %s %s %s %s %s)", kit.GStr(p.Key),
		kit.GListOf(p.Sel, func(kv [2]string) string { return kit.GPair(kit.GStr(kv[0]), kit.GStr(kv[1])) }),
		kit.GListOf(p.Req, gTerm),
		kit.GListOf(p.Pref, func(w sk.WTerm) string { return kit.GPair(kit.GZ(int64(w.Weight)), gTerm(w.Term)) }),
		kit.GListOf(p.PAff, func(w sk.WID) string { return kit.GPair(kit.GZ(int64(w.Weight)), kit.GStr(w.ID)) }),
		kit.GListOf(p.PAnti, func(w sk.WID) string { return kit.GPair(kit.GZ(int64(w.Weight)), kit.GStr(w.ID)) }),
		kit.GListOf(p.TSC, func(c sk.TSC) string { return kit.GPair(kit.GStr(c.ID), kit.GBool(c.Anyway)) }),
		kit.GListOf(p.Tols, gTol), kit.GListOf(p.Ports, gHP), gRL(p.Requests))
}

func gIT(it sk.ITDump) string {
	return fmt.Sprintf("(mkIT %s %s %s)", kit.GStr(it.Name), gReqs(it.Reqs),
		kit.GListOf(it.Groups, func(g sk.GroupDump) string { return kit.GPair(gRL(g.Alloc), kit.GListOf(g.Offers, gReqs)) }))
}

func gOpt(it sk.ITDump) string {
	var offers []string
	for _, o := range it.Offers {
		if o.Available {
			offers = append(offers, fmt.Sprintf("(mkOffer %s %s)", gReqs(o.Reqs), gRL(o.Alloc)))
		}
	}
	return fmt.Sprintf("(mkOpt %s %s %s)", kit.GStr(it.Name), gReqs(it.Reqs), kit.GList(offers))
}

type usageEntry struct {
	Who   string        `json:"pod"`
	Ports []sk.HostPort `json:"ports"`
}

func gUsage(u []usageEntry) string {
	return kit.GListOf(u, func(e usageEntry) string { return kit.GPair(kit.GStr(e.Who), kit.GListOf(e.Ports, gHP)) })
}

type groupDump struct {
	ITs      []string     `json:"instanceTypes"`
	Overhead sk.RL        `json:"overhead"`
	Usage    []usageEntry `json:"hostPortUsage"`
}

func gGroup(g groupDump) string {
	return fmt.Sprintf("(mkDG %s %s %s)", kit.GStrs(g.ITs), gRL(g.Overhead), gUsage(g.Usage))
}

func gPairs(kv [][2]string) string {
	return kit.GListOf(kv, func(p [2]string) string { return kit.GPair(kit.GStr(p[0]), kit.GStr(p[1])) })
}

func join(xs ...string) string { return strings.Join(xs, " ") }
