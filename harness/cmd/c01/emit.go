package main

import (
	"fmt"
	"sort"
	"strings"

	"verifharness/kit"
	sk "verifharness/schedkit"
)

// Gallina emitters for the constructors of coq/C01/Model.v and Check.v.

func gOptZ(p *int64) string {
	if p == nil {
		return "None"
	}
	return "(Some " + kit.GZ(*p) + ")"
}

func gReq(r sk.Req) string {
	return fmt.Sprintf("(mkReq %s %s %s %s %s)", kit.GBool(r.Compl), gss(r.Vals), gOptZ(r.Gte), gOptZ(r.Lte), gOptZ(r.MinV))
}

func gReqs(rs sk.Reqs) string {
	return kit.GListOf(rs, func(r sk.Req) string { return kit.GPair(gs(r.Key), gReq(r)) })
}

func gRL(l sk.RL) string {
	ks := make([]string, 0, len(l))
	for k := range l {
		ks = append(ks, k)
	}
	sort.Strings(ks)
	return kit.GListOf(ks, func(k string) string { return kit.GPair(gs(k), kit.GZ(l[k])) })
}

var opName = map[string]string{"In": "In", "NotIn": "NotIn", "Exists": "Exists", "DoesNotExist": "DoesNotExist", "Gt": "Gt", "Lt": "Lt", "Gte": "Gte", "Lte": "Lte"}

func gExpr(e sk.Expr) string {
	op, ok := opName[e.Op]
	if !ok {
		panic("unknown operator " + e.Op)
	}
	return fmt.Sprintf("(%s, %s, %s)", gs(e.Key), op, gss(e.Vals))
}
func gTerm(t sk.Term) string { return kit.GListOf(t, gExpr) }

func gTol(t sk.Tol) string {
	return fmt.Sprintf("(mkTol %s %s %s %s)", gs(t.Key), gs(t.Op), gs(t.Value), gs(t.Effect))
}
func gTaint(t sk.Taint) string {
	return fmt.Sprintf("(mkTaint %s %s %s)", gs(t.Key), gs(t.Value), gs(t.Effect))
}
func gHP(h sk.HostPort) string {
	return fmt.Sprintf("(mkHP %s %s %s)", gs(h.IP), kit.GZ(int64(h.Port)), gs(h.Proto))
}

func gPod(p sk.PodDump) string {
	return fmt.Sprintf("(mkPod %s %s %s %s %s %s %s %s %s %s)", gs(p.Key),
		kit.GListOf(p.Sel, func(kv [2]string) string { return kit.GPair(gs(kv[0]), gs(kv[1])) }),
		kit.GListOf(p.Req, gTerm),
		kit.GListOf(p.Pref, func(w sk.WTerm) string { return kit.GPair(kit.GZ(int64(w.Weight)), gTerm(w.Term)) }),
		kit.GListOf(p.PAff, func(w sk.WID) string { return kit.GPair(kit.GZ(int64(w.Weight)), gs(w.ID)) }),
		kit.GListOf(p.PAnti, func(w sk.WID) string { return kit.GPair(kit.GZ(int64(w.Weight)), gs(w.ID)) }),
		kit.GListOf(p.TSC, func(c sk.TSC) string { return kit.GPair(gs(c.ID), kit.GBool(c.Anyway)) }),
		kit.GListOf(p.Tols, gTol), kit.GListOf(p.Ports, gHP), gRL(p.Requests))
}

// gVPod: the pod together with its volume inputs (vinfo).
func gVPod(p sk.PodDump) string {
	if len(p.Vols) == 0 && len(p.VAlts) == 0 && len(p.VolTerms) == 0 {
		return "(" + gPod(p) + ", vi0)"
	}
	return fmt.Sprintf("(%s, mkVI %s %s %s)", gPod(p),
		kit.GListOf(p.Vols, func(v [2]string) string { return kit.GPair(gs(v[0]), gs(v[1])) }),
		kit.GListOf(p.VAlts, gReqs),
		kit.GListOf(p.VolTerms, func(ts []sk.Term) string { return kit.GListOf(ts, gTerm) }))
}

func gIT(it sk.ITDump) string {
	return fmt.Sprintf("(mkIT %s %s %s)", gs(it.Name), gReqs(it.Reqs),
		kit.GListOf(it.Groups, func(g sk.GroupDump) string { return kit.GPair(gRL(g.Alloc), kit.GListOf(g.Offers, gReqs)) }))
}

func gOpt(it sk.ITDump) string {
	var offers []string
	for _, o := range it.Offers {
		if o.Available {
			offers = append(offers, fmt.Sprintf("(mkOffer %s %s)", gReqs(o.Reqs), gRL(o.Alloc)))
		}
	}
	return fmt.Sprintf("(mkOpt %s %s %s)", gs(it.Name), gReqs(it.Reqs), kit.GList(offers))
}

type usageEntry struct {
	Who   string        `json:"pod"`
	Ports []sk.HostPort `json:"ports"`
}

func gUsage(u []usageEntry) string {
	return kit.GListOf(u, func(e usageEntry) string { return kit.GPair(gs(e.Who), kit.GListOf(e.Ports, gHP)) })
}

type groupDump struct {
	ITs      []string     `json:"instanceTypes"`
	Overhead sk.RL        `json:"overhead"`
	Usage    []usageEntry `json:"hostPortUsage"`
}

func gGroup(g groupDump) string {
	return fmt.Sprintf("(mkDG %s %s %s)", gss(g.ITs), gRL(g.Overhead), gUsage(g.Usage))
}

func gLimits(l map[string]int64) string {
	return kit.GListOf(kit.SortedKeys(l), func(k string) string { return kit.GPair(gs(k), kit.GZ(l[k])) })
}

func gPairs(kv [][2]string) string {
	return kit.GListOf(kv, func(p [2]string) string { return kit.GPair(gs(p[0]), gs(p[1])) })
}

// ---- string interning: Coq parses a string literal into one constructor per character, so repeated label keys
// and names are emitted once as `Definition sN := "..."` in the shard header and referenced by name.
var internTable = map[string]string{}
var internOrder []string

func gs(s string) string {
	if len(s) < 3 {
		return kit.GStr(s)
	}
	if a, ok := internTable[s]; ok {
		return a
	}
	a := fmt.Sprintf("s%d", len(internOrder))
	internTable[s] = a
	internOrder = append(internOrder, s)
	return a
}

func gss(xs []string) string { return kit.GListOf(xs, gs) }

// wkAlias emits the well-known label list once.
var wkDef string

func gWK(wk []string) string {
	if wkDef == "" {
		wkDef = "Definition WK : list string := " + gss(wk) + "."
	}
	return "WK"
}

func internHeader() string {
	var b strings.Builder
	b.WriteString("Open Scope string_scope.\n")
	for i, s := range internOrder {
		fmt.Fprintf(&b, "Definition s%d : string := %s.\n", i, kit.GStr(s))
	}
	b.WriteString(wkDef + "\n")
	return b.String()
}
