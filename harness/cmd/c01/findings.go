package main

import (
	"encoding/json"
	"fmt"
	"strings"

	v1 "sigs.k8s.io/karpenter/pkg/apis/v1"
	"sigs.k8s.io/karpenter/pkg/cloudprovider"

	"verifharness/kit"
	sk "verifharness/schedkit"
)

// Known findings (known-findings.txt). A node whose input has the SHAPE of a finding is judged twice:
//   - "core": the same oracle on the input with exactly the suspect parts masked (the suspect pod's constraints on the
//     suspect key, the suspect daemon); this case carries NO kf_key, so any other failure of the node is still reported;
//   - "full": the unmasked oracle, carrying the kf_key: if it fails while the core holds, the failure is due to the
//     masked parts, i.e. to the finding.
//
// A node without any such shape is judged once, unkeyed.
const (
	// F11: the conjunction of a pod's own constraints on one key is empty; the algebra stores the empty set as
	// DoesNotExist, which "is satisfied when undefined", so the pod is accepted on a node / pool that does not define the key
	kfCollapse = "contradictory-constraints-collapse-to-doesnotexist"
	// F12: ExistingNode keeps pod requirements for label keys the node does not carry; after a pod with `k NotIn [..]`
	// a later pod demanding `k In [..]` / `k Exists` is accepted although the node has no label k
	kfUndefinedLabel = "existing-node-undefined-label-after-notin"
	// F13: ExistingNode.CanAdd checks host ports against bound pods only, not against daemonset pods still to arrive
	kfDaemonPort = "existing-node-daemon-hostport-not-reserved"
	// F14: isDaemonPodCompatible drops required OR-terms from the SHARED daemon pod while probing one instance type; later
	// instance types and the existing nodes are judged against the truncated affinity and the daemon's overhead is missed
	kfDaemonTerms = "daemon-affinity-terms-dropped-while-probing"
	// F15: daemon overhead is computed against the NodePool template; a custom label key that only a pod introduces on the
	// claim (allowed for NotIn / DoesNotExist, later narrowed) ends up as a node label and lets further daemonsets match
	kfDaemonLabel = "daemon-overhead-ignores-labels-introduced-by-pods"
	// F16: FinalizeScheduling pins a claim that holds reserved offerings to capacity-type=reserved and its reservation ids
	// AFTER packing: instance types without such an offering stay among the launch options, and the pods were fitted
	// against any compatible offering group, not against the reserved offering's allocatable
	kfReservedOptions = "reserved-claim-keeps-options-without-reserved-offering"
	// F17: a pod whose volume-topology lookup fails (one of its claims no longer exists) is dropped from the volume
	// requirements map but still handed to Solve, which then ignores the topology of its other volumes
	kfVolLookup = "volume-topology-ignored-when-a-claim-lookup-fails"
)

// maskVolLookup: pods with a missing claim lose their volume-topology obligations in the core case.
func maskVolLookup(m *masked, pods []sk.PodDump) {
	for i, p := range pods {
		if len(p.MissingClaims) > 0 && len(p.VolTerms) > 0 {
			q := m.pods[i]
			q.VolTerms = [][]sk.Term{}
			m.pods[i] = q
			m.hit(kfVolLookup)
		}
	}
}

func positive(op string) bool { return op != "NotIn" && op != "DoesNotExist" }

// nk mirrors the key normalisation of NewRequirement (v1.NormalizedLabels).
func nk(k string) string {
	if n, ok := v1.NormalizedLabels[k]; ok {
		return n
	}
	return k
}

// constraintsOn counts the constraints a pod puts on key k anywhere in its spec (selector, required, preferred) and
// tells whether one of the hard ones is positive.
func constraintsOn(p sk.PodDump, k string) (n int, pos bool) {
	for _, kv := range p.Sel {
		if nk(kv[0]) == k {
			n++
			pos = true
		}
	}
	for _, t := range p.Req {
		for _, x := range t {
			if nk(x.Key) == k {
				n++
				pos = pos || positive(x.Op)
			}
		}
	}
	for _, w := range p.Pref {
		for _, x := range w.Term {
			if nk(x.Key) == k {
				n++
			}
		}
	}
	return
}

func podKeys(p sk.PodDump) []string {
	seen := map[string]bool{}
	var out []string
	add := func(k string) {
		if !seen[k] {
			seen[k] = true
			out = append(out, k)
		}
	}
	for _, kv := range p.Sel {
		add(nk(kv[0]))
	}
	for _, t := range p.Req {
		for _, x := range t {
			add(nk(x.Key))
		}
	}
	return out
}

func mentions(d sk.PodDump, k string) bool {
	n, _ := constraintsOn(d, k)
	return n > 0
}

func clash(a, b sk.HostPort) bool {
	return a.Proto == b.Proto && a.Port == b.Port && (a.IP == b.IP || a.IP == "0.0.0.0" || b.IP == "0.0.0.0")
}

// maskKey removes the pod's hard constraints on key k (selector entries and expressions inside required terms).
func maskKey(p sk.PodDump, k string) sk.PodDump {
	q := p
	q.Sel = nil
	for _, kv := range p.Sel {
		if nk(kv[0]) != k {
			q.Sel = append(q.Sel, kv)
		}
	}
	if q.Sel == nil {
		q.Sel = [][2]string{}
	}
	q.Req = nil
	for _, t := range p.Req {
		nt := sk.Term{}
		for _, x := range t {
			if nk(x.Key) != k {
				nt = append(nt, x)
			}
		}
		q.Req = append(q.Req, nt)
	}
	if q.Req == nil {
		q.Req = []sk.Term{}
	}
	return q
}

type masked struct {
	pods    []sk.PodDump
	daemons []sk.PodDump
	reqs    sk.Reqs
	key     string // first finding whose shape is present ("" = nothing masked)
}

func (m *masked) hit(k string) {
	if m.key == "" {
		m.key = k
	}
}

func maskClaim(cd sk.ClaimDump, daemons []sk.PodDump) masked {
	m := masked{reqs: cd.Reqs}
	// F16 shape: the claim is pinned to reserved capacity
	var rids map[string]bool
	pinned := false
	for _, r := range cd.Reqs {
		if r.Key == v1.CapacityTypeLabelKey && !r.Compl && len(r.Vals) == 1 && r.Vals[0] == v1.CapacityTypeReserved {
			pinned = true
		}
		if r.Key == cloudprovider.ReservationIDLabel && !r.Compl {
			rids = map[string]bool{}
			for _, v := range r.Vals {
				rids[v] = true
			}
		}
	}
	if pinned && rids != nil {
		// core: the claim as it was packed, i.e. without the pin FinalizeScheduling adds afterwards
		m.reqs = nil
		for _, r := range cd.Reqs {
			if r.Key != v1.CapacityTypeLabelKey && r.Key != cloudprovider.ReservationIDLabel {
				m.reqs = append(m.reqs, r)
			}
		}
		m.hit(kfReservedOptions)
	}
	empty, defined, onClaim := map[string]bool{}, map[string]bool{}, map[string]bool{}
	for _, r := range cd.Reqs {
		onClaim[r.Key] = true
		if !r.Compl && len(r.Vals) == 0 {
			empty[r.Key] = true
		}
	}
	for _, k := range cd.PoolKeys {
		defined[k] = true
	}
	for _, p := range cd.Pods {
		q := p
		for _, k := range podKeys(p) {
			if n, pos := constraintsOn(p, k); empty[k] && n >= 2 && pos {
				q = maskKey(q, k)
				m.hit(kfCollapse)
			}
		}
		m.pods = append(m.pods, q)
	}
	maskVolLookup(&m, cd.Pods)
	for _, d := range daemons {
		switch {
		case len(d.Req) >= 2:
			m.hit(kfDaemonTerms)
			continue
		}
		introduced := false
		for _, k := range podKeys(d) {
			if strings.HasPrefix(k, "example.com/") && onClaim[k] && !defined[k] {
				introduced = true
			}
		}
		if introduced {
			m.hit(kfDaemonLabel)
			continue
		}
		m.daemons = append(m.daemons, d)
	}
	return m
}

func maskExisting(e sk.ExistingDump) masked {
	m := masked{}
	labels := map[string]bool{}
	for _, kv := range e.Labels {
		labels[kv[0]] = true
	}
	excludedBy := map[string]map[string]bool{} // key -> pods that put a NotIn on it
	for _, p := range e.Placed {
		for _, t := range p.Req {
			for _, x := range t {
				if !labels[nk(x.Key)] && x.Op == "NotIn" {
					if excludedBy[nk(x.Key)] == nil {
						excludedBy[nk(x.Key)] = map[string]bool{}
					}
					excludedBy[nk(x.Key)][p.Key] = true
				}
			}
		}
	}
	for _, p := range e.Placed {
		q := p
		for _, k := range podKeys(p) {
			n, pos := constraintsOn(p, k)
			if labels[k] || !pos {
				continue
			}
			if n >= 2 {
				q = maskKey(q, k)
				m.hit(kfCollapse)
				continue
			}
			others := 0
			for who := range excludedBy[k] {
				if who != p.Key {
					others++
				}
			}
			if others > 0 {
				q = maskKey(q, k)
				m.hit(kfUndefinedLabel)
			}
		}
		m.pods = append(m.pods, q)
	}
	maskVolLookup(&m, e.Placed)
	for _, d := range e.Daemons {
		if len(d.Req) >= 2 {
			m.hit(kfDaemonTerms)
			continue
		}
		clashes := false
		for _, p := range e.Placed {
			for _, a := range p.Ports {
				for _, b := range d.Ports {
					clashes = clashes || clash(a, b)
				}
			}
		}
		if clashes {
			m.hit(kfDaemonPort)
			q := d
			q.Ports = []sk.HostPort{}
			m.daemons = append(m.daemons, q)
			continue
		}
		m.daemons = append(m.daemons, d)
	}
	return m
}

func countVolumes(c *kit.Ctx, where string, pods []sk.PodDump) {
	for _, p := range pods {
		if len(p.VolTerms) > 0 {
			c.Count("B.vol." + where + ".pod-with-volumes")
			for _, ts := range p.VolTerms {
				c.Count(fmt.Sprintf("B.vol.%s.volume-topology-terms=%d", where, min(len(ts), 2)))
			}
		}
	}
}

func emitClaim(c *kit.Ctx, d *sk.Dump, cd sk.ClaimDump, cfg sk.RunCfg) {
	countVolumes(c, "claim", cd.Pods)
	term := func(reqs sk.Reqs, pods, daemons []sk.PodDump) string {
		return fmt.Sprintf("(BNew %s %s %s %s %s %s)", gWK(d.WellKnown), gReqs(reqs), kit.GListOf(cd.Taints, gTaint), kit.GListOf(cd.Options, gOpt),
			kit.GListOf(pods, gVPod), kit.GListOf(daemons, gPod))
	}
	raw, _ := json.Marshal(cd)
	m := maskClaim(cd, d.Daemons)
	if m.key == "" {
		c.AddCase(term(cd.Reqs, cd.Pods, d.Daemons), map[string]interface{}{"kind": "Solve/new-nodeclaim", "config": cfg, "claim": cd, "daemons": d.Daemons}, "bnew|"+string(raw))
		return
	}
	c.Count("B.kf-shape." + m.key)
	c.AddCase(term(m.reqs, m.pods, m.daemons), map[string]interface{}{"kind": "Solve/new-nodeclaim (core: finding-shaped parts masked)", "config": cfg, "claim": cd, "daemons": d.Daemons,
		"masked_pods": m.pods, "masked_daemons": m.daemons, "masked_requirements": m.reqs}, "bnew-core|"+string(raw))
	c.AddCase(term(cd.Reqs, cd.Pods, d.Daemons), map[string]interface{}{"kind": "Solve/new-nodeclaim", "config": cfg, "claim": cd, "daemons": d.Daemons, "kf_key": m.key}, "bnew|"+string(raw))
}

func emitExisting(c *kit.Ctx, ed sk.ExistingDump, cfg sk.RunCfg) {
	countVolumes(c, "existing", ed.Placed)
	if len(ed.VLimits) > 0 {
		c.Count("B.vol.existing.node-with-attach-limits")
	}
	term := func(placed, daemons []sk.PodDump) string {
		return fmt.Sprintf("(BEx %s %s %s %s %s %s %s)", gPairs(ed.Labels), kit.GListOf(ed.Taints, gTaint), gRL(ed.Alloc), gLimits(ed.VLimits), kit.GListOf(ed.Bound, gVPod), kit.GListOf(placed, gVPod), kit.GListOf(daemons, gPod))
	}
	raw, _ := json.Marshal(ed)
	m := maskExisting(ed)
	if m.key == "" {
		c.AddCase(term(ed.Placed, ed.Daemons), map[string]interface{}{"kind": "Solve/existing-node", "config": cfg, "node": ed}, "bex|"+string(raw))
		return
	}
	c.Count("B.kf-shape." + m.key)
	c.AddCase(term(m.pods, m.daemons), map[string]interface{}{"kind": "Solve/existing-node (core: finding-shaped parts masked)", "config": cfg, "node": ed,
		"masked_pods": m.pods, "masked_daemons": m.daemons}, "bex-core|"+string(raw))
	c.AddCase(term(ed.Placed, ed.Daemons), map[string]interface{}{"kind": "Solve/existing-node", "config": cfg, "node": ed, "kf_key": m.key}, "bex|"+string(raw))
}
