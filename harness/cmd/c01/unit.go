package main

import (
	"context"
	"fmt"
	"sort"
	"strings"
	"time"

	corev1 "k8s.io/api/core/v1"
	metav1 "k8s.io/apimachinery/pkg/apis/meta/v1"
	clock "k8s.io/utils/clock/testing"
	"sigs.k8s.io/controller-runtime/pkg/client"
	"sigs.k8s.io/controller-runtime/pkg/client/interceptor"

	v1 "sigs.k8s.io/karpenter/pkg/apis/v1"
	"sigs.k8s.io/karpenter/pkg/cloudprovider"
	"sigs.k8s.io/karpenter/pkg/cloudprovider/fake"
	psched "sigs.k8s.io/karpenter/pkg/controllers/provisioning/scheduling"
	"sigs.k8s.io/karpenter/pkg/controllers/state"
	"sigs.k8s.io/karpenter/pkg/operator/options"
	"sigs.k8s.io/karpenter/pkg/scheduling"
	"sigs.k8s.io/karpenter/pkg/test"
	"sigs.k8s.io/karpenter/pkg/utils/daemonset"
	"sigs.k8s.io/karpenter/pkg/utils/resources"

	"verifharness/kit"
	sk "verifharness/schedkit"
)

// ------------------------------------------------------------------ A1: Taints.ToleratesPod

var tKeys = []string{"dedicated", "level", ""}
var tVals = []string{"batch", "infra", "5", "7", "05", "-3", "", "x"}
var tEffs = []corev1.TaintEffect{corev1.TaintEffectNoSchedule, corev1.TaintEffectNoExecute, corev1.TaintEffectPreferNoSchedule}
var tOps = []corev1.TolerationOperator{"", corev1.TolerationOpEqual, corev1.TolerationOpExists, corev1.TolerationOpLt, corev1.TolerationOpGt, "Bogus"}

func caseTol(c *kit.Ctx, r *kit.Rand) {
	var ts []corev1.Taint
	for i := 0; i < r.Intn(3); i++ {
		ts = append(ts, corev1.Taint{Key: kit.Pick(r, tKeys[:2]), Value: kit.Pick(r, tVals), Effect: kit.Pick(r, tEffs)})
	}
	p := &corev1.Pod{}
	for i := 0; i < r.Intn(4); i++ {
		eff := kit.Pick(r, append(tEffs, ""))
		p.Spec.Tolerations = append(p.Spec.Tolerations, corev1.Toleration{Key: kit.Pick(r, tKeys), Operator: kit.Pick(r, tOps), Value: kit.Pick(r, tVals), Effect: eff})
	}
	ok := scheduling.Taints(ts).ToleratesPod(p) == nil
	d := sk.DumpPod(p)
	c.Count(fmt.Sprintf("A.tolerates=%v", ok))
	c.AddCase(fmt.Sprintf("(CTol %s %s %s)", kit.GListOf(sk.DumpTaints(ts), gTaint), kit.GListOf(d.Tols, gTol), kit.GBool(ok)),
		map[string]interface{}{"kind": "Taints.ToleratesPod", "taints": sk.DumpTaints(ts), "tolerations": d.Tols, "ok": ok}, fmt.Sprintf("tol|%v|%v", ts, p.Spec.Tolerations))
}

// ------------------------------------------------------------------ A2: HostPortUsage.Conflicts

var ips = []string{"", "0.0.0.0", "10.0.0.1", "10.0.0.2", "::", "::1", "bogus"}

func portPod(r *kit.Rand, name string) *corev1.Pod {
	p := &corev1.Pod{ObjectMeta: metav1.ObjectMeta{Name: name, Namespace: "default"}, Spec: corev1.PodSpec{Containers: []corev1.Container{{}}}}
	for i := 0; i < r.Intn(3); i++ {
		p.Spec.Containers[0].Ports = append(p.Spec.Containers[0].Ports, corev1.ContainerPort{HostPort: int32(kit.Pick(r, []int{0, 80, 80, 443})), HostIP: kit.Pick(r, ips),
			Protocol: kit.Pick(r, []corev1.Protocol{corev1.ProtocolTCP, corev1.ProtocolUDP})})
	}
	return p
}

func dumpUsage(u *scheduling.HostPortUsage) []usageEntry {
	var out []usageEntry
	for k, ports := range u.VerifC01Reserved() {
		e := usageEntry{Who: k, Ports: []sk.HostPort{}}
		for _, hp := range ports {
			e.Ports = append(e.Ports, sk.HostPort{IP: hp.IP.String(), Port: hp.Port, Proto: string(hp.Protocol)})
		}
		out = append(out, e)
	}
	sort.Slice(out, func(i, j int) bool { return out[i].Who < out[j].Who })
	return out
}

func casePorts(c *kit.Ctx, r *kit.Rand) {
	u := scheduling.NewHostPortUsage()
	for i := 0; i < r.Intn(3); i++ {
		q := portPod(r, fmt.Sprintf("q%d", i))
		u.Add(q, scheduling.GetHostPorts(q))
	}
	p := portPod(r, kit.Pick(r, []string{"q0", "new"}))
	conflict := u.Conflicts(p, scheduling.GetHostPorts(p)) != nil
	d := sk.DumpPod(p)
	c.Count(fmt.Sprintf("A.portconflict=%v", conflict))
	c.AddCase(fmt.Sprintf("(CPorts %s %s %s %s)", gUsage(dumpUsage(u)), gs(d.Key), kit.GListOf(d.Ports, gHP), kit.GBool(conflict)),
		map[string]interface{}{"kind": "HostPortUsage.Conflicts", "usage": dumpUsage(u), "pod": d.Key, "ports": d.Ports, "conflict": conflict}, fmt.Sprintf("ports|%v|%v", dumpUsage(u), d.Ports))
}

// ------------------------------------------------------------------ A3: resources.Fits

func randRL(r *kit.Rand, neg bool) corev1.ResourceList {
	l := corev1.ResourceList{}
	for _, k := range []corev1.ResourceName{corev1.ResourceCPU, corev1.ResourceMemory, corev1.ResourcePods, "example.com/gpu"} {
		if r.Chance(2, 3) {
			v := int64(kit.Pick(r, []int{0, 1, 999, 1000, 1001, 2000}))
			if neg && r.Chance(1, 8) {
				v = -v - 1
			}
			l[k] = *resourceMilli(v)
		}
	}
	return l
}

func caseFits(c *kit.Ctx, r *kit.Rand) {
	cand, total := randRL(r, false), randRL(r, true)
	ok := resources.Fits(cand, total)
	c.Count(fmt.Sprintf("A.fits=%v", ok))
	c.AddCase(fmt.Sprintf("(CFits %s %s %s)", gRL(sk.Milli(cand)), gRL(sk.Milli(total)), kit.GBool(ok)),
		map[string]interface{}{"kind": "resources.Fits", "candidate": sk.Milli(cand), "total": sk.Milli(total), "fits": ok}, fmt.Sprintf("fits|%v|%v", sk.Milli(cand), sk.Milli(total)))
}

// ------------------------------------------------------------------ A4 / A5: pod requirements, Relax

func casePodReqs(c *kit.Ctx, r *kit.Rand, w *sk.World) {
	p := sk.GenPod(r, "p", w, sk.GenOpts{})
	if r.Chance(1, 3) {
		sk.UseDeprecatedKeys(p)
		c.Count("A.podreqs.deprecated-keys")
	}
	all := r.Bool()
	d := normKeys(sk.DumpPod(p))
	q := p.DeepCopy()
	var rs scheduling.Requirements
	if all {
		rs = scheduling.NewPodRequirements(q)
	} else {
		rs = scheduling.NewStrictPodRequirements(q)
	}
	c.Count(fmt.Sprintf("A.podreqs.keys=%d", len(rs)))
	c.AddCase(fmt.Sprintf("(CPodReqs %s %s %s)", kit.GBool(all), gPod(d), gReqs(sk.DumpReqs(rs))),
		map[string]interface{}{"kind": "NewPodRequirements", "all": all, "pod": d, "requirements": sk.DumpReqs(rs)}, "podreqs|"+gPod(d))
}

func caseRelax(c *kit.Ctx, r *kit.Rand, w *sk.World) {
	p := sk.GenPod(r, "p", w, sk.GenOpts{})
	// pile up soft constraints so that every relaxation gets its turn
	if r.Chance(1, 2) {
		p.Spec.TopologySpreadConstraints = nil
		for i := 0; i < r.Intn(4); i++ {
			wu := corev1.DoNotSchedule
			if r.Bool() {
				wu = corev1.ScheduleAnyway
			}
			p.Spec.TopologySpreadConstraints = append(p.Spec.TopologySpreadConstraints, corev1.TopologySpreadConstraint{MaxSkew: int32(i + 1), TopologyKey: kit.Pick(r, []string{corev1.LabelTopologyZone, corev1.LabelHostname}), WhenUnsatisfiable: wu})
		}
	}
	if r.Chance(1, 2) {
		if p.Spec.Affinity == nil {
			p.Spec.Affinity = &corev1.Affinity{}
		}
		pa := &corev1.PodAffinity{}
		for i := 0; i < r.Intn(3); i++ {
			pa.PreferredDuringSchedulingIgnoredDuringExecution = append(pa.PreferredDuringSchedulingIgnoredDuringExecution, corev1.WeightedPodAffinityTerm{Weight: int32(kit.Pick(r, []int{1, 5, 5, 9})), PodAffinityTerm: corev1.PodAffinityTerm{TopologyKey: fmt.Sprintf("k%d", i)}})
		}
		p.Spec.Affinity.PodAffinity = pa
		pb := &corev1.PodAntiAffinity{}
		for i := 0; i < r.Intn(3); i++ {
			pb.PreferredDuringSchedulingIgnoredDuringExecution = append(pb.PreferredDuringSchedulingIgnoredDuringExecution, corev1.WeightedPodAffinityTerm{Weight: int32(kit.Pick(r, []int{1, 5, 5, 9})), PodAffinityTerm: corev1.PodAffinityTerm{TopologyKey: fmt.Sprintf("a%d", i)}})
		}
		p.Spec.Affinity.PodAntiAffinity = pb
	}
	if r.Chance(1, 4) {
		p.Spec.Tolerations = append(p.Spec.Tolerations, corev1.Toleration{Operator: corev1.TolerationOpExists, Effect: corev1.TaintEffectPreferNoSchedule})
	}
	tolPNS := r.Bool()
	prefs := &psched.Preferences{ToleratePreferNoSchedule: tolPNS}
	d0 := sk.DumpPod(p)
	q := p.DeepCopy()
	var chain []sk.PodDump
	for i := 0; i < 40; i++ {
		if !prefs.Relax(context.Background(), q) {
			break
		}
		chain = append(chain, sk.DumpPod(q))
	}
	c.Count(fmt.Sprintf("A.relax.steps=%d", len(chain)))
	c.AddCase(fmt.Sprintf("(CRelax %s %s %s)", kit.GBool(tolPNS), gPod(d0), kit.GListOf(chain, gPod)),
		map[string]interface{}{"kind": "Preferences.Relax", "toleratePreferNoSchedule": tolPNS, "pod": d0, "chain": chain}, "relax|"+gPod(d0))
}

// ------------------------------------------------------------------ A6 / A7: NodeClaim.CanAdd/Add, filter

func errClassNC(err error) string {
	if cls := psched.VerifC01ErrClass(err); cls == "minvalues" {
		return "EMinValues"
	} else if cls == "filter" {
		return "EFilter"
	}
	s := err.Error()
	switch {
	case strings.Contains(s, "did not tolerate taint"):
		return "ETaints"
	case strings.HasPrefix(s, "incompatible requirements"):
		return "EReqs"
	case strings.HasPrefix(s, "incompatible volume requirements"):
		return "EVolReqs"
	}
	return "UNKNOWN(" + s + ")"
}

func dumpGroups(gs []psched.DaemonOverheadGroup) []groupDump {
	var out []groupDump
	for _, g := range gs {
		gd := groupDump{Overhead: sk.Milli(g.DaemonOverhead), Usage: dumpUsage(g.HostPortUsage)}
		for _, it := range g.InstanceTypes {
			gd.ITs = append(gd.ITs, it.Name)
		}
		out = append(out, gd)
	}
	return out
}

func podData(p *corev1.Pod, all bool) *psched.PodData {
	var rs scheduling.Requirements
	if all {
		rs = scheduling.NewPodRequirements(p)
	} else {
		rs = scheduling.NewStrictPodRequirements(p)
	}
	strict := rs
	if scheduling.HasPreferredNodeAffinity(p) {
		strict = scheduling.NewStrictPodRequirements(p)
	}
	return &psched.PodData{Requests: resources.RequestsForPods(p), Requirements: rs, StrictRequirements: strict}
}

// karpenter's own PodData.Requests (input of CanAdd) replaces the k8s-computed requests in the unit cases; the volume
// inputs of CanAdd (GetVolumes, VolumeTopology.GetRequirements) are taken from the real functions as well
func dumpPodK(p *corev1.Pod) sk.PodDump {
	d := normKeys(sk.DumpPod(p))
	d.Requests = sk.Milli(resources.RequestsForPods(p))
	return d
}

// normKeys applies v1.NormalizedLabels to the label keys of the pod handed to the MODEL (the model works on
// normalised keys; the real code receives the pod with its deprecated keys and normalises itself).
func normKeys(d sk.PodDump) sk.PodDump {
	sel := [][2]string{}
	for _, kv := range d.Sel {
		sel = append(sel, [2]string{nk(kv[0]), kv[1]})
	}
	d.Sel = sel
	fix := func(t sk.Term) sk.Term {
		out := sk.Term{}
		for _, x := range t {
			x.Key = nk(x.Key)
			out = append(out, x)
		}
		return out
	}
	req := []sk.Term{}
	for _, t := range d.Req {
		req = append(req, fix(t))
	}
	d.Req = req
	pref := []sk.WTerm{}
	for _, w := range d.Pref {
		pref = append(pref, sk.WTerm{Weight: w.Weight, Term: fix(w.Term)})
	}
	d.Pref = pref
	return d
}

func volPairs(v scheduling.Volumes) [][2]string {
	out := [][2]string{}
	for _, s := range v.VerifC11Flat() {
		parts := strings.SplitN(s, "|", 2)
		out = append(out, [2]string{parts[0], parts[1]})
	}
	return out
}

// withVolumes fills PodData.VolumeRequirements and the dump's volume inputs from the real code.
func withVolumes(ctx context.Context, cl client.Client, p *corev1.Pod, pd *psched.PodData, d *sk.PodDump) scheduling.Volumes {
	alts, err := psched.NewVolumeTopology(cl).GetRequirements(ctx, p)
	if err != nil {
		panic(err)
	}
	pd.VolumeRequirements = alts
	for _, a := range alts {
		d.VAlts = append(d.VAlts, sk.DumpReqs(a))
	}
	vols, err := scheduling.GetVolumes(ctx, cl, p)
	if err != nil {
		panic(err)
	}
	d.Vols = volPairs(vols)
	return vols
}

// applyVolumes creates the world's storage objects in a client.
func applyVolumes(ctx context.Context, cl client.Client, w *sk.World) {
	for _, sc := range w.StorageClasses {
		kit.Apply(ctx, cl, sc.DeepCopy())
	}
	for _, name := range w.VolOrder {
		if vs := w.Vols[name]; vs.PV != nil {
			kit.Apply(ctx, cl, vs.PV.DeepCopy())
			// VolumeTopology looks the (cluster-scoped) PV up with the pod's namespace, which an API server ignores and the fake client does not
			nsCopy := vs.PV.DeepCopy()
			nsCopy.Namespace = vs.PVC.Namespace
			kit.Apply(ctx, cl, nsCopy)
		}
		kit.Apply(ctx, cl, w.Vols[name].PVC.DeepCopy())
	}
}

// ------------------------------------------------------------------ volumes: ExceedsLimits, GetRequirements

func caseVolLimits(c *kit.Ctx, r *kit.Rand) {
	u := scheduling.NewVolumeUsage()
	limits := map[string]int64{}
	for _, d := range []string{sk.DriverA, sk.DriverB} {
		if r.Chance(2, 3) {
			l := r.Intn(4)
			u.AddLimit(d, l)
			limits[d] = int64(l)
		}
	}
	randVols := func() scheduling.Volumes {
		v := scheduling.Volumes{}
		for i := 0; i < r.Intn(4); i++ {
			v.Add(kit.Pick(r, []string{sk.DriverA, sk.DriverB, "csi.unlimited"}), fmt.Sprintf("default/pvc-%d", r.Intn(5)))
		}
		return v
	}
	used := scheduling.Volumes{}
	for i := 0; i < r.Intn(3); i++ {
		v := randVols()
		u.Add(&corev1.Pod{ObjectMeta: metav1.ObjectMeta{Name: fmt.Sprintf("q%d", i), Namespace: "default"}}, v)
		used = used.Union(v)
	}
	nv := randVols()
	ex := u.ExceedsLimits(nv) != nil
	gv := func(v scheduling.Volumes) string {
		return kit.GListOf(volPairs(v), func(p [2]string) string { return kit.GPair(gs(p[0]), gs(p[1])) })
	}
	c.Count(fmt.Sprintf("A.vol.exceeds=%v", ex))
	c.AddCase(fmt.Sprintf("(CVolLimits %s %s %s %s)", gLimits(limits), gv(used), gv(nv), kit.GBool(ex)),
		map[string]interface{}{"kind": "VolumeUsage.ExceedsLimits", "limits": limits, "used": volPairs(used), "new": volPairs(nv), "exceeds": ex}, fmt.Sprintf("vollimits|%v|%v|%v", limits, volPairs(used), volPairs(nv)))
}

func caseVolAlts(c *kit.Ctx, r *kit.Rand) {
	ctx := kit.Context()
	w := &sk.World{}
	sk.GenVolumesOpts(r, w, r.Range(2, 5), true)
	cl := kit.NewClient(interceptor.Funcs{})
	p := &corev1.Pod{ObjectMeta: metav1.ObjectMeta{Name: "p", Namespace: "default", UID: "uid-p"}, Spec: corev1.PodSpec{Containers: []corev1.Container{{Name: "c"}}}}
	for i := 0; i < r.Range(1, 3); i++ {
		sk.AttachVolumes(r, w, p)
	}
	applyVolumes(ctx, cl, w) // after attaching: generic ephemeral volumes add their own claims
	alts, err := psched.NewVolumeTopology(cl).GetRequirements(ctx, p)
	if err != nil {
		panic(err)
	}
	// the volumes as Kubernetes objects describe them: local flag and the raw terms (hostname expressions included)
	type volJ struct {
		Local bool      `json:"local"`
		Terms []sk.Term `json:"terms"`
	}
	var vols []volJ
	for _, v := range p.Spec.Volumes {
		vj := volJ{Terms: []sk.Term{}}
		claim := ""
		switch {
		case v.PersistentVolumeClaim != nil:
			claim = v.PersistentVolumeClaim.ClaimName
		case v.Ephemeral != nil:
			claim = p.Name + "-" + v.Name
			c.Count("A.vol.ephemeral")
		default:
			c.Count("A.vol.emptydir")
			vols = append(vols, vj)
			continue
		}
		vs := w.Vols[claim]
		if vs.PV != nil {
			vj.Local = vs.PV.Spec.Local != nil || vs.PV.Spec.HostPath != nil
			if vs.PV.Spec.NodeAffinity != nil && vs.PV.Spec.NodeAffinity.Required != nil {
				for _, t := range vs.PV.Spec.NodeAffinity.Required.NodeSelectorTerms {
					term := sk.Term{}
					for _, e := range t.MatchExpressions {
						term = append(term, sk.Expr{Key: e.Key, Op: string(e.Operator), Vals: append([]string{}, e.Values...)})
					}
					vj.Terms = append(vj.Terms, term)
				}
			}
		} else if vs.PVC.Spec.StorageClassName != nil {
			for _, sc := range w.StorageClasses {
				if sc.Name == *vs.PVC.Spec.StorageClassName {
					for _, t := range sc.AllowedTopologies {
						term := sk.Term{}
						for _, e := range t.MatchLabelExpressions {
							term = append(term, sk.Expr{Key: e.Key, Op: "In", Vals: append([]string{}, e.Values...)})
						}
						vj.Terms = append(vj.Terms, term)
					}
				}
			}
		}
		vols = append(vols, vj)
	}
	var obs []sk.Reqs
	for _, a := range alts {
		obs = append(obs, sk.DumpReqs(a))
	}
	c.Count(fmt.Sprintf("A.vol.alternatives=%d", min(len(alts), 4)))
	c.AddCase(fmt.Sprintf("(CVolAlts %s %s)", kit.GListOf(vols, func(v volJ) string { return kit.GPair(kit.GBool(v.Local), kit.GListOf(v.Terms, gTerm)) }), kit.GListOf(obs, gReqs)),
		map[string]interface{}{"kind": "VolumeTopology.GetRequirements", "volumes": vols, "alternatives": obs}, fmt.Sprintf("volalts|%v", vols))
}

func names(its []*cloudprovider.InstanceType) []string {
	out := []string{}
	for _, it := range its {
		out = append(out, it.Name)
	}
	sort.Strings(out)
	return out
}

func caseNC(c *kit.Ctx, r *kit.Rand) {
	mv := options.MinValuesPolicyStrict
	ctx := options.ToContext(context.Background(), test.Options(test.OptionsFields{MinValuesPolicy: &mv}))
	w := &sk.World{}
	w.Catalog = sk.GenCatalog(r, r.Range(3, 6))
	w.Pools = sk.GenPools(r, 1, w.Catalog)
	w.DaemonSets = sk.GenDaemonSets(r, r.Intn(3), w)
	np := w.Pools[0]
	all, bestEffort := r.Bool(), r.Bool()
	cl := kit.NewClient(interceptor.Funcs{})
	withVols := r.Chance(1, 2)
	if withVols {
		sk.GenVolumesOpts(r, w, r.Range(2, 4), true)
	}
	clk := clock.NewFakeClock(time.Unix(1_700_000_000, 0))
	cluster := state.NewCluster(clk, cl, fake.NewCloudProvider())
	itsMap := map[string][]*cloudprovider.InstanceType{np.Name: w.Catalog}
	topo, err := psched.NewTopology(ctx, cl, cluster, nil, []*v1.NodePool{np}, itsMap, nil)
	if err != nil {
		panic(err)
	}
	nct := psched.NewNodeClaimTemplate(np)
	wk := wellKnown()
	var cat []sk.ITDump
	for _, it := range w.Catalog {
		cat = append(cat, sk.DumpIT(it))
	}
	// the pre-filter NewScheduler applies to the template (empty pod, one group with every type, no overhead)
	pre, unsat, isErr, mvErr := psched.VerifC01Filter(w.Catalog, nct.Requirements, &corev1.Pod{}, corev1.ResourceList{},
		[]psched.DaemonOverheadGroup{{InstanceTypes: w.Catalog, HostPortUsage: scheduling.NewHostPortUsage()}}, corev1.ResourceList{}, bestEffort)
	emitFilter(c, wk, cat, names(w.Catalog), sk.DumpReqs(nct.Requirements), "/", nil, []groupDump{{ITs: namesUnsorted(w.Catalog), Overhead: sk.RL{}}}, sk.RL{}, bestEffort, pre, unsat, isErr, mvErr)
	if len(pre) == 0 {
		c.Count("A.nc.template-filtered-out")
		return
	}
	nct.InstanceTypeOptions = pre
	var dpods []*corev1.Pod
	for _, ds := range w.DaemonSets {
		dpods = append(dpods, daemonset.PodForDaemonSet(ds))
	}
	groups := psched.VerifC01BuildDaemonOverheadGroups(ctx, []*psched.NodeClaimTemplate{nct}, dpods)[nct]
	nc := psched.NewNodeClaim(nct, topo, groups, pre, psched.NewReservationManager(itsMap), psched.ReservedOfferingModeFallback)
	n0 := fmt.Sprintf("(mkNC %s %s %s %s %s [])", kit.GListOf(sk.DumpTaints(nc.Spec.Taints), gTaint), gReqs(sk.DumpReqs(nc.Requirements)),
		gss(names(pre)), gRL(sk.Milli(nc.Spec.Resources.Requests)), kit.GListOf(dumpGroups(nc.VerifC01DaemonGroups()), gGroup))
	type stepJ struct {
		Pod    sk.PodDump  `json:"pod"`
		Relax  bool        `json:"relaxMinValues"`
		Result interface{} `json:"result"`
	}
	var steps []string
	var js []stepJ
	nsteps := r.Range(1, 5)
	okCount := 0
	for i := 0; i < nsteps; i++ {
		p := sk.GenPod(r, fmt.Sprintf("p%d", i), w, sk.GenOpts{NoTopology: true})
		if r.Chance(1, 5) {
			sk.UseDeprecatedKeys(p)
		}
		if withVols && r.Chance(1, 2) {
			sk.AttachVolumes(r, w, p)
			applyVolumes(ctx, cl, w)
		}
		d := dumpPodK(p)
		q := p.DeepCopy()
		pd := podData(q, all)
		withVolumes(ctx, cl, q, pd, &d)
		if len(d.VAlts) > 0 {
			c.Count(fmt.Sprintf("A.nc.volume-alternatives=%d", min(len(d.VAlts), 3)))
		}
		relax := bestEffort && len(nc.Pods) == 0
		// branch counters of filterInstanceTypesByRequirements, taken before the call
		hp := scheduling.GetHostPorts(q)
		for _, g := range nc.VerifC01DaemonGroups() {
			if g.HostPortUsage.Conflicts(q, hp) != nil {
				c.Count("A.filter.branch.group-skipped-port-conflict")
			} else if len(g.DaemonOverhead) == 0 {
				c.Count("A.filter.branch.group-without-overhead")
			} else {
				c.Count("A.filter.branch.group-with-overhead")
			}
		}
		before := len(nc.InstanceTypeOptions)
		reqs, its, ofs, res, err := nc.CanAdd(ctx, q, pd, relax, nil)
		var obs string
		var jr interface{}
		if err != nil {
			cls := errClassNC(err)
			c.Count("A.nc." + strings.SplitN(cls, "(", 2)[0])
			obs = "(NErr " + cls + ")"
			jr = map[string]string{"error": cls, "message": err.Error()}
		} else {
			if len(its) < before {
				c.Count("A.nc.options-narrowed")
			}
			if relax && reqs.HasMinValues() {
				for k, r := range reqs {
					if o := nct.Requirements.Get(k).MinValues; o != nil && r.MinValues != nil && *r.MinValues < *o {
						c.Count("A.nc.minValues-relaxed")
					}
				}
			}
			nc.Add(ctx, q, pd, reqs, its, ofs, res, nil)
			okCount++
			c.Count("A.nc.ok")
			obs = fmt.Sprintf("(NOk %s %s %s)", gReqs(sk.DumpReqs(reqs)), gss(names(its)), gRL(sk.Milli(nc.Spec.Resources.Requests)))
			jr = map[string]interface{}{"requirements": sk.DumpReqs(reqs), "instanceTypes": names(its), "requests": sk.Milli(nc.Spec.Resources.Requests)}
		}
		steps = append(steps, fmt.Sprintf("(%s, %s, %s)", gVPod(d), kit.GBool(relax), obs))
		js = append(js, stepJ{Pod: d, Relax: relax, Result: jr})
	}
	c.Count(fmt.Sprintf("A.nc.pods-on-claim=%d", okCount))
	c.AddCase(fmt.Sprintf("(CNC %s %s %s %s %s)", gWK(wk), kit.GListOf(cat, gIT), kit.GBool(all), n0, kit.GList(steps)),
		map[string]interface{}{"kind": "NodeClaim.CanAdd/Add", "respectPreferences": all, "bestEffortMinValues": bestEffort, "catalog": cat,
			"templateRequirements": sk.DumpReqs(nc.Requirements), "taints": sk.DumpTaints(nc.Spec.Taints), "groups": dumpGroups(groups), "steps": js},
		fmt.Sprintf("nc|%s", strings.Join(steps, "|")))
}

func namesUnsorted(its []*cloudprovider.InstanceType) []string {
	out := []string{}
	for _, it := range its {
		out = append(out, it.Name)
	}
	return out
}

func emitFilter(c *kit.Ctx, wk []string, cat []sk.ITDump, elig []string, reqs sk.Reqs, who string, ports []sk.HostPort, groups []groupDump, total sk.RL, relax bool,
	rem []*cloudprovider.InstanceType, unsat map[string]int, isErr, mvErr bool) {
	e := "None"
	if isErr {
		e = "(Some " + kit.GBool(mvErr) + ")"
	}
	var us []string
	for _, k := range kit.SortedKeys(unsat) {
		us = append(us, kit.GPair(gs(k), kit.GZ(int64(unsat[k]))))
	}
	c.Count(fmt.Sprintf("A.filter.err=%v.minValues=%v", isErr, mvErr))
	c.AddCase(fmt.Sprintf("(CFilter %s %s %s %s %s %s %s %s %s %s %s %s)", gWK(wk), kit.GListOf(cat, gIT), gss(elig), gReqs(reqs), gs(who), kit.GListOf(ports, gHP),
		kit.GListOf(groups, gGroup), gRL(total), kit.GBool(relax), gss(names(rem)), kit.GList(us), e),
		map[string]interface{}{"kind": "filterInstanceTypesByRequirements", "requirements": reqs, "groups": groups, "total": total, "relaxMinValues": relax,
			"remaining": names(rem), "unsatisfiable": unsat, "error": isErr, "minValuesError": mvErr}, fmt.Sprintf("filter|%v|%v|%v", reqs, total, relax))
}

var wkCache []string

func wellKnown() []string {
	if wkCache == nil {
		for k := range v1.WellKnownLabels {
			wkCache = append(wkCache, k)
		}
		sort.Strings(wkCache)
	}
	return wkCache
}

// ------------------------------------------------------------------ A8: ExistingNode (NewExistingNode, CanAdd/Add)

func errClassEX(err error) string {
	s := err.Error()
	switch {
	case strings.Contains(s, "did not tolerate taint"):
		return "ETaints"
	case strings.HasPrefix(s, "checking host port usage"):
		return "EPorts"
	case s == "exceeds node resources":
		return "EResources"
	case strings.HasPrefix(s, "checking volume usage"):
		return "EVolumes"
	case strings.HasPrefix(s, "incompatible volume requirements"):
		return "EVolReqs"
	case strings.Contains(s, "does not have known values"), strings.HasPrefix(s, "key "):
		return "EReqs"
	}
	return "UNKNOWN(" + s + ")"
}

func caseEX(c *kit.Ctx, r *kit.Rand) {
	ctx := kit.Context()
	w := &sk.World{}
	w.Catalog = sk.GenCatalog(r, 3)
	w.Pools = sk.GenPools(r, 1, w.Catalog)
	for len(w.Nodes) == 0 {
		w.Nodes = sk.GenNodes(r, 1, w)
		if len(w.Nodes) > 0 && w.Nodes[0].Node == nil {
			w.Nodes = nil
		}
	}
	w.DaemonSets = sk.GenDaemonSets(r, r.Intn(3), w)
	sk.BindDaemonPods(r, w)
	if r.Chance(2, 3) {
		sk.GenVolumes(r, w, r.Range(2, 4))
		for _, b := range w.Nodes[0].Bound {
			if r.Bool() {
				sk.AttachVolumes(r, w, b)
			}
		}
	}
	out, err := sk.Run(&sk.World{StorageClasses: w.StorageClasses, Vols: w.Vols, VolOrder: w.VolOrder, CSILimits: w.CSILimits, Catalog: w.Catalog, Pools: w.Pools, Nodes: []*sk.NodeSpec{{Kind: "ready", Node: w.Nodes[0].Node, NodeClaim: w.Nodes[0].NodeClaim, Bound: w.Nodes[0].Bound, DSBound: w.Nodes[0].DSBound}},
		DaemonSets: w.DaemonSets, Pods: []*corev1.Pod{sk.GenPod(r, "seed", w, sk.GenOpts{NoTopology: true})}}, sk.RunCfg{Workers: 1})
	if err != nil {
		panic(err)
	}
	nodes := out.Cluster.DeepCopyNodes().Active()
	if len(nodes) != 1 {
		c.Count("A.ex.skipped")
		return
	}
	sn := nodes[0]
	all := r.Bool()
	topo, err := psched.NewTopology(ctx, out.Client, out.Cluster, nil, w.Pools, map[string][]*cloudprovider.InstanceType{}, nil)
	if err != nil {
		panic(err)
	}
	// daemon resources handed to NewExistingNode: the sum over a random subset of the daemonsets
	var dpods []*corev1.Pod
	for _, ds := range w.DaemonSets {
		if r.Chance(2, 3) {
			dpods = append(dpods, daemonset.PodForDaemonSet(ds))
		}
	}
	daemonTotal := resources.RequestsForPods(dpods...)
	avail, dsSched := sk.Milli(sn.Available()), sk.Milli(sn.DaemonSetRequests())
	dt := sk.Milli(daemonTotal)
	en := psched.NewExistingNode(sn, topo, sn.Taints(), daemonTotal, nil, false)
	rem0 := sk.Milli(en.VerifC01Remaining())
	c.Count(fmt.Sprintf("A.newexisting.daemons=%d.scheduled=%v", len(dpods), len(dsSched) > 1))
	c.AddCase(fmt.Sprintf("(CNewEx %s %s %s %s)", gRL(avail), gRL(dt), gRL(dsSched), gRL(rem0)),
		map[string]interface{}{"kind": "NewExistingNode", "available": avail, "daemonTotal": dt, "daemonSetRequestsOnNode": dsSched, "remaining": rem0}, fmt.Sprintf("newex|%v|%v|%v", avail, dt, dsSched))

	union, _, vlim := sn.VolumeUsage().VerifC11Dump()
	var usedVols [][2]string
	for _, u := range union {
		parts := strings.SplitN(u, "|", 2)
		usedVols = append(usedVols, [2]string{parts[0], parts[1]})
	}
	limits := map[string]int64{}
	for k, v := range vlim {
		limits[k] = int64(v)
	}
	n0 := fmt.Sprintf("(mkVEN (mkEN %s %s %s %s []) %s %s)", kit.GListOf(sk.DumpTaints(en.VerifC01Taints()), gTaint), gReqs(sk.DumpReqs(en.VerifC01Requirements())), gRL(rem0), gUsage(dumpUsage(sn.HostPortUsage())),
		kit.GListOf(usedVols, func(p [2]string) string { return kit.GPair(gs(p[0]), gs(p[1])) }), gLimits(limits))
	var steps []string
	var js []interface{}
	okCount := 0
	for i := 0; i < r.Range(1, 5); i++ {
		p := sk.GenPod(r, fmt.Sprintf("p%d", i), w, sk.GenOpts{NoTopology: true})
		if r.Chance(1, 2) { // make the pod likelier to fit this node
			p.Spec.Tolerations = append(p.Spec.Tolerations, corev1.Toleration{Operator: corev1.TolerationOpExists})
			p.Spec.Containers[0].Resources.Requests = sk.RLOf(int64(kit.Pick(r, []int{100, 250, 500})), 64, -1)
			p.Spec.InitContainers = nil
		}
		if len(w.VolOrder) > 0 && r.Chance(1, 2) {
			sk.AttachVolumes(r, w, p)
		}
		d := dumpPodK(p)
		q := p.DeepCopy()
		pd := podData(q, all)
		vols := withVolumes(ctx, out.Client, q, pd, &d)
		reqs, _, err := en.CanAdd(ctx, q, pd, vols, nil)
		var obs string
		if err != nil {
			cls := errClassEX(err)
			c.Count("A.ex." + strings.SplitN(cls, "(", 2)[0])
			obs = "(EErr " + cls + ")"
			js = append(js, map[string]interface{}{"pod": d, "error": cls, "message": err.Error()})
		} else {
			en.Add(ctx, q, pd, reqs, vols, nil)
			okCount++
			c.Count("A.ex.ok")
			obs = fmt.Sprintf("(EOk %s %s)", gReqs(sk.DumpReqs(reqs)), gRL(sk.Milli(en.VerifC01Remaining())))
			js = append(js, map[string]interface{}{"pod": d, "requirements": sk.DumpReqs(reqs), "remaining": sk.Milli(en.VerifC01Remaining())})
		}
		steps = append(steps, fmt.Sprintf("(%s, %s)", gVPod(d), obs))
	}
	c.Count(fmt.Sprintf("A.ex.pods-on-node=%d", okCount))
	c.AddCase(fmt.Sprintf("(CEX %s %s %s)", kit.GBool(all), n0, kit.GList(steps)),
		map[string]interface{}{"kind": "ExistingNode.CanAdd/Add", "respectPreferences": all, "labels": sn.Labels(), "taints": sk.DumpTaints(en.VerifC01Taints()), "remaining": rem0, "steps": js},
		fmt.Sprintf("ex|%s|%s", n0, strings.Join(steps, "|")))
}
