// Package c17 drives the real ReservationManager, the real NodeClaim.CanAdd/Add/FinalizeScheduling, the real
// Scheduler.Solve with reserved offerings shared across NodePools, and the real DRA AllocationTracker, and writes
// what they did as Gallina cases.
package main

import (
	"fmt"
	"os"
	"sort"

	corev1 "k8s.io/api/core/v1"

	v1 "sigs.k8s.io/karpenter/pkg/apis/v1"
	"sigs.k8s.io/karpenter/pkg/cloudprovider"
	_ "sigs.k8s.io/karpenter/pkg/cloudprovider/fake" // registers the reservation-id label
	sched "sigs.k8s.io/karpenter/pkg/controllers/provisioning/scheduling"
	"sigs.k8s.io/karpenter/pkg/scheduling"
	"sigs.k8s.io/karpenter/pkg/test/v1alpha1"

	"verifharness/kit"
)

// ------------------------------------------------------------------ shared rendering

type off3 struct {
	CT  string `json:"ct"`
	RID string `json:"rid"`
	Cap int    `json:"cap"`
}

func gOff3(o off3) string {
	return fmt.Sprintf("(%s, %s, %s)", kit.GStr(o.CT), kit.GStr(o.RID), kit.GZ(int64(o.Cap)))
}

// snapshot of the manager's maps; rename maps real hostnames to the model's names.
type snap struct {
	Caps map[string]int      `json:"caps"`
	Held map[string][]string `json:"held"`
}

func takeSnap(rm *sched.ReservationManager, rename func(string) string) snap {
	caps, held := rm.VerifC17Snapshot()
	out := snap{Caps: caps, Held: map[string][]string{}}
	for h, ids := range held {
		out.Held[rename(h)] = ids
	}
	return out
}

func gSnap(s snap) string {
	var caps, held []string
	for _, k := range kit.SortedKeys(s.Caps) {
		caps = append(caps, kit.GPair(kit.GStr(k), kit.GZ(int64(s.Caps[k]))))
	}
	for _, h := range kit.SortedKeys(s.Held) {
		for _, r := range s.Held[h] {
			held = append(held, kit.GPair(kit.GStr(h), kit.GStr(r)))
		}
	}
	return kit.GPair(kit.GList(caps), kit.GList(held))
}

func reservedOffering(zone, rid string, capacity int, available bool) *cloudprovider.Offering {
	return &cloudprovider.Offering{
		Available:           available,
		ReservationCapacity: capacity,
		Price:               0.001,
		Requirements: scheduling.NewLabelRequirements(map[string]string{
			v1.CapacityTypeLabelKey:     v1.CapacityTypeReserved,
			corev1.LabelTopologyZone:    zone,
			v1alpha1.LabelReservationID: rid,
		}),
	}
}

func plainOffering(zone, ct string, available bool, price float64) *cloudprovider.Offering {
	return &cloudprovider.Offering{
		Available: available,
		Price:     price,
		Requirements: scheduling.NewLabelRequirements(map[string]string{
			v1.CapacityTypeLabelKey:  ct,
			corev1.LabelTopologyZone: zone,
		}),
	}
}

// ------------------------------------------------------------------ part M: the manager alone

type mcase struct {
	Kind string   `json:"kind"`
	Offs []off3   `json:"offerings"`
	Ops  []string `json:"ops"`
	Obs  []string `json:"obs"`
}

func runM(c *kit.Ctx, r *kit.Rand, exhaustiveOps []int) {
	hosts := []string{"h1", "h2", "h3"}
	rids := []string{"r1", "r2", "r3"}
	// catalogue: reserved offerings (duplicates of an id with different capacities), some non-reserved
	var offs []off3
	n := r.Range(2, 6)
	for i := 0; i < n; i++ {
		switch {
		case r.Chance(1, 6):
			offs = append(offs, off3{kit.Pick(r, []string{"on-demand", "spot"}), "", r.Range(0, 3)})
		case r.Chance(1, 25):
			offs = append(offs, off3{"reserved", kit.Pick(r, rids), -1})
		default:
			offs = append(offs, off3{"reserved", kit.Pick(r, rids[:2+r.Intn(2)]), r.Range(0, 3)})
		}
	}
	its := map[string][]*cloudprovider.InstanceType{}
	seen := map[string]int{}
	for i, o := range offs {
		var of *cloudprovider.Offering
		if o.CT == "reserved" {
			of = reservedOffering("z1", o.RID, o.Cap, r.Chance(4, 5))
			if prev, ok := seen[o.RID]; ok && prev != o.Cap {
				c.Count("M:new:duplicate-id-different-capacity")
			}
			seen[o.RID] = o.Cap
		} else {
			of = plainOffering("z1", o.CT, true, 1)
			of.ReservationCapacity = o.Cap
			c.Count("M:new:non-reserved-offering-skipped")
		}
		pool := fmt.Sprintf("pool%d", i%2)
		its[pool] = append(its[pool], &cloudprovider.InstanceType{Name: fmt.Sprintf("it%d", i), Offerings: cloudprovider.Offerings{of}})
	}
	rm := sched.NewReservationManager(its)
	offering := func(rid string) *cloudprovider.Offering { return reservedOffering("z1", rid, 99, true) }
	ident := func(s string) string { return s }

	var gops, gobs, jops, jobs []string
	emit := func(gop, jop, gout string) {
		gops = append(gops, gop)
		jops = append(jops, jop)
		gobs = append(gobs, kit.GPair(gout, gSnap(takeSnap(rm, ident))))
		jobs = append(jobs, gout)
	}
	known := []string{}
	for _, id := range rids {
		if _, ok := seen[id]; ok {
			known = append(known, id)
		}
	}
	if len(known) == 0 {
		known = rids
	}
	pickRid := func() string {
		if r.Chance(1, 120) {
			return kit.Pick(r, []string{"rx", "r3"}) // possibly not in the catalogue: exercises the panic branches
		}
		return kit.Pick(r, known)
	}
	panicked := false
	doCan := func(h, id string) (bool, bool) {
		var b bool
		p, _ := kit.Recover(func() { b = rm.CanReserve(h, offering(id)) })
		caps, held := rm.VerifC17Snapshot()
		switch {
		case p:
			c.Count("M:can:panic-unknown-id")
		case b && contains(held[h], id):
			c.Count("M:can:true-already-held")
		case b:
			c.Count("M:can:true-capacity-left")
		default:
			_ = caps
			c.Count("M:can:false-exhausted")
		}
		if p {
			emit(fmt.Sprintf("MCan %s %s", kit.GStr(h), kit.GStr(id)), "can "+h+" "+id, "OPanic")
			return false, true
		}
		emit(fmt.Sprintf("MCan %s %s", kit.GStr(h), kit.GStr(id)), "can "+h+" "+id, "OBool "+kit.GBool(b))
		return b, false
	}
	doReserve := func(h string, ids []string) bool {
		_, held := rm.VerifC17Snapshot()
		for _, id := range ids {
			if contains(held[h], id) {
				c.Count("M:reserve:idempotent")
			} else {
				c.Count("M:reserve:new")
			}
		}
		p, _ := kit.Recover(func() {
			ofs := make([]*cloudprovider.Offering, len(ids))
			for i, id := range ids {
				ofs[i] = offering(id)
			}
			rm.Reserve(h, ofs...)
		})
		gop := fmt.Sprintf("MReserve %s %s", kit.GStr(h), kit.GStrs(ids))
		if p {
			c.Count("M:reserve:panic")
			emit(gop, fmt.Sprint("reserve ", h, ids), "OPanic")
			return true
		}
		emit(gop, fmt.Sprint("reserve ", h, ids), "OUnit")
		return false
	}
	nOps := r.Range(4, 18)
	if exhaustiveOps != nil {
		nOps = len(exhaustiveOps)
	}
	for i := 0; i < nOps && !panicked; i++ {
		h := kit.Pick(r, hosts)
		k := r.Intn(100)
		if exhaustiveOps != nil {
			k = exhaustiveOps[i]
		}
		switch {
		case k < 40: // guarded reservation, as offeringsToReserve + Add do it
			var ids []string
			for j, m := 0, r.Range(1, 3); j < m && !panicked; j++ {
				id := pickRid()
				ok, p := doCan(h, id)
				panicked = p
				if ok {
					ids = append(ids, id)
				}
			}
			if !panicked {
				panicked = doReserve(h, ids)
			}
		case k < 46: // unguarded
			ids := []string{pickRid()}
			if r.Chance(1, 3) {
				ids = append(ids, pickRid())
			}
			panicked = doReserve(h, ids)
		case k < 80:
			ids := []string{pickRid()}
			for r.Chance(1, 3) {
				ids = append(ids, pickRid())
			}
			_, held := rm.VerifC17Snapshot()
			for _, id := range ids {
				if contains(held[h], id) {
					c.Count("M:release:held")
				} else {
					c.Count("M:release:no-op")
				}
			}
			ofs := make([]*cloudprovider.Offering, len(ids))
			for i, id := range ids {
				ofs[i] = offering(id)
			}
			rm.Release(h, ofs...)
			emit(fmt.Sprintf("MRelease %s %s", kit.GStr(h), kit.GStrs(ids)), fmt.Sprint("release ", h, ids), "OUnit")
		case k < 88:
			id := pickRid()
			b := rm.HasReservation(h, offering(id))
			emit(fmt.Sprintf("MHas %s %s", kit.GStr(h), kit.GStr(id)), "has "+h+" "+id, "OBool "+kit.GBool(b))
		case k < 94:
			id := pickRid()
			z := rm.RemainingCapacity(offering(id))
			emit(fmt.Sprintf("MRemaining %s", kit.GStr(id)), "remaining "+id, "OZ "+kit.GZ(int64(z)))
		default:
			_, p := doCan(h, pickRid())
			panicked = p
		}
	}
	key := ""
	if len(gops) >= 4 {
		key = "M:" + fmt.Sprint(offs, jops)
	}
	for i := range gops {
		gops[i] = "(" + gops[i] + ")"
	}
	c.AddCase(fmt.Sprintf("CaseM %s %s %s", kit.GListOf(offs, gOff3), kit.GList(gops), kit.GList(gobs)),
		mcase{"manager", offs, jops, jobs}, key)
}

func contains(l []string, x string) bool {
	for _, y := range l {
		if x == y {
			return true
		}
	}
	return false
}

func sortedCopy(l []string) []string {
	o := append([]string{}, l...)
	sort.Strings(o)
	return o
}

func main() {
	if os.Getenv("VERIF_C17_REPRO") != "" {
		reproSharedMigratingClaim()
		return
	}
	c := kit.Parse("C17", os.Args[1:])
	c.Meta.Rule = "real ReservationManager on guarded/unguarded op sequences (exact, snapshot after every op); real NodeClaim.CanAdd/Add/FinalizeScheduling on generated claim/pod sequences over catalogues with reservation ids shared across NodePools (exact on outcome, offerings to reserve, remaining instance types, manager maps, pinning); real Scheduler.Solve in strict and fallback mode at 1 and 4 workers (oracle on Results + manager, capacity equation); real AllocationTracker on commit/release sequences (exact) "
	c.Meta.Corr = []string{
		"NewReservationManager = new_manager", "ReservationManager.CanReserve = can_reserve", "ReservationManager.Reserve = reserve",
		"ReservationManager.Release = release", "ReservationManager.HasReservation/RemainingCapacity = has_reservation/remaining_capacity",
		"NodeClaim.CanAdd (offeringsToReserve) = fstep/offerings_to_reserve", "NodeClaim.Add (Reserve, releaseReservedOfferings) = claim_add",
		"NodeClaim.FinalizeScheduling (reservation pinning) = pin", "Scheduler.Solve final manager state = cap0 - holders",
		"Scheduler.addToNewNodeClaim template choice = choose_template",
		"AllocationTracker.Commit/ReleaseInstanceTypes/IsAllocated (exclusive devices) = dcommit/drelease/dis_allocated",
		"AllocationTracker commitCounters/releaseCounters/commitCapacity/releaseCapacity (pessimistic maximum) = lcommit/lrelease",
		"AllocationTracker template counters / template capacity = tcommit/trelease",
		"Allocator.Allocate proposals satisfy the tracker model's guard (guarded, lguard_b); Commit/ReleaseInstanceType = xstep",
		"computeConsumedCapacity (request policy) = consumed_capacity/violates_policy",
	}
	nM, nN, nS, nT := 400, 450, 210, 200
	nA, nB, nP, nD := 150, 150, 200, 60
	if c.Thorough() {
		nM, nN, nS, nT = 2000, 2500, 900, 1000
		nA, nB, nP, nD = 500, 500, 800, 300
	}
	for i := 0; i < nM; i++ {
		runM(c, c.Rand.Fork(), nil)
	}
	for i := 0; i < nN; i++ {
		runN(c, c.Rand.Fork(), i)
	}
	for i := 0; i < nS; i++ {
		runS(c, c.Rand.Fork(), i)
	}
	for i := 0; i < nT; i++ {
		runT(c, c.Rand.Fork(), i)
	}
	for i := 0; i < nA; i++ {
		runA(c, c.Rand.Fork(), i)
	}
	for i := 0; i < nB; i++ {
		runB(c, c.Rand.Fork(), i)
	}
	for i := 0; i < nP; i++ {
		runP(c, c.Rand.Fork(), i)
	}
	for i := 0; i < nD; i++ {
		runD(c, c.Rand.Fork(), i)
	}
	c.Meta.Extra = map[string]interface{}{
		"assumptions": []string{
			"reservation capacities reported by the cloud provider are non-negative (cap0 >= 0)",
			"every reserved offering a NodeClaim sees belongs to the instance-type map the manager was built from (ids known)",
			"goroutine interleavings inside parallelizeUntil are not modelled (CanAdd is read-only on the manager); the harness runs Solve at 1 and 4 workers",
			"DRA: the allocator's search (CEL selectors, constraints, DFS order) is not modelled; every proposal it makes is validated against the tracker model and the final allocation records against the specification",
		},
	}
	c.Finish("From KV Require Import C17.Model C17.DraModel C17.DraSpec C17.Check.", "case", "check_all", 150)
}
