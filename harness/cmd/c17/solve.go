package main

import (
	"context"
	"fmt"
	"time"

	"github.com/samber/lo"
	corev1 "k8s.io/api/core/v1"
	"k8s.io/apimachinery/pkg/api/resource"
	metav1 "k8s.io/apimachinery/pkg/apis/meta/v1"
	"k8s.io/apimachinery/pkg/types"
	"k8s.io/apimachinery/pkg/util/sets"
	"k8s.io/client-go/tools/record"
	clock "k8s.io/utils/clock/testing"
	"sigs.k8s.io/controller-runtime/pkg/client/interceptor"

	v1 "sigs.k8s.io/karpenter/pkg/apis/v1"
	"sigs.k8s.io/karpenter/pkg/cloudprovider"
	"sigs.k8s.io/karpenter/pkg/cloudprovider/fake"
	"sigs.k8s.io/karpenter/pkg/controllers/dynamicresources/deviceallocation"
	"sigs.k8s.io/karpenter/pkg/controllers/provisioning"
	sched "sigs.k8s.io/karpenter/pkg/controllers/provisioning/scheduling"
	"sigs.k8s.io/karpenter/pkg/controllers/state"
	"sigs.k8s.io/karpenter/pkg/events"
	"sigs.k8s.io/karpenter/pkg/scheduling"
	"sigs.k8s.io/karpenter/pkg/state/virtualpods"
	"sigs.k8s.io/karpenter/pkg/test"
	"sigs.k8s.io/karpenter/pkg/test/v1alpha1"
	"sigs.k8s.io/karpenter/pkg/utils/resources"

	"verifharness/kit"
)

// ------------------------------------------------------------------ part S: one real scheduling pass

type jPod struct {
	Req  jReq   `json:"requirements"`
	CPU  string `json:"cpu"`
	Anti bool   `json:"hostname_anti_affinity,omitempty"`
	DRA  bool   `json:"has_resource_claim,omitempty"`
}
type jClaim struct {
	Host     string   `json:"claim"`
	Pool     string   `json:"pool"`
	Pods     int      `json:"pods"`
	Pinned   []string `json:"pinned_reservation_ids"`
	IsPinned bool     `json:"pinned"`
	CTOnly   bool     `json:"capacity_type_reserved_only"`
	Cands    []string `json:"compatible_reserved_offerings_left"`
}
type scase struct {
	Kind    string   `json:"kind"`
	KfKey   string   `json:"kf_key,omitempty"`
	Strict  bool     `json:"strict"`
	Workers int      `json:"workers"`
	Tpls    []jTpl   `json:"templates"`
	Pods    []jPod   `json:"pods"`
	Claims  []jClaim `json:"new_nodeclaims"`
	Snap    snap     `json:"manager_after_solve"`
	ROE     int      `json:"reserved_offering_errors"`
	Errors  int      `json:"pod_errors"`
	Chosen  *int     `json:"chosen_template,omitempty"`
	PerTpl  []string `json:"per_template_outcome,omitempty"`
	Failure string   `json:"failure,omitempty"`
}

type solveEnv struct {
	ctx   context.Context
	s     *sched.Scheduler
	pods  []*corev1.Pod
	itMap map[string][]*cloudprovider.InstanceType
}

func smallResources() corev1.ResourceList {
	return corev1.ResourceList{corev1.ResourceCPU: resource.MustParse("4"), corev1.ResourceMemory: resource.MustParse("64Gi"), corev1.ResourcePods: resource.MustParse("50")}
}

func setupSolve(tpls []jTpl, jpods []jPod, strict bool, workers int) *solveEnv {
	ctx := kit.Context()
	clk := clock.NewFakeClock(time.Unix(1_700_000_000, 0))
	cl := kit.NewClient(interceptor.Funcs{})
	cp := fake.NewCloudProvider()
	cp.InstanceTypesForNodePool = map[string][]*cloudprovider.InstanceType{}
	itMap := map[string][]*cloudprovider.InstanceType{}
	for i, t := range tpls {
		np := realPool(t, int32(100-i))
		kit.Apply(ctx, cl, np)
		for _, it := range t.ITs {
			itMap[t.Pool] = append(itMap[t.Pool], realIT(it, smallResources()))
		}
		cp.InstanceTypesForNodePool[t.Pool] = itMap[t.Pool]
	}
	cluster := state.NewCluster(clk, cl, cp)
	prov := provisioning.NewProvisioner(cl, events.NewRecorder(&record.FakeRecorder{}), cp, cluster, clk, deviceallocation.NewController(cl), virtualpods.NewVirtualPodCache(cl))
	var pods []*corev1.Pod
	for i, jp := range jpods {
		opts := test.PodOptions{
			ObjectMeta:           metav1.ObjectMeta{Name: fmt.Sprintf("p%d", i), UID: types.UID(fmt.Sprintf("uid-p%d", i))},
			NodeRequirements:     reqSelectors(jp.Req),
			ResourceRequirements: corev1.ResourceRequirements{Requests: corev1.ResourceList{corev1.ResourceCPU: resource.MustParse(jp.CPU)}},
		}
		if jp.Anti {
			opts.Labels = map[string]string{"app": "spread"}
			opts.PodAntiRequirements = []corev1.PodAffinityTerm{{TopologyKey: corev1.LabelHostname, LabelSelector: &metav1.LabelSelector{MatchLabels: map[string]string{"app": "spread"}}}}
		}
		if jp.DRA { // DRA requests are ignored in this configuration: the pod must be refused, never placed
			opts.ResourceClaims = []corev1.PodResourceClaim{{Name: "dev", ResourceClaimName: lo.ToPtr("some-claim")}}
		}
		p := test.UnschedulablePod(opts)
		kit.Apply(ctx, cl, p)
		pods = append(pods, p)
	}
	var opts []sched.Options
	if strict {
		opts = append(opts, sched.DisableReservedCapacityFallback)
	}
	opts = append(opts, sched.NumConcurrentReconciles(workers))
	s, err := prov.NewScheduler(ctx, pods, nil, sets.New[types.UID](), opts...)
	if err != nil {
		panic(err)
	}
	return &solveEnv{ctx: ctx, s: s, pods: pods, itMap: itMap}
}

// templateOutcome runs the real CanAdd for pod p alone on a fresh NodeClaim of template t against a fresh manager.
func templateOutcome(e *solveEnv, t *sched.NodeClaimTemplate, p *corev1.Pod, strict bool) string {
	rm := sched.NewReservationManager(e.itMap)
	nc := sched.NewNodeClaim(t, e.s.VerifC17Topology(), e.s.VerifC17DaemonOverheadGroups(t), t.InstanceTypeOptions, rm,
		lo.Ternary(strict, sched.ReservedOfferingModeStrict, sched.ReservedOfferingModeFallback))
	reqs := scheduling.NewPodRequirements(p)
	pd := &sched.PodData{Requests: resources.RequestsForPods(p), Requirements: reqs, StrictRequirements: reqs}
	_, _, _, _, err := nc.CanAdd(e.ctx, p, pd, false, nil)
	switch {
	case err == nil:
		return "TOk"
	case sched.IsReservedOfferingError(err):
		return "TReserved"
	}
	return "TOther"
}

func runS(c *kit.Ctx, r *kit.Rand, idx int) {
	strict := idx%2 == 0
	workers := lo.Ternary(idx%4 < 2, 1, 4)
	single := idx%3 == 2 // single-pod batches give the exact template-choice differential
	tpls := genCatalogue(r, true, lo.Ternary(single, 4, 2))
	nPods := r.Range(2, 8)
	if single {
		nPods = 1
	}
	anti := !single && r.Chance(1, 3)
	var jpods []jPod
	for i := 0; i < nPods; i++ {
		jpods = append(jpods, jPod{Req: genReq(r, r.Bool()), CPU: kit.Pick(r, []string{"500m", "1", "2", "3"}), Anti: anti, DRA: !single && r.Chance(1, 12)})
	}
	sc := scase{Kind: "solve", Strict: strict, Workers: workers, Tpls: tpls, Pods: jpods}
	e := setupSolve(tpls, jpods, strict, workers)
	var results sched.Results
	p, msg := kit.Recover(func() {
		sctx, cancel := context.WithTimeout(e.ctx, time.Minute)
		defer cancel()
		var err error
		results, err = e.s.Solve(sctx, e.pods)
		if err != nil {
			panic(err)
		}
	})
	if p {
		sc.Failure = "panic in Solve: " + msg
		c.Count("S:panic")
		id := c.AddCase("CaseS Fallback [] [] ([], [])", sc, "")
		c.Fail(id, sc.Failure, "", sc)
		return
	}
	rm := e.s.VerifC17ReservationManager()
	hostIdx := map[string]string{}
	templates := e.s.VerifC17Templates()
	tplIdx := map[string]int{}
	for i, t := range templates {
		tplIdx[t.NodePoolName] = i
	}
	var gclaims []string
	anyPinned, anyFallback := false, false
	_, heldByHost := rm.VerifC17Snapshot()
	for k, nc := range results.NewNodeClaims {
		name := fmt.Sprintf("c%d", k)
		hostIdx[nc.VerifC17Hostname()] = name
		jc := jClaim{Host: name, Pool: nc.NodePoolName, Pods: len(nc.Pods), Pinned: []string{}, Cands: []string{}}
		jc.IsPinned = nc.Requirements.Has(v1alpha1.LabelReservationID)
		if jc.IsPinned {
			jc.Pinned = admitted(nc.Requirements.Get(v1alpha1.LabelReservationID), tpls)
		}
		holding := len(heldByHost[nc.VerifC17Hostname()]) > 0
		explicit := false
		for _, p := range nc.Pods {
			if scheduling.NewPodRequirements(p).Has(v1alpha1.LabelReservationID) {
				explicit = true
			}
		}
		switch {
		case holding:
			anyPinned = true
			c.Count("S:claim:pinned")
			if explicit {
				c.Count("S:claim:pinned-under-an-explicit-reservation-id-requirement")
			}
		default:
			jc.Cands = implCands(nc.InstanceTypeOptions, nc.Requirements)
			if len(jc.Cands) > 0 {
				anyFallback = true
				c.Count("S:claim:not-pinned-compatible-reserved-exhausted")
			} else {
				c.Count("S:claim:not-pinned-no-compatible-reserved")
			}
		}
		ct := nc.Requirements.Get(v1.CapacityTypeLabelKey)
		jc.CTOnly = nc.Requirements.Has(v1.CapacityTypeLabelKey) && ct.Operator() == corev1.NodeSelectorOpIn && ct.Len() == 1 && ct.Has(v1.CapacityTypeReserved)
		sc.Claims = append(sc.Claims, jc)
		gclaims = append(gclaims, fmt.Sprintf("(%s, %s, %s, %s)", kit.GStr(name), kit.GOpt(jc.IsPinned, kit.GStrs(jc.Pinned)), kit.GBool(jc.CTOnly), kit.GStrs(jc.Cands)))
	}
	sc.Snap = takeSnap(rm, func(h string) string {
		if n, ok := hostIdx[h]; ok {
			return n
		}
		return h
	})
	sc.Errors = len(results.PodErrors)
	sc.ROE = len(results.ReservedOfferingErrors())
	if sc.ROE > 0 {
		c.Count("S:pods:deferred-with-reserved-offering-error")
	}
	if sc.Errors > sc.ROE {
		c.Count("S:pods:other-error")
	}
	if !strict && sc.ROE > 0 {
		c.Fail(c.NextID(), "reserved offering error in fallback mode", "", sc)
	}
	for _, nc := range results.NewNodeClaims {
		for _, q := range nc.Pods {
			if len(q.Spec.ResourceClaims) > 0 {
				c.Fail(c.NextID(), "a pod with a ResourceClaim was placed although DRA requests are ignored", "", sc)
			}
		}
	}
	if len(results.DRAErrors()) > 0 {
		c.Count("S:pods:refused-dra-requests-ignored")
	}
	// deferred pods are on no NodeClaim
	for pod := range results.ReservedOfferingErrors() {
		for _, nc := range results.NewNodeClaims {
			for _, q := range nc.Pods {
				if q.UID == pod.UID {
					c.Fail(c.NextID(), "pod has a reserved offering error and is placed on a NodeClaim", "", sc)
				}
			}
		}
	}
	// strict mode: the first pod of a NodeClaim never skipped a higher-weight template that offers it reserved capacity
	if strict && !anti {
		for _, nc := range results.NewNodeClaims {
			j := tplIdx[nc.NodePoolName]
			for i := 0; i < j; i++ {
				if out := templateOutcome(e, templates[i], nc.Pods[0], true); out != "TOther" {
					sc.Failure = fmt.Sprintf("strict mode: pod %s opened a NodeClaim of pool %s although the higher-weight pool %s answers %s", nc.Pods[0].Name, nc.NodePoolName, templates[i].NodePoolName, out)
					c.Fail(c.NextID(), sc.Failure, "", sc)
				}
			}
			if j > 0 {
				c.Count("S:strict:lower-weight-template-used-legitimately")
			}
		}
	}
	key := ""
	if len(results.NewNodeClaims) >= 2 && (anyPinned || anyFallback) {
		key = fmt.Sprintf("S:%v:%v:%v", strict, tpls, jpods)
	}
	c.Count(fmt.Sprintf("S:claims:%d", lo.Min([]int{len(results.NewNodeClaims), 5})))
	c.AddCase(fmt.Sprintf("CaseS %s %s %s %s", gMode(strict), kit.GListOf(allOffs(tpls), gOff3), kit.GList(gclaims), gSnap(sc.Snap)), sc, key)

	if single {
		// exact differential for the template choice of addToNewNodeClaim
		var outs []string
		for _, t := range templates {
			outs = append(outs, templateOutcome(e, t, e.pods[0], strict))
		}
		chosen := -1
		if len(results.NewNodeClaims) == 1 {
			chosen = tplIdx[results.NewNodeClaims[0].NodePoolName]
		}
		cc := scase{Kind: "template-choice", Strict: strict, Workers: workers, Tpls: tpls, Pods: jpods, PerTpl: outs, ROE: sc.ROE, Errors: sc.Errors}
		if chosen >= 0 {
			cc.Chosen = &chosen
		}
		switch {
		case chosen >= 0 && chosen > 0:
			c.Count("C:chosen-after-skipping-incompatible-templates")
		case chosen >= 0:
			c.Count("C:chosen-first")
		case sc.ROE == 1:
			c.Count("C:deferred-reserved-offering-error")
		default:
			c.Count("C:unschedulable")
		}
		c.AddCase(fmt.Sprintf("CaseC %s %s %s", kit.GList(outs), kit.GOpt(chosen >= 0, kit.GZ(int64(chosen))), kit.GBool(sc.ROE == 1)), cc, fmt.Sprintf("C:%v", outs))
	}
}
