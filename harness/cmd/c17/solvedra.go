package main

import (
	"context"
	"fmt"
	"sort"
	"time"
	"unique"

	"github.com/samber/lo"
	corev1 "k8s.io/api/core/v1"
	resourcev1 "k8s.io/api/resource/v1"
	"k8s.io/apimachinery/pkg/api/resource"
	metav1 "k8s.io/apimachinery/pkg/apis/meta/v1"
	"k8s.io/apimachinery/pkg/types"
	"k8s.io/apimachinery/pkg/util/sets"
	"k8s.io/client-go/tools/record"
	clock "k8s.io/utils/clock/testing"
	"sigs.k8s.io/controller-runtime/pkg/client/interceptor"

	v1 "sigs.k8s.io/karpenter/pkg/apis/v1"
	"sigs.k8s.io/karpenter/pkg/cloudprovider"
	"sigs.k8s.io/karpenter/pkg/cloudprovider/fake"
	"sigs.k8s.io/karpenter/pkg/controllers/dynamicresources/deviceallocation"
	"sigs.k8s.io/karpenter/pkg/controllers/provisioning"
	"sigs.k8s.io/karpenter/pkg/controllers/state"
	"sigs.k8s.io/karpenter/pkg/events"
	"sigs.k8s.io/karpenter/pkg/operator/options"
	dra "sigs.k8s.io/karpenter/pkg/scheduling/dynamicresources"
	"sigs.k8s.io/karpenter/pkg/state/virtualpods"
	"sigs.k8s.io/karpenter/pkg/test"

	"verifharness/kit"
)

// ------------------------------------------------------------------ part D: Scheduler.Solve with dynamic resource allocation enabled

type claimMeta struct {
	name string
	meta *dra.ResourceClaimAllocationMetadata
}

// finalRecords renders the per-claim, per-instance-type device allocations as Gallina records.
func finalRecords(w *draWorld, metas []claimMeta) ([]string, []map[string]any) {
	var grecs []string
	var jrecs []map[string]any
	for _, cm := range metas {
		for it, results := range cm.meta.Devices {
			for _, dr := range results {
				info := w.devs[dkey(dr.DeviceID.DeviceID, dr.DeviceID.Template)]
				uses := map[string]int64{}
				for k, v := range info.counters {
					uses[k] += v
				}
				for dim, q := range dr.ConsumedCapacity {
					uses[dra.VerifC17CapacityKey(dr.DeviceID, string(dim))] += q.Value()
				}
				grecs = append(grecs, fmt.Sprintf("(mkRec %s %s %s %s %s %s %s)", kit.GStr(cm.name), kit.GStr(cm.meta.NodeClaimID.Value()), kit.GStr(it.Value()),
					kit.GStr(dr.DeviceID.DeviceID.String()), kit.GBool(dr.DeviceID.Template), kit.GBool(info.excl), gKVs(uses)))
				jrecs = append(jrecs, map[string]any{"claim": cm.name, "nodeclaim": cm.meta.NodeClaimID.Value(), "instance_type": it.Value(),
					"device": dr.DeviceID.String(), "exclusive": info.excl, "uses": uses})
			}
		}
	}
	sort.Strings(grecs)
	return grecs, jrecs
}

func runD(c *kit.Ctx, r *kit.Rand, idx int) {
	ctx := options.ToContext(context.Background(), test.Options(test.OptionsFields{IgnoreDRARequests: lo.ToPtr(false)}))
	clk := clock.NewFakeClock(time.Unix(1_700_000_000, 0))
	cl := kit.NewClient(interceptor.Funcs{})
	cp := fake.NewCloudProvider()
	w := newDraWorld(r)
	for _, dc := range []struct{ name, driver string }{{"excl", exclDriver}, {"cap", capDriver}, {"part", partDriver}, {"gpu", test.GPUDriver}} {
		kit.Apply(ctx, cl, test.DeviceClassWithSelector(dc.name, dc.driver))
	}
	for _, s := range w.apiSlices {
		kit.Apply(ctx, cl, s)
	}
	cp.InstanceTypes = lo.Map(w.itNames, func(n string, _ int) *cloudprovider.InstanceType { return w.allITs[n] })
	np := test.NodePool(v1.NodePool{ObjectMeta: metav1.ObjectMeta{Name: "pool"}})
	np.Spec.Limits = nil
	kit.Apply(ctx, cl, np)
	cluster := state.NewCluster(clk, cl, cp)
	devCtl := deviceallocation.NewController(cl)
	prov := provisioning.NewProvisioner(cl, events.NewRecorder(&record.FakeRecorder{}), cp, cluster, clk, devCtl, virtualpods.NewVirtualPodCache(cl))
	// devices already allocated on the API server, as the deviceallocation controller reports them
	var pre []string
	preCap := int64(0)
	if r.Chance(1, 3) {
		dev := kit.Pick(r, w.exclNames)
		kit.Apply(ctx, cl, test.AllocatedClusterWideClaim("held-exclusive", "excl-pool", exclDriver, dev, resourcev1.ResourceClaimConsumerReference{Resource: "pods", Name: "running", UID: "running-pod"}))
		pre = append(pre, fmt.Sprintf("%s/excl-pool/%s", exclDriver, dev))
		c.Count("D:setup:exclusive-device-allocated-in-cluster")
	}
	if r.Chance(1, 3) {
		preCap = int64(r.Range(1, 3))
		kit.Apply(ctx, cl, test.AllocatedSharedClaim("held-shared", "cap-pool", capDriver, "shared0", map[resourcev1.QualifiedName]resource.Quantity{test.CapacityMemory: qty(preCap)},
			resourcev1.ResourceClaimConsumerReference{Resource: "pods", Name: "running", UID: "running-pod"}))
		c.Count("D:setup:shared-capacity-partly-consumed-in-cluster")
	}

	nPods := r.Range(2, 6)
	// two pods that are being moved off a deleting node share one claim that is allocated in-cluster and reserved only by them
	movingDev := ""
	if free := lo.Filter(w.exclNames, func(d string, _ int) bool { return !lo.Contains(pre, fmt.Sprintf("%s/excl-pool/%s", exclDriver, d)) }); len(free) > 0 && r.Chance(1, 4) {
		movingDev = kit.Pick(r, free)
		c.Count("D:setup:two-migrating-pods-share-an-allocated-claim")
	}
	var pods []*corev1.Pod
	var jpods []string
	var lastClaim string
	var podClaim []string
	for i := 0; i < nPods; i++ {
		claimName := fmt.Sprintf("claim%d", i)
		desc := ""
		switch {
		case movingDev != "" && i < 2:
			claimName, desc = "moving", "migrating, shares the in-cluster allocated claim 'moving'"
		case lastClaim != "" && r.Chance(1, 5): // two pods share one claim
			claimName, desc = lastClaim, "shares "+lastClaim
			c.Count("D:pod:shares-a-claim")
		case r.Chance(1, 12): // the claim does not exist (yet)
			desc = "claim missing"
			c.Count("D:pod:claim-missing")
		default:
			var req resourcev1.DeviceRequest
			switch r.Intn(7) {
			case 0, 1:
				cls, cnt := kit.Pick(r, []string{"excl", "gpu", "part"}), int64(r.Range(1, 2))
				req, desc = test.ExactDeviceRequest("r0", cls, cnt), fmt.Sprintf("exact %s x%d", cls, cnt)
			case 2, 3:
				cls, amt := kit.Pick(r, []string{"cap", "gpu"}), r.Range(1, 5)
				req, desc = test.ExactDeviceRequestWithCapacity("r0", cls, 1, test.CapacityRequest(fmt.Sprint(amt))), fmt.Sprintf("exact %s mem=%d", cls, amt)
			case 4:
				cls := kit.Pick(r, []string{"part", "gpu"})
				req, desc = test.AllDeviceRequest("r0", cls), "all "+cls
			case 5:
				req, desc = test.FirstAvailableDeviceRequest("r0", test.DeviceSubRequest("a", "gpu", 1), test.DeviceSubRequest("b", "excl", 1)), "first-available gpu | excl"
			default:
				req, desc = test.ExactDeviceRequest("r0", "part", 1), "exact part x1"
			}
			kit.Apply(ctx, cl, test.ResourceClaimForRequests(claimName, req))
			lastClaim = claimName
		}
		opts := test.PodOptions{
			ObjectMeta:           metav1.ObjectMeta{Name: fmt.Sprintf("p%d", i), Namespace: "default", UID: types.UID(fmt.Sprintf("uid-p%d", i))},
			ResourceClaims:       []corev1.PodResourceClaim{{Name: "dev", ResourceClaimName: lo.ToPtr(claimName)}},
			ResourceRequirements: corev1.ResourceRequirements{Requests: corev1.ResourceList{corev1.ResourceCPU: resource.MustParse(kit.Pick(r, []string{"500m", "1", "2"}))}},
		}
		viaTemplate := r.Chance(1, 5) // the claim was generated from a ResourceClaimTemplate: its name is in the pod status
		if viaTemplate {
			opts.ResourceClaims = []corev1.PodResourceClaim{{Name: "dev", ResourceClaimTemplateName: lo.ToPtr("tmpl")}}
		}
		if r.Chance(1, 4) {
			opts.NodeSelector = map[string]string{corev1.LabelTopologyZone: kit.Pick(r, []string{"test-zone-1", "test-zone-2", "test-zone-3"})}
			desc += " zone-pinned"
		}
		if r.Chance(1, 5) {
			opts.NodeSelector = lo.Assign(opts.NodeSelector, map[string]string{corev1.LabelInstanceTypeStable: kit.Pick(r, w.itNames)})
			desc += " instance-type-pinned"
		}
		p := test.UnschedulablePod(opts)
		if viaTemplate {
			if r.Chance(1, 4) {
				p.Status.ResourceClaimStatuses = []corev1.PodResourceClaimStatus{{Name: "dev"}} // not generated
				c.Count("D:pod:template-claim-not-generated")
			} else {
				p.Status.ResourceClaimStatuses = []corev1.PodResourceClaimStatus{{Name: "other"}, {Name: "dev", ResourceClaimName: lo.ToPtr(claimName)}}
				c.Count("D:pod:claim-from-template")
			}
		}
		kit.Apply(ctx, cl, p)
		pods = append(pods, p)
		podClaim = append(podClaim, claimName)
		jpods = append(jpods, desc)
	}
	deletingUIDs := sets.New[types.UID]()
	if movingDev != "" {
		moving := test.AllocatedClusterWideClaim("moving", "excl-pool", exclDriver, movingDev, test.PodConsumer(pods[0]), test.PodConsumer(pods[1]))
		moving.Spec.Devices.Requests = []resourcev1.DeviceRequest{test.ExactDeviceRequest("req", "excl", 1)}
		kit.Apply(ctx, cl, moving)
		deletingUIDs.Insert(pods[0].UID, pods[1].UID)
	}
	devCtl.Hydrate(ctx)
	s, err := prov.NewScheduler(ctx, pods, nil, deletingUIDs)
	if err != nil {
		panic(err)
	}
	sc := map[string]any{"kind": "solve-dra", "pods": jpods, "zoned_pool": w.zoned, "counter_total": w.counterTotal, "partition_costs": w.partCost,
		"shared_capacity": w.capTotal, "template_capacity": w.tmplCap, "template_counter": w.tmplCounter}
	var results = struct {
		claims map[types.NamespacedName]*dra.ResourceClaimAllocationMetadata
		ncs    int
		errs   int
	}{}
	p, msg := kit.Recover(func() {
		sctx, cancel := context.WithTimeout(ctx, time.Minute)
		defer cancel()
		res, err := s.Solve(sctx, pods)
		if err != nil {
			panic(err)
		}
		results.claims, results.ncs, results.errs = res.DRAClaimAllocationMetadata, len(res.NewNodeClaims), len(res.PodErrors)
		claimOf := map[string]string{} // pod name -> claim name, as the pod itself names it
		for _, p := range pods {
			pc := p.Spec.ResourceClaims[0]
			if pc.ResourceClaimName != nil {
				claimOf[p.Name] = *pc.ResourceClaimName
			}
			for _, st := range p.Status.ResourceClaimStatuses {
				if st.Name == pc.Name && st.ResourceClaimName != nil {
					claimOf[p.Name] = *st.ResourceClaimName
				}
			}
		}
		_ = podClaim
		for _, nc := range res.NewNodeClaims {
			for _, p := range nc.Pods {
				meta, ok := res.DRAClaimAllocationMetadata[types.NamespacedName{Namespace: "default", Name: claimOf[p.Name]}]
				if !ok {
					continue
				}
				// a claim satisfied with template devices lives on the NodeClaim it was allocated for
				if meta.UsedTemplateDevices && meta.NodeClaimID.Value() != nc.VerifC17Hostname() {
					c.Fail(c.NextID(), fmt.Sprintf("pod %s runs on NodeClaim %s but its claim %s is bound to template devices of NodeClaim %s", p.Name, nc.VerifC17Hostname(), claimOf[p.Name], meta.NodeClaimID.Value()), "", sc)
				}
				// every instance type the NodeClaim may launch with has devices for the claim
				if meta.NodeClaimID.Value() == nc.VerifC17Hostname() {
					for _, it := range nc.InstanceTypeOptions {
						if len(meta.Devices[unique.Make(it.Name)]) == 0 {
							c.Fail(c.NextID(), fmt.Sprintf("NodeClaim %s keeps instance type %s for which claim %s has no device allocation", nc.VerifC17Hostname(), it.Name, claimOf[p.Name]), "", sc)
						}
					}
				}
			}
		}
		for _, nc := range res.NewNodeClaims {
			if nc.Annotations[v1.DRADriversAnnotationKey] != "" {
				c.Count("D:nodeclaim:annotated-with-dra-drivers")
			}
			if len(nc.Pods) > 1 {
				c.Count("D:nodeclaim:several-dra-pods")
			}
		}
	})
	if p {
		c.Count("D:panic")
		id := c.AddCase("CaseF [] [] [] []", sc, "")
		c.Fail(id, "panic in Solve with DRA enabled: "+msg, "", sc)
		return
	}
	if results.errs > 0 {
		c.Count("D:pods:unschedulable")
	}
	var metas []claimMeta
	for k, m := range results.claims {
		metas = append(metas, claimMeta{k.Name, m})
		if m.UsedTemplateDevices {
			c.Count("D:claim:template-devices")
		} else {
			c.Count("D:claim:in-cluster-devices-only")
		}
		if len(m.Devices) > 1 {
			c.Count("D:claim:superposed-over-instance-types")
		}
	}
	grecs, jrecs := finalRecords(w, metas)
	sc["final_records"] = jrecs
	budgets := lo.Assign(map[string]int64{}, w.capTotals, map[string]int64{fmt.Sprintf("%s|part-pool|cs|slices", partDriver): w.counterTotal})
	for k := range budgets {
		if k == dra.VerifC17CapacityKey(dra.DeviceID{DeviceID: cloudprovider.DeviceID{Driver: unique.Make(capDriver), Pool: unique.Make("cap-pool"), Device: unique.Make("shared0")}}, string(test.CapacityMemory)) {
			budgets[k] -= preCap
		}
	}
	sharedKey := dra.VerifC17CapacityKey(dra.DeviceID{DeviceID: cloudprovider.DeviceID{Driver: unique.Make(capDriver), Pool: unique.Make("cap-pool"), Device: unique.Make("shared0")}}, string(test.CapacityMemory))
	// the tracker's own books at the end of the pass
	if a := s.VerifC17Allocator(); a != nil {
		b := a.VerifC17Tracker().VerifC17Budgets()
		for k, v := range b.RemainingCounters {
			if v < 0 {
				c.Fail(c.NextID(), fmt.Sprintf("remaining counter %s is negative after Solve: %d", k, v), "", sc)
			}
		}
		for k, v := range b.InflightCapacity {
			if v+lo.Ternary(k == sharedKey, preCap, 0) > w.capTotals[k] {
				c.Fail(c.NextID(), fmt.Sprintf("in-flight capacity %s exceeds the device capacity after Solve: %d > %d", k, v, w.capTotals[k]), "", sc)
			}
		}
	}
	key := ""
	if len(grecs) >= 2 {
		key = fmt.Sprint("D:", sc)
	}
	c.Count(fmt.Sprintf("D:new-nodeclaims:%d", lo.Min([]int{results.ncs, 4})))
	c.AddCase(fmt.Sprintf("CaseF %s %s %s %s", kit.GStrs(pre), gKVs(budgets), gKVs(w.tbudget), kit.GList(grecs)), sc, key)
}

// reproSharedMigratingClaim confirms finding "shared claim of two migrating pods is allocated twice" on the real
// scheduler: two pods that are being moved off a deleting node share one ResourceClaim that is allocated in-cluster and
// reserved only by them. Run with VERIF_C17_REPRO=1.
func reproSharedMigratingClaim() {
	ctx := options.ToContext(context.Background(), test.Options(test.OptionsFields{IgnoreDRARequests: lo.ToPtr(false)}))
	clk := clock.NewFakeClock(time.Unix(1_700_000_000, 0))
	cl := kit.NewClient(interceptor.Funcs{})
	cp := fake.NewCloudProvider()
	kit.Apply(ctx, cl, test.DeviceClassWithSelector("excl", exclDriver), test.ClusterWideSlice("excl-pool", exclDriver, "e0", "e1"))
	cp.InstanceTypes = []*cloudprovider.InstanceType{fake.NewInstanceType("plain")}
	np := test.NodePool(v1.NodePool{ObjectMeta: metav1.ObjectMeta{Name: "pool"}})
	np.Spec.Limits = nil
	kit.Apply(ctx, cl, np)
	var pods []*corev1.Pod
	for i := 0; i < 2; i++ {
		p := test.UnschedulablePod(test.PodOptions{ObjectMeta: metav1.ObjectMeta{Name: fmt.Sprintf("p%d", i), Namespace: "default", UID: types.UID(fmt.Sprintf("uid-p%d", i))},
			ResourceClaims: []corev1.PodResourceClaim{{Name: "dev", ResourceClaimName: lo.ToPtr("shared")}}})
		kit.Apply(ctx, cl, p)
		pods = append(pods, p)
	}
	claim := test.AllocatedClusterWideClaim("shared", "excl-pool", exclDriver, "e0", test.PodConsumer(pods[0]), test.PodConsumer(pods[1]))
	claim.Spec.Devices.Requests = []resourcev1.DeviceRequest{test.ExactDeviceRequest("req", "excl", 1)}
	kit.Apply(ctx, cl, claim)
	devCtl := deviceallocation.NewController(cl)
	devCtl.Hydrate(ctx)
	cluster := state.NewCluster(clk, cl, cp)
	prov := provisioning.NewProvisioner(cl, events.NewRecorder(&record.FakeRecorder{}), cp, cluster, clk, devCtl, virtualpods.NewVirtualPodCache(cl))
	s, err := prov.NewScheduler(ctx, pods, nil, sets.New[types.UID]("uid-p0", "uid-p1"))
	if err != nil {
		panic(err)
	}
	p, msg := kit.Recover(func() {
		res, err := s.Solve(ctx, pods)
		fmt.Println("Solve returned:", err, "new nodeclaims:", len(res.NewNodeClaims), "pod errors:", len(res.PodErrors))
		for k, m := range res.DRAClaimAllocationMetadata {
			fmt.Println(" claim", k, "devices", m.Devices)
		}
	})
	fmt.Println("panicked:", p, msg)
}
