package main

import "verifharness/kit"

func runT(c *kit.Ctx, r *kit.Rand, idx int) {}
