package main

import (
	"context"
	"fmt"
	"sort"
	"unique"

	"k8s.io/apimachinery/pkg/util/sets"

	"sigs.k8s.io/karpenter/pkg/cloudprovider"
	"sigs.k8s.io/karpenter/pkg/scheduling"
	dra "sigs.k8s.io/karpenter/pkg/scheduling/dynamicresources"

	"verifharness/kit"
)

// ------------------------------------------------------------------ part T: the DRA allocation tracker (exclusive devices)

type tNC struct{ id string }

func (n tNC) ID() dra.NodeClaimID                                        { return unique.Make(n.id) }
func (n tNC) NodeName() string                                           { return "" }
func (n tNC) NodePoolID() dra.NodePoolID                                 { return unique.Make("pool") }
func (n tNC) Requirements() scheduling.Requirements                      { return scheduling.NewRequirements() }
func (n tNC) InstanceTypes() []dra.InstanceTypeID                        { return nil }
func (n tNC) ResourceSlices() map[dra.InstanceTypeID][]dra.ResourceSlice { return nil }

type tcase struct {
	Kind string   `json:"kind"`
	Pre  []string `json:"preallocated"`
	Ops  []string `json:"ops"`
	Obs  []string `json:"obs"`
}

func cpDev(name string) cloudprovider.DeviceID {
	return cloudprovider.DeviceID{Driver: unique.Make("drv"), Pool: unique.Make("pool"), Device: unique.Make(name)}
}

func gDev(name string, tmpl bool) string {
	return fmt.Sprintf("(mkDev %s %s)", kit.GStr(name), kit.GBool(tmpl))
}

func runT(c *kit.Ctx, r *kit.Rand, idx int) {
	devs := []string{"d1", "d2", "d3", "d4"}
	ncs := []string{"n1", "n2", "n3"}
	its := []string{"a", "b", "c"}
	var pre []string
	excl := sets.New[cloudprovider.DeviceID]()
	for _, d := range devs {
		if r.Chance(1, 6) {
			pre = append(pre, d)
			excl.Insert(cpDev(d))
		}
	}
	at := dra.NewAllocationTracker(dra.AllocatedDeviceState{ExclusiveDevices: excl})
	ctx := context.Background()
	isAlloc := func(d string, tmpl bool, n, it string) bool {
		return at.IsAllocated(dra.DeviceID{DeviceID: cpDev(d), Template: tmpl}, tNC{n}, unique.Make(it))
	}
	// observation after every op: IsAllocated over the whole universe, and the owners of every cluster device
	observe := func() (string, string) {
		var bits []string
		for _, d := range devs {
			for _, tmpl := range []bool{false, true} {
				for _, n := range ncs {
					for _, it := range its {
						bits = append(bits, kit.GBool(isAlloc(d, tmpl, n, it)))
					}
				}
			}
		}
		owners := map[string]map[string]bool{}
		for n, byIT := range at.InflightClusterAllocationsByNodeClaim {
			for _, ds := range byIT {
				for d := range ds {
					name := d.Device.Value()
					if owners[name] == nil {
						owners[name] = map[string]bool{}
					}
					owners[name][n.Value()] = true
				}
			}
		}
		var gown []string
		for _, d := range kit.SortedKeys(owners) {
			var l []string
			for n := range owners[d] {
				l = append(l, n)
			}
			sort.Strings(l)
			if excl.Has(cpDev(d)) {
				l = append(l, "<preallocated>")
			}
			gown = append(gown, kit.GPair(kit.GStr(d), kit.GStrs(l)))
		}
		return kit.GList(bits), kit.GList(gown)
	}
	var gops, gobs, jops, jobs []string
	emit := func(gop, jop, out string) {
		bits, own := observe()
		gops = append(gops, "("+gop+")")
		jops = append(jops, jop)
		gobs = append(gobs, fmt.Sprintf("(%s, %s, %s)", out, bits, own))
		jobs = append(jobs, out)
	}
	nOps := r.Range(3, 12)
	panicked := false
	for i := 0; i < nOps && !panicked; i++ {
		n := kit.Pick(r, ncs)
		if len(at.InflightClusterAllocationsByNodeClaim) > 0 && r.Chance(1, 2) {
			var holding []string
			for id, byIT := range at.InflightClusterAllocationsByNodeClaim {
				if len(byIT) > 0 {
					holding = append(holding, id.Value())
				}
			}
			sort.Strings(holding)
			if len(holding) > 0 {
				n = kit.Pick(r, holding)
			}
		}
		switch k := r.Intn(100); {
		case k < 55: // commit; guarded like the allocator (only devices IsAllocated reports free) 5 times out of 6
			guarded := !r.Chance(1, 6)
			byIT := map[dra.InstanceTypeID][]dra.DeviceID{}
			var gl, jl []string
			for _, it := range its {
				if !r.Chance(1, 2) {
					continue
				}
				var ds []dra.DeviceID
				var gds []string
				seen := map[string]bool{}
				for j, m := 0, r.Range(1, 3); j < m; j++ {
					d, tmpl := kit.Pick(r, devs), r.Chance(1, 4)
					key := fmt.Sprint(d, tmpl)
					if !guarded && !tmpl && excl.Has(cpDev(d)) {
						continue // a device allocated on the API server is never proposed (IsAllocated reports it)
					}
					if guarded && (seen[key] || isAlloc(d, tmpl, n, it)) {
						c.Count("T:commit:guard-skipped-allocated-device")
						continue
					}
					seen[key] = true
					ds = append(ds, dra.DeviceID{DeviceID: cpDev(d), Template: tmpl})
					gds = append(gds, gDev(d, tmpl))
				}
				if len(ds) == 0 {
					continue
				}
				byIT[unique.Make(it)] = ds
				gl = append(gl, kit.GPair(kit.GStr(it), kit.GList(gds)))
				jl = append(jl, it+":"+fmt.Sprint(gds))
			}
			p, _ := kit.Recover(func() { dra.VerifC17Commit(at, unique.Make(n), byIT) })
			if p {
				panicked = true
				c.Count("T:commit:panic-already-allocated")
				if guarded {
					c.Fail(c.NextID(), "Commit panicked on a proposal in which IsAllocated reported every device free: an exclusive device was about to get a second owner", "",
						map[string]interface{}{"kind": "dra-tracker", "preallocated": pre, "ops": append(append([]string{}, jops...), fmt.Sprint("commit ", n, jl))})
				}
				// the map iteration order decides how far Commit got: state after a panic is not compared
				gops = append(gops, fmt.Sprintf("(DCommit %s %s)", kit.GStr(n), kit.GList(gl)))
				jops = append(jops, fmt.Sprint("commit ", n, jl))
				gobs = append(gobs, "(DPanic, [], [])")
				jobs = append(jobs, "DPanic")
				break
			}
			if guarded {
				c.Count("T:commit:guarded")
			} else {
				c.Count("T:commit:unguarded-no-panic")
			}
			if len(byIT) > 1 {
				c.Count("T:commit:device-superposed-over-instance-types")
			}
			emit(fmt.Sprintf("DCommit %s %s", kit.GStr(n), kit.GList(gl)), fmt.Sprint("commit ", n, jl), "DUnit")
		case k < 85:
			var rel []string
			for _, it := range its {
				if r.Chance(1, 2) {
					rel = append(rel, it)
				}
			}
			ids := make([]dra.InstanceTypeID, len(rel))
			for i, it := range rel {
				ids[i] = unique.Make(it)
			}
			held := 0
			for _, it := range ids {
				held += len(at.InflightClusterAllocationsByNodeClaim[unique.Make(n)][it])
			}
			p, _ := kit.Recover(func() { at.ReleaseInstanceTypes(ctx, unique.Make(n), ids...) })
			if p {
				panicked = true
				c.Count("T:release:panic")
				gops = append(gops, fmt.Sprintf("(DRelease %s %s)", kit.GStr(n), kit.GStrs(rel)))
				jops = append(jops, fmt.Sprint("release ", n, rel))
				gobs = append(gobs, "(DPanic, [], [])")
				jobs = append(jobs, "DPanic")
				break
			}
			if held > 0 {
				c.Count("T:release:freed-devices")
			} else {
				c.Count("T:release:nothing-held")
			}
			emit(fmt.Sprintf("DRelease %s %s", kit.GStr(n), kit.GStrs(rel)), fmt.Sprint("release ", n, rel), "DUnit")
		default:
			d, tmpl, it := kit.Pick(r, devs), r.Chance(1, 4), kit.Pick(r, its)
			b := isAlloc(d, tmpl, n, it)
			emit(fmt.Sprintf("DIsAlloc %s %s %s", gDev(d, tmpl), kit.GStr(n), kit.GStr(it)), fmt.Sprint("isallocated ", d, tmpl, n, it), "DBool "+kit.GBool(b))
		}
	}
	key := ""
	if len(gops) >= 4 {
		key = fmt.Sprint("T:", pre, jops)
	}
	c.AddCase(fmt.Sprintf("CaseT %s %s %s", kit.GStrs(pre), kit.GList(gops), kit.GList(gobs)), tcase{"dra-tracker", pre, jops, jobs}, key)
}
