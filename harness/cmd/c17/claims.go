package main

import (
	"context"
	"fmt"
	"time"

	"github.com/samber/lo"
	corev1 "k8s.io/api/core/v1"
	"k8s.io/apimachinery/pkg/api/resource"
	metav1 "k8s.io/apimachinery/pkg/apis/meta/v1"
	"k8s.io/apimachinery/pkg/types"
	clock "k8s.io/utils/clock/testing"
	"sigs.k8s.io/controller-runtime/pkg/client/interceptor"

	v1 "sigs.k8s.io/karpenter/pkg/apis/v1"
	"sigs.k8s.io/karpenter/pkg/cloudprovider"
	"sigs.k8s.io/karpenter/pkg/cloudprovider/fake"
	sched "sigs.k8s.io/karpenter/pkg/controllers/provisioning/scheduling"
	"sigs.k8s.io/karpenter/pkg/controllers/state"
	"sigs.k8s.io/karpenter/pkg/operator/options"
	"sigs.k8s.io/karpenter/pkg/scheduling"
	"sigs.k8s.io/karpenter/pkg/test"
	"sigs.k8s.io/karpenter/pkg/test/v1alpha1"
	"sigs.k8s.io/karpenter/pkg/utils/resources"

	"verifharness/kit"
)

// ------------------------------------------------------------------ catalogue generator (parts N and S)

type jOff struct {
	CT    string `json:"ct"`
	Zone  string `json:"zone"`
	RID   string `json:"rid,omitempty"`
	Avail bool   `json:"available"`
	Cap   int    `json:"capacity,omitempty"`
}
type jIT struct {
	Name string `json:"name"`
	Offs []jOff `json:"offerings"`
}
type jRID struct {
	Op   string   `json:"op"` // In | NotIn | Exists
	Vals []string `json:"values,omitempty"`
}
type jReq struct {
	Zones []string `json:"zones,omitempty"`
	CTs   []string `json:"capacity_types,omitempty"`
	ITs   []string `json:"instance_types,omitempty"`
	RID   *jRID    `json:"reservation_id,omitempty"`
}
type jTpl struct {
	Pool string `json:"pool"`
	Req  jReq   `json:"requirements"`
	ITs  []jIT  `json:"instance_types"`
}

var zonesU = []string{"z1", "z2", "z3"}
var ridsU = []string{"r1", "r2", "r3", "r4"}
var itsU = []string{"i1", "i2", "i3", "i4"}

func gOptList(l []string) string { return kit.GOpt(l != nil, kit.GStrs(l)) }
func gRID(r *jRID) string {
	switch {
	case r == nil:
		return "RAny"
	case r.Op == "In":
		return "(RIn " + kit.GStrs(r.Vals) + ")"
	case r.Op == "NotIn":
		return "(RNotIn " + kit.GStrs(r.Vals) + ")"
	}
	return "(RNotIn [])" // Exists
}
func gReq(q jReq) string {
	return fmt.Sprintf("(mkF %s %s %s %s)", gOptList(q.Zones), gOptList(q.CTs), gOptList(q.ITs), gRID(q.RID))
}

// genRID draws an explicit reservation-id requirement as a pod or NodePool may carry it.
func genRID(r *kit.Rand) *jRID {
	switch r.Intn(6) {
	case 0:
		return &jRID{Op: "Exists"}
	case 1:
		return &jRID{Op: "NotIn", Vals: subset(r, ridsU, 1)}
	case 2:
		return &jRID{Op: "In", Vals: []string{kit.Pick(r, ridsU)}}
	default:
		return &jRID{Op: "In", Vals: subset(r, ridsU, 2)}
	}
}

// admitted returns the catalogue's reservation ids that the requirement admits (sorted).
func admitted(req *scheduling.Requirement, tpls []jTpl) []string {
	out := []string{}
	present := map[string]bool{}
	for _, o := range allOffs(tpls) {
		if o.CT == "reserved" {
			present[o.RID] = true
		}
	}
	for _, id := range ridsU {
		if present[id] && req.Has(id) {
			out = append(out, id)
		}
	}
	return out
}
func gOff(o jOff) string {
	return fmt.Sprintf("(mkO %s %s %s %s %s)", kit.GStr(o.CT), kit.GStr(o.Zone), kit.GStr(o.RID), kit.GBool(o.Avail), kit.GZ(int64(o.Cap)))
}
func gIT(it jIT) string {
	return fmt.Sprintf("(mkIT %s %s)", kit.GStr(it.Name), kit.GListOf(it.Offs, gOff))
}
func gTpl(t jTpl) string { return kit.GPair(gReq(t.Req), kit.GListOf(t.ITs, gIT)) }

func subset(r *kit.Rand, u []string, min int) []string {
	for {
		var out []string
		for _, x := range u {
			if r.Bool() {
				out = append(out, x)
			}
		}
		if len(out) >= min {
			return out
		}
	}
}

// genReq draws an In-requirement fragment; tight=true biases towards narrowing constraints.
func genReq(r *kit.Rand, tight bool) jReq {
	var q jReq
	p := 3
	if tight {
		p = 2
	}
	if r.Chance(1, p) {
		q.Zones = subset(r, zonesU, 1)
	}
	if r.Chance(1, p) {
		q.CTs = kit.Pick(r, [][]string{{"reserved"}, {"on-demand"}, {"reserved", "on-demand"}, {"spot", "on-demand"}, {"spot"}, {"reserved", "spot"}})
	}
	if r.Chance(1, p+2) {
		q.ITs = subset(r, itsU, 1)
	}
	if r.Chance(1, 5) {
		q.RID = genRID(r)
	}
	return q
}

// genCatalogue draws 1-3 templates. Reservation ids are shared across instance types and pools; the same id may be
// reported with different capacities by different pools (the manager keeps the least).
func genCatalogue(r *kit.Rand, scarce bool, tplReq int) []jTpl {
	nT := r.Range(1, 3)
	capOf := map[string]int{}
	for _, id := range ridsU {
		if scarce {
			capOf[id] = r.Range(0, 2)
		} else {
			capOf[id] = r.Range(0, 4)
		}
	}
	var base []jIT
	for _, name := range itsU[:r.Range(2, 4)] {
		it := jIT{Name: name}
		for _, z := range zonesU {
			if r.Chance(2, 3) {
				it.Offs = append(it.Offs, jOff{CT: "reserved", Zone: z, RID: kit.Pick(r, ridsU), Avail: r.Chance(7, 8)})
			}
			if r.Chance(1, 8) { // a second reservation in the same zone
				it.Offs = append(it.Offs, jOff{CT: "reserved", Zone: z, RID: kit.Pick(r, ridsU), Avail: true})
			}
			if r.Chance(1, 2) {
				it.Offs = append(it.Offs, jOff{CT: "on-demand", Zone: z, Avail: r.Chance(7, 8)})
			}
			if r.Chance(1, 4) {
				it.Offs = append(it.Offs, jOff{CT: "spot", Zone: z, Avail: r.Chance(7, 8)})
			}
		}
		if len(it.Offs) == 0 {
			it.Offs = append(it.Offs, jOff{CT: "on-demand", Zone: "z1", Avail: true})
		}
		base = append(base, it)
	}
	var tpls []jTpl
	for t := 0; t < nT; t++ {
		tp := jTpl{Pool: fmt.Sprintf("pool%d", t)}
		if r.Chance(tplReq, 6) {
			tp.Req = genReq(r, tplReq > 2)
			tp.Req.ITs = nil
		}
		for _, it := range base {
			if t > 0 && r.Chance(1, 4) {
				continue
			}
			cp := jIT{Name: it.Name}
			for _, o := range it.Offs {
				if o.CT == "reserved" {
					o.Cap = capOf[o.RID]
					if t > 0 && r.Chance(1, 4) { // a later GetInstanceTypes call saw another count
						o.Cap = r.Range(0, 3)
					}
				}
				cp.Offs = append(cp.Offs, o)
			}
			tp.ITs = append(tp.ITs, cp)
		}
		if len(tp.ITs) == 0 {
			tp.ITs = append(tp.ITs, base[0])
		}
		tpls = append(tpls, tp)
	}
	return tpls
}

func realOfferings(offs []jOff) cloudprovider.Offerings {
	var out cloudprovider.Offerings
	for i, o := range offs {
		if o.CT == "reserved" {
			of := reservedOffering(o.Zone, o.RID, o.Cap, o.Avail)
			out = append(out, of)
		} else {
			out = append(out, plainOffering(o.Zone, o.CT, o.Avail, 1+float64(i)/16))
		}
	}
	return out
}

func bigResources() corev1.ResourceList {
	return corev1.ResourceList{corev1.ResourceCPU: resource.MustParse("64"), corev1.ResourceMemory: resource.MustParse("256Gi"), corev1.ResourcePods: resource.MustParse("500")}
}

func realIT(it jIT, res corev1.ResourceList) *cloudprovider.InstanceType {
	ofs := realOfferings(it.Offs)
	return fake.NewInstanceType(it.Name, fake.WithResources(res), fake.WithOfferings(lo.Map(ofs, func(o *cloudprovider.Offering, _ int) cloudprovider.Offering { return *o })...))
}

func nsr(key string, vals []string) corev1.NodeSelectorRequirement {
	return corev1.NodeSelectorRequirement{Key: key, Operator: corev1.NodeSelectorOpIn, Values: vals}
}

func reqSelectors(q jReq) []corev1.NodeSelectorRequirement {
	var out []corev1.NodeSelectorRequirement
	if q.Zones != nil {
		out = append(out, nsr(corev1.LabelTopologyZone, q.Zones))
	}
	if q.CTs != nil {
		out = append(out, nsr(v1.CapacityTypeLabelKey, q.CTs))
	}
	if q.ITs != nil {
		out = append(out, nsr(corev1.LabelInstanceTypeStable, q.ITs))
	}
	if q.RID != nil {
		out = append(out, corev1.NodeSelectorRequirement{Key: v1alpha1.LabelReservationID, Operator: corev1.NodeSelectorOperator(q.RID.Op), Values: q.RID.Vals})
	}
	return out
}

func realPool(t jTpl, weight int32) *v1.NodePool {
	np := test.NodePool(v1.NodePool{ObjectMeta: metav1.ObjectMeta{Name: t.Pool}})
	np.Spec.Limits = nil
	np.Spec.Weight = lo.ToPtr(weight)
	for _, s := range reqSelectors(t.Req) {
		np.Spec.Template.Spec.Requirements = append(np.Spec.Template.Spec.Requirements, v1.NodeSelectorRequirementWithMinValues{Key: s.Key, Operator: s.Operator, Values: s.Values})
	}
	return np
}

func allOffs(tpls []jTpl) []off3 {
	var out []off3
	for _, t := range tpls {
		for _, it := range t.ITs {
			for _, o := range it.Offs {
				out = append(out, off3{o.CT, o.RID, o.Cap})
			}
		}
	}
	return out
}

// candidates as the implementation's own compatibility check sees them: reserved, available, compatible offerings of its.
func implCands(its []*cloudprovider.InstanceType, reqs scheduling.Requirements) []string {
	out := []string{}
	for _, it := range its {
		for _, o := range it.Offerings {
			if o.CapacityType() != v1.CapacityTypeReserved || !o.Available {
				continue
			}
			if reqs.IsCompatible(o.Requirements, scheduling.AllowUndefinedWellKnownLabels) {
				out = append(out, o.ReservationID())
			}
		}
	}
	return out
}

// ------------------------------------------------------------------ part N: NodeClaim level

type nop struct {
	Claim string `json:"claim"`
	New   *int   `json:"new_from_template,omitempty"`
	Pod   jReq   `json:"pod"`
}
type ncase struct {
	Kind   string   `json:"kind"`
	Gate   bool     `json:"reserved_capacity_gate"`
	Strict bool     `json:"strict"`
	Tpls   []jTpl   `json:"templates"`
	Ops    []nop    `json:"ops"`
	Obs    []string `json:"obs"`
	Fin    []string `json:"final"`
}

func gMode(strict bool) string {
	if strict {
		return "Strict"
	}
	return "Fallback"
}

func runN(c *kit.Ctx, r *kit.Rand, idx int) {
	gate := !r.Chance(1, 20)
	strict := r.Bool()
	ctx := options.ToContext(context.Background(), test.Options(test.OptionsFields{FeatureGates: test.FeatureGates{ReservedCapacity: lo.ToPtr(gate)}}))
	tpls := genCatalogue(r, r.Chance(2, 3), 2)
	// a quarter of the cases start with the release / re-acquire skeleton: c0 takes r1+r2, c1 only gets r2,
	// c0 narrows to z2 and releases r1, c1 re-acquires r1
	type scripted struct {
		claim int
		pod   jReq
	}
	var script []scripted
	if idx%4 == 0 {
		sk := jIT{Name: "i1", Offs: []jOff{{CT: "reserved", Zone: "z1", RID: "r1", Avail: true, Cap: 1}, {CT: "reserved", Zone: "z2", RID: "r2", Avail: true, Cap: 2}, {CT: "on-demand", Zone: "z1", Avail: true}}}
		for i := range tpls {
			for j := range tpls[i].ITs {
				for k := range tpls[i].ITs[j].Offs { // keep the skeleton's reservations scarce everywhere
					if o := &tpls[i].ITs[j].Offs[k]; o.RID == "r1" || o.RID == "r2" {
						o.RID = "r3"
					}
				}
			}
		}
		tpls[0].Req = jReq{}
		tpls[0].ITs = append([]jIT{sk}, lo.Filter(tpls[0].ITs, func(it jIT, _ int) bool { return it.Name != "i1" })...)
		only := []string{"i1"}
		script = []scripted{{-1, jReq{ITs: only}}, {-1, jReq{ITs: only}}, {0, jReq{Zones: []string{"z2"}}}, {1, jReq{}}}
	}
	cl := kit.NewClient(interceptor.Funcs{})
	cp := fake.NewCloudProvider()
	clk := clock.NewFakeClock(time.Unix(1_700_000_000, 0))
	cluster := state.NewCluster(clk, cl, cp)
	itMap := map[string][]*cloudprovider.InstanceType{}
	var pools []*v1.NodePool
	var templates []*sched.NodeClaimTemplate
	for i, t := range tpls {
		np := realPool(t, int32(100-i))
		pools = append(pools, np)
		for _, it := range t.ITs {
			itMap[t.Pool] = append(itMap[t.Pool], realIT(it, bigResources()))
		}
		templates = append(templates, sched.NewNodeClaimTemplate(np))
	}
	topo, err := sched.NewTopology(ctx, cl, cluster, nil, pools, itMap, nil)
	if err != nil {
		panic(err)
	}
	rm := sched.NewReservationManager(itMap)

	var claims []*sched.NodeClaim
	userRID := map[int]bool{}
	hostIdx := map[string]string{}
	rename := func(h string) string {
		if n, ok := hostIdx[h]; ok {
			return n
		}
		return h
	}
	var jops []nop
	var gops, gobs, jobs []string
	nOps := r.Range(3, 14)
	narrowed, released, deferred, panicked := false, false, false, false
	for i := 0; i < nOps && !panicked; i++ {
		op := nop{Pod: genReq(r, true)}
		var nc *sched.NodeClaim
		k := len(claims)
		useScript := i < len(script) && (script[i].claim < len(claims))
		if useScript {
			op.Pod = script[i].pod
		}
		if useScript && script[i].claim >= 0 {
			k = script[i].claim
			nc = claims[k]
		} else if !useScript && len(claims) > 0 && r.Chance(3, 5) {
			k = r.Intn(len(claims))
			nc = claims[k]
			if r.Chance(1, 3) {
				op.Pod = jReq{} // does not narrow: the claim may re-acquire what others released
			}
		} else {
			t := r.Intn(len(templates))
			if useScript {
				t = 0
			}
			op.New = &t
			nc = sched.NewNodeClaim(templates[t], topo, []sched.DaemonOverheadGroup{{InstanceTypes: itMap[tpls[t].Pool], HostPortUsage: scheduling.NewHostPortUsage()}}, itMap[tpls[t].Pool], rm, lo.Ternary(strict, sched.ReservedOfferingModeStrict, sched.ReservedOfferingModeFallback))
		}
		op.Claim = fmt.Sprintf("c%d", k)
		pod := test.UnschedulablePod(test.PodOptions{
			ObjectMeta:           metav1.ObjectMeta{Name: fmt.Sprintf("p%d", i), UID: types.UID(fmt.Sprintf("uid-p%d", i))},
			NodeRequirements:     reqSelectors(op.Pod),
			ResourceRequirements: corev1.ResourceRequirements{Requests: corev1.ResourceList{corev1.ResourceCPU: resource.MustParse("1m")}},
		})
		reqs := scheduling.NewPodRequirements(pod)
		pd := &sched.PodData{Requests: resources.RequestsForPods(pod), Requirements: reqs, StrictRequirements: reqs}
		before := nc.VerifC17ReservedIDs()
		var gout string
		p, msg := kit.Recover(func() {
			nreqs, nits, ofs, _, err := nc.CanAdd(ctx, pod, pd, false, nil)
			switch {
			case err == nil:
				cands := implCands(nits, nreqs)
				nc.Add(ctx, pod, pd, nreqs, nits, ofs, nil, nil)
				if op.New != nil {
					hostIdx[nc.VerifC17Hostname()] = op.Claim
					claims = append(claims, nc)
					if tpls[*op.New].Req.RID != nil {
						userRID[k] = true
					}
				}
				if op.Pod.RID != nil {
					userRID[k] = true
					c.Count("N:placed:pod-with-explicit-reservation-id-requirement")
				}
				ids := lo.Map(ofs, func(o *cloudprovider.Offering, _ int) string { return o.ReservationID() })
				if ids == nil {
					ids = []string{}
				}
				gout = fmt.Sprintf("NPlaced %s %s %s", kit.GStrs(ids), kit.GStrs(lo.Map(nits, func(it *cloudprovider.InstanceType, _ int) string { return it.Name })), kit.GStrs(cands))
				switch {
				case len(ids) == 0 && len(cands) == 0:
					c.Count("N:placed:no-compatible-reserved-offering")
				case len(ids) == 0:
					c.Count("N:placed:fallback-all-compatible-exhausted")
				case len(ids) < len(cands):
					c.Count("N:placed:some-compatible-exhausted")
				default:
					c.Count("N:placed:all-compatible-reserved")
				}
				if op.New == nil {
					dropped := false
					for _, b := range before {
						if !contains(ids, b) {
							dropped = true
						}
					}
					if dropped {
						released = true
						c.Count("N:add:released-a-held-reservation")
					}
					for _, x := range ids {
						if !contains(before, x) {
							narrowed = true
							c.Count("N:add:acquired-a-new-reservation-on-existing-claim")
							break
						}
					}
				}
			case sched.IsReservedOfferingError(err):
				deferred = true
				gout = "NDeferred"
				if len(before) > 0 {
					c.Count("N:deferred:claim-held-reservations")
				} else {
					c.Count("N:deferred:claim-held-none")
				}
			default:
				gout = "NIncompatible"
				c.Count("N:incompatible")
			}
		})
		if p {
			panicked = true
			gout = "NPanic"
			c.Count("N:panic")
			c.Fail(c.NextID(), "panic in CanAdd/Add: "+msg, "", map[string]interface{}{"templates": tpls, "ops": append(jops, op)})
		}
		jops = append(jops, op)
		gops = append(gops, fmt.Sprintf("(%s, %s, %s)", kit.GStr(op.Claim), kit.GOpt(op.New != nil, kit.GZ(int64(lo.FromPtr(op.New)))), gReq(op.Pod)))
		gobs = append(gobs, kit.GPair("("+gout+")", gSnap(takeSnap(rm, rename))))
		jobs = append(jobs, gout)
	}
	// FinalizeScheduling: what the launch request will carry
	var gfin, jfin []string
	for k, nc := range claims {
		nc.FinalizeScheduling()
		pinned := nc.Requirements.Has(v1alpha1.LabelReservationID)
		var ids []string
		_, heldNow := rm.VerifC17Snapshot()
		switch {
		case pinned && len(heldNow[nc.VerifC17Hostname()]) > 0:
			ids = admitted(nc.Requirements.Get(v1alpha1.LabelReservationID), tpls)
			c.Count("N:final:pinned")
			if userRID[k] {
				c.Count("N:final:pinned-under-an-explicit-reservation-id-requirement")
			}
		case pinned:
			ids = admitted(nc.Requirements.Get(v1alpha1.LabelReservationID), tpls)
			c.Count("N:final:explicit-reservation-id-requirement-but-holds-none")
		default:
			c.Count("N:final:not-pinned")
		}
		ct := nc.Requirements.Get(v1.CapacityTypeLabelKey)
		only := nc.Requirements.Has(v1.CapacityTypeLabelKey) && ct.Operator() == corev1.NodeSelectorOpIn && ct.Len() == 1 && ct.Has(v1.CapacityTypeReserved)
		g := fmt.Sprintf("(%s, %s, %s)", kit.GStr(fmt.Sprintf("c%d", k)), kit.GOpt(pinned, kit.GStrs(ids)), kit.GBool(only))
		gfin = append(gfin, g)
		jfin = append(jfin, g)
	}
	key := ""
	if len(claims) >= 2 && (released || narrowed || deferred) {
		key = fmt.Sprintf("N:%v:%v:%v", strict, tpls, jops)
	}
	c.AddCase(fmt.Sprintf("CaseN %s %s %s %s %s %s", kit.GBool(gate), gMode(strict), kit.GListOf(tpls, gTpl), kit.GList(gops), kit.GList(gobs), kit.GList(gfin)),
		ncase{"nodeclaim", gate, strict, tpls, jops, jobs, jfin}, key)
}
