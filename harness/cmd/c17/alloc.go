package main

import (
	"context"
	"fmt"
	"sort"
	"unique"

	"github.com/samber/lo"
	corev1 "k8s.io/api/core/v1"
	resourcev1 "k8s.io/api/resource/v1"
	"k8s.io/apimachinery/pkg/api/resource"
	metav1 "k8s.io/apimachinery/pkg/apis/meta/v1"
	"k8s.io/apimachinery/pkg/types"
	"k8s.io/apimachinery/pkg/util/sets"
	"sigs.k8s.io/controller-runtime/pkg/client/interceptor"

	"sigs.k8s.io/karpenter/pkg/cloudprovider"
	"sigs.k8s.io/karpenter/pkg/cloudprovider/fake"
	"sigs.k8s.io/karpenter/pkg/scheduling"
	dra "sigs.k8s.io/karpenter/pkg/scheduling/dynamicresources"
	"sigs.k8s.io/karpenter/pkg/test"

	"verifharness/kit"
)

// ------------------------------------------------------------------ shared rendering for budget cases

type kv struct {
	K string `json:"k"`
	V int64  `json:"v"`
}

func gKVs(m map[string]int64) string {
	var l []string
	for _, k := range kit.SortedKeys(m) {
		l = append(l, kit.GPair(kit.GStr(k), kit.GZ(m[k])))
	}
	return kit.GList(l)
}

func gConsByIT(m map[string]map[string]int64) string {
	var l []string
	for _, it := range kit.SortedKeys(m) {
		l = append(l, kit.GPair(kit.GStr(it), gKVs(m[it])))
	}
	return kit.GList(l)
}

func gTUsed(m map[string]map[string]map[string]int64) string {
	var l []string
	for _, n := range kit.SortedKeys(m) {
		for _, it := range kit.SortedKeys(m[n]) {
			for _, k := range kit.SortedKeys(m[n][it]) {
				l = append(l, fmt.Sprintf("(%s, %s, %s, %s)", kit.GStr(n), kit.GStr(it), kit.GStr(k), kit.GZ(m[n][it][k])))
			}
		}
	}
	return kit.GList(l)
}

type devInfo struct {
	id       cloudprovider.DeviceID
	tmpl     bool
	excl     bool
	counters map[string]int64 // budget key -> amount
}

// ------------------------------------------------------------------ part A: the real Allocator

const (
	exclDriver = "excl.example.com"
	capDriver  = "cap.example.com"
	partDriver = "part.example.com"
)

type aNC struct {
	id       string
	nodeName string
	its      []string
	itObjs   map[string]*cloudprovider.InstanceType
	existing bool
	reqs     scheduling.Requirements
}

func (n *aNC) ID() dra.NodeClaimID        { return unique.Make(n.id) }
func (n *aNC) NodeName() string           { return n.nodeName }
func (n *aNC) NodePoolID() dra.NodePoolID { return unique.Make("pool") }
func (n *aNC) Requirements() scheduling.Requirements {
	if n.reqs == nil {
		return scheduling.NewRequirements()
	}
	return n.reqs
}
func (n *aNC) InstanceTypes() []dra.InstanceTypeID {
	return lo.Map(n.its, func(s string, _ int) dra.InstanceTypeID { return unique.Make(s) })
}
func (n *aNC) ResourceSlices() map[dra.InstanceTypeID][]dra.ResourceSlice {
	out := map[dra.InstanceTypeID][]dra.ResourceSlice{}
	if n.existing {
		return out
	}
	for _, it := range n.its {
		out[unique.Make(it)] = lo.Map(n.itObjs[it].DynamicResources.ResourceSliceTemplates, func(t *cloudprovider.ResourceSliceTemplate, _ int) dra.ResourceSlice {
			return dra.NewTemplateSlice(t)
		})
	}
	return out
}

type acase struct {
	Kind     string           `json:"kind"`
	Setup    map[string]any   `json:"setup"`
	Ops      []string         `json:"ops"`
	Failures int              `json:"allocations_refused"`
	Records  []map[string]any `json:"final_records,omitempty"`
}

func qty(v int64) resource.Quantity { return *resource.NewQuantity(v, resource.DecimalSI) }

// draWorld is one generated universe of published ResourceSlices and instance types with template devices.
type draWorld struct {
	apiSlices                                    []*resourcev1.ResourceSlice
	inCluster                                    []dra.ResourceSlice
	allITs                                       map[string]*cloudprovider.InstanceType
	itNames, udevs, exclNames                    []string
	devs                                         map[string]devInfo
	capTotals, tbudget                           map[string]int64
	capTotal, counterTotal, tmplCap, tmplCounter int64
	partCost                                     []int64
	zoned, bare, incomplete, generations         bool
	nodePartition, invalidPool                   bool
}

func dkey(id cloudprovider.DeviceID, tmpl bool) string {
	return fmt.Sprintf("%s|%v", id.String(), tmpl)
}

func newDraWorld(r *kit.Rand) *draWorld {
	w := &draWorld{}
	// ---- in-cluster slices
	nExcl := r.Range(1, 3)
	exclNames := lo.Times(nExcl, func(i int) string { return fmt.Sprintf("e%d", i) })
	capTotal := int64(r.Range(4, 8))
	counterTotal := int64(r.Range(2, 6))
	partCost := lo.Times(r.Range(2, 3), func(int) int64 { return int64(r.Range(1, 3)) })
	var capPolicy *resourcev1.CapacityRequestPolicy
	if r.Chance(1, 3) {
		capPolicy = &resourcev1.CapacityRequestPolicy{Default: lo.ToPtr(qty(2)), ValidRange: &resourcev1.CapacityRequestPolicyRange{Min: lo.ToPtr(qty(1)), Step: lo.ToPtr(qty(2))}}
	}
	capSlice := test.SharedCapacitySlice("cap-pool", capDriver, "shared0", fmt.Sprint(capTotal))
	capSlice.Spec.Devices[0].Capacity[test.CapacityMemory] = resourcev1.DeviceCapacity{Value: qty(capTotal), RequestPolicy: capPolicy}
	partCounters := test.ResourceSlice(resourcev1.ResourceSlice{ObjectMeta: metav1.ObjectMeta{Name: "part-counters"}, Spec: resourcev1.ResourceSliceSpec{
		Driver: partDriver, AllNodes: lo.ToPtr(true), Pool: resourcev1.ResourcePool{Name: "part-pool", Generation: 1, ResourceSliceCount: 2},
		SharedCounters: []resourcev1.CounterSet{{Name: "cs", Counters: map[string]resourcev1.Counter{"slices": {Value: qty(counterTotal)}}}}}})
	partDevices := test.ResourceSlice(resourcev1.ResourceSlice{ObjectMeta: metav1.ObjectMeta{Name: "part-devices"}, Spec: resourcev1.ResourceSliceSpec{
		Driver: partDriver, AllNodes: lo.ToPtr(true), Pool: resourcev1.ResourcePool{Name: "part-pool", Generation: 1, ResourceSliceCount: 2},
		Devices: lo.Map(partCost, func(cost int64, i int) resourcev1.Device {
			return resourcev1.Device{Name: fmt.Sprintf("p%d", i), ConsumesCounters: []resourcev1.DeviceCounterConsumption{{CounterSet: "cs", Counters: map[string]resourcev1.Counter{"slices": {Value: qty(cost)}}}}}
		})}})
	nodeLocal := test.ResourceSlice(resourcev1.ResourceSlice{ObjectMeta: metav1.ObjectMeta{Name: "node3-pool"}, Spec: resourcev1.ResourceSliceSpec{
		Driver: exclDriver, NodeName: lo.ToPtr("node3"), Pool: resourcev1.ResourcePool{Name: "node3-pool", Generation: 1, ResourceSliceCount: 1},
		Devices: []resourcev1.Device{{Name: "l0"}}}})
	exclSlice := test.ClusterWideSlice("excl-pool", exclDriver, exclNames...)
	for i := range exclSlice.Spec.Devices { // attributes for match / distinct constraints
		exclSlice.Spec.Devices[i].Attributes = map[resourcev1.QualifiedName]resourcev1.DeviceAttribute{
			"excl.example.com/rack": test.StringAttribute(fmt.Sprintf("rack%d", i%2)), "excl.example.com/model": test.StringAttribute("m1")}
	}
	apiSlices := []*resourcev1.ResourceSlice{exclSlice, capSlice, partCounters, partDevices, nodeLocal}
	// a zoned pool: its devices carry topology requirements that narrow the NodeClaim
	w.zoned = r.Chance(1, 2)
	if w.zoned {
		za := kit.Pick(r, []string{"test-zone-1", "test-zone-2"})
		apiSlices = append(apiSlices, test.ZonedSlice("zoned-pool", exclDriver, za, "zd0", "zd1"))
		if r.Bool() { // a second zoned pool elsewhere: one claim cannot span both
			apiSlices = append(apiSlices, test.ZonedSlice("zoned-pool-b", exclDriver, lo.Ternary(za == "test-zone-1", "test-zone-2", "test-zone-1"), "zb0"))
		}
	}
	// a partition that only node3 can reach: for every other NodeClaim it is a non-targeting device of the counter pool
	w.nodePartition = r.Chance(1, 2)
	if w.nodePartition {
		partCounters.Spec.Pool.ResourceSliceCount, partDevices.Spec.Pool.ResourceSliceCount = 3, 3
		apiSlices = append(apiSlices, test.ResourceSlice(resourcev1.ResourceSlice{ObjectMeta: metav1.ObjectMeta{Name: "part-devices-node3"}, Spec: resourcev1.ResourceSliceSpec{
			Driver: partDriver, NodeName: lo.ToPtr("node3"), Pool: resourcev1.ResourcePool{Name: "part-pool", Generation: 1, ResourceSliceCount: 3},
			Devices: []resourcev1.Device{{Name: "pn0", ConsumesCounters: []resourcev1.DeviceCounterConsumption{{CounterSet: "cs", Counters: map[string]resourcev1.Counter{"slices": {Value: qty(1)}}}}}}}}))
	}
	// a malformed pool: its device draws from a counter the pool does not declare, which invalidates the pool
	if r.Chance(1, 4) {
		w.invalidPool = true
		apiSlices = append(apiSlices, test.ResourceSlice(resourcev1.ResourceSlice{ObjectMeta: metav1.ObjectMeta{Name: "bad-counters"}, Spec: resourcev1.ResourceSliceSpec{
			Driver: partDriver, AllNodes: lo.ToPtr(true), Pool: resourcev1.ResourcePool{Name: "bad-pool", Generation: 1, ResourceSliceCount: 2},
			SharedCounters: []resourcev1.CounterSet{{Name: "cs", Counters: map[string]resourcev1.Counter{"slices": {Value: qty(4)}}}}}}),
			test.ResourceSlice(resourcev1.ResourceSlice{ObjectMeta: metav1.ObjectMeta{Name: "bad-devices"}, Spec: resourcev1.ResourceSliceSpec{
				Driver: partDriver, AllNodes: lo.ToPtr(true), Pool: resourcev1.ResourcePool{Name: "bad-pool", Generation: 1, ResourceSliceCount: 2},
				Devices: []resourcev1.Device{{Name: "bad0", ConsumesCounters: []resourcev1.DeviceCounterConsumption{{CounterSet: kit.Pick(r, []string{"cs", "nope"}), Counters: map[string]resourcev1.Counter{"ghost": {Value: qty(1)}}}}}}}}))
	}
	// a multi-allocatable device without capacity dimensions, an incomplete pool (one of two slices published), and a
	// pool whose older generation is superseded
	if r.Chance(1, 3) {
		apiSlices = append(apiSlices, test.ResourceSlice(resourcev1.ResourceSlice{ObjectMeta: metav1.ObjectMeta{Name: "bare-pool"}, Spec: resourcev1.ResourceSliceSpec{
			Driver: capDriver, AllNodes: lo.ToPtr(true), Pool: resourcev1.ResourcePool{Name: "bare-pool", Generation: 1, ResourceSliceCount: 1},
			Devices: []resourcev1.Device{{Name: "bare0", AllowMultipleAllocations: lo.ToPtr(true)}}}}))
		w.bare = true
	}
	if r.Chance(1, 3) {
		apiSlices = append(apiSlices, test.ResourceSlice(resourcev1.ResourceSlice{ObjectMeta: metav1.ObjectMeta{Name: "half-pool"}, Spec: resourcev1.ResourceSliceSpec{
			Driver: exclDriver, AllNodes: lo.ToPtr(true), Pool: resourcev1.ResourcePool{Name: "half-pool", Generation: 1, ResourceSliceCount: 2},
			Devices: []resourcev1.Device{{Name: "h0"}}}}))
		w.incomplete = true
	}
	if r.Chance(1, 3) {
		newerFirst := r.Bool() // listing order is arbitrary: the newer generation may be seen before or after the older one
		for gen, dev := range map[int64]string{1: "old0", 2: "new0"} {
			apiSlices = append(apiSlices, test.ResourceSlice(resourcev1.ResourceSlice{ObjectMeta: metav1.ObjectMeta{Name: fmt.Sprintf("gen-pool-%s", lo.Ternary((gen == 2) == newerFirst, "a", "b"))}, Spec: resourcev1.ResourceSliceSpec{
				Driver: exclDriver, AllNodes: lo.ToPtr(true), Pool: resourcev1.ResourcePool{Name: "gen-pool", Generation: gen, ResourceSliceCount: 1},
				Devices: []resourcev1.Device{{Name: dev}}}}))
		}
		w.generations = true
	}
	sort.Slice(apiSlices, func(i, j int) bool { return apiSlices[i].Name < apiSlices[j].Name })
	inCluster := lo.Map(apiSlices, func(s *resourcev1.ResourceSlice, _ int) dra.ResourceSlice { return dra.NewAPIServerSlice(s) })

	// ---- instance types with template devices
	gpuPolicy := (*resourcev1.CapacityRequestPolicy)(nil)
	if r.Chance(1, 3) {
		gpuPolicy = &resourcev1.CapacityRequestPolicy{ValidValues: []resource.Quantity{qty(2), qty(4)}}
	}
	tmplCap := int64(r.Range(4, 8))
	tmplCounter := int64(r.Range(2, 5))
	allITs := map[string]*cloudprovider.InstanceType{
		"g1":    fake.GPUInstanceType("g1", 1),
		"g2":    fake.GPUInstanceType("g2", 2),
		"cg":    fake.CapacityGPUInstanceType("cg", fmt.Sprint(tmplCap), gpuPolicy),
		"pg":    fake.PartitionableGPUInstanceType("pg", "cs", map[string]resource.Quantity{"slices": qty(tmplCounter)}, 3, map[string]resource.Quantity{"slices": qty(2)}),
		"plain": fake.NewInstanceType("plain"),
	}
	itNames := []string{"g1", "g2", "cg", "pg", "plain"}

	// ---- device table, budgets
	devs := map[string]devInfo{}    // key: name + "|" + tmpl
	capTotals := map[string]int64{} // in-cluster capacity key -> total
	tbudget := map[string]int64{}   // template keys -> total
	var udevs []string
	for _, s := range inCluster {
		for _, d := range s.Devices() {
			id := cloudprovider.DeviceID{Driver: s.Driver(), Pool: s.Pool().Name, Device: d.Name}
			info := devInfo{id: id, excl: !d.AllowMultipleAllocations, counters: map[string]int64{}}
			for _, cc := range d.ConsumesCounters {
				for name, cv := range cc.Counters {
					info.counters[fmt.Sprintf("%s|%s|%s|%s", s.Driver().Value(), s.Pool().Name.Value(), cc.CounterSet, name)] = cv.Value.Value()
				}
			}
			for dim, dc := range d.Capacity {
				capTotals[dra.VerifC17CapacityKey(dra.DeviceID{DeviceID: id}, string(dim))] = dc.Value.Value()
			}
			devs[dkey(id, false)] = info
			udevs = append(udevs, id.String())
		}
	}
	for _, name := range itNames {
		for _, t := range allITs[name].DynamicResources.ResourceSliceTemplates {
			for _, cs := range t.SharedCounters {
				for cname, cv := range cs.Counters {
					tbudget[fmt.Sprintf("%s|%s|%s|%s", t.Driver.Value(), t.Pool.Name.Value(), cs.Name, cname)] = cv.Value.Value()
				}
			}
			for _, d := range t.Devices {
				id := cloudprovider.DeviceID{Driver: t.Driver, Pool: t.Pool.Name, Device: d.Name}
				info := devInfo{id: id, tmpl: true, excl: !d.AllowMultipleAllocations, counters: map[string]int64{}}
				for _, cc := range d.ConsumesCounters {
					for cname, cv := range cc.Counters {
						info.counters[fmt.Sprintf("%s|%s|%s|%s", t.Driver.Value(), t.Pool.Name.Value(), cc.CounterSet, cname)] = cv.Value.Value()
					}
				}
				for dim, dc := range d.Capacity {
					tbudget[dra.VerifC17CapacityKey(dra.DeviceID{DeviceID: id, Template: true}, string(dim))] = dc.Value.Value()
				}
				devs[dkey(id, true)] = info
				udevs = append(udevs, id.String())
			}
		}
	}
	sort.Strings(udevs)

	w.apiSlices, w.inCluster, w.allITs, w.itNames, w.udevs, w.exclNames = apiSlices, inCluster, allITs, itNames, udevs, exclNames
	w.devs, w.capTotals, w.tbudget = devs, capTotals, tbudget
	w.capTotal, w.counterTotal, w.tmplCap, w.tmplCounter, w.partCost = capTotal, counterTotal, tmplCap, tmplCounter, partCost
	return w
}

func runA(c *kit.Ctx, r *kit.Rand, idx int) {
	ctx := context.Background()
	cl := kit.NewClient(interceptor.Funcs{})
	for _, dc := range []struct{ name, driver string }{{"excl", exclDriver}, {"cap", capDriver}, {"part", partDriver}, {"gpu", test.GPUDriver}} {
		kit.Apply(ctx, cl, test.DeviceClassWithSelector(dc.name, dc.driver))
	}
	kit.Apply(ctx, cl, test.DeviceClass(resourcev1.DeviceClass{ObjectMeta: metav1.ObjectMeta{Name: "any"}})) // no selectors: every device
	w := newDraWorld(r)
	inCluster, allITs, itNames, udevs, exclNames := w.inCluster, w.allITs, w.itNames, w.udevs, w.exclNames
	devs, capTotals, tbudget := w.devs, w.capTotals, w.tbudget
	capTotal, counterTotal, tmplCap, tmplCounter, partCost := w.capTotal, w.counterTotal, w.tmplCap, w.tmplCounter, w.partCost
	for flag, on := range map[string]bool{"zoned-pool": w.zoned, "multi-alloc-device-without-capacity": w.bare, "incomplete-pool": w.incomplete, "superseded-pool-generation": w.generations,
		"node-local-partition-in-counter-pool": w.nodePartition, "invalid-pool": w.invalidPool} {
		if on {
			c.Count("A:setup:" + flag)
		}
	}
	// ---- state already on the API server
	state := dra.AllocatedDeviceState{ExclusiveDevices: sets.New[cloudprovider.DeviceID](), ConsumedCapacity: map[cloudprovider.DeviceID]map[resourcev1.QualifiedName]resource.Quantity{}}
	var pre []string
	if r.Chance(1, 3) {
		id := cloudprovider.DeviceID{Driver: unique.Make(exclDriver), Pool: unique.Make("excl-pool"), Device: unique.Make(kit.Pick(r, exclNames))}
		state.ExclusiveDevices.Insert(id)
		pre = append(pre, id.String())
		c.Count("A:setup:exclusive-device-preallocated")
	}
	sharedID := cloudprovider.DeviceID{Driver: unique.Make(capDriver), Pool: unique.Make("cap-pool"), Device: unique.Make("shared0")}
	preCap := int64(0)
	if r.Chance(1, 3) {
		preCap = int64(r.Range(1, 3))
		state.ConsumedCapacity[sharedID] = map[resourcev1.QualifiedName]resource.Quantity{test.CapacityMemory: qty(preCap)}
		c.Count("A:setup:shared-capacity-partly-consumed")
	}
	if partCost[0] <= counterTotal && r.Chance(1, 3) { // a partition already allocated in-cluster: its counters are deducted at initialisation
		id := cloudprovider.DeviceID{Driver: unique.Make(partDriver), Pool: unique.Make("part-pool"), Device: unique.Make("p0")}
		state.ExclusiveDevices.Insert(id)
		pre = append(pre, id.String())
		c.Count("A:setup:partition-preallocated")
	}
	if w.nodePartition && counterTotal-lo.Ternary(state.ExclusiveDevices.Len() > 0, partCost[0], 0) >= 1 && r.Bool() {
		id := cloudprovider.DeviceID{Driver: unique.Make(partDriver), Pool: unique.Make("part-pool"), Device: unique.Make("pn0")}
		state.ExclusiveDevices.Insert(id)
		pre = append(pre, id.String())
		c.Count("A:setup:non-targeting-partition-preallocated")
	}
	poolITs := lo.Map(itNames, func(n string, _ int) *cloudprovider.InstanceType { return allITs[n] })
	var committed []*resourcev1.ResourceClaim
	var preClaim, migrating *resourcev1.ResourceClaim
	if state.ExclusiveDevices.Len() > 0 {
		id := state.ExclusiveDevices.UnsortedList()[0]
		preClaim = test.AllocatedClusterWideClaim("in-cluster-claim", id.Pool.Value(), id.Driver.Value(), id.Device.Value())
		if r.Bool() { // the allocation pins the claim to a zone
			preClaim.Status.Allocation.NodeSelector = &corev1.NodeSelector{NodeSelectorTerms: []corev1.NodeSelectorTerm{{MatchExpressions: []corev1.NodeSelectorRequirement{
				{Key: corev1.LabelTopologyZone, Operator: corev1.NodeSelectorOpIn, Values: []string{kit.Pick(r, []string{"test-zone-1", "test-zone-2"})}}}}}}
		}
	}
	deleting := sets.New[types.UID]()
	migratingOnlyDeleting := false
	if r.Chance(1, 3) { // the provisioner has freed this device already (it is not in the preallocated set)
		dev := kit.Pick(r, exclNames)
		devID := cloudprovider.DeviceID{Driver: unique.Make(exclDriver), Pool: unique.Make("excl-pool"), Device: unique.Make(dev)}
		if !state.ExclusiveDevices.Has(devID) {
			deleting.Insert("deleting-pod")
			consumers := []resourcev1.ResourceClaimConsumerReference{{Resource: "pods", Name: "old", UID: "deleting-pod"}}
			migratingOnlyDeleting = true
			switch r.Intn(4) {
			case 1: // also reserved by a pod that stays: the claim stays committed, its device stays taken
				consumers = append(consumers, resourcev1.ResourceClaimConsumerReference{Resource: "pods", Name: "live", UID: "live-pod"})
				migratingOnlyDeleting = false
				state.ExclusiveDevices.Insert(devID)
				pre = append(pre, devID.String())
				c.Count("A:setup:claim-reserved-by-deleting-and-live-pods")
			case 2: // reserved by something that is not a pod
				consumers = []resourcev1.ResourceClaimConsumerReference{{APIGroup: "example.com", Resource: "jobs", Name: "j", UID: "deleting-pod"}}
				migratingOnlyDeleting = false
				state.ExclusiveDevices.Insert(devID)
				pre = append(pre, devID.String())
				c.Count("A:setup:claim-reserved-by-non-pod-consumer")
			}
			migrating = test.AllocatedClusterWideClaim("migrating-claim", "excl-pool", exclDriver, dev, consumers...)
			migrating.Spec.Devices.Requests = []resourcev1.DeviceRequest{test.ExactDeviceRequest("req", "excl", 1)}
		}
	}
	alloc := dra.NewAllocator(inCluster, state, dra.BuildAttributeBindings(map[string][]*cloudprovider.InstanceType{"pool": poolITs}), cl, deleting)
	at := alloc.VerifC17Tracker()
	rem0 := at.VerifC17Budgets().RemainingCounters
	// the partition pool's starting budget is computed here, not read back: counter set minus what preallocated partitions draw
	partKey := fmt.Sprintf("%s|part-pool|cs|slices", partDriver)
	rem0[partKey] = counterTotal
	for _, name := range pre {
		for _, info := range devs {
			if !info.tmpl && info.id.String() == name {
				rem0[partKey] -= info.counters[partKey]
			}
		}
	}
	capb := map[string]int64{}
	for k, v := range capTotals {
		capb[k] = v
	}
	capb[dra.VerifC17CapacityKey(dra.DeviceID{DeviceID: sharedID}, string(test.CapacityMemory))] -= preCap

	// ---- NodeClaims: two or three in flight, one existing initialised node
	var ncs []*aNC
	for i := 0; i < r.Range(2, 3); i++ {
		its := subset(r, itNames, 1)
		if len(its) > 3 {
			its = its[:3]
		}
		nc := &aNC{id: fmt.Sprintf("n%d", i+1), its: its, itObjs: allITs}
		if r.Chance(1, 3) { // the NodeClaim is already narrowed to zones
			zs := subset(r, []string{"test-zone-1", "test-zone-2", "test-zone-3"}, 1)
			nc.reqs = scheduling.NewRequirements(scheduling.NewRequirement(corev1.LabelTopologyZone, corev1.NodeSelectorOpIn, zs...))
			c.Count("A:setup:nodeclaim-with-zone-requirement")
		}
		ncs = append(ncs, nc)
	}
	ncs = append(ncs, &aNC{id: "node3-provider-id", nodeName: "node3", its: []string{"plain"}, itObjs: allITs, existing: true})
	uncs := lo.Map(ncs, func(n *aNC, _ int) string { return n.id })
	ks := kit.SortedKeys(lo.Assign(lo.Assign(map[string]int64{}, rem0, capb), tbudget))

	isAlloc := func(name string, tmpl bool, n *aNC, it string) bool {
		info, ok := devs[name+"|true"]
		if !ok {
			info = devs[name+"|false"]
		}
		return at.IsAllocated(dra.DeviceID{DeviceID: info.id, Template: tmpl}, n, unique.Make(it))
	}
	observe := func(out string) string {
		var bits []string
		for _, d := range udevs {
			for _, tmpl := range []bool{false, true} {
				for _, n := range ncs {
					for _, it := range itNames {
						bits = append(bits, kit.GBool(isAlloc(d, tmpl, n, it)))
					}
				}
			}
		}
		b := at.VerifC17Budgets()
		tused := map[string]map[string]map[string]int64{}
		put := func(n, it, k string, v int64) {
			if tused[n] == nil {
				tused[n] = map[string]map[string]int64{}
			}
			if tused[n][it] == nil {
				tused[n][it] = map[string]int64{}
			}
			tused[n][it][k] = v
		}
		for n, byIT := range b.TemplateRemaining {
			for it, m := range byIT {
				for k, v := range m {
					put(n, it, k, tbudget[k]-v)
				}
			}
		}
		for n, byIT := range b.TemplateConsumed {
			for it, m := range byIT {
				for k, v := range m {
					put(n, it, k, v)
				}
			}
		}
		return fmt.Sprintf("(%s, %s, %s, %s, %s)", out, kit.GList(bits), gKVs(b.RemainingCounters), gKVs(b.InflightCapacity), gTUsed(tused))
	}

	var gops, gobs, jops []string
	failures := 0
	claimNo := 0
	nOps := r.Range(4, 10)
	setupOf := func() map[string]any {
		return map[string]any{"exclusive": exclNames, "shared_capacity": capTotal, "shared_preallocated": preCap, "counter_total": counterTotal,
			"partition_costs": partCost, "template_capacity": tmplCap, "template_counter": tmplCounter, "preallocated": pre,
			"migrating_claim_reserved_only_by_deleting_pods": migratingOnlyDeleting,
			"nodeclaims": lo.Map(ncs, func(n *aNC, _ int) string { return n.id })}
	}
	var lastNC *aNC
	for i := 0; i < nOps; i++ {
		n := kit.Pick(r, ncs)
		if lastNC != nil && r.Chance(2, 5) { // several pods land on the same NodeClaim
			n = lastNC
		}
		lastNC = n
		if len(n.its) == 0 {
			continue
		}
		claimNo++
		var reqs []resourcev1.DeviceRequest
		var jreq []string
		for q, m := 0, r.Range(1, 2); q < m; q++ {
			name := fmt.Sprintf("r%d", q)
			switch r.Intn(14) {
			case 0, 1:
				cls, cnt := kit.Pick(r, []string{"excl", "gpu", "part", "any"}), int64(r.Range(1, 3))
				reqs = append(reqs, test.ExactDeviceRequest(name, cls, cnt))
				jreq = append(jreq, fmt.Sprintf("exact %s x%d", cls, cnt))
			case 2, 3:
				cls, amt := kit.Pick(r, []string{"cap", "gpu"}), r.Range(1, 5)
				reqs = append(reqs, test.ExactDeviceRequestWithCapacity(name, cls, 1, test.CapacityRequest(fmt.Sprint(amt))))
				jreq = append(jreq, fmt.Sprintf("exact %s mem=%d", cls, amt))
			case 4:
				reqs = append(reqs, test.ExactDeviceRequest(name, "cap", 1)) // no capacity request: default or whole device
				jreq = append(jreq, "exact cap (no capacity request)")
			case 5:
				cls := kit.Pick(r, []string{"part", "excl", "gpu", "cap"})
				reqs = append(reqs, test.AllDeviceRequest(name, cls))
				jreq = append(jreq, "all "+cls)
				c.Count("A:request:all-mode-" + cls)
			case 6:
				if r.Chance(1, 2) { // template GPU where the instance type has one, else a share of the in-cluster shared device
					amt := r.Range(1, 4)
					sub := test.DeviceSubRequest("b", "cap", 1)
					sub.Capacity = &resourcev1.CapacityRequirements{Requests: test.CapacityRequest(fmt.Sprint(amt))}
					reqs = append(reqs, test.FirstAvailableDeviceRequest(name, test.DeviceSubRequest("a", "gpu", 1), sub))
					jreq = append(jreq, fmt.Sprintf("first-available gpu | cap mem=%d", amt))
					c.Count("A:request:first-available-template-or-shared-capacity")
					break
				}
				reqs = append(reqs, test.FirstAvailableDeviceRequest(name, test.DeviceSubRequest("a", "gpu", 1), test.DeviceSubRequest("b", kit.Pick(r, []string{"excl", "part"}), 1)))
				jreq = append(jreq, "first-available gpu | in-cluster")
			case 7: // a capacity dimension the device does not publish
				reqs = append(reqs, test.ExactDeviceRequestWithCapacity(name, kit.Pick(r, []string{"cap", "gpu"}), 1, map[resourcev1.QualifiedName]resource.Quantity{"cap.example.com/bandwidth": qty(1)}))
				jreq = append(jreq, "exact with unknown capacity dimension")
				c.Count("A:request:unknown-capacity-dimension")
			case 8: // first-available whose preferred alternative is an All-mode sub-request
				reqs = append(reqs, test.FirstAvailableDeviceRequest(name,
					resourcev1.DeviceSubRequest{Name: "a", DeviceClassName: kit.Pick(r, []string{"part", "gpu"}), AllocationMode: resourcev1.DeviceAllocationModeAll},
					lo.Ternary(r.Chance(1, 3), resourcev1.DeviceSubRequest{Name: "b", DeviceClassName: "part", AllocationMode: resourcev1.DeviceAllocationModeAll}, test.DeviceSubRequest("b", "excl", 1))))
				jreq = append(jreq, "first-available all(part|gpu) | excl or all(part)")
				c.Count("A:request:first-available-with-all-mode")
			case 9: // request-level CEL selector, sometimes one that fails at runtime (attribute not published)
				req := test.ExactDeviceRequest(name, "excl", 1)
				expr := `device.attributes["excl.example.com"].rack == "rack0"`
				if r.Chance(1, 3) {
					expr = `device.attributes["nope.example.com"].x == "y"`
					c.Count("A:request:selector-runtime-error")
				} else if r.Chance(1, 4) {
					expr = `device.driver ==`
					c.Count("A:request:selector-does-not-compile")
				} else {
					c.Count("A:request:selector")
				}
				req.Exactly.Selectors = []resourcev1.DeviceSelector{{CEL: &resourcev1.CELDeviceSelector{Expression: expr}}}
				reqs = append(reqs, req)
				jreq = append(jreq, "exact excl where "+expr)
			case 10:
				reqs = append(reqs, test.ExactDeviceRequest(name, "ghost", 1))
				jreq = append(jreq, "exact of a DeviceClass that does not exist")
				c.Count("A:request:missing-device-class")
			default:
				reqs = append(reqs, test.ExactDeviceRequest(name, "part", 1))
				jreq = append(jreq, "exact part x1")
			}
		}
		claim := test.ResourceClaimForRequests(fmt.Sprintf("claim%d", claimNo), reqs...)
		claim.Namespace = "default"
		if len(reqs) == 2 && reqs[0].Exactly != nil && reqs[1].Exactly != nil && r.Chance(1, 3) {
			if r.Bool() {
				claim.Spec.Devices.Constraints = []resourcev1.DeviceConstraint{test.MatchAttributeConstraint("excl.example.com/rack", "r0", "r1")}
				jreq = append(jreq, "match attribute rack")
				c.Count("A:claim:match-attribute-constraint")
			} else {
				claim.Spec.Devices.Constraints = []resourcev1.DeviceConstraint{{Requests: []string{"r0", "r1"}, DistinctAttribute: lo.ToPtr(resourcev1.FullyQualifiedName("excl.example.com/rack"))}}
				jreq = append(jreq, "distinct attribute rack")
				c.Count("A:claim:distinct-attribute-constraint")
			}
		}
		claims := []*resourcev1.ResourceClaim{claim}
		switch r.Intn(10) {
		case 0: // a claim an earlier pod of this pass already allocated: on its own NodeClaim or on another one
			if len(committed) > 0 {
				old := kit.Pick(r, committed)
				claims = append([]*resourcev1.ResourceClaim{old}, claims...)
				jreq = append(jreq, "+ already allocated in this pass: "+old.Name)
				c.Count("A:claims:reuses-claim-allocated-in-this-pass")
			}
		case 1: // a claim allocated on the API server (its device is in the preallocated set)
			if preClaim != nil {
				claims = append([]*resourcev1.ResourceClaim{preClaim}, claims...)
				jreq = append(jreq, "+ allocated in-cluster: "+preClaim.Name)
				c.Count("A:claims:with-claim-allocated-in-cluster")
			}
		case 2: // a claim allocated in-cluster whose only consumers are pods that are being deleted: allocated afresh
			if migrating != nil {
				claims = append([]*resourcev1.ResourceClaim{migrating}, claims...)
				jreq = append(jreq, "+ allocated in-cluster, reserved only by deleting pods: "+migrating.Name)
				c.Count("A:claims:reserved-only-by-deleting-pods")
			}
		case 3:
			claims = nil
			jreq = []string{"no claims"}
			c.Count("A:claims:none")
		}
		// a second pod that shares the migrating claim after a first pod of the pass re-allocated it
		if migrating != nil && migratingOnlyDeleting && claims != nil && alloc.ResourceClaimAllocationMetadataForClaim(types.NamespacedName{Namespace: "default", Name: migrating.Name}) != nil &&
			!lo.Contains(claims, migrating) && r.Chance(1, 3) {
			claims = append([]*resourcev1.ResourceClaim{migrating}, claims...)
			jreq = append(jreq, "+ second pod sharing the re-allocated migrating-claim")
			c.Count("A:claims:second-pod-shares-reallocated-migrating-claim")
		}
		// ClassifyClaims, per claim, against the model; and the devices of claims this pass already allocated
		before := map[string]string{}
		if searched, cerr := dra.VerifC17Unallocated(alloc, n, claims); cerr == nil {
			for _, cl := range claims {
				meta := alloc.ResourceClaimAllocationMetadataForClaim(types.NamespacedName{Namespace: cl.Namespace, Name: cl.Name})
				onlyDel := cl == migrating && migratingOnlyDeleting
				if cl.Status.Allocation == nil && meta == nil && !r.Chance(1, 10) {
					continue // the plain case (a fresh claim) is sampled, the others are all kept
				}
				c.AddCase(fmt.Sprintf("CaseK %s %s %s %s", kit.GBool(cl.Status.Allocation != nil), kit.GBool(onlyDel), kit.GBool(meta != nil), kit.GBool(lo.Contains(searched, cl.Name))),
					map[string]any{"kind": "classify-claims", "setup": setupOf(), "ops": jops, "claim": cl.Name, "allocated_in_cluster": cl.Status.Allocation != nil,
						"reserved_only_by_deleting_pods": onlyDel, "allocated_earlier_in_this_pass": meta != nil, "searched_again": lo.Contains(searched, cl.Name)},
					fmt.Sprintf("K:%v%v%v", cl.Status.Allocation != nil, onlyDel, meta != nil))
				c.Count(fmt.Sprintf("K:in-cluster=%v only-deleting=%v in-memory=%v", cl.Status.Allocation != nil, onlyDel, meta != nil))
			}
		}
		for _, cl := range claims {
			if meta := alloc.ResourceClaimAllocationMetadataForClaim(types.NamespacedName{Namespace: cl.Namespace, Name: cl.Name}); meta != nil {
				before[cl.Name] = fmt.Sprint(meta.Devices)
			}
		}
		var res *dra.AllocationResult
		var err error
		p, msg := kit.Recover(func() { res, err = alloc.Allocate(ctx, n, claims) })
		if p {
			c.Fail(c.NextID(), "panic in Allocate: "+msg, "", map[string]any{"ops": jops, "claim": jreq})
			c.Count("A:allocate:panic")
			break
		}
		if err != nil {
			failures++
			c.Count("A:allocate:refused")
			jops = append(jops, fmt.Sprintf("allocate %s %v on %s%v -> refused", claim.Name, jreq, n.id, n.its))
			continue
		}
		prop := dra.VerifC17ProposalOf(res)
		if prop == nil {
			c.Count("A:allocate:nothing-to-commit")
			continue
		}
		// render the proposal: exclusive devices, in-cluster counters / capacity, template charges
		var gdevs []string
		tcons := map[string]map[string]int64{}
		for _, it := range kit.SortedKeys(prop.Devices) {
			var gl []string
			for _, id := range prop.Devices[it] {
				if prop.MultiAlloc[it][id.String()] {
					c.Count("A:proposal:multi-allocatable-device")
					continue
				}
				if id.Template {
					c.Count("A:proposal:exclusive-template-device")
				} else {
					c.Count("A:proposal:exclusive-in-cluster-device")
				}
				gl = append(gl, gDev(id.DeviceID.String(), id.Template))
			}
			if len(gl) > 0 {
				gdevs = append(gdevs, kit.GPair(kit.GStr(it), kit.GList(gl)))
			}
			tcons[it] = map[string]int64{}
			for k, v := range prop.TemplateCounters[it] {
				tcons[it][k] += v
			}
			for k, v := range prop.TemplateCapacity[it] {
				tcons[it][k] += v
			}
		}
		for it := range prop.Counters {
			if len(prop.Counters[it]) > 0 {
				c.Count("A:proposal:in-cluster-counters")
				break
			}
		}
		capm := prop.Capacity
		gop := fmt.Sprintf("XCommit %s %s %s %s %s", kit.GStr(n.id), kit.GList(gdevs), gConsByIT(prop.Counters), gConsByIT(capm), gConsByIT(tcons))
		p, msg = kit.Recover(func() { res.Allocation.Commit(ctx) })
		if p {
			gops = append(gops, "("+gop+")")
			gobs = append(gobs, "(DPanic, [], [], [], [])")
			jops = append(jops, fmt.Sprintf("allocate+commit %s %v on %s -> PANIC %s", claim.Name, jreq, n.id, msg))
			c.Count("A:commit:panic")
			c.Fail(c.NextID(), "Commit panicked: "+msg, "", map[string]any{"kind": "dra-allocator", "setup": setupOf(), "ops": jops})
			break
		}
		for name, devsBefore := range before {
			if meta := alloc.ResourceClaimAllocationMetadataForClaim(types.NamespacedName{Namespace: "default", Name: name}); meta == nil || fmt.Sprint(meta.Devices) != devsBefore {
				c.Fail(c.NextID(), fmt.Sprintf("claim %s was already allocated in this pass and has been allocated again: %s -> %v", name, devsBefore, meta), "",
					map[string]any{"kind": "dra-allocator", "setup": setupOf(), "ops": jops})
			}
		}
		committed = append(committed, claims...)
		gops = append(gops, "("+gop+")")
		gobs = append(gobs, observe("DUnit"))
		jops = append(jops, fmt.Sprintf("allocate+commit %s %v on %s%v -> its %v", claim.Name, jreq, n.id, n.its, lo.Map(res.InstanceTypes, func(i dra.InstanceTypeID, _ int) string { return i.Value() })))
		if len(res.InstanceTypes) > 1 {
			c.Count("A:commit:superposed-over-instance-types")
		} else {
			c.Count("A:commit:single-instance-type")
		}
		// the scheduler narrows the NodeClaim to (a subset of) the surviving instance types and releases the pruned ones
		surviving := lo.Map(res.InstanceTypes, func(i dra.InstanceTypeID, _ int) string { return i.Value() })
		keep := surviving
		if len(surviving) > 1 && r.Chance(1, 2) {
			keep = subset(r, surviving, 1)
		}
		var pruned []string
		for _, it := range surviving {
			if !contains(keep, it) {
				pruned = append(pruned, it)
			}
		}
		n.its = keep
		if len(pruned) > 0 {
			alloc.ReleaseInstanceType(ctx, unique.Make(n.id), lo.Map(pruned, func(s string, _ int) dra.InstanceTypeID { return unique.Make(s) })...)
			gops = append(gops, fmt.Sprintf("(XRelease %s %s)", kit.GStr(n.id), kit.GStrs(pruned)))
			gobs = append(gobs, observe("DUnit"))
			jops = append(jops, fmt.Sprintf("release %s %v", n.id, pruned))
			c.Count("A:release:pruned-instance-types")
		}
	}
	setup := setupOf()
	key := ""
	if len(gops) >= 3 {
		key = fmt.Sprint("A:", setup, jops)
	}
	c.AddCase(fmt.Sprintf("CaseX %s %s %s %s %s %s %s %s true %s %s", kit.GStrs(pre), kit.GStrs(udevs), kit.GStrs(uncs), kit.GStrs(itNames), kit.GStrs(ks),
		gKVs(rem0), gKVs(capb), gKVs(tbudget), kit.GList(gops), kit.GList(gobs)), acase{"dra-allocator", setup, jops, failures, nil}, key)

	// ---- final-state oracle over the claim allocation metadata
	var metas []claimMeta
	for claimID, meta := range alloc.ResourceClaimAllocationMetadata() {
		metas = append(metas, claimMeta{claimID.Value().Name, meta})
	}
	grecs, jrecs := finalRecords(w, metas)
	budgets := lo.Assign(map[string]int64{}, rem0, capb)
	c.Count(fmt.Sprintf("A:final:records:%d", lo.Min([]int{len(grecs) / 3 * 3, 12})))
	c.AddCase(fmt.Sprintf("CaseF %s %s %s %s", kit.GStrs(pre), gKVs(budgets), gKVs(tbudget), kit.GList(grecs)), acase{"dra-final-state", setup, jops, failures, jrecs}, "")
}

// ------------------------------------------------------------------ part B: tracker budgets driven directly (pessimistic maximum)

func runB(c *kit.Ctx, r *kit.Rand, idx int) {
	ctx := context.Background()
	ncs := []string{"n1", "n2", "n3"}
	its := []string{"a", "b", "c"}
	at := dra.NewAllocationTracker(dra.AllocatedDeviceState{ExclusiveDevices: sets.New[cloudprovider.DeviceID]()})
	rem0 := map[string]int64{"drv|parts|cs|c1": int64(r.Range(2, 8)), "drv|parts|cs|c2": int64(r.Range(2, 8))}
	dra.VerifC17SetRemainingCounters(at, "drv", "parts", "cs", map[string]int64{"c1": rem0["drv|parts|cs|c1"], "c2": rem0["drv|parts|cs|c2"]})
	rem0["drv|parts2|cs|d1"] = int64(r.Range(2, 8)) // a second pool
	dra.VerifC17SetRemainingCounters(at, "drv", "parts2", "cs", map[string]int64{"d1": rem0["drv|parts2|cs|d1"]})
	shared := dra.DeviceID{DeviceID: cloudprovider.DeviceID{Driver: unique.Make("drv"), Pool: unique.Make("caps"), Device: unique.Make("s0")}}
	capKey := dra.VerifC17CapacityKey(shared, "mem")
	capb := map[string]int64{capKey: int64(r.Range(3, 9))}
	ks := []string{capKey, "drv|parts|cs|c1", "drv|parts|cs|c2", "drv|parts2|cs|d1"}
	udevs := []string{shared.DeviceID.String()}
	observe := func() string {
		var bits []string
		for _, tmpl := range []bool{false, true} {
			for _, n := range ncs {
				for _, it := range its {
					bits = append(bits, kit.GBool(at.IsAllocated(dra.DeviceID{DeviceID: shared.DeviceID, Template: tmpl}, tNC{n}, unique.Make(it))))
				}
			}
		}
		b := at.VerifC17Budgets()
		return fmt.Sprintf("(DUnit, %s, %s, %s, [])", kit.GList(bits), gKVs(b.RemainingCounters), gKVs(b.InflightCapacity))
	}
	var gops, gobs, jops []string
	for i, nOps := 0, r.Range(4, 14); i < nOps; i++ {
		n := kit.Pick(r, ncs)
		if r.Chance(3, 5) {
			b := at.VerifC17Budgets()
			cnt := map[string]map[string]int64{}
			capm := map[string]map[string]int64{}
			cuses := map[string][]dra.VerifC17CounterUse{}
			kuses := map[string][]dra.VerifC17CapacityUse{}
			devsByIT := map[dra.InstanceTypeID][]dra.DeviceID{}
			for _, it := range subset(r, its, 1) {
				// guarded like checkCounters / checkCapacity: this instance type's new consumption fits what is left now
				for _, cn := range []string{"c1", "c2"} {
					k := "drv|parts|cs|" + cn
					if left := b.RemainingCounters[k]; left > 0 && r.Chance(2, 3) {
						v := int64(r.Range(1, int(left)))
						if cnt[it] == nil {
							cnt[it] = map[string]int64{}
						}
						cnt[it][k] = v
						cuses[it] = append(cuses[it], dra.VerifC17CounterUse{Driver: "drv", Pool: "parts", Set: "cs", Counter: cn, Value: v})
					}
				}
				if left := b.RemainingCounters["drv|parts2|cs|d1"]; left > 0 && r.Chance(1, 3) {
					v := int64(r.Range(1, int(left)))
					if cnt[it] == nil {
						cnt[it] = map[string]int64{}
					}
					cnt[it]["drv|parts2|cs|d1"] = v
					cuses[it] = append(cuses[it], dra.VerifC17CounterUse{Driver: "drv", Pool: "parts2", Set: "cs", Counter: "d1", Value: v})
					c.Count("B:commit:second-pool")
				}
				if r.Chance(1, 8) { // consumption the tracker keeps no budget for: unknown counter set or pool (an unknown counter of a known set is left out:
					// subtractDeltaFromRemaining skips it but addDeltaToRemaining would create the entry on release; the allocator never proposes it)
					u := kit.Pick(r, []dra.VerifC17CounterUse{{Driver: "drv", Pool: "parts", Set: "csX", Counter: "c1", Value: 1}, {Driver: "drv", Pool: "ghost", Set: "cs", Counter: "c1", Value: 1}})
					if cnt[it] == nil {
						cnt[it] = map[string]int64{}
					}
					cnt[it][fmt.Sprintf("%s|%s|%s|%s", u.Driver, u.Pool, u.Set, u.Counter)] = u.Value
					cuses[it] = append(cuses[it], u)
					c.Count("B:commit:counter-without-tracked-budget")
				}
				if left := capb[capKey] - b.InflightCapacity[capKey]; left > 0 && r.Chance(2, 3) {
					v := int64(r.Range(1, int(left)))
					capm[it] = map[string]int64{capKey: v}
					kuses[it] = append(kuses[it], dra.VerifC17CapacityUse{Device: shared, Dim: "mem", Value: v})
					devsByIT[unique.Make(it)] = []dra.DeviceID{shared}
				}
			}
			if len(cnt) == 0 && len(capm) == 0 {
				continue
			}
			dra.VerifC17CommitFull(at, unique.Make(n), devsByIT, cuses, kuses)
			if len(cnt) > 1 || len(capm) > 1 {
				c.Count("B:commit:unequal-consumption-across-instance-types")
			} else {
				c.Count("B:commit:one-instance-type")
			}
			gops = append(gops, fmt.Sprintf("(XCommit %s [] %s %s [])", kit.GStr(n), gConsByIT(cnt), gConsByIT(capm)))
			jops = append(jops, fmt.Sprint("commit ", n, cnt, capm))
		} else {
			rel := subset(r, its, 1)
			at.ReleaseInstanceTypes(ctx, unique.Make(n), lo.Map(rel, func(s string, _ int) dra.InstanceTypeID { return unique.Make(s) })...)
			c.Count("B:release")
			gops = append(gops, fmt.Sprintf("(XRelease %s %s)", kit.GStr(n), kit.GStrs(rel)))
			jops = append(jops, fmt.Sprint("release ", n, rel))
		}
		gobs = append(gobs, observe())
	}
	key := ""
	if len(gops) >= 4 {
		key = fmt.Sprint("B:", rem0, capb, jops)
	}
	c.AddCase(fmt.Sprintf("CaseX [] %s %s %s %s %s %s [] true %s %s", kit.GStrs(udevs), kit.GStrs(ncs), kit.GStrs(its), kit.GStrs(ks), gKVs(rem0), gKVs(capb),
		kit.GList(gops), kit.GList(gobs)), map[string]any{"kind": "dra-tracker-budgets", "remaining_counters": rem0, "capacity": capb, "ops": jops}, key)
}

// ------------------------------------------------------------------ part P: capacity request policy

func runP(c *kit.Ctx, r *kit.Rand, idx int) {
	total := int64(r.Range(1, 16))
	var req *int64
	if r.Chance(2, 3) {
		v := int64(r.Range(0, 18))
		req = &v
	}
	var pol *resourcev1.CapacityRequestPolicy
	gpol := "None"
	jpol := "none"
	switch r.Intn(5) {
	case 0:
	case 1:
		d := int64(r.Range(1, 8))
		pol = &resourcev1.CapacityRequestPolicy{Default: lo.ToPtr(qty(d))}
		gpol = fmt.Sprintf("(Some (mkPol (Some %s) None []))", kit.GZ(d))
		jpol = fmt.Sprint("default=", d)
	case 2, 3:
		mn, step := int64(r.Range(0, 4)), int64(r.Range(1, 4))
		rng := &resourcev1.CapacityRequestPolicyRange{Min: lo.ToPtr(qty(mn))}
		gmax, gstep, gdef := "None", "None", "None"
		if r.Bool() {
			mx := mn + int64(r.Range(0, 10))
			rng.Max = lo.ToPtr(qty(mx))
			gmax = "(Some " + kit.GZ(mx) + ")"
		}
		if r.Chance(2, 3) {
			rng.Step = lo.ToPtr(qty(step))
			gstep = "(Some " + kit.GZ(step) + ")"
		}
		pol = &resourcev1.CapacityRequestPolicy{ValidRange: rng}
		if r.Chance(1, 3) {
			d := int64(r.Range(1, 8))
			pol.Default = lo.ToPtr(qty(d))
			gdef = "(Some " + kit.GZ(d) + ")"
		}
		gpol = fmt.Sprintf("(Some (mkPol %s (Some ((Some %s), %s, %s)) []))", gdef, kit.GZ(mn), gmax, gstep)
		jpol = fmt.Sprintf("range min=%d max=%s step=%s default=%s", mn, gmax, gstep, gdef)
	default:
		vals := []int64{}
		v := int64(0)
		for i, m := 0, r.Range(1, 4); i < m; i++ {
			v += int64(r.Range(1, 4))
			vals = append(vals, v)
		}
		pol = &resourcev1.CapacityRequestPolicy{ValidValues: lo.Map(vals, func(x int64, _ int) resource.Quantity { return qty(x) })}
		gpol = fmt.Sprintf("(Some (mkPol None None %s))", kit.GListOf(vals, kit.GZ))
		jpol = fmt.Sprint("values=", vals)
	}
	requests := map[resourcev1.QualifiedName]resource.Quantity{}
	if req != nil {
		requests["mem"] = qty(*req)
	}
	out, err := dra.VerifC17ConsumedCapacity(requests, map[resourcev1.QualifiedName]resourcev1.DeviceCapacity{"mem": {Value: qty(total), RequestPolicy: pol}})
	gobs := "None"
	switch {
	case err != nil:
		c.Count("P:violates-policy")
	default:
		q := out["mem"]
		gobs = "(Some " + kit.GZ(q.Value()) + ")"
		if req != nil && q.Value() != *req {
			c.Count("P:rounded-up")
		} else if req == nil {
			c.Count("P:filled-empty-request")
		} else {
			c.Count("P:as-requested")
		}
	}
	greq := "None"
	if req != nil {
		greq = "(Some " + kit.GZ(*req) + ")"
	}
	c.AddCase(fmt.Sprintf("CaseP %s %s %s %s", greq, kit.GZ(total), gpol, gobs), map[string]any{"kind": "capacity-policy", "request": req, "total": total, "policy": jpol, "consumed": gobs},
		fmt.Sprint("P:", greq, total, jpol))
}
