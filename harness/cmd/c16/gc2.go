package main

import (
	"fmt"
	"sort"

	corev1 "k8s.io/api/core/v1"
	metav1 "k8s.io/apimachinery/pkg/apis/meta/v1"
	clock "k8s.io/utils/clock/testing"
	"sigs.k8s.io/controller-runtime/pkg/client"

	v1 "sigs.k8s.io/karpenter/pkg/apis/v1"
	"sigs.k8s.io/karpenter/pkg/controllers/nodeclaim/garbagecollection"

	"verifharness/kit"
)

// One environment event that happens between the two snapshot reads of a GC pass.
type gc2Event struct {
	Kind  string   // launch | terminate | mark-terminating | appear | register
	Claim *gcClaim // launch: the new claim (Registered); register: the name of an existing claim
	PID   string   // terminate / mark-terminating / appear: the instance
	Node  string   // launch: Ready status of the Node that joined ("" = no Node object yet)
}

type gc2Case struct {
	Claims   []gcClaim
	Insts    []gcInst
	Nodes    []gcNode
	NodeFail []string
	Events   []gc2Event
}

func gcClaimObj(cl gcClaim) *v1.NodeClaim {
	nc := &v1.NodeClaim{
		ObjectMeta: metav1.ObjectMeta{Name: cl.Name, CreationTimestamp: metav1.Time{Time: baseTime()}},
		Spec:       v1.NodeClaimSpec{NodeClassRef: classRef(cl.Managed)},
		Status:     v1.NodeClaimStatus{ProviderID: cl.PID, NodeName: "node-of-" + cl.Name},
	}
	if cl.Registered != "Absent" {
		nc.Status.Conditions = append(nc.Status.Conditions, cond(v1.ConditionTypeRegistered, condStatus(cl.Registered), baseTime()))
	}
	if cl.Deleting {
		nc.Finalizers = []string{v1.TerminationFinalizer}
	}
	return nc
}

func gcNodeObj(n gcNode) *corev1.Node {
	node := &corev1.Node{ObjectMeta: metav1.ObjectMeta{Name: n.Name}, Spec: corev1.NodeSpec{ProviderID: n.PID}}
	if n.Ready != "Absent" {
		node.Status.Conditions = []corev1.NodeCondition{{Type: corev1.NodeReady, Status: corev1.ConditionStatus(n.Ready)}}
	}
	return node
}

func instObj(in gcInst) *v1.NodeClaim {
	pc := &v1.NodeClaim{Status: v1.NodeClaimStatus{ProviderID: in.PID}}
	if in.Deleting {
		pc.DeletionTimestamp = &metav1.Time{Time: baseTime()}
	}
	return pc
}

func doGC2(c *kit.Ctx, x gc2Case) {
	ctx := kit.Context()
	var rules []rule
	for _, p := range x.NodeFail {
		rules = append(rules, rule{"list", "Node", "spec.providerID=" + p, -1, "err"})
	}
	allClaims := append([]gcClaim{}, x.Claims...)
	for _, e := range x.Events {
		if e.Kind == "launch" {
			allClaims = append(allClaims, *e.Claim)
		}
	}
	for _, cl := range allClaims {
		if cl.DelF != "" {
			rules = append(rules, rule{"delete", "NodeClaim", cl.Name, 0, cl.DelF})
		}
	}
	d := decorFor(c)
	rules = d.rules(rules)
	w := newWorld(rules...)
	var deleting []*v1.NodeClaim
	for _, cl := range x.Claims {
		nc := gcClaimObj(cl)
		d.claim(nc)
		d.pods(w, "node-of-"+cl.Name)
		w.add(nc)
		if cl.Deleting {
			deleting = append(deleting, nc)
		}
	}
	for _, n := range x.Nodes {
		w.add(gcNodeObj(n))
	}
	w.build()
	for _, nc := range deleting {
		markDeleting(ctx, w.inner, nc)
	}
	cp := newProvider()
	for _, in := range x.Insts {
		cp.list = append(cp.list, instObj(in))
	}

	// the state after the events, tracked alongside
	claims1 := append([]gcClaim{}, x.Claims...)
	insts1 := append([]gcInst{}, x.Insts...)
	nodes1 := append([]gcNode{}, x.Nodes...)
	fire := func() {
		for _, e := range x.Events {
			switch e.Kind {
			case "launch":
				// the instance exists from the moment the claim is visible as Registered
				cp.list = append(cp.list, instObj(gcInst{e.Claim.PID, false}))
				insts1 = append(insts1, gcInst{e.Claim.PID, false})
				kit.Apply(ctx, w.inner, gcClaimObj(*e.Claim))
				claims1 = append(claims1, *e.Claim)
				if e.Node != "" {
					n := gcNode{"joined-" + e.Claim.Name, e.Claim.PID, e.Node}
					kit.Apply(ctx, w.inner, gcNodeObj(n))
					nodes1 = append(nodes1, n)
				}
			case "terminate":
				var keep []*v1.NodeClaim
				for _, pc := range cp.list {
					if pc.Status.ProviderID != e.PID {
						keep = append(keep, pc)
					}
				}
				cp.list = keep
				var k2 []gcInst
				for _, in := range insts1 {
					if in.PID != e.PID {
						k2 = append(k2, in)
					}
				}
				insts1 = k2
			case "mark-terminating":
				for _, pc := range cp.list {
					if pc.Status.ProviderID == e.PID {
						pc.DeletionTimestamp = &metav1.Time{Time: baseTime()}
					}
				}
				for k := range insts1 {
					if insts1[k].PID == e.PID {
						insts1[k].Deleting = true
					}
				}
			case "appear":
				cp.list = append(cp.list, instObj(gcInst{e.PID, false}))
				insts1 = append(insts1, gcInst{e.PID, false})
			case "register":
				for k := range claims1 {
					if claims1[k].Name == e.Claim.Name {
						claims1[k].Registered = "True"
						nc := &v1.NodeClaim{}
						if err := w.inner.Get(ctx, client.ObjectKey{Name: e.Claim.Name}, nc); err != nil {
							panic(err)
						}
						nc.Status.Conditions = nil
						nc.Status.Conditions = append(nc.Status.Conditions, cond(v1.ConditionTypeRegistered, metav1.ConditionTrue, baseTime()))
						if err := w.inner.Status().Update(ctx, nc); err != nil {
							panic(err)
						}
					}
				}
			}
		}
	}
	// fire before whichever of the two snapshot reads comes second
	var order []string
	onRead := func(which string) {
		order = append(order, which)
		if len(order) == 2 {
			fire()
		}
	}
	w.before = func(verb, kind string) {
		if verb == "list" && kind == "NodeClaim" {
			onRead("claims")
		}
	}
	cp.onList = func() { onRead("provider") }

	clk := clock.NewFakeClock(baseTime().Add(3600e9))
	res, err := garbagecollection.NewController(clk, w.c, cp).Reconcile(ctx)

	if len(order) < 2 {
		// the second read never happened: nothing changed as far as the pass is concerned
		claims1, insts1, nodes1 = append([]gcClaim{}, x.Claims...), append([]gcInst{}, x.Insts...), append([]gcNode{}, x.Nodes...)
	}
	gorder := "ClaimsFirst"
	if len(order) > 0 && order[0] == "provider" {
		gorder = "ProviderFirst"
	}
	delResp := map[string]string{}
	var deleted []string
	for _, e := range w.events("delete", "NodeClaim") {
		delResp[e.Key] = e.Resp
		deleted = append(deleted, e.Key)
	}
	sort.Strings(deleted)
	byName := func(cs []gcClaim) { sort.Slice(cs, func(i, j int) bool { return cs[i].Name < cs[j].Name }) }
	c0 := append([]gcClaim{}, x.Claims...)
	byName(c0)
	byName(claims1)
	sort.Slice(nodes1, func(i, j int) bool { return nodes1[i].Name < nodes1[j].Name })
	gworld := func(cs []gcClaim, is []gcInst) string {
		return fmt.Sprintf("(mkGWorld %s %s)",
			kit.GListOf(cs, func(cl gcClaim) string {
				r := delResp[cl.Name]
				if r == "" {
					r = "AOk"
				}
				return fmt.Sprintf("mkGClaim %s %s %s %s %s %s", kit.GStr(cl.Name), kit.GBool(cl.Managed), kit.GBool(cl.Registered == "True"),
					kit.GBool(cl.Deleting), kit.GStr(cl.PID), r)
			}),
			kit.GListOf(is, func(in gcInst) string { return fmt.Sprintf("mkGInst %s %s", kit.GStr(in.PID), kit.GBool(in.Deleting)) }))
	}
	gnodes := kit.GListOf(nodes1, func(n gcNode) string { return fmt.Sprintf("mkGNode %s %s", kit.GStr(n.PID), kit.GBool(n.Ready == "True")) })
	in := fmt.Sprintf("%s %s %s %s %s", gorder, gworld(c0, x.Insts), gworld(claims1, insts1), gnodes, kit.GStrs(x.NodeFail))

	c.Count("gc2:order-" + gorder)
	kinds := ""
	for _, e := range x.Events {
		kinds += e.Kind + "+"
		hit := ""
		switch {
		case e.Kind == "launch":
			if _, ok := delResp[e.Claim.Name]; ok {
				hit = " fresh-claim-deleted"
			} else {
				hit = " fresh-claim-kept"
			}
		case e.Kind == "register":
			if _, ok := delResp[e.Claim.Name]; ok {
				hit = " deleted"
			} else {
				hit = " kept"
			}
		default:
			for _, cl := range claims1 {
				if cl.PID == e.PID && cl.Registered == "True" && !cl.Deleting && cl.Managed {
					if _, ok := delResp[cl.Name]; ok {
						hit = " claim-deleted"
					} else {
						hit = " claim-kept"
					}
				}
			}
		}
		c.Count("gc2:event-" + e.Kind + hit)
	}
	if len(x.Events) == 0 {
		c.Count("gc2:no-event")
	}
	c.AddCase(fmt.Sprintf("CaseG2 %s %s %s", in, kit.GStrs(deleted), resClass(false, res.RequeueAfter, err)),
		J{"reaper": "gc-two-reads", "case": x, "observed_order": order}, "G2:"+in)
}

func runGC2(c *kit.Ctx) {
	reg := func(name, pid string) gcClaim { return gcClaim{Name: name, Managed: true, Registered: "True", PID: pid} }
	fresh := func(df string) *gcClaim { cl := reg("fresh", "p7"); cl.DelF = df; return &cl }
	bases := []gc2Case{
		{},
		// control: registered, instance gone, node not ready (must be reaped)
		{Claims: []gcClaim{reg("gone", "p0")}, Nodes: []gcNode{{"n-gone", "p0", "False"}}},
		// a healthy claim next to it
		{Claims: []gcClaim{reg("gone", "p0"), reg("ok", "p1")}, Insts: []gcInst{{"p1", false}}, Nodes: []gcNode{{"n-gone", "p0", "False"}, {"n-ok", "p1", "True"}}},
	}
	// a claim launches and registers between the reads
	for _, b := range bases {
		for _, node := range []string{"", "False", "Unknown", "True"} {
			for _, df := range []string{"", "err"} {
				x := b
				x.Events = []gc2Event{{Kind: "launch", Claim: fresh(df), Node: node}}
				doGC2(c, x)
			}
		}
	}
	// the instance of a registered claim terminates / is marked terminating between the reads; or nothing happens
	for _, node := range []string{"", "False", "True"} {
		for _, ev := range []string{"terminate", "mark-terminating", ""} {
			for _, df := range []string{"", "err", "nf"} {
				cl := reg("a", "p1")
				cl.DelF = df
				x := gc2Case{Claims: []gcClaim{cl, reg("b", "p2")}, Insts: []gcInst{{"p1", false}, {"p2", false}}}
				if node != "" {
					x.Nodes = []gcNode{{"n-a", "p1", node}}
				}
				if ev != "" {
					x.Events = []gc2Event{{Kind: ev, PID: "p1"}}
				}
				doGC2(c, x)
			}
		}
	}
	// an instance appears for a registered claim that had none; an unregistered claim registers (its instance appears with it)
	for _, node := range []string{"", "False", "True"} {
		x := gc2Case{Claims: []gcClaim{reg("a", "p1")}, Events: []gc2Event{{Kind: "appear", PID: "p1"}}}
		if node != "" {
			x.Nodes = []gcNode{{"n-a", "p1", node}}
		}
		doGC2(c, x)
		for _, r0 := range []string{"False", "Unknown", "Absent"} {
			cl := reg("a", "p1")
			cl.Registered = r0
			y := gc2Case{Claims: []gcClaim{cl}, Nodes: x.Nodes, Events: []gc2Event{{Kind: "register", Claim: &gcClaim{Name: "a"}}, {Kind: "appear", PID: "p1"}}}
			doGC2(c, y)
			// registers although the instance is not (yet) visible at the provider
			y.Events = y.Events[:1]
			doGC2(c, y)
		}
	}
	n := 120
	if c.Thorough() {
		n = 3000
	}
	pids := []string{"p1", "p2", "p3"}
	for i := 0; i < n; i++ {
		r := c.Rand.Fork()
		var x gc2Case
		for k, nc := 0, r.Range(0, 3); k < nc; k++ {
			cl := reg(fmt.Sprintf("c%d", k), pids[k])
			if r.Chance(1, 5) {
				cl.Registered = kit.Pick(r, []string{"False", "Unknown", "Absent"})
			}
			cl.Deleting = r.Chance(1, 10)
			if r.Chance(1, 6) {
				cl.DelF = kit.Pick(r, []string{"nf", "err"})
			}
			x.Claims = append(x.Claims, cl)
			if r.Chance(3, 5) {
				x.Insts = append(x.Insts, gcInst{cl.PID, r.Chance(1, 5)})
			}
			if r.Chance(3, 4) {
				x.Nodes = append(x.Nodes, gcNode{"n-" + cl.Name, cl.PID, kit.Pick(r, []string{"True", "True", "False", "Unknown", "Absent"})})
			}
			if r.Chance(1, 10) {
				x.NodeFail = append(x.NodeFail, cl.PID)
			}
		}
		for k, ne := 0, r.Range(1, 2); k < ne; k++ {
			switch r.Intn(5) {
			case 0, 1:
				if k == 0 {
					x.Events = append(x.Events, gc2Event{Kind: "launch", Claim: fresh(kit.Pick(r, []string{"", "", "err"})), Node: kit.Pick(r, []string{"", "False", "False", "Unknown", "True"})})
				}
			case 2:
				x.Events = append(x.Events, gc2Event{Kind: kit.Pick(r, []string{"terminate", "mark-terminating"}), PID: kit.Pick(r, pids)})
			case 3:
				x.Events = append(x.Events, gc2Event{Kind: "appear", PID: kit.Pick(r, pids)})
			case 4:
				if len(x.Claims) > 0 {
					x.Events = append(x.Events, gc2Event{Kind: "register", Claim: &gcClaim{Name: kit.Pick(r, x.Claims).Name}})
				}
			}
		}
		doGC2(c, x)
	}
}
