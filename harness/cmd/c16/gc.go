package main

import (
	"errors"
	"fmt"
	"sort"

	corev1 "k8s.io/api/core/v1"
	metav1 "k8s.io/apimachinery/pkg/apis/meta/v1"
	clock "k8s.io/utils/clock/testing"

	v1 "sigs.k8s.io/karpenter/pkg/apis/v1"
	"sigs.k8s.io/karpenter/pkg/controllers/nodeclaim/garbagecollection"

	"verifharness/kit"
)

type gcClaim struct {
	Name       string
	Managed    bool
	Registered string // True | False | Unknown | Absent
	Deleting   bool
	PID        string
	DelF       string // "" | nf | err
}
type gcInst struct {
	PID      string
	Deleting bool
}
type gcNode struct {
	Name, PID, Ready string // Ready: True | False | Unknown | Absent
}
type gcCase struct {
	Claims       []gcClaim
	ClaimsFail   bool
	Insts        []gcInst
	ProviderFail bool
	Nodes        []gcNode
	NodeFail     []string
	FailKind     string // error kind of the failing list calls: "" = err | nf | conflict
}

func doGC(c *kit.Ctx, x gcCase) {
	ctx := kit.Context()
	sort.Slice(x.Claims, func(i, j int) bool { return x.Claims[i].Name < x.Claims[j].Name })
	sort.Slice(x.Nodes, func(i, j int) bool { return x.Nodes[i].Name < x.Nodes[j].Name })
	var rules []rule
	kind := x.FailKind
	if kind == "" {
		kind = "err"
	}
	if x.ClaimsFail {
		rules = append(rules, rule{"list", "NodeClaim", "", -1, kind})
	}
	for _, p := range x.NodeFail {
		rules = append(rules, rule{"list", "Node", "spec.providerID=" + p, -1, kind})
	}
	d := decorFor(c)
	rules = d.rules(rules)
	if x.ClaimsFail || len(x.NodeFail) > 0 {
		c.Count("gc:list-fault-kind=" + kind)
	}
	for _, cl := range x.Claims {
		if cl.DelF != "" {
			rules = append(rules, rule{"delete", "NodeClaim", cl.Name, 0, cl.DelF})
		}
	}
	w := newWorld(rules...)
	t0 := baseTime()
	var deleting []*v1.NodeClaim
	for _, cl := range x.Claims {
		nc := &v1.NodeClaim{
			ObjectMeta: metav1.ObjectMeta{Name: cl.Name, CreationTimestamp: metav1.Time{Time: t0}},
			Spec:       v1.NodeClaimSpec{NodeClassRef: classRef(cl.Managed)},
			Status:     v1.NodeClaimStatus{ProviderID: cl.PID, NodeName: "node-of-" + cl.Name},
		}
		if cl.Registered != "Absent" {
			nc.Status.Conditions = append(nc.Status.Conditions, cond(v1.ConditionTypeRegistered, condStatus(cl.Registered), t0))
		}
		if cl.Deleting {
			nc.Finalizers = []string{v1.TerminationFinalizer}
		}
		d.claim(nc)
		d.pods(w, "node-of-"+cl.Name)
		w.add(nc)
		if cl.Deleting {
			deleting = append(deleting, nc)
		}
	}
	for _, n := range x.Nodes {
		node := &corev1.Node{ObjectMeta: metav1.ObjectMeta{Name: n.Name}, Spec: corev1.NodeSpec{ProviderID: n.PID}}
		if n.Ready != "Absent" {
			node.Status.Conditions = []corev1.NodeCondition{
				{Type: corev1.NodeMemoryPressure, Status: corev1.ConditionTrue},
				{Type: corev1.NodeReady, Status: corev1.ConditionStatus(n.Ready)},
			}
		}
		w.add(node)
	}
	w.build()
	for _, nc := range deleting {
		markDeleting(ctx, w.inner, nc)
	}
	cp := newProvider()
	if x.ProviderFail {
		cp.listErr = errors.New("injected provider list failure")
	}
	for _, in := range x.Insts {
		pc := &v1.NodeClaim{Status: v1.NodeClaimStatus{ProviderID: in.PID}}
		if in.Deleting {
			pc.DeletionTimestamp = &metav1.Time{Time: t0}
		}
		cp.list = append(cp.list, pc)
	}
	clk := clock.NewFakeClock(t0.Add(3600e9))
	res, err := garbagecollection.NewController(clk, w.c, cp).Reconcile(ctx)

	delResp := map[string]string{}
	var deleted []string
	for _, e := range w.events("delete", "NodeClaim") {
		if _, dup := delResp[e.Key]; dup {
			deleted = append(deleted, e.Key) // a second Delete on the same claim shows up as a mismatch
		}
		delResp[e.Key] = e.Resp
		deleted = append(deleted, e.Key)
	}
	sort.Strings(deleted)

	// --- emit
	gclaims := kit.GListOf(x.Claims, func(cl gcClaim) string {
		r := delResp[cl.Name]
		if r == "" {
			r = "AOk"
		}
		return fmt.Sprintf("mkGClaim %s %s %s %s %s %s", kit.GStr(cl.Name), kit.GBool(cl.Managed), kit.GBool(cl.Registered == "True"),
			kit.GBool(cl.Deleting), kit.GStr(cl.PID), r)
	})
	ginsts := kit.GListOf(x.Insts, func(in gcInst) string { return fmt.Sprintf("mkGInst %s %s", kit.GStr(in.PID), kit.GBool(in.Deleting)) })
	gnodes := kit.GListOf(x.Nodes, func(n gcNode) string { return fmt.Sprintf("mkGNode %s %s", kit.GStr(n.PID), kit.GBool(n.Ready == "True")) })
	in := fmt.Sprintf("(mkGc %s %s %s %s)", kit.GOpt(!x.ClaimsFail, gclaims), kit.GOpt(!x.ProviderFail, ginsts), gnodes, kit.GStrs(x.NodeFail))

	// --- branch table
	nontrivial, termDeleted := false, false
	switch {
	case x.ClaimsFail:
		c.Count("gc:claims-list-failed")
	case x.ProviderFail:
		c.Count("gc:provider-list-failed")
	default:
		live, term := map[string]bool{}, map[string]bool{}
		for _, i := range x.Insts {
			if i.Deleting {
				term[i.PID] = true
			} else {
				live[i.PID] = true
			}
		}
		for _, cl := range x.Claims {
			switch {
			case !cl.Managed:
				c.Count("gc:claim-unmanaged")
				continue
			case cl.Registered != "True":
				c.Count("gc:claim-not-registered(" + cl.Registered + ")")
				continue
			case cl.Deleting:
				c.Count("gc:claim-deleting")
				continue
			case live[cl.PID]:
				c.Count("gc:claim-listed-live")
				continue
			}
			nontrivial = true
			if term[cl.PID] {
				if _, ok := delResp[cl.Name]; ok {
					termDeleted = true
				}
				c.Count("gc:candidate-listed-terminating")
			} else {
				c.Count("gc:candidate-not-listed")
			}
			var ready []string
			for _, n := range x.Nodes {
				if n.PID == cl.PID {
					ready = append(ready, n.Ready)
				}
			}
			failed := false
			for _, p := range x.NodeFail {
				failed = failed || p == cl.PID
			}
			switch {
			case cl.PID == "":
				c.Count("gc:lookup-no-provider-id")
			case failed:
				c.Count("gc:lookup-failed")
			case len(ready) == 0:
				c.Count("gc:lookup-notfound")
			case len(ready) > 1:
				c.Count("gc:lookup-duplicate")
			case ready[0] == "True":
				c.Count("gc:lookup-node-ready")
			default:
				c.Count("gc:lookup-node-notready(" + ready[0] + ")")
			}
			if r, ok := delResp[cl.Name]; ok {
				c.Count("gc:delete-" + r)
			}
		}
	}
	key := ""
	if nontrivial {
		key = "G:" + in
	}
	j := J{"reaper": "gc", "case": x}
	if termDeleted {
		// reading note of Properties/C16.v: a listed but terminating instance counts as not listed
		j["kf_key"] = "gc-terminating-instance-counts-as-unlisted"
	}
	c.AddCase(fmt.Sprintf("CaseG %s %s %s", in, kit.GStrs(deleted), resClass(false, res.RequeueAfter, err)), j, key)
}

func runGC(c *kit.Ctx) {
	regs := []string{"True", "False", "Absent"}
	if c.Thorough() {
		regs = []string{"True", "False", "Unknown", "Absent"}
	}
	nodeStates := [][]string{{}, {"True"}, {"False"}, {"Unknown"}, {"Absent"}, {"True", "True"}, {"True", "False"}}
	dels := []string{"", "err"}
	if c.Thorough() {
		dels = []string{"", "nf", "err"}
	}
	// single-claim product
	for _, reg := range regs {
		for _, deleting := range []bool{false, true} {
			for _, listed := range []string{"no", "live", "terminating"} {
				for si, ns := range nodeStates {
					for _, nf := range []bool{false, true} {
						for di, df := range dels {
							if deleting && !c.Thorough() && (si > 1 || di > 0) {
								continue // a deleting claim is filtered before any lookup: two node states suffice
							}
							x := gcCase{Claims: []gcClaim{{"a", true, reg, deleting, "p1", df}}}
							if nf {
								x.FailKind = []string{"err", "nf", "conflict"}[(si+di)%3]
							}
							// another instance is always listed so that the provider list is not trivially empty
							x.Insts = []gcInst{{"p9", false}}
							switch listed {
							case "live":
								x.Insts = append(x.Insts, gcInst{"p1", false})
							case "terminating":
								x.Insts = append(x.Insts, gcInst{"p1", true})
							}
							for k, r := range ns {
								x.Nodes = append(x.Nodes, gcNode{fmt.Sprintf("n%d", k), "p1", r})
							}
							x.Nodes = append(x.Nodes, gcNode{"other", "p9", "False"})
							if nf {
								x.NodeFail = []string{"p1"}
							}
							doGC(c, x)
						}
					}
				}
			}
		}
	}
	// guards and corner cases
	for _, nf := range []bool{false, true} {
		fail := []string{}
		if nf {
			fail = []string{"", "p1"}
		}
		// registered claim without a provider id: no lookup is made
		doGC(c, gcCase{Claims: []gcClaim{{"a", true, "True", false, "", ""}}, Nodes: []gcNode{{"n0", "", "True"}}, NodeFail: fail})
		doGC(c, gcCase{Claims: []gcClaim{{"a", false, "True", false, "p1", ""}}, NodeFail: fail})
		doGC(c, gcCase{Claims: []gcClaim{{"a", true, "True", false, "p1", ""}}, ClaimsFail: true, NodeFail: fail})
		doGC(c, gcCase{Claims: []gcClaim{{"a", true, "True", false, "p1", ""}}, ProviderFail: true, NodeFail: fail})
		doGC(c, gcCase{Claims: []gcClaim{{"a", true, "True", false, "p1", "nf"}}, NodeFail: fail})
		doGC(c, gcCase{Claims: []gcClaim{{"a", true, "Unknown", false, "p1", ""}}, NodeFail: fail})
		doGC(c, gcCase{NodeFail: fail})
	}
	// error kinds of the two list calls; a NotFound from the Node list is still a failed lookup
	for _, k := range []string{"nf", "conflict"} {
		doGC(c, gcCase{Claims: []gcClaim{{"a", true, "True", false, "p1", ""}}, ClaimsFail: true, FailKind: k})
		doGC(c, gcCase{Claims: []gcClaim{{"a", true, "True", false, "p1", ""}}, Nodes: []gcNode{{"n0", "p1", "False"}}, NodeFail: []string{"p1"}, FailKind: k})
		doGC(c, gcCase{Claims: []gcClaim{{"a", true, "True", false, "p1", "conflict"}}, FailKind: k})
	}
	// more claims than ParallelizeUntil workers (20): every third one has a failing lookup, a Ready node or is listed
	{
		var x gcCase
		for k := 0; k < 27; k++ {
			pid := fmt.Sprintf("q%02d", k)
			x.Claims = append(x.Claims, gcClaim{Name: fmt.Sprintf("c%02d", k), Managed: true, Registered: "True", PID: pid})
			switch k % 4 {
			case 1:
				x.NodeFail = append(x.NodeFail, pid)
			case 2:
				x.Nodes = append(x.Nodes, gcNode{"n-" + pid, pid, "True"})
			case 3:
				x.Insts = append(x.Insts, gcInst{pid, false})
			}
		}
		c.Count("gc:more-claims-than-workers")
		doGC(c, x)
	}
	// the history of F3 (fixed by 85caa9282): registered, not listed, node present but the lookup fails
	doGC(c, gcCase{Claims: []gcClaim{{"a", true, "True", false, "p1", ""}}, Nodes: []gcNode{{"n0", "p1", "True"}}, NodeFail: []string{"p1"}})

	n := 250
	if c.Thorough() {
		n = 5000
	}
	pids := []string{"p1", "p2", "p3"}
	for i := 0; i < n; i++ {
		r := c.Rand.Fork()
		var x gcCase
		nc := r.Range(1, 4)
		for k := 0; k < nc; k++ {
			cl := gcClaim{Name: fmt.Sprintf("c%d", k), Managed: !r.Chance(1, 10), Registered: "True", PID: kit.Pick(r, pids)}
			if r.Chance(1, 5) {
				cl.Registered = kit.Pick(r, []string{"False", "Unknown", "Absent"})
			}
			cl.Deleting = r.Chance(1, 8)
			if r.Chance(1, 15) {
				cl.PID = ""
			}
			if r.Chance(1, 5) {
				cl.DelF = kit.Pick(r, []string{"nf", "err", "conflict"})
			}
			x.Claims = append(x.Claims, cl)
		}
		for _, p := range pids {
			if r.Chance(2, 5) {
				x.Insts = append(x.Insts, gcInst{p, r.Chance(1, 3)})
			}
			k := kit.Pick(r, []int{0, 1, 1, 1, 2})
			for j := 0; j < k; j++ {
				x.Nodes = append(x.Nodes, gcNode{fmt.Sprintf("n-%s-%d", p, j), p, kit.Pick(r, []string{"True", "True", "False", "Unknown", "Absent"})})
			}
			if r.Chance(1, 5) {
				x.NodeFail = append(x.NodeFail, p)
			}
		}
		x.ClaimsFail = r.Chance(1, 25)
		x.ProviderFail = r.Chance(1, 25)
		x.FailKind = kit.Pick(r, []string{"", "", "nf", "conflict"})
		doGC(c, x)
	}
}
