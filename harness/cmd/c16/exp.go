package main

import (
	"fmt"
	"time"

	metav1 "k8s.io/apimachinery/pkg/apis/meta/v1"
	clock "k8s.io/utils/clock/testing"
	"sigs.k8s.io/controller-runtime/pkg/client"

	v1 "sigs.k8s.io/karpenter/pkg/apis/v1"
	"sigs.k8s.io/karpenter/pkg/controllers/nodeclaim/expiration"

	"verifharness/kit"
)

type expCase struct {
	Managed bool
	State   string         // live | deleting | absent
	TTL     *time.Duration // nil = Never
	Delta   time.Duration  // clock = creation + ttl + delta
	DelF    string         // "" | nf | err
	PodF    bool           // the pod list used for the metric fails
}

func doExpiration(c *kit.Ctx, x expCase) {
	ctx := kit.Context()
	var rules []rule
	if x.DelF != "" {
		rules = append(rules, rule{"delete", "NodeClaim", "", 0, x.DelF})
	}
	if x.PodF {
		rules = append(rules, rule{"list", "Pod", "", -1, "err"})
	}
	d := decorFor(c)
	if !x.PodF {
		rules = d.rules(rules)
	}
	w := newWorld(rules...)
	// creation time varies (always whole seconds, as the API stores it)
	created := baseTime().Add(time.Duration(c.NextID()%4) * 12345 * time.Second)
	nc := &v1.NodeClaim{
		ObjectMeta: metav1.ObjectMeta{Name: "claim", CreationTimestamp: metav1.Time{Time: created}},
		Spec:       v1.NodeClaimSpec{NodeClassRef: classRef(x.Managed), ExpireAfter: v1.NillableDuration{Duration: x.TTL}},
		Status:     v1.NodeClaimStatus{ProviderID: "fake://claim", NodeName: "node-claim"},
	}
	d.claim(nc)
	if x.Managed && d.Labels {
		nc.Labels[v1.NodePoolLabelKey] = "pool"
	}
	d.pods(w, "node-claim")
	switch x.State {
	case "live":
		w.add(nc)
	case "deleting":
		nc.Finalizers = []string{v1.TerminationFinalizer}
		w.add(nc)
	case "absent":
		// the object the reconciler holds is stale: it is gone from the API
	}
	w.build()
	if x.State == "deleting" {
		markDeleting(ctx, w.inner, nc)
	}
	if x.State != "absent" {
		if err := w.inner.Get(ctx, client.ObjectKeyFromObject(nc), nc); err != nil {
			panic(err)
		}
	}
	ttl := time.Duration(0)
	if x.TTL != nil {
		ttl = *x.TTL
	}
	now := nc.CreationTimestamp.Time.Add(ttl).Add(x.Delta)
	clk := clock.NewFakeClock(now)
	res, err := expiration.NewController(clk, w.c, newProvider()).Reconcile(ctx, nc.DeepCopy())

	dels := w.events("delete", "NodeClaim")
	delResp := "AOk"
	if len(dels) > 0 {
		delResp = dels[0].Resp
	}
	in := fmt.Sprintf("(mkExp %s %s %s %s %s %s)", kit.GBool(x.Managed), kit.GBool(!nc.DeletionTimestamp.IsZero()),
		kit.GOpt(x.TTL != nil, kit.GZ(int64(ttl))), gTime(nc.CreationTimestamp.Time), gTime(now), delResp)
	branch := "expiration:"
	switch {
	case !x.Managed:
		branch += "unmanaged"
	case x.State == "deleting":
		branch += "already-deleting"
	case x.TTL == nil:
		branch += "never"
	case len(dels) == 0:
		branch += "not-yet(" + deltaName(x.Delta) + ")"
	default:
		branch += "delete-" + delResp + "(" + deltaName(x.Delta) + ")"
	}
	c.Count(branch)
	key := ""
	if x.Managed && x.State != "deleting" && x.TTL != nil {
		key = fmt.Sprintf("E:%s/%d/%d/%s/%v", x.State, ttl, x.Delta, x.DelF, x.PodF)
	}
	c.AddCase(fmt.Sprintf("CaseE %s %d %s", in, len(dels), resClass(res.Requeue, res.RequeueAfter, err)),
		J{"reaper": "expiration", "case": x, "ttl_ns": ttl, "branch": branch}, key)
}

func runExpiration(c *kit.Ctx) {
	d := func(x time.Duration) *time.Duration { return &x }
	ttls := []*time.Duration{nil, d(0), d(time.Second), d(5 * time.Minute), d(720 * time.Hour)}
	for _, managed := range []bool{true, false} {
		for _, st := range []string{"live", "deleting", "absent"} {
			for _, ttl := range ttls {
				for _, dl := range deltas {
					for _, df := range []string{"", "nf", "err"} {
						if !managed && (df != "" || dl != 0) {
							continue // the first guard is independent of the rest; one representative per state/ttl
						}
						doExpiration(c, expCase{managed, st, ttl, dl, df, false})
					}
				}
			}
		}
	}
	n := 150
	if c.Thorough() {
		n = 3000
	}
	for i := 0; i < n; i++ {
		r := c.Rand.Fork()
		x := expCase{Managed: !r.Chance(1, 12), State: kit.Pick(r, []string{"live", "live", "live", "live", "deleting", "absent"}),
			DelF: kit.Pick(r, []string{"", "", "", "nf", "err"}), PodF: r.Chance(1, 6)}
		if !r.Chance(1, 8) {
			x.TTL = d(time.Duration(r.Range(0, 3000)) * time.Second)
			if r.Chance(1, 4) {
				x.TTL = d(time.Duration(r.Range(0, 1<<40)))
			}
		}
		switch r.Intn(4) {
		case 0:
			x.Delta = kit.Pick(r, deltas)
		case 1:
			x.Delta = time.Duration(r.Range(-2_000_000_000, 2_000_000_000))
		case 2:
			x.Delta = time.Duration(r.Range(-5, 5))
		default:
			x.Delta = time.Duration(r.Range(-100000, 100000)) * time.Second
		}
		doExpiration(c, x)
	}
}
