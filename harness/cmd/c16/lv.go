package main

import (
	"fmt"
	"strings"
	"time"

	"github.com/awslabs/operatorpkg/object"
	"github.com/awslabs/operatorpkg/status"
	metav1 "k8s.io/apimachinery/pkg/apis/meta/v1"
	"k8s.io/apimachinery/pkg/types"
	clock "k8s.io/utils/clock/testing"

	v1 "sigs.k8s.io/karpenter/pkg/apis/v1"
	"sigs.k8s.io/karpenter/pkg/controllers/nodeclaim/lifecycle"
	"sigs.k8s.io/karpenter/pkg/state/nodepoolhealth"

	"verifharness/kit"
)

type lvCase struct {
	Launched   string        // True | False | Unknown | Init (absent: initialised by StatusConditions())
	Registered string        // True | False | Unknown | Init
	Gap        time.Duration // registered transition = launched transition + Gap
	Anchor     string        // launch | reg : which threshold the clock is placed at
	Delta      time.Duration
	Pool       string // nolabel | missing | healthy | willpatch | notowner
	GetF       string // fault on Get NodePool (every call)
	PatchF     string // fault on the NodePool status Patch
	Finalizer  bool   // the claim carries the termination finalizer (a second Delete then succeeds)
	Present    bool   // the claim exists in the API
	DelF       string // fault on the first Delete
	GetF2      string // fault on the second Get NodePool only
	DelF2      string // fault on the second Delete only
}

func doLiveness(c *kit.Ctx, x lvCase) {
	ctx := kit.Context()
	var rules []rule
	if x.GetF != "" {
		rules = append(rules, rule{"get", "NodePool", "", -1, x.GetF})
	}
	if x.PatchF != "" {
		rules = append(rules, rule{"spatch", "NodePool", "", -1, x.PatchF})
	}
	if x.DelF != "" {
		rules = append(rules, rule{"delete", "NodeClaim", "", 0, x.DelF})
	}
	if x.GetF2 != "" {
		rules = append(rules, rule{"get", "NodePool", "", 1, x.GetF2})
	}
	if x.DelF2 != "" {
		rules = append(rules, rule{"delete", "NodeClaim", "", 1, x.DelF2})
	}
	w := newWorld(rules...)
	state := nodepoolhealth.NewState()
	nc := &v1.NodeClaim{
		ObjectMeta: metav1.ObjectMeta{Name: "claim", Labels: map[string]string{}},
		Spec:       v1.NodeClaimSpec{NodeClassRef: classRef(true)},
	}
	if x.Finalizer {
		nc.Finalizers = []string{v1.TerminationFinalizer}
	}
	if x.Pool != "nolabel" {
		nc.Labels[v1.NodePoolLabelKey] = "pool"
	}
	if x.Pool == "healthy" || x.Pool == "willpatch" || x.Pool == "notowner" || x.Pool == "notowner-kind" || x.Pool == "alreadyfalse" {
		np := &v1.NodePool{ObjectMeta: metav1.ObjectMeta{Name: "pool", UID: types.UID("pool-uid")}}
		np.Spec.Template.Spec.NodeClassRef = classRef(true)
		if x.Pool == "alreadyfalse" {
			// the window is about to turn unhealthy but the condition is False already: no Patch is issued
			np.Status.Conditions = []status.Condition{cond(v1.ConditionTypeNodeRegistrationHealthy, metav1.ConditionFalse, baseTime())}
		}
		w.add(np)
		uid, kind := np.UID, object.GVK(np).Kind
		switch x.Pool {
		case "notowner":
			uid = "someone-else"
		case "notowner-kind":
			kind = "Deployment" // same UID, other kind
		}
		nc.OwnerReferences = []metav1.OwnerReference{{APIVersion: object.GVK(np).GroupVersion().String(), Kind: kind, Name: np.Name, UID: uid}}
		if x.Pool == "willpatch" || x.Pool == "alreadyfalse" {
			state.Update(np.UID, false) // one earlier failure: the next one makes the window unhealthy
		}
	}
	c.Count("liveness:pool-setup=" + x.Pool)
	d := decorFor(c)
	d.claim(nc)
	// conditions: explicit ones first; the rest is initialised by StatusConditions() exactly as the lifecycle
	// controller's earlier sub-reconcilers do (operatorpkg stamps a new dependent condition with the object's
	// creation time)
	t0 := baseTime()
	nc.CreationTimestamp = metav1.Time{Time: t0.Add(-7 * time.Second)}
	if x.Launched != "Init" {
		nc.Status.Conditions = append(nc.Status.Conditions, cond(v1.ConditionTypeLaunched, condStatus(x.Launched), t0))
	}
	if x.Registered != "Init" {
		nc.Status.Conditions = append(nc.Status.Conditions, cond(v1.ConditionTypeRegistered, condStatus(x.Registered), t0.Add(x.Gap)))
	}
	nc.StatusConditions()
	if x.Present {
		w.add(nc.DeepCopy())
	}
	w.build()
	get := func(t string) (*status.Condition, string) {
		cd := nc.StatusConditions(status.WithObservedOnly()).Get(t)
		if cd == nil {
			return nil, "None"
		}
		s := "CUnknown"
		switch cd.Status {
		case metav1.ConditionTrue:
			s = "CTrue"
		case metav1.ConditionFalse:
			s = "CFalse"
		}
		return cd, fmt.Sprintf("(Some (%s, %s))", s, gTime(cd.LastTransitionTime.Time))
	}
	lcd, lg := get(v1.ConditionTypeLaunched)
	rcd, rg := get(v1.ConditionTypeRegistered)
	now := lcd.LastTransitionTime.Time.Add(lifecycle.LaunchTimeout)
	if x.Anchor == "reg" {
		now = rcd.LastTransitionTime.Time.Add(15 * time.Minute)
	}
	now = now.Add(x.Delta)
	clk := clock.NewFakeClock(now)
	res, err := lifecycle.VerifLivenessReconcile(ctx, w.c, clk, state, nc)

	// API responses in call order: Get NodePool [status Patch NodePool] Delete NodeClaim ...
	type pu struct{ get, patch string }
	var pools []pu
	var dels []string
	open := false
	w.mu.Lock()
	for _, e := range w.log {
		switch {
		case e.Verb == "get" && e.Kind == "NodePool":
			pools = append(pools, pu{"(Some " + e.Resp + ")", "None"})
			open = true
		case e.Verb == "spatch" && e.Kind == "NodePool":
			if !open {
				pools = append(pools, pu{"None", "None"})
				open = true
			}
			pools[len(pools)-1].patch = "(Some " + e.Resp + ")"
		case e.Verb == "delete" && e.Kind == "NodeClaim":
			if !open {
				pools = append(pools, pu{"None", "None"})
			}
			open = false
			dels = append(dels, e.Resp)
		}
	}
	w.mu.Unlock()
	in := fmt.Sprintf("(mkLv %s %s %s %s %s)", rg, lg, gTime(now),
		kit.GListOf(pools, func(p pu) string { return kit.GPair(p.get, p.patch) }), kit.GList(dels))

	branch := "liveness:"
	rc := resClass(res.Requeue, res.RequeueAfter, err)
	switch {
	case x.Registered == "True":
		branch += "registered"
	case len(dels) == 0 && len(pools) == 0:
		branch += fmt.Sprintf("waiting(launched=%s,%s-%s)", x.Launched, x.Anchor, deltaName(x.Delta))
	case len(dels) == 0:
		branch += "pool-update-" + rc
	case len(pools) > len(dels):
		branch += fmt.Sprintf("delete x%d then pool-update-%s", len(dels), rc)
	default:
		branch += fmt.Sprintf("delete x%d launched=%v last=%s", len(dels), x.Launched == "True", dels[len(dels)-1])
		if len(dels) == 1 && x.Launched != "True" && dels[0] == "AOk" {
			branch += " then " + strings.Fields(strings.Trim(rc, "()"))[0]
		}
	}
	c.Count(branch)
	for _, p := range pools {
		c.Count("liveness:pool-update get=" + p.get + " patch=" + p.patch)
	}
	key := ""
	if x.Registered != "True" {
		key = "L:" + in
	}
	c.AddCase(fmt.Sprintf("CaseL %s %d %s", in, len(dels), rc), J{"reaper": "liveness", "case": x, "branch": branch}, key)
}

func runLiveness(c *kit.Ctx) {
	conds := []string{"True", "False", "Unknown", "Init"}
	gaps := []time.Duration{0, -10 * time.Minute}
	if c.Thorough() {
		gaps = append(gaps, time.Minute, -20*time.Minute)
	}
	// clock sweep at both thresholds
	for _, l := range conds {
		for _, r := range conds {
			for _, g := range gaps {
				for _, anchor := range []string{"launch", "reg"} {
					for _, d := range deltas {
						rr := c.Rand.Fork()
						x := lvCase{Launched: l, Registered: r, Gap: g, Anchor: anchor, Delta: d,
							Pool:      kit.Pick(rr, []string{"nolabel", "missing", "healthy", "healthy", "willpatch", "willpatch", "notowner", "notowner-kind", "alreadyfalse"}),
							Finalizer: rr.Chance(2, 3), Present: !rr.Chance(1, 8)}
						if rr.Chance(1, 6) {
							x.GetF = kit.Pick(rr, []string{"err", "conflict", "nf"})
						}
						if rr.Chance(1, 6) {
							x.PatchF = kit.Pick(rr, []string{"err", "conflict", "nf"})
						}
						if rr.Chance(1, 6) {
							x.DelF = kit.Pick(rr, []string{"err", "nf", "conflict"})
						}
						doLiveness(c, x)
					}
				}
			}
		}
	}
	// fault sweep on timed-out claims
	type setting struct {
		l, r   string
		anchor string
		gap    time.Duration
	}
	settings := []setting{
		{"Unknown", "Unknown", "launch", 0},              // launch timeout only
		{"False", "Unknown", "reg", 0},                   // both timeouts
		{"True", "Unknown", "reg", time.Minute},          // registration timeout only
		{"False", "False", "launch", -10 * time.Minute}, // both, coinciding thresholds
	}
	if !c.Thorough() {
		settings = settings[:3]
	}
	for _, s := range settings {
		for _, pool := range []string{"nolabel", "missing", "healthy", "willpatch", "notowner", "notowner-kind", "alreadyfalse"} {
			if (pool == "notowner-kind" || pool == "alreadyfalse") && !c.Thorough() && s.anchor != "reg" {
				continue
			}
			for _, gf := range []string{"", "err", "conflict", "nf"} {
				pfs := []string{""}
				if pool == "willpatch" {
					pfs = []string{"", "err", "conflict", "nf"}
				}
				for _, pf := range pfs {
					for _, df := range []string{"", "err", "nf"} {
						for _, fin := range []bool{true, false} {
							if !c.Thorough() && (df == "nf" && fin || df == "err" && !fin || gf != "" && df != "" && !fin) {
								continue
							}
							doLiveness(c, lvCase{Launched: s.l, Registered: s.r, Gap: s.gap, Anchor: s.anchor, Delta: 0,
								Pool: pool, GetF: gf, PatchF: pf, Finalizer: fin, Present: true, DelF: df})
						}
					}
				}
			}
		}
	}
	// faults that hit only the second pool update / the second Delete (both timeouts elapsed)
	for si, s := range settings {
		if s.l == "True" || s.anchor != "reg" && s.gap == 0 {
			continue
		}
		if si > 1 && !c.Thorough() {
			continue
		}
		for _, pool := range []string{"missing", "healthy", "willpatch"} {
			for _, gf := range []string{"", "err", "conflict", "nf"} {
				for _, df := range []string{"", "err", "nf"} {
					for _, fin := range []bool{true, false} {
						doLiveness(c, lvCase{Launched: s.l, Registered: s.r, Gap: s.gap, Anchor: s.anchor, Delta: 0,
							Pool: pool, GetF2: gf, DelF2: df, Finalizer: fin, Present: true})
					}
				}
			}
		}
	}
	n := 100
	if c.Thorough() {
		n = 4000
	}
	for i := 0; i < n; i++ {
		r := c.Rand.Fork()
		x := lvCase{Launched: kit.Pick(r, []string{"True", "True", "False", "Unknown", "Unknown", "Init"}),
			Registered: kit.Pick(r, []string{"True", "False", "Unknown", "Unknown", "Unknown", "Init"}),
			Gap:        time.Duration(r.Range(-900, 900)) * time.Second, Anchor: kit.Pick(r, []string{"launch", "reg"}),
			Pool:      kit.Pick(r, []string{"nolabel", "missing", "healthy", "willpatch", "willpatch", "notowner", "notowner-kind", "alreadyfalse"}),
			Finalizer: r.Chance(2, 3), Present: !r.Chance(1, 8)}
		switch r.Intn(3) {
		case 0:
			x.Delta = kit.Pick(r, deltas)
		case 1:
			x.Delta = time.Duration(r.Range(-3, 3))
		default:
			x.Delta = time.Duration(r.Range(-1200, 1200)) * time.Second
		}
		if r.Chance(1, 5) {
			x.GetF = kit.Pick(r, []string{"err", "conflict", "nf"})
		}
		if r.Chance(1, 5) {
			x.PatchF = kit.Pick(r, []string{"err", "conflict", "nf"})
		}
		if r.Chance(1, 5) {
			x.DelF = kit.Pick(r, []string{"err", "nf", "conflict"})
		}
		if r.Chance(1, 6) {
			x.GetF2 = kit.Pick(r, []string{"err", "nf", "conflict"})
		}
		if r.Chance(1, 6) {
			x.DelF2 = kit.Pick(r, []string{"err", "nf", "conflict"})
		}
		doLiveness(c, x)
	}
}
