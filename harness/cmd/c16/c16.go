// Command c16 runs the four real forceful reapers (expiration, garbage collection,
// liveness, node repair) on generated NodeClaim/Node/provider states, clock positions and
// API fault plans, and writes what they did (Delete calls issued, result class) together
// with the inputs as Gallina cases for coq/C16/Check.v.
package main

import (
	"context"
	"errors"
	"fmt"
	"os"
	"strings"
	"sync"
	"time"

	"github.com/awslabs/operatorpkg/object"
	"github.com/go-logr/logr"
	"github.com/awslabs/operatorpkg/status"
	corev1 "k8s.io/api/core/v1"
	apierrors "k8s.io/apimachinery/pkg/api/errors"
	metav1 "k8s.io/apimachinery/pkg/apis/meta/v1"
	"k8s.io/apimachinery/pkg/runtime/schema"
	"sigs.k8s.io/controller-runtime/pkg/client"
	"sigs.k8s.io/controller-runtime/pkg/client/interceptor"
	ctrllog "sigs.k8s.io/controller-runtime/pkg/log"

	v1 "sigs.k8s.io/karpenter/pkg/apis/v1"
	"sigs.k8s.io/karpenter/pkg/cloudprovider/fake"
	testv1alpha1 "sigs.k8s.io/karpenter/pkg/test/v1alpha1"

	"verifharness/kit"
)

const baseSec = int64(1_700_000_000)

func baseTime() time.Time { return time.Unix(baseSec, 0) }

// ---------------------------------------------------------------- API log + fault plan

type event struct {
	Verb, Kind, Key, Resp string
}

// rule: the occ-th call (0-based, -1 = every) with this verb/kind/key ("" = any key) fails with what.
type rule struct {
	Verb, Kind, Key string
	Occ             int
	What            string // "nf" | "conflict" | "err"
}

type world struct {
	mu    sync.Mutex
	log   []event
	rules []rule
	occ   map[string]int
	objs  []client.Object
	// before is called ahead of every intercepted API call (used to let the environment make
	// progress between two reads of one reconcile)
	before func(verb, kind string)
	inner client.WithWatch
	c     client.WithWatch
}

func newWorld(rules ...rule) *world {
	return &world{rules: rules, occ: map[string]int{}}
}

// add queues an object (with its status) for the initial content of the API.
func (w *world) add(o client.Object) { w.objs = append(w.objs, o) }

// build creates the in-memory API with the queued objects and the intercepting client on top.
func (w *world) build() {
	w.inner = kit.NewClient(interceptor.Funcs{}, w.objs...)
	w.c = interceptor.NewClient(w.inner, w.funcs())
}

func injected(what, kind, key string) error {
	gr := schema.GroupResource{Group: "verif", Resource: kind}
	switch what {
	case "nf":
		return apierrors.NewNotFound(gr, key)
	case "conflict":
		return apierrors.NewConflict(gr, key, errors.New("injected conflict"))
	}
	return apierrors.NewInternalError(errors.New("injected server error"))
}

func classify(err error) string {
	switch {
	case err == nil:
		return "AOk"
	case apierrors.IsNotFound(err):
		return "ANotFound"
	case apierrors.IsConflict(err):
		return "AConflict"
	}
	return "AErr"
}

func (w *world) call(verb, kind, key string, real func() error) error {
	if w.before != nil {
		w.before(verb, kind)
	}
	w.mu.Lock()
	ok := verb + "/" + kind + "/" + key
	ak := verb + "/" + kind + "/"
	n, m := w.occ[ok], w.occ[ak]
	w.occ[ok]++
	if key != "" {
		w.occ[ak]++
	}
	var fault string
	for _, r := range w.rules {
		if r.Verb != verb || r.Kind != kind {
			continue
		}
		if r.Key == "" && (r.Occ < 0 || r.Occ == m) || r.Key != "" && r.Key == key && (r.Occ < 0 || r.Occ == n) {
			fault = r.What
			break
		}
	}
	w.mu.Unlock()
	var err error
	if fault != "" {
		err = injected(fault, kind, key)
	} else {
		err = real()
	}
	w.mu.Lock()
	w.log = append(w.log, event{verb, kind, key, classify(err)})
	w.mu.Unlock()
	return err
}

func kindOf(o interface{}) string {
	switch o.(type) {
	case *v1.NodeClaim, *v1.NodeClaimList:
		return "NodeClaim"
	case *v1.NodePool, *v1.NodePoolList:
		return "NodePool"
	case *corev1.Node, *corev1.NodeList:
		return "Node"
	case *corev1.Pod, *corev1.PodList:
		return "Pod"
	}
	return fmt.Sprintf("%T", o)
}

func (w *world) funcs() interceptor.Funcs {
	return interceptor.Funcs{
		Get: func(ctx context.Context, c client.WithWatch, key client.ObjectKey, obj client.Object, opts ...client.GetOption) error {
			return w.call("get", kindOf(obj), key.Name, func() error { return c.Get(ctx, key, obj, opts...) })
		},
		List: func(ctx context.Context, c client.WithWatch, list client.ObjectList, opts ...client.ListOption) error {
			lo := &client.ListOptions{}
			lo.ApplyOptions(opts)
			sel := ""
			if lo.FieldSelector != nil {
				sel = lo.FieldSelector.String()
			}
			return w.call("list", kindOf(list), sel, func() error { return c.List(ctx, list, opts...) })
		},
		Delete: func(ctx context.Context, c client.WithWatch, obj client.Object, opts ...client.DeleteOption) error {
			return w.call("delete", kindOf(obj), obj.GetName(), func() error { return c.Delete(ctx, obj, opts...) })
		},
		Patch: func(ctx context.Context, c client.WithWatch, obj client.Object, patch client.Patch, opts ...client.PatchOption) error {
			return w.call("patch", kindOf(obj), obj.GetName(), func() error { return c.Patch(ctx, obj, patch, opts...) })
		},
		SubResourcePatch: func(ctx context.Context, c client.Client, sub string, obj client.Object, patch client.Patch, opts ...client.SubResourcePatchOption) error {
			return w.call("spatch", kindOf(obj), obj.GetName(), func() error { return c.SubResource(sub).Patch(ctx, obj, patch, opts...) })
		},
	}
}

// events of one verb/kind, in order
func (w *world) events(verb, kind string) []event {
	w.mu.Lock()
	defer w.mu.Unlock()
	var out []event
	for _, e := range w.log {
		if e.Verb == verb && e.Kind == kind {
			out = append(out, e)
		}
	}
	return out
}

// ---------------------------------------------------------------- provider with a failing List

type provider struct {
	*fake.CloudProvider
	list    []*v1.NodeClaim
	listErr error
	onList  func() // called ahead of every List
}

func (p *provider) List(context.Context) ([]*v1.NodeClaim, error) {
	if p.onList != nil {
		p.onList()
	}
	if p.listErr != nil {
		return nil, p.listErr
	}
	out := make([]*v1.NodeClaim, len(p.list))
	for i := range p.list {
		out[i] = p.list[i].DeepCopy()
	}
	return out, nil
}

func newProvider() *provider {
	cp := fake.NewCloudProvider()
	cp.Reset()
	return &provider{CloudProvider: cp}
}

// ---------------------------------------------------------------- object builders

var testGK = object.GVK(&testv1alpha1.TestNodeClass{})

func classRef(managed bool) *v1.NodeClassReference {
	if managed {
		return &v1.NodeClassReference{Group: testGK.Group, Kind: testGK.Kind, Name: "default"}
	}
	return &v1.NodeClassReference{Group: "other.sh", Kind: "OtherNodeClass", Name: "default"}
}

func cond(t string, s metav1.ConditionStatus, at time.Time) status.Condition {
	return status.Condition{Type: t, Status: s, LastTransitionTime: metav1.Time{Time: at}, Reason: t, Message: "verif"}
}

func condStatus(name string) metav1.ConditionStatus {
	switch name {
	case "True":
		return metav1.ConditionTrue
	case "False":
		return metav1.ConditionFalse
	}
	return metav1.ConditionUnknown
}

// markDeleting gives the stored object a deletion timestamp (it must carry a finalizer).
func markDeleting(ctx context.Context, c client.Client, o client.Object) {
	if err := c.Get(ctx, client.ObjectKeyFromObject(o), o); err != nil {
		panic(err)
	}
	if err := c.Delete(ctx, o); err != nil {
		panic(err)
	}
	if err := c.Get(ctx, client.ObjectKeyFromObject(o), o); err != nil {
		panic(err)
	}
	if o.GetDeletionTimestamp().IsZero() {
		panic("markDeleting: no deletion timestamp")
	}
}

// ---------------------------------------------------------------- decision-irrelevant fields

// decor varies the fields the reapers read only for logging / metrics (pods bound to the node, the
// nodepool / capacity-type labels, terminationGracePeriod, Status.NodeName, a failing pod list).
// None of them may influence a decision, so the model does not see them; they rotate with the case id.
type decor struct {
	Pods       int    // 0 | 1 (a plain pod) | 2 (plus a DaemonSet pod)
	TGP        string // "" (nil) | "0s" | "30s"
	Labels     bool   // nodepool + capacity-type labels present
	NoNodeName bool   // Status.NodeName empty
	PodF       bool   // the pod list issued after the Delete fails
}

func decorFor(c *kit.Ctx) decor {
	id := c.NextID()
	d := decor{Pods: id % 3, TGP: []string{"", "0s", "", "30s"}[id%4], Labels: id%2 == 1, NoNodeName: id%5 == 4, PodF: id%7 == 6}
	c.Count(fmt.Sprintf("decor:pods=%d", d.Pods))
	c.Count("decor:terminationGracePeriod=" + d.TGP)
	c.Count(fmt.Sprintf("decor:metric-labels=%v", d.Labels))
	c.Count(fmt.Sprintf("decor:nodeName-empty=%v", d.NoNodeName))
	c.Count(fmt.Sprintf("decor:pod-list-fails=%v", d.PodF))
	return d
}

func (d decor) rules(rules []rule) []rule {
	if d.PodF {
		rules = append(rules, rule{"list", "Pod", "", -1, "err"})
	}
	return rules
}

func (d decor) claim(nc *v1.NodeClaim) {
	if d.Labels {
		if nc.Labels == nil {
			nc.Labels = map[string]string{}
		}
		nc.Labels[v1.CapacityTypeLabelKey] = "spot"
	}
	switch d.TGP {
	case "0s":
		nc.Spec.TerminationGracePeriod = &metav1.Duration{Duration: 0}
	case "30s":
		nc.Spec.TerminationGracePeriod = &metav1.Duration{Duration: 30 * time.Second}
	}
	if d.NoNodeName {
		nc.Status.NodeName = ""
	}
}

// pods binds pods to the node: a plain one (reschedulable) and one owned by a DaemonSet (not).
func (d decor) pods(w *world, nodeName string) {
	for k := 0; k < d.Pods; k++ {
		p := &corev1.Pod{ObjectMeta: metav1.ObjectMeta{Name: fmt.Sprintf("pod-%s-%d", nodeName, k), Namespace: "default"},
			Spec: corev1.PodSpec{NodeName: nodeName, Containers: []corev1.Container{{Name: "c", Image: "i"}}}}
		if k == 1 {
			p.OwnerReferences = []metav1.OwnerReference{{APIVersion: "apps/v1", Kind: "DaemonSet", Name: "ds", UID: "ds-uid"}}
		}
		w.add(p)
	}
}

// ---------------------------------------------------------------- result classes and Gallina helpers

func resClass(requeue bool, after time.Duration, err error) string {
	switch {
	case err != nil:
		return "RErr"
	case requeue:
		return "RRequeue"
	case after > 0:
		return fmt.Sprintf("(RAfter %s)", kit.GZ(int64(after)))
	}
	return "ROk"
}

func gTime(t time.Time) string {
	if t.IsZero() {
		return "zero_time"
	}
	return kit.GZ(t.UnixNano())
}

func gOptStr(s string, present bool) string { return kit.GOpt(present, kit.GStr(s)) }

var deltas = []time.Duration{-time.Second, -time.Nanosecond, 0, time.Nanosecond, time.Second}

func deltaName(d time.Duration) string {
	switch {
	case d < 0:
		return "before"
	case d == 0:
		return "at"
	}
	return "after"
}

type J = map[string]interface{}

func main() {
	c := kit.Parse("C16", os.Args[1:])
	ctrllog.SetLogger(logr.Discard())
	for _, f := range []struct {
		name string
		run  func(*kit.Ctx)
	}{{"expiration", runExpiration}, {"gc", runGC}, {"gc-two-reads", runGC2}, {"liveness", runLiveness}, {"repair", runRepair}} {
		t0, n0 := time.Now(), c.NextID()
		f.run(c)
		fmt.Fprintf(os.Stderr, "c16: %-10s %5d cases %6.1fs\n", f.name, c.NextID()-n0, time.Since(t0).Seconds())
	}
	c.Meta.Rule = "four real Reconcile functions under the fake client, FakeClock and an interceptor fault plan. " +
		"expiration: full product managed x {live,deleting,absent} x ttl x {-1s,-1ns,0,+1ns,+1s} x delete fault; " +
		"gc two reads: an environment event (claim launches+registers, instance terminates / is marked terminating / appears, claim registers) is fired before whichever of NodeClaim List / cloudProvider.List comes second; oracle on the observed order; " +
		"gc: full single-claim product registered x deleting x provider listing x node state x lookup fault x delete fault, plus random multi-claim worlds; " +
		"liveness: condition states x clock at both thresholds +-{1s,1ns} x pool-update faults x delete faults; " +
		"repair: policy/condition/toleration boundary sweep, breaker sweep n=0..12 x unhealthy around ceil(n/5), fault sweep, random worlds. " +
		"non-trivial = the reconcile got past the cheap early exits (a threshold or a guarded lookup decided); distinct by full input"
	c.Meta.Exhaustive = false
	c.Meta.Corr = []string{
		"expiration.Controller.Reconcile = C16.Model.expire (Delete calls, result class)",
		"garbagecollection.Controller.Reconcile = C16.Model.gc (deleted NodeClaim names, result class)",
		"garbagecollection.Controller.Reconcile with an environment event between its two snapshot reads = C16.Model.gc2 (read order, deleted names, result class)",
		"lifecycle.Liveness.Reconcile = C16.Model.liveness (Delete calls, result class)",
		"health.Controller.Reconcile = C16.Model.repair (Patch calls, Delete calls, result class)",
	}
	c.Meta.Extra = map[string]interface{}{
		"assumptions": []string{
			"times within +-2^62 ns of each other (no time.Duration saturation/wrap)",
			"termination-timestamp annotations are RFC3339 whole seconds in the clock's location",
			"at most one Node per provider id (duplicate Nodes are outside the property; the model still mirrors the code on them)",
			"liveness branches `launched == nil` / `registered == nil` are unreachable: StatusConditions() initialises both conditions",
		},
	}
	c.Finish("From KV Require Import C16.Model C16.Check.\n"+strings.Join(condDefs, "\n"), "case", "check_all", 600)
}
