package main

import (
	"fmt"
	"time"

	corev1 "k8s.io/api/core/v1"
	metav1 "k8s.io/apimachinery/pkg/apis/meta/v1"
	clock "k8s.io/utils/clock/testing"
	"sigs.k8s.io/controller-runtime/pkg/client"

	v1 "sigs.k8s.io/karpenter/pkg/apis/v1"
	"sigs.k8s.io/karpenter/pkg/cloudprovider"
	"sigs.k8s.io/karpenter/pkg/controllers/node/health"
	"sigs.k8s.io/karpenter/pkg/test"

	"verifharness/kit"
)

type rpCond struct {
	Type, Status string
	At           int64 // seconds after the base time
	Zero         bool  // LastTransitionTime unset
}
type rpPolicy struct {
	Type, Status string
	Tol          time.Duration
}
type rpClaim struct {
	Name, PID, Pool string // Pool "" = no nodepool label
	Deleting        bool
	Annot           string // none | bad | past | now | future
}
type rpNode struct {
	Name, Pool string
	Conds      []rpCond
	Deleting   bool // the Node carries a deletionTimestamp (Terminating, kept by its finalizer)
}
type rpCase struct {
	PID      string // provider id of the reconciled node
	Pool     string // its nodepool label
	Conds    []rpCond
	InAPI    bool
	SelfTerm bool // the reconciled node itself is Terminating
	Claims   []rpClaim
	Policies []rpPolicy
	Anchor   int // the clock is placed at termination time of policy Anchor (+ Delta); -1: base + Delta
	Delta    time.Duration
	Nodes    []rpNode // the other nodes
	PoolObj  bool     // the NodePool object exists
	ClaimsF  string
	NodesF   string
	PoolGetF string
	PatchF   string
	DelF     string
}

// pool label values: "" = no label, "<empty>" = the label is present with the empty value
func poolLabel(p string) (string, bool) {
	if p == "<empty>" {
		return "", true
	}
	return p, p != ""
}

func gPool(p string) string {
	v, ok := poolLabel(p)
	return gOptStr(v, ok)
}

func condTime(cd rpCond) time.Time {
	if cd.Zero {
		return time.Time{}
	}
	return baseTime().Add(time.Duration(cd.At) * time.Second)
}

func nodeConds(cs []rpCond) []corev1.NodeCondition {
	var out []corev1.NodeCondition
	for _, cd := range cs {
		out = append(out, corev1.NodeCondition{Type: corev1.NodeConditionType(cd.Type), Status: corev1.ConditionStatus(cd.Status),
			LastTransitionTime: metav1.Time{Time: condTime(cd)}})
	}
	return out
}

// Condition lists recur in almost every node of a case; the frequent ones are emitted once as
// named definitions in the header of each case file (elaborating the literals is what costs time).
var condNames = map[string]string{}
var condDefs []string

func gConds(cs []rpCond) string {
	lit := kit.GListOf(cs, func(cd rpCond) string {
		return fmt.Sprintf("mkCond %s %s %s", kit.GStr(cd.Type), kit.GStr(cd.Status), gTime(condTime(cd)))
	})
	if len(cs) == 0 {
		return lit
	}
	if n, ok := condNames[lit]; ok {
		return n
	}
	if len(condNames) >= 400 {
		return lit
	}
	n := fmt.Sprintf("cl%d", len(condNames))
	condNames[lit] = n
	condDefs = append(condDefs, fmt.Sprintf("Definition %s : list ncond := %s.", n, lit))
	return n
}

func firstCond(cs []rpCond, t string) (rpCond, bool) {
	for _, cd := range cs {
		if cd.Type == t {
			return cd, true
		}
	}
	return rpCond{Zero: true}, false
}

func firstResp(w *world, verb, kind string) (string, bool) {
	if es := w.events(verb, kind); len(es) > 0 {
		return es[0].Resp, true
	}
	return "AOk", false
}

func doRepair(c *kit.Ctx, x rpCase) {
	ctx := kit.Context()
	var rules []rule
	add := func(verb, kind, what string) {
		if what != "" {
			rules = append(rules, rule{verb, kind, "", 0, what})
		}
	}
	add("list", "NodeClaim", x.ClaimsF)
	add("list", "Node", x.NodesF)
	add("get", "NodePool", x.PoolGetF)
	add("patch", "NodeClaim", x.PatchF)
	add("delete", "NodeClaim", x.DelF)
	d := decorFor(c)
	rules = d.rules(rules)
	w := newWorld(rules...)
	d.pods(w, "self")

	// clock
	now := baseTime()
	if x.Anchor >= 0 {
		p := x.Policies[x.Anchor]
		// (a condition that is absent or has no transition time would put the clock into year 1)
		if cd, ok := firstCond(x.Conds, p.Type); ok && !cd.Zero {
			now = condTime(cd).Add(p.Tol)
		}
	}
	now = now.Add(x.Delta)
	clk := clock.NewFakeClock(now)

	label := func(pool string) map[string]string {
		l := map[string]string{v1.NodeClassLabelKey(testGK.GroupKind()): "default"}
		if v, ok := poolLabel(pool); ok {
			l[v1.NodePoolLabelKey] = v
		}
		return l
	}
	node := &corev1.Node{ObjectMeta: metav1.ObjectMeta{Name: "self", Labels: label(x.Pool)}, Spec: corev1.NodeSpec{ProviderID: x.PID},
		Status: corev1.NodeStatus{Conditions: nodeConds(x.Conds)}}
	var termNodes []*corev1.Node
	if x.InAPI {
		if x.SelfTerm {
			node.Finalizers = []string{v1.TerminationFinalizer}
			termNodes = append(termNodes, node)
		}
		w.add(node)
	}
	for _, n := range x.Nodes {
		o := &corev1.Node{ObjectMeta: metav1.ObjectMeta{Name: n.Name, Labels: label(n.Pool)},
			Spec: corev1.NodeSpec{ProviderID: "fake://" + n.Name}, Status: corev1.NodeStatus{Conditions: nodeConds(n.Conds)}}
		if n.Deleting {
			o.Finalizers = []string{v1.TerminationFinalizer}
			termNodes = append(termNodes, o)
		}
		w.add(o)
	}
	annotTime := map[string]time.Time{"past": now.Truncate(time.Second).Add(-10 * time.Second), "now": now.Truncate(time.Second),
		"future": now.Truncate(time.Second).Add(10 * time.Second)}
	var deleting []*v1.NodeClaim
	for _, cl := range x.Claims {
		nc := &v1.NodeClaim{ObjectMeta: metav1.ObjectMeta{Name: cl.Name, Labels: map[string]string{}, Annotations: map[string]string{}},
			Spec: v1.NodeClaimSpec{NodeClassRef: classRef(true)}, Status: v1.NodeClaimStatus{ProviderID: cl.PID, NodeName: "self"}}
		if v, ok := poolLabel(cl.Pool); ok {
			nc.Labels[v1.NodePoolLabelKey] = v
		}
		d.claim(nc)
		switch cl.Annot {
		case "bad":
			nc.Annotations[v1.NodeClaimTerminationTimestampAnnotationKey] = "not-a-time"
		case "past", "now", "future":
			nc.Annotations[v1.NodeClaimTerminationTimestampAnnotationKey] = annotTime[cl.Annot].In(now.Location()).Format(time.RFC3339)
		case "past-tz", "future-tz":
			// written by someone in another time zone: same instant, other spelling
			nc.Annotations[v1.NodeClaimTerminationTimestampAnnotationKey] = annotTime[cl.Annot[:len(cl.Annot)-3]].In(time.FixedZone("x", 2*3600)).Format(time.RFC3339)
		}
		if cl.Deleting {
			nc.Finalizers = []string{v1.TerminationFinalizer}
		}
		w.add(nc)
		if cl.Deleting {
			deleting = append(deleting, nc)
		}
	}
	if x.PoolObj {
		np := &v1.NodePool{ObjectMeta: metav1.ObjectMeta{Name: "pool"}}
		np.Spec.Template.Spec.NodeClassRef = classRef(true)
		w.add(np)
	}
	w.build()
	for _, nc := range deleting {
		markDeleting(ctx, w.inner, nc)
	}
	for _, o := range termNodes {
		markDeleting(ctx, w.inner, o)
	}
	cp := newProvider()
	cp.RepairPolicy = nil
	for _, p := range x.Policies {
		cp.RepairPolicy = append(cp.RepairPolicy, cloudprovider.RepairPolicy{ConditionType: corev1.NodeConditionType(p.Type),
			ConditionStatus: corev1.ConditionStatus(p.Status), TolerationDuration: p.Tol})
	}
	if x.InAPI {
		if err := w.inner.Get(ctx, client.ObjectKeyFromObject(node), node); err != nil {
			panic(err)
		}
	}
	res, err := health.NewController(w.c, cp, clk, test.NewEventRecorder()).Reconcile(ctx, node)

	claimsResp, _ := firstResp(w, "list", "NodeClaim")
	nodesResp, listed := firstResp(w, "list", "Node")
	poolResp, poolAsked := firstResp(w, "get", "NodePool")
	patchResp, _ := firstResp(w, "patch", "NodeClaim")
	delResp, _ := firstResp(w, "delete", "NodeClaim")
	patches, dels := len(w.events("patch", "NodeClaim")), len(w.events("delete", "NodeClaim"))

	var apiNodes []rpNode
	if x.InAPI {
		apiNodes = append(apiNodes, rpNode{"self", x.Pool, x.Conds, x.SelfTerm})
	}
	apiNodes = append(apiNodes, x.Nodes...)
	gclaims := kit.GListOf(x.Claims, func(cl rpClaim) string {
		a := "AnnNone"
		switch cl.Annot {
		case "bad":
			a = "AnnBad"
		case "past", "now", "future":
			a = "(AnnTime " + gTime(annotTime[cl.Annot]) + ")"
		case "past-tz", "future-tz":
			a = "(AnnTime " + gTime(annotTime[cl.Annot[:len(cl.Annot)-3]]) + ")"
		}
		return fmt.Sprintf("mkRClaim %s %s %s %s", kit.GStr(cl.PID), gPool(cl.Pool), kit.GBool(cl.Deleting), a)
	})
	gnodes := kit.GListOf(apiNodes, func(n rpNode) string {
		return fmt.Sprintf("mkRNode %s %s %s", gPool(n.Pool), kit.GBool(n.Deleting), gConds(n.Conds))
	})
	gpol := kit.GListOf(x.Policies, func(p rpPolicy) string {
		return fmt.Sprintf("mkPolicy %s %s %s", kit.GStr(p.Type), kit.GStr(p.Status), kit.GZ(int64(p.Tol)))
	})
	in := fmt.Sprintf("(mkRp %s %s %s %s %s %s %s %s %s %s %s)", kit.GStr(x.PID), gConds(x.Conds), gclaims, claimsResp, gpol,
		gTime(now), gnodes, nodesResp, poolResp, patchResp, delResp)
	rc := resClass(res.Requeue, res.RequeueAfter, err)

	// branch table
	matching := 0
	for _, cl := range x.Claims {
		if cl.PID == x.PID {
			matching++
		}
	}
	nontrivial := false
	switch {
	case x.PID == "":
		c.Count("repair:node-without-provider-id")
	case claimsResp != "AOk":
		c.Count("repair:claim-lookup-failed")
	case matching == 0:
		c.Count("repair:claim-notfound")
	case matching > 1:
		c.Count("repair:claim-duplicate")
	case !listed && res.RequeueAfter > 0:
		nontrivial = true
		c.Count("repair:tolerating(" + deltaName(x.Delta) + ")")
	case !listed:
		c.Count("repair:no-policy-matches")
	case nodesResp != "AOk":
		nontrivial = true
		c.Count("repair:node-list-" + nodesResp + fmt.Sprintf("(pooled=%v)", x.Claims[0].Pool != ""))
	case patches == 0 && dels == 0 && poolAsked:
		nontrivial = true
		c.Count("repair:breaker-open(pool) get=" + poolResp)
	case patches == 0 && dels == 0 && res.RequeueAfter > 0:
		nontrivial = true
		c.Count("repair:breaker-open(cluster)")
	default:
		nontrivial = true
		if patches > 0 {
			c.Count("repair:annotate-" + patchResp)
		} else {
			c.Count("repair:annotation-kept")
		}
		switch {
		case dels > 0:
			c.Count("repair:delete-" + delResp + "(" + deltaName(x.Delta) + ")")
		case patches > 0 && patchResp != "AOk":
		default:
			c.Count("repair:claim-already-deleting")
		}
	}
	if listed && nodesResp == "AOk" {
		termU, termH := 0, 0
		for _, n := range apiNodes {
			if n.Deleting {
				if bad, ok := firstCond(n.Conds, "BadNode"); ok && bad.Status == "False" {
					termU++
				} else {
					termH++
				}
			}
		}
		if termU+termH > 0 {
			outcome := "blocked"
			if dels > 0 || patches > 0 {
				outcome = "repair-proceeds"
			}
			c.Count(fmt.Sprintf("repair:terminating-nodes-listed(unhealthy=%v,healthy=%v) %s", termU > 0, termH > 0, outcome))
		}
	}
	for _, cl := range x.Claims {
		if cl.PID == x.PID && x.PID != "" {
			c.Count("repair:annotation=" + cl.Annot)
			if cl.Pool == "<empty>" {
				c.Count("repair:claim-pool-label-empty-value")
			}
		}
	}
	key := ""
	if nontrivial {
		key = "R:" + in
	}
	c.AddCase(fmt.Sprintf("CaseR %s %d %d %s", in, patches, dels, rc), J{"reaper": "repair", "case": x}, key)
}

// ---------------------------------------------------------------- generators

var bad30 = rpPolicy{"BadNode", "False", 30 * time.Minute}
var ready10 = rpPolicy{"Ready", "False", 10 * time.Minute}
var readyUnk = rpPolicy{"Ready", "Unknown", 10 * time.Minute}
var disk0 = rpPolicy{"DiskPressure", "True", 0}

func healthyConds() []rpCond {
	return []rpCond{{Type: "Ready", Status: "True", At: 5}, {Type: "BadNode", Status: "True", At: 7}}
}
func unhealthyConds(at int64) []rpCond {
	return []rpCond{{Type: "Ready", Status: "True", At: 5}, {Type: "BadNode", Status: "False", At: at}}
}

// pool of n nodes (the reconciled node included when in the API and labelled) with u unhealthy ones
func poolNodes(pool string, others, unhealthyOthers int) []rpNode {
	var out []rpNode
	for k := 0; k < others; k++ {
		cs := healthyConds()
		if k < unhealthyOthers {
			cs = unhealthyConds(int64(100 + k))
		}
		out = append(out, rpNode{Name: fmt.Sprintf("%s-n%02d", pool, k), Pool: pool, Conds: cs})
	}
	return out
}

func baseRepair() rpCase {
	return rpCase{PID: "fake://self", Pool: "pool", Conds: unhealthyConds(60), InAPI: true,
		Claims:   []rpClaim{{Name: "claim", PID: "fake://self", Pool: "pool", Annot: "none"}},
		Policies: []rpPolicy{bad30}, Anchor: 0, Delta: time.Second, PoolObj: true}
}

func runRepair(c *kit.Ctx) {
	// (a) toleration boundary, several policy constellations
	type constel struct {
		pol   []rpPolicy
		conds []rpCond
	}
	cs := []constel{
		{[]rpPolicy{bad30}, unhealthyConds(60)},
		// two matching policies; the second one terminates earlier (60+1800 vs 900+600)
		{[]rpPolicy{bad30, ready10}, []rpCond{{Type: "Ready", Status: "False", At: 900}, {Type: "BadNode", Status: "False", At: 60}}},
		// the first one terminates earlier
		{[]rpPolicy{bad30, ready10}, []rpCond{{Type: "Ready", Status: "False", At: 2000}, {Type: "BadNode", Status: "False", At: 60}}},
		// tie: first in policy order wins
		{[]rpPolicy{bad30, ready10}, []rpCond{{Type: "Ready", Status: "False", At: 1260}, {Type: "BadNode", Status: "False", At: 60}}},
		// duplicate condition types on the node: GetCondition takes the first
		{[]rpPolicy{ready10, readyUnk}, []rpCond{{Type: "Ready", Status: "Unknown", At: 30}, {Type: "Ready", Status: "False", At: 10}}},
		// zero toleration
		{[]rpPolicy{disk0, bad30}, []rpCond{{Type: "DiskPressure", Status: "True", At: 77}, {Type: "BadNode", Status: "False", At: 60}}},
		// unset transition time and zero toleration: requeueTime stays zero, the next match replaces it
		{[]rpPolicy{disk0, bad30}, []rpCond{{Type: "DiskPressure", Status: "True", Zero: true}, {Type: "BadNode", Status: "False", At: 60}}},
		{[]rpPolicy{disk0}, []rpCond{{Type: "DiskPressure", Status: "True", Zero: true}}},
		// a policy on a status the node does not have; a policy with the empty status (matches an absent condition)
		{[]rpPolicy{readyUnk, bad30}, unhealthyConds(60)},
		{[]rpPolicy{{"Missing", "", 5 * time.Minute}, bad30}, unhealthyConds(60)},
		// nothing matches
		{[]rpPolicy{bad30, ready10}, healthyConds()},
		{nil, unhealthyConds(60)},
	}
	for _, k := range cs {
		anchors := []int{-1}
		for a := range k.pol {
			anchors = append(anchors, a)
		}
		for _, a := range anchors {
			for _, d := range deltas {
				for _, pooled := range []bool{true, false} {
					if !pooled && !c.Thorough() && d != 0 && d != -time.Nanosecond {
						continue
					}
					x := baseRepair()
					x.Policies, x.Conds, x.Anchor, x.Delta = k.pol, k.conds, a, d
					if a == -1 {
						x.Delta = d + 1500*time.Second
					}
					if !pooled {
						x.Claims[0].Pool = ""
					}
					x.Nodes = poolNodes("pool", 5, 0)
					doRepair(c, x)
				}
			}
		}
	}
	// (b) circuit breaker: pool size n, unhealthy u around ceil(n/5)
	maxN := 12
	if c.Thorough() {
		maxN = 26
	}
	for n := 0; n <= maxN; n++ {
		thr := (n + 4) / 5
		for u := thr - 1; u <= thr+2; u++ {
			if u < 0 || u > n {
				continue
			}
			for _, mode := range []string{"pool", "cluster", "pool-stale"} {
				x := baseRepair()
				switch mode {
				case "pool":
					// the reconciled node is one of the pool's n nodes and is unhealthy itself
					if n == 0 || u == 0 {
						continue
					}
					x.Nodes = append(poolNodes("pool", n-1, u-1), poolNodes("other", 3, 3)...)
				case "cluster":
					if n == 0 || u == 0 {
						continue
					}
					x.Claims[0].Pool = ""
					x.Nodes = append(poolNodes("pool", (n-1)/2, 0), poolNodes("other", n-1-(n-1)/2, u-1)...)
				case "pool-stale":
					// the reconciled node is not (any more) among the listed pool nodes
					x.InAPI = false
					x.Nodes = append(poolNodes("pool", n, u), poolNodes("other", 2, 0)...)
				}
				for _, po := range []bool{true, false} {
					x.PoolObj = po
					if !po && u <= thr {
						continue
					}
					doRepair(c, x)
				}
				// the same world with some of the counted nodes Terminating (rolling failure: earlier
				// repairs are still draining). Unhealthy ones, healthy ones, both, and the node itself.
				if (u == thr || u == thr+1) && (c.Thorough() || n <= 6 || n == 10 || n == 11) {
					x.PoolObj = true
					for _, term := range []string{"unhealthy1", "unhealthy-all", "healthy1", "both", "self"} {
						if !c.Thorough() && (term == "unhealthy-all" || term == "self") && n%2 == 1 {
							continue
						}
						y := x
						y.Nodes = append([]rpNode{}, x.Nodes...)
						counted := func(nd rpNode) bool { return mode == "cluster" || nd.Pool == "pool" }
						sick := func(nd rpNode) bool { cd, ok := firstCond(nd.Conds, "BadNode"); return ok && cd.Status == "False" }
						doneU, doneH := false, false
						for k := range y.Nodes {
							nd := &y.Nodes[k]
							if !counted(*nd) {
								continue
							}
							switch {
							case sick(*nd) && (term == "unhealthy-all" || (term == "unhealthy1" || term == "both") && !doneU):
								nd.Deleting, doneU = true, true
							case !sick(*nd) && (term == "healthy1" || term == "both") && !doneH:
								nd.Deleting, doneH = true, true
							}
						}
						if mode == "cluster" {
							// cluster-wide breaker: a terminating unmanaged node counts as well
							for k := range y.Nodes {
								if y.Nodes[k].Deleting && k%2 == 0 {
									y.Nodes[k].Pool = ""
								}
							}
						}
						if term == "self" {
							if !y.InAPI {
								continue
							}
							y.SelfTerm = true
						} else if !doneU && !doneH {
							continue
						}
						doRepair(c, y)
					}
				}
			}
		}
	}
	// (c) fault sweep around the guarded reads and the writes
	for _, pooled := range []bool{true, false} {
		mk := func() rpCase {
			x := baseRepair()
			x.Nodes = poolNodes("pool", 5, 0)
			if !pooled {
				x.Claims[0].Pool = ""
			}
			return x
		}
		for _, f := range []string{"err", "nf", "conflict"} {
			x := mk()
			x.ClaimsF = f
			doRepair(c, x)
			x = mk()
			x.NodesF = f
			doRepair(c, x)
			x = mk()
			x.Nodes = poolNodes("pool", 5, 4)
			x.PoolGetF = f
			doRepair(c, x)
			for _, an := range []string{"none", "bad", "past", "now", "future", "past-tz", "future-tz"} {
				if (an == "past-tz" || an == "future-tz") && f != "err" {
					continue
				}
				for _, d := range []time.Duration{0, time.Nanosecond, time.Second} {
					x = mk()
					x.Claims[0].Annot, x.PatchF, x.Delta = an, f, d
					doRepair(c, x)
					x = mk()
					x.Claims[0].Annot, x.DelF, x.Delta = an, f, d
					doRepair(c, x)
				}
			}
			x = mk()
			x.Claims[0].Deleting, x.PatchF = true, f
			doRepair(c, x)
		}
		x := mk()
		x.Claims[0].Deleting = true
		doRepair(c, x)
		x = mk()
		x.PID, x.Claims[0].PID = "", ""
		doRepair(c, x)
		x = mk()
		x.Claims = nil
		doRepair(c, x)
		x = mk()
		x.Claims = append(x.Claims, rpClaim{Name: "twin", PID: x.PID, Pool: "pool", Annot: "none"})
		doRepair(c, x)
		x = mk()
		x.Claims = append(x.Claims, rpClaim{Name: "unrelated", PID: "fake://elsewhere", Pool: "pool", Annot: "none"})
		doRepair(c, x)
		// the nodepool label is present with the empty value: still "found", the breaker counts the nodes
		// labelled with the empty value (and not the unlabelled ones)
		for _, u := range []int{0, 1, 2} {
			x = mk()
			x.Pool, x.Claims[0].Pool = "<empty>", "<empty>"
			x.Nodes = append(poolNodes("<empty>", 4, u), poolNodes("", 3, 3)...)
			for k := range x.Nodes {
				x.Nodes[k].Name = fmt.Sprintf("e%02d", k)
			}
			x.PoolObj = false
			doRepair(c, x)
		}
	}
	// (d) random worlds
	n := 250
	if c.Thorough() {
		n = 5000
	}
	types := []string{"Ready", "BadNode", "DiskPressure"}
	stats := []string{"True", "False", "Unknown"}
	allPol := []rpPolicy{bad30, ready10, readyUnk, disk0, {"DiskPressure", "True", 90 * time.Second}, {"BadNode", "Unknown", time.Minute}}
	// condition lists of the other nodes come from a small shared pool (they only matter through
	// "matches some policy or not"); the reconciled node's own conditions are fully random
	var shared [][]rpCond
	{
		r := c.Rand.Fork()
		for k := 0; k < 16; k++ {
			var out []rpCond
			for _, t := range types {
				if r.Chance(1, 6) {
					continue
				}
				cd := rpCond{Type: t, Status: "True", At: int64(r.Range(0, 2400))}
				if t == "DiskPressure" {
					cd.Status = "False"
				}
				out = append(out, cd)
			}
			shared = append(shared, out)
		}
	}
	for i := 0; i < n; i++ {
		r := c.Rand.Fork()
		x := baseRepair()
		x.Policies = nil
		for k := r.Range(1, 3); k > 0; k-- {
			x.Policies = append(x.Policies, kit.Pick(r, allPol))
		}
		randConds := func(sick bool) []rpCond {
			var out []rpCond
			for _, t := range types {
				if r.Chance(1, 6) {
					continue
				}
				cd := rpCond{Type: t, Status: "True", At: int64(r.Range(0, 2400))}
				if t == "DiskPressure" {
					cd.Status = "False"
				}
				if sick && r.Chance(1, 2) {
					cd.Status = kit.Pick(r, stats)
				}
				if r.Chance(1, 20) {
					cd.Zero = true
				}
				out = append(out, cd)
			}
			return out
		}
		x.Conds = randConds(true)
		if r.Chance(1, 2) {
			x.Conds = append(x.Conds, rpCond{Type: x.Policies[0].Type, Status: x.Policies[0].Status, At: int64(r.Range(0, 2400))})
		}
		x.Anchor = r.Intn(len(x.Policies)+1) - 1
		switch r.Intn(3) {
		case 0:
			x.Delta = kit.Pick(r, deltas)
		case 1:
			x.Delta = time.Duration(r.Range(-3, 3))
		default:
			x.Delta = time.Duration(r.Range(-3000, 3000)) * time.Second
		}
		if x.Anchor == -1 {
			x.Delta += 3000 * time.Second
		}
		x.InAPI = !r.Chance(1, 8)
		if r.Chance(1, 8) {
			x.Pool = kit.Pick(r, []string{"", "other"})
		}
		x.Claims[0].Pool = kit.Pick(r, []string{"pool", "pool", "pool", "", "other"})
		x.Claims[0].Annot = kit.Pick(r, []string{"none", "none", "bad", "past", "now", "future", "past-tz", "future-tz"})
		x.Claims[0].Deleting = r.Chance(1, 8)
		switch r.Intn(12) {
		case 0:
			x.Claims = nil
		case 1:
			x.Claims = append(x.Claims, rpClaim{Name: "twin", PID: x.PID, Pool: "pool", Annot: "none"})
		case 2:
			x.PID = ""
		case 3:
			x.Claims = append(x.Claims, rpClaim{Name: "unrelated", PID: "fake://elsewhere", Annot: "past"})
		}
		nn := r.Range(0, 11)
		thr := (nn + 5) / 5
		uu := thr + r.Range(-2, 1)
		if uu < 0 {
			uu = 0
		}
		if uu > nn {
			uu = nn
		}
		for k := 0; k < nn; k++ {
			nd := rpNode{Name: fmt.Sprintf("n%02d", k), Pool: kit.Pick(r, []string{"pool", "pool", "pool", "other", ""}), Conds: kit.Pick(r, shared)}
			if k < uu {
				nd.Pool = "pool"
				nd.Conds = append([]rpCond{{Type: x.Policies[0].Type, Status: x.Policies[0].Status, At: kit.Pick(r, []int64{100, 1500})}}, nd.Conds...)
			}
			nd.Deleting = r.Chance(1, 5)
			x.Nodes = append(x.Nodes, nd)
		}
		x.SelfTerm = x.InAPI && r.Chance(1, 10)
		x.PoolObj = !r.Chance(1, 5)
		f := func(p int) string {
			if r.Chance(1, p) {
				return kit.Pick(r, []string{"err", "nf", "conflict"})
			}
			return ""
		}
		x.ClaimsF, x.NodesF, x.PoolGetF, x.PatchF, x.DelF = f(15), f(8), f(5), f(6), f(6)
		doRepair(c, x)
	}
}
