package main

// Generators: mostly-valid worlds whose catalog prices sit at / next to the candidate price sums, whose number of
// cheaper spot options sits at / next to 15, whose minValues sit next to the number of cheaper options, and whose
// pod eviction costs sit at / next to zero.

import (
	"fmt"

	"verifharness/kit"
)

var zoneNames = []string{"z1", "z2", "z3"}

func pickCT(r *kit.Rand, mode string) string {
	switch mode {
	case "s2s":
		return "spot"
	case "reserved":
		return kit.Pick(r, []string{"on-demand", "on-demand", "spot", "reserved"})
	}
	return kit.Pick(r, []string{"on-demand", "on-demand", "on-demand", "spot", "spot", "reserved"})
}

func poolCT(r *kit.Rand, mode string) (ct []string, not bool) {
	switch mode {
	case "s2s":
		switch r.Intn(6) {
		case 0, 1:
			return nil, false
		case 2:
			return []string{"spot"}, false
		case 3:
			return []string{"on-demand"}, false
		default:
			return []string{"spot", "on-demand"}, false
		}
	case "reserved":
		switch r.Intn(5) {
		case 0, 1:
			return nil, false
		case 2:
			return []string{"reserved", "on-demand"}, false
		case 3:
			return []string{"reserved", "spot", "on-demand"}, false
		default:
			return []string{"spot"}, true
		}
	}
	switch r.Intn(11) {
	case 10:
		return []string{"reserved", "on-demand"}, false
	case 0, 1, 2:
		return nil, false
	case 3:
		return []string{"spot"}, false
	case 4:
		return []string{"on-demand"}, false
	case 5, 6:
		return []string{"spot", "on-demand"}, false
	case 7:
		return []string{"reserved", "spot", "on-demand"}, false
	case 8:
		return []string{"spot"}, true
	default:
		return []string{"reserved"}, true
	}
}

// nearPrice: a price at / next to one of the anchors, or clearly below / above.
func nearPrice(r *kit.Rand, anchors []int64) int64 {
	a := kit.Pick(r, anchors)
	switch r.Intn(10) {
	case 0:
		return a - 1
	case 1:
		return a
	case 2:
		return a + 1
	case 3:
		return a / 2
	case 4:
		return a * 2
	case 5:
		return a + int64(r.Range(2, 600))
	default:
		p := a - int64(r.Range(2, 900))
		if p < 1 {
			p = int64(r.Range(1, 50))
		}
		return p
	}
}

func genPods(r *kit.Rand, node string, n int, empty bool) []podSpec {
	var out []podSpec
	for i := 0; i < n; i++ {
		p := podSpec{Name: fmt.Sprintf("p-%s-%d", node, i), CPUm: kit.Pick(r, []int{200, 400, 700, 1000, 1500})}
		if empty || r.Chance(1, 6) {
			// eviction cost at / next to zero: 1 + deletionCost/2^27 + priority/2^25
			switch r.Intn(8) {
			case 0:
				p.Del = ptr(int64(-134217728))
			case 1:
				p.Del = ptr(int64(-134217727))
			case 2:
				p.Del = ptr(int64(-134217729))
			case 3:
				p.Prio = ptr(int32(-33554432))
			case 4:
				p.Prio = ptr(int32(-33554431))
			case 5:
				p.Del = ptr(int64(-2147483647))
			case 6:
				p.Del = ptr(int64(134217728))
				p.Prio = ptr(int32(-67108864))
			default:
				p.Del = ptr(int64(-268435456))
				p.Prio = ptr(int32(33554432))
			}
		} else if r.Chance(1, 8) {
			p.Prio = ptr(int32(r.Range(-1000, 100000)))
		}
		out = append(out, p)
	}
	return out
}

type genOut struct {
	spec  *worldSpec
	mode  string
	cands []string // the nodes meant to be candidates
}

func genWorld(r *kit.Rand, mode string) genOut {
	spec := &worldSpec{Reserved: !r.Chance(1, 8)}
	switch mode {
	case "s2s":
		spec.S2S = !r.Chance(1, 4)
	case "reserved":
		spec.S2S = r.Bool()
		spec.Reserved = !r.Chance(1, 3)
	default:
		spec.S2S = r.Bool()
	}
	ncand := 1
	switch mode {
	case "multi":
		ncand = r.Range(2, 5)
	case "s2s":
		ncand = kit.Pick(r, []int{1, 1, 1, 2})
	case "empty":
		ncand = r.Range(1, 4)
	default:
		ncand = r.Range(1, 3)
	}
	pool := poolSpec{Name: "pool-a"}
	pool.CT, pool.CTNot = poolCT(r, mode)
	spec.Pools = []poolSpec{pool}

	// candidate nodes on their own ("current") instance types
	var anchors []int64
	var total int64
	ncur := r.Range(1, 2)
	curPrice := make([]int64, ncur)
	for i := range curPrice {
		curPrice[i] = int64(r.Range(8, 40)) * 128 // 1.0 .. 5.0
	}
	out := genOut{spec: spec, mode: mode}
	type cur struct {
		it, ct, zone string
	}
	seen := map[cur]bool{}
	curOffs := map[int][]offSpec{}
	for i := 0; i < ncand; i++ {
		k := r.Intn(ncur)
		n := nodeSpec{Name: fmt.Sprintf("n%d", i), Pool: pool.Name, IT: fmt.Sprintf("c%d", k), CT: pickCT(r, mode), Zone: kit.Pick(r, zoneNames), CPU: 8, Init: true}
		p := curPrice[k]
		if n.CT == "spot" {
			p = p * 3 / 4
		}
		if n.CT == "reserved" {
			n.RID = fmt.Sprintf("r-%s-%s", n.IT, n.Zone)
			p = p / 4
		}
		if mode == "empty" {
			n.Pods = genPods(r, n.Name, r.Intn(3), true)
		} else {
			n.Pods = genPods(r, n.Name, r.Range(1, 3), false)
		}
		// little spare room: the pods of one candidate rarely fit on another
		sum := 0
		for _, pd := range n.Pods {
			sum += pd.CPUm
		}
		n.CPU = (sum + 999 + r.Intn(2)*1000) / 1000
		if n.CPU < 1 {
			n.CPU = 1
		}
		key := cur{n.IT, n.CT, n.Zone}
		if !seen[key] {
			seen[key] = true
			// the offering the node runs on: usually there (sometimes unavailable now), sometimes gone (price 0)
			if !r.Chance(1, 12) {
				curOffs[k] = append(curOffs[k], offSpec{CT: n.CT, Zone: n.Zone, RID: n.RID, Price: p, Avail: !r.Chance(1, 5), Cap: r.Intn(2)})
				total += p
				anchors = append(anchors, p, total)
			}
		} else {
			for _, o := range curOffs[k] {
				if o.CT == n.CT && o.Zone == n.Zone {
					total += o.Price
					anchors = append(anchors, total)
				}
			}
		}
		spec.Nodes = append(spec.Nodes, n)
		out.cands = append(out.cands, n.Name)
	}
	if len(anchors) == 0 {
		anchors = []int64{2048}
	}
	for k := 0; k < ncur; k++ {
		offs := curOffs[k]
		// other offerings of the current types, so that they can be replacement options too (same-type filter)
		for j := r.Intn(3); j > 0; j-- {
			offs = append(offs, offSpec{CT: kit.Pick(r, []string{"spot", "on-demand"}), Zone: kit.Pick(r, zoneNames), Price: nearPrice(r, anchors), Avail: !r.Chance(1, 6)})
		}
		if len(offs) == 0 { // an instance type without offerings would get the fake provider's defaults
			offs = append(offs, offSpec{CT: "on-demand", Zone: "z3", Price: nearPrice(r, anchors), Avail: false})
		}
		spec.Catalog = append(spec.Catalog, itSpec{Name: fmt.Sprintf("c%d", k), CPU: 8, Fam: "fc", Offs: dedupOffs(offs)})
	}

	// replacement types
	nrep := r.Range(2, 7)
	if mode == "s2s" {
		nrep = r.Range(15, 23)
	}
	fams := []string{"fa", "fb", "fc", "fd"}
	for i := 0; i < nrep; i++ {
		it := itSpec{Name: fmt.Sprintf("t%02d", i), CPU: kit.Pick(r, []int{2, 4, 8, 8, 16}), Fam: kit.Pick(r, fams)}
		var offs []offSpec
		switch mode {
		case "s2s":
			// mostly one cheaper spot offering; sometimes a second one that may be dearer (worst-case price)
			offs = append(offs, offSpec{CT: "spot", Zone: kit.Pick(r, zoneNames), Price: belowOrAt(r, anchors), Avail: !r.Chance(1, 20)})
			if r.Chance(1, 8) {
				offs = append(offs, offSpec{CT: "spot", Zone: kit.Pick(r, zoneNames), Price: nearPrice(r, anchors), Avail: !r.Chance(1, 6)})
			}
			if r.Chance(1, 3) {
				offs = append(offs, offSpec{CT: "on-demand", Zone: kit.Pick(r, zoneNames), Price: nearPrice(r, anchors), Avail: true})
			}
			it.CPU = kit.Pick(r, []int{4, 8, 16})
		default:
			if r.Chance(1, 4) {
				// an exhausted (unavailable) offering of a capacity type that takes precedence, cheap, beside available
				// on-demand offerings at / above the candidate price: only the available ones can be launched
				z := kit.Pick(r, zoneNames)
				ct := kit.Pick(r, []string{"reserved", "reserved", "spot"})
				gone := offSpec{CT: ct, Zone: z, Price: kit.Pick(r, []int64{0, 1, anchors[0] / 8, anchors[0] - 1}), Avail: false}
				if ct == "reserved" {
					gone.RID = fmt.Sprintf("r-%s-%s", it.Name, z)
				}
				offs = append(offs, gone, offSpec{CT: "on-demand", Zone: kit.Pick(r, zoneNames),
					Price: kit.Pick(r, []int64{anchors[0] - 1, anchors[0], anchors[0] + 1, anchors[0] * 3 / 2, anchors[len(anchors)-1], anchors[len(anchors)-1] + 1}), Avail: true})
				it.CPU = kit.Pick(r, []int{8, 16})
				it.Offs = dedupOffs(offs)
				spec.Catalog = append(spec.Catalog, it)
				continue
			}
			for j := r.Range(1, 4); j > 0; j-- {
				offs = append(offs, offSpec{CT: kit.Pick(r, []string{"spot", "spot", "on-demand", "on-demand", "on-demand"}), Zone: kit.Pick(r, zoneNames), Price: nearPrice(r, anchors), Avail: !r.Chance(1, 7)})
			}
			if mode == "reserved" && r.Chance(2, 3) || r.Chance(1, 12) {
				z := kit.Pick(r, zoneNames)
				offs = append(offs, offSpec{CT: "reserved", Zone: z, RID: fmt.Sprintf("r-%s-%s", it.Name, z), Price: kit.Pick(r, []int64{0, 1, anchors[0] / 8, anchors[0] - 1, anchors[0]}),
					Avail: !r.Chance(1, 5), Cap: kit.Pick(r, []int{0, 1, 1, 2})})
			}
		}
		it.Offs = dedupOffs(offs)
		spec.Catalog = append(spec.Catalog, it)
	}

	// minValues next to the number of options
	if mode == "s2s" && r.Chance(1, 3) {
		spec.Pools[0].MinKey = "it"
		spec.Pools[0].MinVal = r.Range(14, 19)
	} else if r.Chance(1, 4) {
		pool := &spec.Pools[0]
		if r.Chance(2, 3) {
			pool.MinKey = "it"
			pool.MinVal = kit.Pick(r, []int{1, 2, 3, nrep - 1, nrep, nrep + 1, nrep + 3, 14, 15, 16, 17})
			if pool.MinVal < 1 {
				pool.MinVal = 1
			}
		} else {
			pool.MinKey = "fam"
			pool.MinVal = r.Range(1, 4)
		}
		spec.BestEffort = r.Chance(1, 5)
	}

	// somewhere else to go
	if mode != "empty" && r.Chance(1, 4) {
		sink := nodeSpec{Name: "sink", Pool: pool.Name, IT: "c0", CT: "on-demand", Zone: "z1", CPU: kit.Pick(r, []int{1, 2, 4, 16}), Init: !r.Chance(1, 4), Protect: true}
		if r.Chance(1, 3) {
			sink.Pods = genPods(r, "sink", 1, false)
		}
		spec.Nodes = append(spec.Nodes, sink)
	}
	if mode != "empty" && r.Chance(1, 7) {
		del := nodeSpec{Name: "gone", Pool: pool.Name, IT: "c0", CT: "on-demand", Zone: "z2", CPU: 8, Init: true, Marked: true}
		del.Pods = genPods(r, "gone", 1, false)
		spec.Nodes = append(spec.Nodes, del)
	}
	if mode != "empty" && r.Chance(1, 7) {
		spec.Pending = []podSpec{{Name: "pending-0", CPUm: kit.Pick(r, []int{300, 900, 64000})}}
	}
	// ---- dimensions the anchored code reads (coverage audit): a second NodePool, policies, budgets, provider answers,
	// missing labels, unknown instance types, conditions, pod-level blockers, price overlays, preference policy
	spec.IgnorePref = r.Chance(1, 6)
	pa := &spec.Pools[0]
	switch r.Intn(16) {
	case 0, 1, 5:
		pa.Policy = "Balanced"
		if r.Bool() && len(spec.Nodes) > 0 {
			// a cheap node that is expensive to disrupt: its delete / replace score falls below the threshold
			for j := range spec.Nodes[0].Pods {
				spec.Nodes[0].Pods[j].Prio = ptr(int32(250000000))
			}
		}
	case 2:
		pa.Budget = ptr(0)
	case 3:
		pa.Budget = ptr(1)
	case 4:
		pa.Taint = true
	case 6:
		pa.After = "10m" // nodes are still inside consolidateAfter: the consolidation simulation must not pack onto them
	}
	if r.Chance(1, 3) {
		pb := poolSpec{Name: "pool-b", CT: pa.CT, CTNot: pa.CTNot}
		switch r.Intn(12) {
		case 0, 8:
			pb.Policy = "WhenEmpty"
		case 1:
			pb.Never = true
		case 2:
			pb.Static = true
		case 3:
			pb.ITErr = "error"
		case 4:
			pb.ITErr = "unevaluated"
		case 5:
			pb.ITErr = "empty"
		case 6, 7:
			pb.Policy = "Balanced"
		}
		switch r.Intn(5) {
		case 0:
			pb.Budget = ptr(0)
		case 1:
			pb.Budget = ptr(1)
		}
		spec.Pools = append(spec.Pools, pb)
		for i := range spec.Nodes {
			if r.Bool() {
				spec.Nodes[i].Pool = "pool-b"
			}
		}
	}
	for i := range spec.Nodes {
		n := &spec.Nodes[i]
		switch {
		case r.Chance(1, 30):
			n.NoCT = true
		case r.Chance(1, 30):
			n.NoZone = true
		case r.Chance(1, 30):
			n.Ghost = true
		case r.Chance(1, 25):
			n.NotCons = true
		}
		for j := range n.Pods {
			p := &n.Pods[j]
			switch {
			case r.Chance(1, 40):
				p.DND = true
			case r.Chance(1, 40):
				p.PDB = true
			case r.Chance(1, 30):
				p.DS = true
			case r.Chance(1, 40):
				p.Done = true
			}
			p.Tol = pa.Taint && r.Bool()
		}
	}
	overlays := []string{"+0.25", "-0.125", "+50%", "-50%", "-100%", "2.5", "-1000", "+0%"}
	for i := range spec.Catalog {
		if len(spec.Catalog[i].Name) > 0 && spec.Catalog[i].Name[0] != 't' {
			continue // the candidates' own offerings keep their price (the anchors of the boundary prices)
		}
		for j := range spec.Catalog[i].Offs {
			if r.Chance(1, 12) {
				o := &spec.Catalog[i].Offs[j]
				o.Overlay = kit.Pick(r, overlays)
				o.Price &^= 1 // a percentage of an even number of 2^-10 units is still a multiple of 2^-10
			} else if r.Chance(1, 15) {
				spec.Catalog[i].Offs[j].CPUOver = kit.Pick(r, []int{1, 2, 32})
			}
		}
	}
	// selectors that narrow the replacement's requirements, or pin a pod to its node
	for i := range spec.Nodes {
		for j := range spec.Nodes[i].Pods {
			p := &spec.Nodes[i].Pods[j]
			if mode == "s2s" && !r.Chance(1, 4) {
				continue
			}
			switch {
			case r.Chance(1, 8):
				p.Zone = kit.Pick(r, zoneNames)
			case r.Chance(1, 10):
				p.CT = kit.Pick(r, []string{"spot", "on-demand"})
			case r.Chance(1, 25):
				p.Pin = true
			}
		}
	}
	return out
}

func belowOrAt(r *kit.Rand, anchors []int64) int64 {
	a := anchors[0]
	switch r.Intn(24) {
	case 0:
		return a
	case 1:
		return a - 1
	case 2:
		return a + 1
	default:
		p := a - int64(r.Range(2, 700))
		if p < 1 {
			p = 1
		}
		return p
	}
}

// dedupOffs keeps one offering per (capacity type, zone): offerings of an instance type are unique.
func dedupOffs(in []offSpec) []offSpec {
	seen := map[string]bool{}
	var out []offSpec
	for _, o := range in {
		k := o.CT + "/" + o.Zone
		if seen[k] {
			continue
		}
		seen[k] = true
		out = append(out, o)
	}
	return out
}
