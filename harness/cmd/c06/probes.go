package main

// Directed worlds around the finding of C06 (and its well-behaved neighbours), and the emptiness boundary.

import (
	"verifharness/kit"
)

func probeWorld(gate bool, cap int, poolCT []string, withSpot bool) *worldSpec {
	t00 := itSpec{Name: "t00", CPU: 8, Fam: "fa", Offs: []offSpec{
		{CT: "reserved", Zone: "z1", RID: "r-t00-z1", Price: 128, Avail: true, Cap: cap},
		{CT: "on-demand", Zone: "z1", Price: 6144, Avail: true},
	}}
	if withSpot {
		t00.Offs = append(t00.Offs, offSpec{CT: "spot", Zone: "z1", Price: 5120, Avail: true})
	}
	return &worldSpec{S2S: false, Reserved: gate,
		Catalog: []itSpec{{Name: "c0", CPU: 8, Fam: "fc", Offs: []offSpec{{CT: "on-demand", Zone: "z1", Price: 4096, Avail: true}}}, t00},
		Pools:   []poolSpec{{Name: "pool-a", CT: poolCT}},
		Nodes: []nodeSpec{{Name: "n0", Pool: "pool-a", IT: "c0", CT: "on-demand", Zone: "z1", CPU: 8, Init: true,
			Pods: []podSpec{{Name: "p-n0-0", CPUm: 1000}}}},
	}
}

func runProbes(c *kit.Ctx) {
	for _, gate := range []bool{false, true} {
		for _, cap := range []int{0, 1} {
			for _, ct := range [][]string{nil, {"reserved", "on-demand"}, {"reserved", "spot", "on-demand"}} {
				for _, spot := range []bool{true, false} {
					runSingle(c, genOut{spec: probeWorld(gate, cap, ct, spot), mode: "probe_reserved"})
				}
			}
		}
	}
	// an "empty" node that runs a pod whose eviction cost is exactly zero and that can go nowhere else
	for _, del := range []int64{-134217728, -134217727} {
		d := del
		spec := &worldSpec{Reserved: true,
			Catalog: []itSpec{{Name: "c0", CPU: 8, Fam: "fc", Offs: []offSpec{{CT: "on-demand", Zone: "z1", Price: 4096, Avail: true}}}},
			Pools:   []poolSpec{{Name: "pool-a"}},
			Nodes: []nodeSpec{{Name: "n0", Pool: "pool-a", IT: "c0", CT: "on-demand", Zone: "z1", CPU: 8, Init: true,
				Pods: []podSpec{{Name: "p-n0-0", CPUm: 1000, Del: &d, Pin: true}}}},
		}
		runEmpty(c, genOut{spec: spec, mode: "probe_empty"}, true) // with the real EmptinessValidator
	}
}
