package main

// Directed worlds around the finding of C06 (and its well-behaved neighbours), and the emptiness boundary.

import (
	"verifharness/kit"
)

func probeWorld(gate bool, cap int, poolCT []string, withSpot bool) *worldSpec {
	t00 := itSpec{Name: "t00", CPU: 8, Fam: "fa", Offs: []offSpec{
		{CT: "reserved", Zone: "z1", RID: "r-t00-z1", Price: 128, Avail: true, Cap: cap},
		{CT: "on-demand", Zone: "z1", Price: 6144, Avail: true},
	}}
	if withSpot {
		t00.Offs = append(t00.Offs, offSpec{CT: "spot", Zone: "z1", Price: 5120, Avail: true})
	}
	return &worldSpec{S2S: false, Reserved: gate,
		Catalog: []itSpec{{Name: "c0", CPU: 8, Fam: "fc", Offs: []offSpec{{CT: "on-demand", Zone: "z1", Price: 4096, Avail: true}}}, t00},
		Pools:   []poolSpec{{Name: "pool-a", CT: poolCT}},
		Nodes: []nodeSpec{{Name: "n0", Pool: "pool-a", IT: "c0", CT: "on-demand", Zone: "z1", CPU: 8, Init: true,
			Pods: []podSpec{{Name: "p-n0-0", CPUm: 1000}}}},
	}
}

func runProbes(c *kit.Ctx) {
	for _, gate := range []bool{false, true} {
		for _, cap := range []int{0, 1} {
			for _, ct := range [][]string{nil, {"reserved", "on-demand"}, {"reserved", "spot", "on-demand"}} {
				for _, spot := range []bool{true, false} {
					runSingle(c, genOut{spec: probeWorld(gate, cap, ct, spot), mode: "probe_reserved"})
				}
			}
		}
	}
	// exhausted offerings must not decide the launch price: t00 lists an UNAVAILABLE cheap reserved (or spot) offering next
	// to an available on-demand offering at / above the on-demand candidate's price; the NodePool allows no spot. Only the
	// on-demand offering can be launched, so t00 is no replacement (and must not become one).
	for _, goneCT := range []string{"reserved", "spot"} {
		for _, od := range []int64{4095, 4096, 6144} {
			for _, ct := range [][]string{{"reserved", "on-demand"}, {goneCT, "on-demand"}, nil} {
				gone := offSpec{CT: goneCT, Zone: "z1", Price: 128, Avail: false}
				if goneCT == "reserved" {
					gone.RID = "r-t00-z1"
				}
				spec := probeWorld(true, 1, ct, false)
				spec.Catalog[1].Offs = []offSpec{gone, {CT: "on-demand", Zone: "z1", Price: od, Avail: true}}
				runSingle(c, genOut{spec: spec, mode: "probe_exhausted_offering"})
			}
		}
	}
	// the single-node timeout with NodePools left unseen: two pools, pinned pods (every candidate publishes "not all pods
	// would schedule"), so the loop times out after the first candidate and remembers the other pool for the next run
	{
		spec := &worldSpec{Reserved: true,
			Catalog: []itSpec{{Name: "c0", CPU: 8, Fam: "fc", Offs: []offSpec{{CT: "on-demand", Zone: "z1", Price: 4096, Avail: true}}}},
			Pools:   []poolSpec{{Name: "pool-a"}, {Name: "pool-b"}}}
		for i, pool := range []string{"pool-a", "pool-a", "pool-b", "pool-b"} {
			name := []string{"n0", "n1", "n2", "n3"}[i]
			spec.Nodes = append(spec.Nodes, nodeSpec{Name: name, Pool: pool, IT: "c0", CT: "on-demand", Zone: "z1", CPU: 2, Init: true,
				Pods: []podSpec{{Name: "p-" + name + "-0", CPUm: 1000, Pin: true}}})
		}
		runSingle(c, genOut{spec: spec, mode: "probe_timeout"})
	}
	// a Balanced NodePool whose only possible move saves next to nothing and disrupts everything: the evaluator rejects
	// it (multi-node: every probe of the binary search is rejected)
	{
		heavy := ptr(int32(250000000))
		spec := &worldSpec{Reserved: true,
			Catalog: []itSpec{{Name: "c0", CPU: 2, Fam: "fc", Offs: []offSpec{{CT: "on-demand", Zone: "z1", Price: 4096, Avail: true}}},
				{Name: "t00", CPU: 16, Fam: "fa", Offs: []offSpec{{CT: "on-demand", Zone: "z1", Price: 8191, Avail: true}}}},
			Pools: []poolSpec{{Name: "pool-a", Policy: "Balanced", CT: []string{"on-demand"}}}}
		for _, name := range []string{"n0", "n1"} {
			spec.Nodes = append(spec.Nodes, nodeSpec{Name: name, Pool: "pool-a", IT: "c0", CT: "on-demand", Zone: "z1", CPU: 2, Init: true,
				Pods: []podSpec{{Name: "p-" + name + "-0", CPUm: 1500, Prio: heavy}}})
		}
		runMulti(c, genOut{spec: spec, mode: "probe_balanced"})
		runSingle(c, genOut{spec: spec, mode: "probe_balanced"})
	}
	// an "empty" node that runs a pod whose eviction cost is exactly zero and that can go nowhere else
	for _, del := range []int64{-134217728, -134217727} {
		d := del
		spec := &worldSpec{Reserved: true,
			Catalog: []itSpec{{Name: "c0", CPU: 8, Fam: "fc", Offs: []offSpec{{CT: "on-demand", Zone: "z1", Price: 4096, Avail: true}}}},
			Pools:   []poolSpec{{Name: "pool-a"}},
			Nodes: []nodeSpec{{Name: "n0", Pool: "pool-a", IT: "c0", CT: "on-demand", Zone: "z1", CPU: 8, Init: true,
				Pods: []podSpec{{Name: "p-n0-0", CPUm: 1000, Del: &d, Pin: true}}}},
		}
		runEmpty(c, genOut{spec: spec, mode: "probe_empty"}, true) // with the real EmptinessValidator
	}
}
