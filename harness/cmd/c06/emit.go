package main

// Gallina emitters and the projection of the real objects (requirements, offerings, instance types, candidates,
// scheduling results, commands) onto the observables the model is compared on.

import (
	"errors"
	"fmt"
	"math"
	"sort"
	"strings"

	corev1 "k8s.io/api/core/v1"

	v1 "sigs.k8s.io/karpenter/pkg/apis/v1"
	"sigs.k8s.io/karpenter/pkg/cloudprovider"
	"sigs.k8s.io/karpenter/pkg/controllers/disruption"
	pscheduling "sigs.k8s.io/karpenter/pkg/controllers/provisioning/scheduling"
	"sigs.k8s.io/karpenter/pkg/scheduling"
	disruptionutils "sigs.k8s.io/karpenter/pkg/utils/disruption"
	"sigs.k8s.io/karpenter/pkg/utils/pdb"
	podutil "sigs.k8s.io/karpenter/pkg/utils/pod"

	"verifharness/kit"
)

// gz / gs: literals without scope annotations (the case files open Z_scope and string_scope; constructor
// arguments carry their own scopes). Parsing dominates the Coq side of the check, so size matters.
func gz(z int64) string {
	if z < 0 {
		return fmt.Sprintf("(%d)", z)
	}
	return fmt.Sprint(z)
}

func gs(s string) string {
	for i := 0; i < len(s); i++ {
		if s[i] < 32 || s[i] > 126 {
			panic(fmt.Sprintf("gs: non printable byte in %q", s))
		}
	}
	return "\"" + strings.ReplaceAll(s, "\"", "\"\"") + "\""
}

func gstrs(xs []string) string { return kit.GListOf(xs, gs) }

func gOptZ(p *int) string {
	if p == nil {
		return "None"
	}
	return "(Some " + gz(int64(*p)) + ")"
}

func gOptStr(s string) string {
	if s == "" {
		return "None"
	}
	return "(Some " + gs(s) + ")"
}

// units converts a float price into 2^-10 units; the generators only produce such values.
func units(p float64) int64 {
	u := p * 1024.0
	if u != math.Trunc(u) || math.Abs(u) > 1<<40 {
		panic(fmt.Sprintf("price %v is not an exact multiple of 2^-10", p))
	}
	return int64(u)
}

func gPrice(p float64) string {
	if p == math.MaxFloat64 {
		return "None"
	}
	return "(Some " + gz(units(p)) + ")"
}

func gReq(r *scheduling.Requirement) string {
	compl, gte, lte, _ := r.VerifInternals()
	vals := append([]string(nil), r.Values()...)
	sort.Strings(vals)
	return fmt.Sprintf("(mkReq %s %s %s %s %s)", kit.GBool(compl), gstrs(vals), gOptZ(gte), gOptZ(lte), gOptZ(r.MinValues))
}

// relevantKeys: the keys of a requirement map the model reads (those an offering can carry, and those with minValues).
func relevantKeys(r scheduling.Requirements) []string {
	var ks []string
	for k, req := range r {
		if k == v1.CapacityTypeLabelKey || k == corev1.LabelTopologyZone || k == cloudprovider.ReservationIDLabel || req.MinValues != nil {
			ks = append(ks, k)
		}
	}
	sort.Strings(ks)
	return ks
}

func gReqs(r scheduling.Requirements) string {
	ks := relevantKeys(r)
	return kit.GListOf(ks, func(k string) string { return kit.GPair(gs(k), gReq(r[k])) })
}

// otherKeys renders the requirements the model does not read, to check that the code under test leaves them alone.
func otherKeys(r scheduling.Requirements) string {
	rel := map[string]bool{}
	for _, k := range relevantKeys(r) {
		rel[k] = true
	}
	var out []string
	for k, req := range r {
		if !rel[k] {
			out = append(out, k+"="+gReq(req))
		}
	}
	sort.Strings(out)
	return strings.Join(out, ";")
}

func minKeys(rs ...scheduling.Requirements) []string {
	set := map[string]bool{}
	for _, r := range rs {
		for k, req := range r {
			if req.MinValues != nil {
				set[k] = true
			}
		}
	}
	return kit.SortedKeys(set)
}

func offeringShape(o *cloudprovider.Offering) (ct, zone, rid string) {
	for k, r := range o.Requirements {
		compl, gte, lte, _ := r.VerifInternals()
		if compl || gte != nil || lte != nil || len(r.Values()) != 1 {
			panic("offering requirement is not a single-value In: " + k)
		}
		switch k {
		case v1.CapacityTypeLabelKey:
			ct = r.Values()[0]
		case corev1.LabelTopologyZone:
			zone = r.Values()[0]
		case cloudprovider.ReservationIDLabel:
			rid = r.Values()[0]
		default:
			panic("unexpected offering requirement key " + k)
		}
	}
	return
}

func gOffering(o *cloudprovider.Offering) string {
	ct, zone, rid := offeringShape(o)
	return fmt.Sprintf("(mkOff %s %s %s %s %s)", gs(ct), gs(zone), gOptStr(rid), gz(units(o.Price)), kit.GBool(o.Available))
}

func gOfferings(ofs cloudprovider.Offerings) string {
	return kit.GListOf(ofs, func(o *cloudprovider.Offering) string { return gOffering(o) })
}

func gInstanceType(it *cloudprovider.InstanceType, mk []string) string {
	vals := kit.GListOf(mk, func(k string) string {
		vs := append([]string(nil), it.Requirements.Get(k).Values()...)
		sort.Strings(vs)
		return kit.GPair(gs(k), gstrs(vs))
	})
	return fmt.Sprintf("(mkIT %s %s %s)", gs(it.Name), gOfferings(it.Offerings), vals)
}

func (w *world) gCatalog(mk []string) string {
	return kit.GListOf(w.cp.InstanceTypes, func(it *cloudprovider.InstanceType) string { return gInstanceType(it, mk) })
}

// evictionUnits: EvictionCost in units of 2^-27 (exact for integral deletion costs and priorities).
func evictionUnits(c float64) int64 {
	u := c * 134217728.0
	if u != math.Trunc(u) {
		panic(fmt.Sprintf("eviction cost %v is not a multiple of 2^-27", c))
	}
	return int64(u)
}

func (w *world) gCand(c *disruption.Candidate) string {
	it, ct, zone, pods := c.VerifInternals()
	name := ""
	if it != nil {
		name = it.Name
	}
	costs := make([]string, 0, len(pods))
	for _, p := range pods {
		costs = append(costs, gz(evictionUnits(disruptionutils.EvictionCost(w.ctx, p))))
	}
	return fmt.Sprintf("(mkCC %s %s %s %s %s %s %s %s)", gs(c.Name()), gs(c.NodePool.Name), gs(name), gs(ct), gs(zone),
		gOptStr(c.Labels()[cloudprovider.ReservationIDLabel]), kit.GList(costs), gz(units(c.Price)))
}

func (w *world) gCands(cs []*disruption.Candidate) string {
	return kit.GListOf(cs, func(c *disruption.Candidate) string { return w.gCand(c) })
}

func names(cs []*disruption.Candidate) []string {
	out := make([]string, len(cs))
	for i, c := range cs {
		out[i] = c.Name()
	}
	return out
}

func itNames(its []*cloudprovider.InstanceType) []string {
	out := make([]string, len(its))
	for i, it := range its {
		out[i] = it.Name
	}
	return out
}

// ---- scheduling results

type placement struct {
	id     int
	origin string
	where  string
}

// project renders Results as the model's pod placements. candNames: the candidates of this simulation.
func (w *world) project(res pscheduling.Results, candNames map[string]bool) (string, []string) {
	var problems []string
	placed := map[*corev1.Pod]string{}
	for _, n := range res.ExistingNodes {
		for _, p := range n.Pods {
			placed[p] = fmt.Sprintf("(PExisting %s %s)", gs(n.Name()), kit.GBool(n.Initialized()))
		}
	}
	for i, nc := range res.NewNodeClaims {
		for _, p := range nc.Pods {
			if _, dup := placed[p]; dup {
				problems = append(problems, "pod placed twice: "+p.Name)
			}
			placed[p] = fmt.Sprintf("(PNew %d)", i)
		}
	}
	for p, err := range res.PodErrors {
		if _, ok := placed[p]; ok {
			var ue *disruption.UninitializedNodeError
			if !errors.As(err, &ue) {
				problems = append(problems, "placed pod carries a non-initialization error: "+p.Name)
			}
			continue
		}
		placed[p] = "PErr"
	}
	var out []placement
	for p, where := range placed {
		origin := "OnDeleting"
		switch {
		case p.Spec.NodeName == "":
			origin = "Pending"
		case candNames[p.Spec.NodeName]:
			origin = "OnCandidate"
		}
		if podutil.IsProvisionable(p) != (origin == "Pending") {
			problems = append(problems, "IsProvisionable disagrees with the pod's origin: "+p.Name)
		}
		id, ok := w.podIDs[p.Name]
		if !ok {
			problems = append(problems, "unknown pod in results: "+p.Name)
		}
		out = append(out, placement{id: id, origin: origin, where: where})
	}
	sort.Slice(out, func(i, j int) bool { return out[i].id < out[j].id })
	return kit.GListOf(out, func(p placement) string {
		return fmt.Sprintf("(mkPP %s %s %s)", gz(int64(p.id)), p.origin, p.where)
	}), problems
}

// gSim renders a simulation as the model's input: placements and the new NodeClaims (requirements, option names).
func (w *world) gSim(res pscheduling.Results, candNames map[string]bool) (string, []string) {
	pods, problems := w.project(res, candNames)
	ncs := kit.GListOf(res.NewNodeClaims, func(nc *pscheduling.NodeClaim) string {
		return kit.GPair(gReqs(nc.Requirements), gstrs(itNames(nc.InstanceTypeOptions)))
	})
	return fmt.Sprintf("(mkCS %s %s)", pods, ncs), problems
}

// simKey is a canonical fingerprint of a simulation, used to detect scheduler non-determinism between two runs.
func (w *world) simKey(res pscheduling.Results, candNames map[string]bool) string {
	pods, _ := w.project(res, candNames)
	var ncs []string
	for _, nc := range res.NewNodeClaims {
		ns := itNames(nc.InstanceTypeOptions)
		sort.Strings(ns)
		ncs = append(ncs, gReqs(nc.Requirements)+otherKeys(nc.Requirements)+strings.Join(ns, ","))
	}
	return pods + "|" + strings.Join(ncs, "|")
}

// expectedPods: the currently reschedulable pods of the candidates (what SimulateScheduling must find a home for).
func (w *world) expectedPods(cs []*disruption.Candidate) string {
	limits, err := pdb.NewLimits(w.ctx, w.c)
	if err != nil {
		panic(err)
	}
	var ids []int
	for _, c := range cs {
		_, _, _, pods := c.VerifInternals()
		for _, p := range pods {
			if limits.IsCurrentlyReschedulable(p, w.clk, w.recorder) {
				ids = append(ids, w.podIDs[p.Name])
			}
		}
	}
	sort.Ints(ids)
	return kit.GListOf(ids, func(i int) string { return gz(int64(i)) })
}

// gObs renders a command as the observation the oracle and the correspondence check read.
func (w *world) gObs(cmd disruption.Command, cs []*disruption.Candidate) (string, []string) {
	candNames := map[string]bool{}
	for _, c := range cs {
		candNames[c.Name()] = true
	}
	var problems []string
	oc := "ONoOp"
	switch cmd.Decision() {
	case disruption.DeleteDecision:
		oc = "ODelete"
	case disruption.ReplaceDecision:
		if len(cmd.Replacements) != 1 {
			problems = append(problems, fmt.Sprintf("command carries %d replacements", len(cmd.Replacements)))
		}
		r := cmd.Replacements[0]
		oc = fmt.Sprintf("(OReplace %s %s)", gReqs(r.Requirements), gstrs(itNames(r.InstanceTypeOptions)))
	}
	if cmd.Decision() != disruption.NoOpDecision {
		got := names(cmd.Candidates)
		want := names(cs)
		sort.Strings(got)
		sort.Strings(want)
		if strings.Join(got, ",") != strings.Join(want, ",") {
			problems = append(problems, fmt.Sprintf("command candidates %v differ from the candidates given %v", got, want))
		}
	}
	pods := "[]"
	nnew := 0
	if cmd.Decision() != disruption.NoOpDecision && cmd.Results.PodErrors != nil {
		var p2 []string
		pods, p2 = w.project(cmd.Results, candNames)
		problems = append(problems, p2...)
		nnew = len(cmd.Results.NewNodeClaims)
	}
	return fmt.Sprintf("(mkObs %s %s %d %s)", oc, pods, nnew, w.expectedPods(cs)), problems
}

// gState renders what the ShouldDisrupt predicates read of a candidate.
func (w *world) gState(c *disruption.Candidate) string {
	it, _, _, pods := c.VerifInternals()
	_, hasCT := c.Labels()[v1.CapacityTypeLabelKey]
	_, hasZone := c.Labels()[corev1.LabelTopologyZone]
	costs := make([]string, 0, len(pods))
	for _, p := range pods {
		costs = append(costs, gz(evictionUnits(disruptionutils.EvictionCost(w.ctx, p))))
	}
	st := fmt.Sprintf("(mkCSt %s %s %s %s %s %s %s)", kit.GBool(c.NodePool.Spec.Replicas != nil), kit.GBool(it != nil), kit.GBool(hasCT), kit.GBool(hasZone),
		kit.GBool(c.NodePool.Spec.Disruption.ConsolidateAfter.Duration != nil), kit.GBool(c.NodePool.Spec.Disruption.ConsolidationPolicy == v1.ConsolidationPolicyWhenEmpty),
		kit.GBool(c.NodeClaim.StatusConditions().Get(v1.ConditionTypeConsolidatable).IsTrue()))
	return fmt.Sprintf("(%s, %s, %s)", gs(c.Name()), st, kit.GList(costs))
}
