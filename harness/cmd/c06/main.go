// c06 runs the real consolidation code (computeConsolidation, filterOutSameInstanceType, the Single / Multi /
// Emptiness ComputeCommands, validateCommand, Offerings.WorstLaunchPrice, InstanceTypes.OrderByPrice, EvictionCost)
// on generated worlds and writes inputs and observations as Gallina cases. To factor out scheduler non-determinism
// the harness calls the exported disruption.SimulateScheduling on the same candidates and feeds its result to the
// model; a case is only emitted when two harness simulations around the call under test agree.
package main

import (
	"context"
	"fmt"
	"os"
	"runtime/coverage"
	"runtime/pprof"
	"sort"
	"strings"
	"time"

	corev1 "k8s.io/api/core/v1"
	"k8s.io/apimachinery/pkg/util/sets"
	"sigs.k8s.io/controller-runtime/pkg/client"

	v1 "sigs.k8s.io/karpenter/pkg/apis/v1"
	"sigs.k8s.io/karpenter/pkg/cloudprovider"
	"sigs.k8s.io/karpenter/pkg/cloudprovider/fake"
	"sigs.k8s.io/karpenter/pkg/controllers/disruption"
	pscheduling "sigs.k8s.io/karpenter/pkg/controllers/provisioning/scheduling"
	"sigs.k8s.io/karpenter/pkg/events"
	"sigs.k8s.io/karpenter/pkg/scheduling"
	disruptionutils "sigs.k8s.io/karpenter/pkg/utils/disruption"
	"sigs.k8s.io/karpenter/pkg/utils/pdb"

	"verifharness/kit"
)

var _ = fake.NewCloudProvider // the fake provider's init registers the reservation-id label

type caseJSON struct {
	Kind  string      `json:"kind"`
	World *worldSpec  `json:"world,omitempty"`
	Cands []string    `json:"candidates,omitempty"`
	Extra interface{} `json:"extra,omitempty"`
	KF    string      `json:"kf_key,omitempty"`
}

const (
	kfReserved = "reserved-offering-priced-but-not-reserved"
)

func candSet(cs []*disruption.Candidate) map[string]bool {
	m := map[string]bool{}
	for _, c := range cs {
		m[c.Name()] = true
	}
	return m
}

func (w *world) simulate(cs ...*disruption.Candidate) pscheduling.Results {
	res, err := disruption.SimulateScheduling(w.ctx, w.c, w.cluster, w.prov, w.clk, w.recorder, []pscheduling.Options{pscheduling.IsConsolidationSimulation}, cs...)
	if err != nil {
		panic(fmt.Sprintf("SimulateScheduling: %v", err))
	}
	return res
}

// unreservedReserved: the simulation's single new NodeClaim can still use an available reserved offering although
// its requirements were not pinned to reserved (no reservation was made): the shape of the known finding.
func unreservedReserved(res pscheduling.Results) bool {
	if len(res.NewNodeClaims) != 1 {
		return false
	}
	nc := res.NewNodeClaims[0]
	ct := nc.Requirements.Get(v1.CapacityTypeLabelKey)
	if !ct.Has(v1.CapacityTypeSpot) && !ct.Has(v1.CapacityTypeOnDemand) {
		return false
	}
	for _, it := range nc.InstanceTypeOptions {
		for _, o := range it.Offerings.Available() {
			if o.CapacityType() == v1.CapacityTypeReserved && nc.Requirements.IsCompatible(o.Requirements, scheduling.AllowUndefinedWellKnownLabels) {
				return true
			}
		}
	}
	return false
}

// classify names the branch of computeConsolidation the implementation took (from what it published / returned).
func classify(w *world, cmd disruption.Command, res pscheduling.Results, cs []*disruption.Candidate) string {
	switch cmd.Decision() {
	case disruption.DeleteDecision:
		return "delete"
	case disruption.ReplaceDecision:
		allSpot := true
		for _, c := range cs {
			if _, ct, _, _ := c.VerifInternals(); ct != v1.CapacityTypeSpot {
				allSpot = false
			}
		}
		n := len(cmd.Replacements[0].InstanceTypeOptions)
		switch {
		case allSpot && len(cs) > 1 && len(res.NewNodeClaims) == 1 && res.NewNodeClaims[0].Requirements.Get(v1.CapacityTypeLabelKey).Has(v1.CapacityTypeSpot):
			return "replace:spot_to_spot_multi"
		case allSpot && len(res.NewNodeClaims) == 1 && res.NewNodeClaims[0].Requirements.Get(v1.CapacityTypeLabelKey).Has(v1.CapacityTypeSpot):
			if n > 15 {
				return "replace:spot_to_spot_single_minvalues_cap"
			}
			return "replace:spot_to_spot_single_15"
		}
		before := res.NewNodeClaims[0].Requirements.Get(v1.CapacityTypeLabelKey)
		if before.Has(v1.CapacityTypeSpot) && before.Has(v1.CapacityTypeOnDemand) {
			return "replace:pinned_to_spot"
		}
		return "replace:unpinned"
	}
	why := "noop:other"
	if !res.AllNonPendingPodsScheduled() {
		why = "noop:not_all_scheduled"
	} else if len(res.NewNodeClaims) > 1 {
		why = "noop:more_than_one_replacement"
	}
	w.recorder.ForEachEvent(func(evt events.Event) {
		m := evt.Message
		switch {
		case strings.Contains(m, "SpotToSpotConsolidation is disabled"):
			why = "noop:spot_to_spot_disabled"
		case strings.Contains(m, "Filtering by price"):
			why = "noop:min_values_after_price_filter"
		case strings.Contains(m, "Can't replace with a cheaper node"):
			why = "noop:nothing_cheaper"
		case strings.Contains(m, "cheaper instance type options than the current candidate"):
			why = "noop:fewer_than_15_spot_options"
		}
	})
	return why
}

// worldCase collects everything observed in one world; it becomes one CaseWorld (the catalog is shared).
type worldCase struct {
	w        *world
	mode     string
	computes []string
	shaped   []bool          // per compute entry: the simulation has the shape of the known finding
	have     map[string]bool // candidate-name lists that have a compute entry
	single   string
	multi    string
	filters  []string
	kf       string
	problems []string
	keys     []string
}

func newWorldCase(w *world, mode string) *worldCase {
	return &worldCase{w: w, mode: mode, have: map[string]bool{}, single: "None", multi: "None"}
}

func (wc *worldCase) emit(c *kit.Ctx) {
	if len(wc.computes) == 0 && len(wc.filters) == 0 && wc.single == "None" && wc.multi == "None" {
		return
	}
	in := caseJSON{Kind: "world:" + wc.mode, World: wc.w.spec, KF: wc.kf}
	sort.Strings(wc.keys)
	if wc.kf != "" {
		// the known-finding key silences the oracle for the whole case: keep the entries that do not have the
		// finding's shape under watch in a case of their own
		var clean []string
		for i, e := range wc.computes {
			if !wc.shaped[i] {
				clean = append(clean, e)
			}
		}
		if len(clean) > 0 {
			c.AddCase(fmt.Sprintf("CaseWorld %s %s false [] %s None None []", kit.GBool(wc.w.spec.S2S), wc.w.gCatalog(allMinKeys), kit.GList(clean)),
				caseJSON{Kind: "world:" + wc.mode + ":entries_without_the_finding_shape", World: wc.w.spec}, "")
		}
	}
	id := c.AddCase(fmt.Sprintf("CaseWorld %s %s %s %s %s %s %s %s", kit.GBool(wc.w.spec.S2S), wc.w.gCatalog(allMinKeys), kit.GBool(wc.w.balanced()), wc.w.gBudget(),
		kit.GList(wc.computes), wc.single, wc.multi, kit.GList(wc.filters)),
		in, strings.Join(wc.keys, "+"))
	for _, p := range wc.problems {
		c.Fail(id, "corr:projection: "+p, "", in)
	}
}

var allMinKeys = []string{corev1.LabelInstanceTypeStable, famKey}

type computer interface {
	VerifComputeConsolidation(context.Context, ...*disruption.Candidate) (disruption.Command, error)
}

// computeCase runs computeConsolidation on cs between two harness simulations and records the observation.
func computeCase(c *kit.Ctx, wc *worldCase, cons computer, cs []*disruption.Candidate, tag string) (stable bool, cmd disruption.Command) {
	w := wc.w
	cn := candSet(cs)
	res1 := w.simulate(cs...)
	k1 := w.simKey(res1, cn)
	simG, problems := w.gSim(res1, cn)
	shaped := unreservedReserved(res1)
	if shaped {
		wc.kf = kfReserved
		c.Count("shape:unreserved_reserved_offering")
	}
	w.recorder.Reset()
	cmd, err := cons.VerifComputeConsolidation(w.ctx, cs...)
	if err != nil {
		panic(fmt.Sprintf("computeConsolidation: %v", err))
	}
	branch := classify(w, cmd, res1, cs)
	res2 := w.simulate(cs...)
	if k1 != w.simKey(res2, cn) {
		c.Count("skipped:simulation_not_reproducible")
		return false, cmd
	}
	obsG, p2 := w.gObs(cmd, cs)
	problems = append(problems, p2...)
	if cmd.Decision() == disruption.ReplaceDecision {
		// the code under test may only touch the capacity-type requirement
		if otherKeys(cmd.Replacements[0].Requirements) != otherKeys(res1.NewNodeClaims[0].Requirements) {
			problems = append(problems, "requirements other than capacity-type / zone / reservation-id changed")
		}
	}
	c.Count("compute/" + tag + ":" + branch)
	wc.keys = append(wc.keys, fmt.Sprintf("%s/%d", branch, len(cs)))
	wc.computes = append(wc.computes, fmt.Sprintf("(mkWC %s %s %s)", w.gCands(cs), simG, obsG))
	wc.shaped = append(wc.shaped, shaped)
	wc.have[strings.Join(names(cs), ",")] = true
	wc.problems = append(wc.problems, problems...)
	return true, cmd
}

// budget: the disruptionBudgetMapping handed to ComputeCommands (a fresh map: the methods decrement it).
func (w *world) budget() map[string]int {
	m := map[string]int{}
	for _, p := range w.spec.Pools {
		m[p.Name] = 1000
		if p.Budget != nil {
			m[p.Name] = *p.Budget
		}
	}
	return m
}

func (w *world) gBudget() string {
	m := w.budget()
	return kit.GListOf(kit.SortedKeys(m), func(k string) string { return kit.GPair(gs(k), gz(int64(m[k]))) })
}

func (w *world) balanced() bool {
	for _, p := range w.spec.Pools {
		if p.Policy == "Balanced" {
			return true
		}
	}
	return false
}

// withTotals hands the balanced evaluator its NodePool totals the way the disruption controller does.
func (w *world) withTotals(meth disruption.Method) {
	setter, ok := meth.(disruption.NodePoolTotalsSetter)
	if !ok || !w.balanced() {
		return
	}
	_, totals, err := disruption.GetCandidatesWithTotals(w.ctx, w.cluster, w.c, w.recorder, w.clk, w.cp, meth.ShouldDisrupt, meth.Class(), w.queue, nil)
	if err != nil {
		panic(err)
	}
	setter.SetNodePoolTotals(totals)
}

func namePools(cs []*disruption.Candidate) string {
	return kit.GListOf(cs, func(c *disruption.Candidate) string { return kit.GPair(gs(c.Name()), gs(c.NodePool.Name)) })
}

// budgeted: the candidates multi-node consolidation keeps, in order, under the mapping.
func budgeted(m map[string]int, cs []*disruption.Candidate) []*disruption.Candidate {
	var out []*disruption.Candidate
	for _, cd := range cs {
		if m[cd.NodePool.Name] == 0 {
			continue
		}
		m[cd.NodePool.Name]--
		out = append(out, cd)
	}
	return out
}

// noCommand emits a case that demands "no command": used for a candidate that is being deleted, for an API fault in
// the simulation, and for the second call on an unchanged (consolidated) cluster.
func noCommand(c *kit.Ctx, w *world, kind string, cmds []disruption.Command, err error) {
	obs := "ONoOp"
	for _, cmd := range cmds {
		if cmd.Decision() == disruption.DeleteDecision {
			obs = "ODelete"
		} else if cmd.Decision() == disruption.ReplaceDecision {
			obs = "(OReplace [] [])"
		}
	}
	c.Count("no_command/" + kind + fmt.Sprintf(":err=%v", err != nil))
	c.AddCase("CaseDeleting "+obs, caseJSON{Kind: kind, World: w.spec, Extra: fmt.Sprint(err)}, kind)
}

// shouldCase: every disruptable node with what the ShouldDisrupt predicates read, and what each method kept.
func shouldCase(c *kit.Ctx, w *world) {
	cons := disruption.MakeConsolidation(w.clk, w.cluster, w.c, w.prov, w.cp, w.recorder, w.queue)
	empt := disruption.NewEmptiness(cons)
	all := w.candidatesWith(func(context.Context, *disruption.Candidate) bool { return true }, disruption.GracefulDisruptionClass)
	kc := names(w.candidatesWith(cons.ShouldDisrupt, disruption.GracefulDisruptionClass))
	ke := names(w.candidatesWith(empt.ShouldDisrupt, disruption.GracefulDisruptionClass))
	for _, cd := range all {
		it, _, _, _ := cd.VerifInternals()
		_, hasCT := cd.Labels()[v1.CapacityTypeLabelKey]
		_, hasZone := cd.Labels()[corev1.LabelTopologyZone]
		switch {
		case cd.NodePool.Spec.Replicas != nil:
			c.Count("candidate/static_nodepool")
		case it == nil:
			c.Count("candidate/unknown_instance_type")
		case !hasCT:
			c.Count("candidate/no_capacity_type_label")
		case !hasZone:
			c.Count("candidate/no_zone_label")
		case cd.NodePool.Spec.Disruption.ConsolidateAfter.Duration == nil:
			c.Count("candidate/consolidate_never")
		case cd.NodePool.Spec.Disruption.ConsolidationPolicy == v1.ConsolidationPolicyWhenEmpty:
			c.Count("candidate/policy_when_empty")
		case cd.NodePool.Spec.Disruption.ConsolidationPolicy.IsBalanced():
			c.Count("candidate/policy_balanced")
		case !cd.NodeClaim.StatusConditions().Get(v1.ConditionTypeConsolidatable).IsTrue():
			c.Count("candidate/not_consolidatable")
		default:
			c.Count("candidate/plain")
		}
	}
	c.Count(fmt.Sprintf("candidate/not_disruptable_nodes=%d", len(w.spec.Nodes)-len(all)))
	c.AddCase(fmt.Sprintf("CaseShould %s %s %s", kit.GListOf(all, func(cd *disruption.Candidate) string { return w.gState(cd) }), gstrs(kc), gstrs(ke)),
		caseJSON{Kind: "should_disrupt", World: w.spec}, fmt.Sprintf("should:%d:%d:%d", len(all), len(kc), len(ke)))
}

func runSingle(c *kit.Ctx, g genOut) {
	w := newWorld(g.spec)
	wc := newWorldCase(w, g.mode)
	shouldCase(c, w)
	cons := disruption.MakeConsolidation(w.clk, w.cluster, w.c, w.prov, w.cp, w.recorder, w.queue)
	meth := disruption.NewSingleNodeConsolidation(cons, disruption.WithValidator(passValidator{}))
	w.withTotals(meth)
	cs := w.candidatesWith(meth.ShouldDisrupt, meth.Class())
	c.Count(fmt.Sprintf("world/%s:candidates=%d:pools=%d", g.mode, len(cs), len(g.spec.Pools)))
	allStable := true
	for _, cd := range cs {
		stable, _ := computeCase(c, wc, &cons, []*disruption.Candidate{cd}, g.mode)
		allStable = allStable && stable
	}
	var cmds []disruption.Command
	if len(cs) > 0 && allStable {
		// end to end: the candidate loop (budgets: a pool without budget is skipped)
		var err error
		given := namePools(cs)
		cmds, err = meth.ComputeCommands(w.ctx, w.budget(), cs...)
		if err != nil {
			panic(fmt.Sprintf("single ComputeCommands: %v", err))
		}
		out := "None"
		key := "single:none"
		if len(cmds) > 1 {
			wc.problems = append(wc.problems, "more than one command")
		}
		if len(cmds) == 1 {
			if len(cmds[0].Candidates) != 1 {
				wc.problems = append(wc.problems, "single-node command with several candidates")
			}
			obsG, p2 := w.gObs(cmds[0], cmds[0].Candidates)
			wc.problems = append(wc.problems, p2...)
			out = fmt.Sprintf("(Some (%s, %s))", gs(cmds[0].Candidates[0].Name()), obsG)
			key = "single:" + string(cmds[0].Decision())
		}
		for _, v := range w.budget() {
			if v == 0 {
				key += ":a_pool_without_budget"
				break
			}
		}
		if w.balanced() {
			key += ":balanced"
		}
		c.Count("method/" + key)
		wc.keys = append(wc.keys, key)
		wc.single = fmt.Sprintf("(Some (%s, %s))", given, out)
		if len(cmds) == 0 {
			// nothing found: unless a budget was in the way the cluster is now marked consolidated and a second call
			// returns at once; either way it must not produce a command
			again, err := meth.ComputeCommands(w.ctx, w.budget(), cs...)
			noCommand(c, w, "second_call_after_no_command", again, err)
		}
	}
	wc.emit(c)
	// validation of the proposal after the TTL, the world having moved on
	if len(cmds) == 1 {
		runValidate(c, w, false, cs)
	} else if len(cs) > 0 && c.Rand.Chance(1, 6) {
		// a candidate is marked for deletion after the candidates were built
		w.cluster.MarkForDeletion(cs[0].ProviderID())
		cmd, err := cons.VerifComputeConsolidation(w.ctx, cs[0])
		noCommand(c, w, "candidate_deleting", []disruption.Command{cmd}, err)
		w.cluster.UnmarkForDeletion(cs[0].ProviderID())
	} else if len(cs) > 1 && (c.Rand.Chance(1, 5) || g.mode == "probe_timeout") {
		// the 3-minute timeout of the single-node loop: every published event costs 4 minutes, so the loop gives up after
		// the first candidate that is not consolidatable; the next run starts with the NodePools it has not seen
		rec := &steppingRecorder{EventRecorder: w.recorder, clk: w.clk, step: 4 * time.Minute}
		cons2 := disruption.MakeConsolidation(w.clk, w.cluster, w.c, w.prov, w.cp, rec, w.queue)
		m2 := disruption.NewSingleNodeConsolidation(cons2, disruption.WithValidator(passValidator{}))
		got, err := m2.ComputeCommands(w.ctx, w.budget(), cs...)
		c.Count(fmt.Sprintf("timeout/single:first_run:commands=%d:unseen_pools=%d", len(got), m2.PreviouslyUnseenNodePools.Len()))
		rec.step = 0
		got2, err2 := m2.ComputeCommands(w.ctx, w.budget(), cs...)
		c.Count(fmt.Sprintf("timeout/single:second_run:commands=%d", len(got2)))
		// whatever the loop returns under time pressure must be a decision computeConsolidation makes for that candidate
		for _, g := range [][]disruption.Command{got, got2} {
			for _, cmd := range g {
				if len(cmd.Candidates) != 1 || !wc.have[cmd.Candidates[0].Name()] {
					c.Fail(c.NextID(), "oracle:pods_have_home: command under timeout for an unknown candidate", "", w.spec)
				}
			}
		}
		_, _ = err, err2
	} else if len(cs) > 0 && c.Rand.Chance(1, 5) {
		// the API fails while the simulation lists PodDisruptionBudgets: no decision may come out of it
		w.fail = kit.Pick(c.Rand, []string{"pdb", "pods", "nodepools"})
		m2 := disruption.NewSingleNodeConsolidation(cons, disruption.WithValidator(passValidator{}))
		got, err := m2.ComputeCommands(w.ctx, w.budget(), cs...)
		noCommand(c, w, "fault:list_"+w.fail+":single", got, err)
		if len(cs) > 1 {
			m3 := disruption.NewMultiNodeConsolidation(cons, disruption.WithValidator(passValidator{}))
			got, err = m3.ComputeCommands(w.ctx, w.budget(), cs...)
			noCommand(c, w, "fault:list_"+w.fail+":multi", got, err)
		}
		w.fail = ""
	}
}

func runMulti(c *kit.Ctx, g genOut) {
	w := newWorld(g.spec)
	wc := newWorldCase(w, "multi")
	shouldCase(c, w)
	cons := disruption.MakeConsolidation(w.clk, w.cluster, w.c, w.prov, w.cp, w.recorder, w.queue)
	meth := disruption.NewMultiNodeConsolidation(cons, disruption.WithValidator(passValidator{}))
	w.withTotals(meth)
	cs := w.candidatesWith(meth.ShouldDisrupt, meth.Class())
	c.Count(fmt.Sprintf("world/multi:candidates=%d:pools=%d", len(cs), len(g.spec.Pools)))
	if len(cs) == 0 {
		return
	}
	// ComputeCommands sorts the slice it is given in place: run it first, then probe every prefix of the candidates
	// the budgets leave, in that order
	cmds, err := meth.ComputeCommands(w.ctx, w.budget(), cs...)
	if err != nil {
		panic(fmt.Sprintf("multi ComputeCommands: %v", err))
	}
	if len(cmds) == 0 {
		again, err := meth.ComputeCommands(w.ctx, w.budget(), cs...)
		noCommand(c, w, "second_call_after_no_command:multi", again, err)
	}
	dis := budgeted(w.budget(), cs)
	allStable := true
	for k := 2; k <= len(dis); k++ {
		stable, _ := computeCase(c, wc, &cons, dis[:k], "multi")
		allStable = allStable && stable
	}
	if allStable {
		out := "None"
		key := "multi:none"
		if len(cmds) == 1 {
			k := len(cmds[0].Candidates)
			got := strings.Join(names(cmds[0].Candidates), ",")
			if k > len(dis) || got != strings.Join(names(dis[:k]), ",") {
				wc.problems = append(wc.problems, "multi-node command is not a prefix of the budgeted sorted candidates: "+got)
				k = 0
			}
			obsG, p2 := w.gObs(cmds[0], cmds[0].Candidates)
			wc.problems = append(wc.problems, p2...)
			out = fmt.Sprintf("(Some (%d%%nat, %s))", k, obsG)
			key = fmt.Sprintf("multi:%s:%d_of_%d", cmds[0].Decision(), k, len(dis))
		}
		if len(dis) < len(cs) {
			key += ":budget_limited"
		}
		if w.balanced() {
			key += ":balanced"
		}
		c.Count("method/" + key)
		wc.keys = append(wc.keys, key)
		wc.multi = fmt.Sprintf("(Some (%s, %s))", namePools(cs), out)
	}
	// filterOutSameInstanceType directly, on synthetic replacements over this world's candidates
	if len(cs) >= 2 {
		runFilter(c, wc, cs)
	}
	wc.emit(c)
	if len(cmds) == 1 {
		runValidate(c, w, true, cs)
	}
}

// runFilter calls filterOutSameInstanceType with replacements made of catalog subsets and generated requirements.
func runFilter(c *kit.Ctx, wc *worldCase, cs []*disruption.Candidate) {
	w := wc.w
	r := c.Rand
	for rep := 0; rep < 2; rep++ {
		k := r.Range(1, len(cs))
		sub := cs[:k]
		var opts []*cloudprovider.InstanceType
		for _, it := range w.cp.InstanceTypes {
			if r.Chance(2, 3) {
				opts = append(opts, it)
			}
		}
		reqs := genReqs(r, len(opts))
		before := gReqs(reqs)
		optNames := gstrs(itNames(opts))
		repl := &disruption.Replacement{NodeClaim: &pscheduling.NodeClaim{NodeClaimTemplate: pscheduling.NodeClaimTemplate{Requirements: reqs, InstanceTypeOptions: append(cloudprovider.InstanceTypes(nil), opts...)}}}
		got, err := disruption.VerifFilterOutSameInstanceType(repl, sub)
		out := "None"
		key := "filter:error"
		if err == nil {
			out = "(Some " + gstrs(itNames(got.InstanceTypeOptions)) + ")"
			switch {
			case len(got.InstanceTypeOptions) == 0:
				key = "filter:none_left"
			case len(got.InstanceTypeOptions) == len(opts):
				key = "filter:all_kept"
			default:
				key = "filter:some_kept"
			}
		}
		c.Count("unit/" + key)
		wc.keys = append(wc.keys, key)
		wc.filters = append(wc.filters, fmt.Sprintf("(%s, %s, %s, %s)", w.gCands(sub), before, optNames, out))
	}
}

// genReqs: a requirement map as a NodeClaim could carry it after scheduling.
func genReqs(r *kit.Rand, nopts int) scheduling.Requirements {
	reqs := scheduling.NewRequirements()
	switch r.Intn(8) {
	case 0, 1:
	case 2:
		reqs.Add(scheduling.NewRequirement(v1.CapacityTypeLabelKey, corev1.NodeSelectorOpIn, "spot"))
	case 3:
		reqs.Add(scheduling.NewRequirement(v1.CapacityTypeLabelKey, corev1.NodeSelectorOpIn, "on-demand"))
	case 4:
		reqs.Add(scheduling.NewRequirement(v1.CapacityTypeLabelKey, corev1.NodeSelectorOpIn, "spot", "on-demand"))
	case 5:
		reqs.Add(scheduling.NewRequirement(v1.CapacityTypeLabelKey, corev1.NodeSelectorOpIn, "reserved", "on-demand"))
	case 6:
		reqs.Add(scheduling.NewRequirement(v1.CapacityTypeLabelKey, corev1.NodeSelectorOpNotIn, kit.Pick(r, []string{"spot", "reserved", "on-demand"})))
	default:
		reqs.Add(scheduling.NewRequirement(v1.CapacityTypeLabelKey, corev1.NodeSelectorOpExists))
	}
	switch r.Intn(5) {
	case 0:
		reqs.Add(scheduling.NewRequirement(corev1.LabelTopologyZone, corev1.NodeSelectorOpIn, kit.Pick(r, zoneNames)))
	case 1:
		reqs.Add(scheduling.NewRequirement(corev1.LabelTopologyZone, corev1.NodeSelectorOpIn, "z1", "z2"))
	case 2:
		reqs.Add(scheduling.NewRequirement(corev1.LabelTopologyZone, corev1.NodeSelectorOpNotIn, kit.Pick(r, zoneNames)))
	}
	switch r.Intn(8) {
	case 0:
		reqs.Add(scheduling.NewRequirement(cloudprovider.ReservationIDLabel, corev1.NodeSelectorOpDoesNotExist))
	case 1:
		reqs.Add(scheduling.NewRequirement(cloudprovider.ReservationIDLabel, corev1.NodeSelectorOpIn, "r-t00-z1", "r-t01-z2", "r-c0-z1"))
	}
	if r.Chance(1, 3) {
		mv := kit.Pick(r, []int{1, 2, nopts - 1, nopts, nopts + 1})
		if mv < 1 {
			mv = 1
		}
		if r.Bool() {
			reqs.Add(scheduling.NewRequirementWithFlexibility(corev1.LabelInstanceTypeStable, corev1.NodeSelectorOpExists, &mv))
		} else {
			mv = r.Range(1, 4)
			reqs.Add(scheduling.NewRequirementWithFlexibility(famKey, corev1.NodeSelectorOpExists, &mv))
		}
	}
	return reqs
}

const validationTTL = 15 * time.Second // commandValidationDelay

// duringTTL runs validate (which blocks on the FakeClock for the validation TTL), lets the world move on while it
// waits, then advances the clock past the TTL.
func duringTTL(w *world, change func(), validate func()) {
	done := make(chan struct{})
	go func() { defer close(done); validate() }()
	for i := 0; !w.clk.HasWaiters(); i++ {
		select {
		case <-done: // returned without waiting
			change()
			return
		default:
		}
		if i > 200000 {
			panic("validator never waited on the clock")
		}
		time.Sleep(50 * time.Microsecond)
	}
	change()
	w.clk.Step(validationTTL + time.Second)
	<-done
}

func (w *world) addPendingPod(name string, cpum int) {
	pod := w.mkPod(podSpec{Name: name, CPUm: cpum}, "", "")
	pod.Status.Conditions = []corev1.PodCondition{{Type: corev1.PodScheduled, Reason: corev1.PodReasonUnschedulable, Status: corev1.ConditionFalse}}
	pod.Status.Phase = corev1.PodPending
	kit.Apply(w.ctx, w.c, pod)
	if err := w.cluster.UpdatePod(w.ctx, pod); err != nil {
		panic(err)
	}
}

func (w *world) bindPod(p podSpec, node string) {
	pod := w.mkPod(p, node, node)
	kit.Apply(w.ctx, w.c, pod)
	if err := w.cluster.UpdatePod(w.ctx, pod); err != nil {
		panic(err)
	}
}

// deletePodOn removes one pod of the node from the API and the cluster state; false if the node runs none.
func (w *world) deletePodOn(node string) bool {
	pods := &corev1.PodList{}
	if err := w.c.List(w.ctx, pods, client.MatchingFields{"spec.nodeName": node}); err != nil {
		panic(err)
	}
	if len(pods.Items) == 0 {
		return false
	}
	sort.Slice(pods.Items, func(i, j int) bool { return pods.Items[i].Name < pods.Items[j].Name })
	p := &pods.Items[0]
	if err := w.c.Delete(w.ctx, p); err != nil {
		panic(err)
	}
	w.cluster.DeletePod(client.ObjectKeyFromObject(p))
	return true
}

// boundNow: the reschedulable pods bound to the given nodes as the API has them now.
func (w *world) boundNow(nodes []string) []*corev1.Pod {
	limits, err := pdb.NewLimits(w.ctx, w.c)
	if err != nil {
		panic(err)
	}
	var out []*corev1.Pod
	for _, n := range nodes {
		pods := &corev1.PodList{}
		if err := w.c.List(w.ctx, pods, client.MatchingFields{"spec.nodeName": n}); err != nil {
			panic(err)
		}
		for i := range pods.Items {
			if p := &pods.Items[i]; limits.IsCurrentlyReschedulable(p, w.clk, w.recorder) {
				out = append(out, p)
			}
		}
	}
	return out
}

// worldChange picks what happens during the validation TTL.
func worldChange(r *kit.Rand, w *world, cmd disruption.Command) (string, func()) {
	target := kit.Pick(r, cmd.Candidates).Name()
	switch r.Intn(15) {
	case 11: // an API fault while validating: Validate fails with a plain error, no command may come out
		kind := kit.Pick(r, []string{"pdb", "pods", "nodepools"})
		return "fault:list_" + kind, func() { w.fail = kind }
	case 12: // the candidate is nominated after the re-simulation, before the final re-validation of the candidates
		n := 0
		return "nominated_before_revalidation", func() {
			w.onList = func(kind string) {
				if kind == "pdb" {
					if n++; n == 3 {
						w.cluster.NominateNodeForPod(w.ctx, providerID(target))
					}
				}
			}
		}
	case 13: // ... or between rebuilding the candidates and the nomination / budget loop
		n := 0
		return "nominated_while_validating_candidates", func() {
			w.onList = func(kind string) {
				if kind == "nodepools" {
					if n++; n == 2 {
						w.cluster.NominateNodeForPod(w.ctx, providerID(target))
					}
				}
			}
		}
	case 14: // room appears elsewhere: a replace command is no longer needed
		return "roomy_node_added", func() {
			w.addNodeLive(nodeSpec{Name: "roomy", Pool: cmd.Candidates[0].NodePool.Name, IT: "c0", CT: "on-demand", Zone: "z1", CPU: 64, Init: true, Protect: true})
		}
	case 10: // the NodePool's disruption budget is closed during the TTL
		pool := cmd.Candidates[0].NodePool.Name
		return "budget_closed", func() { w.closeBudget(pool) }
	case 0:
		if len(cmd.Replacements) == 1 && len(cmd.Replacements[0].InstanceTypeOptions) > 0 {
			gone := kit.Pick(r, cmd.Replacements[0].InstanceTypeOptions).Name
			return "replacement_option_unavailable", func() {
				w.rebuildCatalog(func(it *itSpec) {
					if it.Name == gone {
						for i := range it.Offs {
							it.Offs[i].Avail = false
						}
					}
				})
			}
		}
	case 1, 2: // a pod is bound straight to a candidate and has nowhere else to go (too big, or pinned)
		p := podSpec{Name: "late-0", CPUm: kit.Pick(r, []int{7000, 15000, 40000})}
		if r.Bool() {
			p = podSpec{Name: "late-0", CPUm: 300, Pin: true}
		}
		return "pod_bound_to_candidate:no_room_elsewhere", func() { w.bindPod(p, target) }
	case 3, 4: // a pod is bound to a candidate and probably fits the replacement / the other nodes
		p := podSpec{Name: "late-0", CPUm: kit.Pick(r, []int{100, 300, 900, 2500})}
		return "pod_bound_to_candidate:small", func() { w.bindPod(p, target) }
	case 5:
		return "pod_deleted_from_candidate", func() { w.deletePodOn(target) }
	case 6:
		return "candidate_nominated", func() { w.cluster.NominateNodeForPod(w.ctx, providerID(target)) }
	case 7:
		return "candidate_marked_for_deletion", func() { w.cluster.MarkForDeletion(providerID(target)) }
	case 8:
		cpu := kit.Pick(r, []int{500, 15000})
		return "pending_pod_added", func() { w.addPendingPod("late-pending", cpu) }
	case 9:
		return "many_offerings_unavailable", func() {
			w.rebuildCatalog(func(it *itSpec) {
				if r.Chance(1, 2) {
					for i := range it.Offs {
						if r.Chance(1, 2) {
							it.Offs[i].Avail = false
						}
					}
				}
			})
		}
	}
	return "none", func() {}
}

// closeBudget edits the NodePool in the API: budgets [{nodes: "0"}].
func (w *world) closeBudget(pool string) {
	np := &v1.NodePool{}
	if err := w.c.Get(w.ctx, client.ObjectKey{Name: pool}, np); err != nil {
		panic(err)
	}
	np.Spec.Disruption.Budgets = []v1.Budget{{Nodes: "0"}}
	if err := w.c.Update(w.ctx, np); err != nil {
		panic(err)
	}
}

// ttlValidator sits where the method's validator sits: it remembers the proposal, lets the world move on while the REAL
// validator waits for the validation TTL on the FakeClock, and returns the real validator's verdict.
type ttlValidator struct {
	w        *world
	inner    disruption.Validator
	pick     func(disruption.Command) (string, func())
	proposal *disruption.Command
	change   string
	err      error
}

func (t *ttlValidator) Validate(ctx context.Context, cmd disruption.Command, _ time.Duration) (disruption.Command, error) {
	cp := cmd
	t.proposal = &cp
	var apply func()
	t.change, apply = t.pick(cmd)
	var out disruption.Command
	duringTTL(t.w, apply, func() { out, t.err = t.inner.Validate(ctx, cmd, validationTTL) })
	return out, t.err
}

// runValidate: the method computes its proposal again, this time with the REAL validator behind the TTL; while it waits
// the world moves on; then everything the oracle and the model read is taken from the world as it is at validation time:
// the candidates rebuilt from the cluster state, the pods bound to the candidate nodes in the API, the budgets, the
// harness's simulation over the current candidates.
func runValidate(c *kit.Ctx, w *world, multi bool, cs []*disruption.Candidate) {
	cons := disruption.MakeConsolidation(w.clk, w.cluster, w.c, w.prov, w.cp, w.recorder, w.queue)
	tv := &ttlValidator{w: w, pick: func(cmd disruption.Command) (string, func()) { return worldChange(c.Rand, w, cmd) }}
	kind := "single"
	var meth disruption.Method
	if multi {
		kind = "multi"
		tv.inner = disruption.NewMultiConsolidationValidator(cons)
		meth = disruption.NewMultiNodeConsolidation(cons, disruption.WithValidator(tv))
	} else {
		tv.inner = disruption.NewSingleConsolidationValidator(cons)
		meth = disruption.NewSingleNodeConsolidation(cons, disruption.WithValidator(tv))
	}
	w.withTotals(meth)
	cmds, err := meth.ComputeCommands(w.ctx, w.budget(), cs...)
	w.onList = nil
	if w.fail != "" {
		noCommand(c, w, "fault:list_"+w.fail+":during_validation:"+kind, cmds, err)
		w.fail = ""
		return
	}
	if err != nil {
		panic(fmt.Sprintf("%s ComputeCommands with the real validator: %v", kind, err))
	}
	if tv.proposal == nil {
		c.Count("validated/" + kind + ":no_proposal")
		return
	}
	cmd := *tv.proposal
	change, verr := tv.change, tv.err
	if verr != nil && !disruption.IsValidationError(verr) {
		panic(fmt.Sprintf("Validate: %v", verr))
	}
	accepted := len(cmds) == 1
	if accepted != (verr == nil) {
		c.Fail(c.NextID(), "corr:projection: ComputeCommands does not follow its validator's verdict", "", w.spec)
	}
	// ---- the world at validation time
	proposed := names(cmd.Candidates)
	want := sets.New(proposed...)
	present := 0
	for _, cd := range w.candidatesWith(cons.ShouldDisrupt, disruption.GracefulDisruptionClass) {
		if want.Has(cd.Name()) {
			present++
		}
	}
	nominated := false
	perPool := map[string]int{}
	for _, cd := range cmd.Candidates {
		nominated = nominated || w.cluster.IsNodeNominated(cd.ProviderID())
		perPool[cd.NodePool.Name]++
	}
	budgets, err := disruption.BuildDisruptionBudgetMapping(w.ctx, w.cluster, w.clk, w.c, w.cp, w.recorder, v1.DisruptionReasonUnderutilized)
	if err != nil {
		panic(err)
	}
	budgetOK := true
	for pool, n := range perPool {
		budgetOK = budgetOK && budgets[pool] >= n
	}
	var cur []*disruption.Candidate
	for _, cd := range w.candidatesWith(func(context.Context, *disruption.Candidate) bool { return true }, disruption.GracefulDisruptionClass) {
		if want.Has(cd.Name()) {
			cur = append(cur, cd)
		}
	}
	simG := "(mkCS [] [])"
	var problems []string
	if len(cur) == len(proposed) {
		cn := candSet(cur)
		res1 := w.simulate(cur...)
		simG, problems = w.gSim(res1, cn)
		if w.simKey(res1, cn) != w.simKey(w.simulate(cur...), cn) {
			c.Count("skipped:simulation_not_reproducible")
			return
		}
	}
	bound := w.boundNow(proposed)
	ids := make([]int, 0, len(bound))
	for _, p := range bound {
		id, ok := w.podIDs[p.Name]
		if !ok {
			problems = append(problems, "unknown pod bound to a candidate: "+p.Name)
		}
		ids = append(ids, id)
	}
	sort.Ints(ids)
	var repl []string
	if len(cmd.Replacements) > 0 {
		repl = itNames(cmd.Replacements[0].InstanceTypeOptions)
	}
	in := caseJSON{Kind: "validated:" + kind, World: w.spec, Cands: proposed, Extra: map[string]interface{}{
		"during_ttl": change, "decision": string(cmd.Decision()), "replacement": repl, "accepted": accepted, "validation_error": fmt.Sprint(verr),
		"pods_bound_to_candidates_at_validation": len(ids)}}
	key := fmt.Sprintf("validated/%s:%s:accepted=%v", kind, change, accepted)
	c.Count(key)
	id := c.AddCase(fmt.Sprintf("CaseValidated %d%%nat %s %s %s %s %s %s %s %s", len(cmd.Replacements), gstrs(repl), w.gCatalog(allMinKeys),
		kit.GBool(present == len(proposed)), kit.GBool(nominated), kit.GBool(budgetOK), simG,
		kit.GListOf(ids, func(i int) string { return gz(int64(i)) }), kit.GBool(accepted)), in, key)
	for _, p := range problems {
		c.Fail(id, "corr:projection: "+p, "", in)
	}
}

func runEmpty(c *kit.Ctx, g genOut, forceReal bool) {
	w := newWorld(g.spec)
	shouldCase(c, w)
	cons := disruption.MakeConsolidation(w.clk, w.cluster, w.c, w.prov, w.cp, w.recorder, w.queue)
	real := c.Rand.Bool() || forceReal
	meth := disruption.NewEmptiness(cons, disruption.WithValidator(passValidator{}))
	// hand Emptiness every disruptable node (it re-checks IsEmpty itself), or only what it asks for
	filter := meth.ShouldDisrupt
	if c.Rand.Bool() && !real {
		filter = func(context.Context, *disruption.Candidate) bool { return true }
	}
	cs := w.candidatesWith(filter, meth.Class())
	cmds, err := meth.ComputeCommands(w.ctx, w.budget(), cs...)
	if err != nil {
		panic(fmt.Sprintf("emptiness ComputeCommands: %v", err))
	}
	given := w.gCands(cs) // ComputeCommands sorted cs in place: the method's order
	var sel []string
	withPods := false
	for _, cmd := range cmds {
		if cmd.Decision() != disruption.DeleteDecision {
			c.Fail(c.NextID(), "corr:projection: emptiness command is not a delete", "", g.spec)
		}
		for _, cd := range cmd.Candidates {
			sel = append(sel, cd.Name())
			if _, _, _, pods := cd.VerifInternals(); len(pods) > 0 {
				withPods = true // a node whose pods all have eviction cost <= 0 counts as empty (by design)
			}
		}
	}
	sort.Strings(sel)
	key := fmt.Sprintf("empty:selected=%d_of_%d", len(sel), len(cs))
	for _, v := range w.budget() {
		if v < 1000 {
			key += ":budgeted"
			break
		}
	}
	c.Count("method/" + key)
	if withPods {
		c.Count("shape:empty_node_with_nonpositive_cost_pods")
	}
	c.AddCase(fmt.Sprintf("CaseEmpty %s %s %s", w.gBudget(), given, gstrs(sel)), caseJSON{Kind: "emptiness", World: w.spec, Cands: names(cs)}, fmt.Sprint(key, withPods))
	if len(cmds) == 0 {
		again, err := meth.ComputeCommands(w.ctx, w.budget(), cs...)
		noCommand(c, w, "second_call_after_no_command:emptiness", again, err)
	}
	if !real || len(cmds) != 1 {
		return
	}
	// the real EmptinessValidator behind the TTL, the world moving on while it waits
	tv := &ttlValidator{w: w, inner: disruption.NewEmptinessValidator(cons), pick: func(cmd disruption.Command) (string, func()) {
		target := kit.Pick(c.Rand, cmd.Candidates).Name()
		if forceReal {
			return "none", func() {}
		}
		switch c.Rand.Intn(9) {
		case 7:
			kind := kit.Pick(c.Rand, []string{"pdb", "pods", "nodepools"})
			return "fault:list_" + kind, func() { w.fail = kind }
		case 0:
			return "pod_bound_to_candidate:default_cost", func() { w.bindPod(podSpec{Name: "late-0", CPUm: 200}, target) }
		case 1:
			return "pod_bound_to_candidate:zero_cost", func() { w.bindPod(podSpec{Name: "late-0", CPUm: 200, Del: ptr(int64(-134217728))}, target) }
		case 2:
			return "candidate_nominated", func() { w.cluster.NominateNodeForPod(w.ctx, providerID(target)) }
		case 3:
			return "candidate_marked_for_deletion", func() { w.cluster.MarkForDeletion(providerID(target)) }
		case 4:
			return "pod_deleted_from_candidate", func() { w.deletePodOn(target) }
		case 5:
			return "budget_closed", func() { w.closeBudget(cmd.Candidates[0].NodePool.Name) }
		case 6:
			return "every_candidate_gets_a_pod", func() {
				for i, cd := range cmd.Candidates {
					w.bindPod(podSpec{Name: fmt.Sprintf("late-%d", i), CPUm: 100}, cd.Name())
				}
			}
		}
		return "none", func() {}
	}}
	m2 := disruption.NewEmptiness(cons, disruption.WithValidator(tv))
	cs2 := w.candidatesWith(m2.ShouldDisrupt, m2.Class())
	out, err := m2.ComputeCommands(w.ctx, w.budget(), cs2...)
	if w.fail != "" {
		noCommand(c, w, "fault:list_"+w.fail+":during_validation:emptiness", out, err)
		w.fail = ""
		return
	}
	if err != nil {
		panic(fmt.Sprintf("emptiness ComputeCommands with the real validator: %v", err))
	}
	if tv.proposal == nil {
		return
	}
	if tv.err != nil && !disruption.IsValidationError(tv.err) {
		panic(fmt.Sprintf("emptiness Validate: %v", tv.err))
	}
	cmd := *tv.proposal
	budgets, err := disruption.BuildDisruptionBudgetMapping(w.ctx, w.cluster, w.clk, w.c, w.cp, w.recorder, v1.DisruptionReasonEmpty)
	if err != nil {
		panic(err)
	}
	cur := w.candidatesWith(m2.ShouldDisrupt, m2.Class())
	budgetOK := true
	perPool := map[string]int{}
	for _, cd := range cur {
		perPool[cd.NodePool.Name]++
	}
	for pool, n := range perPool {
		budgetOK = budgetOK && budgets[pool] >= n
	}
	curG := kit.GListOf(cur, func(cd *disruption.Candidate) string {
		return kit.GPair(w.gCand(cd), kit.GBool(w.cluster.IsNodeNominated(cd.ProviderID())))
	})
	outG := "None"
	if len(out) == 1 {
		kept := names(out[0].Candidates)
		sort.Strings(kept)
		outG = "(Some " + gstrs(kept) + ")"
	}
	vkey := fmt.Sprintf("validated/empty:%s:accepted=%v", tv.change, len(out) == 1)
	c.Count(vkey)
	c.AddCase(fmt.Sprintf("CaseEmptyValidated %s %s %s %s", gstrs(names(cmd.Candidates)), kit.GBool(budgetOK), curG, outG),
		caseJSON{Kind: "validated:emptiness", World: w.spec, Cands: names(cmd.Candidates), Extra: map[string]interface{}{"during_ttl": tv.change, "validation_error": fmt.Sprint(tv.err)}}, vkey)
}

// ---- pure units

func genOfferings(r *kit.Rand) cloudprovider.Offerings {
	var specs []offSpec
	for j := r.Range(0, 6); j > 0; j-- {
		o := offSpec{CT: kit.Pick(r, []string{"spot", "on-demand", "reserved", "spot", "on-demand"}), Zone: kit.Pick(r, zoneNames), Price: int64(r.Range(0, 12)) * 256, Avail: !r.Chance(1, 4)}
		if o.CT == "reserved" {
			o.RID = kit.Pick(r, []string{"r-t00-z1", "r-t01-z2", "r-x"})
			o.Cap = r.Intn(3)
		}
		specs = append(specs, o)
	}
	var out cloudprovider.Offerings
	for _, s := range dedupOffs(specs) {
		out = append(out, mkOffering(s))
	}
	return out
}

func runUnits(c *kit.Ctx, n int) {
	r := c.Rand
	for i := 0; i < n; i++ {
		reqs := genReqs(r, 3)
		ofs := genOfferings(r)
		wlp := ofs.WorstLaunchPrice(reqs)
		okey := "None"
		if co := ofs.Available().Compatible(reqs); len(co) > 0 {
			okey = "(Some " + gz(units(co.Cheapest().Price)) + ")"
		}
		compat := make([]string, len(ofs))
		for j, o := range ofs {
			compat[j] = kit.GBool(reqs.IsCompatible(o.Requirements, scheduling.AllowUndefinedWellKnownLabels))
		}
		itc := len(cloudprovider.InstanceTypes{{Name: "x", Offerings: ofs}}.Compatible(reqs)) > 0
		class := "none"
		switch {
		case len(ofs.Compatible(reqs).Compatible(cloudprovider.ReservedRequirement)) > 0:
			class = "reserved"
		case len(ofs.Compatible(reqs).Compatible(cloudprovider.SpotRequirement)) > 0:
			class = "spot"
		case len(ofs.Compatible(reqs).Compatible(cloudprovider.OnDemandRequirement)) > 0:
			class = "on-demand"
		}
		c.Count("unit/worst_launch_price:" + class)
		c.AddCase(fmt.Sprintf("CaseWLP %s %s %s %s %s %s", gReqs(reqs), gOfferings(ofs), gPrice(wlp), okey, kit.GList(compat), kit.GBool(itc)),
			caseJSON{Kind: "worst_launch_price", Extra: map[string]string{"requirements": reqs.String(), "offerings": gOfferings(ofs)}}, "wlp:"+class+gReqs(reqs))
	}
	// OrderByPrice on small lists
	for i := 0; i < n/3; i++ {
		reqs := genReqs(r, 3)
		var its cloudprovider.InstanceTypes
		for j := r.Range(2, 7); j > 0; j-- {
			its = append(its, &cloudprovider.InstanceType{Name: fmt.Sprintf("o%d", j), Offerings: genOfferings(r)})
		}
		cat := kit.GListOf(its, func(it *cloudprovider.InstanceType) string { return gInstanceType(it, nil) })
		sorted := its.OrderByPrice(reqs)
		c.Count("unit/order_by_price")
		c.AddCase(fmt.Sprintf("CaseOrder %s %s %s", gReqs(reqs), cat, gstrs(itNames(sorted))), caseJSON{Kind: "order_by_price", Extra: reqs.String()}, "")
	}
	// EvictionCost at the clamp and zero boundaries
	dels := []int64{0, 1, -1, -134217728, -134217727, -134217729, 134217728, 2147483647, -2147483647, -2147483648, 1207959552, 1207959551, 1207959553, -1476395008, -1476395007, -1476395009}
	prios := []int32{0, 1, -1, -33554432, -33554431, -33554433, 1000000000, -2147483648, 301989888, 301989887, 301989889, 2000000000}
	for _, d := range dels {
		for _, p := range prios {
			pod := &corev1.Pod{}
			pod.Annotations = map[string]string{corev1.PodDeletionCost: fmt.Sprint(d)}
			pp := p
			pod.Spec.Priority = &pp
			cost := disruptionutils.EvictionCost(context.Background(), pod)
			c.Count("unit/eviction_cost")
			c.AddCase(fmt.Sprintf("CaseEvict %s %s %s", gz(d), gz(int64(p)), gz(evictionUnits(cost))), caseJSON{Kind: "eviction_cost", Extra: []int64{d, int64(p)}}, "")
		}
	}
}

func main() {
	c := kit.Parse("C06", os.Args[1:])
	// kit.NewRand(seed) starts seed steps into ONE splitmix64 sequence, so neighbouring seeds replay each other's
	// stream shifted by one draw; scramble the seed so that different seeds give unrelated worlds
	c.Rand = kit.NewRand((c.Seed*0x2545F4914F6CDD1D ^ 0xD1B54A32D192ED03) >> 1)
	if f := os.Getenv("C06_PROF"); f != "" {
		pf, _ := os.Create(f)
		_ = pprof.StartCPUProfile(pf)
		defer pprof.StopCPUProfile()
	}
	c.Meta.Rule = "worlds: generated catalogs (zones x capacity types x prices at / next to the candidate price sums x availability x reserved offerings), " +
		"NodePools (capacity-type requirement, minValues), candidate nodes with pods (eviction costs at / next to zero), sinks, deleting nodes, pending pods; " +
		"the real computeConsolidation / Single / Multi / Emptiness ComputeCommands / validateCommand / filterOutSameInstanceType vs the model fed with the harness's own SimulateScheduling result; oracle on every emitted command"
	c.Meta.Corr = []string{
		"consolidation.computeConsolidation + computeSpotToSpotConsolidation (after SimulateScheduling) = C06.Model.compute (decision, requirements, instance types in order)",
		"InstanceTypes.OrderByPrice: result sorted by C06.Model.order_key (relational: sort.Slice is unstable)",
		"NodeClaim.RemoveInstanceTypeOptionsByPriceAndMinValues / InstanceTypes.SatisfiesMinValues / Compatible = C06.Model.remove_by_price_mv / sat_min_values / its_compatible (through compute and filter_out_same_type)",
		"Offerings.WorstLaunchPrice / Available / Compatible / Cheapest = C06.Model.worst_launch_price / available / compat_offs / min_price",
		"filterOutSameInstanceType = C06.Model.filter_out_same_type",
		"MultiNodeConsolidation.ComputeCommands (firstNConsolidationOption) = C06.Model.first_n",
		"SingleNodeConsolidation.ComputeCommands = C06.Model.single (order-insensitive)",
		"Emptiness.ComputeCommands / Candidate.IsEmpty / computeRescheduleDisruptionCost = C06.Model.emptiness",
		"EvictionCost = C06.Model.eviction_cost",
		"resolveNodePrice (Candidate.Price) = C06.Model.cand_price",
		"consolidation.ShouldDisrupt / Emptiness.ShouldDisrupt = C06.Model.should_disrupt_consolidation / should_disrupt_emptiness",
		"disruption budgets in Single / Multi / Emptiness ComputeCommands = C06.Model.single_budget / multi_budget",
		"ConsolidationValidator.Validate after the TTL, on the world as it is then (validateCandidates + mapCandidates + validateCommand) = C06.Model.validate",
		"EmptinessValidator.Validate after the TTL = C06.Model.validate_empty",
		"SimulateScheduling post-processing + Results.AllNonPendingPodsScheduled = C06.Model.errored / all_scheduled (through compute)",
	}
	c.Meta.Extra = map[string]interface{}{"assumptions": []string{
		"Scheduler.Solve is an input of the model (its soundness is C01); a case is emitted only when two harness simulations around the call under test agree",
		"prices are exact multiples of 2^-10 below 2^30; price overlays are not modelled",
		"Balanced NodePools: the balanced evaluator is run (SetNodePoolTotals) but modelled relationally: it may reject a command, never change it (theorems hold for any evaluator)",
	}}
	// constants
	wk := []string{kit.GBool(v1.WellKnownLabels.Has(v1.CapacityTypeLabelKey)), kit.GBool(v1.WellKnownLabels.Has(corev1.LabelTopologyZone)), kit.GBool(v1.WellKnownLabels.Has(cloudprovider.ReservationIDLabel))}
	c.AddCase(fmt.Sprintf("CaseConst %s %s %s", gstrs([]string{v1.CapacityTypeLabelKey, corev1.LabelTopologyZone, cloudprovider.ReservationIDLabel, v1.CapacityTypeReserved, v1.CapacityTypeSpot, v1.CapacityTypeOnDemand}),
		kit.GList(wk), gz(disruption.MinInstanceTypesForSpotToSpotConsolidation)), caseJSON{Kind: "constants"}, "")

	scale, shard := 1, 90
	if c.Thorough() {
		scale, shard = 5, 200
	}
	runUnits(c, 150*scale)
	plan := []struct {
		mode string
		n    int
	}{{"single", 70}, {"s2s", 70}, {"reserved", 40}, {"multi", 60}, {"empty", 30}}
	for _, p := range plan {
		for i := 0; i < p.n*scale; i++ {
			r := c.Rand.Fork()
			saved := c.Rand
			c.Rand = r
			switch p.mode {
			case "multi":
				runMulti(c, genWorld(r, "multi"))
			case "empty":
				runEmpty(c, genWorld(r, "empty"), false)
			default:
				runSingle(c, genWorld(r, p.mode))
			}
			c.Rand = saved
		}
	}
	runProbes(c)
	c.Finish("From KV Require Import C06.Model C06.Spec C06.Check.", "case", "check_all", shard)
	if d := os.Getenv("GOCOVERDIR"); d != "" { // coverage-instrumented build: flush explicitly
		if err := coverage.WriteMetaDir(d); err != nil { fmt.Fprintln(os.Stderr, "coverage:", err) }
		if err := coverage.WriteCountersDir(d); err != nil { fmt.Fprintln(os.Stderr, "coverage:", err) }
	}
}
